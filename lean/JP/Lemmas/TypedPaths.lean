import JP.Lemmas.TypedFields

/-!
# The index sequences of `typeFields` are valid paths of the type

`pathOk t idx`: following `idx` from `t` (through at most one pointer per step, as `typeByIndex`
does) never leaves the type.  Every field the breadth-first search of `typeFields` records or queues
has such an index sequence (`typeFields_pathOk`).
-/

namespace JP
namespace Codec
namespace Typed

/-- `typeByIndex t idx` never falls off: each step finds field `i` of a struct or pointer to struct -/
def pathOk : GoType → List Nat → Bool
  | _, [] => true
  | t, i :: is =>
    match (structFieldsOf t.deref)[i]? with
    | some (_, ft) => pathOk ft is
    | none => false

theorem typeByIndex_bool : ∀ q : List Nat, typeByIndex .bool q = .bool
  | [] => rfl
  | _ :: _ => rfl

theorem typeByIndex_append : ∀ (p q : List Nat) (t : GoType),
    typeByIndex t (p ++ q) = typeByIndex (typeByIndex t p) q
  | [], _, _ => rfl
  | i :: is, q, t => by
    simp only [List.cons_append, typeByIndex]
    cases hg : (structFieldsOf t.deref)[i]? with
    | none => simp only []; exact (typeByIndex_bool q).symm
    | some p =>
      obtain ⟨fi, ft⟩ := p
      simp only []
      exact typeByIndex_append is q ft

theorem pathOk_append : ∀ (p q : List Nat) (t : GoType),
    pathOk t (p ++ q) = (pathOk t p && pathOk (typeByIndex t p) q)
  | [], _, _ => by simp only [List.nil_append, pathOk, typeByIndex, Bool.true_and]
  | i :: is, q, t => by
    simp only [List.cons_append, pathOk, typeByIndex]
    cases hg : (structFieldsOf t.deref)[i]? with
    | none => simp only [Bool.false_and]
    | some p =>
      obtain ⟨fi, ft⟩ := p
      simp only []
      exact pathOk_append is q ft

/-- one more step: the type at `p`, dereferenced, has a field `i` -/
theorem pathOk_snoc (t : GoType) (p : List Nat) (i : Nat) (fi : FieldInfo) (ft : GoType)
    (hp : pathOk t p = true) (hg : (structFieldsOf (typeByIndex t p).deref)[i]? = some (fi, ft)) :
    pathOk t (p ++ [i]) = true ∧ typeByIndex t (p ++ [i]) = ft := by
  rw [pathOk_append, typeByIndex_append, hp]
  simp only [pathOk, typeByIndex, hg, Bool.true_and, and_self]

/-! ### the invariant of the search -/

/-- a queued field: its index sequence is a path of `t` and leads to its type -/
def QOk (t : GoType) (f : Fld) : Prop :=
  pathOk t f.index = true ∧ (typeByIndex t f.index).deref = f.typ

def PathInv (t : GoType) (st : Scan) : Prop :=
  (∀ f ∈ st.next, QOk t f) ∧ (∀ g ∈ st.fields, pathOk t g.index = true)

theorem mkFld_qok (t : GoType) (f : Fld) (i : Nat) (sf : FieldInfo) (sft : GoType)
    (hf : QOk t f) (hg : (structFieldsOf f.typ)[i]? = some (sf, sft)) : QOk t (mkFld f i sf sft) := by
  rw [← hf.2] at hg
  have h := pathOk_snoc t f.index i sf sft hf.1 hg
  refine ⟨?_, ?_⟩
  · rw [mkFld_index]; exact h.1
  · rw [mkFld_index, mkFld_typ, h.2]

theorem scanField_next_mem' (count : List (GoType × Nat)) (f : Fld) (i : Nat) (sf : FieldInfo)
    (sft : GoType) (st : Scan) :
    ∀ g ∈ (scanField count f i sf sft st).next,
      g ∈ st.next ∨ (g.index = (mkFld f i sf sft).index ∧ g.typ = (mkFld f i sf sft).typ) := by
  unfold scanField
  by_cases c1 : (sf.anonymous && !sf.exported && !sft.deref.isStruct) = true
  · rw [if_pos c1]; exact fun g hg => Or.inl hg
  rw [if_neg c1]
  by_cases c2 : (!sf.anonymous && !sf.exported) = true
  · rw [if_pos c2]; exact fun g hg => Or.inl hg
  rw [if_neg c2]
  by_cases c3 : sf.tag = [45]
  · rw [if_pos c3]; exact fun g hg => Or.inl hg
  rw [if_neg c3]
  dsimp only
  by_cases c4 : ((mkFld f i sf sft).tag || !sf.anonymous || !(mkFld f i sf sft).typ.isStruct) = true
  · rw [if_pos c4]; exact fun g hg => Or.inl hg
  · rw [if_neg c4]
    dsimp only
    intro g hg
    by_cases c5 : countOf (mkFld f i sf sft).typ (incr (mkFld f i sf sft).typ st.nextCount) = 1
    · rw [if_pos c5] at hg
      rcases List.mem_append.1 hg with hg | hg
      · exact Or.inl hg
      · simp only [List.mem_cons, List.not_mem_nil, or_false] at hg
        right; rw [hg]; exact ⟨rfl, rfl⟩
    · rw [if_neg c5] at hg; exact Or.inl hg

theorem scanField_pathInv (t : GoType) (count : List (GoType × Nat)) (f : Fld) (i : Nat)
    (sf : FieldInfo) (sft : GoType) (st : Scan) (hf : QOk t f)
    (hg : (structFieldsOf f.typ)[i]? = some (sf, sft)) (h : PathInv t st) :
    PathInv t (scanField count f i sf sft st) := by
  have hm := mkFld_qok t f i sf sft hf hg
  refine ⟨fun g hgm => ?_, fun g hgm => ?_⟩
  · rcases scanField_next_mem' count f i sf sft st g hgm with hgm | ⟨h1, h2⟩
    · exact h.1 g hgm
    · exact ⟨by rw [h1]; exact hm.1, by rw [h1, h2]; exact hm.2⟩
  · rcases scanField_fields_mem count f i sf sft st g hgm with hgm | hgm
    · exact h.2 g hgm
    · rw [hgm]; exact hm.1

theorem scanStruct_pathInv (t : GoType) (count : List (GoType × Nat)) (f : Fld) (hf : QOk t f) :
    ∀ (rest pre : List (FieldInfo × GoType)) (i : Nat) (st : Scan),
      structFieldsOf f.typ = pre ++ rest → i = pre.length → PathInv t st →
      PathInv t (scanStruct count f i rest st)
  | [], _, _, _, _, _, h => by simp only [scanStruct]; exact h
  | (sf, sft) :: rest, pre, i, st, he, hi, h => by
    simp only [scanStruct]
    have hg : (structFieldsOf f.typ)[i]? = some (sf, sft) := by
      rw [he, hi, List.getElem?_append_right (Nat.le_refl _), Nat.sub_self]
      rfl
    refine scanStruct_pathInv t count f hf rest (pre ++ [(sf, sft)]) (i + 1) _ ?_ ?_
      (scanField_pathInv t count f i sf sft st hf hg h)
    · rw [he, List.append_assoc]; rfl
    · rw [hi, List.length_append]; rfl

theorem scanLevel_pathInv (t : GoType) (count : List (GoType × Nat)) :
    ∀ (current : List Fld) (visited : List GoType) (st : Scan),
      (∀ f ∈ current, QOk t f) → PathInv t st →
      PathInv t (scanLevel count current visited st).2
  | [], _, _, _, h => by simp only [scanLevel]; exact h
  | f :: current, visited, st, hc, h => by
    have hc' : ∀ g ∈ current, QOk t g := fun g hg => hc g (List.mem_cons_of_mem _ hg)
    simp only [scanLevel]
    split
    · exact scanLevel_pathInv t count current visited st hc' h
    · exact scanLevel_pathInv t count current _ _ hc'
        (scanStruct_pathInv t count f (hc f List.mem_cons_self) _ [] 0 st rfl rfl h)

theorem bfs_pathInv (t : GoType) : ∀ (fuel : Nat) (next : List Fld) (nc : List (GoType × Nat))
    (visited : List GoType) (fields : List Fld), (∀ f ∈ next, QOk t f) →
    (∀ f ∈ fields, pathOk t f.index = true) →
    ∀ f ∈ bfs fuel next nc visited fields, pathOk t f.index = true
  | 0, _, _, _, _, _, hf => by simp only [bfs]; exact hf
  | fuel + 1, next, nc, visited, fields, hn, hf => by
    simp only [bfs]
    split
    · exact hf
    · have h := scanLevel_pathInv t nc next visited { next := [], nextCount := [], fields := fields } hn
        ⟨fun _ h => (nomatch h), hf⟩
      exact bfs_pathInv t fuel _ _ _ _ h.1 h.2

/-- every field the search finds has a valid index sequence (for a root type that is not a pointer:
the struct encoder only asks for the fields of struct types) -/
theorem rawFields_pathOk (t : GoType) (ht : t.deref = t) : ∀ f ∈ rawFields t, pathOk t f.index = true := by
  unfold rawFields
  refine bfs_pathInv t _ _ _ _ _ ?_ (fun _ h => (nomatch h))
  intro f hf
  simp only [List.mem_cons, List.not_mem_nil, or_false] at hf
  rw [hf]
  exact ⟨rfl, ht⟩

theorem typeFields_pathOk (t : GoType) (ht : t.deref = t) : ∀ f ∈ typeFields t, pathOk t f.index = true :=
  fun f hf => rawFields_pathOk t ht f (typeFields_mem_raw t f hf)

theorem typeFields_pathOk_struct (n : Bytes) (fs : List (FieldInfo × GoType)) :
    ∀ f ∈ typeFields (.struct n fs), pathOk (.struct n fs) f.index = true :=
  typeFields_pathOk _ rfl

end Typed
end Codec
end JP
