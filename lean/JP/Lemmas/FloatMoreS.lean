import JP.Lemmas.FloatMoreM
import JP.Lemmas.FloatTotalS

/-!
# The search returns the MINIMAL number of digits

`search` tries n = 1, 2, … and at each n only the floor and the ceiling of the exact value on the grid
`10^(k-n)`.  If ANY decimal `c' · 10^e'` with `c' < 10^j` (at most `j` significant digits, any exponent) reads
back as `x`, then already the floor or the ceiling on the grid of `j` digits reads back as `x`: the set of values
that round to `x` is an interval (`roundRat_between`), the decimal lies on that grid (or below `10^(k-1) ≤` floor),
hence on the far side of floor / ceiling as seen from the exact value.
-/

namespace JP
namespace Codec
namespace Float

open JP.Codec.Typed (decimal)

/-- `10^z` for `z ≥ 0`, `1` otherwise -/
def p10 (z : Int) : Nat := 10 ^ z.toNat

theorem p10_pos (z : Int) : 0 < p10 z := Nat.pos_of_ne_zero (by unfold p10; simp)

theorem decN_p10 (c : Nat) (e : Int) : decN c e = c * p10 e := by
  unfold decN p10
  split
  · rfl
  · have : e.toNat = 0 := by omega
    rw [this]; simp

theorem decD_p10 (e : Int) : decD e = p10 (-e) := by
  unfold decD p10
  split
  · have : (-e).toNat = 0 := by omega
    rw [this]
  · rfl

theorem candAB_eq (N D : Nat) (s : Int) : candAB N D s = (N * p10 s, D * p10 (-s)) := by
  unfold candAB p10
  by_cases h : s ≥ 0
  · have : (-s).toNat = 0 := by omega
    simp only [h, if_true, this, Nat.pow_zero, Nat.mul_one]
  · have : s.toNat = 0 := by omega
    simp only [h, if_false, this, Nat.pow_zero, Nat.mul_one]

/-- `10^a / 10^b = 10^(a-b)` for `b ≤ a`, without division -/
theorem p10_split (a b : Int) (h : b ≤ a) : p10 a * p10 (-b) = p10 (a - b) * (p10 b * p10 (-a)) := by
  unfold p10
  rw [← Nat.pow_add, ← Nat.pow_add, ← Nat.pow_add]
  congr 1; omega

theorem p10_ge10 (z : Int) (h : 1 ≤ z) : 10 ≤ p10 z := by
  unfold p10
  calc 10 = 10 ^ 1 := rfl
    _ ≤ 10 ^ z.toNat := Nat.pow_le_pow_right (by omega) (by omega)

/-! ## the grid: pure arithmetic -/

/-- decimal on the grid (`ej ≤ e'`) and not above the value: not above the floor -/
theorem grid_le_floor (c' w lo A B N D gp gm hp hm : Nat) (hI : hp * gm = w * (gp * hm)) (hA : A = N * gm)
    (hB : B = D * gp) (hhm : 0 < hm) (hB0 : 0 < B) (hlo : lo = A / B) (hle : c' * hp * D ≤ N * hm) :
    c' * hp * gm ≤ lo * gp * hm := by
  have h1 : c' * w * B ≤ A := by
    apply Nat.le_of_mul_le_mul_right _ hhm
    have := Nat.mul_le_mul_right gm hle
    have e1 : c' * w * B * hm = c' * D * (w * (gp * hm)) := by rw [hB]; ac_rfl
    have e2 : c' * hp * D * gm = c' * D * (hp * gm) := by ac_rfl
    have e3 : A * hm = N * hm * gm := by rw [hA]; ac_rfl
    rw [e1, ← hI, ← e2, e3]; exact this
  have h2 : c' * w ≤ lo := by rw [hlo]; exact (Nat.le_div_iff_mul_le hB0).2 h1
  have h3 := Nat.mul_le_mul_right (gp * hm) h2
  have e4 : c' * hp * gm = c' * w * (gp * hm) := by rw [Nat.mul_assoc, hI]; ac_rfl
  have e5 : lo * gp * hm = lo * (gp * hm) := by ac_rfl
  rw [e4, e5]; exact h3

/-- decimal on the grid and above the value: not below the ceiling -/
theorem grid_ge_ceil (c' w lo A B N D gp gm hp hm : Nat) (hI : hp * gm = w * (gp * hm)) (hA : A = N * gm)
    (hB : B = D * gp) (hgm : 0 < gm) (hB0 : 0 < B) (hlo : lo = A / B)
    (hlt : N * hm < c' * hp * D) :
    (lo + 1) * gp * hm ≤ c' * hp * gm := by
  have h1 : A < c' * w * B := by
    apply Nat.lt_of_mul_lt_mul_right (a := hm)
    have := Nat.mul_lt_mul_of_pos_right hlt hgm
    have e1 : c' * w * B * hm = c' * D * (w * (gp * hm)) := by rw [hB]; ac_rfl
    have e2 : c' * hp * D * gm = c' * D * (hp * gm) := by ac_rfl
    have e3 : A * hm = N * hm * gm := by rw [hA]; ac_rfl
    rw [e1, ← hI, ← e2, e3]; exact this
  have h2 : lo + 1 ≤ c' * w := by
    rw [hlo]; exact (Nat.div_lt_iff_lt_mul hB0).2 h1
  have h3 := Nat.mul_le_mul_right (gp * hm) h2
  have e4 : c' * hp * gm = c' * w * (gp * hm) := by rw [Nat.mul_assoc, hI]; ac_rfl
  have e5 : (lo + 1) * gp * hm = (lo + 1) * (gp * hm) := by ac_rfl
  rw [e4, e5]; exact h3

/-- decimal with too small an exponent (`e' < ej`) and at most `j` digits: below `10^(k-1)`, hence not above
the floor -/
theorem below_le_floor (c' w lo P gp gm hp hm : Nat) (hI : gp * hm = w * (hp * gm)) (hw : 10 ≤ w)
    (hc : c' < P * 10) (hlo : P ≤ lo) : c' * hp * gm ≤ lo * gp * hm := by
  have h1 : c' ≤ lo * w := by
    have := Nat.mul_le_mul hlo hw
    omega
  have h2 := Nat.mul_le_mul_right (hp * gm) h1
  have e1 : lo * gp * hm = lo * w * (hp * gm) := by rw [Nat.mul_assoc lo gp hm, hI]; ac_rfl
  have e2 : c' * hp * gm = c' * (hp * gm) := by ac_rfl
  rw [e1, e2]; exact h2

/-! ## reading back, as a statement about `roundRat` -/

theorem decN_pos10 (c : Nat) (e : Int) (hc : c ≠ 0) : 0 < decN c e := by
  rw [decN_p10]; exact Nat.mul_pos (by omega) (p10_pos _)

theorem decD_pos10 (e : Int) : 0 < decD e := by rw [decD_p10]; exact p10_pos _

theorem roundsTo_iff_rat (bits : Nat) (x : FP) (c : Nat) (e : Int) (hc : c ≠ 0) :
    roundsTo bits x c e = true ↔ roundRat bits (decN c e) (decD e) = (x.exp, x.mant, false) := by
  rw [roundsTo_iff, roundDec_eq_roundRat bits c e hc]
  have e1 : (if e ≥ 0 then roundRat bits (c * 10 ^ e.toNat) 1 else roundRat bits c (10 ^ (-e).toNat))
      = roundRat bits (decN c e) (decD e) := by
    unfold decN decD; split <;> rfl
  rw [e1]

theorem exactN_pos10 (bits : Nat) (x : FP) (hnz : x.isZero = false) : 0 < exactN bits x := by
  have hs0 : 0 < x.sig bits := by
    unfold FP.sig
    split
    · rename_i he
      simp only [FP.isZero, he, decide_true, Bool.true_and, decide_eq_false_iff_not] at hnz
      omega
    · have := two_pow_pos (mantBits bits); omega
  unfold exactN; split
  · exact Nat.mul_pos hs0 (two_pow_pos _)
  · exact hs0

theorem exactD_pos10 (bits : Nat) (x : FP) : 0 < exactD bits x := by
  unfold exactD; split
  · omega
  · exact two_pow_pos _

/-- WHERE A SHORT DECIMAL LIES.  `lo`, `r`: floor and remainder of the exact value `N / D` on the grid `10^ej`
(`ej = k - j`, `10^(j-1) ≤ lo`).  A decimal `c' · 10^e'`, `c' < 10^j`, that reads back as `x` is not above the
floor (which then reads back as `x`), or the value is on the grid, or it is not below the ceiling (which then
reads back as `x`) -/
theorem grid_position (bits : Nat) (x : FP) (hwf : x.wf bits = true) (hfin : x.isFinite bits = true)
    (hnz : x.isZero = false) (N D : Nat) (hNx : N = exactN bits x) (hDx : D = exactD bits x)
    (j : Nat) (hj : 1 ≤ j) (ej : Int) (hge : 10 ^ (j - 1) * (D * p10 ej) ≤ N * p10 (-ej))
    (c' : Nat) (e' : Int) (hc' : c' < 10 ^ j) (hr : roundsTo bits x c' e' = true) (lo r : Nat)
    (hlo : N * p10 (-ej) / (D * p10 ej) = lo) (hrr : N * p10 (-ej) % (D * p10 ej) = r) :
    (decN c' e' * D ≤ N * decD e' ∧ decN c' e' * decD ej ≤ decN lo ej * decD e' ∧
        roundsTo bits x lo ej = true) ∨
      (r = 0 ∧ roundsTo bits x lo ej = true) ∨
      (N * decD e' < decN c' e' * D ∧ r ≠ 0 ∧ decN (lo + 1) ej * decD e' ≤ decN c' e' * decD ej ∧
        roundsTo bits x (lo + 1) ej = true) := by
  have hN : 0 < N := by rw [hNx]; exact exactN_pos10 bits x hnz
  have hD : 0 < D := by rw [hDx]; exact exactD_pos10 bits x
  have hx : roundRat bits N D = (x.exp, x.mant, false) := by
    rw [hNx, hDx]; exact roundRat_exact bits x hwf hfin hnz
  have hc0 : c' ≠ 0 := (roundsTo_bounds bits x hnz c' e' hr).1
  have hd := (roundsTo_iff_rat bits x c' e' hc0).1 hr
  have hB0 : 0 < D * p10 ej := Nat.mul_pos hD (p10_pos _)
  have hlo10 : 10 ^ (j - 1) ≤ N * p10 (-ej) / (D * p10 ej) := (Nat.le_div_iff_mul_le hB0).2 hge
  have hP : 0 < 10 ^ (j - 1) := Nat.pos_of_ne_zero (by simp)
  have hlo0' : N * p10 (-ej) / (D * p10 ej) ≠ 0 := by omega
  have hpj : 10 ^ j = 10 ^ (j - 1) * 10 := by
    have : j = (j - 1) + 1 := by omega
    conv => lhs; rw [this, Nat.pow_succ]
  have hdm := Nat.div_add_mod (N * p10 (-ej)) (D * p10 ej)
  have hml := Nat.mod_lt (N * p10 (-ej)) hB0
  rw [hlo] at hlo10 hlo0' hdm
  rw [hrr] at hdm hml
  have hlo0 : lo ≠ 0 := hlo0'
  -- floor ≤ value
  have hfl : decN lo ej * D ≤ N * decD ej := by
    rw [decN_p10, decD_p10]
    have e1 : lo * p10 ej * D = D * p10 ej * lo := by ac_rfl
    rw [e1]; omega
  -- a decimal below the grid is not above the floor
  have hbelow : ¬ ej ≤ e' → decN c' e' * decD ej ≤ decN lo ej * decD e' := by
    intro hcase
    rw [decN_p10, decD_p10, decN_p10, decD_p10]
    exact below_le_floor c' (p10 (ej - e')) lo (10 ^ (j - 1)) (p10 ej) (p10 (-ej)) (p10 e') (p10 (-e'))
      (p10_split ej e' (by omega)) (p10_ge10 _ (by omega)) (by omega) hlo10
  by_cases hle : decN c' e' * D ≤ N * decD e'
  · left
    have h12 : decN c' e' * decD ej ≤ decN lo ej * decD e' := by
      by_cases hcase : ej ≤ e'
      · rw [decN_p10, decD_p10, decN_p10, decD_p10]
        rw [decN_p10, decD_p10] at hle
        exact grid_le_floor c' (p10 (e' - ej)) lo (N * p10 (-ej)) (D * p10 ej) N D (p10 ej) (p10 (-ej))
          (p10 e') (p10 (-e')) (p10_split e' ej hcase) rfl rfl (p10_pos _) hB0 hlo.symm hle
      · exact hbelow hcase
    refine ⟨hle, h12, ?_⟩
    rw [roundsTo_iff_rat bits x lo ej hlo0]
    have := roundRat_between bits (decN c' e') (decD e') (decN lo ej) (decD ej) N D
      (decN_pos10 _ _ hc0) (decD_pos10 _) (decN_pos10 _ _ hlo0) (decD_pos10 _) hN hD h12 hfl (hd.trans hx.symm)
    rw [this, hd]
  · right
    by_cases r0 : r = 0
    · left
      refine ⟨r0, ?_⟩
      rw [roundsTo_iff_rat bits x lo ej hlo0]
      have : decN lo ej * D = N * decD ej := by
        rw [decN_p10, decD_p10]
        have e1 : lo * p10 ej * D = D * p10 ej * lo := by ac_rfl
        rw [e1]; omega
      rw [roundRat_congr bits _ _ N D (decN_pos10 _ _ hlo0) (decD_pos10 _) hN hD this, hx]
    · right
      have hcl : N * decD ej ≤ decN (lo + 1) ej * D := by
        rw [decN_p10, decD_p10]
        have e1 : (lo + 1) * p10 ej * D = D * p10 ej * lo + D * p10 ej := by
          rw [Nat.mul_assoc, Nat.add_mul, Nat.one_mul, Nat.mul_comm (p10 ej) D, Nat.mul_comm lo]
        rw [e1]; omega
      have hcase : ej ≤ e' := by
        apply Classical.byContradiction
        intro hcase
        have h1 := hbelow hcase
        apply hle
        -- c'·10^e' ≤ floor ≤ value
        apply Nat.le_of_mul_le_mul_right _ (decD_pos10 ej)
        have a1 := Nat.mul_le_mul_right D h1
        have a2 := Nat.mul_le_mul_right (decD e') hfl
        have e1 : decN c' e' * D * decD ej = decN c' e' * decD ej * D := by ac_rfl
        have e2 : N * decD e' * decD ej = N * decD ej * decD e' := by ac_rfl
        have e3 : decN lo ej * decD e' * D = decN lo ej * D * decD e' := by ac_rfl
        rw [e1, e2]; omega
      have h23 : decN (lo + 1) ej * decD e' ≤ decN c' e' * decD ej := by
        rw [decN_p10, decD_p10, decN_p10, decD_p10]
        rw [decN_p10, decD_p10] at hle
        exact grid_ge_ceil c' (p10 (e' - ej)) lo (N * p10 (-ej)) (D * p10 ej) N D (p10 ej) (p10 (-ej))
          (p10 e') (p10 (-e')) (p10_split e' ej hcase) rfl rfl (p10_pos _) hB0 hlo.symm (by omega)
      refine ⟨by omega, r0, h23, ?_⟩
      rw [roundsTo_iff_rat bits x (lo + 1) ej (by omega)]
      have := roundRat_between bits N D (decN (lo + 1) ej) (decD ej) (decN c' e') (decD e')
        hN hD (decN_pos10 _ _ (by omega)) (decD_pos10 _) (decN_pos10 _ _ hc0) (decD_pos10 _) hcl h23 (hx.trans hd.symm)
      rw [this, hx]

/-- the scaled fraction of `cand`, with the exponent `ej = k - j` of the grid -/
theorem candAB_grid (N D : Nat) (k : Int) (j : Nat) :
    candAB N D ((j : Int) - k) = (N * p10 (-(k - (j : Int))), D * p10 (k - (j : Int))) := by
  have hs : (j : Int) - k = -(k - (j : Int)) := by omega
  rw [hs, candAB_eq]
  simp only [Int.neg_neg]

/-- THE GRID LEMMA: if any decimal of at most `j` digits reads back as `x`, then the floor or the ceiling of the
exact value on the grid of `j` digits does -/
theorem floor_or_ceil_reads (bits : Nat) (x : FP) (hwf : x.wf bits = true) (hfin : x.isFinite bits = true)
    (hnz : x.isZero = false) (k : Int) (hk : geP10 (exactN bits x) (exactD bits x) (k - 1) = true)
    (j : Nat) (hj : 1 ≤ j) (c' : Nat) (e' : Int) (hc' : c' < 10 ^ j) (hr : roundsTo bits x c' e' = true) :
    roundsTo bits x ((candAB (exactN bits x) (exactD bits x) ((j : Int) - k)).1
        / (candAB (exactN bits x) (exactD bits x) ((j : Int) - k)).2) (k - (j : Int)) = true ∨
      ((candAB (exactN bits x) (exactD bits x) ((j : Int) - k)).1
        % (candAB (exactN bits x) (exactD bits x) ((j : Int) - k)).2 ≠ 0 ∧
       roundsTo bits x ((candAB (exactN bits x) (exactD bits x) ((j : Int) - k)).1
        / (candAB (exactN bits x) (exactD bits x) ((j : Int) - k)).2 + 1) (k - (j : Int)) = true) := by
  have hge := candAB_ge (exactN bits x) (exactD bits x) k j hj hk
  rw [candAB_grid] at hge ⊢
  simp only at hge ⊢
  rcases grid_position bits x hwf hfin hnz _ _ rfl rfl j hj _ hge c' e' hc' hr _ _ rfl rfl with
    ⟨_, _, h⟩ | ⟨_, h⟩ | ⟨_, h1, _, h2⟩
  · exact Or.inl h
  · exact Or.inl h
  · exact Or.inr ⟨h1, h2⟩

/-- … hence the candidate with `j` digits exists -/
theorem cand_of_short (bits : Nat) (x : FP) (hwf : x.wf bits = true) (hfin : x.isFinite bits = true)
    (hnz : x.isZero = false) (k : Int) (hk : geP10 (exactN bits x) (exactD bits x) (k - 1) = true)
    (j : Nat) (hj : 1 ≤ j) (c' : Nat) (e' : Int) (hc' : c' < 10 ^ j) (hr : roundsTo bits x c' e' = true) :
    cand bits x (exactN bits x) (exactD bits x) k j ≠ none := by
  have h := floor_or_ceil_reads bits x hwf hfin hnz k hk j hj c' e' hc' hr
  unfold cand
  simp only
  apply candPick_ne_none
  · intro h0
    rcases h with h | ⟨h1, _⟩
    · exact h
    · exact absurd h0 h1
  · intro _
    rcases h with h | ⟨_, h2⟩
    · exact Or.inl h
    · exact Or.inr h2

/-- what `search` returns is the FIRST candidate -/
theorem search_first_some (bits : Nat) (x : FP) (N D : Nat) (k : Int) (p : Nat × Int) : ∀ (fuel start : Nat),
    search bits x N D k fuel start = some p →
      ∃ n, start ≤ n ∧ n < start + fuel ∧ cand bits x N D k n = some p ∧
        ∀ j, start ≤ j → j < n → cand bits x N D k j = none := by
  intro fuel
  induction fuel with
  | zero => intro start h; simp [search] at h
  | succ f ih =>
    intro start h
    simp only [search] at h
    cases hc : cand bits x N D k start with
    | some r =>
      rw [hc] at h
      simp only [Option.some.injEq] at h
      subst h
      exact ⟨start, Nat.le_refl _, by omega, hc, fun j h1 h2 => by omega⟩
    | none =>
      rw [hc] at h
      obtain ⟨n, h1, h2, h3, h4⟩ := ih (start + 1) h
      refine ⟨n, by omega, by omega, h3, ?_⟩
      intro j hj1 hj2
      by_cases hjs : j = start
      · subst hjs; exact hc
      · exact h4 j (by omega) hj2

/-- the exponent of a candidate is `k - n` -/
theorem cand_exp (bits : Nat) (x : FP) (N D : Nat) (k : Int) (n : Nat) (p : Nat × Int)
    (h : cand bits x N D k n = some p) : p.2 = k - (n : Int) := by
  unfold cand candPick at h
  simp only at h
  repeat' split at h
  all_goals first
    | (simp at h; done)
    | (simp only [Option.some.injEq] at h; subst h; rfl)

/-- THE SEARCH RETURNS THE MINIMAL NUMBER OF DIGITS: if it answers `c · 10^e` after trying `n = k - e` digits,
no decimal `c' · 10^e'` with `c' < 10^m`, `m < n` (at most `m` significant digits, ANY exponent) reads back
as `x` -/
theorem search_minimal (bits : Nat) (x : FP) (hwf : x.wf bits = true) (hfin : x.isFinite bits = true)
    (hnz : x.isZero = false) (c : Nat) (e : Int)
    (hs : search bits x (exactN bits x) (exactD bits x) (decPoint (exactN bits x) (exactD bits x))
      (maxDigits bits) 1 = some (c, e)) :
    ∃ n : Nat, 1 ≤ n ∧ n ≤ maxDigits bits ∧ e = decPoint (exactN bits x) (exactD bits x) - (n : Int) ∧
      ∀ (m c' : Nat) (e' : Int), m < n → c' < 10 ^ m → roundsTo bits x c' e' = false := by
  obtain ⟨n, h1, h2, h3, h4⟩ := search_first_some bits x _ _ _ _ _ _ hs
  refine ⟨n, h1, by omega, cand_exp bits x _ _ _ _ _ h3, ?_⟩
  intro m c' e' hm hc'
  cases hr : roundsTo bits x c' e' with
  | false => rfl
  | true =>
    exfalso
    have hc0 : c' ≠ 0 := (roundsTo_bounds bits x hnz c' e' hr).1
    have hm1 : 1 ≤ m := by
      apply Nat.pos_of_ne_zero
      intro h0; subst h0
      simp at hc'; exact hc0 hc'
    obtain ⟨hk, _, _⟩ := decPoint_lower bits x hwf hfin hnz
    exact cand_of_short bits x hwf hfin hnz _ hk m hm1 c' e' hc' hr (h4 m hm1 hm)

end Float
end Codec
end JP
