import JP.Lemmas.HeapLegacyTest

/-!
# The legacy loop: `applyOp`, `applyOps`, the root decoder, the final `json.Marshal`, and
`applyHeapL = Legacy.applyBytes`

No side condition: the legacy engine has no `ensurePathExists`, so the `RootOK` hypothesis of the v5
development (`JP/Lemmas/HeapFinal.lean`) has no counterpart here.
-/

namespace JP
namespace Heap
namespace Lg

open JP.Impl (Outcome)
open JP.Legacy (Node NMembers Op StrField ValField)

def liftAccV (acc : Int) : Outcome Node → Outcome (Node × Int)
  | .ok r' => .ok (r', acc)
  | .err e => .err e
  | .panic => .panic

theorem liftAcc_rel {h : Heap} {fp : List Nat} {acc : Int} {x : Outcome St} {y : Outcome Node}
    (hxy : OutRel (LRelSt h fp) x y) :
    OutRel (LRelAcc h fp) (liftAcc acc x) (liftAccV acc y) := by
  cases x <;> cases y <;> simp only [OutRel] at hxy <;> simp only [liftAcc, liftAccV, OutRel]
  · exact ⟨hxy, rfl⟩
  · exact hxy

theorem applyOp_eq (neg : Bool) (limit : Int) (root : Node) (acc : Int) (op : Op) :
    Legacy.applyOp neg limit root acc op =
      if op.kind = ascii "add" then liftAccV acc (Legacy.opAdd neg root op)
      else if op.kind = ascii "remove" then liftAccV acc (Legacy.opRemove neg root op)
      else if op.kind = ascii "replace" then liftAccV acc (Legacy.opReplace neg root op)
      else if op.kind = ascii "move" then liftAccV acc (Legacy.opMove neg root op)
      else if op.kind = ascii "test" then liftAccV acc (Legacy.opTest neg root op)
      else if op.kind = ascii "copy" then Legacy.opCopy neg limit root acc op
      else .err .other := by
  unfold Legacy.applyOp
  by_cases h1 : op.kind = ascii "add"
  · simp only [h1, if_true]; cases Legacy.opAdd neg root op <;> rfl
  simp only [h1, if_false]
  by_cases h2 : op.kind = ascii "remove"
  · simp only [h2, if_true]; cases Legacy.opRemove neg root op <;> rfl
  simp only [h2, if_false]
  by_cases h3 : op.kind = ascii "replace"
  · simp only [h3, if_true]; cases Legacy.opReplace neg root op <;> rfl
  simp only [h3, if_false]
  by_cases h4 : op.kind = ascii "move"
  · simp only [h4, if_true]; cases Legacy.opMove neg root op <;> rfl
  simp only [h4, if_false]
  by_cases h5 : op.kind = ascii "test"
  · simp only [h5, if_true]; cases Legacy.opTest neg root op <;> rfl
  simp only [h5, if_false]

theorem applyOp_refines (neg : Bool) (limit : Int) {s : St} {r : Node} {fp : List Nat} (acc : Int) (op : Op)
    (hr : LRepr s.h r (some s.root) fp) :
    OutRel (LRelAcc s.h fp) (Lg.applyOp neg limit s acc op) (Legacy.applyOp neg limit r acc op) := by
  rw [applyOp_eq]
  unfold Lg.applyOp
  by_cases h1 : op.kind = ascii "add"
  · simp only [h1, if_true]
    exact liftAcc_rel (opAdd_refines neg op hr)
  · simp only [h1, if_false]
    by_cases h2 : op.kind = ascii "remove"
    · simp only [h2, if_true]
      exact liftAcc_rel (opRemove_refines neg op hr)
    · simp only [h2, if_false]
      by_cases h3 : op.kind = ascii "replace"
      · simp only [h3, if_true]
        exact liftAcc_rel (opReplace_refines neg op hr)
      · simp only [h3, if_false]
        by_cases h4 : op.kind = ascii "move"
        · simp only [h4, if_true]
          exact liftAcc_rel (opMove_refines neg op hr)
        · simp only [h4, if_false]
          by_cases h5 : op.kind = ascii "test"
          · simp only [h5, if_true]
            exact liftAcc_rel (opTest_refines neg op hr)
          · simp only [h5, if_false]
            by_cases h6 : op.kind = ascii "copy"
            · simp only [h6, if_true]
              exact opCopy_refines neg limit acc op hr
            · simp [h6]

theorem LRelSt.trans {h : Heap} {fp fp1 : List Nat} {s1 s2 : St} {r2 : Node}
    (e1 : Ext h s1.h fp fp1) (h2 : LRelSt s1.h fp1 s2 r2) : LRelSt h fp s2 r2 := by
  obtain ⟨fp2, hr2, e2⟩ := h2
  exact ⟨fp2, hr2, Ext.trans e1 e2⟩

theorem applyOps_refines (neg : Bool) (limit : Int) : ∀ (ops : List Op) (s : St) (r : Node) (fp : List Nat)
    (acc : Int), LRepr s.h r (some s.root) fp →
    OutRel (LRelSt s.h fp) (Lg.applyOps neg limit s acc ops) (Legacy.applyOps neg limit r acc ops)
  | [], s, r, fp, acc, hr => by
    simp only [Lg.applyOps, Legacy.applyOps, OutRel_ok_ok]
    exact ⟨fp, hr, Ext.refl _ _⟩
  | op :: ops, s, r, fp, acc, hr => by
    have h1 := applyOp_refines neg limit acc op hr
    simp only [Lg.applyOps, Legacy.applyOps]
    rcases outCases h1 with ⟨hx, hy⟩ | ⟨e, hx, hy⟩ | ⟨x, y, hx, hy, hxy⟩
    · simp [hx, hy]
    · simp [hx, hy]
    · simp only [hx, hy]
      obtain ⟨s1, a1⟩ := x
      obtain ⟨r1, a1'⟩ := y
      obtain ⟨⟨fp1, hr1, e1⟩, hacc⟩ := hxy
      simp only at hacc hr1 e1
      subst hacc
      have ih := applyOps_refines neg limit ops s1 r1 fp1 a1 hr1
      exact OutRel.mono (fun a b hab => LRelSt.trans e1 hab) ih

/-! ### the root decoder -/

/-- the value model's root container, given whether the text starts with `[` -/
def vRootOf (isAry : Bool) (c : Cst) : Outcome Node :=
  if isAry then
    match c with
    | .arr xs => .ok (Legacy.decodeAry xs)
    | _ => .err .other
  else
    match c with
    | .obj ms => .ok (Legacy.decodeDoc ms)
    | c => if c.isNullLit then .ok .docNil else .err .other

theorem decodeRoot_eq (doc : Bytes) :
    Legacy.decodeRoot doc =
      match parseCst doc with
      | none => .err .other
      | some c => vRootOf (startsWithBracket (skipWs doc)) c := by
  unfold Legacy.decodeRoot
  cases parseCst doc with
  | none => rfl
  | some c =>
    simp only
    split
    · rename_i t heq
      simp only [heq, startsWithBracket, vRootOf, if_true]
      cases c <;> rfl
    · rename_i hneg
      have hb : startsWithBracket (skipWs doc) = false := by
        unfold startsWithBracket
        split
        · rename_i t heq
          exact absurd heq (hneg t)
        · rfl
      simp only [hb, vRootOf, Bool.false_eq_true, if_false]
      cases c <;> rfl

theorem newRootOf_refines (h : Heap) (b : Bool) (c : Cst) :
    OutRel (LFreshTree h) (newRootOf h b c) (vRootOf b c) := by
  unfold newRootOf vRootOf
  cases b with
  | true =>
    simp only [if_true]
    cases c with
    | arr xs => simp only [OutRel_ok_ok]; exact fresh_ary xs
    | obj ms => simp
    | str s => simp
    | lit l => simp
  | false =>
    simp only [Bool.false_eq_true, if_false]
    cases c with
    | obj ms => simp only [OutRel_ok_ok]; exact fresh_doc ms
    | arr xs =>
      have hn : (Cst.arr xs).isNullLit = false := rfl
      simp [hn]
    | str s =>
      have hn : (Cst.str s).isNullLit = false := rfl
      simp [hn]
    | lit l =>
      simp only
      by_cases hn : (Cst.lit l).isNullLit = true
      · simp only [hn, if_true, OutRel_ok_ok]
        exact ⟨[h.length], LRepr.mk_docNil (by simp), ⟨[.docNil], rfl⟩, fun x hx => by simp at hx; omega⟩
      · simp [hn]

theorem newRoot_refines (h : Heap) (doc : Bytes) :
    OutRel (LFreshTree h) (newRoot h doc) (Legacy.decodeRoot doc) := by
  rw [decodeRoot_eq]
  unfold newRoot
  cases parseCst doc with
  | none => simp
  | some c => exact newRootOf_refines h _ c

/-! ### the final `json.Marshal(pd)` -/

theorem marshalRoot_refines {s : St} {r : Node} {fp : List Nat}
    (hr : LRepr s.h r (some s.root) fp) : Lg.marshalRoot s = .ok (Legacy.marshal r) := by
  unfold Lg.marshalRoot Legacy.marshal
  rw [marshal_fuelOf hr]

/-- the legacy heap engine = the legacy value engine, for every setting of the two package
variables, every indent string, document and patch -/
theorem applyHeapL_eq (neg : Bool) (limit : Int) (indent doc : Bytes) (ops : List Op) :
    applyHeapL neg limit indent doc ops = Legacy.applyBytes neg limit indent doc ops := by
  unfold applyHeapL Legacy.applyBytes
  by_cases hd : doc = []
  · simp [hd]
  · simp only [hd, if_false]
    rcases outCases (newRoot_refines [] doc) with ⟨h1, h2⟩ | ⟨e, h1, h2⟩ | ⟨s, root, h1, h2, hN⟩
    · simp only [h1, h2]
    · simp only [h1, h2]
    · simp only [h1, h2]
      obtain ⟨fp, hr, _, _⟩ := hN
      rcases outCases (applyOps_refines neg limit ops s root fp 0 hr) with
        ⟨h3, h4⟩ | ⟨e, h3, h4⟩ | ⟨s', r', h3, h4, hO⟩
      · simp only [h3, h4]
      · simp only [h3, h4]
      · simp only [h3, h4]
        obtain ⟨fp', hr', _⟩ := hO
        rw [marshalRoot_refines hr']

end Lg
end Heap
end JP
