import JP.Lemmas.LegacyEngineDefs

/-!
# The RFC 6902 specification functions respect `Sim`
(`Sim a b`: both duplicate-free and equal up to member order)
-/

namespace JP
namespace Legacy
open Value
open Spec (Res)

/-! ### 1. `Sim` is an equivalence on duplicate-free values -/

theorem Sim.refl {a : Value} (h : a.noDup = true) : Sim a a := ⟨h, h, eqv_refl_E a h⟩

theorem Sim.symm {a b : Value} (h : Sim a b) : Sim b a :=
  ⟨h.2.1, h.1, by rw [eqv_symm_E b a h.2.1 h.1]; exact h.2.2⟩

theorem Sim.trans {a b c : Value} (h1 : Sim a b) (h2 : Sim b c) : Sim a c :=
  ⟨h1.1, h2.2.1, eqv_trans_E a b c h1.2.2 h2.2.2⟩

/-! ### relations on options and results -/

/-- both absent, or both present and related -/
def OptSim : Option Value → Option Value → Prop
  | some v, some w => Sim v w
  | none, none => True
  | _, _ => False

@[simp] theorem optSim_some (v w : Value) : OptSim (some v) (some w) ↔ Sim v w := Iff.rfl
@[simp] theorem optSim_none : OptSim none none := trivial
@[simp] theorem optSim_some_none (v : Value) : ¬ OptSim (some v) none := fun h => h
@[simp] theorem optSim_none_some (w : Value) : ¬ OptSim none (some w) := fun h => h

theorem OptSim.isSome_eq {a b : Option Value} (h : OptSim a b) : a.isSome = b.isSome := by
  cases a <;> cases b <;> first | rfl | exact absurd h (by simp)

theorem OptSim.isNone_eq {a b : Option Value} (h : OptSim a b) : a.isNone = b.isNone := by
  cases a <;> cases b <;> first | rfl | exact absurd h (by simp)

/-- same kind of outcome, `R`-related payloads, the same failure cause -/
def ResRel {α : Type} (R : α → α → Prop) : Res α → Res α → Prop
  | .ok x, .ok y => R x y
  | .fail c, .fail c' => c = c'
  | .unspec, .unspec => True
  | _, _ => False

@[simp] theorem resRel_ok {α} (R : α → α → Prop) (x y : α) : ResRel R (.ok x) (.ok y) ↔ R x y := Iff.rfl
@[simp] theorem resRel_fail {α} (R : α → α → Prop) (c c' : Spec.Cause) :
    ResRel R (.fail c) (.fail c') ↔ c = c' := Iff.rfl
@[simp] theorem resRel_unspec {α} (R : α → α → Prop) : ResRel R .unspec .unspec := trivial

theorem ResRel.bind {α β} {R : α → α → Prop} {R' : β → β → Prop} {r s : Res α} {k k' : α → Res β}
    (h : ResRel R r s) (hk : ∀ x y, R x y → ResRel R' (k x) (k' y)) :
    ResRel R' (r.bind k) (s.bind k') := by
  cases r <;> cases s <;> first | exact hk _ _ h | exact h | exact False.elim h

theorem ResRel.mono {α} {R R' : α → α → Prop} {r s : Res α} (h : ResRel R r s)
    (hR : ∀ x y, R x y → R' x y) : ResRel R' r s := by
  cases r <;> cases s <;> first | exact hR _ _ h | exact h | exact False.elim h

/-- two results of the specification are related: same kind of outcome, related documents,
`R`-related payloads, the same failure cause -/
def ResSim {α : Type} (R : α → α → Prop) : Res (Value × α) → Res (Value × α) → Prop
  | .ok (a, x), .ok (b, y) => Sim a b ∧ R x y
  | .fail c, .fail c' => c = c'
  | .unspec, .unspec => True
  | _, _ => False

theorem resSim_iff {α} (R : α → α → Prop) (r s : Res (Value × α)) :
    ResSim R r s ↔ ResRel (fun p q => Sim p.1 q.1 ∧ R p.2 q.2) r s := by
  cases r with
  | ok p => cases s with
    | ok q => obtain ⟨a, x⟩ := p; obtain ⟨b, y⟩ := q; exact Iff.rfl
    | fail c => exact Iff.rfl
    | unspec => exact Iff.rfl
  | fail c => cases s with
    | ok q => exact Iff.rfl
    | fail c => exact Iff.rfl
    | unspec => exact Iff.rfl
  | unspec => cases s with
    | ok q => exact Iff.rfl
    | fail c => exact Iff.rfl
    | unspec => exact Iff.rfl

@[simp] theorem resSim_ok {α} (R : α → α → Prop) (p q : Value × α) :
    ResSim R (.ok p) (.ok q) ↔ Sim p.1 q.1 ∧ R p.2 q.2 := by
  obtain ⟨a, x⟩ := p; obtain ⟨b, y⟩ := q; exact Iff.rfl
@[simp] theorem resSim_fail {α} (R : α → α → Prop) (c c' : Spec.Cause) :
    ResSim R (.fail c) (.fail c') ↔ c = c' := Iff.rfl
@[simp] theorem resSim_unspec {α} (R : α → α → Prop) : ResSim R .unspec .unspec := trivial

theorem ResSim.bind {α β} {R : α → α → Prop} {R' : β → β → Prop} {r s : Res (Value × α)}
    {k k' : Value × α → Res (Value × β)} (h : ResSim R r s)
    (hk : ∀ a x b y, Sim a b → R x y → ResSim R' (k (a, x)) (k' (b, y))) :
    ResSim R' (r.bind k) (s.bind k') := by
  rw [resSim_iff] at h ⊢
  exact h.bind (fun p q hpq => (resSim_iff _ _ _).mp (hk p.1 p.2 q.1 q.2 hpq.1 hpq.2))

/-! ### 2. constructors -/

theorem sim_cases {a b : Value} (h : Sim a b) :
    (∃ xs ys, a = .obj xs ∧ b = .obj ys) ∨ (∃ xs ys, a = .arr xs ∧ b = .arr ys) ∨
      (a = b ∧ a.isContainer = false) := by
  obtain ⟨_, _, h⟩ := h
  cases a <;> cases b <;> simp [eqv, isContainer, isObj, isArr] at h ⊢ <;> simp [h]

/-- related values have the same constructor -/
theorem sim_kind {a b : Value} (h : Sim a b) :
    a.isObj = b.isObj ∧ a.isArr = b.isArr ∧ a.isNull = b.isNull ∧ a.isContainer = b.isContainer := by
  rcases sim_cases h with ⟨xs, ys, rfl, rfl⟩ | ⟨xs, ys, rfl, rfl⟩ | ⟨rfl, _⟩ <;>
    simp [isObj, isArr, isNull, isContainer]

/-- related scalars are equal -/
theorem sim_scalar {a b : Value} (h : Sim a b) (hs : a.isContainer = false) : a = b := by
  rcases sim_cases h with ⟨xs, ys, rfl, rfl⟩ | ⟨xs, ys, rfl, rfl⟩ | ⟨rfl, _⟩
  · simp [isContainer, isObj] at hs
  · simp [isContainer, isObj, isArr] at hs
  · rfl

/-! ### 2. objects -/

theorem noDupM_iff : ∀ (xs : Members), noDupM xs = true ↔ ∀ k v, (k, v) ∈ xs → noDup v = true
  | [] => by simp [noDupM]
  | (k0, v0) :: xs => by
    simp only [noDupM, Bool.and_eq_true, noDupM_iff xs, List.mem_cons]
    constructor
    · intro ⟨h1, h2⟩ k v hm
      cases hm with
      | inl e => cases e; exact h1
      | inr hm => exact h2 k v hm
    · intro h
      exact ⟨h k0 v0 (Or.inl rfl), fun k v hm => h k v (Or.inr hm)⟩

/-- the lookup view of `Sim` on objects -/
theorem sim_obj_iff (xs ys : Members) :
    Sim (.obj xs) (.obj ys) ↔
      nodupKeys (xs.map Prod.fst) = true ∧ nodupKeys (ys.map Prod.fst) = true ∧
        ∀ k, OptSim (lookup k xs) (lookup k ys) := by
  simp only [Sim, eqv, noDup, Bool.and_eq_true]
  constructor
  · intro ⟨⟨hx, hxm⟩, ⟨hy, hym⟩, he, hs⟩
    refine ⟨hx, hy, fun k => ?_⟩
    cases hl : lookup k xs with
    | none =>
      have hk : k ∉ xs.map Prod.fst := (lookup_eq_none_iff_E k xs).mp hl
      have hk' : k ∉ ys.map Prod.fst := fun hm => hk ((subKeys_iff_E ys xs).mp hs k hm)
      rw [(lookup_eq_none_iff_E k ys).mpr hk']
      exact trivial
    | some v =>
      have hm := mem_of_lookup_E k v xs hl
      obtain ⟨w, hl', hvw⟩ := (eqvM_iff_E xs ys).mp he k v hm
      rw [hl']
      exact ⟨noDup_of_mem k v xs hxm hm, noDup_of_mem k w ys hym (mem_of_lookup_E k w ys hl'), hvw⟩
  · intro ⟨hx, hy, h⟩
    have hx' := (nodupKeys_iff _).mp hx
    have hy' := (nodupKeys_iff _).mp hy
    refine ⟨⟨hx, ?_⟩, ⟨hy, ?_⟩, ?_, ?_⟩
    · rw [noDupM_iff]
      intro k v hm
      have := h k
      rw [lookup_of_mem_nodup k v xs hx' hm] at this
      cases hl : lookup k ys with
      | none => rw [hl] at this; exact absurd this (by simp)
      | some w => rw [hl] at this; exact this.1
    · rw [noDupM_iff]
      intro k w hm
      have := h k
      rw [lookup_of_mem_nodup k w ys hy' hm] at this
      cases hl : lookup k xs with
      | none => rw [hl] at this; exact absurd this (by simp)
      | some v => rw [hl] at this; exact this.2.1
    · rw [eqvM_iff_E]
      intro k v hm
      have := h k
      rw [lookup_of_mem_nodup k v xs hx' hm] at this
      cases hl : lookup k ys with
      | none => rw [hl] at this; exact absurd this (by simp)
      | some w => rw [hl] at this; exact ⟨w, rfl, this.2.2⟩
    · rw [subKeys_iff_E]
      intro k hk
      rw [← lookup_isSome_iff_E] at hk ⊢
      rw [(h k).isSome_eq]; exact hk

theorem sim_lookup' {xs ys : Members} (h : Sim (.obj xs) (.obj ys)) (k : Bytes) :
    OptSim (lookup k xs) (lookup k ys) := ((sim_obj_iff xs ys).mp h).2.2 k

theorem sim_lookup {xs ys : Members} (h : Sim (.obj xs) (.obj ys)) (k : Bytes) :
    match lookup k xs, lookup k ys with
    | some v, some w => Sim v w
    | none, none => True
    | _, _ => False := by
  have := sim_lookup' h k
  cases hx : lookup k xs <;> cases hy : lookup k ys <;> rw [hx, hy] at this <;> exact this

theorem lookup_set (a k : Bytes) (v : Value) (ms : Members) :
    lookup a (Value.set k v ms) = if a = k then some v else lookup a ms := by
  by_cases h : a = k
  · subst h; rw [if_pos rfl]; exact Impl.lookup_set_self a v ms
  · rw [if_neg h]; exact Impl.lookup_set_ne a k v ms h

theorem lookup_erase_self (k : Bytes) : ∀ (ms : Members), lookup k (Value.erase k ms) = none
  | [] => rfl
  | (k', v') :: ms => by
    simp only [Value.erase]
    by_cases h : k' = k
    · rw [if_pos h]; exact lookup_erase_self k ms
    · rw [if_neg h]; simp only [lookup, if_neg h]; exact lookup_erase_self k ms

theorem lookup_erase (a k : Bytes) (ms : Members) :
    lookup a (Value.erase k ms) = if a = k then none else lookup a ms := by
  by_cases h : a = k
  · subst h; rw [if_pos rfl]; exact lookup_erase_self a ms
  · rw [if_neg h]; exact Impl.lookup_erase_ne a k ms h

theorem keys_set (k : Bytes) (v : Value) : ∀ (ms : Members),
    (Value.set k v ms).map Prod.fst =
      if k ∈ ms.map Prod.fst then ms.map Prod.fst else ms.map Prod.fst ++ [k]
  | [] => by simp [Value.set]
  | (k', v') :: ms => by
    simp only [Value.set]
    by_cases h : k' = k
    · subst h; simp
    · rw [if_neg h]
      simp only [List.map_cons, List.mem_cons, keys_set k v ms]
      have : ¬ k = k' := fun e => h e.symm
      simp only [this, false_or]
      split <;> simp

theorem nodup_keys_set (k : Bytes) (v : Value) (ms : Members) (h : (ms.map Prod.fst).Nodup) :
    ((Value.set k v ms).map Prod.fst).Nodup := by
  rw [keys_set]
  split
  · exact h
  · next hk =>
    rw [List.nodup_append]
    refine ⟨h, by simp, ?_⟩
    intro a ha b hb
    simp only [List.mem_singleton] at hb
    subst hb
    exact fun e => hk (e ▸ ha)

theorem keys_erase (k : Bytes) : ∀ (ms : Members),
    (Value.erase k ms).map Prod.fst = (ms.map Prod.fst).filter (fun a => !(a == k))
  | [] => rfl
  | (k', v') :: ms => by
    simp only [Value.erase]
    by_cases h : k' = k
    · rw [if_pos h]; simp [h, keys_erase k ms]
    · rw [if_neg h]; simp [h, keys_erase k ms]

theorem nodup_keys_erase (k : Bytes) (ms : Members) (h : (ms.map Prod.fst).Nodup) :
    ((Value.erase k ms).map Prod.fst).Nodup := by
  rw [keys_erase]; exact h.filter _

theorem sim_set {xs ys : Members} {v w : Value} (k : Bytes) (h : Sim (.obj xs) (.obj ys)) (hv : Sim v w) :
    Sim (.obj (Value.set k v xs)) (.obj (Value.set k w ys)) := by
  rw [sim_obj_iff] at h ⊢
  obtain ⟨hx, hy, hl⟩ := h
  refine ⟨(nodupKeys_iff _).mpr (nodup_keys_set k v xs ((nodupKeys_iff _).mp hx)),
    (nodupKeys_iff _).mpr (nodup_keys_set k w ys ((nodupKeys_iff _).mp hy)), fun a => ?_⟩
  rw [lookup_set, lookup_set]
  split
  · exact hv
  · exact hl a

theorem sim_erase {xs ys : Members} (k : Bytes) (h : Sim (.obj xs) (.obj ys)) :
    Sim (.obj (Value.erase k xs)) (.obj (Value.erase k ys)) := by
  rw [sim_obj_iff] at h ⊢
  obtain ⟨hx, hy, hl⟩ := h
  refine ⟨(nodupKeys_iff _).mpr (nodup_keys_erase k xs ((nodupKeys_iff _).mp hx)),
    (nodupKeys_iff _).mpr (nodup_keys_erase k ys ((nodupKeys_iff _).mp hy)), fun a => ?_⟩
  rw [lookup_erase, lookup_erase]
  split
  · exact trivial
  · exact hl a

theorem set_of_absent (k : Bytes) (v : Value) : ∀ (ms : Members), lookup k ms = none →
    Value.set k v ms = ms ++ [(k, v)]
  | [], _ => rfl
  | (k', v') :: ms, h => by
    simp only [lookup] at h
    by_cases hk : k' = k
    · rw [if_pos hk] at h; cases h
    · rw [if_neg hk] at h
      simp only [Value.set, if_neg hk, List.cons_append, set_of_absent k v ms h]

/-! ### 2. arrays -/

inductive SimL : List Value → List Value → Prop
  | nil : SimL [] []
  | cons {x y : Value} {xs ys : List Value} : Sim x y → SimL xs ys → SimL (x :: xs) (y :: ys)

theorem simL_iff : ∀ (xs ys : List Value),
    (noDupL xs = true ∧ noDupL ys = true ∧ eqvL xs ys = true) ↔ SimL xs ys
  | [], [] => by simp [noDupL, eqvL, SimL.nil]
  | [], y :: ys => by
    simp only [eqvL, List.isEmpty_cons, Bool.false_eq_true, and_false, false_iff]
    intro h; cases h
  | x :: xs, [] => by
    simp only [eqvL, Bool.false_eq_true, and_false, false_iff]
    intro h; cases h
  | x :: xs, y :: ys => by
    simp only [noDupL, eqvL, Bool.and_eq_true]
    constructor
    · intro ⟨⟨h1, h2⟩, ⟨h3, h4⟩, h5, h6⟩
      exact .cons ⟨h1, h3, h5⟩ ((simL_iff xs ys).mp ⟨h2, h4, h6⟩)
    · intro h
      cases h with
      | cons h1 h2 =>
        have := (simL_iff xs ys).mpr h2
        exact ⟨⟨h1.1, this.1⟩, ⟨h1.2.1, this.2.1⟩, h1.2.2, this.2.2⟩

theorem sim_arr_iff (xs ys : List Value) : Sim (.arr xs) (.arr ys) ↔ SimL xs ys := by
  rw [← simL_iff]; simp only [Sim, noDup, eqv]

theorem SimL.length_eq {xs ys : List Value} (h : SimL xs ys) : xs.length = ys.length := by
  induction h with
  | nil => rfl
  | cons _ _ ih => simp only [List.length_cons, ih]

theorem SimL.get {xs ys : List Value} (h : SimL xs ys) : ∀ i : Nat, OptSim xs[i]? ys[i]? := by
  induction h with
  | nil => intro i; simp
  | cons h1 _ ih =>
    intro i
    cases i with
    | zero => simpa using h1
    | succ i => simpa using ih i

theorem SimL.setAt {xs ys : List Value} {v w : Value} (h : SimL xs ys) (hv : Sim v w) :
    ∀ i, SimL (Spec.setAt i v xs) (Spec.setAt i w ys) := by
  induction h with
  | nil => intro i; simp only [Spec.setAt]; exact .nil
  | cons h1 h2 ih =>
    intro i
    cases i with
    | zero => exact .cons hv h2
    | succ i => exact .cons h1 (ih i)

theorem SimL.insertAt {xs ys : List Value} {v w : Value} (h : SimL xs ys) (hv : Sim v w) :
    ∀ i, SimL (Spec.insertAt i v xs) (Spec.insertAt i w ys) := by
  induction h with
  | nil =>
    intro i
    cases i with
    | zero => exact .cons hv .nil
    | succ i => exact .cons hv .nil
  | cons h1 h2 ih =>
    intro i
    cases i with
    | zero => exact .cons hv (.cons h1 h2)
    | succ i => exact .cons h1 (ih i)

theorem SimL.eraseIdx {xs ys : List Value} (h : SimL xs ys) :
    ∀ i, SimL (xs.eraseIdx i) (ys.eraseIdx i) := by
  induction h with
  | nil => intro i; exact .nil
  | cons h1 h2 ih =>
    intro i
    cases i with
    | zero => exact h2
    | succ i => exact .cons h1 (ih i)

theorem SimL.append {xs ys xs' ys' : List Value} (h : SimL xs ys) (h' : SimL xs' ys') :
    SimL (xs ++ xs') (ys ++ ys') := by
  induction h with
  | nil => exact h'
  | cons h1 _ ih => exact .cons h1 ih

theorem simL_replicate_null : ∀ (n : Nat), SimL (List.replicate n .null) (List.replicate n .null)
  | 0 => .nil
  | n + 1 => .cons (Sim.refl rfl) (simL_replicate_null n)

theorem sim_arr_length {xs ys : List Value} (h : Sim (.arr xs) (.arr ys)) : xs.length = ys.length :=
  ((sim_arr_iff xs ys).mp h).length_eq

theorem sim_arr_get {xs ys : List Value} (h : Sim (.arr xs) (.arr ys)) :
    xs.length = ys.length ∧ ∀ i : Nat, match xs[i]?, ys[i]? with
      | some v, some w => Sim v w
      | none, none => True
      | _, _ => False := by
  refine ⟨sim_arr_length h, fun i => ?_⟩
  have := ((sim_arr_iff xs ys).mp h).get i
  cases hx : xs[i]? <;> cases hy : ys[i]? <;> rw [hx, hy] at this <;> exact this

theorem sim_arr_get' {xs ys : List Value} (h : Sim (.arr xs) (.arr ys)) (i : Nat) :
    OptSim xs[i]? ys[i]? := ((sim_arr_iff xs ys).mp h).get i

theorem sim_setAt {xs ys : List Value} {v w : Value} (i : Nat) (h : Sim (.arr xs) (.arr ys)) (hv : Sim v w) :
    Sim (.arr (Spec.setAt i v xs)) (.arr (Spec.setAt i w ys)) := by
  rw [sim_arr_iff] at h ⊢; exact h.setAt hv i

theorem sim_insertAt {xs ys : List Value} {v w : Value} (i : Nat) (h : Sim (.arr xs) (.arr ys)) (hv : Sim v w) :
    Sim (.arr (Spec.insertAt i v xs)) (.arr (Spec.insertAt i w ys)) := by
  rw [sim_arr_iff] at h ⊢; exact h.insertAt hv i

theorem sim_eraseIdx {xs ys : List Value} (i : Nat) (h : Sim (.arr xs) (.arr ys)) :
    Sim (.arr (xs.eraseIdx i)) (.arr (ys.eraseIdx i)) := by
  rw [sim_arr_iff] at h ⊢; exact h.eraseIdx i

theorem optSim_cases {a b : Option Value} (h : OptSim a b) :
    (a = none ∧ b = none) ∨ ∃ v w, a = some v ∧ b = some w ∧ Sim v w := by
  cases a <;> cases b
  · exact Or.inl ⟨rfl, rfl⟩
  · exact absurd h (by simp)
  · exact absurd h (by simp)
  · exact Or.inr ⟨_, _, rfl, rfl, h⟩

/-! ### 3. navigation -/

theorem atParent_scalar {α} (o : Spec.Opts) (f : Value → Bytes → Res (Value × α)) (a : Value)
    (h : a.isContainer = false) (t : Bytes) (ts : List Bytes) :
    Spec.atParent o f a (t :: ts) = .fail .parentUnreachable := by
  cases ts <;> cases a <;> simp [isContainer, isObj, isArr] at h <;> simp [Spec.atParent]

theorem atParent_sim (o : Spec.Opts) {α} (f g : Value → Bytes → Res (Value × α)) (R : α → α → Prop)
    (hfg : ∀ p q t, Sim p q → p.isContainer = true → ResSim R (f p t) (g q t)) :
    ∀ (toks : List Bytes) (a b : Value), Sim a b →
      ResSim R (Spec.atParent o f a toks) (Spec.atParent o g b toks)
  | [], a, b, _ => by simp [Spec.atParent]
  | [t], a, b, h => by
    rcases sim_cases h with ⟨xs, ys, rfl, rfl⟩ | ⟨xs, ys, rfl, rfl⟩ | ⟨rfl, hs⟩
    · simp only [Spec.atParent]; exact hfg _ _ t h rfl
    · simp only [Spec.atParent]; exact hfg _ _ t h rfl
    · rw [atParent_scalar o f a hs, atParent_scalar o g a hs]; simp
  | t :: t2 :: ts, a, b, h => by
    rcases sim_cases h with ⟨xs, ys, rfl, rfl⟩ | ⟨xs, ys, rfl, rfl⟩ | ⟨rfl, hs⟩
    · rcases optSim_cases (sim_lookup' h t) with ⟨hx, hy⟩ | ⟨v, w, hx, hy, hvw⟩
      · simp only [Spec.atParent, hx, hy, resSim_fail]
      · simp only [Spec.atParent, hx, hy]
        refine (atParent_sim o f g R hfg (t2 :: ts) v w hvw).bind (fun c x c' y hc hr => ?_)
        exact (resSim_ok _ _ _).mpr ⟨sim_set t h hc, hr⟩
    · have hlen := sim_arr_length h
      simp only [Spec.atParent, hlen]
      cases hr : Spec.readIdx o.neg ys.length t with
      | unspec => simp
      | bad => simp
      | «at» i =>
        simp only
        rcases optSim_cases (sim_arr_get' h i) with ⟨hx, hy⟩ | ⟨v, w, hx, hy, hvw⟩
        · simp only [hx, hy, resSim_fail]
        · simp only [hx, hy]
          refine (atParent_sim o f g R hfg (t2 :: ts) v w hvw).bind (fun c x c' y hc hr => ?_)
          exact (resSim_ok _ _ _).mpr ⟨sim_setAt i h hc, hr⟩
    · rw [atParent_scalar o f a hs, atParent_scalar o g a hs]; simp

/-! ### 4. the four container edits -/

theorem addIn_sim (o : Spec.Opts) {v w p q : Value} (t : Bytes) (hv : Sim v w) (hp : Sim p q) :
    ResSim (fun _ _ => True) (Spec.addIn o v p t) (Spec.addIn o w q t) := by
  rcases sim_cases hp with ⟨xs, ys, rfl, rfl⟩ | ⟨xs, ys, rfl, rfl⟩ | ⟨rfl, hs⟩
  · simp only [Spec.addIn, resSim_ok, and_true]; exact sim_set t hp hv
  · simp only [Spec.addIn, sim_arr_length hp]
    cases Spec.slotIdx o.neg ys.length t with
    | «at» i => simp only [resSim_ok, and_true]; exact sim_insertAt i hp hv
    | bad => simp
    | unspec => simp
  · cases p <;> simp [isContainer, isObj, isArr] at hs <;> simp [Spec.addIn]

theorem removeIn_sim (o : Spec.Opts) {p q : Value} (t : Bytes) (hp : Sim p q) :
    ResSim Sim (Spec.removeIn o p t) (Spec.removeIn o q t) := by
  rcases sim_cases hp with ⟨xs, ys, rfl, rfl⟩ | ⟨xs, ys, rfl, rfl⟩ | ⟨rfl, hs⟩
  · rcases optSim_cases (sim_lookup' hp t) with ⟨hx, hy⟩ | ⟨v, w, hx, hy, hvw⟩
    · simp only [Spec.removeIn, hx, hy, resSim_fail]
    · simp only [Spec.removeIn, hx, hy, resSim_ok]; exact ⟨sim_erase t hp, hvw⟩
  · simp only [Spec.removeIn, sim_arr_length hp]
    cases Spec.readIdx o.neg ys.length t with
    | «at» i =>
      simp only
      rcases optSim_cases (sim_arr_get' hp i) with ⟨hx, hy⟩ | ⟨v, w, hx, hy, hvw⟩
      · simp only [hx, hy, resSim_fail]
      · simp only [hx, hy, resSim_ok]; exact ⟨sim_eraseIdx i hp, hvw⟩
    | bad => simp
    | unspec => simp
  · cases p <;> simp [isContainer, isObj, isArr] at hs <;> simp [Spec.removeIn]

theorem replaceIn_sim (o : Spec.Opts) {v w p q : Value} (t : Bytes) (hv : Sim v w) (hp : Sim p q) :
    ResSim (fun _ _ => True) (Spec.replaceIn o v p t) (Spec.replaceIn o w q t) := by
  rcases sim_cases hp with ⟨xs, ys, rfl, rfl⟩ | ⟨xs, ys, rfl, rfl⟩ | ⟨rfl, hs⟩
  · rcases optSim_cases (sim_lookup' hp t) with ⟨hx, hy⟩ | ⟨v', w', hx, hy, _⟩
    · simp only [Spec.replaceIn, hx, hy, resSim_fail]
    · simp only [Spec.replaceIn, hx, hy, resSim_ok, and_true]; exact sim_set t hp hv
  · simp only [Spec.replaceIn, sim_arr_length hp]
    cases Spec.readIdx o.neg ys.length t with
    | «at» i =>
      simp only
      split
      · simp only [resSim_ok, and_true]; exact sim_setAt i hp hv
      · simp
    | bad => simp
    | unspec => simp
  · cases p <;> simp [isContainer, isObj, isArr] at hs <;> simp [Spec.replaceIn]

theorem getIn_sim (o : Spec.Opts) (b : Bool) {p q : Value} (t : Bytes) (hp : Sim p q) :
    ResSim Sim (Spec.getIn o b p t) (Spec.getIn o b q t) := by
  rcases sim_cases hp with ⟨xs, ys, rfl, rfl⟩ | ⟨xs, ys, rfl, rfl⟩ | ⟨rfl, hs⟩
  · rcases optSim_cases (sim_lookup' hp t) with ⟨hx, hy⟩ | ⟨v, w, hx, hy, hvw⟩
    · simp only [Spec.getIn, hx, hy]
      cases b
      · simp
      · simp only [if_true, resSim_ok]; exact ⟨hp, Sim.refl rfl⟩
    · simp only [Spec.getIn, hx, hy, resSim_ok]; exact ⟨hp, hvw⟩
  · simp only [Spec.getIn, sim_arr_length hp]
    cases Spec.readIdx o.neg ys.length t with
    | «at» i =>
      simp only
      rcases optSim_cases (sim_arr_get' hp i) with ⟨hx, hy⟩ | ⟨v, w, hx, hy, hvw⟩
      · simp only [hx, hy, resSim_fail]
      · simp only [hx, hy, resSim_ok]; exact ⟨hp, hvw⟩
    | bad => simp
    | unspec => simp
  · cases p <;> simp [isContainer, isObj, isArr] at hs <;> simp [Spec.getIn]

theorem lookup_sim (o : Spec.Opts) (absentNull : Bool) (toks : List Bytes) (a b : Value) (h : Sim a b) :
    ResSim Sim (Spec.atParent o (Spec.getIn o absentNull) a toks)
      (Spec.atParent o (Spec.getIn o absentNull) b toks) :=
  atParent_sim o _ _ Sim (fun _ _ t hpq _ => getIn_sim o absentNull t hpq) toks a b h

/-! ### 6. comparing with a third value -/

theorem eqv_congr_left {x y want : Value} (h : Sim x y) (hw : want.noDup = true) :
    Value.eqv x want = Value.eqv y want := by
  have _ := hw
  have hyx : eqv y x = true := h.symm.2.2
  cases h1 : eqv x want with
  | true => exact (eqv_trans_E y x want hyx h1).symm
  | false =>
    cases h2 : eqv y want with
    | false => rfl
    | true => rw [eqv_trans_E x y want h.2.2 h2] at h1; cases h1

/-! ### 5. one operation -/

/-- forget the payload, keep the accumulator -/
theorem ResSim.withAcc {α} {R : α → α → Prop} {r s : Res (Value × α)} (acc : Nat) (h : ResSim R r s) :
    ResSim (fun x y : Nat => x = y) (r.bind fun (d, _) => .ok (d, acc)) (s.bind fun (d, _) => .ok (d, acc)) :=
  h.bind (fun _ _ _ _ hab _ => (resSim_ok _ _ _).mpr ⟨hab, rfl⟩)

theorem ResSim.toRel {α} {R : α → α → Prop} {r s : Res (Value × α)} (h : ResSim R r s) :
    ResRel (fun p q => Sim p.1 q.1 ∧ R p.2 q.2) r s := (resSim_iff R r s).mp h

/-! #### EnsurePathExistsOnAdd -/

theorem freshFor_sim (t : Bytes) : ResRel Sim (Spec.freshFor t) (Spec.freshFor t) := by
  unfold Spec.freshFor
  cases Spec.classify t with
  | dash => exact Sim.refl rfl
  | int i =>
    simp only
    split
    · trivial
    · split
      · trivial
      · exact (sim_arr_iff _ _).mpr (simL_replicate_null _)
  | noncanon => trivial
  | name => exact Sim.refl rfl

theorem ensureAdd_scalar (o : Spec.Opts) (v a : Value) (h : a.isContainer = false) (t t2 : Bytes)
    (ts : List Bytes) : Spec.ensureAdd o v a (t :: t2 :: ts) = .unspec := by
  cases a <;> simp [isContainer, isObj, isArr] at h <;> simp [Spec.ensureAdd]

theorem ensureAdd_sim (o : Spec.Opts) {v w : Value} (hv : Sim v w) :
    ∀ (toks : List Bytes) (a b : Value), Sim a b →
      ResRel Sim (Spec.ensureAdd o v a toks) (Spec.ensureAdd o w b toks)
  | [], a, b, _ => by simp [Spec.ensureAdd]
  | [t], a, b, h => by
    simp only [Spec.ensureAdd]
    exact (addIn_sim o t hv h).toRel.bind (fun p q hpq => hpq.1)
  | t :: t2 :: ts, a, b, h => by
    rcases sim_cases h with ⟨xs, ys, rfl, rfl⟩ | ⟨xs, ys, rfl, rfl⟩ | ⟨rfl, hs⟩
    · rcases optSim_cases (sim_lookup' h t) with ⟨hx, hy⟩ | ⟨c, c', hx, hy, hcc⟩
      · simp only [Spec.ensureAdd, hx, hy]
        refine (freshFor_sim t2).bind (fun f f' hff => ?_)
        refine (ensureAdd_sim o hv (t2 :: ts) f f' hff).bind (fun i i' hii => ?_)
        rw [resRel_ok, ← set_of_absent t i xs hx, ← set_of_absent t i' ys hy]
        exact sim_set t h hii
      · simp only [Spec.ensureAdd, hx, hy, ← (sim_kind hcc).2.2.2]
        split
        · refine (ensureAdd_sim o hv (t2 :: ts) c c' hcc).bind (fun i i' hii => ?_)
          exact sim_set t h hii
        · trivial
    · have hlen := sim_arr_length h
      simp only [Spec.ensureAdd]
      cases Spec.classify t with
      | int i =>
        simp only
        split
        · trivial
        · split
          · trivial
          · rcases optSim_cases (sim_arr_get' h i.toNat) with ⟨hx, hy⟩ | ⟨c, c', hx, hy, hcc⟩
            · simp only [hx, hy]
              refine (freshFor_sim t2).bind (fun f f' hff => ?_)
              refine (ensureAdd_sim o hv (t2 :: ts) f f' hff).bind (fun j j' hjj => ?_)
              rw [resRel_ok, sim_arr_iff, hlen]
              exact (((sim_arr_iff _ _).mp h).append (simL_replicate_null _)).append
                (.cons hjj .nil)
            · simp only [hx, hy, ← (sim_kind hcc).2.2.2]
              split
              · refine (ensureAdd_sim o hv (t2 :: ts) c c' hcc).bind (fun j j' hjj => ?_)
                exact sim_setAt _ h hjj
              · trivial
      | noncanon => trivial
      | dash => trivial
      | name => trivial
    · rw [ensureAdd_scalar o v a hs, ensureAdd_scalar o w a hs]; trivial

/-! #### AllowMissingPathOnRemove -/

theorem skip_post (r s : Res (Value × Bool)) : ResSim (fun x y => x = y) r s →
    ResRel (fun x y : Bool => x = y)
      (match r with | .ok (_, b) => .ok b | .fail _ => .ok true | .unspec => .unspec)
      (match s with | .ok (_, b) => .ok b | .fail _ => .ok true | .unspec => .unspec) := by
  intro h
  cases r with
  | ok p => cases s with
    | ok q => obtain ⟨a, x⟩ := p; obtain ⟨b, y⟩ := q; exact h.2
    | fail c => exact False.elim h
    | unspec => exact h
  | fail c => cases s with
    | ok q => exact False.elim h
    | fail c => rfl
    | unspec => exact h
  | unspec => cases s with
    | ok q => exact h
    | fail c => exact h
    | unspec => trivial

theorem skipsRemove_sim (o : Spec.Opts) (path : List Bytes) {a b : Value} (h : Sim a b) :
    ResRel (fun x y : Bool => x = y) (Spec.skipsRemove o a path) (Spec.skipsRemove o b path) := by
  unfold Spec.skipsRemove
  apply skip_post
  apply atParent_sim
  · intro p q t hpq _
    rcases sim_cases hpq with ⟨xs, ys, rfl, rfl⟩ | ⟨xs, ys, rfl, rfl⟩ | ⟨rfl, hs⟩
    · simp only [resSim_ok]
      exact ⟨hpq, (sim_lookup' hpq t).isNone_eq⟩
    · have hlen := sim_arr_length hpq
      simp only
      cases Spec.classify t with
      | int i =>
        simp only [hlen]
        split
        · exact (resSim_ok _ _ _).mpr ⟨hpq, rfl⟩
        · split
          · trivial
          · exact (resSim_ok _ _ _).mpr ⟨hpq, rfl⟩
      | noncanon => trivial
      | dash => trivial
      | name => trivial
    · cases p <;> simp [isContainer, isObj, isArr] at hs <;>
        exact (resSim_ok _ _ _).mpr ⟨hpq, rfl⟩
  · exact h

/-! #### the operations -/

theorem applyOp_sim (o : Spec.Opts) (sz acc : Nat) (sop : Spec.Op) (hk : sop.kind ≠ .test)
    (hv : ∀ v, sop.value = some v → v.noDup = true) (a b : Value) (h : Sim a b) :
    ResSim (fun x y => x = y) (Spec.applyOp o sz acc a sop) (Spec.applyOp o sz acc b sop) := by
  unfold Spec.applyOp
  cases hp : Spec.parsePointer sop.path with
  | none =>
    simp only
    split
    · trivial
    · -- every kind fails; `move` / `copy` evaluate the source half first, and that failure is the
      -- same on related documents
      cases hkind : sop.kind with
      | move =>
        simp only
        cases hf : Spec.parsePointer sop.frm with
        | none => rfl
        | some frm =>
          cases frm with
          | nil => rfl
          | cons f fs =>
            exact (atParent_sim o _ _ _ (fun _ _ t hpq _ => removeIn_sim o t hpq) (f :: fs) a b h).bind
              (fun _ _ _ _ _ _ => rfl)
      | copy =>
        simp only
        cases hf : Spec.parsePointer sop.frm with
        | none => rfl
        | some frm =>
          cases frm with
          | nil => rfl
          | cons f fs =>
            exact (lookup_sim o false (f :: fs) a b h).bind (fun _ _ _ _ _ _ => rfl)
      | add => rfl
      | remove => rfl
      | replace => rfl
      | test => rfl
  | some path =>
    simp only
    cases hkind : sop.kind with
    | test => exact absurd hkind hk
    | add =>
      simp only
      cases hval : sop.value with
      | none => trivial
      | some v =>
        have hvv : Sim v v := Sim.refl (hv v hval)
        cases path with
        | nil =>
          simp only
          split
          · exact (resSim_ok _ _ _).mpr ⟨hvv, rfl⟩
          · split
            · trivial
            · rfl
        | cons t ts =>
          simp only
          split
          · rw [resSim_iff]
            refine (ensureAdd_sim o hvv (t :: ts) a b h).bind (fun d d' hdd => ?_)
            exact ⟨hdd, rfl⟩
          · exact (atParent_sim o _ _ _ (fun _ _ t hpq _ => addIn_sim o t hvv hpq) (t :: ts) a b h).withAcc acc
    | remove =>
      simp only
      cases path with
      | nil => trivial
      | cons t ts =>
        simp only
        have hrem := (atParent_sim o _ _ _ (fun _ _ t hpq _ => removeIn_sim o t hpq) (t :: ts) a b h).withAcc acc
        split
        · have hs := skipsRemove_sim o (t :: ts) h
          revert hs
          cases Spec.skipsRemove o a (t :: ts) with
          | ok x =>
            cases Spec.skipsRemove o b (t :: ts) with
            | ok y =>
              intro hs
              have : x = y := hs
              subst this
              cases x
              · exact hrem
              · exact (resSim_ok _ _ _).mpr ⟨h, rfl⟩
            | fail c => intro hs; exact hs.elim
            | unspec => intro hs; exact hs.elim
          | fail c =>
            cases Spec.skipsRemove o b (t :: ts) with
            | ok y => intro hs; exact hs.elim
            | fail c' => intro hs; exact hs
            | unspec => intro hs; exact hs.elim
          | unspec =>
            cases Spec.skipsRemove o b (t :: ts) with
            | ok y => intro hs; exact hs.elim
            | fail c' => intro hs; exact hs.elim
            | unspec => intro hs; trivial
        · exact hrem
    | replace =>
      simp only
      cases hval : sop.value with
      | none => trivial
      | some v =>
        have hvv : Sim v v := Sim.refl (hv v hval)
        cases path with
        | nil =>
          simp only
          split
          · exact (resSim_ok _ _ _).mpr ⟨hvv, rfl⟩
          · split
            · trivial
            · rfl
        | cons t ts =>
          exact (atParent_sim o _ _ _ (fun _ _ t hpq _ => replaceIn_sim o t hvv hpq) (t :: ts) a b h).withAcc acc
    | move =>
      simp only
      cases hf : Spec.parsePointer sop.frm with
      | none => rfl
      | some frm =>
        cases frm with
        | nil => rfl
        | cons f fs =>
          simp only
          refine (atParent_sim o _ _ _ (fun _ _ t hpq _ => removeIn_sim o t hpq) (f :: fs) a b h).bind
            (fun d v d' v' hdd hvv => ?_)
          cases path with
          | nil => trivial
          | cons t ts =>
            exact (atParent_sim o _ _ _ (fun _ _ t hpq _ => addIn_sim o t hvv hpq) (t :: ts) d d' hdd).withAcc acc
    | copy =>
      simp only
      cases hf : Spec.parsePointer sop.frm with
      | none => rfl
      | some frm =>
        simp only
        have hsrc : ∀ frm : List Bytes, ResRel Sim
            (match frm with
              | [] => Res.ok a
              | _ => (Spec.atParent o (Spec.getIn o false) a frm).bind fun (_, v) => .ok v)
            (match frm with
              | [] => Res.ok b
              | _ => (Spec.atParent o (Spec.getIn o false) b frm).bind fun (_, v) => .ok v) := by
          intro frm
          cases frm with
          | nil => exact h
          | cons f fs =>
            exact (lookup_sim o false (f :: fs) a b h).toRel.bind (fun p q hpq => hpq.2)
        rw [resSim_iff]
        refine (hsrc frm).bind (fun v v' hvv => ?_)
        cases path with
        | nil => trivial
        | cons t ts =>
          simp only
          have hreach := (atParent_sim o (fun p _ => Res.ok (p, ())) (fun p _ => Res.ok (p, ()))
            (fun _ _ => True) (fun p q t hpq _ => (resSim_ok _ _ _).mpr ⟨hpq, trivial⟩) (t :: ts) a b h).toRel
          refine hreach.bind (fun _ _ _ => ?_)
          split
          · rfl
          · exact ((atParent_sim o _ _ _ (fun _ _ t hpq _ => addIn_sim o t hvv hpq) (t :: ts) a b h).withAcc
              (acc + sz)).toRel

/-
#print axioms applyOp_sim   -- [propext, Classical.choice, Quot.sound]
#print axioms atParent_sim  -- [propext, Quot.sound]
#print axioms lookup_sim    -- [propext, Classical.choice, Quot.sound]
-/

end Legacy
end JP
