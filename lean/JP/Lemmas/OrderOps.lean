import JP.Lemmas.OrderWalk

/-!
# `Spec.applyOp` by kind of operation: one equation per kind, `ensureAdd` equations
-/

namespace JP
namespace Spec
open Value

variable {o : Opts} {size acc : Nat} {doc : Value} {op : Op}

/-- a pointer outside RFC 6901: the operation is outside the domain (remove under
AllowMissingPathOnRemove) or fails (for move / copy with the failure of the source half, which is
evaluated first) — it never succeeds -/
theorem applyOp_badPointer (hp : parsePointer op.path = none) :
    applyOp o size acc doc op = .unspec ∨ ∃ c, applyOp o size acc doc op = .fail c := by
  simp only [applyOp, hp]
  split
  · exact .inl rfl
  · cases op.kind with
    | move =>
      simp only
      cases parsePointer op.frm with
      | none => exact .inr ⟨_, rfl⟩
      | some frm =>
        cases frm with
        | nil => exact .inr ⟨_, rfl⟩
        | cons t ts =>
          simp only
          cases atParent o (removeIn o) doc (t :: ts) with
          | ok a => exact .inr ⟨_, rfl⟩
          | fail c => exact .inr ⟨_, rfl⟩
          | unspec => exact .inl rfl
    | copy =>
      simp only
      cases parsePointer op.frm with
      | none => exact .inr ⟨_, rfl⟩
      | some frm =>
        cases frm with
        | nil => exact .inr ⟨_, rfl⟩
        | cons t ts =>
          simp only
          cases atParent o (getIn o false) doc (t :: ts) with
          | ok a => exact .inr ⟨_, rfl⟩
          | fail c => exact .inr ⟨_, rfl⟩
          | unspec => exact .inl rfl
    | add => exact .inr ⟨_, rfl⟩
    | remove => exact .inr ⟨_, rfl⟩
    | replace => exact .inr ⟨_, rfl⟩
    | test => exact .inr ⟨_, rfl⟩

theorem applyOp_badPointer_ne_ok (hp : parsePointer op.path = none) (r : Value × Nat) :
    applyOp o size acc doc op ≠ .ok r := by
  intro h
  rcases applyOp_badPointer (o := o) (size := size) (acc := acc) (doc := doc) hp with h' | ⟨c, h'⟩ <;>
    rw [h'] at h <;> cases h

/-- an operation that succeeds has a well-formed `path` -/
theorem applyOp_ok_pointer {d' : Value} {acc' : Nat} (h : applyOp o size acc doc op = .ok (d', acc')) :
    ∃ path, parsePointer op.path = some path := by
  cases hp : parsePointer op.path with
  | none => exact absurd h (applyOp_badPointer_ne_ok hp _)
  | some path => exact ⟨path, rfl⟩

theorem applyOp_add_none {path : List Bytes} (hp : parsePointer op.path = some path)
    (hk : op.kind = .add) (hv : op.value = none) : applyOp o size acc doc op = .unspec := by
  simp only [applyOp, hp, hk, hv]

theorem applyOp_add_root {v : Value} (hp : parsePointer op.path = some []) (hk : op.kind = .add)
    (hv : op.value = some v) :
    applyOp o size acc doc op =
      if v.isContainer then .ok (v, acc) else if v.isNull then .unspec else .fail .rootNotContainer := by
  simp only [applyOp, hp, hk, hv]

theorem applyOp_add_cons {v : Value} {t : Bytes} {ts : List Bytes}
    (hp : parsePointer op.path = some (t :: ts)) (hk : op.kind = .add) (hv : op.value = some v) :
    applyOp o size acc doc op =
      if o.ensure then (ensureAdd o v doc (t :: ts)).bind fun d => .ok (d, acc)
      else (atParent o (addIn o v) doc (t :: ts)).bind fun (d, _) => .ok (d, acc) := by
  simp only [applyOp, hp, hk, hv]

theorem applyOp_remove_root (hp : parsePointer op.path = some []) (hk : op.kind = .remove) :
    applyOp o size acc doc op = .unspec := by
  simp only [applyOp, hp, hk]

theorem applyOp_remove_cons_strict {t : Bytes} {ts : List Bytes}
    (hp : parsePointer op.path = some (t :: ts)) (hk : op.kind = .remove) (ha : o.allowMissing = false) :
    applyOp o size acc doc op =
      (atParent o (removeIn o) doc (t :: ts)).bind fun (d, _) => .ok (d, acc) := by
  simp only [applyOp, hp, hk, ha]; rfl

/-- a successful `remove`: skipped (document unchanged) or removed through `atParent` -/
theorem applyOp_remove_ok {t : Bytes} {ts : List Bytes} {d' : Value} {acc' : Nat}
    (hp : parsePointer op.path = some (t :: ts)) (hk : op.kind = .remove)
    (h : applyOp o size acc doc op = .ok (d', acc')) :
    acc' = acc ∧
      ((o.allowMissing = true ∧ skipsRemove o doc (t :: ts) = .ok true ∧ d' = doc) ∨
       ∃ old, atParent o (removeIn o) doc (t :: ts) = .ok (d', old)) := by
  simp only [applyOp, hp, hk] at h
  split at h
  · rename_i ha
    split at h
    · rename_i hs
      cases h; exact ⟨rfl, Or.inl ⟨ha, hs, rfl⟩⟩
    · obtain ⟨⟨d, old⟩, h1, h2⟩ := Res.bind_eq_ok.1 h
      cases h2; exact ⟨rfl, Or.inr ⟨old, h1⟩⟩
    · cases h
    · cases h
  · obtain ⟨⟨d, old⟩, h1, h2⟩ := Res.bind_eq_ok.1 h
    cases h2; exact ⟨rfl, Or.inr ⟨old, h1⟩⟩

theorem applyOp_replace_none {path : List Bytes} (hp : parsePointer op.path = some path)
    (hk : op.kind = .replace) (hv : op.value = none) : applyOp o size acc doc op = .unspec := by
  simp only [applyOp, hp, hk, hv]

theorem applyOp_replace_root {v : Value} (hp : parsePointer op.path = some []) (hk : op.kind = .replace)
    (hv : op.value = some v) :
    applyOp o size acc doc op =
      if v.isContainer then .ok (v, acc) else if v.isNull then .unspec else .fail .rootNotContainer := by
  simp only [applyOp, hp, hk, hv]

theorem applyOp_replace_cons {v : Value} {t : Bytes} {ts : List Bytes}
    (hp : parsePointer op.path = some (t :: ts)) (hk : op.kind = .replace) (hv : op.value = some v) :
    applyOp o size acc doc op =
      (atParent o (replaceIn o v) doc (t :: ts)).bind fun (d, _) => .ok (d, acc) := by
  simp only [applyOp, hp, hk, hv]

theorem applyOp_move_badFrom {path : List Bytes} (hp : parsePointer op.path = some path)
    (hk : op.kind = .move) (hf : parsePointer op.frm = none) :
    applyOp o size acc doc op = .fail .parentUnreachable := by
  simp only [applyOp, hp, hk, hf]

theorem applyOp_move_fromRoot {path : List Bytes} (hp : parsePointer op.path = some path)
    (hk : op.kind = .move) (hf : parsePointer op.frm = some []) :
    applyOp o size acc doc op = .fail .moveFromRoot := by
  simp only [applyOp, hp, hk, hf]

theorem applyOp_move_toRoot {u : Bytes} {us : List Bytes} (hp : parsePointer op.path = some [])
    (hk : op.kind = .move) (hf : parsePointer op.frm = some (u :: us)) :
    applyOp o size acc doc op =
      (atParent o (removeIn o) doc (u :: us)).bind fun (_, _) => .unspec := by
  simp only [applyOp, hp, hk, hf]

theorem applyOp_move_cons {t u : Bytes} {ts us : List Bytes}
    (hp : parsePointer op.path = some (t :: ts))
    (hk : op.kind = .move) (hf : parsePointer op.frm = some (u :: us)) :
    applyOp o size acc doc op =
      (atParent o (removeIn o) doc (u :: us)).bind fun (d, v) =>
        (atParent o (addIn o v) d (t :: ts)).bind fun (d', _) => .ok (d', acc) := by
  simp only [applyOp, hp, hk, hf]

/-- the value a `copy` reads -/
def copySrc (o : Opts) (doc : Value) : List Bytes → Res Value
  | [] => .ok doc
  | u :: us => (atParent o (getIn o false) doc (u :: us)).bind fun (_, v) => .ok v

theorem applyOp_copy_badFrom {path : List Bytes} (hp : parsePointer op.path = some path)
    (hk : op.kind = .copy) (hf : parsePointer op.frm = none) :
    applyOp o size acc doc op = .fail .parentUnreachable := by
  simp only [applyOp, hp, hk, hf]

theorem applyOp_copy_toRoot {frm : List Bytes} (hp : parsePointer op.path = some [])
    (hk : op.kind = .copy) (hf : parsePointer op.frm = some frm) :
    applyOp o size acc doc op = (copySrc o doc frm).bind fun _ => .unspec := by
  cases frm <;> simp only [applyOp, hp, hk, hf, copySrc]

theorem applyOp_copy_cons {frm : List Bytes} {t : Bytes} {ts : List Bytes}
    (hp : parsePointer op.path = some (t :: ts))
    (hk : op.kind = .copy) (hf : parsePointer op.frm = some frm) :
    applyOp o size acc doc op =
      (copySrc o doc frm).bind fun v =>
        (atParent o (fun p _ => .ok (p, ())) doc (t :: ts)).bind fun _ =>
          if o.limit > 0 ∧ acc + size > o.limit then .fail .copyLimit
          else (atParent o (addIn o v) doc (t :: ts)).bind fun (d', _) => .ok (d', acc + size) := by
  cases frm <;> simp only [applyOp, hp, hk, hf, copySrc]

theorem applyOp_test_root (hp : parsePointer op.path = some []) (hk : op.kind = .test) :
    applyOp o size acc doc op = (testEq doc (op.value.getD .null)).bind fun _ => .ok (doc, acc) := by
  simp only [applyOp, hp, hk]

theorem applyOp_test_cons {t : Bytes} {ts : List Bytes} (hp : parsePointer op.path = some (t :: ts))
    (hk : op.kind = .test) :
    applyOp o size acc doc op =
      (atParent o (getIn o true) doc (t :: ts)).bind fun (_, v) =>
        (testEq v (op.value.getD .null)).bind fun _ => .ok (doc, acc) := by
  simp only [applyOp, hp, hk]

/-- a successful `test` returns the document itself -/
theorem applyOp_test_ok {d' : Value} {acc' : Nat} (hk : op.kind = .test)
    (h : applyOp o size acc doc op = .ok (d', acc')) : d' = doc ∧ acc' = acc := by
  cases hp : parsePointer op.path with
  | none => exact absurd h (applyOp_badPointer_ne_ok hp _)
  | some path =>
    cases path with
    | nil =>
      rw [applyOp_test_root hp hk] at h
      obtain ⟨_, _, h2⟩ := Res.bind_eq_ok.1 h
      cases h2; exact ⟨rfl, rfl⟩
    | cons t ts =>
      rw [applyOp_test_cons hp hk] at h
      obtain ⟨⟨_, v⟩, _, h2⟩ := Res.bind_eq_ok.1 h
      obtain ⟨_, _, h3⟩ := Res.bind_eq_ok.1 h2
      cases h3; exact ⟨rfl, rfl⟩

/-! ### `ensureAdd` equations -/

theorem ensureAdd_nil (v c : Value) : ensureAdd o v c [] = .unspec := by
  cases c <;> rfl

theorem ensureAdd_single (v c : Value) (t : Bytes) :
    ensureAdd o v c [t] = (addIn o v c t).bind fun (c', _) => .ok c' := by
  cases c <;> rfl

theorem ensureAdd_obj_cons (v : Value) (ms : Members) (t t2 : Bytes) (ts : List Bytes) :
    ensureAdd o v (.obj ms) (t :: t2 :: ts) =
      match Value.lookup t ms with
      | some child =>
        if child.isContainer then
          (ensureAdd o v child (t2 :: ts)).bind fun c' => .ok (.obj (Value.set t c' ms))
        else .unspec
      | none =>
        (freshFor t2).bind fun fresh =>
          (ensureAdd o v fresh (t2 :: ts)).bind fun inner => .ok (.obj (ms ++ [(t, inner)])) := rfl

theorem ensureAdd_arr_cons (v : Value) (xs : List Value) (t t2 : Bytes) (ts : List Bytes) :
    ensureAdd o v (.arr xs) (t :: t2 :: ts) =
      match classify t with
      | .int i =>
        if i < 0 then .unspec
        else if i.toNat > ensureMaxIndex then .unspec
        else
          match xs[i.toNat]? with
          | some child =>
            if child.isContainer then
              (ensureAdd o v child (t2 :: ts)).bind fun c' => .ok (.arr (setAt i.toNat c' xs))
            else .unspec
          | none =>
            (freshFor t2).bind fun fresh =>
              (ensureAdd o v fresh (t2 :: ts)).bind fun inner =>
                .ok (.arr (xs ++ List.replicate (i.toNat - xs.length) .null ++ [inner]))
      | _ => .unspec := rfl

theorem ensureAdd_cons_of_not_container (v : Value) {c : Value} (h : c.isContainer = false)
    (t t2 : Bytes) (ts : List Bytes) : ensureAdd o v c (t :: t2 :: ts) = .unspec := by
  cases c <;> simp [isContainer, isObj, isArr] at h <;> rfl

end Spec
end JP
