import JP.Lemmas.HeapEnsure

/-!
# `ensurePathExists` refines `Impl.ensure`
-/
namespace JP
namespace Heap
open JP.Impl (Node NMembers Outcome Opts isCon padNulls rawNull)

def hTarget (o : Opts) (h : Heap) (a : Nat) (key : Bytes) : Option Nat :=
  match hGet o h a key with
  | .ok (some b) => some b
  | _ => none

def hCreate (o : Opts) (h1 : Heap) (a : Nat) (key : Bytes) (c0 : Cell) (mk : Heap → Heap)
    (k : Heap → Outcome Heap) : Outcome Heap :=
  match addIgnoring o (h1 ++ [c0]) a key h1.length with
  | .panic => .panic
  | .err e => .err e
  | .ok h3 => k (mk h3)

def mkAry (b : Nat) (n : Nat) (h3 : Heap) : Heap := (newNulls h3 n).1.set b (.ary (newNulls h3 n).2)
def mkDoc (b : Nat) (h3 : Heap) : Heap := h3.set b (.doc [] [])

theorem hensure_cons2 (o : Opts) (h : Heap) (a : Nat) (part nxt : Bytes) (rest : List Bytes) :
    Heap.ensure o h a (part :: nxt :: rest) =
      match hTarget o h a (decodeToken part) with
      | none =>
        if (atoi nxt).isSome ∨ nxt = [45] then
          if (atoi nxt).getD 0 < 0 ∧ !o.neg then .err .invalidIndex
          else if (atoi nxt).getD 0 < -1 then .err .invalidIndex
          else
            hCreate o (padTo h a part) a (decodeToken part) (.raw (.arr []))
              (mkAry (padTo h a part).length (if (atoi nxt).getD 0 < 0 then 0 else ((atoi nxt).getD 0).toNat))
              (fun h4 => Heap.ensure o h4 (padTo h a part).length (nxt :: rest))
        else
          hCreate o (padTo h a part) a (decodeToken part) (.raw (.obj []))
            (mkDoc (padTo h a part).length)
            (fun h4 => Heap.ensure o h4 (padTo h a part).length (nxt :: rest))
      | some b =>
        match intoContainer h (some b) with
        | .panic => .panic
        | .err e => .err e
        | .ok h' => Heap.ensure o h' b (nxt :: rest) := by
  rw [Heap.ensure]
  rfl
/-- the outcome of `ensure` below the container at `a` -/
def EnsRel (h : Heap) (a : Nat) (f : List Nat) (h' : Heap) (res : Node × Node) : Prop :=
  ∃ f', Repr h' res.1 (some a) f' ∧ Ext h h' f f'

/-- creation of a missing parent: linked first, filled afterwards (heap) = built, then added (value) -/
theorem ensure_create {o : Opts} {h1 : Heap} {con1 : Node} {a : Nat} {f1 : List Nat} {key : Bytes}
    {c0 : Cell} {self init : Node} {mk : Heap → Heap} {k : Heap → Outcome Heap}
    {Y : Outcome (Node × Node)}
    (hr : Repr h1 con1 (some a) f1) (hc : isCon con1 = true)
    (hmk : ∀ h3 : Heap, h3.length = h1.length + 1 →
      (∀ x, x < h1.length → (mk h3)[x]? = h3[x]?) ∧ h3.length ≤ (mk h3).length ∧
      ∃ fb, Repr (mk h3) init (some h1.length) fb ∧ ∀ x ∈ fb, h1.length ≤ x)
    (ih : ∀ (h4 : Heap) (fb : List Nat), Repr h4 init (some h1.length) fb →
      OutRel (EnsRel h4 h1.length fb) (k h4) Y) :
    OutRel (EnsRel h1 a f1) (hCreate o h1 a key c0 mk k) (Impl.ensureAdd o con1 key self Y) := by
  have hv := Repr.valid _ hr
  have halt : a < h1.length := hv a (Repr.head_mem hr)
  obtain ⟨oldcell, hold⟩ : ∃ c, h1[a]? = some c := ⟨h1[a], List.getElem?_eq_getElem halt⟩
  have hold2 : (h1 ++ [c0])[a]? = some oldcell := by rw [List.getElem?_append_left halt]; exact hold
  have hnp := cellAdd_ne_panic (o := o) hr hc hold key (some h1.length)
  unfold hCreate addIgnoring hAdd
  rw [hold2]
  -- the heap after the (possibly failed) link, and what it did to old cells
  have key_fact : ∀ (h3 : Heap), h3.length = h1.length + 1 →
      (∀ x, x < h1.length → x ≠ a → h3[x]? = h1[x]?) →
      ((h3[a]? = some oldcell ∧ ∃ e, cellAdd o oldcell key (some h1.length) = .err e) ∨
        ∃ cell', cellAdd o oldcell key (some h1.length) = .ok cell' ∧ h3[a]? = some cell') →
      OutRel (EnsRel h1 a f1) (k (mk h3)) (Impl.ensureAdd o con1 key self Y) := by
    intro h3 hlen hfr hcase
    obtain ⟨hmk1, hmk2, fb, hrb, frb⟩ := hmk h3 hlen
    have hI := ih (mk h3) fb hrb
    cases hk : k (mk h3) with
    | panic =>
      cases hy : Y with
      | panic => simp [Impl.ensureAdd]
      | ok y => rw [hk, hy] at hI; simp at hI
      | err e => rw [hk, hy] at hI; simp at hI
    | err e =>
      cases hy : Y with
      | panic => rw [hk, hy] at hI; simp at hI
      | ok y => rw [hk, hy] at hI; simp at hI
      | err e' => rw [hk, hy] at hI; simp only [OutRel_err_err] at hI; subst hI; simp [Impl.ensureAdd]
    | ok h5 =>
      cases hy : Y with
      | panic => rw [hk, hy] at hI; simp at hI
      | err e' => rw [hk, hy] at hI; simp at hI
      | ok y =>
        obtain ⟨child, s''⟩ := y
        rw [hk, hy] at hI; simp only [OutRel_ok_ok, EnsRel] at hI
        obtain ⟨fb', hrb', e45⟩ := hI
        -- old cells other than `a` are untouched all the way
        have hlen4 : h1.length < (mk h3).length := by omega
        have old5 : ∀ x, x < h1.length → h5[x]? = h3[x]? := by
          intro x hx
          rw [e45.frame x (by omega) (fun hxf => by have := frb x hxf; omega), hmk1 x hx]
        have fresh' : ∀ x ∈ fb', h1.length ≤ x := by
          intro x hx
          rcases e45.sub x hx with h1' | h1'
          · exact frb x h1'
          · omega
        have hlen5 : h1.length ≤ h5.length := by have := e45.len; omega
        have dbf : Disj fb' f1 := by
          intro x hx hy
          have := fresh' x hx
          have := hv x hy
          omega
        have ha_fb' : a ∉ fb' := fun hx => by have := fresh' a hx; omega
        -- undo the link: the parent as it was, next to the finished child
        have hr5 : Repr (h5.set a oldcell) con1 (some a) f1 := by
          refine Repr.frame _ hr (fun x hx => ?_)
          by_cases hxa : a = x
          · subst hxa
            rw [List.getElem?_set_self (by omega)]; exact hold.symm
          · rw [List.getElem?_set_ne hxa, old5 x (hv x hx), hfr x (hv x hx) (fun e => hxa e.symm)]
        have hrc5 : Repr (h5.set a oldcell) child (some h1.length) fb' := Repr.write hrb' _ ha_fb'
        have hA := hAdd_refines o key hr5 hrc5 dbf
        have hget5 : (h5.set a oldcell)[a]? = some oldcell := by
          rw [List.getElem?_set_self (by omega)]
        simp only [hAdd, hget5] at hA
        simp only [Impl.ensureAdd]
        have ext_of : ∀ f', (∀ x ∈ f', x ∈ fb' ∨ x ∈ f1) → Ext h1 h5 f1 f' := by
          intro f' sub
          refine ⟨hlen5, fun x hx hf => ?_, fun x hx => ?_⟩
          · have hxa : x ≠ a := fun e => hf (e ▸ Repr.head_mem hr)
            rw [old5 x hx, hfr x hx hxa]
          · rcases sub x hx with h1' | h1'
            · exact Or.inr (fresh' x h1')
            · exact Or.inl h1'
        cases hR : cellAdd o oldcell key (some h1.length) with
        | panic => exact absurd hR hnp
        | err e =>
          rw [hR] at hA
          cases hca : Impl.conAdd o con1 key child with
          | panic => rw [hca] at hA; simp [writeBack] at hA
          | ok x => rw [hca] at hA; simp [writeBack] at hA
          | err e' =>
            simp only [OutRel_ok_ok, EnsRel]
            rcases hcase with ⟨h3a, _⟩ | ⟨cell', hcell', _⟩
            · have h5a : h5[a]? = some oldcell := by rw [old5 a halt]; exact h3a
              refine ⟨f1, ?_, ext_of f1 (fun x hx => Or.inr hx)⟩
              rw [← set_same h5a]; exact hr5
            · rw [hR] at hcell'; cases hcell'
        | ok cell' =>
          rw [hR] at hA
          cases hca : Impl.conAdd o con1 key child with
          | panic => rw [hca] at hA; simp [writeBack] at hA
          | err e' => rw [hca] at hA; simp [writeBack] at hA
          | ok con2 =>
            rw [hca] at hA
            simp only [writeBack, OutRel_ok_ok] at hA
            obtain ⟨fc', cell'', hset, hr'', sub⟩ := hA
            simp only [OutRel_ok_ok, EnsRel]
            rcases hcase with ⟨_, e0, he0⟩ | ⟨cell3, hcell3, h3a⟩
            · rw [hR] at he0; cases he0
            · rw [hR] at hcell3; cases hcell3
              have h5a : h5[a]? = some cell' := by rw [old5 a halt]; exact h3a
              have : (h5.set a oldcell).set a cell' = h5 := by
                rw [List.set_set]; exact set_same h5a
              rw [this] at hr''
              exact ⟨fc', hr'', ext_of fc' sub⟩
  cases hR : cellAdd o oldcell key (some h1.length) with
  | panic => exact absurd hR hnp
  | err e =>
    simp only [hR, writeBack]
    exact key_fact (h1 ++ [c0]) (by simp) (fun x hx _ => List.getElem?_append_left hx) (Or.inl ⟨hold2, e, hR⟩)
  | ok cell' =>
    simp only [hR, writeBack]
    refine key_fact ((h1 ++ [c0]).set a cell') (by simp) (fun x hx hxa => ?_) (Or.inr ⟨cell', hR, ?_⟩)
    · rw [List.getElem?_set_ne (fun e => hxa e.symm)]; exact List.getElem?_append_left hx
    · rw [List.getElem?_set_self (by simp; omega)]

theorem isCon_intoContainer {n child : Node} (h : Impl.intoContainer n = .ok child) : isCon child = true := by
  unfold Impl.intoContainer at h
  cases n with
  | nil => simp [Impl.rawIsArray, Impl.intoDoc] at h
  | docNil => simp [Impl.rawIsArray, Impl.intoDoc] at h
  | nilAry => simp [Impl.rawIsArray, Impl.intoDoc] at h
  | doc k m => simp [Impl.rawIsArray, Impl.intoDoc] at h; subst h; rfl
  | ary ns => simp [Impl.rawIsArray, Impl.intoAry] at h; subst h; rfl
  | raw c =>
    cases c with
    | lit s => simp [Impl.rawIsArray, Cst.isArr, Impl.intoDoc] at h
    | str s => simp [Impl.rawIsArray, Cst.isArr, Impl.intoDoc] at h
    | arr xs => simp [Impl.rawIsArray, Cst.isArr, Impl.intoAry] at h; subst h; rfl
    | obj ms => simp [Impl.rawIsArray, Cst.isArr, Impl.intoDoc] at h; subst h; rfl

theorem mkAry_spec (h1 : Heap) (n : Nat) (h3 : Heap) (hlen : h3.length = h1.length + 1) :
    (∀ x, x < h1.length → (mkAry h1.length n h3)[x]? = h3[x]?) ∧ h3.length ≤ (mkAry h1.length n h3).length ∧
      ∃ fb, Repr (mkAry h1.length n h3) (.ary (padNulls n)) (some h1.length) fb ∧ ∀ x ∈ fb, h1.length ≤ x := by
  obtain ⟨ext, fn, he, rn, frn⟩ := newNulls_spec n h3
  unfold mkAry
  rw [he]
  refine ⟨fun x hx => ?_, by simp, h1.length :: fn, ?_, fun x hx => ?_⟩
  · rw [List.getElem?_set_ne (by omega), List.getElem?_append_left (by omega)]
  · have hnot : h1.length ∉ fn := fun hx => by have := frn _ hx; omega
    refine Repr.mk_ary ?_ (ReprL.write (by rw [← he]; exact rn) _ hnot) hnot
    rw [List.getElem?_set_self (by simp; omega)]
  · simp only [List.mem_cons] at hx
    rcases hx with rfl | hx
    · exact Nat.le_refl _
    · have := frn x hx; omega

theorem mkDoc_spec (h1 : Heap) (h3 : Heap) (hlen : h3.length = h1.length + 1) :
    (∀ x, x < h1.length → (mkDoc h1.length h3)[x]? = h3[x]?) ∧ h3.length ≤ (mkDoc h1.length h3).length ∧
      ∃ fb, Repr (mkDoc h1.length h3) (.doc [] []) (some h1.length) fb ∧ ∀ x ∈ fb, h1.length ≤ x := by
  unfold mkDoc
  refine ⟨fun x hx => ?_, by simp, [h1.length], ?_, fun x hx => by simp at hx; omega⟩
  · rw [List.getElem?_set_ne (by omega)]
  · refine Repr.mk_doc (f := []) ?_ (ReprM.mk_nil _) (by simp)
    rw [List.getElem?_set_self (by omega)]

theorem EnsRel.trans {h h1 h' : Heap} {a : Nat} {f f1 : List Nat} (e : Ext h h1 f f1) :
    ∀ (h' : Heap) (res : Node × Node), EnsRel h1 a f1 h' res → EnsRel h a f h' res := by
  intro h' res ⟨f', hr, e'⟩
  exact ⟨f', hr, Ext.trans e e'⟩

theorem ensure_refines (o : Opts) : ∀ (parts : List Bytes) (h : Heap) (a : Nat) (con : Node) (f : List Nat)
    (cr : Bool) (self : Node), Repr h con (some a) f → isCon con = true →
    OutRel (EnsRel h a f) (Heap.ensure o h a parts) (Impl.ensure o cr self con parts)
  | [], h, a, con, f, cr, self, r, _ => by
    rw [Heap.ensure, Impl.ensure]
    exact ⟨f, r, Ext.refl _ _⟩
  | [_], h, a, con, f, cr, self, r, _ => by
    rw [Heap.ensure, Impl.ensure]
    exact ⟨f, r, Ext.refl _ _⟩
  | part :: nxt :: rest, h, a, con, f, cr, self, r, hc => by
    rw [hensure_cons2, Impl.ensure_cons2]
    have hG := hGet_refines o self (decodeToken part) r
    have hv := Repr.valid _ r
    -- the `none` branch, shared by every way the target can be absent
    have create : OutRel (EnsRel h a f)
        (if (atoi nxt).isSome ∨ nxt = [45] then
          if (atoi nxt).getD 0 < 0 ∧ !o.neg then .err .invalidIndex
          else if (atoi nxt).getD 0 < -1 then .err .invalidIndex
          else
            hCreate o (padTo h a part) a (decodeToken part) (.raw (.arr []))
              (mkAry (padTo h a part).length (if (atoi nxt).getD 0 < 0 then 0 else ((atoi nxt).getD 0).toNat))
              (fun h4 => Heap.ensure o h4 (padTo h a part).length (nxt :: rest))
        else
          hCreate o (padTo h a part) a (decodeToken part) (.raw (.obj []))
            (mkDoc (padTo h a part).length)
            (fun h4 => Heap.ensure o h4 (padTo h a part).length (nxt :: rest)))
        (if (atoi nxt).isSome ∨ nxt = [45] then
          if (atoi nxt).getD 0 < 0 ∧ !o.neg then .err .invalidIndex
          else if (atoi nxt).getD 0 < -1 then .err .invalidIndex
          else
            Impl.ensureAdd o (Impl.ensurePad part con) (decodeToken part) self
              (Impl.ensure o false .nil
                (.ary (padNulls (if (atoi nxt).getD 0 < 0 then 0 else ((atoi nxt).getD 0).toNat))) (nxt :: rest))
        else
          Impl.ensureAdd o (Impl.ensurePad part con) (decodeToken part) self
            (Impl.ensure o false .nil (.doc [] []) (nxt :: rest))) := by
      obtain ⟨f1, hr1, e1⟩ := padTo_refines part r
      have hc1 : isCon (Impl.ensurePad part con) = true := by rw [isCon_ensurePad]; exact hc
      by_cases hA : (atoi nxt).isSome ∨ nxt = [45]
      · simp only [hA, if_true]
        by_cases hB : (atoi nxt).getD 0 < 0 ∧ (!o.neg) = true
        · simp only [hB, and_self, if_true, OutRel_err_err]
        · simp only [hB, if_false]
          by_cases hC : (atoi nxt).getD 0 < -1
          · simp only [hC, if_true, OutRel_err_err]
          · simp only [hC, if_false]
            refine OutRel.mono (EnsRel.trans (h' := h) e1) (ensure_create hr1 hc1
              (fun h3 hl => mkAry_spec _ _ h3 hl)
              (fun h4 fb hrb => ensure_refines o (nxt :: rest) h4 _ _ fb false .nil hrb rfl))
      · simp only [hA, if_false]
        refine OutRel.mono (EnsRel.trans (h' := h) e1) (ensure_create hr1 hc1
          (fun h3 hl => mkDoc_spec _ h3 hl)
          (fun h4 fb hrb => ensure_refines o (nxt :: rest) h4 _ _ fb false .nil hrb rfl))
    cases hg : hGet o h a (decodeToken part) with
    | panic =>
      cases hcg : Impl.conGet o self con (decodeToken part) with
      | panic => simp only [hTarget, hg, Impl.ensureTarget, hcg]; exact create
      | ok x => rw [hg, hcg] at hG; simp at hG
      | err e => rw [hg, hcg] at hG; simp at hG
    | err e =>
      cases hcg : Impl.conGet o self con (decodeToken part) with
      | panic => rw [hg, hcg] at hG; simp at hG
      | ok x => rw [hg, hcg] at hG; simp at hG
      | err e' => simp only [hTarget, hg, Impl.ensureTarget, hcg]; exact create
    | ok p =>
      cases hcg : Impl.conGet o self con (decodeToken part) with
      | panic => rw [hg, hcg] at hG; simp at hG
      | err e' => rw [hg, hcg] at hG; simp at hG
      | ok next =>
        rw [hg, hcg] at hG
        simp only [OutRel_ok_ok] at hG
        obtain ⟨f0, rst, hr0, dfr, sf, sr, hcr, wand⟩ := hG
        cases p with
        | none =>
          obtain ⟨rfl, _⟩ := Repr.none_iff hr0
          simp only [hTarget, hg, Impl.ensureTarget, hcg]; exact create
        | some b =>
          have hts : Impl.ensureTarget o self con (decodeToken part) = some next := by
            simp only [Impl.ensureTarget, hcg]
            cases next with
            | nil => simp only [Repr] at hr0; cases hr0.1
            | raw c => rfl
            | doc k m => rfl
            | ary k => rfl
            | docNil => rfl
            | nilAry => rfl
          simp only [hTarget, hg, hts, Impl.enter]
          have hI := intoContainer_refines hr0
          have vrst : ∀ x ∈ rst, x < h.length := fun x hx => hv x (sr x hx)
          cases hi : intoContainer h (some b) with
          | panic =>
            cases hi2 : Impl.intoContainer next with
            | panic => simp
            | ok x => rw [hi, hi2] at hI; simp at hI
            | err e => rw [hi, hi2] at hI; simp at hI
          | err e =>
            cases hi2 : Impl.intoContainer next with
            | panic => rw [hi, hi2] at hI; simp at hI
            | ok x => rw [hi, hi2] at hI; simp at hI
            | err e' => rw [hi, hi2] at hI; simpa using hI
          | ok h1 =>
            cases hi2 : Impl.intoContainer next with
            | panic => rw [hi, hi2] at hI; simp at hI
            | err e' => rw [hi, hi2] at hI; simp at hI
            | ok child =>
              rw [hi, hi2] at hI
              simp only [OutRel_ok_ok] at hI
              obtain ⟨f1, hr1, e1⟩ := hI
              have ih := ensure_refines o (nxt :: rest) h1 b child f1 false .nil hr1 (isCon_intoContainer hi2)
              simp only
              cases hx : Heap.ensure o h1 b (nxt :: rest) with
              | panic =>
                cases hy : Impl.ensure o false .nil child (nxt :: rest) with
                | panic => simp [Impl.ensurePut]
                | ok y => rw [hx, hy] at ih; simp at ih
                | err e => rw [hx, hy] at ih; simp at ih
              | err e =>
                cases hy : Impl.ensure o false .nil child (nxt :: rest) with
                | panic => rw [hx, hy] at ih; simp at ih
                | ok y => rw [hx, hy] at ih; simp at ih
                | err e' => rw [hx, hy] at ih; simp only [OutRel_err_err] at ih; subst ih; simp [Impl.ensurePut]
              | ok h2 =>
                cases hy : Impl.ensure o false .nil child (nxt :: rest) with
                | panic => rw [hx, hy] at ih; simp at ih
                | err e' => rw [hx, hy] at ih; simp at ih
                | ok y =>
                  obtain ⟨child', s''⟩ := y
                  rw [hx, hy] at ih
                  simp only [OutRel_ok_ok, EnsRel] at ih
                  obtain ⟨f2, hr2, e2⟩ := ih
                  have e12 := Ext.trans e1 e2
                  obtain ⟨fpA, hrA, subA⟩ := wand h2 child' f2 hr2
                    (fun x hx => e12.frame x (vrst x hx) (fun h1' => dfr x h1' hx))
                    (Disj.symm (Ext.disj e12 (Disj.symm dfr) vrst))
                  simp only [Impl.ensurePut, OutRel_ok_ok, EnsRel]
                  refine ⟨fpA, hrA, Ext.widen e12 sf (fun x hx => ?_)⟩
                  rcases subA x hx with h1' | h1'
                  · exact Or.inl h1'
                  · exact Or.inr (sr x h1')
termination_by parts => parts.length

end Heap
end JP
