import JP.Lemmas.FloatExact
import JP.Lemmas.FloatNearest

/-!
# Totality of the shortest-digits search: shared definitions

`closeTo bits x N D`: the fraction `N / D` is within `v / 2^(mantBits + 2)` of the exact value
`v = exactN / exactD` of the finite float `x` (cross-multiplied, in naturals).  This relative distance is less
than half the gap to either neighbour of `x` (a quarter of an ulp below a power of two), so `roundRat` maps
`N / D` back to `x` (`roundRat_of_close`).
-/

namespace JP
namespace Codec
namespace Float

def closeTo (bits : Nat) (x : FP) (N D : Nat) : Prop :=
  2 ^ (mantBits bits + 2) * adiff (N * exactD bits x) (exactN bits x * D) < exactN bits x * D

/-- the fraction that `roundDec` hands to `roundRat` for the decimal `c · 10^e` -/
def decN (c : Nat) (e : Int) : Nat := if e ≥ 0 then c * 10 ^ e.toNat else c
def decD (e : Int) : Nat := if e ≥ 0 then 1 else 10 ^ (-e).toNat

end Float
end Codec
end JP
