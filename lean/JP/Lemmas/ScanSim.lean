import JP.Lemmas.ScanNum
import JP.Lemmas.ScanStr
import JP.Lemmas.ScanDepth
import JP.Lemmas.ScanRec

/-!
# The simulation: reference parser vs scanner, mutual over values / elements / members
-/

namespace JP
namespace Scanner

/-- values: scanner in "begin value" with `stk` open containers -/
def SimV (f : Nat) : Prop := ∀ (stk : List Nat) (bs : Bytes), NoWs bs → bs.length + 1 ≤ f + stk.length →
  SimRes (rV f stk.length bs) bs.length (validFrom (bv stk) bs) stk

/-- elements of an array opened on top of `stk`, up to and including the `]` -/
def SimE (f : Nat) : Prop := ∀ (stk : List Nat) (bs : Bytes), NoWs bs → bs.length + 1 ≤ f + stk.length →
  SimRes (rE f (stk.length + 1) bs) bs.length (validFrom (bv (2 :: stk)) bs) stk

/-- members of an object opened on top of `stk`, up to and including the `}` -/
def SimM (f : Nat) : Prop := ∀ (stk : List Nat) (bs : Bytes), NoWs bs → bs.length + 1 ≤ f + stk.length →
  SimRes (rM f (stk.length + 1) bs) bs.length (validFrom (mk .stateBeginString (0 :: stk)) bs) stk

theorem sim_zero : SimV 0 ∧ SimE 0 ∧ SimM 0 := by
  refine ⟨?_, ?_, ?_⟩
  · intro stk bs _ hl
    rw [rV_zero]
    exact vf_short bs _ rfl (by simp only [mk]; omega)
  · intro stk bs _ hl
    rw [rE_zero]
    exact vf_short bs _ rfl (by simp only [mk, List.length_cons]; omega)
  · intro stk bs _ hl
    rw [rM_zero]
    exact vf_short bs _ rfl (by simp only [mk, List.length_cons]; omega)

theorem exists_cons_of_head {r : Bytes} {k : UInt8} (h : r.head? = some k) : ∃ r', r = k :: r' :=
  ⟨_, eq_cons_of_head h⟩

theorem simV_succ (f : Nat) (hE : SimE f) (hM : SimM f) : SimV (f+1) := by
  intro stk bs hnw hlen
  cases bs with
  | nil => rw [rV_nil]; exact eof_bv stk
  | cons c cs =>
    have hws : isWs c = false := hnw c cs rfl
    simp only [List.length_cons] at hlen
    rw [rV_cons]
    by_cases h123 : c = 123
    · subst h123
      simp only [if_true]
      by_cases hd : stk.length + 1 > maxDepth
      · simp only [hd, if_true]
        apply vf_step_error
        rw [step_bv_lbrace]
        have : ¬ stk.length + 1 ≤ maxNestingDepth := by
          simp only [maxDepth] at hd; simp only [maxNestingDepth]; omega
        simp [this]
      · simp only [hd, if_false]
        have hs : step (bv stk) 123 = (mk .stateBeginStringOrEmpty (0 :: stk), scanBeginObject) := by
          rw [step_bv_lbrace]
          have : stk.length + 1 ≤ maxNestingDepth := by
            simp only [maxDepth] at hd; simp only [maxNestingDepth]; omega
          simp [this]
        rw [vf_step hs (by decide), vf_skipWs (step_bsoe_ws _) cs]
        have hl := skipWs_length cs
        have hn := noWs_skipWs cs
        generalize skipWs cs = r at *
        by_cases h125 : r.head? = some 125
        · simp only [h125, if_true]
          obtain ⟨r', rfl⟩ := exists_cons_of_head h125
          rw [vf_step (step_bsoe_rbrace stk) (by decide), vf_afterClose]
          refine ⟨?_, rfl⟩
          simp only [List.length_cons, List.tail_cons] at hl ⊢; omega
        · simp only [h125, if_false]
          apply (hM stk r hn (by omega)).weaken (by simp only [List.length_cons]; omega)
          apply vf_congr
          · intro _; rw [eof_bsoe, eof_bs]
          · intro a as hr
            exact step_bsoe_other _ a (hn a as hr) (head_cons_ne h125 hr)
    · simp only [h123, if_false]
      by_cases h91 : c = 91
      · subst h91
        simp only [if_true]
        by_cases hd : stk.length + 1 > maxDepth
        · simp only [hd, if_true]
          apply vf_step_error
          rw [step_bv_lbrack]
          have : ¬ stk.length + 1 ≤ maxNestingDepth := by
            simp only [maxDepth] at hd; simp only [maxNestingDepth]; omega
          simp [this]
        · simp only [hd, if_false]
          have hs : step (bv stk) 91 = (mk .stateBeginValueOrEmpty (2 :: stk), scanBeginArray) := by
            rw [step_bv_lbrack]
            have : stk.length + 1 ≤ maxNestingDepth := by
              simp only [maxDepth] at hd; simp only [maxNestingDepth]; omega
            simp [this]
          rw [vf_step hs (by decide), vf_skipWs (step_bvoe_ws _) cs]
          have hl := skipWs_length cs
          have hn := noWs_skipWs cs
          generalize skipWs cs = r at *
          by_cases h93 : r.head? = some 93
          · simp only [h93, if_true]
            obtain ⟨r', rfl⟩ := exists_cons_of_head h93
            rw [vf_step (step_bvoe_rbrack stk) (by decide), vf_afterClose]
            refine ⟨?_, rfl⟩
            simp only [List.length_cons, List.tail_cons] at hl ⊢; omega
          · simp only [h93, if_false]
            apply (hE stk r hn (by omega)).weaken (by simp only [List.length_cons]; omega)
            apply vf_congr
            · intro _; rw [eof_bvoe, eof_bv]
            · intro a as hr
              exact step_bvoe_other _ a (hn a as hr) (head_cons_ne h93 hr)
      · simp only [h91, if_false]
        by_cases h34 : c = 34
        · subst h34
          simp only [if_true]
          exact (rS_sim stk cs).weaken (Nat.le_succ _) (vf_step (step_bv_quote stk) (by decide) cs)
        · simp only [h34, if_false]
          by_cases h116 : c = 116
          · subst h116
            simp only [if_true]
            exact rL_sim stk 116 [114, 117, 101] .stateT (step_bv_t stk) (litOK_true stk) cs
          · simp only [h116, if_false]
            by_cases h102 : c = 102
            · subst h102
              simp only [if_true]
              exact rL_sim stk 102 [97, 108, 115, 101] .stateF (step_bv_f stk) (litOK_false stk) cs
            · simp only [h102, if_false]
              by_cases h110 : c = 110
              · subst h110
                simp only [if_true]
                exact rL_sim stk 110 [117, 108, 108] .stateN (step_bv_n stk) (litOK_null stk) cs
              · simp only [h110, if_false]
                apply rN_sim
                intro c' cs' h
                simp only [List.cons.injEq] at h
                obtain ⟨rfl, _⟩ := h
                exact ⟨hws, h123, h91, h34, h116, h102, h110⟩

theorem simE_succ (f : Nat) (hV : SimV f) (hE : SimE f) : SimE (f+1) := by
  intro stk bs hnw hlen
  rw [rE_succ]
  have hv := hV (2 :: stk) bs hnw (by simp only [List.length_cons]; omega)
  simp only [List.length_cons] at hv
  cases h : rV f (stk.length + 1) bs with
  | none => rw [h] at hv; exact hv
  | some r =>
    rw [h] at hv
    obtain ⟨hl, hvf⟩ := hv
    simp only
    rw [hvf, vf_skipWs (step_ev_ws 2 stk) r]
    have hl1 := skipWs_length r
    have hn1 := noWs_skipWs r
    generalize skipWs r = r1 at *
    by_cases h93 : r1.head? = some 93
    · simp only [h93, if_true]
      obtain ⟨r', rfl⟩ := exists_cons_of_head h93
      rw [vf_step (step_ev_arr_rbrack stk) (by decide), vf_afterClose]
      refine ⟨?_, rfl⟩
      simp only [List.length_cons, List.tail_cons] at hl1 ⊢; omega
    · simp only [h93, if_false]
      by_cases h44 : r1.head? = some 44
      · simp only [h44, if_true]
        obtain ⟨r', rfl⟩ := exists_cons_of_head h44
        simp only [List.tail_cons, List.length_cons] at hl1 ⊢
        rw [vf_step (step_ev_arr_comma stk) (by decide), vf_skipWs (step_bv_ws _) r']
        have hl2 := skipWs_length r'
        exact (hE stk (skipWs r') (noWs_skipWs r') (by omega)).weaken (by omega) rfl
      · simp only [h44, if_false]
        cases r1 with
        | nil => exact eof_ev_cons 2 stk
        | cons a as =>
          apply vf_step_error
          rw [step_ev_arr_other stk a (hn1 a as rfl) (head_cons_ne h44 rfl) (head_cons_ne h93 rfl)]

theorem simM_succ (f : Nat) (hV : SimV f) (hM : SimM f) : SimM (f+1) := by
  intro stk bs hnw hlen
  rw [rM_succ]
  by_cases h34 : bs.head? = some 34
  · simp only [h34, if_true]
    obtain ⟨cs, rfl⟩ := exists_cons_of_head h34
    simp only [List.tail_cons, List.length_cons] at hlen ⊢
    rw [vf_step (step_bs_quote _) (by decide)]
    have hk := rS_sim (0 :: stk) cs
    cases hs : rS cs with
    | none => rw [hs] at hk; exact hk
    | some r =>
      rw [hs] at hk
      obtain ⟨hl, hvf⟩ := hk
      simp only
      rw [hvf, vf_skipWs (step_ev_ws 0 stk) r]
      have hl1 := skipWs_length r
      have hn1 := noWs_skipWs r
      generalize skipWs r = r1 at *
      by_cases h58 : r1.head? = some 58
      · simp only [h58, if_true]
        obtain ⟨r', rfl⟩ := exists_cons_of_head h58
        simp only [List.tail_cons, List.length_cons] at hl1 ⊢
        rw [vf_step (step_ev_key_colon stk) (by decide), vf_skipWs (step_bv_ws _) r']
        have hl2 := skipWs_length r'
        have hv := hV (1 :: stk) (skipWs r') (noWs_skipWs r') (by simp only [List.length_cons]; omega)
        simp only [List.length_cons] at hv
        cases hrv : rV f (stk.length + 1) (skipWs r') with
        | none => rw [hrv] at hv; exact hv
        | some r2 =>
          rw [hrv] at hv
          obtain ⟨hl3, hvf2⟩ := hv
          simp only
          rw [hvf2, vf_skipWs (step_ev_ws 1 stk) r2]
          have hl4 := skipWs_length r2
          have hn4 := noWs_skipWs r2
          generalize skipWs r2 = r3 at *
          by_cases h125 : r3.head? = some 125
          · simp only [h125, if_true]
            obtain ⟨r4, rfl⟩ := exists_cons_of_head h125
            rw [vf_step (step_ev_val_rbrace stk) (by decide), vf_afterClose]
            refine ⟨?_, rfl⟩
            simp only [List.length_cons, List.tail_cons] at hl4 ⊢; omega
          · simp only [h125, if_false]
            by_cases h44 : r3.head? = some 44
            · simp only [h44, if_true]
              obtain ⟨r4, rfl⟩ := exists_cons_of_head h44
              simp only [List.tail_cons, List.length_cons] at hl4 ⊢
              rw [vf_step (step_ev_val_comma stk) (by decide), vf_skipWs (step_bs_ws _) r4]
              have hl5 := skipWs_length r4
              exact (hM stk (skipWs r4) (noWs_skipWs r4) (by omega)).weaken (by omega) rfl
            · simp only [h44, if_false]
              cases r3 with
              | nil => exact eof_ev_cons 1 stk
              | cons a as =>
                apply vf_step_error
                rw [step_ev_val_other stk a (hn4 a as rfl) (head_cons_ne h44 rfl) (head_cons_ne h125 rfl)]
      · simp only [h58, if_false]
        cases r1 with
        | nil => exact eof_ev_cons 0 stk
        | cons a as =>
          apply vf_step_error
          rw [step_ev_key_other stk a (hn1 a as rfl) (head_cons_ne h58 rfl)]
  · simp only [h34, if_false]
    cases bs with
    | nil => exact eof_bs _
    | cons a as =>
      apply vf_step_error
      rw [step_bs_other _ a (hnw a as rfl) (head_cons_ne h34 rfl)]

theorem sim_all (f : Nat) : SimV f ∧ SimE f ∧ SimM f := by
  induction f with
  | zero => exact sim_zero
  | succ f ih =>
    obtain ⟨hV, hE, hM⟩ := ih
    exact ⟨simV_succ f hE hM, simE_succ f hV hE, simM_succ f hV hM⟩

/-- the scanner accepts exactly the texts the reference parser accepts -/
theorem valid_iff_parseCst (bs : Bytes) : valid bs = (parseCst bs).isSome := by
  have h0 : valid bs = validFrom (bv []) (skipWs bs) := by
    rw [valid_eq_validFrom]
    exact vf_skipWs (s := bv []) (step_bv_ws []) bs
  have hl := skipWs_length bs
  have hv := (sim_all (bs.length + 1)).1 [] (skipWs bs) (noWs_skipWs bs) (by simp only [List.length_nil]; omega)
  simp only [List.length_nil] at hv
  rw [h0]
  unfold parseCst
  unfold rV at hv
  cases hp : parseValue (bs.length + 1) 0 (skipWs bs) with
  | none => rw [hp] at hv; exact hv
  | some p =>
    obtain ⟨c, r⟩ := p
    rw [hp] at hv
    have := hv.2
    rw [this, vf_ev_nil]
    simp only
    cases (skipWs r).isEmpty <;> rfl

end Scanner
end JP
