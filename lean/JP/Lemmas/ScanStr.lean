import JP.Lemmas.TextParse
import JP.Lemmas.ScanRec

/-!
# Strings and the literal names: `parseStrBody` / `parseLit` against the scanner
-/

namespace JP
namespace Scanner

/-! ### tables of the string states -/

theorem step_instr (stk : List Nat) (c : UInt8) : step (mk .stateInString stk) c =
    if c = 34 then (ev stk, scanContinue)
    else if c = 92 then (mk .stateInStringEsc stk, scanContinue)
    else if c.toNat < 32 then (errS stk, scanError)
    else (mk .stateInString stk, scanContinue) := by
  simp only [step, mk, stateInString, Scan.goto, Scan.error, errS]

theorem esc_iff (e : UInt8) : (e = 98 ∨ e = 102 ∨ e = 110 ∨ e = 114 ∨ e = 116 ∨ e = 92 ∨ e = 47 ∨ e = 34) ↔
    (e = 34 ∨ e = 92 ∨ e = 47 ∨ e = 98 ∨ e = 102 ∨ e = 110 ∨ e = 114 ∨ e = 116) := by
  constructor <;> intro h <;> rcases h with h|h|h|h|h|h|h|h <;> simp [h]

theorem step_esc (stk : List Nat) (c : UInt8) : step (mk .stateInStringEsc stk) c =
    if c = 34 ∨ c = 92 ∨ c = 47 ∨ c = 98 ∨ c = 102 ∨ c = 110 ∨ c = 114 ∨ c = 116 then
      (mk .stateInString stk, scanContinue)
    else if c = 117 then (mk .stateInStringEscU stk, scanContinue)
    else (errS stk, scanError) := by
  simp only [step, mk, stateInStringEsc, Scan.goto, Scan.error, errS, esc_iff]

theorem hexStep_mk (X Y : St) (stk : List Nat) (c : UInt8) : hexStep (mk X stk) c Y =
    if isHex c then (mk Y stk, scanContinue) else (errS stk, scanError) := by
  simp only [hexStep, hexStep.isHex', isHex, mk, Scan.goto, Scan.error, errS]
  rfl

theorem eof_instr (stk : List Nat) : eof (mk .stateInString stk) = false := by
  simp [eof, step_instr]; simp [mk]
theorem eof_esc (stk : List Nat) : eof (mk .stateInStringEsc stk) = false := by
  simp [eof, step_esc]; simp [mk, errS]

/-- one hex digit -/
theorem vf_hex1 (X Y : St) (stk : List Nat) (hstep : ∀ c, step (mk X stk) c = hexStep (mk X stk) c Y)
    (bs : Bytes) : validFrom (mk X stk) bs =
      match bs with
      | [] => false
      | c :: cs => isHex c && validFrom (mk Y stk) cs := by
  cases bs with
  | nil =>
    simp only [validFrom_nil, eof, mk, Bool.false_eq_true, if_false]
    have := hstep 32
    simp only [mk] at this
    rw [this]
    simp [hexStep, isHex'_32, Scan.error]
  | cons c cs =>
    rw [validFrom_cons, hstep, hexStep_mk]
    by_cases h : isHex c = true
    · simp [h, scanContinue, scanError]
    · simp [h]

theorem vf_hex4 (stk : List Nat) (bs : Bytes) : validFrom (mk .stateInStringEscU stk) bs =
    match bs with
    | h1 :: h2 :: h3 :: h4 :: r =>
      (isHex h1 && isHex h2 && isHex h3 && isHex h4) && validFrom (mk .stateInString stk) r
    | _ => false := by
  have e0 := vf_hex1 .stateInStringEscU .stateInStringEscU1 stk (fun _ => rfl)
  have e1 := vf_hex1 .stateInStringEscU1 .stateInStringEscU12 stk (fun _ => rfl)
  have e2 := vf_hex1 .stateInStringEscU12 .stateInStringEscU123 stk (fun _ => rfl)
  have e3 := vf_hex1 .stateInStringEscU123 .stateInString stk (fun _ => rfl)
  match bs with
  | [] => rw [e0]
  | [a] => rw [e0]; simp only; rw [e1]; simp
  | [a, b] => rw [e0]; simp only; rw [e1]; simp only; rw [e2]; simp
  | [a, b, c] => rw [e0]; simp only; rw [e1]; simp only; rw [e2]; simp only; rw [e3]; simp
  | a :: b :: c :: d :: r =>
    rw [e0]; simp only; rw [e1]; simp only; rw [e2]; simp only; rw [e3]; simp only [Bool.and_assoc]

/-- transport of the simulation statement through `Option.map` on the parser side -/
theorem sim_map (o : Option (Bytes × Bytes)) (g : Bytes × Bytes → Bytes × Bytes) (s s' : Scan) (stk : List Nat)
    (cs big : Bytes) (hg : ∀ b r, (g (b, r)).2 = r)
    (hlen : cs.length ≤ big.length) (hvf : validFrom s' big = validFrom s cs)
    (ih : match o with
      | some (_, r) => r.length < cs.length ∧ validFrom s cs = validFrom (ev stk) r
      | none => validFrom s cs = false) :
    match o.map g with
    | some (_, r) => r.length < big.length ∧ validFrom s' big = validFrom (ev stk) r
    | none => validFrom s' big = false := by
  cases o with
  | none => simp only [Option.map_none]; rw [hvf]; exact ih
  | some p =>
    obtain ⟨b, r⟩ := p
    simp only [Option.map_some] at ih ⊢
    have := hg b r
    generalize g (b, r) = q at *
    obtain ⟨q1, q2⟩ := q
    simp only at this; subst this
    exact ⟨by have := ih.1; simp only at this ⊢; omega, by rw [hvf]; exact ih.2⟩

theorem parseStrBody_sim (stk : List Nat) (cs : Bytes) :
    match parseStrBody cs with
    | some (_, r) => r.length < cs.length ∧ validFrom (mk .stateInString stk) cs = validFrom (ev stk) r
    | none => validFrom (mk .stateInString stk) cs = false := by
  have hbs : step (mk .stateInString stk) 92 = (mk .stateInStringEsc stk, scanContinue) := by
    rw [step_instr]; simp
  have hu : step (mk .stateInStringEsc stk) 117 = (mk .stateInStringEscU stk, scanContinue) := by
    rw [step_esc]; simp
  fun_induction parseStrBody cs
  case case1 => exact eof_instr stk
  case case2 cs =>
    have : step (mk .stateInString stk) 34 = (ev stk, scanContinue) := by rw [step_instr]; simp
    exact ⟨by simp, vf_step this (by decide) cs⟩
  case case3 =>
    simp only
    rw [vf_step hbs (by decide)]; exact eof_esc stk
  case case4 e cs' he _ ih =>
    apply sim_map _ _ _ _ _ _ _ (fun _ _ => rfl) (by simp only [List.length_cons]; omega) _ ih
    rw [vf_step hbs (by decide)]
    have : step (mk .stateInStringEsc stk) e = (mk .stateInString stk, scanContinue) := by
      rw [step_esc]; simp only [he, if_true]
    rw [vf_step this (by decide)]
  case case5 h1 h2 h3 h4 cs'' hh _ _ ih =>
    apply sim_map _ _ _ _ _ _ _ (fun _ _ => rfl) (by simp only [List.length_cons]; omega) _ ih
    rw [vf_step hbs (by decide), vf_step hu (by decide), vf_hex4]
    simp only [hh, Bool.true_and]
  case case6 h1 h2 h3 h4 cs'' hh _ _ =>
    simp only
    rw [vf_step hbs (by decide), vf_step hu (by decide), vf_hex4]
    simp only [hh, Bool.false_and]
  case case7 cs' hx _ _ =>
    simp only
    rw [vf_step hbs (by decide), vf_step hu (by decide), vf_hex4]
    split
    · exact absurd rfl (hx _ _ _ _ _)
    · rfl
  case case8 e cs' he hu' _ =>
    simp only
    rw [vf_step hbs (by decide)]
    apply vf_step_error
    rw [step_esc]; simp only [he, hu', if_false]
  case case9 c cs h34 h92 hlt =>
    simp only
    apply vf_step_error
    rw [step_instr]; simp only [h34, h92, hlt, if_false, if_true]
  case case10 c cs h34 h92 hlt ih =>
    apply sim_map _ _ _ _ _ _ _ (fun _ _ => rfl) (by simp only [List.length_cons]; omega) _ ih
    have : step (mk .stateInString stk) c = (mk .stateInString stk, scanContinue) := by
      rw [step_instr]; simp only [h34, h92, hlt, if_false]
    rw [vf_step this (by decide)]

/-! ### literal names -/

theorem expect_mk (X Y : St) (stk : List Nat) (c w : UInt8) : expect (mk X stk) c w Y =
    if c = w then (mk Y stk, scanContinue) else (errS stk, scanError) := by
  simp only [expect, mk, Scan.goto, Scan.error, errS]

/-- from state `X`, exactly the bytes `word` lead to "value ended" -/
def LitOK (stk : List Nat) (X : St) (word : Bytes) : Prop :=
  ∀ bs, if isPrefix word bs then validFrom (mk X stk) bs = validFrom (ev stk) (bs.drop word.length)
        else validFrom (mk X stk) bs = false

theorem litOK_nil (stk : List Nat) : LitOK stk .stateEndValue [] := by
  intro bs; simp [isPrefix]

theorem litOK_cons (stk : List Nat) (X Y : St) (w : UInt8) (word : Bytes)
    (hstep : ∀ c, step (mk X stk) c = expect (mk X stk) c w Y)
    (h : LitOK stk Y word) : LitOK stk X (w :: word) := by
  intro bs
  cases bs with
  | nil =>
    simp only [isPrefix, Bool.false_eq_true, if_false, validFrom_nil, eof, mk]
    have := hstep 32
    simp only [mk] at this
    rw [this]
    simp only [expect, Scan.goto, Scan.error]
    split <;> simp
  | cons c cs =>
    simp only [isPrefix]
    by_cases hc : c = w
    · subst hc
      have hs : step (mk X stk) c = (mk Y stk, scanContinue) := by rw [hstep, expect_mk]; simp
      rw [vf_step hs (by decide)]
      have := h cs
      simp only [beq_self_eq_true, Bool.true_and, List.length_cons, List.drop_succ_cons]
      exact this
    · have hb : (w == c) = false := by simp; exact fun h => hc h.symm
      simp only [hb, Bool.false_and, Bool.false_eq_true, if_false]
      apply vf_step_error
      rw [hstep, expect_mk]; simp [hc]

theorem litOK_true (stk : List Nat) : LitOK stk .stateT [114, 117, 101] :=
  litOK_cons stk _ .stateTr _ _ (fun _ => rfl) <|
  litOK_cons stk _ .stateTru _ _ (fun _ => rfl) <|
  litOK_cons stk _ .stateEndValue _ _ (fun _ => rfl) <| litOK_nil stk

theorem litOK_false (stk : List Nat) : LitOK stk .stateF [97, 108, 115, 101] :=
  litOK_cons stk _ .stateFa _ _ (fun _ => rfl) <|
  litOK_cons stk _ .stateFal _ _ (fun _ => rfl) <|
  litOK_cons stk _ .stateFals _ _ (fun _ => rfl) <|
  litOK_cons stk _ .stateEndValue _ _ (fun _ => rfl) <| litOK_nil stk

theorem litOK_null (stk : List Nat) : LitOK stk .stateN [117, 108, 108] :=
  litOK_cons stk _ .stateNu _ _ (fun _ => rfl) <|
  litOK_cons stk _ .stateNul _ _ (fun _ => rfl) <|
  litOK_cons stk _ .stateEndValue _ _ (fun _ => rfl) <| litOK_nil stk

theorem parseLit_sim (stk : List Nat) (w : UInt8) (word : Bytes) (X : St)
    (hbv : step (bv stk) w = (mk X stk, scanBeginLiteral)) (h : LitOK stk X word) (cs : Bytes) :
    match parseLit (w :: word) (w :: cs) with
    | some (_, rest) => rest.length < (w :: cs).length ∧ validFrom (bv stk) (w :: cs) = validFrom (ev stk) rest
    | none => validFrom (bv stk) (w :: cs) = false := by
  have := h cs
  rw [vf_step hbv (by decide)]
  simp only [parseLit, isPrefix, beq_self_eq_true, Bool.true_and, List.length_cons, List.drop_succ_cons]
  by_cases hp : isPrefix word cs = true
  · simp only [hp, if_true] at this ⊢
    exact ⟨by simp only [List.length_drop]; omega, this⟩
  · simp only [hp, if_false] at this ⊢
    exact this

theorem rS_sim (stk : List Nat) (cs : Bytes) :
    SimRes (rS cs) cs.length (validFrom (mk .stateInString stk) cs) stk := by
  have := parseStrBody_sim stk cs
  unfold rS
  cases h : parseStrBody cs with
  | none => rw [h] at this; exact this
  | some p => obtain ⟨b, r⟩ := p; rw [h] at this; exact this

theorem rL_sim (stk : List Nat) (w : UInt8) (word : Bytes) (X : St)
    (hbv : step (bv stk) w = (mk X stk, scanBeginLiteral)) (h : LitOK stk X word) (cs : Bytes) :
    SimRes (rL (w :: word) (w :: cs)) (w :: cs).length (validFrom (bv stk) (w :: cs)) stk := by
  have := parseLit_sim stk w word X hbv h cs
  unfold rL
  cases h : parseLit (w :: word) (w :: cs) with
  | none => rw [h] at this; exact this
  | some p => obtain ⟨b, r⟩ := p; rw [h] at this; exact this

end Scanner
end JP
