import JP.Scanner

/-!
# Basic facts about the scanner model: error flag, `validFrom`, the loops of `compact`/`Indent`
-/

namespace JP
namespace Scanner

/-- `checkValid` continued from an arbitrary scanner configuration -/
def validFrom (s : Scan) (bs : Bytes) : Bool :=
  match run s bs with
  | some s' => eof s'
  | none => false

@[simp] theorem validFrom_nil (s : Scan) : validFrom s [] = eof s := rfl

theorem validFrom_cons (s : Scan) (c : UInt8) (cs : Bytes) :
    validFrom s (c :: cs) = if (step s c).2 = scanError then false else validFrom (step s c).1 cs := by
  by_cases h : (step s c).2 = scanError <;> simp [validFrom, run, h]

theorem valid_eq_validFrom (bs : Bytes) : valid bs = validFrom Scan.init bs := rfl

/-- the error state carries the error flag -/
def Good (s : Scan) : Prop := s.st = .stateError → s.err = true

theorem good_init : Good Scan.init := by intro h; cases h

/-- "an error opcode comes with the error flag", and the new state is `Good` -/
def EF (r : Scan × Nat) : Prop := (r.2 = scanError → r.1.err = true) ∧ Good r.1

theorem ef_error (s : Scan) : EF s.error := ⟨fun _ => rfl, fun _ => rfl⟩
theorem ef_goto (s : Scan) (st : St) (op : Nat) (h : op ≠ scanError) (h2 : st ≠ .stateError) :
    EF (s.goto st op) := ⟨fun h' => absurd h' h, fun h' => absurd h' h2⟩
theorem ef_ne (s : Scan) (op : Nat) (h : op ≠ scanError) (hg : Good s) : EF (s, op) :=
  ⟨fun h' => absurd h' h, hg⟩
theorem ef_push (s : Scan) (p op : Nat) (h : op ≠ scanError) (hg : Good s) : EF (s.push p op) := by
  unfold Scan.push; simp only; split
  · exact ef_ne _ _ h hg
  · exact ef_error _
theorem good_pop (s : Scan) : Good s.pop := by
  unfold Scan.pop; simp only; split <;> (intro h; cases h)

macro "ef_tac" : tactic => `(tactic| first
  | exact ef_error _
  | exact ef_goto _ _ _ (by decide) (by decide)
  | exact ef_ne _ _ (by decide) (by assumption)
  | exact ef_ne _ _ (by decide) (good_pop _)
  | exact ef_ne _ _ (by decide) (by intro h; cases h)
  | exact ef_push _ _ _ (by decide) (by intro h; cases h))

theorem ef_stateEndTop (s : Scan) (c : UInt8) (hg : Good s) : EF (stateEndTop s c) := by
  unfold stateEndTop; split
  · exact ⟨fun h => absurd h (show scanEnd ≠ scanError by decide), fun _ => rfl⟩
  · ef_tac

theorem ef_stateEndValue (s : Scan) (c : UInt8) (hg : Good s) : EF (stateEndValue s c) := by
  unfold stateEndValue
  split
  · exact ef_stateEndTop _ _ (by intro h; cases h)
  · repeat' split
    all_goals ef_tac

theorem ef_stateBeginValue (s : Scan) (c : UInt8) (hg : Good s) : EF (stateBeginValue s c) := by
  unfold stateBeginValue
  repeat' split
  all_goals ef_tac

theorem ef_stateBeginString (s : Scan) (c : UInt8) (hg : Good s) : EF (stateBeginString s c) := by
  unfold stateBeginString
  repeat' split
  all_goals ef_tac

theorem ef_state0 (s : Scan) (c : UInt8) (hg : Good s) : EF (state0 s c) := by
  unfold state0
  repeat' split
  all_goals first | ef_tac | exact ef_stateEndValue _ _ hg

theorem ef_stateESign (s : Scan) (c : UInt8) : EF (stateESign s c) := by
  unfold stateESign
  split
  all_goals ef_tac

theorem ef_hexStep (s : Scan) (c : UInt8) (n : St) (hn : n ≠ .stateError) : EF (hexStep s c n) := by
  unfold hexStep
  split
  · exact ef_goto _ _ _ (by decide) hn
  · ef_tac

theorem ef_expect (s : Scan) (c w : UInt8) (n : St) (hn : n ≠ .stateError) : EF (expect s c w n) := by
  unfold expect
  split
  · exact ef_goto _ _ _ (by decide) hn
  · ef_tac

theorem ef_step (s : Scan) (c : UInt8) (hg : Good s) : EF (step s c) := by
  unfold step
  split
  case h_31 h => exact ⟨fun _ => hg h, hg⟩
  all_goals first
    | exact ef_stateEndValue _ _ hg | exact ef_stateEndTop _ _ hg | exact ef_stateBeginValue _ _ hg
    | exact ef_stateBeginString _ _ hg | exact ef_state0 _ _ hg | exact ef_stateESign _ _
    | exact ef_hexStep _ _ _ (by decide) | exact ef_expect _ _ _ _ (by decide)
    | skip
  · unfold stateBeginValueOrEmpty
    repeat' split
    all_goals first | ef_tac | exact ef_stateEndValue _ _ hg | exact ef_stateBeginValue _ _ hg
  · unfold stateBeginStringOrEmpty
    repeat' split
    all_goals first | ef_tac | exact ef_stateEndValue _ _ (by intro h; exact hg h) | exact ef_stateBeginString _ _ hg
  · unfold stateInString
    repeat' split
    all_goals ef_tac
  · unfold stateInStringEsc
    repeat' split
    all_goals ef_tac
  · unfold stateNeg
    repeat' split
    all_goals ef_tac
  · unfold state1
    split
    all_goals first | ef_tac | exact ef_state0 _ _ hg
  · unfold stateDot
    split
    all_goals ef_tac
  · unfold stateDot0
    repeat' split
    all_goals first | ef_tac | exact ef_stateEndValue _ _ hg
  · unfold stateE
    split
    all_goals first | ef_tac | exact ef_stateESign _ _
  · unfold stateE0
    split
    all_goals first | ef_tac | exact ef_stateEndValue _ _ hg

/-! ### the scanner component of the loops -/

/-- thread the scanner through the input, stopping at the first error opcode (as the loops
of `compact` and `Indent` do) -/
def runE : Scan → Bytes → Scan
  | s, [] => s
  | s, c :: cs => if (step s c).2 = scanError then (step s c).1 else runE (step s c).1 cs

theorem eof_runE (s : Scan) (bs : Bytes) (hg : Good s) : eof (runE s bs) = validFrom s bs := by
  induction bs generalizing s with
  | nil => rfl
  | cons c cs ih =>
    rw [validFrom_cons]
    simp only [runE]
    have h := ef_step s c hg
    split
    · rename_i he
      simp only [eof, h.1 he, if_true]
    · exact ih _ h.2

theorem compactLoop_fst (e : Bool) (s : Scan) (k : Nat) (bs out : Bytes) :
    (compactLoop e s k bs out).1 = runE s bs := by
  induction bs generalizing s k out with
  | nil => rfl
  | cons c cs ih =>
    simp only [compactLoop, runE]
    split
    · rfl
    · split <;> exact ih _ _ _

theorem indentLoop_fst (ind : Bytes) (s : Scan) (need : Bool) (depth : Nat) (bs out : Bytes) :
    (indentLoop ind s need depth bs out).1 = runE s bs := by
  induction bs generalizing s need depth out with
  | nil => rfl
  | cons c cs ih =>
    simp only [indentLoop, runE]
    split
    · rename_i h
      have : (step s c).2 ≠ scanError := by rw [h]; decide
      simp only [this, if_false]; exact ih _ _ _ _
    · split
      · rfl
      · repeat' split
        all_goals exact ih _ _ _ _

theorem compact_isSome (e : Bool) (bs : Bytes) : (compact e bs).isSome = valid bs := by
  have h := compactLoop_fst e Scan.init 0 bs []
  have h2 := eof_runE Scan.init bs good_init
  unfold compact
  simp only
  rw [valid_eq_validFrom, ← h2, ← h]
  split <;> simp_all

theorem indent_isSome (ind bs : Bytes) : (indent ind bs).isSome = valid bs := by
  have h := indentLoop_fst ind Scan.init false 0 bs []
  have h2 := eof_runE Scan.init bs good_init
  unfold indent
  simp only
  rw [valid_eq_validFrom, ← h2, ← h]
  split <;> simp_all

end Scanner
end JP
