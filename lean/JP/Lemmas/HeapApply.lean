import JP.Lemmas.HeapOps2
import JP.Lemmas.HeapMarshal

/-!
# The loop of `ApplyIndentWithOptions` and the final `Marshal`: heap model = value model
-/

namespace JP
namespace Heap

open JP.Impl (Node NMembers Outcome Opts Op Root)

/-- the operations whose refinement is proved in this development (the rest is stated as open in
`JP.Props.C04heap`) -/
def Supported (o : Opts) (op : Op) : Prop :=
  (op.kind = ascii "add" → o.ensure = false) ∧ op.kind ≠ ascii "copy" ∧ op.kind ≠ ascii "test"

def RelAcc (h : Heap) (fp : List Nat) (x : St × Int) (y : Root × Int) : Prop :=
  RelSt h fp x.1 y.1 ∧ x.2 = y.2

def liftAccV (acc : Int) : Outcome Root → Outcome (Root × Int)
  | .ok r' => .ok (r', acc)
  | .err e => .err e
  | .panic => .panic

theorem liftAcc_rel {h : Heap} {fp : List Nat} {acc : Int} {x : Outcome St} {y : Outcome Root}
    (hxy : OutRel (RelSt h fp) x y) :
    OutRel (RelAcc h fp) (liftAcc acc x) (liftAccV acc y) := by
  cases x <;> cases y <;> simp only [OutRel] at hxy <;> simp only [liftAcc, liftAccV, OutRel]
  · exact ⟨hxy, rfl⟩
  · exact hxy

theorem applyOp_refines_of (o : Opts) {s : St} {r : Root} {fp : List Nat} (acc : Int) (op : Op)
    (hcopy : op.kind = ascii "copy" →
      OutRel (RelAcc s.h fp) (Heap.opCopy o s acc op) (Impl.opCopy o r acc op))
    (htest : op.kind = ascii "test" →
      OutRel (RelSt s.h fp) (Heap.opTest o s op) (Impl.opTest o r op))
    (hadd : op.kind = ascii "add" →
      OutRel (RelSt s.h fp) (Heap.opAdd o s op) (Impl.opAdd o r op))
    (hr : Repr s.h r.con (some s.root) fp) :
    OutRel (RelAcc s.h fp) (Heap.applyOp o s acc op) (Impl.applyOp o r acc op) := by
  unfold Heap.applyOp Impl.applyOp
  by_cases h1 : op.kind = ascii "add"
  · simp only [h1, if_true]
    exact liftAcc_rel (hadd h1)
  · simp only [h1, if_false]
    by_cases h2 : op.kind = ascii "remove"
    · simp only [h2, if_true]
      exact liftAcc_rel (opRemove_refines o op hr)
    · simp only [h2, if_false]
      by_cases h3 : op.kind = ascii "replace"
      · simp only [h3, if_true]
        exact liftAcc_rel (opReplace_refines o op hr)
      · simp only [h3, if_false]
        by_cases h4 : op.kind = ascii "move"
        · simp only [h4, if_true]
          exact liftAcc_rel (opMove_refines o op hr)
        · simp only [h4, if_false]
          by_cases h5 : op.kind = ascii "test"
          · simp only [h5, if_true]
            exact liftAcc_rel (htest h5)
          · simp only [h5, if_false]
            by_cases h6 : op.kind = ascii "copy"
            · simp only [h6, if_true]
              exact hcopy h6
            · simp [h6]

theorem applyOp_refines_partial (o : Opts) {s : St} {r : Root} {fp : List Nat} (acc : Int) (op : Op)
    (hs : Supported o op) (hr : Repr s.h r.con (some s.root) fp) :
    OutRel (RelAcc s.h fp) (Heap.applyOp o s acc op) (Impl.applyOp o r acc op) :=
  applyOp_refines_of o acc op (fun hc => absurd hc hs.2.1) (fun ht => absurd ht hs.2.2)
    (fun ha => opAdd_refines o (hs.1 ha) op hr) hr

theorem RelSt.trans {h : Heap} {fp fp1 : List Nat} {s1 s2 : St} {r2 : Root}
    (e1 : Ext h s1.h fp fp1) (h2 : RelSt s1.h fp1 s2 r2) : RelSt h fp s2 r2 := by
  obtain ⟨fp2, hr2, e2⟩ := h2
  exact ⟨fp2, hr2, Ext.trans e1 e2⟩

theorem applyOps_refines_partial (o : Opts) : ∀ (ops : List Op) (s : St) (r : Root) (fp : List Nat)
    (acc : Int), (∀ op ∈ ops, Supported o op) → Repr s.h r.con (some s.root) fp →
    OutRel (RelSt s.h fp) (Heap.applyOps o s acc ops) (Impl.applyOps o r acc ops)
  | [], s, r, fp, acc, _, hr => by
    simp only [Heap.applyOps, Impl.applyOps, OutRel_ok_ok]
    exact ⟨fp, hr, Ext.refl _ _⟩
  | op :: ops, s, r, fp, acc, hs, hr => by
    have h1 := applyOp_refines_partial o acc op (hs op (by simp)) hr
    simp only [Heap.applyOps, Impl.applyOps]
    cases hx : Heap.applyOp o s acc op with
    | panic =>
      cases hy : Impl.applyOp o r acc op with
      | panic => simp
      | ok y => rw [hx, hy] at h1; simp at h1
      | err e => rw [hx, hy] at h1; simp at h1
    | err e =>
      cases hy : Impl.applyOp o r acc op with
      | panic => rw [hx, hy] at h1; simp at h1
      | ok y => rw [hx, hy] at h1; simp at h1
      | err e' => rw [hx, hy] at h1; simpa using h1
    | ok x =>
      cases hy : Impl.applyOp o r acc op with
      | panic => rw [hx, hy] at h1; simp at h1
      | err e' => rw [hx, hy] at h1; simp at h1
      | ok y =>
        rw [hx, hy] at h1
        simp only [OutRel_ok_ok, RelAcc] at h1
        obtain ⟨s1, a1⟩ := x
        obtain ⟨r1, a1'⟩ := y
        obtain ⟨⟨fp1, hr1, e1⟩, rfl⟩ := h1
        simp only
        have ih := applyOps_refines_partial o ops s1 r1 fp1 a1 (fun op hop => hs op (by simp [hop])) hr1
        exact OutRel.mono (fun a b hab => RelSt.trans e1 hab) ih

theorem marshalRoot_refines (esc : Bool) {s : St} {r : Root} {fp : List Nat}
    (hr : Repr s.h r.con (some s.root) fp) : Heap.marshalRoot esc s = Impl.marshalRoot esc r := by
  have hm := marshal_fuelOf esc hr
  unfold Heap.marshalRoot Impl.marshalRoot
  cases hc : r.con with
  | nil => rw [hc] at hr; simp only [Repr] at hr; cases hr.1
  | raw c =>
    rw [hc] at hr hm; simp only [Repr] at hr; obtain ⟨a, e, ha, _⟩ := hr; cases e
    simp only [ha, hm]
  | docNil =>
    rw [hc] at hr; simp only [Repr] at hr; obtain ⟨a, e, ha, _⟩ := hr; cases e
    simp only [ha]
  | nilAry =>
    rw [hc] at hr; simp only [Repr] at hr; obtain ⟨a, e, ha, _⟩ := hr; cases e
    simp only [ha]
  | doc keys ms =>
    rw [hc] at hr hm; simp only [Repr] at hr; obtain ⟨a, ps, f, e, ha, _⟩ := hr; cases e
    simp only [ha, hm]
  | ary ns =>
    rw [hc] at hr hm; simp only [Repr] at hr; obtain ⟨a, ps, f, e, ha, _⟩ := hr; cases e
    simp only [ha, hm]

/-- with `applyOps` refined, the byte-level entry points coincide -/
theorem applyHeap_eq_of (o : Opts) (doc : Bytes) (ops : List Op)
    (hops : ∀ (s : St) (r : Root) (fp : List Nat), Repr s.h r.con (some s.root) fp →
      OutRel (RelSt s.h fp) (Heap.applyOps o s 0 ops) (Impl.applyOps o r 0 ops)) :
    applyHeap o doc ops = Impl.applyBytes o [] doc ops := by
  unfold applyHeap Impl.applyBytes
  by_cases hd : doc = []
  · simp [hd]
  · simp only [hd, if_false]
    by_cases hv : (!Scanner.valid doc) = true
    · simp [hv]
    · simp only [hv]
      cases hp : parseCst doc with
      | none => rfl
      | some c =>
        simp only
        have hN := newRoot_refines [] c
        cases h1 : newRoot [] c with
        | panic =>
          cases h2 : Impl.decodeRoot c with
          | panic => rfl
          | ok x => rw [h1, h2] at hN; simp at hN
          | err e => rw [h1, h2] at hN; simp at hN
        | err e =>
          cases h2 : Impl.decodeRoot c with
          | panic => rw [h1, h2] at hN; simp at hN
          | ok x => rw [h1, h2] at hN; simp at hN
          | err e' => rw [h1, h2] at hN; simp only [OutRel_err_err] at hN; subst hN; rfl
        | ok s =>
          cases h2 : Impl.decodeRoot c with
          | panic => rw [h1, h2] at hN; simp at hN
          | err e' => rw [h1, h2] at hN; simp at hN
          | ok con =>
            rw [h1, h2] at hN; simp only [OutRel_ok_ok] at hN
            obtain ⟨fp, hr, _, _⟩ := hN
            simp only
            have hO := hops s { con := con, self := .raw c, selfCR := c.isArr && !Impl.goIsArray doc } fp hr
            cases h3 : Heap.applyOps o s 0 ops with
            | panic =>
              cases h4 : Impl.applyOps o { con := con, self := .raw c, selfCR := c.isArr && !Impl.goIsArray doc } 0 ops with
              | panic => rfl
              | ok x => rw [h3, h4] at hO; simp at hO
              | err e => rw [h3, h4] at hO; simp at hO
            | err e =>
              cases h4 : Impl.applyOps o { con := con, self := .raw c, selfCR := c.isArr && !Impl.goIsArray doc } 0 ops with
              | panic => rw [h3, h4] at hO; simp at hO
              | ok x => rw [h3, h4] at hO; simp at hO
              | err e' => rw [h3, h4] at hO; simp only [OutRel_err_err] at hO; subst hO; rfl
            | ok s' =>
              cases h4 : Impl.applyOps o { con := con, self := .raw c, selfCR := c.isArr && !Impl.goIsArray doc } 0 ops with
              | panic => rw [h3, h4] at hO; simp at hO
              | err e' => rw [h3, h4] at hO; simp at hO
              | ok r' =>
                rw [h3, h4] at hO; simp only [OutRel_ok_ok] at hO
                obtain ⟨fp', hr', _⟩ := hO
                simp only
                rw [marshalRoot_refines o.esc hr']
                cases Impl.marshalRoot o.esc r' <;> rfl

theorem applyHeap_eq_partial (o : Opts) (doc : Bytes) (ops : List Op)
    (hs : ∀ op ∈ ops, Supported o op) :
    applyHeap o doc ops = Impl.applyBytes o [] doc ops :=
  applyHeap_eq_of o doc ops (fun s r fp hr => applyOps_refines_partial o ops s r fp 0 hs hr)

end Heap
end JP
