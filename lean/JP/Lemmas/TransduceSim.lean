import JP.Lemmas.TransduceLit
import JP.Lemmas.TransduceInd

/-!
# The token trace of a well-formed text is the token list of its parse tree

`toksV c`: the (byte, opcode) pairs of the compact text of `c`.  Main theorem `ftr_parse`:
on a text that the reference parser maps to `c`, the scanner produces `toksV c` (white space
dropped), followed by `scanEnd` for each trailing white space byte.
-/

namespace JP
namespace Scanner

mutual
def toksV : Cst → List Tok
  | .lit s => litToks s
  | .str b => strToks b
  | .arr xs => (91, scanBeginArray) :: toksE xs
  | .obj ms => (123, scanBeginObject) :: toksM ms
/-- elements and the closing bracket -/
def toksE : List Cst → List Tok
  | [] => [(93, scanEndArray)]
  | [x] => toksV x ++ [(93, scanEndArray)]
  | x :: y :: xs => toksV x ++ (44, scanArrayValue) :: toksE (y :: xs)
/-- members and the closing brace -/
def toksM : List (Bytes × Cst) → List Tok
  | [] => [(125, scanEndObject)]
  | [(k, v)] => strToks k ++ (58, scanObjectKey) :: (toksV v ++ [(125, scanEndObject)])
  | (k, v) :: m :: ms =>
    strToks k ++ (58, scanObjectKey) :: (toksV v ++ (44, scanObjectValue) :: toksM (m :: ms))
end

theorem toksE_cons (x : Cst) (xs : List Cst) (h : xs ≠ []) :
    toksE (x :: xs) = toksV x ++ (44, scanArrayValue) :: toksE xs := by
  cases xs with
  | nil => exact absurd rfl h
  | cons y ys => simp only [toksE]

theorem toksM_cons (k : Bytes) (v : Cst) (ms : List (Bytes × Cst)) (h : ms ≠ []) :
    toksM ((k, v) :: ms) =
      strToks k ++ (58, scanObjectKey) :: (toksV v ++ (44, scanObjectValue) :: toksM ms) := by
  cases ms with
  | nil => exact absurd rfl h
  | cons y ys => simp only [toksM]

/-! ### the cases of the simulation -/

theorem depth_ok {n : Nat} (h : n ≤ maxDepth) : n ≤ maxNestingDepth := h

theorem step_lbrace_ok (stk : List Nat) (hd : stk.length + 1 ≤ maxDepth) :
    step (bv stk) 123 = (mk .stateBeginStringOrEmpty (0 :: stk), scanBeginObject) := by
  rw [step_bv_lbrace]; simp [depth_ok hd]

theorem step_lbrack_ok (stk : List Nat) (hd : stk.length + 1 ≤ maxDepth) :
    step (bv stk) 91 = (mk .stateBeginValueOrEmpty (2 :: stk), scanBeginArray) := by
  rw [step_bv_lbrack]; simp [depth_ok hd]

/-- the shape of the statements: the trace of `bs` from `s` is `t` followed by the trace of `rest`
from "value ended" -/
def TrV (d : Nat) (bs : Bytes) (c : Cst) (rest : Bytes) : Prop :=
  ∀ stk : List Nat, stk.length = d → ftr (bv stk) bs = toksV c ++ ftr (ev stk) rest
def TrE (d : Nat) (bs : Bytes) (xs : List Cst) (rest : Bytes) : Prop :=
  ∀ stk : List Nat, stk.length + 1 = d → ftr (bv (2 :: stk)) bs = toksE xs ++ ftr (ev stk) rest
def TrM (d : Nat) (bs : Bytes) (ms : List (Bytes × Cst)) (rest : Bytes) : Prop :=
  ∀ stk : List Nat, stk.length + 1 = d →
    ftr (mk .stateBeginString (0 :: stk)) bs = toksM ms ++ ftr (ev stk) rest

theorem tr_obj0 (d : Nat) (cs r : Bytes) (hd : d + 1 ≤ maxDepth) (hs : skipWs cs = 125 :: r) :
    TrV d (123 :: cs) (.obj []) r := by
  intro stk hl; subst hl
  rw [ftr_step (step_lbrace_ok stk hd) (by decide) (by decide), ftr_skipWs (step_bsoe_ws _) cs, hs,
    ftr_step (step_bsoe_rbrace stk) (by decide) (by decide), ftr_afterClose]
  rfl

theorem tr_obj (d : Nat) (cs : Bytes) (ms : List (Bytes × Cst)) (rest : Bytes) (hd : d + 1 ≤ maxDepth)
    (hs : ∀ r, skipWs cs ≠ 125 :: r) (ih : TrM (d + 1) (skipWs cs) ms rest) :
    TrV d (123 :: cs) (.obj ms) rest := by
  intro stk hl; subst hl
  rw [ftr_step (step_lbrace_ok stk hd) (by decide) (by decide), ftr_skipWs (step_bsoe_ws _) cs]
  have : ftr (mk .stateBeginStringOrEmpty (0 :: stk)) (skipWs cs) =
      ftr (mk .stateBeginString (0 :: stk)) (skipWs cs) := by
    apply ftr_congr
    intro a as hr
    exact step_bsoe_other _ a (noWs_skipWs cs a as hr) (fun h => hs as (by rw [hr, h]))
  rw [this, ih stk rfl]
  rfl

theorem tr_arr0 (d : Nat) (cs r : Bytes) (hd : d + 1 ≤ maxDepth) (hs : skipWs cs = 93 :: r) :
    TrV d (91 :: cs) (.arr []) r := by
  intro stk hl; subst hl
  rw [ftr_step (step_lbrack_ok stk hd) (by decide) (by decide), ftr_skipWs (step_bvoe_ws _) cs, hs,
    ftr_step (step_bvoe_rbrack stk) (by decide) (by decide), ftr_afterClose]
  rfl

theorem tr_arr (d : Nat) (cs : Bytes) (xs : List Cst) (rest : Bytes) (hd : d + 1 ≤ maxDepth)
    (hs : ∀ r, skipWs cs ≠ 93 :: r) (ih : TrE (d + 1) (skipWs cs) xs rest) :
    TrV d (91 :: cs) (.arr xs) rest := by
  intro stk hl; subst hl
  rw [ftr_step (step_lbrack_ok stk hd) (by decide) (by decide), ftr_skipWs (step_bvoe_ws _) cs]
  have : ftr (mk .stateBeginValueOrEmpty (2 :: stk)) (skipWs cs) = ftr (bv (2 :: stk)) (skipWs cs) := by
    apply ftr_congr
    intro a as hr
    exact step_bvoe_other _ a (noWs_skipWs cs a as hr) (fun h => hs as (by rw [hr, h]))
  rw [this, ih stk rfl]
  rfl

theorem tr_str (d : Nat) (cs b rest : Bytes) (h : parseStrBody cs = some (b, rest)) :
    TrV d (34 :: cs) (.str b) rest := by
  intro stk _
  exact ftr_string stk (step_bv_quote stk) cs b rest h

theorem tr_word (d : Nat) (w rest : Bytes) (hw : w = ascii "true" ∨ w = ascii "false" ∨ w = ascii "null") :
    TrV d (w ++ rest) (.lit w) rest := by
  intro stk _
  rcases hw with rfl | rfl | rfl
  · exact ftr_true stk rest
  · exact ftr_false stk rest
  · exact ftr_null stk rest

theorem tr_num (d : Nat) (c : UInt8) (cs l rest : Bytes) (hc : c = 45 ∨ isDigit c = true)
    (hp : parseNumber (c :: cs) = some (l, rest)) : TrV d (c :: cs) (.lit l) rest := by
  intro stk _
  apply ftr_number stk (c :: cs) l rest _ hp
  intro c' cs' hh
  simp only [List.cons.injEq] at hh
  obtain ⟨rfl, _⟩ := hh
  exact ⟨(startByte_spec c (startByte_num c hc)).1, numHead_spec c hc⟩

theorem tr_elast (d : Nat) (bs : Bytes) (x : Cst) (r r' : Bytes) (ih : TrV d bs x r)
    (h93 : skipWs r = 93 :: r') : TrE d bs [x] r' := by
  intro stk hl
  rw [ih (2 :: stk) (by simpa using hl), ftr_skipWs (step_ev_ws 2 stk) r, h93,
    ftr_step (step_ev_arr_rbrack stk) (by decide) (by decide), ftr_afterClose]
  simp [toksE]

theorem tr_emore (d : Nat) (bs : Bytes) (x : Cst) (r r' : Bytes) (xs : List Cst) (rest : Bytes)
    (ih : TrV d bs x r) (h44 : skipWs r = 44 :: r') (hne : xs ≠ []) (ihE : TrE d (skipWs r') xs rest) :
    TrE d bs (x :: xs) rest := by
  intro stk hl
  rw [ih (2 :: stk) (by simpa using hl), ftr_skipWs (step_ev_ws 2 stk) r, h44,
    ftr_step (step_ev_arr_comma stk) (by decide) (by decide), ftr_skipWs (step_bv_ws _) r',
    ihE stk hl, toksE_cons x xs hne]
  simp

theorem tr_mlast (d : Nat) (cs k r r1 : Bytes) (v : Cst) (r2 r3 : Bytes)
    (hk : parseStrBody cs = some (k, r)) (h58 : skipWs r = 58 :: r1) (ih : TrV d (skipWs r1) v r2)
    (h125 : skipWs r2 = 125 :: r3) : TrM d (34 :: cs) [(k, v)] r3 := by
  intro stk hl
  rw [ftr_string (0 :: stk) (step_bs_quote _) cs k r hk, ftr_skipWs (step_ev_ws 0 stk) r, h58,
    ftr_step (step_ev_key_colon stk) (by decide) (by decide), ftr_skipWs (step_bv_ws _) r1,
    ih (1 :: stk) (by simpa using hl), ftr_skipWs (step_ev_ws 1 stk) r2, h125,
    ftr_step (step_ev_val_rbrace stk) (by decide) (by decide), ftr_afterClose]
  simp [toksM]

theorem tr_mmore (d : Nat) (cs k r r1 : Bytes) (v : Cst) (r2 r3 : Bytes) (ms : List (Bytes × Cst))
    (rest : Bytes) (hk : parseStrBody cs = some (k, r)) (h58 : skipWs r = 58 :: r1)
    (ih : TrV d (skipWs r1) v r2) (h44 : skipWs r2 = 44 :: r3) (hne : ms ≠ [])
    (ihM : TrM d (skipWs r3) ms rest) : TrM d (34 :: cs) ((k, v) :: ms) rest := by
  intro stk hl
  rw [ftr_string (0 :: stk) (step_bs_quote _) cs k r hk, ftr_skipWs (step_ev_ws 0 stk) r, h58,
    ftr_step (step_ev_key_colon stk) (by decide) (by decide), ftr_skipWs (step_bv_ws _) r1,
    ih (1 :: stk) (by simpa using hl), ftr_skipWs (step_ev_ws 1 stk) r2, h44,
    ftr_step (step_ev_val_comma stk) (by decide) (by decide), ftr_skipWs (step_bs_ws _) r3,
    ihM stk hl, toksM_cons k v ms hne]
  simp

theorem tr_all (f : Nat) :
    (∀ d bs c rest, parseValue f d bs = some (c, rest) → TrV d bs c rest) ∧
    (∀ d bs xs rest, parseElems f d bs = some (xs, rest) → xs ≠ [] ∧ TrE d bs xs rest) ∧
    (∀ d bs ms rest, parseMembers f d bs = some (ms, rest) → ms ≠ [] ∧ TrM d bs ms rest) :=
  parse_ind (PV := fun _ => TrV) (PE := fun _ => TrE) (PM := fun _ => TrM)
    (fun _ d cs r hd hs => tr_obj0 d cs r hd hs)
    (fun _ d cs ms rest hd hs _ _ ih => tr_obj d cs ms rest hd hs ih)
    (fun _ d cs r hd hs => tr_arr0 d cs r hd hs)
    (fun _ d cs xs rest hd hs _ _ ih => tr_arr d cs xs rest hd hs ih)
    (fun _ d cs b rest h => tr_str d cs b rest h)
    (fun _ d w rest hw => tr_word d w rest hw)
    (fun _ d c cs l rest hc hp => tr_num d c cs l rest hc hp)
    (fun _ d bs x r r' _ ih h93 => tr_elast d bs x r r' ih h93)
    (fun _ d bs x r r' xs rest _ ih h44 hne _ ihE => tr_emore d bs x r r' xs rest ih h44 hne ihE)
    (fun _ d cs k r r1 v r2 r3 hk h58 _ ih h125 => tr_mlast d cs k r r1 v r2 r3 hk h58 ih h125)
    (fun _ d cs k r r1 v r2 r3 ms rest hk h58 _ ih h44 hne _ ihM =>
      tr_mmore d cs k r r1 v r2 r3 ms rest hk h58 ih h44 hne ihM)
    f

/-- the token trace of a text whose value parses to `c` with trailing white space `rest` -/
theorem ftr_parse (f : Nat) (bs : Bytes) (c : Cst) (rest : Bytes)
    (h : parseValue f 0 (skipWs bs) = some (c, rest)) (hws : skipWs rest = []) :
    ftr Scan.init bs = toksV c ++ rest.map (·, scanEnd) := by
  have h0 : ftr Scan.init bs = ftr (bv []) (skipWs bs) := ftr_skipWs (s := bv []) (step_bv_ws []) bs
  rw [h0, (tr_all f).1 0 _ c rest h [] rfl, ftr_ev_nil_ws rest ((skipWs_nil_iff rest).1 hws)]

/-! ### `compact` without escaping prints the tree -/

theorem emitC_cont (l : Bytes) : emitC (cont l) = l := by
  induction l with
  | nil => rfl
  | cons c l ih => simp only [cont_cons, emitC, ih]; rfl

theorem emitC_cons_lt (c : UInt8) (op : Nat) (t : List Tok) (h : op < scanSkipSpace) :
    emitC ((c, op) :: t) = c :: emitC t := by
  simp only [emitC, ge_iff_le, Nat.not_le.2 h, if_false]

theorem emitC_litToks (l : Bytes) : emitC (litToks l) = l := by
  cases l with
  | nil => rfl
  | cons c l => simp only [litToks, emitC_cons_lt _ _ _ (show scanBeginLiteral < scanSkipSpace by decide), emitC_cont]

theorem emitC_strToks (b : Bytes) : emitC (strToks b) = 34 :: (b ++ [34]) := by
  simp only [strToks, emitC_cons_lt _ _ _ (show scanBeginLiteral < scanSkipSpace by decide), emitC_append,
    emitC_cont, emitC]
  rfl

mutual
theorem emitC_toksV : ∀ c : Cst, emitC (toksV c) = Cst.print c
  | .lit s => emitC_litToks s
  | .str b => by rw [toksV, emitC_strToks]; simp [Cst.print]
  | .arr xs => by
    rw [toksV, emitC_cons_lt _ _ _ (show scanBeginArray < scanSkipSpace by decide), emitC_toksE xs]
    simp [Cst.print]
  | .obj ms => by
    rw [toksV, emitC_cons_lt _ _ _ (show scanBeginObject < scanSkipSpace by decide), emitC_toksM ms]
    simp [Cst.print]
theorem emitC_toksE : ∀ xs : List Cst, emitC (toksE xs) = Cst.printL xs ++ [93]
  | [] => rfl
  | [x] => by
    rw [toksE, emitC_append, emitC_toksV x, emitC_cons_lt _ _ _ (show scanEndArray < scanSkipSpace by decide)]
    simp [Cst.printL, emitC]
  | x :: y :: xs => by
    rw [toksE, emitC_append, emitC_toksV x, emitC_cons_lt _ _ _ (show scanArrayValue < scanSkipSpace by decide),
      emitC_toksE (y :: xs)]
    simp [Cst.printL]
theorem emitC_toksM : ∀ ms : List (Bytes × Cst), emitC (toksM ms) = Cst.printM ms ++ [125]
  | [] => rfl
  | [(k, v)] => by
    rw [toksM, emitC_append, emitC_strToks, emitC_cons_lt _ _ _ (show scanObjectKey < scanSkipSpace by decide),
      emitC_append, emitC_toksV v, emitC_cons_lt _ _ _ (show scanEndObject < scanSkipSpace by decide)]
    simp [Cst.printM, emitC]
  | (k, v) :: m :: ms => by
    rw [toksM, emitC_append, emitC_strToks, emitC_cons_lt _ _ _ (show scanObjectKey < scanSkipSpace by decide),
      emitC_append, emitC_toksV v, emitC_cons_lt _ _ _ (show scanObjectValue < scanSkipSpace by decide),
      emitC_toksM (m :: ms)]
    simp [Cst.printM]
end

theorem emitC_scanEnd (ws : Bytes) : emitC (ws.map (·, scanEnd)) = [] := by
  induction ws with
  | nil => rfl
  | cons c ws ih => simp only [List.map_cons, emitC, ih]; rfl

end Scanner
end JP
