import JP.Lemmas.HeapEnsure2
import JP.Lemmas.HeapOps

/-!
# `add` under EnsurePathExistsOnAdd
-/

namespace JP
namespace Heap

open JP.Impl (Node NMembers Outcome Opts Op Root isCon)

theorem ensurePath_refines (o : Opts) {h : Heap} {root : Nat} {r : Root} {fp : List Nat} (path : Bytes)
    (hr : Repr h r.con (some root) fp) (hc : isCon r.con = true) :
    OutRel (fun h' r' => ∃ fp', Repr h' r'.con (some root) fp' ∧ Ext h h' fp fp')
      (Heap.ensurePath o h root path) (Impl.ensurePath o r path) := by
  unfold Heap.ensurePath Impl.ensurePath
  cases hs : splitSlash path with
  | nil => simp only [OutRel_ok_ok]; exact ⟨fp, hr, Ext.refl _ _⟩
  | cons first parts =>
    cases parts with
    | nil => simp only [OutRel_ok_ok]; exact ⟨fp, hr, Ext.refl _ _⟩
    | cons p2 ps =>
      show OutRel _ (if first ≠ [] then Outcome.ok h else Heap.ensure o h root (p2 :: ps))
        (if first ≠ [] then Outcome.ok r else
          match Impl.ensure o r.selfCR r.self r.con (p2 :: ps) with
          | .ok (con, self) => .ok { r with con := con, self := self }
          | .err e => .err e
          | .panic => .panic)
      by_cases hf : first ≠ []
      · rw [if_pos hf, if_pos hf]; simp only [OutRel_ok_ok]; exact ⟨fp, hr, Ext.refl _ _⟩
      · rw [if_neg hf, if_neg hf]
        have hE := ensure_refines o (p2 :: ps) h root r.con fp r.selfCR r.self hr hc
        cases hx : Heap.ensure o h root (p2 :: ps) with
        | panic =>
          cases hy : Impl.ensure o r.selfCR r.self r.con (p2 :: ps) with
          | panic => simp
          | ok y => rw [hx, hy] at hE; simp at hE
          | err e => rw [hx, hy] at hE; simp at hE
        | err e =>
          cases hy : Impl.ensure o r.selfCR r.self r.con (p2 :: ps) with
          | panic => rw [hx, hy] at hE; simp at hE
          | ok y => rw [hx, hy] at hE; simp at hE
          | err e' => rw [hx, hy] at hE; simpa using hE
        | ok h' =>
          cases hy : Impl.ensure o r.selfCR r.self r.con (p2 :: ps) with
          | panic => rw [hx, hy] at hE; simp at hE
          | err e' => rw [hx, hy] at hE; simp at hE
          | ok y =>
            obtain ⟨con', self'⟩ := y
            rw [hx, hy] at hE
            simp only [OutRel_ok_ok, EnsRel] at hE ⊢
            exact hE

/-- `add`, with or without EnsurePathExistsOnAdd (the root is a container, as the Go types say) -/
theorem opAdd_refines_all (o : Opts) {s : St} {r : Root} {fp : List Nat} (op : Op)
    (hr : Repr s.h r.con (some s.root) fp) (hc : isCon r.con = true) :
    OutRel (RelSt s.h fp) (Heap.opAdd o s op) (Impl.opAdd o r op) := by
  by_cases he : o.ensure = true
  · rw [opAdd_eq]
    unfold Heap.opAdd
    by_cases hp : op.path = []
    · simp only [hp, if_true]
      exact addRoot_refines o op
    · simp only [hp, if_false, he, if_true]
      have hE := ensurePath_refines o op.path hr hc
      cases hx : Heap.ensurePath o s.h s.root op.path with
      | panic =>
        cases hy : Impl.ensurePath o r op.path with
        | panic => simp
        | ok y => rw [hx, hy] at hE; simp at hE
        | err e => rw [hx, hy] at hE; simp at hE
      | err e =>
        cases hy : Impl.ensurePath o r op.path with
        | panic => rw [hx, hy] at hE; simp at hE
        | ok y => rw [hx, hy] at hE; simp at hE
        | err e' => rw [hx, hy] at hE; simpa using hE
      | ok h1 =>
        cases hy : Impl.ensurePath o r op.path with
        | panic => rw [hx, hy] at hE; simp at hE
        | err e' => rw [hx, hy] at hE; simp at hE
        | ok r1 =>
          rw [hx, hy] at hE
          simp only [OutRel_ok_ok] at hE
          obtain ⟨fp1, hr1, e1⟩ := hE
          simp only
          refine OutRel.mono (fun s' r' hab => ?_) (addAt_refines o op hr1)
          obtain ⟨fp2, hr2, e2⟩ := hab
          exact ⟨fp2, hr2, Ext.trans e1 e2⟩
  · exact opAdd_refines o (by simpa using he) op hr

end Heap
end JP
