import JP.Lemmas.CloseText
import JP.Lemmas.CopySize

/-!
# Closing the text hypotheses, part 5: every raw message the engine holds is well formed

`WN n`: every raw message kept inside the node `n` is a well-formed syntax tree (`WFC`).
It holds for the freshly decoded document and for the operation values of a decoded patch, and
every operation (without `EnsurePathExistsOnAdd`) preserves it; `cstOf` of such a node is
well-formed, so `parse_print` applies to what `marshalRoot` writes.
-/

namespace JP
namespace Impl

mutual
def WN : Node → Bool
  | .raw c => WFC c
  | .doc _ obj => WNM obj
  | .ary ns => WNL ns
  | _ => true
def WNM : NMembers → Bool
  | [] => true
  | (_, n) :: ms => WN n && WNM ms
def WNL : List Node → Bool
  | [] => true
  | n :: ns => WN n && WNL ns
end

theorem WNL_iff (ns : List Node) : WNL ns = true ↔ ∀ n ∈ ns, WN n = true := by
  induction ns with
  | nil => simp [WNL]
  | cons n ns ih => simp [WNL, ih]

theorem WNM_iff (ms : NMembers) : WNM ms = true ↔ ∀ kn ∈ ms, WN kn.2 = true := by
  induction ms with
  | nil => simp [WNM]
  | cons m ms ih => obtain ⟨k, n⟩ := m; simp [WNM, ih]

theorem WN_nil : WN .nil = true := rfl

theorem WN_ary (ns : List Node) : WN (.ary ns) = true ↔ ∀ n ∈ ns, WN n = true := by
  simp only [WN, WNL_iff]

theorem WN_doc (keys : List Bytes) (obj : NMembers) : WN (.doc keys obj) = true ↔ ∀ kn ∈ obj, WN kn.2 = true := by
  simp only [WN, WNM_iff]

theorem WNL_getElem? {ns : List Node} {i : Nat} {n : Node} (h : ∀ n ∈ ns, WN n = true)
    (hi : ns[i]? = some n) : WN n = true := h n (List.mem_of_getElem? hi)

/-! ### decoding one level -/

theorem WN_childOf {c : Cst} (h : WFC c = true) : WN (childOf c) = true := by
  unfold childOf; split
  · rfl
  · exact h

theorem WNM_setN {k : Bytes} {n : Node} {obj : NMembers} (hn : WN n = true)
    (h : ∀ kn ∈ obj, WN kn.2 = true) : ∀ kn ∈ setN k n obj, WN kn.2 = true := by
  intro x hx
  rcases mem_setN hx with rfl | hx
  · exact hn
  · exact h x hx

theorem WN_decodeMembers : ∀ (ms : List (Bytes × Cst)) (acc : NMembers), WFCM ms = true →
    (∀ kn ∈ acc, WN kn.2 = true) → ∀ kn ∈ decodeMembers ms acc, WN kn.2 = true
  | [], acc, _, h => by simpa [decodeMembers] using h
  | (k, v) :: ms, acc, hw, h => by
    simp only [WFCM, Bool.and_eq_true] at hw
    simp only [decodeMembers]
    exact WN_decodeMembers ms _ hw.2 (WNM_setN (WN_childOf hw.1.2) h)

theorem WN_decodeDoc {ms : List (Bytes × Cst)} (h : WFCM ms = true) : WN (decodeDoc ms) = true := by
  unfold decodeDoc
  rw [WN_doc]
  exact WN_decodeMembers ms [] h (by simp)

theorem WN_decodeAry {xs : List Cst} (h : WFCL xs = true) : WN (decodeAry xs) = true := by
  unfold decodeAry
  rw [WN_ary]
  intro n hn
  obtain ⟨c, hc, rfl⟩ := List.mem_map.1 hn
  exact WN_childOf ((WFCL_iff xs).1 h c hc)

/-- outcome of a container method -/
def ConW : Outcome Node → Prop
  | .ok c => WN c = true
  | _ => True

theorem intoContainer_W {n : Node} (hn : WN n = true) : ConW (intoContainer n) := by
  cases n with
  | nil => simp [intoContainer, rawIsArray, intoDoc, ConW]
  | raw c =>
    cases c with
    | arr xs =>
      simp only [intoContainer, rawIsArray, Cst.isArr, if_true, intoAry, ConW]
      exact WN_decodeAry (by simpa [WN, WFC] using hn)
    | obj ms =>
      simp only [intoContainer, rawIsArray, Cst.isArr, Bool.false_eq_true, if_false, intoDoc, ConW]
      exact WN_decodeDoc (by simpa [WN, WFC] using hn)
    | lit s => simp [intoContainer, rawIsArray, Cst.isArr, intoDoc, ConW]
    | str s => simp [intoContainer, rawIsArray, Cst.isArr, intoDoc, ConW]
  | doc keys obj =>
    simp only [intoContainer, rawIsArray, Bool.false_eq_true, if_false, intoDoc, ConW]; exact hn
  | ary ns => simp only [intoContainer, rawIsArray, if_true, intoAry, ConW]; exact hn
  | docNil => simp [intoContainer, rawIsArray, intoDoc, ConW]
  | nilAry => simp [intoContainer, rawIsArray, intoDoc, ConW]

theorem enter_W {cr key next} (hn : WN next = true) : ConW (enter cr key next) := by
  unfold enter
  exact intoContainer_W hn

theorem decodeRoot_W {c : Cst} (h : WFC c = true) : ConW (decodeRoot c) := by
  cases c with
  | arr xs => exact WN_decodeAry (by simpa [WFC] using h)
  | obj ms => exact WN_decodeDoc (by simpa [WFC] using h)
  | lit s => simp only [decodeRoot]; split <;> simp [ConW, WN]
  | str s => trivial

/-! ### container methods -/

theorem conGet_W {o self con key} (hs : WN self = true) (hc : WN con = true) :
    ConW (conGet o self con key) := by
  cases con with
  | doc keys obj =>
    simp only [conGet]
    split
    · rename_i n hl
      exact (WN_doc keys obj).1 hc _ (lookupN_mem hl)
    · trivial
  | docNil =>
    simp only [conGet]
    trivial
  | ary nodes =>
    have hm := (WN_ary nodes).1 hc
    simp only [conGet]
    repeat' split
    all_goals first
      | trivial
      | exact hs
      | exact WNL_getElem? hm (by assumption)
  | nilAry => trivial
  | nil => trivial
  | raw c => trivial

theorem WN_docSet {keys obj key val} (hc : WN (.doc keys obj) = true) (hv : WN val = true) :
    WN (docSet keys obj key val) = true := by
  unfold docSet
  rw [WN_doc] at hc ⊢
  exact WNM_setN hv hc

theorem WNL_listSet {i : Nat} {val : Node} {nodes : List Node} (hn : ∀ n ∈ nodes, WN n = true)
    (hv : WN val = true) : ∀ n ∈ listSet i val nodes, WN n = true := by
  intro x hx
  rcases mem_listSet hx with rfl | hx
  · exact hv
  · exact hn x hx

theorem WNL_listInsert {i : Nat} {val : Node} {nodes : List Node} (hn : ∀ n ∈ nodes, WN n = true)
    (hv : WN val = true) : ∀ n ∈ listInsert i val nodes, WN n = true := by
  intro x hx
  rcases mem_listInsert hx with rfl | hx
  · exact hv
  · exact hn x hx

theorem conSet_W {o con key val} (hc : WN con = true) (hv : WN val = true) :
    ConW (conSet o con key val) := by
  cases con with
  | doc keys obj => exact WN_docSet hc hv
  | ary nodes =>
    have hm := (WN_ary nodes).1 hc
    simp only [conSet]
    repeat' split
    all_goals first
      | trivial
      | exact (WN_ary _).2 (WNL_listSet hm hv)
  | docNil => trivial
  | nilAry => trivial
  | nil => trivial
  | raw c => trivial

theorem conAdd_W {o con key val} (hc : WN con = true) (hv : WN val = true) :
    ConW (conAdd o con key val) := by
  cases con with
  | doc keys obj => exact WN_docSet hc hv
  | ary nodes =>
    have hm := (WN_ary nodes).1 hc
    simp only [conAdd]
    repeat' split
    all_goals first
      | trivial
      | exact (WN_ary _).2 (WNL_listInsert hm hv)
      | (refine (WN_ary _).2 ?_
         intro n hn
         simp only [List.mem_append, List.mem_singleton] at hn
         rcases hn with hn | rfl
         · exact hm n hn
         · exact hv)
  | docNil => trivial
  | nilAry => trivial
  | nil => trivial
  | raw c => trivial

theorem conRemove_W {o con key} (hc : WN con = true) : ConW (conRemove o con key) := by
  cases con with
  | doc keys obj =>
    have hm := (WN_doc keys obj).1 hc
    simp only [conRemove]
    repeat' split
    all_goals first
      | trivial
      | exact hc
      | exact (WN_doc _ _).2 (fun x hx => hm x (mem_eraseN hx))
  | ary nodes =>
    have hm := (WN_ary nodes).1 hc
    simp only [conRemove]
    repeat' split
    all_goals first
      | trivial
      | exact hc
      | exact (WN_ary _).2 (fun x hx => hm x (List.mem_of_mem_eraseIdx hx))
  | docNil => trivial
  | nilAry => trivial
  | nil => trivial
  | raw c => trivial

theorem putChild_W {o con key child'} (hc : WN con = true) (hch : WN child' = true) :
    WN (putChild o con key child') = true := by
  cases con with
  | doc keys obj =>
    simp only [putChild]
    rw [WN_doc] at hc ⊢
    exact WNM_setN hch hc
  | ary nodes =>
    simp only [putChild]
    split
    · exact (WN_ary _).2 (WNL_listSet ((WN_ary _).1 hc) hch)
    · exact hc
  | docNil => exact hc
  | nilAry => exact hc
  | nil => exact hc
  | raw c => exact hc

/-! ### walks -/

def WalkW {α} (Q : α → Prop) : Walk α → Prop
  | .done con a => WN con = true ∧ Q a
  | .notFound con => WN con = true
  | .fail _ => True
  | .panic => True
  | .doneSelf s a => WN s = true ∧ Q a
  | .notFoundSelf s => WN s = true

def ActW {α} (Q : α → Prop) : Outcome (Node × α) → Prop
  | .ok (con', a) => WN con' = true ∧ Q a
  | .err _ => True
  | .panic => True

theorem wrapWalk_W {α} {Q : α → Prop} {o con key} {w : Walk α}
    (hc : WN con = true) (hw : WalkW Q w) : WalkW Q (wrapWalk o con key w) := by
  cases w with
  | done child' a =>
    simp only [wrapWalk]
    exact ⟨putChild_W hc hw.1, hw.2⟩
  | notFound child' =>
    simp only [wrapWalk]
    exact putChild_W hc hw
  | fail e => trivial
  | panic => trivial
  | doneSelf s a => exact hw
  | notFoundSelf s => exact hw

theorem walk_W {α} (o : Opts) (act : Node → Node → Outcome (Node × α)) (Q : α → Prop)
    (hact : ∀ self con, WN con = true → WN self = true → ActW Q (act self con)) :
    ∀ (parts : List Bytes) (cr : Bool) (self con : Node),
      WN con = true → WN self = true → WalkW Q (walk o act cr self con parts) := by
  intro parts
  induction parts with
  | nil =>
    intro cr self con hc hs
    rw [walk_nil]
    have := hact self con hc hs
    cases h : act self con with
    | ok p => obtain ⟨con', a⟩ := p; rw [h] at this; exact this
    | err e => trivial
    | panic => trivial
  | cons part rest ih =>
    intro cr self con hc hs
    rw [walk_cons]
    have hg' := conGet_W (o := o) (key := decodeToken part) hs hc
    cases hg : conGet o self con (decodeToken part) with
    | panic => trivial
    | err e => exact hc
    | ok next =>
      rw [hg] at hg'
      simp only []
      split
      · exact hc
      · have he := enter_W (cr := cr) (key := decodeToken part) hg'
        cases hent : enter cr (decodeToken part) next with
        | panic => trivial
        | err e => exact hc
        | ok child =>
          rw [hent] at he
          exact wrapWalk_W hc (ih false .nil child he WN_nil)

/-- a root whose nodes hold well-formed raw messages only -/
def RootW (r : Root) : Prop := WN r.con = true ∧ WN r.self = true

theorem withPath_W {α} (o : Opts) (r : Root) (path : Bytes)
    (act : Node → Node → Bytes → Outcome (Node × α)) (Q : α → Prop) (hr : RootW r)
    (hact : ∀ self con key, WN con = true → WN self = true → ActW Q (act self con key)) :
    WalkW Q (withPath o r path act) := by
  unfold withPath
  split
  · exact hr.1
  · exact walk_W o _ Q (fun self con => hact self con _) _ _ _ _ hr.1 hr.2

def OutW : Outcome Root → Prop
  | .ok r => RootW r
  | _ => True

theorem liftWalk_W {Q : Unit → Prop} {r : Root} {w : Walk Unit} {k : Root → Outcome Root}
    (hr : RootW r) (hw : WalkW Q w) (hk : ∀ r', RootW r' → OutW (k r')) :
    OutW (liftWalk r w k) := by
  cases w with
  | done con a => exact ⟨hw.1, hr.2⟩
  | notFound con => exact hk _ ⟨hw, hr.2⟩
  | fail e => trivial
  | panic => trivial
  | doneSelf s a => exact ⟨hr.1, hw.1⟩
  | notFoundSelf s => exact hk _ ⟨hr.1, hw⟩

theorem liftAct_W {α} {Q : α → Prop} {x : Outcome Node} {a : α} : ConW x → Q a →
    ActW Q (match x with
      | .ok con' => (.ok (con', a) : Outcome (Node × α))
      | .err e => .err e
      | .panic => .panic) := by
  intro hx ha
  cases x with
  | ok c => exact ⟨hx, ha⟩
  | err e => trivial
  | panic => trivial

/-! ### what the marshaller writes -/

theorem WFC_litNull : WFC litNull = true := by decide

theorem lookupC_getD_mem {k : Bytes} {ms : List (Bytes × Cst)} {P : Cst → Prop} (h0 : P litNull)
    (h : ∀ c, lookupC k ms = some c → P c) : P ((lookupC k ms).getD litNull) := by
  cases hl : lookupC k ms with
  | none => exact h0
  | some c => exact h c hl

mutual
theorem WFC_cstOf (e : Bool) : ∀ n : Node, WN n = true → WFC (cstOf e n) = true
  | .nil, _ => WFC_litNull
  | .raw c, h => WFC_escape e c h
  | .doc keys obj, h => by
    simp only [WN] at h
    simp only [cstOf, WFC]
    rw [WFCM_iff]
    intro m hm
    obtain ⟨k, _, rfl⟩ := List.mem_map.1 hm
    refine ⟨(validBody_eq_true_iff _).2 (VB_quoteBody e k), ?_⟩
    exact lookupC_getD_mem (P := fun c => WFC c = true) WFC_litNull (fun c hc => WFC_cstOfM e obj h k c hc)
  | .ary ns, h => by
    simp only [WN] at h
    simp only [cstOf, WFC, WFCL_cstOfL e ns h]
  | .docNil, _ => WFC_litNull
  | .nilAry, _ => WFC_litNull
theorem WFC_cstOfM (e : Bool) : ∀ obj : NMembers, WNM obj = true →
    ∀ k c, lookupC k (cstOfM e obj) = some c → WFC c = true
  | [], _, k, c, hc => by simp [cstOfM, lookupC] at hc
  | (k', n) :: ms, h, k, c, hc => by
    simp only [WNM, Bool.and_eq_true] at h
    simp only [cstOfM, lookupC] at hc
    split at hc
    · simp only [Option.some.injEq] at hc; subst hc; exact WFC_cstOf e n h.1
    · exact WFC_cstOfM e ms h.2 k c hc
theorem WFCL_cstOfL (e : Bool) : ∀ ns : List Node, WNL ns = true → WFCL (cstOfL e ns) = true
  | [], _ => rfl
  | n :: ns, h => by
    simp only [WNL, Bool.and_eq_true] at h
    simp only [cstOfL, WFCL, WFC_cstOf e n h.1, WFCL_cstOfL e ns h.2, Bool.and_self]
end

theorem WN_deepCopy (e : Bool) {n : Node} (h : WN n = true) : WN (deepCopy e n).1 = true := by
  cases n with
  | nil => rfl
  | raw c => exact WFC_cstOf e _ h
  | doc keys obj => exact WFC_cstOf e _ h
  | ary ns => exact WFC_cstOf e _ h
  | docNil => exact WFC_cstOf e _ h
  | nilAry => exact WFC_cstOf e _ h

/-! ### the operations -/

/-- the value of an operation is a well-formed tree -/
def OpW (op : Op) : Prop := ∀ c, op.value = some c → WFC c = true

theorem WN_valueNode {op : Op} (h : OpW op) : WN (op.valueNode.getD .nil) = true := by
  unfold Op.valueNode
  cases hv : op.value with
  | none => rfl
  | some c => exact h c hv

theorem addWalk_W {o r path val} (hr : RootW r) (hv : WN val = true) :
    WalkW (fun _ => True) (addWalk o r path val) :=
  withPath_W o r path _ _ hr fun _ _ _ hc _ => liftAct_W (conAdd_W hc hv) trivial

theorem opAdd_W {o r op} (ho : o.ensure = false) (hr : RootW r) (hv : OpW op) : OutW (opAdd o r op) := by
  unfold opAdd
  split
  · cases hval : op.value with
    | none => trivial
    | some c =>
      simp only []
      have hd := decodeRoot_W (hv c hval)
      cases h : decodeRoot c with
      | ok con => rw [h] at hd; exact ⟨hd, hv c hval⟩
      | err e => trivial
      | panic => trivial
  · simp only [ho, Bool.false_eq_true, if_false]
    exact liftWalk_W hr (addWalk_W hr (WN_valueNode hv)) (fun _ _ => trivial)

theorem opRemove_W {o r op} (hr : RootW r) : OutW (opRemove o r op) := by
  unfold opRemove
  refine liftWalk_W (Q := fun _ => True) hr ?_ ?_
  · exact withPath_W o r _ _ _ hr fun _ _ _ hc _ => liftAct_W (conRemove_W hc) trivial
  · intro r' hr'
    split
    · exact hr'
    · trivial

theorem opReplace_W {o r op} (hr : RootW r) (hv : OpW op) : OutW (opReplace o r op) := by
  unfold opReplace
  split
  · cases hval : op.value with
    | none => trivial
    | some c =>
      simp only []
      have hw := hv c hval
      cases c with
      | obj ms => exact ⟨WN_decodeDoc (by simpa [WFC] using hw), WN_nil⟩
      | arr xs => exact ⟨WN_decodeAry (by simpa [WFC] using hw), WN_nil⟩
      | lit s =>
        simp only []
        split
        · exact ⟨rfl, WN_nil⟩
        · trivial
      | str s => trivial
  · simp only []
    refine liftWalk_W (Q := fun _ => True) hr ?_ (fun _ _ => trivial)
    refine withPath_W o r _ _ _ hr ?_
    intro self con key hc hs
    cases hg : conGet o self con key with
    | panic => trivial
    | err e => trivial
    | ok x => exact liftAct_W (conSet_W hc (WN_valueNode hv)) trivial

theorem opMove_W {o r op} (hr : RootW r) : OutW (opMove o r op) := by
  unfold opMove
  split
  · trivial
  · split
    · trivial
    · rename_i frm _ _
      simp only []
      generalize hwe : (withPath o r frm _) = w
      have hw : WalkW (fun v => WN v = true) w := by
        rw [← hwe]
        refine withPath_W o r _ _ _ hr ?_
        intro self con key hc hs
        have hg' := conGet_W (o := o) (key := key) hs hc
        cases hg : conGet o self con key with
        | panic => trivial
        | err e => trivial
        | ok x =>
          rw [hg] at hg'
          exact liftAct_W (conRemove_W hc) hg'
      have hcont : ∀ r1 val, RootW r1 → WN val = true → OutW (liftWalk r1 (addWalk o r1 op.path val)
          (fun _ => .err .missing)) := by
        intro r1 val h1 hv
        exact liftWalk_W h1 (addWalk_W h1 hv) (fun _ _ => trivial)
      clear hwe
      cases w with
      | panic => trivial
      | fail e => trivial
      | notFound c => trivial
      | notFoundSelf s => trivial
      | done con val => exact hcont _ _ ⟨hw.1, hr.2⟩ hw.2
      | doneSelf s val => exact hcont _ _ ⟨hr.1, hw.1⟩ hw.2

/-! ### `deepParse` (what a successful `test` leaves behind) -/

mutual
theorem WN_deepParseC : ∀ (c : Cst), WFC c = true → WN (deepParseC c) = true
  | .lit s, h => by simp only [deepParseC]; split; · rfl
                    · exact h
  | .str b, h => by simpa [deepParseC, WN] using h
  | .arr xs, h => by
    simp only [WFC] at h
    simp only [deepParseC]; rw [WN_ary]; exact WN_deepParseCL xs h
  | .obj ms, h => by
    simp only [WFC] at h
    simp only [deepParseC]; rw [WN_doc]
    exact WN_deepParseCM ms [] h (by simp)
theorem WN_deepParseCL : ∀ (xs : List Cst), WFCL xs = true → ∀ n ∈ deepParseCL xs, WN n = true
  | [], _ => by simp [deepParseCL]
  | x :: xs, h => by
    simp only [WFCL, Bool.and_eq_true] at h
    intro n hn
    simp only [deepParseCL, List.mem_cons] at hn
    rcases hn with hn | hn
    · rw [hn]; exact WN_deepParseC x h.1
    · exact WN_deepParseCL xs h.2 n hn
theorem WN_deepParseCM : ∀ (ms : List (Bytes × Cst)) (acc : NMembers), WFCM ms = true →
    (∀ p ∈ acc, WN p.2 = true) → ∀ p ∈ deepParseCM ms acc, WN p.2 = true
  | [], acc, _, h2 => by simpa [deepParseCM] using h2
  | (k, v) :: ms, acc, h, h2 => by
    simp only [WFCM, Bool.and_eq_true] at h
    simp only [deepParseCM]
    exact WN_deepParseCM ms _ h.2 (WNM_setN (WN_deepParseC v h.1.2) h2)
end

mutual
theorem WN_deepParse : ∀ (n : Node), WN n = true → WN (deepParse n) = true
  | .raw c, h => by
    simp only [deepParse]
    split
    · exact WN_deepParseC c h
    · exact h
  | .doc keys obj, h => by
    simp only [WN] at h
    simp only [deepParse, WN, WN_deepParseM obj h]
  | .ary ns, h => by
    simp only [WN] at h
    simp only [deepParse, WN, WN_deepParseL ns h]
  | .nil, _ => rfl
  | .docNil, _ => rfl
  | .nilAry, _ => rfl
theorem WN_deepParseM : ∀ (obj : NMembers), WNM obj = true → WNM (deepParseM obj) = true
  | [], _ => rfl
  | (k, n) :: ms, h => by
    simp only [WNM, Bool.and_eq_true] at h
    simp only [deepParseM, WNM, WN_deepParse n h.1, WN_deepParseM ms h.2, Bool.and_self]
theorem WN_deepParseL : ∀ (ns : List Node), WNL ns = true → WNL (deepParseL ns) = true
  | [], _ => rfl
  | n :: ns, h => by
    simp only [WNL, Bool.and_eq_true] at h
    simp only [deepParseL, WNL, WN_deepParse n h.1, WN_deepParseL ns h.2, Bool.and_self]
end

theorem equalTo_W {n : Node} {ov : Option Cst} (hn : WN n = true) : WN (equalTo n ov).2 = true := by
  cases ov with
  | none => simp [equalTo]; exact hn
  | some c =>
    simp only [equalTo]
    split
    · exact hn
    · split
      · exact WN_deepParse n hn
      · exact hn

theorem opTest_W {o r op} (hr : RootW r) : OutW (opTest o r op) := by
  unfold opTest
  split
  · have := equalTo_W (n := r.con) (ov := op.value) hr.1
    cases he : equalTo r.con op.value with
    | mk b con' =>
      rw [he] at this
      simp only []
      split
      · exact ⟨this, hr.2⟩
      · trivial
  · refine liftWalk_W (Q := fun _ => True) hr ?_ (fun _ _ => trivial)
    refine withPath_W o r _ _ _ hr ?_
    intro self con key hc hs
    simp only []
    have hg' := conGet_W (o := o) (key := key) hs hc
    cases hg : conGet o self con key with
    | panic => trivial
    | err e =>
      cases e <;> simp only [] <;> first
        | trivial
        | skip
      cases he : equalTo Node.nil op.value with
      | mk b val' =>
        simp only []
        split
        · exact ⟨hc, trivial⟩
        · trivial
    | ok val =>
      simp only []
      rw [hg] at hg'
      have := equalTo_W (n := val) (ov := op.value) hg'
      cases he : equalTo val op.value with
      | mk b val' =>
        rw [he] at this
        simp only []
        split
        · split
          · exact ⟨hc, trivial⟩
          · exact ⟨putChild_W hc this, trivial⟩
        · trivial

/-! ### copy -/

def OutW2 : Outcome (Root × Int) → Prop
  | .ok (r', _) => RootW r'
  | _ => True

theorem afterW_W {α} {Q : α → Prop} {r : Root} {w : Walk α} {r1 : Root} (hr : RootW r)
    (hw : WalkW Q w) (h : afterW r w = some r1) : RootW r1 := by
  cases w <;> simp only [afterW] at h <;> first | contradiction | cases h
  · exact ⟨hw.1, hr.2⟩
  · exact ⟨hr.1, hw.1⟩

theorem failOf_W {α} {w : Walk α} : OutW2 (failOf w) := by
  cases w <;> simp only [failOf] <;> trivial

theorem copySource_W {o r frm} (hr : RootW r) : WalkW (fun v => WN v = true) (copySource o r frm) := by
  refine withPath_W o r _ _ _ hr ?_
  intro self con key hc hs
  have hg' := conGet_W (o := o) (key := key) hs hc
  cases hg : conGet o self con key with
  | panic => trivial
  | err e => trivial
  | ok x => rw [hg] at hg'; exact ⟨hc, hg'⟩

theorem copyFirst_W {o r frm} (hr : RootW r) : WalkW (fun v => WN v = true) (copyFirst o r frm) := by
  unfold copyFirst
  split
  · split
    · trivial
    · exact ⟨hr.1, hr.1⟩
  · exact copySource_W hr

theorem destWalk_W {o r path} (hr : RootW r) : WalkW (fun _ => True) (destWalk o r path) :=
  withPath_W o r _ _ _ hr fun _ _ _ hc _ => ⟨hc, trivial⟩

theorem opCopy_W {o r acc op} (hr : RootW r) : OutW2 (opCopy o r acc op) := by
  rw [opCopy_eq]
  split
  · trivial
  · rename_i frm _
    have hw1 := copyFirst_W (o := o) (frm := frm) hr
    split
    · exact failOf_W
    · rename_i r1 h1
      have hr1 := afterW_W hr hw1 h1
      have hw2 := destWalk_W (o := o) (path := op.path) hr1
      split
      · exact failOf_W
      · rename_i r2 h2
        have hr2 := afterW_W hr1 hw2 h2
        split
        · trivial
        · trivial
        · rename_i val h3
          have hval : WN val = true := by
            unfold copySrc at h3
            split at h3
            · cases h3; exact hr2.1
            · have hw3 := copySource_W (o := o) (frm := frm) hr2
              split at h3 <;> first | contradiction | skip
              · rename_i h4; rw [h4] at hw3; cases h3; exact hw3.2
              · rename_i h4; rw [h4] at hw3; cases h3; exact hw3.2
          split
          · trivial
          · split
            · trivial
            · have hw4 := addWalk_W (o := o) (path := op.path) hr2 (WN_deepCopy o.esc hval)
              split
              · rename_i r3 h4
                exact afterW_W hr2 hw4 h4
              · exact failOf_W

theorem liftAcc_W2 {acc x} (h : OutW x) : OutW2 (liftAcc acc x) := by
  cases x with
  | ok r => exact h
  | err e => trivial
  | panic => trivial

theorem applyOp_W {o r acc op} (ho : o.ensure = false) (hr : RootW r) (hv : OpW op) :
    OutW2 (applyOp o r acc op) := by
  rw [applyOp_eq]
  split
  · exact liftAcc_W2 (opAdd_W ho hr hv)
  split
  · exact liftAcc_W2 (opRemove_W hr)
  split
  · exact liftAcc_W2 (opReplace_W hr hv)
  split
  · exact liftAcc_W2 (opMove_W hr)
  split
  · exact liftAcc_W2 (opTest_W hr)
  split
  · exact opCopy_W hr
  · trivial

/-- **the engine keeps every raw message well formed** -/
theorem applyOps_W (o : Opts) (ho : o.ensure = false) (ops : List Op) : ∀ (r : Root) (acc : Int), RootW r →
    (∀ op ∈ ops, OpW op) → OutW (applyOps o r acc ops) := by
  induction ops with
  | nil => intro r acc hr _; exact hr
  | cons op ops ih =>
    intro r acc hr hv
    rw [applyOps_cons]
    have h1 := applyOp_W (o := o) (acc := acc) ho hr (hv op List.mem_cons_self)
    cases h : applyOp o r acc op with
    | ok p =>
      obtain ⟨r', acc'⟩ := p
      rw [h] at h1
      exact ih r' acc' h1 (fun op' hm => hv op' (List.mem_cons_of_mem _ hm))
    | err e => trivial
    | panic => trivial

end Impl
end JP
