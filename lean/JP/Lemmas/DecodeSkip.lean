import JP.Lemmas.DecodeShape
import JP.Lemmas.TransduceSim
import JP.Codec.Decode
import JP.Lemmas.DecodeSplit

/-!
# `decodeState.skip` on a well-formed container

`skip` steps the scanner until the parse stack is shorter than it was at the call.  On the token
trace (`ftr`) of a well-formed value the stack is a function of the opcodes (`opStack`), and the
token list of a parse tree is balanced (`skipT_V`), so `skip` stops exactly at the closing bracket.
-/

namespace JP
namespace Scanner

/-- `skip` on a token list: the stack after the first token that makes it shorter than `depth`,
that token's opcode, and the tokens after it -/
def skipT (depth : Nat) : List Nat → List Tok → Option (List Nat × Nat × List Tok)
  | _, [] => none
  | S, (_, op) :: T =>
    if (opStack op S).length < depth then some (opStack op S, op, T) else skipT depth (opStack op S) T

theorem skipT_plain (depth : Nat) (S : List Nat) (c : UInt8) (op : Nat) (T : List Tok)
    (hd : depth ≤ S.length) (h : opStack op S = S) : skipT depth S ((c, op) :: T) = skipT depth S T := by
  simp only [skipT, h, Nat.not_lt.2 hd, if_false]

theorem skipT_cont (depth : Nat) (S : List Nat) (l : Bytes) (T : List Tok) (hd : depth ≤ S.length) :
    skipT depth S (cont l ++ T) = skipT depth S T := by
  induction l with
  | nil => rfl
  | cons c l ih => rw [cont_cons, List.cons_append, skipT_plain depth S c _ _ hd rfl, ih]

theorem skipT_lit (depth : Nat) (S : List Nat) (l : Bytes) (T : List Tok) (hd : depth ≤ S.length) :
    skipT depth S (litToks l ++ T) = skipT depth S T := by
  cases l with
  | nil => rfl
  | cons c l => rw [litToks, List.cons_append, skipT_plain depth S c _ _ hd rfl, skipT_cont depth S l T hd]

theorem skipT_str (depth : Nat) (S : List Nat) (b : Bytes) (T : List Tok) (hd : depth ≤ S.length) :
    skipT depth S (strToks b ++ T) = skipT depth S T := by
  rw [strToks, List.cons_append, skipT_plain depth S _ _ _ hd rfl, List.append_assoc,
    skipT_cont depth S b _ hd, List.singleton_append, skipT_plain depth S _ _ _ hd rfl]

/-- a closing bracket on a stack `p :: S` -/
def closeT (depth : Nat) (S : List Nat) (op : Nat) (T : List Tok) : Option (List Nat × Nat × List Tok) :=
  if S.length < depth then some (S, op, T) else skipT depth S T

theorem skipT_close (depth : Nat) (p : Nat) (S : List Nat) (c : UInt8) (op : Nat) (T : List Tok)
    (h : isClose op) : skipT depth (p :: S) ((c, op) :: T) = closeT depth S op T := by
  have : opStack op (p :: S) = S := by
    rcases h with rfl | rfl <;> rfl
  simp only [skipT, this, closeT]

mutual
theorem skipT_V : ∀ (c : Cst) (depth : Nat) (S : List Nat) (T : List Tok), depth ≤ S.length →
    skipT depth S (toksV c ++ T) = skipT depth S T
  | .lit s, depth, S, T, hd => by rw [toksV]; exact skipT_lit depth S s T hd
  | .str b, depth, S, T, hd => by rw [toksV]; exact skipT_str depth S b T hd
  | .arr xs, depth, S, T, hd => by
    rw [toksV, List.cons_append]
    have h1 : skipT depth S ((91, scanBeginArray) :: (toksE xs ++ T)) =
        skipT depth (parseArrayValue :: S) (toksE xs ++ T) := by
      simp only [skipT]
      have : opStack scanBeginArray S = parseArrayValue :: S := rfl
      rw [this, if_neg (by simp only [List.length_cons]; omega)]
    rw [h1, skipT_E xs depth parseArrayValue S T (by omega), closeT, if_neg (by omega)]
  | .obj ms, depth, S, T, hd => by
    rw [toksV, List.cons_append]
    have h1 : skipT depth S ((123, scanBeginObject) :: (toksM ms ++ T)) =
        skipT depth (parseObjectKey :: S) (toksM ms ++ T) := by
      simp only [skipT]
      have : opStack scanBeginObject S = parseObjectKey :: S := rfl
      rw [this, if_neg (by simp only [List.length_cons]; omega)]
    rw [h1, skipT_M ms depth parseObjectKey S T (by omega), closeT, if_neg (by omega)]
theorem skipT_E : ∀ (xs : List Cst) (depth p : Nat) (S : List Nat) (T : List Tok), depth ≤ S.length + 1 →
    skipT depth (p :: S) (toksE xs ++ T) = closeT depth S scanEndArray T
  | [], depth, p, S, T, _ => by
    rw [toksE, List.singleton_append]; exact skipT_close depth p S _ _ T (.inr rfl)
  | [x], depth, p, S, T, hd => by
    rw [toksE, List.append_assoc, skipT_V x depth (p :: S) _ (by simpa using hd), List.singleton_append]
    exact skipT_close depth p S _ _ T (.inr rfl)
  | x :: y :: xs, depth, p, S, T, hd => by
    rw [toksE, List.append_assoc, skipT_V x depth (p :: S) _ (by simpa using hd), List.cons_append,
      skipT_plain depth (p :: S) _ _ _ (by simpa using hd) rfl]
    exact skipT_E (y :: xs) depth p S T hd
theorem skipT_M : ∀ (ms : List (Bytes × Cst)) (depth p : Nat) (S : List Nat) (T : List Tok),
    depth ≤ S.length + 1 → skipT depth (p :: S) (toksM ms ++ T) = closeT depth S scanEndObject T
  | [], depth, p, S, T, _ => by
    rw [toksM, List.singleton_append]; exact skipT_close depth p S _ _ T (.inl rfl)
  | [(k, v)], depth, p, S, T, hd => by
    have hk : skipT depth (p :: S) ((58, scanObjectKey) :: (toksV v ++ [(125, scanEndObject)] ++ T)) =
        skipT depth (parseObjectValue :: S) (toksV v ++ [(125, scanEndObject)] ++ T) := by
      simp only [skipT]
      have : opStack scanObjectKey (p :: S) = parseObjectValue :: S := rfl
      rw [this, if_neg (by simp only [List.length_cons]; omega)]
    rw [toksM, List.append_assoc, skipT_str depth (p :: S) k _ (by simpa using hd), List.cons_append, hk,
      List.append_assoc, skipT_V v depth (parseObjectValue :: S) _ (by simpa using hd), List.singleton_append]
    exact skipT_close depth _ S _ _ T (.inl rfl)
  | (k, v) :: m :: ms, depth, p, S, T, hd => by
    have hk : ∀ T', skipT depth (p :: S) ((58, scanObjectKey) :: T') =
        skipT depth (parseObjectValue :: S) T' := by
      intro T'
      simp only [skipT]
      have : opStack scanObjectKey (p :: S) = parseObjectValue :: S := rfl
      rw [this, if_neg (by simp only [List.length_cons]; omega)]
    have hv : ∀ T', skipT depth (parseObjectValue :: S) ((44, scanObjectValue) :: T') =
        skipT depth (parseObjectKey :: S) T' := by
      intro T'
      simp only [skipT]
      have : opStack scanObjectValue (parseObjectValue :: S) = parseObjectKey :: S := rfl
      rw [this, if_neg (by simp only [List.length_cons]; omega)]
    rw [toksM, List.append_assoc, skipT_str depth (p :: S) k _ (by simpa using hd), List.cons_append, hk,
      List.append_assoc, skipT_V v depth (parseObjectValue :: S) _ (by simpa using hd), List.cons_append, hv]
    exact skipT_M (m :: ms) depth parseObjectKey S T hd
end

/-! ### from bytes to tokens -/

open Codec

/-- no step of the scan of `bs` from `s` returns `scanError` -/
def noErr : Scan → Bytes → Bool
  | _, [] => true
  | s, c :: cs => (step s c).2 ≠ scanError && noErr (step s c).1 cs

theorem ftr_append_noErr (a r : Bytes) : ∀ (s : Scan), noErr s a = true →
    ftr s (a ++ r) = ftr s a ++ ftr (runE s a) r := by
  induction a with
  | nil => intro s _; rfl
  | cons c a ih =>
    intro s h
    simp only [noErr, Bool.and_eq_true, decide_eq_true_eq] at h
    simp only [List.cons_append, ftr, runE, h.1, if_false]
    split
    · exact ih _ h.2
    · rw [ih _ h.2]; rfl

theorem ftr_append_err (a r : Bytes) : ∀ (s : Scan), noErr s a = false → ftr s (a ++ r) = ftr s a := by
  induction a with
  | nil => intro s h; simp [noErr] at h
  | cons c a ih =>
    intro s h
    simp only [List.cons_append, ftr]
    by_cases he : (step s c).2 = scanError
    · simp [he]
    · simp only [he, if_false]
      have h' : noErr (step s c).1 a = false := by
        simp only [noErr, Bool.and_eq_false_iff, decide_eq_false_iff_not, ne_eq, Decidable.not_not] at h
        rcases h with h | h
        · exact absurd h he
        · exact h
      rw [ih _ h']

/-- a trace equation that holds for every continuation, with a continuation that is seen, excludes errors -/
theorem noErr_of_eq (s s2 : Scan) (a : Bytes) (T : List Tok)
    (h : ∀ r, ftr s (a ++ r) = T ++ ftr s2 r) (r0 : Bytes) (h0 : ftr s2 r0 ≠ []) : noErr s a = true := by
  cases hn : noErr s a with
  | true => rfl
  | false =>
    exfalso
    have h1 := h []
    have h2 := h r0
    rw [ftr_append_err a _ s hn] at h1 h2
    rw [h1] at h2
    simp only [ftr_nil, List.append_nil] at h2
    have : ftr s2 r0 = [] := by
      have := congrArg List.length h2
      simp only [List.length_append] at this
      exact List.eq_nil_of_length_eq_zero (by omega)
    exact h0 this

theorem ftr_ne_nil (a0 : Bytes) (z : UInt8) (hz : isWs z = false) : ∀ (s : Scan), noErr s (a0 ++ [z]) = true →
    ftr s (a0 ++ [z]) ≠ [] := by
  induction a0 with
  | nil =>
    intro s h
    simp only [List.nil_append, noErr, Bool.and_true, decide_eq_true_eq] at h
    simp only [List.nil_append, ftr, h, if_false]
    split
    · rename_i hs
      have := step_skip_isWs s z hs
      rw [isSpace_eq_isWs, hz] at this; cases this
    · simp
  | cons c a0 ih =>
    intro s h
    simp only [List.cons_append, noErr, Bool.and_eq_true, decide_eq_true_eq] at h
    simp only [List.cons_append, ftr, h.1, if_false]
    split
    · exact ih _ h.2
    · simp

theorem live_afterClose (S : List Nat) (h : S ≠ []) : Live (afterClose S) := by
  cases S with
  | nil => exact absurd rfl h
  | cons p S => exact ⟨rfl, rfl⟩

/-- `skip` along a text whose token trace reaches the closing bracket of the frame it started in -/
theorem skipLoop_walk (depth : Nat) (hd1 : 1 ≤ depth) (rest : Bytes) (S' : List Nat) (op : Nat) (hop : isClose op) :
    ∀ (a0 : Bytes) (z : UInt8) (s : Scan) (i : Nat), isWs z = false → Live s → depth ≤ s.stack.length →
      noErr s (a0 ++ [z]) = true → (∀ t ∈ ftr s (a0 ++ [z]), t.2 < scanSkipSpace) →
      skipT depth s.stack (ftr s (a0 ++ [z])) = some (S', op, []) →
      skipLoop depth s i (a0 ++ [z] ++ rest) = some (afterClose S', i + (a0 ++ [z]).length, op) := by
  intro a0
  induction a0 with
  | nil =>
    intro z s i hz hl hd hn hops hT
    simp only [List.nil_append, noErr, Bool.and_true, decide_eq_true_eq] at hn
    have hns : (step s z).2 ≠ scanSkipSpace := by
      intro hs
      have := step_skip_isWs s z hs
      rw [isSpace_eq_isWs, hz] at this; cases this
    have hf : ftr s [z] = [(z, (step s z).2)] := by simp only [ftr, hn, hns, if_false]
    simp only [List.nil_append] at hops hT ⊢
    rw [hf] at hops hT
    have hlt := hops _ (List.mem_singleton.2 rfl)
    simp only at hlt
    have hne : (step s z).2 ≠ scanEnd := by intro h; rw [h] at hlt; exact absurd hlt (by decide)
    obtain ⟨h1, h2, h3, h4⟩ := step_shape s z hl hn hne
    simp only [skipT] at hT
    split at hT
    · rename_i hlen
      simp only [Option.some.injEq, Prod.mk.injEq, and_true] at hT
      obtain ⟨hS, hop'⟩ := hT
      simp only [List.singleton_append, skipLoop, h1, hlen, if_true, List.length_singleton]
      rw [h3 (hop' ▸ hop), hop']
      have : s.stack.tail = S' := by
        rw [← hS, hop']
        rcases hop with rfl | rfl <;> rfl
      rw [this]
    · simp [skipT] at hT
  | cons c a0 ih =>
    intro z s i hz hl hd hn hops hT
    simp only [List.cons_append, noErr, Bool.and_eq_true, decide_eq_true_eq] at hn
    by_cases hs : (step s c).2 = scanSkipSpace
    · -- white space
      have hne : (step s c).2 ≠ scanEnd := by rw [hs]; decide
      obtain ⟨h1, h2, h3, h4⟩ := step_shape s c hl hn.1 hne
      have hst : (step s c).1.stack = s.stack := by rw [h1, hs]; rfl
      have hl' : Live (step s c).1 := ⟨h4 (by rw [hs]; intro h; rcases h with h | h <;> cases h), h2⟩
      have hf : ftr s (c :: (a0 ++ [z])) = ftr (step s c).1 (a0 ++ [z]) :=
        ftr_skip (s' := (step s c).1) (Prod.ext rfl hs) _
      simp only [List.cons_append] at hops hT ⊢
      rw [hf] at hops hT
      rw [← hst] at hT hd
      have := ih z (step s c).1 (i + 1) hz hl' hd hn.2 hops hT
      simp only [skipLoop, Nat.not_lt.2 hd, if_false]
      rw [this]
      refine congrArg some (Prod.ext rfl (Prod.ext ?_ rfl))
      simp only [List.length_cons, List.length_append, List.length_nil]
      omega
    · have hf : ftr s (c :: (a0 ++ [z])) = (c, (step s c).2) :: ftr (step s c).1 (a0 ++ [z]) := by
        simp only [ftr, hn.1, hs, if_false]
      simp only [List.cons_append] at hops hT ⊢
      rw [hf] at hops hT
      have hlt := hops _ (List.mem_cons_self ..)
      simp only at hlt
      have hne : (step s c).2 ≠ scanEnd := by intro h; rw [h] at hlt; exact absurd hlt (by decide)
      obtain ⟨h1, h2, h3, h4⟩ := step_shape s c hl hn.1 hne
      simp only [skipT] at hT
      split at hT
      · -- would stop here, but more tokens follow
        exfalso
        simp only [Option.some.injEq, Prod.mk.injEq] at hT
        exact ftr_ne_nil a0 z hz _ hn.2 hT.2.2
      · rename_i hlen
        rw [← h1] at hT hlen
        have hne' : (step s c).1.stack ≠ [] := by
          intro h; rw [h] at hlen; simp only [List.length_nil] at hlen; omega
        have hl' : Live (step s c).1 := by
          by_cases hc : isClose (step s c).2
          · have := h3 hc
            rw [this]
            rw [this] at hne'
            apply live_afterClose
            intro h
            apply hne'
            rw [h]; rfl
          · exact ⟨h4 hc, h2⟩
        have := ih z (step s c).1 (i + 1) hz hl' (by omega) hn.2
          (fun t ht => hops t (List.mem_cons_of_mem _ ht)) hT
        simp only [skipLoop, hlen, if_false]
        rw [this]
        refine congrArg some (Prod.ext rfl (Prod.ext ?_ rfl))
        simp only [List.length_cons, List.length_append, List.length_nil]
        omega

/-! ### containers -/

theorem noErr_of_eq2 (s s2 : Scan) (a : Bytes) (T : List Tok) (r0 : Bytes)
    (h1 : ftr s (a ++ []) = T ++ ftr s2 []) (h2 : ftr s (a ++ r0) = T ++ ftr s2 r0)
    (h0 : ftr s2 r0 ≠ []) : noErr s a = true := by
  cases hn : noErr s a with
  | true => rfl
  | false =>
    exfalso
    rw [ftr_append_err a _ s hn] at h1 h2
    rw [h1] at h2
    simp only [ftr_nil, List.append_nil] at h2
    have : ftr s2 r0 = [] := by
      have := congrArg List.length h2
      simp only [List.length_append] at this
      exact List.eq_nil_of_length_eq_zero (by omega)
    exact h0 this

/-- the stacks at which a value can start: top level, after a `:`, inside an array -/
def ValueStk (stk : List Nat) : Prop := stk = [] ∨ ∃ p t, stk = p :: t ∧ (p = 1 ∨ p = 2)

theorem alive_ev (stk : List Nat) (h : ValueStk stk) : ∃ r0, DelimW r0 ∧ ftr (ev stk) r0 ≠ [] := by
  rcases h with rfl | ⟨p, t, rfl, rfl | rfl⟩
  · refine ⟨[32], .inl (by decide), ?_⟩
    rw [ftr_ev_nil_ws [32] (by intro b hb; simp only [List.mem_singleton] at hb; subst hb; decide)]
    simp
  · refine ⟨[125], .inr (.inr (.inr rfl)), ?_⟩
    rw [ftr_step (step_ev_val_rbrace t) (by decide) (by decide)]; simp
  · refine ⟨[93], .inr (.inr (.inl rfl)), ?_⟩
    rw [ftr_step (step_ev_arr_rbrack t) (by decide) (by decide)]; simp

mutual
theorem toksV_ops : ∀ (c : Cst), ∀ t ∈ toksV c, t.2 < scanSkipSpace
  | .lit s => by
    intro t ht
    cases s with
    | nil => simp [toksV, litToks] at ht
    | cons c l =>
      simp only [toksV, litToks, List.mem_cons, cont, List.mem_map] at ht
      rcases ht with rfl | ⟨_, _, rfl⟩ <;> exact (by decide : (0 : Nat) < 9 ∧ (1 : Nat) < 9).elim (fun a b => by first | exact b | exact a)
  | .str b => by
    intro t ht
    simp only [toksV, strToks, List.mem_cons, List.mem_append, cont, List.mem_map, List.mem_singleton,
      List.not_mem_nil, or_false] at ht
    rcases ht with rfl | ⟨_, _, rfl⟩ | rfl <;> exact (by decide : (0 : Nat) < 9 ∧ (1 : Nat) < 9).elim (fun a b => by first | exact b | exact a)
  | .arr xs => by
    intro t ht
    simp only [toksV, List.mem_cons] at ht
    rcases ht with rfl | ht
    · decide
    · exact toksE_ops xs t ht
  | .obj ms => by
    intro t ht
    simp only [toksV, List.mem_cons] at ht
    rcases ht with rfl | ht
    · decide
    · exact toksM_ops ms t ht
theorem toksE_ops : ∀ (xs : List Cst), ∀ t ∈ toksE xs, t.2 < scanSkipSpace
  | [] => by intro t ht; simp only [toksE, List.mem_singleton] at ht; subst ht; decide
  | [x] => by
    intro t ht
    simp only [toksE, List.mem_append, List.mem_singleton] at ht
    rcases ht with ht | rfl
    · exact toksV_ops x t ht
    · decide
  | x :: y :: xs => by
    intro t ht
    simp only [toksE, List.mem_append, List.mem_cons] at ht
    rcases ht with ht | rfl | ht
    · exact toksV_ops x t ht
    · decide
    · exact toksE_ops (y :: xs) t ht
theorem toksM_ops : ∀ (ms : List (Bytes × Cst)), ∀ t ∈ toksM ms, t.2 < scanSkipSpace
  | [] => by intro t ht; simp only [toksM, List.mem_singleton] at ht; subst ht; decide
  | [(k, v)] => by
    intro t ht
    simp only [toksM, List.mem_append, List.mem_cons, List.mem_singleton, List.not_mem_nil, or_false] at ht
    rcases ht with ht | rfl | ht | rfl
    · exact toksV_ops (.str k) t (by simpa [toksV] using ht)
    · decide
    · exact toksV_ops v t ht
    · decide
  | (k, v) :: m :: ms => by
    intro t ht
    simp only [toksM, List.mem_append, List.mem_cons] at ht
    rcases ht with ht | rfl | ht | rfl | ht
    · exact toksV_ops (.str k) t (by simpa [toksV] using ht)
    · decide
    · exact toksV_ops v t ht
    · decide
    · exact toksM_ops (m :: ms) t ht
end

theorem step_afterClose (stk : List Nat) (c : UInt8) : step (afterClose stk) c = step (ev stk) c := by
  cases stk with
  | nil => exact (step_ev_nil c).symm
  | cons p stk => rfl

/-- `skip` inside a well-formed container whose opening bracket has been read -/
theorem skip_container (stk : List Nat) (hvs : ValueStk stk) (b0 : UInt8) (inner : Bytes) (c : Cst)
    (T : List Tok) (s0 : Scan) (op0 p closeOp : Nat)
    (h0 : step (bv stk) b0 = (s0, op0)) (hop1 : op0 ≠ scanError) (hop2 : op0 ≠ scanSkipSpace)
    (hstack : s0.stack = p :: stk) (hlive : Live s0)
    (htoks : toksV c = (b0, op0) :: T)
    (hT : skipT (stk.length + 1) (p :: stk) T = some (stk, closeOp, [])) (hclose : isClose closeOp)
    (heq : ∀ rest', DelimW rest' → ftr (bv stk) (b0 :: inner ++ rest') = toksV c ++ ftr (ev stk) rest')
    (hend : EndsNonWs (b0 :: inner)) (i : Nat) (rest : Bytes) :
    skipLoop (stk.length + 1) s0 i (inner ++ rest) = some (afterClose stk, i + inner.length, closeOp) := by
  have hE : ∀ r, DelimW r → ftr s0 (inner ++ r) = T ++ ftr (ev stk) r := by
    intro r hr
    have := heq r hr
    rw [List.cons_append, ftr_step h0 hop1 hop2, htoks, List.cons_append] at this
    exact (List.cons.inj this).2
  obtain ⟨r0, hr0, halive⟩ := alive_ev stk hvs
  have hne : noErr s0 inner = true :=
    noErr_of_eq2 s0 (ev stk) inner T r0 (hE [] trivial) (hE r0 hr0) halive
  have hftr : ftr s0 inner = T := by
    have := hE [] trivial
    simpa using this
  have hTne : T ≠ [] := by intro h; rw [h] at hT; simp [skipT] at hT
  have hine : inner ≠ [] := by intro h; rw [h] at hftr; exact hTne hftr.symm
  obtain ⟨v0, z, hv, hz⟩ := hend
  have hin : ∃ a0, inner = a0 ++ [z] := by
    cases v0 with
    | nil =>
      simp only [List.nil_append, List.cons.injEq] at hv
      exact absurd hv.2 hine
    | cons e v0 =>
      simp only [List.cons_append, List.cons.injEq] at hv
      exact ⟨v0, hv.2⟩
  obtain ⟨a0, rfl⟩ := hin
  have hT' : skipT (stk.length + 1) s0.stack (ftr s0 (a0 ++ [z])) = some (stk, closeOp, []) := by
    rw [hftr, hstack]; exact hT
  have hops : ∀ t ∈ ftr s0 (a0 ++ [z]), t.2 < scanSkipSpace := by
    rw [hftr]
    intro t ht
    exact toksV_ops c t (by rw [htoks]; exact List.mem_cons_of_mem _ ht)
  exact skipLoop_walk (stk.length + 1) (by omega) rest stk closeOp hclose a0 z s0 i hz hlive
    (by rw [hstack]; simp) hne hops hT'

end Scanner
end JP
