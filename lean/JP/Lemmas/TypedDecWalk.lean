import JP.Lemmas.TypedDecTyped4
import JP.Lemmas.TypedPaths

set_option linter.unusedSimpArgs false

/-!
# The walk along `f.index` never leaves the struct: `atPath` panics only if the decoding of the member's value does
-/

namespace JP
namespace Codec
namespace TDec

open Scanner
open JP.Codec.Typed

theorem R.map_ne_panic {α β : Type} (f : α → β) (r : R α) (h : r ≠ .panic) : R.map f r ≠ .panic := by
  cases r <;> simp_all [R.map]

theorem typedF_get_some : ∀ (fts : List (FieldInfo × GoType)) (vs : List DV) (i : Nat) (p : FieldInfo × GoType),
    typedF fts vs = true → fts[i]? = some p → ∃ fv, vs[i]? = some fv
  | [], _, _, _, _, h => by simp at h
  | a :: r, [], _, _, h, _ => by simp [typedF] at h
  | (fi', ft') :: r, v :: vs, 0, p, _, _ => ⟨v, by simp⟩
  | (fi', ft') :: r, v :: vs, i + 1, p, h, h1 => by
    simp only [typedF, Bool.and_eq_true] at h
    simp at h1
    obtain ⟨fv, hfv⟩ := typedF_get_some r vs i p h.2 h1
    exact ⟨fv, by simpa using hfv⟩

theorem fieldStep_ne_panic (k : GoType → DV → Bool → DState → R DV) (i : Nat) (n : Bytes) (fts : List (FieldInfo × GoType))
    (sv : DV) (hsv : DV.typed (.struct n fts) sv = true) (isPtr : Bool) (d : DState) (fi : FieldInfo) (ft : GoType)
    (hf : fts[i]? = some (fi, ft))
    (hk : ∀ fv, DV.typed ft fv = true → k ft fv fi.exported d ≠ .panic) :
    fieldStep k i (.struct n fts) sv isPtr d ≠ .panic := by
  cases sv with
  | struct vs =>
    simp only [DV.typed] at hsv
    obtain ⟨fv, hfv⟩ := typedF_get_some fts vs i (fi, ft) hsv hf
    simp only [fieldStep, structFieldsOf, hf, dvFields, hfv]
    exact R.map_ne_panic _ _ (hk fv (typedF_get fts vs i fi ft fv hsv hf hfv))
  | _ => simp [DV.typed, GoType.nilable] at hsv

theorem atPath_ne_panic (leaf : GoType → DV → Bool → DState → R DV) (blocked : DState → R Unit)
    (hleaf : ∀ t cur cs d, DV.typed t cur = true → leaf t cur cs d ≠ .panic) (hblocked : ∀ d, blocked d ≠ .panic) :
    ∀ (is : List Nat) (t : GoType) (cur : DV) (cs : Bool) (d : DState), DV.typed t cur = true → pathOk t is = true →
      atPath leaf blocked is t cur cs d ≠ .panic
  | [], t, cur, cs, d, h, _ => hleaf t cur cs d h
  | i :: is, t, cur, cs, d, h, hp => by
    simp only [atPath]
    split
    · exact R.map_ne_panic _ _ (hblocked _)
    · have ih := atPath_ne_panic leaf blocked hleaf hblocked is
      simp only [pathOk] at hp
      cases hf : (structFieldsOf t.deref)[i]? with
      | none => simp [hf] at hp
      | some p =>
        obtain ⟨fi, ft⟩ := p
        simp only [hf] at hp
        cases t with
        | ptr e =>
          simp only [GoType.isPtr, GoType.deref, if_true] at hf ⊢
          have hsv : DV.typed e (ptrTarget e cur) = true := by
            cases cur <;> first | exact zero_typed e | (simpa [DV.typed, ptrTarget] using h)
          cases e with
          | struct n fts =>
            simp only [structFieldsOf] at hf
            exact fieldStep_ne_panic _ i n fts _ hsv true d fi ft hf (fun fv hfv => ih ft fv fi.exported d hfv hp)
          | _ => simp [structFieldsOf] at hf
        | struct n fts =>
          simp only [GoType.isPtr, GoType.deref, Bool.false_eq_true, if_false] at hf ⊢
          simp only [structFieldsOf] at hf
          exact fieldStep_ne_panic _ i n fts _ h false d fi ft hf (fun fv hfv => ih ft fv fi.exported d hfv hp)
        | _ => simp [GoType.deref, structFieldsOf] at hf

end TDec
end Codec
end JP
