import JP.Heap.LegacyModel
import JP.Lemmas.HeapPrim

/-!
# The representation predicate of the LEGACY heap model

`LRepr h n p fp`: in heap `h` the part reachable from `p` is a TREE that abstracts to the legacy
value-model node `n` (`JP.Legacy.Node`); `fp` lists its cells once each.  Defined by structural
recursion on the legacy node, and PROVED to be the v5 predicate `Repr` on the embedding
`emb : Legacy.Node → Impl.Node` (`rawNil ↦ nilAry`, `doc obj ↦ doc [] obj`), so that the frame /
write / allocation lemmas and the list lemmas (`focus`, `insert`, `erase`, `set`) of
`JP/Lemmas/HeapRepr.lean`, `HeapList.lean`, `HeapPrim.lean` are reused, not re-proved.
-/

namespace JP
namespace Heap
namespace Lg

open JP.Impl (Outcome listSet listInsert)
open JP.Legacy (Node NMembers)

mutual
/-- legacy nodes inside the v5 node type -/
def emb : Node → Impl.Node
  | .nil => .nil
  | .rawNil => .nilAry
  | .raw c => .raw c
  | .doc obj => .doc [] (embM obj)
  | .docNil => .docNil
  | .ary ns => .ary (embL ns)
def embM : NMembers → Impl.NMembers
  | [] => []
  | (k, n) :: ms => (k, emb n) :: embM ms
def embL : List Node → List Impl.Node
  | [] => []
  | n :: ns => emb n :: embL ns
end

mutual
def LRepr (h : Heap) : Node → Ptr → List Nat → Prop
  | .nil, p, fp => p = none ∧ fp = []
  | .rawNil, p, fp => ∃ a : Nat, p = some a ∧ h[a]? = some .nilAry ∧ fp = [a]
  | .raw c, p, fp => ∃ a : Nat, p = some a ∧ h[a]? = some (.raw c) ∧ fp = [a]
  | .doc ms, p, fp =>
    ∃ (a : Nat) (ps : PMembers) (f : List Nat), p = some a ∧ h[a]? = some (.doc [] ps) ∧ LReprM h ms ps f ∧ a ∉ f ∧ fp = a :: f
  | .docNil, p, fp => ∃ a : Nat, p = some a ∧ h[a]? = some .docNil ∧ fp = [a]
  | .ary ns, p, fp =>
    ∃ (a : Nat) (ps : List Ptr) (f : List Nat), p = some a ∧ h[a]? = some (.ary ps) ∧ LReprL h ns ps f ∧ a ∉ f ∧ fp = a :: f
def LReprL (h : Heap) : List Node → List Ptr → List Nat → Prop
  | [], ps, fp => ps = [] ∧ fp = []
  | n :: ns, ps, fp =>
    ∃ p ps' f1 f2, ps = p :: ps' ∧ LRepr h n p f1 ∧ LReprL h ns ps' f2 ∧ Disj f1 f2 ∧ fp = f1 ++ f2
def LReprM (h : Heap) : NMembers → PMembers → List Nat → Prop
  | [], ps, fp => ps = [] ∧ fp = []
  | (k, n) :: ms, ps, fp =>
    ∃ p ps' f1 f2, ps = (k, p) :: ps' ∧ LRepr h n p f1 ∧ LReprM h ms ps' f2 ∧ Disj f1 f2 ∧ fp = f1 ++ f2
end

/-! ### the legacy predicate IS the v5 predicate on the embedding -/

mutual
theorem LRepr_iff {h : Heap} : ∀ (n : Node) (p : Ptr) (fp : List Nat), LRepr h n p fp ↔ Repr h (emb n) p fp
  | .nil, p, fp => by simp only [LRepr, emb, Repr]
  | .rawNil, p, fp => by simp only [LRepr, emb, Repr]
  | .raw c, p, fp => by simp only [LRepr, emb, Repr]
  | .docNil, p, fp => by simp only [LRepr, emb, Repr]
  | .doc ms, p, fp => by simp only [LRepr, emb, Repr, LReprM_iff ms]
  | .ary ns, p, fp => by simp only [LRepr, emb, Repr, LReprL_iff ns]
theorem LReprL_iff {h : Heap} : ∀ (ns : List Node) (ps : List Ptr) (fp : List Nat),
    LReprL h ns ps fp ↔ ReprL h (embL ns) ps fp
  | [], ps, fp => by simp only [LReprL, embL, ReprL]
  | n :: ns, ps, fp => by simp only [LReprL, embL, ReprL, LRepr_iff n, LReprL_iff ns]
theorem LReprM_iff {h : Heap} : ∀ (ms : NMembers) (ps : PMembers) (fp : List Nat),
    LReprM h ms ps fp ↔ ReprM h (embM ms) ps fp
  | [], ps, fp => by simp only [LReprM, embM, ReprM]
  | (k, n) :: ms, ps, fp => by simp only [LReprM, embM, ReprM, LRepr_iff n, LReprM_iff ms]
end

theorem LRepr.to {h : Heap} {n p fp} (r : LRepr h n p fp) : Repr h (emb n) p fp := (LRepr_iff n p fp).mp r
theorem LRepr.of {h : Heap} {n p fp} (r : Repr h (emb n) p fp) : LRepr h n p fp := (LRepr_iff n p fp).mpr r
theorem LReprL.to {h : Heap} {ns ps fp} (r : LReprL h ns ps fp) : ReprL h (embL ns) ps fp := (LReprL_iff ns ps fp).mp r
theorem LReprL.of {h : Heap} {ns ps fp} (r : ReprL h (embL ns) ps fp) : LReprL h ns ps fp := (LReprL_iff ns ps fp).mpr r
theorem LReprM.to {h : Heap} {ms ps fp} (r : LReprM h ms ps fp) : ReprM h (embM ms) ps fp := (LReprM_iff ms ps fp).mp r
theorem LReprM.of {h : Heap} {ms ps fp} (r : ReprM h (embM ms) ps fp) : LReprM h ms ps fp := (LReprM_iff ms ps fp).mpr r

/-! ### `emb` commutes with the container primitives -/

theorem embL_eq_map : ∀ (ns : List Node), embL ns = ns.map emb
  | [] => rfl
  | n :: ns => by simp only [embL, List.map_cons, embL_eq_map ns]

theorem embL_length (ns : List Node) : (embL ns).length = ns.length := by
  rw [embL_eq_map, List.length_map]

theorem embL_get (ns : List Node) (i : Nat) : (embL ns)[i]? = (ns[i]?).map emb := by
  rw [embL_eq_map, List.getElem?_map]

theorem embL_listSet : ∀ (ns : List Node) (i : Nat) (n : Node), embL (listSet i n ns) = listSet i (emb n) (embL ns)
  | [], i, _ => by cases i <;> rfl
  | _ :: _, 0, _ => rfl
  | x :: xs, i + 1, n => by simp only [listSet, embL, embL_listSet xs i n]

theorem embL_listInsert : ∀ (ns : List Node) (i : Nat) (n : Node),
    embL (listInsert i n ns) = listInsert i (emb n) (embL ns)
  | _, 0, _ => rfl
  | [], _ + 1, _ => rfl
  | x :: xs, i + 1, n => by simp only [listInsert, embL, embL_listInsert xs i n]

theorem embL_append (xs ys : List Node) : embL (xs ++ ys) = embL xs ++ embL ys := by
  simp only [embL_eq_map, List.map_append]

theorem embL_eraseIdx : ∀ (ns : List Node) (i : Nat), embL (ns.eraseIdx i) = (embL ns).eraseIdx i
  | [], _ => rfl
  | _ :: _, 0 => rfl
  | x :: xs, i + 1 => by simp only [List.eraseIdx_cons_succ, embL, embL_eraseIdx xs i]

theorem embM_lookup : ∀ (ms : NMembers) (k : Bytes), Impl.lookupN k (embM ms) = (Legacy.lookupN k ms).map emb
  | [], _ => rfl
  | (k0, n0) :: ms, k => by
    simp only [embM, Impl.lookupN, Legacy.lookupN]
    by_cases e : k0 = k
    · simp only [e, if_true, Option.map_some]
    · simp only [e, if_false]; exact embM_lookup ms k

theorem embM_setN : ∀ (ms : NMembers) (k : Bytes) (n : Node),
    embM (Legacy.setN k n ms) = Impl.setN k (emb n) (embM ms)
  | [], _, _ => rfl
  | (k0, n0) :: ms, k, n => by
    simp only [embM, Impl.setN, Legacy.setN]
    by_cases e : k0 = k
    · simp only [e, if_true, embM]
    · simp only [e, if_false, embM, embM_setN ms k n]

theorem embM_eraseN : ∀ (ms : NMembers) (k : Bytes), embM (Legacy.eraseN k ms) = Impl.eraseN k (embM ms)
  | [], _ => rfl
  | (k0, n0) :: ms, k => by
    simp only [embM, Impl.eraseN, Legacy.eraseN]
    by_cases e : k0 = k
    · simp only [e, if_true]
    · simp only [e, if_false, embM, embM_eraseN ms k]

theorem emb_childOf (c : Cst) : emb (Legacy.childOf c) = Impl.childOf c := by
  unfold Legacy.childOf Impl.childOf
  by_cases hc : c.isNullLit = true
  · simp only [hc, if_true, emb]
  · simp only [hc, emb]; rfl

theorem embL_map_childOf (xs : List Cst) : embL (xs.map Legacy.childOf) = xs.map Impl.childOf := by
  rw [embL_eq_map, List.map_map]
  apply List.map_congr_left
  intro c _
  exact emb_childOf c

theorem embM_decodeMembers : ∀ (ms : List (Bytes × Cst)) (acc : NMembers),
    embM (Legacy.decodeMembers ms acc) = Impl.decodeMembers ms (embM acc)
  | [], _ => rfl
  | (k, v) :: ms, acc => by
    simp only [Legacy.decodeMembers, Impl.decodeMembers]
    rw [embM_decodeMembers ms, embM_setN, emb_childOf]

/-! ### constructors -/

theorem LRepr.mk_nil (h : Heap) : LRepr h .nil none [] := by simp [LRepr]

theorem LRepr.mk_raw {h : Heap} {a : Nat} {c : Cst} (ha : h[a]? = some (.raw c)) :
    LRepr h (.raw c) (some a) [a] := by simp only [LRepr]; exact ⟨a, rfl, ha, rfl⟩

theorem LRepr.mk_rawNil {h : Heap} {a : Nat} (ha : h[a]? = some .nilAry) :
    LRepr h .rawNil (some a) [a] := by simp only [LRepr]; exact ⟨a, rfl, ha, rfl⟩

theorem LRepr.mk_docNil {h : Heap} {a : Nat} (ha : h[a]? = some .docNil) :
    LRepr h .docNil (some a) [a] := by simp only [LRepr]; exact ⟨a, rfl, ha, rfl⟩

theorem LRepr.mk_doc {h : Heap} {a : Nat} {ms ps f} (ha : h[a]? = some (.doc [] ps))
    (hm : LReprM h ms ps f) (hn : a ∉ f) : LRepr h (.doc ms) (some a) (a :: f) := by
  simp only [LRepr]; exact ⟨a, ps, f, rfl, ha, hm, hn, rfl⟩

theorem LRepr.mk_ary {h : Heap} {a : Nat} {ns ps f} (ha : h[a]? = some (.ary ps))
    (hm : LReprL h ns ps f) (hn : a ∉ f) : LRepr h (.ary ns) (some a) (a :: f) := by
  simp only [LRepr]; exact ⟨a, ps, f, rfl, ha, hm, hn, rfl⟩

theorem LReprL.mk_nil (h : Heap) : LReprL h [] [] [] := by simp [LReprL]

theorem LReprL.mk_cons {h : Heap} {n ns p ps f1 f2} (h1 : LRepr h n p f1) (h2 : LReprL h ns ps f2)
    (d : Disj f1 f2) : LReprL h (n :: ns) (p :: ps) (f1 ++ f2) := by
  simp only [LReprL]; exact ⟨p, ps, f1, f2, rfl, h1, h2, d, rfl⟩

theorem LReprM.mk_nil (h : Heap) : LReprM h [] [] [] := by simp [LReprM]

theorem LReprM.mk_cons {h : Heap} {k n ms p ps f1 f2} (h1 : LRepr h n p f1) (h2 : LReprM h ms ps f2)
    (d : Disj f1 f2) : LReprM h ((k, n) :: ms) ((k, p) :: ps) (f1 ++ f2) := by
  simp only [LReprM]; exact ⟨p, ps, f1, f2, rfl, h1, h2, d, rfl⟩

/-! ### frame, validity, allocation, write: transported from `Repr` -/

theorem LRepr.frame {h h' : Heap} {n p fp} (r : LRepr h n p fp) (hf : ∀ x ∈ fp, h'[x]? = h[x]?) :
    LRepr h' n p fp := LRepr.of (Repr.frame _ r.to hf)

theorem LRepr.valid {h : Heap} {n p fp} (r : LRepr h n p fp) : ∀ x ∈ fp, x < h.length := Repr.valid _ r.to
theorem LReprL.valid {h : Heap} {ns ps fp} (r : LReprL h ns ps fp) : ∀ x ∈ fp, x < h.length := ReprL.valid _ r.to
theorem LReprM.valid {h : Heap} {ms ps fp} (r : LReprM h ms ps fp) : ∀ x ∈ fp, x < h.length := ReprM.valid _ r.to

theorem LRepr.nodup {h : Heap} {n p fp} (r : LRepr h n p fp) : fp.Nodup := Repr.nodup _ r.to

theorem LRepr.alloc {h : Heap} {n p fp} (r : LRepr h n p fp) (ext : List Cell) : LRepr (h ++ ext) n p fp :=
  LRepr.of (Repr.alloc r.to ext)
theorem LReprL.alloc {h : Heap} {ns ps fp} (r : LReprL h ns ps fp) (ext : List Cell) : LReprL (h ++ ext) ns ps fp :=
  LReprL.of (ReprL.alloc r.to ext)
theorem LReprM.alloc {h : Heap} {ms ps fp} (r : LReprM h ms ps fp) (ext : List Cell) : LReprM (h ++ ext) ms ps fp :=
  LReprM.of (ReprM.alloc r.to ext)

theorem LRepr.write {h : Heap} {n p fp} (r : LRepr h n p fp) {a : Nat} (c : Cell) (ha : a ∉ fp) :
    LRepr (h.set a c) n p fp := LRepr.of (Repr.write r.to c ha)
theorem LReprL.write {h : Heap} {ns ps fp} (r : LReprL h ns ps fp) {a : Nat} (c : Cell) (ha : a ∉ fp) :
    LReprL (h.set a c) ns ps fp := LReprL.of (ReprL.write r.to c ha)
theorem LReprM.write {h : Heap} {ms ps fp} (r : LReprM h ms ps fp) {a : Nat} (c : Cell) (ha : a ∉ fp) :
    LReprM (h.set a c) ms ps fp := LReprM.of (ReprM.write r.to c ha)

theorem LRepr.ext {h h' : Heap} {f f' g : List Nat} {n p} (r : LRepr h n p g) (e : Ext h h' f f')
    (d : Disj g f) : LRepr h' n p g := LRepr.of (Repr.ext r.to e d)

theorem LReprL.ext {h h' : Heap} {f f' g : List Nat} {ns ps} (r : LReprL h ns ps g) (e : Ext h h' f f')
    (d : Disj g f) : LReprL h' ns ps g := LReprL.of (ReprL.ext r.to e d)

theorem LReprM.ext {h h' : Heap} {f f' g : List Nat} {ms ps} (r : LReprM h ms ps g) (e : Ext h h' f f')
    (d : Disj g f) : LReprM h' ms ps g := LReprM.of (ReprM.ext r.to e d)

theorem LRepr.none_iff {h : Heap} {n fp} (r : LRepr h n none fp) : n = .nil ∧ fp = [] := by
  have := Repr.none_iff r.to
  cases n <;> simp only [emb] at this
  · exact ⟨rfl, this.2⟩
  all_goals (exact absurd this.1 (by simp))

theorem LRepr.head_mem {h : Heap} {n a fp} (r : LRepr h n (some a) fp) : a ∈ fp := Repr.head_mem r.to

/-! ### lists and maps of children: transported from `ReprL` / `ReprM` -/

theorem LReprL.length_eq {h : Heap} {ns : List Node} {ps fp} (r : LReprL h ns ps fp) : ps.length = ns.length := by
  rw [ReprL.length_eq _ r.to, embL_length]

theorem LReprL.focus {h : Heap} (ns : List Node) {ps fp} (i : Nat) {n} (r : LReprL h ns ps fp)
    (hi : ns[i]? = some n) :
    ∃ p f rest, ps[i]? = some p ∧ LRepr h n p f ∧ Disj f rest ∧ (∀ x ∈ f, x ∈ fp) ∧ (∀ x ∈ rest, x ∈ fp) ∧
      ∀ (h' : Heap) (n' : Node) (p' : Ptr) (f' : List Nat), LRepr h' n' p' f' →
        (∀ x ∈ rest, h'[x]? = h[x]?) → Disj f' rest →
        ∃ fp', LReprL h' (listSet i n' ns) (listSet i p' ps) fp' ∧ ∀ x ∈ fp', x ∈ f' ∨ x ∈ rest := by
  obtain ⟨p, f, rest, hp, hr, d, sf, sr, wand⟩ :=
    ReprL.focus (embL ns) i r.to (by rw [embL_get, hi]; rfl)
  refine ⟨p, f, rest, hp, LRepr.of hr, d, sf, sr, fun h' n' p' f' r' fr d' => ?_⟩
  obtain ⟨fp', hl, sub⟩ := wand h' (emb n') p' f' r'.to fr d'
  rw [← embL_listSet] at hl
  exact ⟨fp', LReprL.of hl, sub⟩

theorem LReprL.get_none {h : Heap} {ns : List Node} {ps fp} (i : Nat) (r : LReprL h ns ps fp)
    (hi : ns[i]? = none) : ps[i]? = none := by
  rw [List.getElem?_eq_none_iff] at hi ⊢
  rw [LReprL.length_eq r]; exact hi

theorem LReprL.insert {h : Heap} (ns : List Node) {ps fp} (i : Nat) {n' p' f'} (r : LReprL h ns ps fp)
    (r' : LRepr h n' p' f') (d : Disj f' fp) :
    ∃ fp', LReprL h (listInsert i n' ns) (listInsert i p' ps) fp' ∧ ∀ x ∈ fp', x ∈ f' ∨ x ∈ fp := by
  obtain ⟨fp', hl, sub⟩ := ReprL.insert (embL ns) i r.to r'.to d
  rw [← embL_listInsert] at hl
  exact ⟨fp', LReprL.of hl, sub⟩

theorem LReprL.snoc {h : Heap} {ns : List Node} {ps fp n' p' f'} (r : LReprL h ns ps fp)
    (r' : LRepr h n' p' f') (d : Disj f' fp) :
    ∃ fp', LReprL h (ns ++ [n']) (ps ++ [p']) fp' ∧ ∀ x ∈ fp', x ∈ f' ∨ x ∈ fp := by
  obtain ⟨fp', hl, sub⟩ := ReprL.snoc r.to r'.to d
  have e : embL ns ++ [emb n'] = embL (ns ++ [n']) := by rw [embL_append]; rfl
  rw [e] at hl
  exact ⟨fp', LReprL.of hl, sub⟩

theorem LReprL.erase {h : Heap} (ns : List Node) {ps fp} (i : Nat) {n} (r : LReprL h ns ps fp)
    (hi : ns[i]? = some n) :
    ∃ p f rest, ps[i]? = some p ∧ LRepr h n p f ∧ LReprL h (ns.eraseIdx i) (ps.eraseIdx i) rest ∧
      Disj f rest ∧ (∀ x ∈ f, x ∈ fp) ∧ (∀ x ∈ rest, x ∈ fp) := by
  obtain ⟨p, f, rest, hp, hr, hl, d, sf, sr⟩ :=
    ReprL.erase (embL ns) i r.to (by rw [embL_get, hi]; rfl)
  rw [← embL_eraseIdx] at hl
  exact ⟨p, f, rest, hp, LRepr.of hr, LReprL.of hl, d, sf, sr⟩

theorem LReprM.lookup_none {h : Heap} (ms : NMembers) {ps fp} (k : Bytes) (r : LReprM h ms ps fp)
    (hk : Legacy.lookupN k ms = none) : lookupP k ps = none :=
  ReprM.lookup_none (embM ms) k r.to (by rw [embM_lookup, hk]; rfl)

theorem LReprM.focus {h : Heap} (ms : NMembers) {ps fp} (k : Bytes) {n} (r : LReprM h ms ps fp)
    (hk : Legacy.lookupN k ms = some n) :
    ∃ p f rest, lookupP k ps = some p ∧ LRepr h n p f ∧ Disj f rest ∧ (∀ x ∈ f, x ∈ fp) ∧ (∀ x ∈ rest, x ∈ fp) ∧
      ∀ (h' : Heap) (n' : Node) (p' : Ptr) (f' : List Nat), LRepr h' n' p' f' →
        (∀ x ∈ rest, h'[x]? = h[x]?) → Disj f' rest →
        ∃ fp', LReprM h' (Legacy.setN k n' ms) (setP k p' ps) fp' ∧ ∀ x ∈ fp', x ∈ f' ∨ x ∈ rest := by
  obtain ⟨p, f, rest, hp, hr, d, sf, sr, wand⟩ :=
    ReprM.focus (embM ms) k r.to (by rw [embM_lookup, hk]; rfl)
  refine ⟨p, f, rest, hp, LRepr.of hr, d, sf, sr, fun h' n' p' f' r' fr d' => ?_⟩
  obtain ⟨fp', hl, sub⟩ := wand h' (emb n') p' f' r'.to fr d'
  rw [← embM_setN] at hl
  exact ⟨fp', LReprM.of hl, sub⟩

theorem LReprM.set {h : Heap} (ms : NMembers) {ps fp} (k : Bytes) {n' p' f'} (r : LReprM h ms ps fp)
    (r' : LRepr h n' p' f') (d : Disj f' fp) :
    ∃ fp', LReprM h (Legacy.setN k n' ms) (setP k p' ps) fp' ∧ ∀ x ∈ fp', x ∈ f' ∨ x ∈ fp := by
  obtain ⟨fp', hl, sub⟩ := ReprM.set (embM ms) k r.to r'.to d
  rw [← embM_setN] at hl
  exact ⟨fp', LReprM.of hl, sub⟩

theorem LReprM.erase {h : Heap} (ms : NMembers) {ps fp} (k : Bytes) {n} (r : LReprM h ms ps fp)
    (hk : Legacy.lookupN k ms = some n) :
    ∃ p f rest, lookupP k ps = some p ∧ LRepr h n p f ∧ LReprM h (Legacy.eraseN k ms) (eraseP k ps) rest ∧
      Disj f rest ∧ (∀ x ∈ f, x ∈ fp) ∧ (∀ x ∈ rest, x ∈ fp) := by
  obtain ⟨p, f, rest, hp, hr, hl, d, sf, sr⟩ :=
    ReprM.erase (embM ms) k r.to (by rw [embM_lookup, hk]; rfl)
  rw [← embM_eraseN] at hl
  exact ⟨p, f, rest, hp, LRepr.of hr, LReprM.of hl, d, sf, sr⟩

/-! ### allocation of decoded children -/

theorem newChildren_spec (xs : List Cst) (h : Heap) :
    ∃ ext f, (newChildren h xs).1 = h ++ ext ∧
      LReprL (newChildren h xs).1 (xs.map Legacy.childOf) (newChildren h xs).2 f ∧ ∀ x ∈ f, h.length ≤ x := by
  obtain ⟨ext, f, he, r, fr⟩ := Heap.newChildren_spec xs h
  rw [← embL_map_childOf] at r
  exact ⟨ext, f, he, LReprL.of r, fr⟩

theorem newMembers_spec (ms : List (Bytes × Cst)) (h : Heap) :
    ∃ ext f, (newMembers h ms []).1 = h ++ ext ∧
      LReprM (newMembers h ms []).1 (Legacy.decodeMembers ms []) (newMembers h ms []).2 f ∧
      ∀ x ∈ f, h.length ≤ x := by
  obtain ⟨ext, f, he, r, fr⟩ := Heap.newMembers_spec ms h [] [] [] (ReprM.mk_nil h)
  have e : Impl.decodeMembers ms [] = embM (Legacy.decodeMembers ms []) := by
    rw [embM_decodeMembers]; rfl
  rw [e] at r
  refine ⟨ext, f, he, LReprM.of r, fun x hx => ?_⟩
  rcases fr x hx with h1 | h1
  · cases h1
  · exact h1

end Lg
end Heap
end JP
