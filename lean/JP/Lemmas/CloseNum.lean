import JP.Lemmas.TextParse
import JP.Lemmas.TextBody

/-!
# Closing the text hypotheses, part 1: what the reference parser reads is well formed

* `parseStrBody_sound_A` – the body `parseStrBody` returns is a valid body (`VB`);
* `parseNumber_sound`  – the literal `parseNumber` returns is a complete number.
-/

namespace JP

/-! ### string bodies -/

theorem parseStrBody_sound_A (x : Bytes) : ∀ (b r : Bytes), parseStrBody x = some (b, r) → VB b := by
  fun_induction parseStrBody x <;> intro b r h
  all_goals try (simp at h; done)
  · simp only [Option.some.injEq, Prod.mk.injEq] at h
    obtain ⟨rfl, rfl⟩ := h
    exact VB_nil
  · rename_i e cs he _ ih
    cases hp : parseStrBody cs with
    | none => rw [hp] at h; simp at h
    | some q =>
      obtain ⟨b', r'⟩ := q
      rw [hp] at h
      simp only [Option.map_some, Option.some.injEq, Prod.mk.injEq] at h
      obtain ⟨rfl, rfl⟩ := h
      exact (VB_simple_iff e b' he).2 (ih b' r' hp)
  · rename_i h1 h2 h3 h4 cs hh _ _ ih
    cases hp : parseStrBody cs with
    | none => rw [hp] at h; simp at h
    | some q =>
      obtain ⟨b', r'⟩ := q
      rw [hp] at h
      simp only [Option.map_some, Option.some.injEq, Prod.mk.injEq] at h
      obtain ⟨rfl, rfl⟩ := h
      simp only [Bool.and_eq_true] at hh
      exact (VB_u_iff h1 h2 h3 h4 b').2 ⟨⟨hh.1.1.1, hh.1.1.2, hh.1.2, hh.2⟩, ih b' r' hp⟩
  · rename_i c cs hc1 hc2 hc3 ih
    cases hp : parseStrBody cs with
    | none => rw [hp] at h; simp at h
    | some q =>
      obtain ⟨b', r'⟩ := q
      rw [hp] at h
      simp only [Option.map_some, Option.some.injEq, Prod.mk.injEq] at h
      obtain ⟨rfl, rfl⟩ := h
      exact (VB_plain_iff c b' hc2).2 ⟨hc1, by omega, ih b' r' hp⟩

/-! ### numbers -/

/-- the continuation does not start with a digit -/
def noDigitHead : Bytes → Prop
  | [] => True
  | c :: _ => isDigit c = false

theorem takeDigits_split_A : ∀ (x d r : Bytes), takeDigits x = (d, r) →
    (∀ c ∈ d, isDigit c = true) ∧ noDigitHead r
  | [], d, r, h => by
    simp only [takeDigits, Prod.mk.injEq] at h
    obtain ⟨rfl, rfl⟩ := h
    exact ⟨by simp, trivial⟩
  | c :: cs, d, r, h => by
    simp only [takeDigits] at h
    by_cases hc : isDigit c = true
    · simp only [hc, if_true] at h
      cases h' : takeDigits cs with
      | mk d' r' =>
        rw [h'] at h
        simp only [Prod.mk.injEq] at h
        obtain ⟨rfl, rfl⟩ := h
        have ih := takeDigits_split_A cs d' r' h'
        refine ⟨?_, ih.2⟩
        intro a ha
        simp only [List.mem_cons] at ha
        rcases ha with rfl | ha
        · exact hc
        · exact ih.1 a ha
    · simp only [hc, Bool.false_eq_true, if_false, Prod.mk.injEq] at h
      obtain ⟨rfl, rfl⟩ := h
      exact ⟨by simp, by simpa [noDigitHead] using hc⟩

theorem takeDigits_all_A : ∀ (d rest : Bytes), (∀ c ∈ d, isDigit c = true) → noDigitHead rest →
    takeDigits (d ++ rest) = (d, rest)
  | [], rest, _, hr => by
    cases rest with
    | nil => rfl
    | cons c cs => simp only [noDigitHead] at hr; simp [takeDigits, hr]
  | c :: cs, rest, hd, hr => by
    have hc : isDigit c = true := hd c (by simp)
    have ih := takeDigits_all_A cs rest (fun a ha => hd a (by simp [ha])) hr
    simp only [List.cons_append, takeDigits, hc, if_true, ih]

theorem isDigit_ne (c : UInt8) (h : isDigit c = true) :
    c ≠ 45 ∧ c ≠ 46 ∧ c ≠ 101 ∧ c ≠ 69 ∧ c ≠ 43 := by
  refine ⟨?_, ?_, ?_, ?_, ?_⟩ <;> (intro hc; subst hc; revert h; decide)

theorem numInt_trunc (x p r : Bytes) (h : numInt x = some (p, r)) :
    (∃ c p', p = c :: p' ∧ isDigit c = true) ∧
    ∀ rest, noDigitHead rest → numInt (p ++ rest) = some (p, rest) := by
  unfold numInt at h
  split at h
  · simp only [Option.some.injEq, Prod.mk.injEq] at h
    obtain ⟨rfl, rfl⟩ := h
    exact ⟨⟨48, [], rfl, by decide⟩, fun rest _ => by simp [numInt]⟩
  · rename_i c r' hne
    split at h
    · rename_i hc
      cases h' : takeDigits r' with
      | mk d' r'' =>
        rw [h'] at h
        simp only [Option.some.injEq, Prod.mk.injEq] at h
        obtain ⟨rfl, rfl⟩ := h
        have hs := takeDigits_split_A r' d' r'' h'
        refine ⟨⟨c, d', rfl, hc⟩, ?_⟩
        intro rest hrest
        have ih := takeDigits_all_A d' rest hs.1 hrest
        simp only [List.cons_append]
        unfold numInt
        split
        · rename_i heq
          simp only [List.cons.injEq] at heq
          exact absurd heq.1 hne
        · rename_i heq
          simp only [List.cons.injEq] at heq
          obtain ⟨rfl, rfl⟩ := heq
          simp [hc, ih]
        · rename_i heq; simp at heq
    · simp at h
  · simp at h

theorem numFrac_trunc (x p r : Bytes) (h : numFrac x = some (p, r)) :
    (p = [] ∨ ∃ p', p = 46 :: p') ∧
    ∀ rest, noDigitHead rest → (p = [] → ∀ t, rest ≠ 46 :: t) → numFrac (p ++ rest) = some (p, rest) := by
  unfold numFrac at h
  split at h
  · rename_i t
    cases h' : takeDigits t with
    | mk d r' =>
      rw [h'] at h
      simp only at h
      split at h
      · simp at h
      · rename_i hd
        simp only [Option.some.injEq, Prod.mk.injEq] at h
        obtain ⟨rfl, rfl⟩ := h
        have hs := takeDigits_split_A t d r' h'
        refine ⟨Or.inr ⟨d, rfl⟩, ?_⟩
        intro rest hrest _
        have ih := takeDigits_all_A d rest hs.1 hrest
        simp [numFrac, ih, hd]
  · simp only [Option.some.injEq, Prod.mk.injEq] at h
    obtain ⟨rfl, rfl⟩ := h
    refine ⟨Or.inl rfl, ?_⟩
    intro rest _ h46
    simp only [List.nil_append]
    unfold numFrac
    split
    · rename_i t _; exact absurd rfl (h46 rfl t)
    · rfl

theorem numExpSign_digits (d : Bytes) (hd : ∀ c ∈ d, isDigit c = true) : numExpSign d = ([], d) := by
  cases d with
  | nil => rfl
  | cons c t =>
    have hc := isDigit_ne c (hd c (by simp))
    unfold numExpSign
    split
    · rename_i heq; simp only [List.cons.injEq] at heq; exact absurd heq.1 hc.2.2.2.2
    · rename_i heq; simp only [List.cons.injEq] at heq; exact absurd heq.1 hc.1
    · rfl

theorem numExpSign_cases (r : Bytes) :
    (numExpSign r = ([43], r.tail) ∧ r.head? = some 43) ∨ (numExpSign r = ([45], r.tail) ∧ r.head? = some 45)
      ∨ numExpSign r = ([], r) := by
  cases r with
  | nil => right; right; rfl
  | cons c t =>
    by_cases h1 : c = 43
    · subst h1; left; exact ⟨rfl, rfl⟩
    · by_cases h2 : c = 45
      · subst h2; right; left; exact ⟨rfl, rfl⟩
      · right; right
        unfold numExpSign
        split
        · rename_i heq; simp only [List.cons.injEq] at heq; exact absurd heq.1 h1
        · rename_i heq; simp only [List.cons.injEq] at heq; exact absurd heq.1 h2
        · rfl

theorem numExp_trunc (x p r : Bytes) (h : numExp x = some (p, r)) :
    (p = [] ∨ ∃ e p', p = e :: p' ∧ (e = 101 ∨ e = 69)) ∧ numExp p = some (p, []) := by
  cases x with
  | nil =>
    simp only [numExp, Option.some.injEq, Prod.mk.injEq] at h
    obtain ⟨rfl, rfl⟩ := h
    exact ⟨Or.inl rfl, rfl⟩
  | cons e t =>
    simp only [numExp] at h
    by_cases he : e = 101 ∨ e = 69
    · simp only [he, if_true] at h
      cases h1 : numExpSign t with
      | mk sg r' =>
        rw [h1] at h
        simp only at h
        cases h2 : takeDigits r' with
        | mk d r'' =>
          rw [h2] at h
          simp only at h
          split at h
          · simp at h
          · rename_i hd
            simp only [Option.some.injEq, Prod.mk.injEq] at h
            obtain ⟨rfl, rfl⟩ := h
            have hs := takeDigits_split_A r' d r'' h2
            refine ⟨Or.inr ⟨e, sg ++ d, rfl, he⟩, ?_⟩
            have htd : takeDigits d = (d, []) := by
              simpa using takeDigits_all_A d [] hs.1 trivial
            have hsg : numExpSign (sg ++ d) = (sg, d) := by
              rcases numExpSign_cases t with ⟨h', _⟩ | ⟨h', _⟩ | h'
              · rw [h1] at h'; simp only [Prod.mk.injEq] at h'; rw [h'.1]; rfl
              · rw [h1] at h'; simp only [Prod.mk.injEq] at h'; rw [h'.1]; rfl
              · rw [h1] at h'; simp only [Prod.mk.injEq] at h'; rw [h'.1]
                exact numExpSign_digits d hs.1
            have hd' : d.isEmpty = false := by simpa using hd
            simp only [List.cons_append, numExp]
            rw [if_pos he, hsg]
            simp only [htd, hd']
            simp
    · simp only [he, if_false, Option.some.injEq, Prod.mk.injEq] at h
      obtain ⟨rfl, rfl⟩ := h
      exact ⟨Or.inl rfl, rfl⟩

theorem noDigitHead_of_exp (ep : Bytes) (h : ep = [] ∨ ∃ e p', ep = e :: p' ∧ (e = 101 ∨ e = 69)) :
    noDigitHead ep ∧ ∀ t, ep ≠ 46 :: t := by
  rcases h with rfl | ⟨e, p', rfl, he⟩
  · exact ⟨trivial, by simp⟩
  · rcases he with rfl | rfl
    · exact ⟨by simp only [noDigitHead]; decide, by simp⟩
    · exact ⟨by simp only [noDigitHead]; decide, by simp⟩

/-- the literal a successful `parseNumber` returns is, on its own, a complete number -/
theorem parseNumber_sound (x l r : Bytes) (h : parseNumber x = some (l, r)) :
    parseNumber l = some (l, []) := by
  rw [parseNumber_eq] at h
  cases hsg : numSign x with
  | mk sg r0 =>
    rw [hsg] at h
    simp only at h
    cases h1 : numInt r0 with
    | none => rw [h1] at h; simp at h
    | some q1 =>
      obtain ⟨ip, r1⟩ := q1
      rw [h1] at h
      simp only at h
      cases h2 : numFrac r1 with
      | none => rw [h2] at h; simp at h
      | some q2 =>
        obtain ⟨fp, r2⟩ := q2
        rw [h2] at h
        simp only at h
        cases h3 : numExp r2 with
        | none => rw [h3] at h; simp at h
        | some q3 =>
          obtain ⟨ep, r3⟩ := q3
          rw [h3] at h
          simp only [Option.some.injEq, Prod.mk.injEq] at h
          obtain ⟨rfl, rfl⟩ := h
          obtain ⟨hep, hexp⟩ := numExp_trunc r2 ep _ h3
          obtain ⟨hfp, hfrac⟩ := numFrac_trunc r1 fp r2 h2
          obtain ⟨⟨c, ip', rfl, hc⟩, hint⟩ := numInt_trunc r0 _ r1 h1
          obtain ⟨hnd, h46⟩ := noDigitHead_of_exp ep hep
          have e2 : numFrac (fp ++ ep) = some (fp, ep) := hfrac ep hnd (fun _ => h46)
          have hnd2 : noDigitHead (fp ++ ep) := by
            rcases hfp with rfl | ⟨p', rfl⟩
            · simpa using hnd
            · simp only [List.cons_append, noDigitHead]; decide
          have e1 : numInt ((c :: ip') ++ (fp ++ ep)) = some (c :: ip', fp ++ ep) := hint _ hnd2
          have hsign : numSign (sg ++ (c :: ip') ++ fp ++ ep) = (sg, (c :: ip') ++ (fp ++ ep)) := by
            have hsg' : sg = [45] ∨ sg = [] := by
              unfold numSign at hsg
              split at hsg
              · simp only [Prod.mk.injEq] at hsg; exact Or.inl hsg.1.symm
              · simp only [Prod.mk.injEq] at hsg; exact Or.inr hsg.1.symm
            rcases hsg' with rfl | rfl
            · simp only [List.cons_append, List.nil_append, List.append_assoc]; rfl
            · simp only [List.nil_append, List.cons_append, List.append_assoc]
              unfold numSign
              split
              · rename_i heq; simp only [List.cons.injEq] at heq
                exact absurd heq.1 (isDigit_ne c hc).1
              · rfl
          rw [parseNumber_eq, hsign]
          simp only [e1, e2, hexp]

end JP
