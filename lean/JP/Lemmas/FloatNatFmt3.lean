import JP.Lemmas.FloatNatFmt2

/-!
# Printing an integer float (binary64, below `10^15`): `floatEncode 64 (FP.ofNat 64 n) false = some (decimal n)`
-/

namespace JP
namespace Codec
namespace Float

open JP.Codec.Typed (decimal)

theorem mb64 : mantBits 64 = 52 := by decide
theorem bias64 : bias 64 = 1023 := by decide
theorem expMax64 : expMax 64 = 2047 := by decide
theorem two_e15 : 2 * 10 ^ 15 < 2 ^ (mantBits 64 + 1) := by decide
theorem e15_lt_50 : 10 ^ 15 < 2 ^ 50 := by decide

theorem div_pow_facts (n p : Nat) (hp : 0 < p) :
    n / p * p ≤ n ∧ n < (n / p + 1) * p ∧ (n / p * p = n → n % p = 0) := by
  have h := Nat.div_add_mod n p
  have hm := Nat.mod_lt n hp
  have e : p * (n / p) = n / p * p := Nat.mul_comm _ _
  have e2 : (n / p + 1) * p = n / p * p + p := by rw [Nat.add_mul]; omega
  refine ⟨by omega, by omega, by omega⟩

theorem shortest_nat (n c z : Nat) (h0 : n ≠ 0) (hn : n < 10 ^ 15) (hcz : n = c * 10 ^ z)
    (hc : c % 10 ≠ 0) :
    shortest 64 (FP.ofNat 64 n) = some (decimal c, ((decimal n).length : Int)) := by
  have hn53 : n < 2 ^ (mantBits 64 + 1) := by have := two_e15; omega
  obtain ⟨hlm, hQ1, hQ2⟩ := ofNat_bounds 64 n h0 hn53
  have hl50 : Nat.log2 n < 50 := (Nat.log2_lt h0).2 (Nat.lt_trans hn e15_lt_50)
  have hcpos : 0 < c := by omega
  have hlenEq : (decimal n).length = (decimal c).length + z := by
    rw [hcz, decimal_mul_pow c z hcpos]; simp
  have hlc := decimal_length_pos c
  have hlen15 : (decimal n).length ≤ 15 := decimal_length_le n 14 hn
  have hD : 0 < 2 ^ (mantBits 64 - Nat.log2 n) := Nat.pos_of_ne_zero (by simp)
  -- the fields
  have hexp := ofNat_exp 64 n h0
  have hmant := ofNat_mant 64 n h0
  have hz : (FP.ofNat 64 n).isZero = false := by
    simp only [FP.isZero, hexp, bias64]
    simp
  have hsig : (FP.ofNat 64 n).sig 64 = n * 2 ^ (mantBits 64 - Nat.log2 n) := by
    simp only [FP.sig, hexp, hmant, bias64]
    rw [if_neg (by omega)]
    omega
  have hq : (FP.ofNat 64 n).qexp 64 = -((mantBits 64 - Nat.log2 n : Nat) : Int) := by
    simp only [FP.qexp, hexp, bias64, mb64] at *
    rw [if_neg (by omega)]
    omega
  have hqneg : ¬ ((FP.ofNat 64 n).qexp 64 ≥ 0) := by
    rw [hq, mb64]; omega
  have hqn : (-(FP.ofNat 64 n).qexp 64).toNat = mantBits 64 - Nat.log2 n := by
    rw [hq]; omega
  -- the search
  have hsearch : search 64 (FP.ofNat 64 n) (n * 2 ^ (mantBits 64 - Nat.log2 n))
      (2 ^ (mantBits 64 - Nat.log2 n)) ((decimal n).length : Int) 17 1 = some (c, (z : Int)) := by
    generalize hlen : (decimal n).length = len at hlenEq hlen15
    apply search_first 64 _ _ _ _ _ (len - z)
    · -- the exact candidate
      unfold cand
      obtain ⟨hdiv, hmod⟩ := candAB_nat n (2 ^ (mantBits 64 - Nat.log2 n)) len (len - z) hD (by omega)
      simp only
      rw [hdiv, hmod]
      have hw : len - (len - z) = z := by omega
      have he : (len : Int) - ((len - z : Nat) : Int) = (z : Int) := by omega
      rw [hw, he]
      have hdz : n / 10 ^ z = c := by
        rw [hcz]; exact Nat.mul_div_cancel c (Nat.pos_of_ne_zero (by simp))
      have hmz : n % 10 ^ z = 0 := by
        rw [hcz]; exact Nat.mul_mod_left c (10 ^ z)
      rw [hdz, hmz, Nat.zero_mul]
      apply candPick_exact
      rw [roundsTo_ofNat 64 n c z h0 hn53 (by rw [← hcz]; exact hn53) (by omega)]
      simp [hcz]
    · -- shorter candidates fail
      intro j hj1 hj2
      unfold cand
      obtain ⟨hdiv, hmod⟩ := candAB_nat n (2 ^ (mantBits 64 - Nat.log2 n)) len j hD (by omega)
      simp only
      rw [hdiv, hmod]
      have hwz : z < len - j := by omega
      have he : (len : Int) - (j : Int) = ((len - j : Nat) : Int) := by omega
      rw [he]
      generalize hw : len - j = w at hwz
      have hw15 : w ≤ 15 := by omega
      have hp : 0 < 10 ^ w := Nat.pos_of_ne_zero (by simp)
      have hpw : 10 ^ w ≤ 10 ^ 15 := Nat.pow_le_pow_right (by omega) hw15
      have hmodne : n % 10 ^ w ≠ 0 := by
        intro h
        rw [hcz] at h
        have := mod_pow10_zero c z w hc h
        omega
      obtain ⟨f1, f2, f3⟩ := div_pow_facts n (10 ^ w) hp
      have e2 : (n / 10 ^ w + 1) * 10 ^ w = n / 10 ^ w * 10 ^ w + 10 ^ w := by rw [Nat.add_mul]; omega
      have t := two_e15
      apply candPick_none
      · intro h
        rcases Nat.mul_eq_zero.1 h with h | h
        · exact hmodne h
        · omega
      · rw [roundsTo_ofNat 64 n _ w h0 hn53 (by omega) (by omega)]
        simp only [decide_eq_false_iff_not]
        intro h; exact hmodne (f3 h)
      · rw [roundsTo_ofNat 64 n _ w h0 hn53 (by omega) (by omega)]
        simp only [decide_eq_false_iff_not]
        omega
    · omega
    · omega
  unfold shortest
  have hmd : maxDigits 64 = 17 := by decide
  simp only [hz, Bool.false_eq_true, if_false, hsig, hqneg, hqn, hmd]
  rw [decPoint_nat 64 n h0 hn53, hsearch]
  simp only [stripZeros_decimal c hc, hlenEq]
  simp

theorem fmtF_nat (c z : Nat) (hc : 0 < c) :
    fmtF false (decimal c) (((decimal (c * 10 ^ z)).length : Nat) : Int) = decimal (c * 10 ^ z) := by
  have hlenEq : (decimal (c * 10 ^ z)).length = (decimal c).length + z := by
    rw [decimal_mul_pow c z hc]; simp
  have hlc := decimal_length_pos c
  unfold fmtF
  have hpos : (((decimal (c * 10 ^ z)).length : Nat) : Int) > 0 := by omega
  simp only [hpos, if_true, Int.toNat_natCast, Bool.false_eq_true, if_false, List.nil_append]
  rw [hlenEq, List.take_of_length_le (by omega), List.drop_of_length_le (by omega)]
  have : (decimal c).length + z - (decimal c).length = z := by omega
  rw [this, decimal_mul_pow c z hc]
  simp

/-- an integer below `10^15` prints as its decimal digits -/
theorem floatEncode_nat (n : Nat) (h0 : n ≠ 0) (hn : n < 10 ^ 15) :
    floatEncode 64 (FP.ofNat 64 n) false = some (decimal n) := by
  have hn53 : n < 2 ^ (mantBits 64 + 1) := by have := two_e15; omega
  have hl50 : Nat.log2 n < 50 := (Nat.log2_lt h0).2 (Nat.lt_trans hn e15_lt_50)
  obtain ⟨c, z, hcz, hc⟩ := strip_pow10 n (by omega)
  have hcpos : 0 < c := by omega
  have hexp := ofNat_exp 64 n h0
  rw [bias64] at hexp
  have hfin : (FP.ofNat 64 n).isFinite 64 = true := by
    simp only [FP.isFinite, hexp, expMax64, decide_eq_true_eq]; omega
  have huse : useE 64 (FP.ofNat 64 n) = false := by
    have h1 : (FP.ofNat 64 n).ltMag (cutLo 64) = false := by
      simp only [FP.ltMag, cutLo, hexp]
      simp; omega
    have h2 : (FP.ofNat 64 n).ltMag (cutHi 64) = true := by
      simp only [FP.ltMag, cutHi, hexp]
      simp; omega
    simp [useE, h1, h2]
  have hfmt : formatShortest 64 Fmt.f (FP.ofNat 64 n) = some (decimal n) := by
    unfold formatShortest
    rw [shortest_nat n c z h0 hn hcz hc]
    simp only [layout]
    have hsign : (FP.ofNat 64 n).sign = false := by simp [FP.ofNat, h0]
    rw [hsign]
    have hf : fmtF false (decimal c) (((decimal n).length : Nat) : Int) = decimal n := by
      have := fmtF_nat c z hcpos
      rw [← hcz] at this; exact this
    simp only [show (Fmt.f = Fmt.e) = False by simp, if_false, hf]
    rw [parseFloat_decimal 64 n hn53]
    simp
  unfold floatEncode
  simp only [hfin, Bool.not_true, Bool.false_eq_true, if_false, huse, hfmt]
  simp

end Float
end Codec
end JP
