import JP.Lemmas.EngineDecode

/-!
# Engine lemmas, part 3: array indices and the four container methods
-/

namespace JP
namespace Impl

open Spec (readIdx slotIdx classify Idx Tok)

theorem atoi_dash : atoi [45] = none := by decide

theorem classify_dash : classify [45] = .dash := by simp [classify]

theorem classify_cases (t : Bytes) (h : t ≠ [45]) :
    (atoi t = none ∧ classify t = .name) ∨
      (∃ i, atoi t = some i ∧ (classify t = .int i ∨ classify t = .noncanon)) := by
  simp only [classify, h, if_false]
  cases ha : atoi t with
  | none => exact Or.inl ⟨rfl, rfl⟩
  | some i =>
    refine Or.inr ⟨i, rfl, ?_⟩
    simp only
    split
    · exact Or.inl rfl
    · exact Or.inr rfl

/-- what `readIdx` answers, in terms of `atoi` -/
theorem readIdx_cases (neg : Bool) (n : Nat) (t : Bytes) :
    match readIdx neg n t with
    | .at i => i < n ∧ ∃ idx, atoi t = some idx ∧
        ((0 ≤ idx ∧ idx.toNat = i) ∨ (idx < 0 ∧ neg = true ∧ -(n : Int) ≤ idx ∧ (idx + n).toNat = i))
    | .bad => atoi t = none ∨ ∃ idx, atoi t = some idx ∧
        ((0 ≤ idx ∧ n ≤ idx.toNat) ∨ (idx < 0 ∧ (neg = false ∨ idx < -(n : Int))))
    | .unspec => True := by
  by_cases h : t = [45]
  · subst h
    simp [readIdx, classify_dash, atoi_dash]
  · rcases classify_cases t h with ⟨ha, hc⟩ | ⟨i, ha, hc | hc⟩
    · simp [readIdx, hc, ha]
    · simp only [readIdx, hc]
      by_cases h0 : 0 ≤ i
      · rw [if_pos h0]
        by_cases h1 : i.toNat < n
        · rw [if_pos h1]
          exact ⟨h1, i, ha, Or.inl ⟨h0, rfl⟩⟩
        · rw [if_neg h1]
          exact Or.inr ⟨i, ha, Or.inl ⟨h0, by omega⟩⟩
      · rw [if_neg h0]
        by_cases h1 : neg = true ∧ -(n : Int) ≤ i
        · rw [if_pos h1]
          refine ⟨by omega, i, ha, Or.inr ⟨by omega, h1.1, h1.2, by omega⟩⟩
        · rw [if_neg h1]
          refine Or.inr ⟨i, ha, Or.inr ⟨by omega, ?_⟩⟩
          cases neg
          · exact Or.inl rfl
          · simp only [true_and] at h1; exact Or.inr (by omega)
    · simp [readIdx, hc]

/-- what `slotIdx` answers, in terms of `atoi` -/
theorem slotIdx_cases (neg : Bool) (n : Nat) (t : Bytes) :
    match slotIdx neg n t with
    | .at i => i ≤ n ∧ ((t = [45] ∧ i = n) ∨ (t ≠ [45] ∧ ∃ idx, atoi t = some idx ∧
        ((0 ≤ idx ∧ idx.toNat = i) ∨
          (idx < 0 ∧ neg = true ∧ -((n : Int) + 1) ≤ idx ∧ (idx + ((n : Int) + 1)).toNat = i))))
    | .bad => t ≠ [45] ∧ (atoi t = none ∨ ∃ idx, atoi t = some idx ∧
        ((0 ≤ idx ∧ n < idx.toNat) ∨ (idx < 0 ∧ (neg = false ∨ idx < -((n : Int) + 1)))))
    | .unspec => True := by
  by_cases h : t = [45]
  · subst h
    simp [slotIdx, classify_dash]
  · rcases classify_cases t h with ⟨ha, hc⟩ | ⟨i, ha, hc | hc⟩
    · simp [slotIdx, hc, ha, h]
    · simp only [slotIdx, hc]
      by_cases h0 : 0 ≤ i
      · rw [if_pos h0]
        by_cases h1 : i.toNat ≤ n
        · rw [if_pos h1]
          exact ⟨h1, Or.inr ⟨h, i, ha, Or.inl ⟨h0, rfl⟩⟩⟩
        · rw [if_neg h1]
          exact ⟨h, Or.inr ⟨i, ha, Or.inl ⟨h0, by omega⟩⟩⟩
      · rw [if_neg h0]
        by_cases h1 : neg = true ∧ -((n : Int) + 1) ≤ i
        · rw [if_pos h1]
          refine ⟨by omega, Or.inr ⟨h, i, ha, Or.inr ⟨by omega, h1.1, h1.2, by omega⟩⟩⟩
        · rw [if_neg h1]
          refine ⟨h, Or.inr ⟨i, ha, Or.inr ⟨by omega, ?_⟩⟩⟩
          cases neg
          · exact Or.inl rfl
          · simp only [true_and] at h1; exact Or.inr (by omega)
    · simp [slotIdx, hc]

/-! ### `get` -/

theorem conGet_doc (o : Opts) (self : Node) (keys : List Bytes) (obj : NMembers) (key : Bytes) :
    conGet o self (.doc keys obj) key =
      match lookupN key obj with
      | some n => .ok n
      | none => .err .missing := by
  simp only [conGet]
  cases lookupN key obj <;> rfl

theorem conGet_ary (o : Opts) (self : Node) (ns : List Node) (key : Bytes) :
    match readIdx o.neg ns.length key with
    | .at i => ∃ n, ns[i]? = some n ∧ conGet o self (.ary ns) key = .ok n
    | .bad => ∃ e, conGet o self (.ary ns) key = .err e
    | .unspec => True := by
  have := readIdx_cases o.neg ns.length key
  cases hr : readIdx o.neg ns.length key with
  | unspec => trivial
  | «at» i =>
    rw [hr] at this
    obtain ⟨hi, idx, ha, h | h⟩ := this
    · obtain ⟨h0, h1⟩ := h
      have hlt : ¬ idx < 0 := by omega
      refine ⟨ns[i], by simp [hi], ?_⟩
      simp [conGet, ha, hlt, h1, hi]
    · obtain ⟨h0, h1, h2, h3⟩ := h
      have h4 : ¬ idx < -(ns.length : Int) := by omega
      refine ⟨ns[i], by simp [hi], ?_⟩
      simp [conGet, ha, h0, h1, h4, h3, hi]
  | bad =>
    rw [hr] at this
    rcases this with ha | ⟨idx, ha, h | h⟩
    · exact ⟨.other, by simp [conGet, ha]⟩
    · obtain ⟨h0, h1⟩ := h
      have hlt : ¬ idx < 0 := by omega
      have : ns[idx.toNat]? = none := by simp; omega
      exact ⟨.invalidIndex, by simp [conGet, ha, hlt, this]⟩
    · obtain ⟨h0, h1⟩ := h
      rcases h1 with h1 | h1
      · exact ⟨.invalidIndex, by simp [conGet, ha, h0, h1]⟩
      · refine ⟨.invalidIndex, ?_⟩
        simp only [conGet, ha, h0, if_true, h1]
        split <;> rfl

/-- `get` does not look at `self` -/
theorem conGet_self (o : Opts) (s s' : Node) (con : Node) (key : Bytes) :
    conGet o s con key = conGet o s' con key := by
  cases con <;> simp [conGet]

/-! ### `set` -/

theorem conSet_ary (o : Opts) (ns : List Node) (key : Bytes) (val : Node) :
    match readIdx o.neg ns.length key with
    | .at i => conSet o (.ary ns) key val = .ok (.ary (listSet i val ns))
    | _ => True := by
  have := readIdx_cases o.neg ns.length key
  cases hr : readIdx o.neg ns.length key with
  | unspec => trivial
  | bad => trivial
  | «at» i =>
    rw [hr] at this
    obtain ⟨hi, idx, ha, h | h⟩ := this
    · obtain ⟨h0, h1⟩ := h
      have hlt : ¬ idx < 0 := by omega
      simp [conSet, ha, hlt, h1, hi]
    · obtain ⟨h0, h1, h2, h3⟩ := h
      have h4 : ¬ idx < -(ns.length : Int) := by omega
      simp [conSet, ha, h0, h1, h4, h3, hi]

/-! ### `remove` -/

theorem conRemove_ary (o : Opts) (ns : List Node) (key : Bytes) :
    match readIdx o.neg ns.length key with
    | .at i => conRemove o (.ary ns) key = .ok (.ary (ns.eraseIdx i))
    | .bad => (o.allow = false → ∃ e, conRemove o (.ary ns) key = .err e)
    | .unspec => True := by
  have := readIdx_cases o.neg ns.length key
  cases hr : readIdx o.neg ns.length key with
  | unspec => trivial
  | «at» i =>
    rw [hr] at this
    obtain ⟨hi, idx, ha, h | h⟩ := this
    · obtain ⟨h0, h1⟩ := h
      have hlt : ¬ idx < 0 := by omega
      have hge : ¬ idx ≥ (ns.length : Int) := by omega
      simp [conRemove, ha, hlt, hge, h1]
    · obtain ⟨h0, h1, h2, h3⟩ := h
      have h4 : ¬ idx < -(ns.length : Int) := by omega
      have hge : ¬ idx ≥ (ns.length : Int) := by omega
      simp [conRemove, ha, h0, h1, h4, h3, hge]
  | bad =>
    rw [hr] at this
    intro hal
    rcases this with ha | ⟨idx, ha, h | h⟩
    · exact ⟨.other, by simp [conRemove, ha]⟩
    · obtain ⟨h0, h1⟩ := h
      have hge : idx ≥ (ns.length : Int) := by omega
      exact ⟨.invalidIndex, by simp [conRemove, ha, hge, hal]⟩
    · obtain ⟨h0, h1⟩ := h
      have hge : ¬ idx ≥ (ns.length : Int) := by omega
      rcases h1 with h1 | h1
      · exact ⟨.invalidIndex, by simp [conRemove, ha, h0, h1, hge]⟩
      · refine ⟨.invalidIndex, ?_⟩
        simp only [conRemove, ha, hge, if_false, h0, if_true, h1, hal]
        split <;> rfl

/-! ### `add` -/

theorem listInsert_length {α} (a : α) (xs : List α) : listInsert xs.length a xs = xs ++ [a] := by
  rw [listInsert_eq_insertAt, insertAt_length_eq_append]

theorem conAdd_ary (o : Opts) (ns : List Node) (key : Bytes) (val : Node) :
    match slotIdx o.neg ns.length key with
    | .at i => conAdd o (.ary ns) key val = .ok (.ary (listInsert i val ns))
    | .bad => ∃ e, conAdd o (.ary ns) key val = .err e
    | .unspec => True := by
  have := slotIdx_cases o.neg ns.length key
  cases hr : slotIdx o.neg ns.length key with
  | unspec => trivial
  | «at» i =>
    rw [hr] at this
    obtain ⟨hi, h | h⟩ := this
    · obtain ⟨h0, h1⟩ := h
      subst h0; subst h1
      simp [conAdd, listInsert_length]
    · obtain ⟨hd, idx, ha, h | h⟩ := h
      · obtain ⟨h0, h1⟩ := h
        have hlt : ¬ idx < 0 := by omega
        have hge : ¬ idx ≥ (ns.length : Int) + 1 := by omega
        simp [conAdd, hd, ha, hlt, hge, h1]
      · obtain ⟨h0, h1, h2, h3⟩ := h
        have h4 : ¬ idx < -((ns.length : Int) + 1) := by omega
        have hge : ¬ idx ≥ (ns.length : Int) + 1 := by omega
        simp [conAdd, hd, ha, h0, h1, h4, hge, h3, hi]
  | bad =>
    rw [hr] at this
    obtain ⟨hd, this⟩ := this
    rcases this with ha | ⟨idx, ha, h | h⟩
    · exact ⟨.other, by simp [conAdd, hd, ha]⟩
    · obtain ⟨h0, h1⟩ := h
      have hge : idx ≥ (ns.length : Int) + 1 := by omega
      exact ⟨.invalidIndex, by simp [conAdd, hd, ha, hge]⟩
    · obtain ⟨h0, h1⟩ := h
      have hge : ¬ idx ≥ (ns.length : Int) + 1 := by omega
      rcases h1 with h1 | h1
      · exact ⟨.invalidIndex, by simp [conAdd, hd, ha, h0, h1, hge]⟩
      · refine ⟨.invalidIndex, ?_⟩
        simp only [conAdd, hd, if_false, ha, hge, h0, if_true, h1]
        split <;> rfl

end Impl
end JP
