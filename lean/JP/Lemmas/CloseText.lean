import JP.Lemmas.CloseUtf8
import JP.Lemmas.CloseParse
import JP.Lemmas.EngineDecode
import JP.Lemmas.TextClean

/-!
# Closing the text hypotheses, part 4: `WFC` gives the engine's text invariant

* `QK_of_utf8`   – a valid-UTF-8 name survives the encoder and `compact`;
* `CstOK_of_WFC` – a well-formed tree satisfies `CstOK` (no UTF-8 hypothesis: the decoded member
  names are valid UTF-8 by `unquote_utf8`);
* `Value.depth`, `depth_valueOf` – nesting depth of a value = depth of a tree that denotes it.
-/

namespace JP
open Impl

theorem QK_of_utf8 (e : Bool) (k : Bytes) (hk : isValidUtf8 k = true) : Impl.QK e k = true := by
  simp only [QK, escB, Bool.and_eq_true, beq_iff_eq]
  refine ⟨unquote_quoteBody e k hk, ?_⟩
  cases e with
  | false => rfl
  | true => exact escBody_of_clean _ (quoteBody_clean k)

theorem EscOK_of_validBody (e : Bool) (b : Bytes) (hb : validBody b = true) : Impl.EscOK e b = true := by
  cases e with
  | false => exact EscOK_false b
  | true =>
    simp only [EscOK, escB, if_true, Bool.and_eq_true, beq_iff_eq]
    exact ⟨unquote_escBody b ((validBody_iff b).1 hb), escBody_idem _⟩

/-- the decoded name of a valid body survives re-quoting -/
theorem QK_unquote (e : Bool) (k : Bytes) (hk : validBody k = true) : Impl.QK e (unquote k) = true :=
  QK_of_utf8 e _ (unquote_utf8 k ((validBody_eq_true_iff k).1 hk))

mutual
theorem CstOK_of_WFC (e : Bool) : ∀ c : Cst, WFC c = true → Impl.CstOK e c = true
  | .lit _, _ => by simp [CstOK]
  | .str b, h => by
    simp only [WFC] at h
    simp only [CstOK, EscOK_of_validBody e b h]
  | .arr xs, h => by
    simp only [WFC] at h
    simp only [CstOK, CstOKL_of_WFCL e xs h]
  | .obj ms, h => by
    simp only [WFC] at h
    simp only [CstOK, CstOKM_of_WFCM e ms h]
theorem CstOKL_of_WFCL (e : Bool) : ∀ xs : List Cst, WFCL xs = true → Impl.CstOKL e xs = true
  | [], _ => by simp [CstOKL]
  | x :: xs, h => by
    simp only [WFCL, Bool.and_eq_true] at h
    simp only [CstOKL, CstOK_of_WFC e x h.1, CstOKL_of_WFCL e xs h.2, Bool.and_self]
theorem CstOKM_of_WFCM (e : Bool) : ∀ ms : List (Bytes × Cst), WFCM ms = true → Impl.CstOKM e ms = true
  | [], _ => by simp [CstOKM]
  | (k, v) :: ms, h => by
    simp only [WFCM, Bool.and_eq_true] at h
    simp only [CstOKM, EscOK_of_validBody e k h.1.1, QK_unquote e k h.1.1, CstOK_of_WFC e v h.1.2,
      CstOKM_of_WFCM e ms h.2, Bool.and_self]
end

/-- **text hypothesis of the engine theorems, discharged**: what the reference parser returns
satisfies `CstOK` for either escaping flag -/
theorem CstOK_of_parseCst (e : Bool) (bs : Bytes) (c : Cst) (h : parseCst bs = some c) :
    Impl.CstOK e c = true :=
  CstOK_of_WFC e c (parseCst_wfc_A bs c h).1

/-! ### members of a well-formed tree -/

theorem WFCL_iff (xs : List Cst) : WFCL xs = true ↔ ∀ x ∈ xs, WFC x = true := by
  induction xs with
  | nil => simp [WFCL]
  | cons x xs ih => simp [WFCL, ih]

theorem WFCM_iff (ms : List (Bytes × Cst)) :
    WFCM ms = true ↔ ∀ m ∈ ms, validBody m.1 = true ∧ WFC m.2 = true := by
  induction ms with
  | nil => simp [WFCM]
  | cons m ms ih => obtain ⟨k, v⟩ := m; simp [WFCM, ih, and_assoc]

/-! ### decoded member names are valid UTF-8 -/

mutual
/-- every member name of the tree decodes (`unquote`) to valid UTF-8 -/
def NamesUtf8 : Cst → Bool
  | .arr xs => NamesUtf8L xs
  | .obj ms => NamesUtf8M ms
  | _ => true
def NamesUtf8L : List Cst → Bool
  | [] => true
  | x :: xs => NamesUtf8 x && NamesUtf8L xs
def NamesUtf8M : List (Bytes × Cst) → Bool
  | [] => true
  | (k, v) :: ms => isValidUtf8 (unquote k) && NamesUtf8 v && NamesUtf8M ms
end

mutual
/-- `NamesUtf8` is not a hypothesis: it holds for every well-formed tree, because `unquoteBytes`
replaces invalid UTF-8 and lone surrogates by U+FFFD -/
theorem NamesUtf8_of_WFC : ∀ c : Cst, WFC c = true → NamesUtf8 c = true
  | .lit _, _ => rfl
  | .str _, _ => rfl
  | .arr xs, h => by simp only [WFC] at h; simp only [NamesUtf8, NamesUtf8L_of_WFCL xs h]
  | .obj ms, h => by simp only [WFC] at h; simp only [NamesUtf8, NamesUtf8M_of_WFCM ms h]
theorem NamesUtf8L_of_WFCL : ∀ xs : List Cst, WFCL xs = true → NamesUtf8L xs = true
  | [], _ => rfl
  | x :: xs, h => by
    simp only [WFCL, Bool.and_eq_true] at h
    simp only [NamesUtf8L, NamesUtf8_of_WFC x h.1, NamesUtf8L_of_WFCL xs h.2, Bool.and_self]
theorem NamesUtf8M_of_WFCM : ∀ ms : List (Bytes × Cst), WFCM ms = true → NamesUtf8M ms = true
  | [], _ => rfl
  | (k, v) :: ms, h => by
    simp only [WFCM, Bool.and_eq_true] at h
    simp only [NamesUtf8M, unquote_utf8 k ((validBody_eq_true_iff k).1 h.1.1), NamesUtf8_of_WFC v h.1.2,
      NamesUtf8M_of_WFCM ms h.2, Bool.and_self]
end

/-! ### nesting depth of values -/

mutual
def Value.depth : Value → Nat
  | .arr xs => 1 + Value.depthL xs
  | .obj ms => 1 + Value.depthM ms
  | _ => 0
def Value.depthL : List Value → Nat
  | [] => 0
  | x :: xs => max (Value.depth x) (Value.depthL xs)
def Value.depthM : Value.Members → Nat
  | [] => 0
  | (_, v) :: ms => max (Value.depth v) (Value.depthM ms)
end

theorem depth_litValue (s : Bytes) : (Cst.litValue s).depth = 0 := by
  unfold Cst.litValue
  split
  · rfl
  · split
    · rfl
    · split <;> rfl

mutual
theorem depth_valueOf : ∀ c : Cst, c.valueOf.depth = c.depth
  | .lit s => by simp only [Cst.valueOf, Cst.depth, depth_litValue]
  | .str b => by simp only [Cst.valueOf, Cst.depth, Value.depth]
  | .arr xs => by simp only [Cst.valueOf, Cst.depth, Value.depth, depthL_valueOfL xs]
  | .obj ms => by simp only [Cst.valueOf, Cst.depth, Value.depth, depthM_valueOfM ms]
theorem depthL_valueOfL : ∀ xs : List Cst, Value.depthL (Cst.valueOfL xs) = Cst.depthL xs
  | [] => rfl
  | x :: xs => by simp only [Cst.valueOfL, Cst.depthL, Value.depthL, depth_valueOf x, depthL_valueOfL xs]
theorem depthM_valueOfM : ∀ ms : List (Bytes × Cst), Value.depthM (Cst.valueOfM ms) = Cst.depthM ms
  | [] => rfl
  | (k, v) :: ms => by
    simp only [Cst.valueOfM, Cst.depthM, Value.depthM, depth_valueOf v, depthM_valueOfM ms]
end

end JP
