import JP.Lemmas.FloatNat

/-!
# `decimal`: last digit, trailing zeros, length
-/

namespace JP
namespace Codec
namespace Float

open JP.Codec.Typed (decimal decGo)

theorem decGo_acc : ∀ (fuel n : Nat) (acc : Bytes), n < fuel → decGo fuel n acc = decGo fuel n [] ++ acc := by
  intro fuel
  induction fuel with
  | zero => intro n acc h; omega
  | succ f ih =>
    intro n acc h
    rw [decGo.eq_def, decGo.eq_def (f + 1)]
    simp only
    by_cases hn : n < 10
    · simp [hn]
    · simp only [hn, if_false]
      rw [ih (n / 10) (UInt8.ofNat (48 + n % 10) :: acc) (by omega),
        ih (n / 10) [UInt8.ofNat (48 + n % 10)] (by omega)]
      simp

theorem decGo_fuel_nil : ∀ (fuel fuel' n : Nat), n < fuel → n < fuel' → decGo fuel n [] = decGo fuel' n [] := by
  intro fuel
  induction fuel with
  | zero => intro f' n h; omega
  | succ f ih =>
    intro f' n h h'
    cases f' with
    | zero => omega
    | succ f' =>
      rw [decGo.eq_def, decGo.eq_def (f' + 1)]
      simp only
      by_cases hn : n < 10
      · simp [hn]
      · simp only [hn, if_false]
        rw [decGo_acc f (n / 10) _ (by omega), decGo_acc f' (n / 10) _ (by omega),
          ih f' (n / 10) (by omega) (by omega)]

theorem decimal_lt10 (n : Nat) (h : n < 10) : decimal n = [UInt8.ofNat (48 + n)] := by
  rw [decimal, decGo.eq_def]; simp [h]

theorem decimal_snoc (n : Nat) (h : 10 ≤ n) : decimal n = decimal (n / 10) ++ [UInt8.ofNat (48 + n % 10)] := by
  rw [decimal, decGo.eq_def]
  simp only
  rw [if_neg (by omega), decGo_acc n (n / 10) _ (by omega), decimal,
    decGo_fuel_nil n (n / 10 + 1) (n / 10) (by omega) (by omega)]

theorem decimal_mul10 (c : Nat) (h : 0 < c) : decimal (c * 10) = decimal c ++ [48] := by
  rw [decimal_snoc (c * 10) (by omega)]
  have h1 : c * 10 / 10 = c := by omega
  have h2 : c * 10 % 10 = 0 := by omega
  rw [h1, h2]; rfl

theorem decimal_mul_pow (c z : Nat) (h : 0 < c) : decimal (c * 10 ^ z) = decimal c ++ List.replicate z 48 := by
  induction z with
  | zero => simp
  | succ z ih =>
    have hp : 0 < c * 10 ^ z := Nat.mul_pos h (Nat.pos_of_ne_zero (by simp))
    rw [Nat.pow_succ, ← Nat.mul_assoc, decimal_mul10 _ hp, ih, List.append_assoc, List.replicate_succ']

theorem decimal_len_bounds : ∀ n : Nat, 0 < n →
    10 ^ ((decimal n).length - 1) ≤ n ∧ n < 10 ^ (decimal n).length := by
  intro n
  induction n using Nat.strongRecOn with
  | _ n ih =>
    intro hn
    by_cases h10 : n < 10
    · rw [decimal_lt10 n h10]; simp; omega
    · have hq : 0 < n / 10 := by omega
      obtain ⟨h1, h2⟩ := ih (n / 10) (by omega) hq
      rw [decimal_snoc n (by omega)]
      simp only [List.length_append, List.length_cons, List.length_nil, Nat.zero_add, Nat.add_sub_cancel]
      generalize hL : (decimal (n / 10)).length = L at h1 h2
      have hLpos : 0 < L := by
        rw [← hL]
        have := (Typed.decimal_digits (n / 10)).2
        cases hd : decimal (n / 10) with
        | nil => exact absurd hd this
        | cons _ _ => simp
      have e1 : 10 ^ L = 10 * 10 ^ (L - 1) := by
        have : L = (L - 1) + 1 := by omega
        conv => lhs; rw [this, Nat.pow_succ]
        omega
      have e2 : 10 ^ (L + 1) = 10 * 10 ^ L := by rw [Nat.pow_succ]; omega
      omega

theorem decimal_length_pos (n : Nat) : 0 < (decimal n).length := by
  have := (Typed.decimal_digits n).2
  cases hd : decimal n with
  | nil => exact absurd hd this
  | cons _ _ => simp

/-- `n = c · 10^z` with `c` not divisible by ten -/
theorem strip_pow10 : ∀ n : Nat, 0 < n → ∃ c z, n = c * 10 ^ z ∧ c % 10 ≠ 0 := by
  intro n
  induction n using Nat.strongRecOn with
  | _ n ih =>
    intro hn
    by_cases h : n % 10 = 0
    · obtain ⟨c, z, hc, hz⟩ := ih (n / 10) (by omega) (by omega)
      refine ⟨c, z + 1, ?_, hz⟩
      rw [Nat.pow_succ, ← Nat.mul_assoc, ← hc]
      omega
    · exact ⟨n, 0, by simp, h⟩

theorem stripZeros_snoc (d : Bytes) (x : UInt8) (hx : x ≠ 48) : stripZeros (d ++ [x]) = d ++ [x] := by
  induction d with
  | nil => simp [stripZeros, hx]
  | cons c d ih =>
    simp only [List.cons_append, stripZeros, ih]
    cases d <;> simp

theorem ofNat_ne_48 (n : Nat) (h : n < 10) (h0 : n ≠ 0) : UInt8.ofNat (48 + n) ≠ 48 :=
  fun e => h0 (Typed.ofNat_eq_48 n h e)

theorem stripZeros_decimal (c : Nat) (h : c % 10 ≠ 0) : stripZeros (decimal c) = decimal c := by
  by_cases h10 : c < 10
  · rw [decimal_lt10 c h10]
    have : c % 10 = c := by omega
    have := stripZeros_snoc [] (UInt8.ofNat (48 + c)) (ofNat_ne_48 c h10 (by omega))
    simpa using this
  · rw [decimal_snoc c (by omega)]
    exact stripZeros_snoc _ _ (ofNat_ne_48 _ (by omega) h)

end Float
end Codec
end JP
