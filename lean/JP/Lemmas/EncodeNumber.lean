import JP.Codec.Encode
import JP.Lemmas.TextParseNum
import JP.Lemmas.TransduceWF
import JP.Lemmas.TextTree

/-!
# `isValidNumber` (encode.go) accepts exactly the complete RFC 8259 number literals

`isValidNumber l = validNum l`, where `validNum l` says that the reference parser's
`parseNumber` reads `l` completely.
-/

namespace JP
namespace Codec
namespace Enc

theorem takeDigits_snd : ∀ r : Bytes, (takeDigits r).2 = skipDigits r
  | [] => rfl
  | c :: cs => by
    simp only [takeDigits, skipDigits]
    split
    · exact takeDigits_snd cs
    · rfl

theorem takeDigits_fst_of_skip_nil : ∀ r : Bytes, skipDigits r = [] → (takeDigits r).1 = r
  | [], _ => rfl
  | c :: cs, h => by
    simp only [skipDigits] at h
    split at h
    · rename_i hc
      simp only [takeDigits, hc, if_true, takeDigits_fst_of_skip_nil cs h]
    · simp at h

/-- the exponent stage and the final `s == ""` -/
def expOK (s : Bytes) : Bool :=
  match numExp s with
  | none => false
  | some s4 => s4.isEmpty

theorem expOK_iff (s : Bytes) : expOK s = true ↔ ∃ ep, JP.numExp s = some (ep, []) := by
  cases s with
  | nil => simp [expOK, numExp, JP.numExp]
  | cons c t =>
    cases t with
    | nil =>
      by_cases hc : c = 101 ∨ c = 69
      · simp [expOK, numExp, JP.numExp, hc, JP.numExpSign, takeDigits]
      · simp [expOK, numExp, JP.numExp, hc]
    | cons d r =>
      by_cases hc : c = 101 ∨ c = 69
      · by_cases hd : d = 43 ∨ d = 45
        · have hs : JP.numExpSign (d :: r) = ([d], r) := by
            rcases hd with rfl | rfl <;> rfl
          simp only [expOK, numExp, hc, hd, if_true, JP.numExp, hs]
          cases r with
          | nil => simp [takeDigits]
          | cons x xs =>
            have h2 := takeDigits_snd (x :: xs)
            cases htd : takeDigits (x :: xs) with
            | mk dg rest =>
              rw [htd] at h2
              simp only at h2
              simp only [List.isEmpty_cons, Bool.false_eq_true, if_false]
              constructor
              · intro h
                have h3 : skipDigits (x :: xs) = [] := by simpa using h
                have h4 := takeDigits_fst_of_skip_nil _ h3
                rw [htd] at h4
                simp only at h4
                subst h4
                rw [h2, h3]
                exact ⟨_, rfl⟩
              · rintro ⟨ep, h⟩
                split at h
                · simp at h
                · simp only [Option.some.injEq, Prod.mk.injEq] at h
                  rw [← h2, h.2]; rfl
        · have hs : JP.numExpSign (d :: r) = ([], d :: r) := by
            unfold JP.numExpSign
            split
            · rename_i heq; simp only [List.cons.injEq] at heq; exact absurd (Or.inl heq.1) hd
            · rename_i heq; simp only [List.cons.injEq] at heq; exact absurd (Or.inr heq.1) hd
            · rfl
          simp only [expOK, numExp, hc, hd, if_true, if_false, JP.numExp, hs]
          have h2 := takeDigits_snd (d :: r)
          cases htd : takeDigits (d :: r) with
          | mk dg rest =>
            rw [htd] at h2
            simp only at h2
            constructor
            · intro h
              have h3 : skipDigits (d :: r) = [] := by simpa using h
              have h4 := takeDigits_fst_of_skip_nil _ h3
              rw [htd] at h4
              simp only at h4
              subst h4
              rw [h2, h3]
              exact ⟨_, rfl⟩
            · rintro ⟨ep, h⟩
              split at h
              · simp at h
              · simp only [Option.some.injEq, Prod.mk.injEq] at h
                rw [← h2, h.2]; rfl
      · simp [expOK, numExp, JP.numExp, hc]

/-- fraction stage, exponent stage and the final test -/
def fracOK (s : Bytes) : Bool := expOK (numFrac s)

theorem expOK_dot (r : Bytes) : expOK (46 :: r) = false := by
  cases r with
  | nil => rfl
  | cons d r => simp [expOK, numExp]

theorem fracOK_iff (s : Bytes) :
    fracOK s = true ↔ ∃ fp r2 ep, JP.numFrac s = some (fp, r2) ∧ JP.numExp r2 = some (ep, []) := by
  by_cases h46 : ∃ r, s = 46 :: r
  · obtain ⟨r, rfl⟩ := h46
    have hF : JP.numFrac (46 :: r) =
        (if (takeDigits r).1.isEmpty then none else some (46 :: (takeDigits r).1, (takeDigits r).2)) := by
      simp only [JP.numFrac]
    cases r with
    | nil =>
      simp [fracOK, numFrac, expOK_dot, hF, takeDigits]
    | cons d r0 =>
      by_cases hd : isDigit d = true
      · have h1 : numFrac (46 :: d :: r0) = skipDigits r0 := by simp [numFrac, hd]
        have h2 : (takeDigits (d :: r0)).1.isEmpty = false := by simp [takeDigits, hd]
        have h3 : (takeDigits (d :: r0)).2 = skipDigits r0 := by
          rw [takeDigits_snd]; simp [skipDigits, hd]
        simp only [fracOK, h1, expOK_iff, hF, h2, Bool.false_eq_true, if_false, h3, Option.some.injEq,
          Prod.mk.injEq]
        constructor
        · rintro ⟨ep, h⟩; exact ⟨_, _, ep, ⟨rfl, rfl⟩, h⟩
        · rintro ⟨_, _, ep, ⟨_, rfl⟩, h⟩; exact ⟨ep, h⟩
      · have h1 : numFrac (46 :: d :: r0) = 46 :: d :: r0 := by simp [numFrac, hd]
        have h2 : (takeDigits (d :: r0)).1.isEmpty = true := by simp [takeDigits, hd]
        simp [fracOK, h1, expOK_dot, hF, h2]
  · have h1 : numFrac s = s := by
      unfold numFrac
      split
      · rename_i c d r
        by_cases hc : c = 46
        · exact absurd ⟨_, by rw [hc]⟩ h46
        · simp [hc]
      · rfl
    have h2 : JP.numFrac s = some ([], s) := by
      unfold JP.numFrac
      split
      · rename_i r; exact absurd ⟨r, rfl⟩ h46
      · rfl
    simp only [fracOK, h1, expOK_iff, h2, Option.some.injEq, Prod.mk.injEq]
    constructor
    · rintro ⟨ep, h⟩; exact ⟨_, _, ep, ⟨rfl, rfl⟩, h⟩
    · rintro ⟨_, _, ep, ⟨_, rfl⟩, h⟩; exact ⟨ep, h⟩

theorem numInt_eq (s : Bytes) : numInt s = (JP.numInt s).map Prod.snd := by
  cases s with
  | nil => rfl
  | cons c r =>
    by_cases h0 : c = 48
    · subst h0; rfl
    · have hJ : JP.numInt (c :: r) =
          (if isDigit c then some (c :: (takeDigits r).1, (takeDigits r).2) else none) := by
        unfold JP.numInt
        split
        · rename_i heq; simp only [List.cons.injEq] at heq; exact absurd heq.1 h0
        · rename_i heq
          simp only [List.cons.injEq] at heq
          obtain ⟨rfl, rfl⟩ := heq
          rfl
        · rename_i heq; simp at heq
      have hd : (49 ≤ c.toNat ∧ c.toNat ≤ 57) ↔ isDigit c = true := by
        have h0' : c.toNat ≠ 48 := fun h => h0 (UInt8.toNat_inj.1 (by simpa using h))
        simp only [isDigit, Bool.and_eq_true, decide_eq_true_eq]
        omega
      simp only [numInt, h0, if_false, hJ]
      by_cases hdc : isDigit c = true
      · simp [hd.2 hdc, hdc, takeDigits_snd]
      · have : ¬ (49 ≤ c.toNat ∧ c.toNat ≤ 57) := fun h => hdc (hd.1 h)
        simp [this, hdc]

/-- after the sign -/
def intOK (s : Bytes) : Bool :=
  match numInt s with
  | none => false
  | some s2 => fracOK s2

theorem isValidNumber_eq (s : Bytes) :
    isValidNumber s = (match numSign s with | none => false | some s1 => intOK s1) := by
  unfold isValidNumber intOK fracOK expOK
  cases numSign s with
  | none => rfl
  | some s1 =>
    simp only
    cases numInt s1 with
    | none => rfl
    | some s2 => rfl

theorem intOK_iff (s : Bytes) : intOK s = true ↔
    ∃ ip r1 fp r2 ep, JP.numInt s = some (ip, r1) ∧ JP.numFrac r1 = some (fp, r2) ∧ JP.numExp r2 = some (ep, []) := by
  unfold intOK
  rw [numInt_eq]
  cases h : JP.numInt s with
  | none => simp
  | some p =>
    obtain ⟨ip, r1⟩ := p
    simp only [Option.map_some, fracOK_iff, Option.some.injEq, Prod.mk.injEq]
    constructor
    · rintro ⟨fp, r2, ep, h1, h2⟩; exact ⟨ip, r1, fp, r2, ep, ⟨rfl, rfl⟩, h1, h2⟩
    · rintro ⟨_, _, fp, r2, ep, ⟨rfl, rfl⟩, h1, h2⟩; exact ⟨fp, r2, ep, h1, h2⟩

theorem parse_iff (s : Bytes) : (∃ p, parseNumber s = some (p, [])) ↔
    ∃ ip r1 fp r2 ep, JP.numInt (JP.numSign s).2 = some (ip, r1) ∧ JP.numFrac r1 = some (fp, r2) ∧
      JP.numExp r2 = some (ep, []) := by
  rw [JP.parseNumber_eq]
  constructor
  · rintro ⟨p, h⟩
    cases h1 : JP.numInt (JP.numSign s).2 with
    | none => rw [h1] at h; simp at h
    | some q1 =>
      obtain ⟨ip, r1⟩ := q1
      rw [h1] at h
      simp only at h
      cases h2 : JP.numFrac r1 with
      | none => rw [h2] at h; simp at h
      | some q2 =>
        obtain ⟨fp, r2⟩ := q2
        rw [h2] at h
        simp only at h
        cases h3 : JP.numExp r2 with
        | none => rw [h3] at h; simp at h
        | some q3 =>
          obtain ⟨ep, r3⟩ := q3
          rw [h3] at h
          simp only [Option.some.injEq, Prod.mk.injEq] at h
          obtain ⟨_, rfl⟩ := h
          exact ⟨ip, r1, fp, r2, ep, rfl, h2, h3⟩
  · rintro ⟨ip, r1, fp, r2, ep, h1, h2, h3⟩
    rw [h1]
    simp only [h2, h3]
    exact ⟨_, rfl⟩

theorem isValidNumber_iff (s : Bytes) : isValidNumber s = true ↔ ∃ p, parseNumber s = some (p, []) := by
  rw [isValidNumber_eq, parse_iff]
  cases s with
  | nil => simp [numSign, JP.numSign, JP.numInt]
  | cons c r =>
    by_cases hc : c = 45
    · subst hc
      have hJ : JP.numSign (45 :: r) = ([45], r) := rfl
      rw [hJ]
      cases r with
      | nil => simp [numSign, JP.numInt]
      | cons x xs => simp only [numSign, if_true, List.isEmpty_cons, Bool.false_eq_true, if_false, intOK_iff]
    · have hJ : JP.numSign (c :: r) = ([], c :: r) := by
        unfold JP.numSign
        split
        · rename_i heq; simp only [List.cons.injEq] at heq; exact absurd heq.1 hc
        · rfl
      rw [hJ]
      simp only [numSign, hc, if_false, intOK_iff]

theorem isValidNumber_validNum (l : Bytes) : isValidNumber l = validNum l := by
  have h : isValidNumber l = true ↔ validNum l = true := by
    rw [isValidNumber_iff]
    simp only [validNum, decide_eq_true_eq]
    constructor
    · rintro ⟨p, h⟩
      obtain ⟨h1, _⟩ := parseNumber_prefix l p [] h
      simp only [List.append_nil] at h1
      rw [← h1] at h
      exact h
    · intro h; exact ⟨l, h⟩
  cases h1 : isValidNumber l <;> cases h2 : validNum l <;> simp_all

end Enc
end Codec
end JP
