import JP.Check
import JP.Lemmas.GenInv
import JP.Lemmas.CloseApply

/-!
# EscapeHTML off: no new escapes — the engine side

`hE b`: the HTML-class code points (`<`, `>`, `&`, U+2028, U+2029) the text `b` spells as `\uXXXX`
escapes (`htmlEscapes` with enough fuel).  For a set `A` of *allowed* code points:

* `BA A b` — every such escape of the body `b`, and every raw U+2028/U+2029 in it, is allowed;
* `CA A c` — `BA` for every string and member-name body of the tree `c`;
* `escP A …` — the instance of the generic invariant (`JP/Lemmas/GenInv.lean`): raw messages are
  well formed with allowed bodies; the names in the order lists of parsed objects have allowed raw
  U+2028/U+2029 only.

The text-level facts this needs are collected in `TextFacts A` (each is a statement about
`htmlEscapes` / `rawLineSeps` and one codec function, independent of the engine).  Under them the
tree `marshalRoot` prints with EscapeHTML off has allowed bodies only (`applyOps_CA`).
-/

namespace JP
namespace Impl

def hE (b : Bytes) : List Nat := htmlEscapes (b.length + 1) b

/-- body: its HTML-class escapes and its raw line separators are allowed -/
def BA (A : Nat → Prop) (b : Bytes) : Prop := (∀ v ∈ hE b, A v) ∧ (∀ v ∈ rawLineSeps b, A v)

mutual
def CA (A : Nat → Prop) : Cst → Prop
  | .lit _ => True
  | .str b => BA A b
  | .arr xs => CAL A xs
  | .obj ms => CAM A ms
def CAL (A : Nat → Prop) : List Cst → Prop
  | [] => True
  | x :: xs => CA A x ∧ CAL A xs
def CAM (A : Nat → Prop) : List (Bytes × Cst) → Prop
  | [] => True
  | (k, v) :: ms => BA A k ∧ CA A v ∧ CAM A ms
end

theorem CAL_iff (A : Nat → Prop) (xs : List Cst) : CAL A xs ↔ ∀ x ∈ xs, CA A x := by
  induction xs with
  | nil => simp [CAL]
  | cons x xs ih => simp [CAL, ih]

theorem CAM_iff (A : Nat → Prop) (ms : List (Bytes × Cst)) : CAM A ms ↔ ∀ m ∈ ms, BA A m.1 ∧ CA A m.2 := by
  induction ms with
  | nil => simp [CAM]
  | cons m ms ih => obtain ⟨k, v⟩ := m; simp [CAM, ih, and_assoc]

theorem CA_litNull (A : Nat → Prop) : CA A litNull := by simp [litNull, CA]

/-- the text-level facts the engine argument rests on -/
structure TextFacts (A : Nat → Prop) : Prop where
  /-- a raw U+2028/U+2029 in a decoded string was raw or an escape in the body -/
  unq : ∀ b, validBody b = true → BA A b → ∀ v ∈ rawLineSeps (unquote b), A v
  /-- with escaping off the encoder's only HTML-class escapes are of raw U+2028/U+2029, and it leaves
  no raw one -/
  quo : ∀ k, (∀ v ∈ rawLineSeps k, A v) → BA A (quoteBody false k)
  /-- reference tokens are pieces of the pointer -/
  tok : ∀ (path p : Bytes), p ∈ splitSlash path → (∀ v ∈ rawLineSeps path, A v) →
    ∀ v ∈ rawLineSeps (decodeToken p), A v

/-- the instance of the generic invariant -/
def escP (A : Nat → Prop) (T : TextFacts A) : GenP where
  PC c := WFC c = true ∧ CA A c
  PK k := ∀ v ∈ rawLineSeps k, A v
  null := ⟨WFC_litNull, CA_litNull A⟩
  obj := by
    intro ms h m hm
    obtain ⟨h1, h2⟩ := h
    simp only [WFC] at h1
    simp only [CA] at h2
    have a := (WFCM_iff ms).1 h1 m hm
    have b := (CAM_iff A ms).1 h2 m hm
    exact ⟨T.unq m.1 a.1 b.1, a.2, b.2⟩
  arr := by
    intro xs h x hx
    obtain ⟨h1, h2⟩ := h
    simp only [WFC] at h1
    simp only [CA] at h2
    exact ⟨(WFCL_iff xs).1 h1 x hx, (CAL_iff A xs).1 h2 x hx⟩
  nilKey := by intro v hv; simp [rawLineSeps] at hv

variable {A : Nat → Prop} {T : TextFacts A}

mutual
theorem GN_WN_esc : ∀ n : Node, GN (escP A T) n → WN n = true
  | .nil, _ => rfl
  | .raw c, h => by simp only [GN] at h; exact h.1
  | .doc keys obj, h => by simp only [GN] at h; simp only [WN]; exact GNM_WNM_esc obj h.2
  | .ary ns, h => by simp only [GN] at h; simp only [WN]; exact GNL_WNL_esc ns h
  | .docNil, _ => rfl
  | .nilAry, _ => rfl
theorem GNM_WNM_esc : ∀ obj : NMembers, GNM (escP A T) obj → WNM obj = true
  | [], _ => rfl
  | (k, n) :: ms, h => by
    simp only [GNM] at h
    simp only [WNM, GN_WN_esc n h.1, GNM_WNM_esc ms h.2, Bool.and_self]
theorem GNL_WNL_esc : ∀ ns : List Node, GNL (escP A T) ns → WNL ns = true
  | [], _ => rfl
  | n :: ns, h => by
    simp only [GNL] at h
    simp only [WNL, GN_WN_esc n h.1, GNL_WNL_esc ns h.2, Bool.and_self]
end

mutual
theorem escape_false : ∀ c : Cst, Cst.escape false c = c
  | .lit _ => rfl
  | .str _ => by simp [Cst.escape]
  | .arr xs => by simp only [Cst.escape, escapeL_false xs]
  | .obj ms => by simp only [Cst.escape, escapeM_false ms]
theorem escapeL_false : ∀ xs : List Cst, Cst.escapeL false xs = xs
  | [] => rfl
  | x :: xs => by simp only [Cst.escapeL, escape_false x, escapeL_false xs]
theorem escapeM_false : ∀ ms : List (Bytes × Cst), Cst.escapeM false ms = ms
  | [] => rfl
  | (k, v) :: ms => by simp [Cst.escapeM, escape_false v, escapeM_false ms]
end

mutual
/-- with escaping off, what the encoder writes for a node under the invariant has allowed bodies -/
theorem CA_cstOf : ∀ n : Node, GN (escP A T) n → CA A (cstOf false n)
  | .nil, _ => CA_litNull A
  | .docNil, _ => CA_litNull A
  | .nilAry, _ => CA_litNull A
  | .raw c, h => by simp only [GN] at h; simp only [cstOf, escape_false]; exact h.2
  | .ary ns, h => by
    simp only [GN] at h
    simp only [cstOf, CA]
    rw [CAL_iff]
    exact CA_cstOfL ns h
  | .doc keys obj, h => by
    simp only [GN] at h
    obtain ⟨hq, hm⟩ := h
    simp only [cstOf, CA]
    rw [CAM_iff]
    intro m hmem
    obtain ⟨k, hk, rfl⟩ := List.mem_map.1 hmem
    exact ⟨T.quo k (hq k hk), lookupC_getD_mem (P := CA A) (CA_litNull A) (fun c hc => CA_cstOfM obj hm k c hc)⟩
theorem CA_cstOfM : ∀ obj : NMembers, GNM (escP A T) obj → ∀ k c, lookupC k (cstOfM false obj) = some c → CA A c
  | [], _, k, c, hc => by simp [cstOfM, lookupC] at hc
  | (k', n) :: ms, h, k, c, hc => by
    simp only [GNM] at h
    simp only [cstOfM, lookupC] at hc
    split at hc
    · simp only [Option.some.injEq] at hc; subst hc; exact CA_cstOf n h.1
    · exact CA_cstOfM ms h.2 k c hc
theorem CA_cstOfL : ∀ ns : List Node, GNL (escP A T) ns → ∀ x ∈ cstOfL false ns, CA A x
  | [], _, x, hx => by simp [cstOfL] at hx
  | n :: ns, h, x, hx => by
    simp only [GNL] at h
    simp only [cstOfL, List.mem_cons] at hx
    rcases hx with rfl | hx
    · exact CA_cstOf n h.1
    · exact CA_cstOfL ns h.2 x hx
end

theorem hcopy_esc : ∀ n, GN (escP A T) n → (escP A T).PC (cstOf false n) :=
  fun n h => ⟨WFC_cstOf false n (GN_WN_esc n h), CA_cstOf n h⟩

/-! ### what a decoded patch provides -/

theorem opValue_CA {ms : List (Bytes × Cst)} (h : CAM A ms) {c : Cst} (hc : opValue ms = some c) : CA A c := by
  unfold opValue member at hc
  cases hl : lookupLastC (ascii "value") ms with
  | none => rw [hl] at hc; simp at hc
  | some c' =>
    rw [hl] at hc
    cases hn : c'.isNullLit with
    | true =>
      simp only [hn, if_true, Option.some.injEq] at hc; subst hc; exact CA_litNull A
    | false =>
      simp only [hn, Bool.false_eq_true, if_false, Option.some.injEq] at hc; subst hc
      obtain ⟨k', hk'⟩ := lookupLastC_mem hl
      exact ((CAM_iff A ms).1 h _ hk').2

theorem opStr_body_CA {name : Bytes} {ms : List (Bytes × Cst)} (hw : WFCM ms = true) (h : CAM A ms) {p : Bytes}
    (hp : opStr name ms = some p) : ∃ b, validBody b = true ∧ BA A b ∧ p = unquote b := by
  unfold opStr member at hp
  cases hl : lookupLastC name ms with
  | none => rw [hl] at hp; simp at hp
  | some c' =>
    rw [hl] at hp
    cases hn : c'.isNullLit with
    | true => simp [hn] at hp
    | false =>
      simp only [hn, Bool.false_eq_true, if_false] at hp
      cases c' with
      | str b =>
        simp only [asString, Option.some.injEq] at hp
        obtain ⟨k', hk'⟩ := lookupLastC_mem hl
        have h1 := ((WFCM_iff ms).1 hw _ hk').2
        have h2 := ((CAM_iff A ms).1 h _ hk').2
        exact ⟨b, by simpa [WFC] using h1, by simpa [CA] using h2, hp.symm⟩
      | lit s => simp [asString] at hp
      | arr xs => simp [asString] at hp
      | obj os => simp [asString] at hp

theorem decodeOp_OpG {ms : List (Bytes × Cst)} {op : Op} (hw : WFCM ms = true) (hc : CAM A ms)
    (h : decodeOp ms = some op) : OpG (escP A T) op := by
  obtain ⟨p, hp, rfl⟩ := DecodePatchLemmas.decodeOp_some ms op h
  refine ⟨fun c hcv => ⟨opValue_wfc hw hcv, opValue_CA hc hcv⟩, ?_⟩
  intro q hq
  obtain ⟨b, hb, hba, rfl⟩ := opStr_body_CA hw hc hp
  exact T.tok _ q hq (T.unq b hb hba)

theorem decodeOps_OpG : ∀ {xs : List Cst} {ops : List Op}, WFCL xs = true → CAL A xs → decodeOps xs = some ops →
    ∀ op ∈ ops, OpG (escP A T) op
  | [], ops, _, _, h => by simp [decodeOps] at h; subst h; simp
  | c :: cs, ops, hw, hc, h => by
    simp only [WFCL, Bool.and_eq_true] at hw
    simp only [CAL] at hc
    cases c with
    | obj ms =>
      simp only [decodeOps] at h
      cases h1 : decodeOp ms with
      | none => simp [h1] at h
      | some op =>
        cases h2 : decodeOps cs with
        | none => simp [h1, h2] at h
        | some ops' =>
          simp only [h1, h2, Option.some.injEq] at h
          subst h
          intro op' hop'
          simp only [List.mem_cons] at hop'
          rcases hop' with rfl | hop'
          · exact decodeOp_OpG (by simpa [WFC] using hw.1) (by simpa [CA] using hc.1) h1
          · exact decodeOps_OpG hw.2 hc.2 h2 op' hop'
    | lit s => simp [decodeOps] at h
    | str b => simp [decodeOps] at h
    | arr xs => simp [decodeOps] at h

theorem decodePatch_OpG {patch : Bytes} {ops : List Op} (h : decodePatch patch = .ok ops)
    (hca : ∀ c, parseCst patch = some c → CA A c) : ∀ op ∈ ops, OpG (escP A T) op := by
  obtain ⟨xs, hp, hd⟩ := decodePatch_inv h
  have hw := (parseCst_wfc_A patch _ hp).1
  have hc := hca _ hp
  exact decodeOps_OpG (by simpa [WFC] using hw) (by simpa [CA] using hc) hd

/-- **the tree `applyBytes` prints with EscapeHTML off has allowed bodies only** -/
theorem applyBytes_CA (o : Opts) (ho : o.esc = false) (doc : Bytes) (ops : List Op) (out : Bytes)
    (hne : doc ≠ [])
    (hdoc : ∀ c, parseCst doc = some c → CA A c) (hops : ∀ op ∈ ops, OpG (escP A T) op)
    (h : applyBytes o [] doc ops = .ok out) :
    ∃ t : Cst, out = Cst.print t ∧ WFC t = true ∧ CA A t := by
  unfold applyBytes at h
  simp only [hne, if_false] at h
  split at h
  · cases h
  · cases hp : parseCst doc with
    | none => simp [hp] at h
    | some c =>
      have hwc := parseCst_wfc_A doc c hp
      have hpc : (escP A T).PC c := ⟨hwc.1, hdoc c hp⟩
      simp only [hp] at h
      cases hd : decodeRoot c with
      | panic => simp [hd] at h
      | err e => simp [hd] at h
      | ok con =>
        simp only [hd] at h
        have hrg : RootG (escP A T) { con := con, self := .raw c, selfCR := c.isArr && !goIsArray doc } := by
          have := decodeRoot_G (P := escP A T) hpc
          rw [hd] at this
          exact ⟨this, hpc⟩
        have hG := applyOps_G (P := escP A T) o (by rw [ho]; exact hcopy_esc) ops _ 0 hrg hops
        cases happ : applyOps o { con := con, self := .raw c, selfCR := c.isArr && !goIsArray doc } 0 ops with
        | panic => simp [happ] at h
        | err e => simp [happ] at h
        | ok r =>
          rw [happ] at hG
          simp only [happ, ho] at h
          have hpc' := hcopy_esc (A := A) (T := T) r.con hG.1
          cases hcon : r.con with
          | docNil => simp [marshalRoot, hcon] at h
          | nilAry =>
            simp only [marshalRoot, hcon, if_true, Outcome.ok.injEq] at h
            exact ⟨litNull, h.symm, WFC_litNull, CA_litNull A⟩
          | nil =>
            simp only [marshalRoot, hcon, if_true, Outcome.ok.injEq] at h
            rw [hcon] at hpc'
            exact ⟨_, h.symm, hpc'.1, hpc'.2⟩
          | raw c' =>
            simp only [marshalRoot, hcon, if_true, Outcome.ok.injEq] at h
            rw [hcon] at hpc'
            exact ⟨_, h.symm, hpc'.1, hpc'.2⟩
          | doc keys obj =>
            simp only [marshalRoot, hcon, if_true, Outcome.ok.injEq] at h
            rw [hcon] at hpc'
            exact ⟨_, h.symm, hpc'.1, hpc'.2⟩
          | ary ns =>
            simp only [marshalRoot, hcon, if_true, Outcome.ok.injEq] at h
            rw [hcon] at hpc'
            exact ⟨_, h.symm, hpc'.1, hpc'.2⟩

end Impl
end JP
