import JP.Cst
import JP.Lemmas.ParseAux

/-!
# Well-formed syntax trees

`WFC c`: every literal of `c` is `true`/`false`/`null` or a complete RFC 8259 number, every
string body and member-name body is a complete valid body (the reference parser reads it
up to a closing quote and returns it unchanged); hereditary.  Bool-valued so that closed
instances are decidable by evaluation.
-/

namespace JP

/-- `b` is exactly what `parseStrBody` reads up to the closing quote -/
def validBody (b : Bytes) : Bool := decide (parseStrBody (b ++ [34]) = some (b, []))

/-- a literal the grammar accepts: one of the three words or a complete number -/
def validLit (l : Bytes) : Bool :=
  decide (l = ascii "true") || decide (l = ascii "false") || decide (l = ascii "null")
    || decide (parseNumber l = some (l, []))

mutual
def WFC : Cst → Bool
  | .lit l => validLit l
  | .str b => validBody b
  | .arr xs => WFCL xs
  | .obj ms => WFCM ms
def WFCL : List Cst → Bool
  | [] => true
  | x :: xs => WFC x && WFCL xs
def WFCM : List (Bytes × Cst) → Bool
  | [] => true
  | (k, v) :: ms => validBody k && WFC v && WFCM ms
end

theorem validBody_iff (b : Bytes) : validBody b = true ↔ parseStrBody (b ++ [34]) = some (b, []) := by
  simp [validBody]

example : WFC (.obj [([97, 92, 110], .arr [.lit [45, 49, 46, 53], .str [92, 117, 48, 48, 101, 57], .lit [110, 117, 108, 108]])]) = true := by
  decide

end JP
