import JP.Lemmas.TextBody

/-!
# The HTML escaper `escBody`: idempotent, clean, value preserving
-/

namespace JP

/-- bytes the escaper never touches -/
def plainByte (c : UInt8) : Prop := c ≠ 60 ∧ c ≠ 62 ∧ c ≠ 38 ∧ c ≠ 0xE2

instance (c : UInt8) : Decidable (plainByte c) := by unfold plainByte; infer_instance

theorem escBody_plain (c : UInt8) (rest : Bytes) (h : plainByte c) : escBody (c :: rest) = c :: escBody rest := by
  obtain ⟨h1, h2, h3, h4⟩ := h
  rw [escBody_cons]
  simp only [h1, h2, h3, h4, false_or, false_and, if_false]

theorem escBody_lt (rest : Bytes) : escBody (60 :: rest) = 92 :: 117 :: 48 :: 48 :: 51 :: 99 :: escBody rest := by
  rw [escBody_cons]; simp only [true_or, if_true]; rfl

theorem escBody_gt (rest : Bytes) : escBody (62 :: rest) = 92 :: 117 :: 48 :: 48 :: 51 :: 101 :: escBody rest := by
  rw [escBody_cons]; simp only [true_or, or_true, if_true]; rfl

theorem escBody_amp (rest : Bytes) : escBody (38 :: rest) = 92 :: 117 :: 48 :: 48 :: 50 :: 54 :: escBody rest := by
  rw [escBody_cons]; simp only [or_true, if_true]; rfl

theorem escBody_ls (rest : Bytes) :
    escBody (0xE2 :: 0x80 :: 0xA8 :: rest) = 92 :: 117 :: 50 :: 48 :: 50 :: 56 :: escBody rest := by
  rw [escBody_cons]
  simp only [show ¬ ((0xE2 : UInt8) = 60 ∨ (0xE2 : UInt8) = 62 ∨ (0xE2 : UInt8) = 38) by decide, if_false]
  simp only [List.take_succ_cons, List.take_zero, true_and, if_true, List.drop_succ_cons, List.drop_zero]
  rfl

theorem escBody_ps (rest : Bytes) :
    escBody (0xE2 :: 0x80 :: 0xA9 :: rest) = 92 :: 117 :: 50 :: 48 :: 50 :: 57 :: escBody rest := by
  rw [escBody_cons]
  simp only [show ¬ ((0xE2 : UInt8) = 60 ∨ (0xE2 : UInt8) = 62 ∨ (0xE2 : UInt8) = 38) by decide, if_false]
  simp only [List.take_succ_cons, List.take_zero, true_and, List.drop_succ_cons, List.drop_zero]
  simp only [show ¬ ([0x80, 0xA9] : Bytes) = [0x80, 0xA8] by decide, if_false, if_true]
  rfl

theorem escBody_E2 (rest : Bytes) (h1 : rest.take 2 ≠ [0x80, 0xA8]) (h2 : rest.take 2 ≠ [0x80, 0xA9]) :
    escBody (0xE2 :: rest) = 0xE2 :: escBody rest := by
  rw [escBody_cons]
  simp only [show ¬ ((0xE2 : UInt8) = 60 ∨ (0xE2 : UInt8) = 62 ∨ (0xE2 : UInt8) = 38) by decide, if_false,
    h1, h2, and_false]

theorem take2_eq (rest : Bytes) (x y : UInt8) : rest.take 2 = [x, y] ↔ ∃ t, rest = x :: y :: t := by
  rcases rest with _ | ⟨a, _ | ⟨b, t⟩⟩
  · simp
  · simp
  · simp only [List.take_succ_cons, List.take_zero, List.cons.injEq, and_true]
    constructor
    · rintro ⟨rfl, rfl⟩; exact ⟨t, rfl, rfl, rfl⟩
    · rintro ⟨t', h1, h2, _⟩; exact ⟨h1, h2⟩

/-- the four ways one step of the escaper goes -/
theorem escBody_cases (c : UInt8) (rest : Bytes) :
    ((c = 60 ∨ c = 62 ∨ c = 38) ∧ ∃ x y, escBody (c :: rest) = 92 :: 117 :: 48 :: 48 :: x :: y :: escBody rest ∧
        plainByte x ∧ plainByte y ∧ x ≠ 92 ∧ y ≠ 92) ∨
    (∃ t, c = 0xE2 ∧ rest = 0x80 :: 0xA8 :: t ∧ escBody (c :: rest) = 92 :: 117 :: 50 :: 48 :: 50 :: 56 :: escBody t) ∨
    (∃ t, c = 0xE2 ∧ rest = 0x80 :: 0xA9 :: t ∧ escBody (c :: rest) = 92 :: 117 :: 50 :: 48 :: 50 :: 57 :: escBody t) ∨
    (¬ (c = 60 ∨ c = 62 ∨ c = 38) ∧ (c = 0xE2 → rest.take 2 ≠ [0x80, 0xA8] ∧ rest.take 2 ≠ [0x80, 0xA9]) ∧
      escBody (c :: rest) = c :: escBody rest) := by
  by_cases h60 : c = 60
  · left; subst h60; exact ⟨by simp, 51, 99, escBody_lt rest, by decide, by decide, by decide, by decide⟩
  by_cases h62 : c = 62
  · left; subst h62; exact ⟨by simp, 51, 101, escBody_gt rest, by decide, by decide, by decide, by decide⟩
  by_cases h38 : c = 38
  · left; subst h38; exact ⟨by simp, 50, 54, escBody_amp rest, by decide, by decide, by decide, by decide⟩
  by_cases hE2 : c = 0xE2
  · subst hE2
    by_cases h1 : rest.take 2 = [0x80, 0xA8]
    · obtain ⟨t, rfl⟩ := (take2_eq _ _ _).1 h1
      right; left; exact ⟨t, rfl, rfl, escBody_ls t⟩
    by_cases h2 : rest.take 2 = [0x80, 0xA9]
    · obtain ⟨t, rfl⟩ := (take2_eq _ _ _).1 h2
      right; right; left; exact ⟨t, rfl, rfl, escBody_ps t⟩
    right; right; right
    exact ⟨by decide, fun _ => ⟨h1, h2⟩, escBody_E2 rest h1 h2⟩
  · right; right; right
    exact ⟨by simp [h60, h62, h38], fun h => absurd h hE2, escBody_plain c rest ⟨h60, h62, h38, hE2⟩⟩

/-- an output head other than a backslash is an unchanged input head -/
theorem escBody_head (l : Bytes) (y : UInt8) (t : Bytes) (h : escBody l = y :: t) (hy : y ≠ 92) :
    ∃ r, l = y :: r ∧ t = escBody r := by
  cases l with
  | nil => simp [escBody_nil] at h
  | cons c rest =>
    rcases escBody_cases c rest with ⟨_, x, y', he, _⟩ | ⟨t', _, _, he⟩ | ⟨t', _, _, he⟩ | ⟨_, _, he⟩
    · rw [he] at h; injection h with h _; exact absurd h.symm hy
    · rw [he] at h; injection h with h _; exact absurd h.symm hy
    · rw [he] at h; injection h with h _; exact absurd h.symm hy
    · rw [he] at h; injection h with h1 h2; subst h1; exact ⟨rest, rfl, h2.symm⟩

theorem escBody_take2 (rest : Bytes) (x : UInt8) (hx : x ≠ 92) (h : (escBody rest).take 2 = [0x80, x]) :
    rest.take 2 = [0x80, x] := by
  obtain ⟨t, ht⟩ := (take2_eq _ _ _).1 h
  obtain ⟨r, hr, ht'⟩ := escBody_head _ _ _ ht (by decide)
  obtain ⟨r', hr', _⟩ := escBody_head _ _ _ ht'.symm hx
  rw [hr, hr']; rfl

/-- induction along the steps of the escaper -/
theorem esc_induction {P : Bytes → Prop} (nil : P [])
    (cons : ∀ c rest, P rest → P (rest.drop 2) → P (c :: rest)) : ∀ l, P l := by
  intro l
  generalize hn : l.length = n
  induction n using Nat.strongRecOn generalizing l with
  | _ n ih =>
    cases l with
    | nil => exact nil
    | cons b rest =>
      apply cons
      · exact ih _ (by simp only [List.length_cons] at hn; omega) _ rfl
      · exact ih _ (by simp only [List.length_cons, List.length_drop] at hn ⊢; omega) _ rfl

theorem escBody_idem (b : Bytes) : escBody (escBody b) = escBody b := by
  induction b using esc_induction with
  | nil => rfl
  | cons c rest ih1 ih2 =>
    rcases escBody_cases c rest with ⟨_, x, y, he, hx, hy, _⟩ | ⟨t, _, rfl, he⟩ | ⟨t, _, rfl, he⟩ | ⟨hn, hE, he⟩
    · rw [he, escBody_plain _ _ (by decide), escBody_plain _ _ (by decide), escBody_plain _ _ (by decide),
        escBody_plain _ _ (by decide), escBody_plain _ _ hx, escBody_plain _ _ hy, ih1]
    · simp only [List.drop_succ_cons, List.drop_zero] at ih2
      rw [he, escBody_plain _ _ (by decide), escBody_plain _ _ (by decide), escBody_plain _ _ (by decide),
        escBody_plain _ _ (by decide), escBody_plain _ _ (by decide), escBody_plain _ _ (by decide), ih2]
    · simp only [List.drop_succ_cons, List.drop_zero] at ih2
      rw [he, escBody_plain _ _ (by decide), escBody_plain _ _ (by decide), escBody_plain _ _ (by decide),
        escBody_plain _ _ (by decide), escBody_plain _ _ (by decide), escBody_plain _ _ (by decide), ih2]
    · rw [he]
      rcases escBody_cases c (escBody rest) with ⟨h, _⟩ | ⟨t, hc, ht, _⟩ | ⟨t, hc, ht, _⟩ | ⟨_, _, he'⟩
      · exact absurd h hn
      · have := escBody_take2 rest 0xA8 (by decide) (by rw [ht]; rfl)
        exact absurd this (hE hc).1
      · have := escBody_take2 rest 0xA9 (by decide) (by rw [ht]; rfl)
        exact absurd this (hE hc).2
      · rw [he', ih1]

theorem hasRawHtml_cons (c : UInt8) (cs : Bytes) :
    hasRawHtml (c :: cs) = (decide (c = 60) || decide (c = 62) || decide (c = 38)
      || (decide (c = 0xE2) && (cs.take 2 == [0x80, 0xA8] || cs.take 2 == [0x80, 0xA9]))
      || hasRawHtml cs) := by
  rw [hasRawHtml]

theorem hasRawHtml_plain (c : UInt8) (cs : Bytes) (h : plainByte c) : hasRawHtml (c :: cs) = hasRawHtml cs := by
  obtain ⟨h1, h2, h3, h4⟩ := h
  rw [hasRawHtml_cons]
  simp [h1, h2, h3, h4]

theorem escBody_clean (b : Bytes) : hasRawHtml (escBody b) = false := by
  induction b using esc_induction with
  | nil => rfl
  | cons c rest ih1 ih2 =>
    rcases escBody_cases c rest with ⟨_, x, y, he, hx, hy, _⟩ | ⟨t, _, rfl, he⟩ | ⟨t, _, rfl, he⟩ | ⟨hn, hE, he⟩
    · rw [he, hasRawHtml_plain _ _ (by decide), hasRawHtml_plain _ _ (by decide), hasRawHtml_plain _ _ (by decide),
        hasRawHtml_plain _ _ (by decide), hasRawHtml_plain _ _ hx, hasRawHtml_plain _ _ hy, ih1]
    · simp only [List.drop_succ_cons, List.drop_zero] at ih2
      rw [he, hasRawHtml_plain _ _ (by decide), hasRawHtml_plain _ _ (by decide), hasRawHtml_plain _ _ (by decide),
        hasRawHtml_plain _ _ (by decide), hasRawHtml_plain _ _ (by decide), hasRawHtml_plain _ _ (by decide), ih2]
    · simp only [List.drop_succ_cons, List.drop_zero] at ih2
      rw [he, hasRawHtml_plain _ _ (by decide), hasRawHtml_plain _ _ (by decide), hasRawHtml_plain _ _ (by decide),
        hasRawHtml_plain _ _ (by decide), hasRawHtml_plain _ _ (by decide), hasRawHtml_plain _ _ (by decide), ih2]
    · rw [he, hasRawHtml_cons, ih1]
      simp only [not_or] at hn
      simp only [hn.1, hn.2.1, hn.2.2, decide_false, Bool.false_or, Bool.or_false, Bool.and_eq_false_iff,
        decide_eq_false_iff_not, Bool.or_eq_false_iff, beq_eq_false_iff_ne, ne_eq]
      by_cases hc : c = 0xE2
      · right
        exact ⟨fun h => (hE hc).1 (escBody_take2 rest _ (by decide) h),
               fun h => (hE hc).2 (escBody_take2 rest _ (by decide) h)⟩
      · left; exact hc


theorem plain_of_cont (b : UInt8) (h1 : 0x80 ≤ b.toNat) (h2 : b.toNat ≤ 0xBF) : plainByte b ∧ b ≠ 92 := by
  refine ⟨⟨?_, ?_, ?_, ?_⟩, ?_⟩ <;> (rintro rfl; revert h1 h2; decide)

theorem decodeRune_escBody (c : UInt8) (rest : Bytes) :
    decodeRune (c :: escBody rest) = decodeRune (c :: rest) ∧
    (c :: escBody rest).drop (decodeRune (c :: rest)).2 = escBody ((c :: rest).drop (decodeRune (c :: rest)).2) := by
  rcases decodeRune_cases c rest with ⟨h1, hd⟩ | ⟨h1, hd⟩ | ⟨b1, t, rfl, h1, h2, c1, c2, hd⟩ |
      ⟨b1, b2, t, rfl, h1, h2, c1, c2, c3, c4, d1, d2, hd⟩ |
      ⟨b1, b2, b3, t, rfl, h1, h2, c1, c2, c3, c4, d1, d2, f1, f2, hd⟩
  · rw [hd, decodeRune_one _ _ h1]; exact ⟨rfl, rfl⟩
  · rw [hd]
    refine ⟨?_, rfl⟩
    rcases decodeRune_cases c (escBody rest) with ⟨g1, gd⟩ | ⟨g1, gd⟩ | ⟨b1, t, ht, g1, g2, c1, c2, gd⟩ |
      ⟨b1, b2, t, ht, g1, g2, c1, c2, c3, c4, d1, d2, gd⟩ |
      ⟨b1, b2, b3, t, ht, g1, g2, c1, c2, c3, c4, d1, d2, f1, f2, gd⟩
    · omega
    · exact gd
    · obtain ⟨r, rfl, _⟩ := escBody_head _ _ _ ht (plain_of_cont b1 c1 c2).2
      rw [gd r] at hd; simp at hd
    · obtain ⟨r, rfl, hr⟩ := escBody_head _ _ _ ht (plain_of_cont b1 c1 c2).2
      obtain ⟨r', rfl, _⟩ := escBody_head _ _ _ hr.symm (plain_of_cont b2 d1 d2).2
      rw [gd r'] at hd; simp at hd
    · obtain ⟨r, rfl, hr⟩ := escBody_head _ _ _ ht (plain_of_cont b1 c1 c2).2
      obtain ⟨r', rfl, hr'⟩ := escBody_head _ _ _ hr.symm (plain_of_cont b2 d1 d2).2
      obtain ⟨r'', rfl, _⟩ := escBody_head _ _ _ hr'.symm (plain_of_cont b3 f1 f2).2
      rw [gd r''] at hd; simp at hd
  · rw [escBody_plain _ _ (plain_of_cont b1 c1 c2).1, hd, hd]; exact ⟨rfl, rfl⟩
  · rw [escBody_plain _ _ (plain_of_cont b1 c1 c2).1, escBody_plain _ _ (plain_of_cont b2 d1 d2).1, hd, hd]
    exact ⟨rfl, rfl⟩
  · rw [escBody_plain _ _ (plain_of_cont b1 c1 c2).1, escBody_plain _ _ (plain_of_cont b2 d1 d2).1,
      escBody_plain _ _ (plain_of_cont b3 f1 f2).1, hd, hd]
    exact ⟨rfl, rfl⟩


/-! ### escaping keeps the decoded value -/

set_option maxRecDepth 100000 in
theorem isHex_plain : ∀ b : UInt8, isHex b = true → plainByte b ∧ b ≠ 92 := by
  apply byte_forall; decide

theorem simpleEsc_plain (e : UInt8) (h : simpleEsc e) : plainByte e ∧ e ≠ 117 := by
  rcases h with h | h | h | h | h | h | h | h <;> subst h <;> decide

theorem decodeRune_ls (t : Bytes) : decodeRune (0xE2 :: 0x80 :: 0xA8 :: t) = (0x2028, 3) := by
  rw [decodeRune_three _ _ _ _ (by decide) (by decide) (by decide) (by decide) (by decide) (by decide) (by decide) (by decide)]
  rfl

theorem decodeRune_ps (t : Bytes) : decodeRune (0xE2 :: 0x80 :: 0xA9 :: t) = (0x2029, 3) := by
  rw [decodeRune_three _ _ _ _ (by decide) (by decide) (by decide) (by decide) (by decide) (by decide) (by decide) (by decide)]
  rfl

/-- dropping the first rune of a valid body that starts with a non-ASCII byte leaves a valid body -/
theorem VB_drop_rune (c : UInt8) (rest : Bytes) (hc : 0x80 ≤ c.toNat) (h : VB (c :: rest)) :
    VB ((c :: rest).drop (decodeRune (c :: rest)).2) := by
  have h92 : c ≠ 92 := by rintro rfl; revert hc; decide
  have hr := ((VB_plain_iff c rest h92).1 h).2.2
  rcases decodeRune_cases c rest with ⟨h1, hd⟩ | ⟨h1, hd⟩ | ⟨b1, t, rfl, h1, h2, c1, c2, hd⟩ |
      ⟨b1, b2, t, rfl, h1, h2, c1, c2, c3, c4, d1, d2, hd⟩ |
      ⟨b1, b2, b3, t, rfl, h1, h2, c1, c2, c3, c4, d1, d2, f1, f2, hd⟩
  · rw [hd]; exact hr
  · rw [hd]; exact hr
  · rw [hd]
    exact ((VB_plain_iff b1 t (plain_of_cont b1 c1 c2).2).1 hr).2.2
  · rw [hd]
    have := ((VB_plain_iff b1 _ (plain_of_cont b1 c1 c2).2).1 hr).2.2
    exact ((VB_plain_iff b2 _ (plain_of_cont b2 d1 d2).2).1 this).2.2
  · rw [hd]
    have := ((VB_plain_iff b1 _ (plain_of_cont b1 c1 c2).2).1 hr).2.2
    have := ((VB_plain_iff b2 _ (plain_of_cont b2 d1 d2).2).1 this).2.2
    exact ((VB_plain_iff b3 _ (plain_of_cont b3 f1 f2).2).1 this).2.2

/-- what follows a `\uXXXX` escape in a valid body: another `\uXXXX` escape, which the escaper leaves
alone, or something that cannot complete a surrogate pair before or after escaping -/
theorem getu4_escBody (rest : Bytes) (h : VB rest) :
    (∃ g1 g2 g3 g4 rest', rest = 92 :: 117 :: g1 :: g2 :: g3 :: g4 :: rest' ∧ VB rest' ∧
        escBody rest = 92 :: 117 :: g1 :: g2 :: g3 :: g4 :: escBody rest') ∨
    (getu4 rest = none ∧ ∀ rr, utf16Pair rr (getu4 (escBody rest)) = none) := by
  rcases VB_cases rest h with rfl | ⟨c, r, rfl, h92, h34, h32, hr⟩ | ⟨e, r, rfl, he, hr⟩ |
      ⟨g1, g2, g3, g4, r, rfl, x1, x2, x3, x4, hr⟩
  · right; exact ⟨rfl, fun rr => rfl⟩
  · right
    refine ⟨getu4_ne c r h92, fun rr => ?_⟩
    rcases escBody_cases c r with ⟨hc, _⟩ | ⟨t, _, rfl, he⟩ | ⟨t, _, rfl, he⟩ | ⟨_, _, he⟩
    · rcases hc with rfl | rfl | rfl
      · rw [escBody_lt, getu4_u, hex4_cons4, show hex4 [48, 48, 51, 99] = some 60 by decide]
        exact utf16Pair_small _ _ (by omega)
      · rw [escBody_gt, getu4_u, hex4_cons4, show hex4 [48, 48, 51, 101] = some 62 by decide]
        exact utf16Pair_small _ _ (by omega)
      · rw [escBody_amp, getu4_u, hex4_cons4, show hex4 [48, 48, 50, 54] = some 38 by decide]
        exact utf16Pair_small _ _ (by omega)
    · rw [he, getu4_u, hex4_cons4, show hex4 [50, 48, 50, 56] = some 0x2028 by decide]
      exact utf16Pair_small _ _ (by omega)
    · rw [he, getu4_u, hex4_cons4, show hex4 [50, 48, 50, 57] = some 0x2029 by decide]
      exact utf16Pair_small _ _ (by omega)
    · rw [he, getu4_ne c _ h92]; rfl
  · right
    have hp := simpleEsc_plain e he
    refine ⟨getu4_ne2 e r hp.2, fun rr => ?_⟩
    rw [escBody_plain _ _ (by decide), escBody_plain _ _ hp.1, getu4_ne2 e _ hp.2]; rfl
  · left
    refine ⟨g1, g2, g3, g4, r, rfl, hr, ?_⟩
    rw [escBody_plain _ _ (by decide), escBody_plain _ _ (by decide), escBody_plain _ _ (isHex_plain _ x1).1,
      escBody_plain _ _ (isHex_plain _ x2).1, escBody_plain _ _ (isHex_plain _ x3).1,
      escBody_plain _ _ (isHex_plain _ x4).1]


theorem unquoteBody_escBody : ∀ (n : Nat) (b : Bytes), b.length ≤ n → VB b → unquoteBody (escBody b) = unquoteBody b := by
  intro n
  induction n with
  | zero =>
    intro b hn _
    cases b with
    | nil => rfl
    | cons _ _ => simp at hn
  | succ n ih =>
    intro b hn h
    rcases VB_cases b h with rfl | ⟨c, r, rfl, h92, h34, h32, hr⟩ | ⟨e, r, rfl, he, hr⟩ |
        ⟨g1, g2, g3, g4, r, rfl, x1, x2, x3, x4, hr⟩
    · rfl
    · simp only [List.length_cons] at hn
      rcases escBody_cases c r with ⟨hc, _⟩ | ⟨t, rfl, rfl, he⟩ | ⟨t, rfl, rfl, he⟩ | ⟨hns, _, he⟩
      · have ihr := ih r (by omega) hr
        rcases hc with rfl | rfl | rfl
        · rw [escBody_lt, unquoteBody_u4 _ _ _ _ _ 60 (by decide) (by decide), ihr,
            unquoteBody_plain _ _ (by decide)]
          rfl
        · rw [escBody_gt, unquoteBody_u4 _ _ _ _ _ 62 (by decide) (by decide), ihr,
            unquoteBody_plain _ _ (by decide)]
          rfl
        · rw [escBody_amp, unquoteBody_u4 _ _ _ _ _ 38 (by decide) (by decide), ihr,
            unquoteBody_plain _ _ (by decide)]
          rfl
      · have ht : VB t := by
          have := ((VB_plain_iff _ _ (by decide)).1 hr).2.2
          exact ((VB_plain_iff _ _ (by decide)).1 this).2.2
        simp only [List.length_cons] at hn
        have iht := ih t (by omega) ht
        rw [he, unquoteBody_u4 _ _ _ _ _ 0x2028 (by decide) (by decide), iht,
            unquoteBody_plain _ _ (by decide), decodeRune_ls]
        rfl
      · have ht : VB t := by
          have := ((VB_plain_iff _ _ (by decide)).1 hr).2.2
          exact ((VB_plain_iff _ _ (by decide)).1 this).2.2
        simp only [List.length_cons] at hn
        have iht := ih t (by omega) ht
        rw [he, unquoteBody_u4 _ _ _ _ _ 0x2029 (by decide) (by decide), iht,
            unquoteBody_plain _ _ (by decide), decodeRune_ps]
        rfl
      · rw [he, unquoteBody_plain _ _ h92, unquoteBody_plain _ _ h92]
        by_cases hlt : c.toNat < 128
        · simp only [hlt, if_true, ih r (by omega) hr]
        · have hD := decodeRune_escBody c r
          have hsz := decodeRune_size_pos c r
          have hv := VB_drop_rune c r (by omega) h
          have ihd := ih _ (by simp only [List.length_drop, List.length_cons]; omega) hv
          simp only [hlt, if_false, hD.1, hD.2, ihd]
    · have hp := simpleEsc_plain e he
      simp only [List.length_cons] at hn
      rw [escBody_plain _ _ (by decide), escBody_plain _ _ hp.1, unquoteBody_simple _ _ he,
        unquoteBody_simple _ _ he, ih r (by omega) hr]
    · simp only [List.length_cons] at hn
      have hesc : escBody (92 :: 117 :: g1 :: g2 :: g3 :: g4 :: r) = 92 :: 117 :: g1 :: g2 :: g3 :: g4 :: escBody r := by
        rw [escBody_plain _ _ (by decide), escBody_plain _ _ (by decide), escBody_plain _ _ (isHex_plain _ x1).1,
          escBody_plain _ _ (isHex_plain _ x2).1, escBody_plain _ _ (isHex_plain _ x3).1,
          escBody_plain _ _ (isHex_plain _ x4).1]
      obtain ⟨rr, hrr⟩ := hex4_isSome g1 g2 g3 g4 x1 x2 x3 x4
      have ihr := ih r (by omega) hr
      rw [hesc]
      cases hs : isSurrogate rr with
      | false => rw [unquoteBody_u4 _ _ _ _ _ rr hrr hs, unquoteBody_u4 _ _ _ _ _ rr hrr hs, ihr]
      | true =>
        rcases getu4_escBody r hr with ⟨k1, k2, k3, k4, r', rfl, hr', he'⟩ | ⟨hg, hg'⟩
        · simp only [List.length_cons] at hn
          cases hp : utf16Pair rr (getu4 (92 :: 117 :: k1 :: k2 :: k3 :: k4 :: r')) with
          | none =>
            have hp' : utf16Pair rr (getu4 (escBody (92 :: 117 :: k1 :: k2 :: k3 :: k4 :: r'))) = none := by
              rw [he', getu4_u, hex4_cons4]; rw [getu4_u, hex4_cons4] at hp; exact hp
            rw [unquoteBody_u4_lone _ _ _ _ _ rr hrr hs hp, unquoteBody_u4_lone _ _ _ _ _ rr hrr hs hp', ihr]
          | some dec =>
            have hp' : utf16Pair rr (getu4 (escBody (92 :: 117 :: k1 :: k2 :: k3 :: k4 :: r'))) = some dec := by
              rw [he', getu4_u, hex4_cons4]; rw [getu4_u, hex4_cons4] at hp; exact hp
            rw [unquoteBody_u4_pair _ _ _ _ _ rr dec hrr hs hp, unquoteBody_u4_pair _ _ _ _ _ rr dec hrr hs hp', he']
            simp only [List.drop_succ_cons, List.drop_zero]
            rw [ih r' (by omega) hr']
        · have hp : utf16Pair rr (getu4 r) = none := by rw [hg]; rfl
          rw [unquoteBody_u4_lone _ _ _ _ _ rr hrr hs hp, unquoteBody_u4_lone _ _ _ _ _ rr hrr hs (hg' rr), ihr]

/-- escaping a scanner-valid body does not change what it decodes to -/
theorem unquote_escBody (b : Bytes) (hb : parseStrBody (b ++ [34]) = some (b, [])) :
    unquote (escBody b) = unquote b := by
  simp only [unquote, unquoteBody_escBody b.length b (Nat.le_refl _) hb]

/-- the hypothesis cannot be dropped: `\<` is rejected (decodes to nothing), its escaped form `\\u003c` is not -/
example : unquote (escBody [92, 60]) ≠ unquote [92, 60] := by decide


end JP
