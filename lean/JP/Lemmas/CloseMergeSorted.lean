import JP.Lemmas.EqvLaws
import JP.Lemmas.EqualBasic
import JP.Impl.Merge

/-!
# Name-sorted member lists: `bytesLt`, `insertSorted`, `mergeSorted`, `anyOf`

`anyOf v` is what Go's `Unmarshal` into `any` followed by `Marshal` makes of a value: object
members de-duplicated (last wins) and sorted by name.  Here: `bytesLt` is a strict total order;
`insertSorted` keeps a list sorted and acts on lookups like a map assignment; `anyOf v` is
hereditarily sorted (`Norm`), hence duplicate-free, and for duplicate-free `v` it is `eqv` to `v`.
-/

namespace JP
namespace Impl
open Value

/-! ### `bytesLt` is a strict total order -/

theorem bytesLt_irrefl : ∀ a : Bytes, bytesLt a a = false
  | [] => rfl
  | a :: as => by
    have : ¬ a < a := by rw [UInt8.lt_iff_toNat_lt]; omega
    simp only [bytesLt, this, if_false]
    exact bytesLt_irrefl as

theorem bytesLt_trans : ∀ a b c : Bytes, bytesLt a b = true → bytesLt b c = true → bytesLt a c = true
  | [], [], _, h, _ => by simp [bytesLt] at h
  | [], _ :: _, [], _, h => by simp [bytesLt] at h
  | [], _ :: _, _ :: _, _, _ => rfl
  | _ :: _, [], _, h, _ => by simp [bytesLt] at h
  | _ :: _, _ :: _, [], _, h => by simp [bytesLt] at h
  | a :: as, b :: bs, c :: cs, h1, h2 => by
    simp only [bytesLt] at h1 h2 ⊢
    simp only [UInt8.lt_iff_toNat_lt] at h1 h2 ⊢
    by_cases hab : a.toNat < b.toNat
    · by_cases hbc : b.toNat < c.toNat
      · rw [if_pos (by omega)]
      · rw [if_neg hbc] at h2
        by_cases hcb : c.toNat < b.toNat
        · rw [if_pos hcb] at h2; cases h2
        · rw [if_pos (by omega)]
    · rw [if_neg hab] at h1
      by_cases hba : b.toNat < a.toNat
      · rw [if_pos hba] at h1; cases h1
      · rw [if_neg hba] at h1
        by_cases hbc : b.toNat < c.toNat
        · rw [if_pos (by omega)]
        · rw [if_neg hbc] at h2
          by_cases hcb : c.toNat < b.toNat
          · rw [if_pos hcb] at h2; cases h2
          · rw [if_neg hcb] at h2
            rw [if_neg (by omega), if_neg (by omega)]
            exact bytesLt_trans as bs cs h1 h2

theorem bytesLt_total : ∀ a b : Bytes, bytesLt a b = false → a ≠ b → bytesLt b a = true
  | [], [], _, h => absurd rfl h
  | [], _ :: _, h, _ => by simp [bytesLt] at h
  | _ :: _, [], _, _ => rfl
  | a :: as, b :: bs, h1, h2 => by
    simp only [bytesLt] at h1 ⊢
    simp only [UInt8.lt_iff_toNat_lt] at h1 ⊢
    by_cases hab : a.toNat < b.toNat
    · rw [if_pos hab] at h1; cases h1
    · rw [if_neg hab] at h1
      by_cases hba : b.toNat < a.toNat
      · rw [if_pos hba]
      · rw [if_neg hba] at h1
        rw [if_neg hba, if_neg hab]
        have hEq : a = b := UInt8.toNat_inj.1 (by omega)
        subst hEq
        exact bytesLt_total as bs h1 (fun e => h2 (by rw [e]))

/-! ### sorted member lists -/

/-- names strictly increasing -/
def SortedK (ms : Members) : Prop := ms.Pairwise fun x y => bytesLt x.1 y.1 = true

theorem SortedK_nil : SortedK [] := List.Pairwise.nil

theorem SortedK_cons (m : Bytes × Value) (ms : Members) :
    SortedK (m :: ms) ↔ (∀ y ∈ ms, bytesLt m.1 y.1 = true) ∧ SortedK ms := List.pairwise_cons

theorem SortedK_nodup (ms : Members) (h : SortedK ms) : nodupKeys (ms.map Prod.fst) = true := by
  rw [nodupKeys_iff, List.Nodup, List.pairwise_map]
  refine List.Pairwise.imp ?_ h
  intro a b hab e
  rw [e, bytesLt_irrefl] at hab
  cases hab

theorem mem_insertSorted (k : Bytes) (v : Value) : ∀ (ms : Members) (x : Bytes × Value),
    x ∈ insertSorted k v ms → x = (k, v) ∨ x ∈ ms
  | [], x, h => by simp only [insertSorted, List.mem_singleton] at h; exact Or.inl h
  | (k', v') :: ms, x, h => by
    simp only [insertSorted] at h
    split at h
    · rcases List.mem_cons.1 h with h | h
      · exact Or.inl h
      · exact Or.inr (List.mem_cons_of_mem _ h)
    · split at h
      · rcases List.mem_cons.1 h with h | h
        · exact Or.inl h
        · exact Or.inr h
      · rcases List.mem_cons.1 h with h | h
        · exact Or.inr (h ▸ List.mem_cons_self ..)
        · rcases mem_insertSorted k v ms x h with h | h
          · exact Or.inl h
          · exact Or.inr (List.mem_cons_of_mem _ h)

theorem SortedK_insertSorted (k : Bytes) (v : Value) : ∀ (ms : Members), SortedK ms →
    SortedK (insertSorted k v ms)
  | [], _ => by simp [insertSorted, SortedK]
  | (k', v') :: ms, h => by
    rw [SortedK_cons] at h
    simp only [insertSorted]
    split
    · rename_i hk
      subst hk
      rw [SortedK_cons]; exact h
    · rename_i hk
      split
      · rename_i hlt
        rw [SortedK_cons]
        refine ⟨?_, (SortedK_cons _ _).2 h⟩
        intro y hy
        rcases List.mem_cons.1 hy with rfl | hy
        · exact hlt
        · exact bytesLt_trans _ _ _ hlt (h.1 y hy)
      · rename_i hlt
        rw [SortedK_cons]
        refine ⟨?_, SortedK_insertSorted k v ms h.2⟩
        intro y hy
        rcases mem_insertSorted k v ms y hy with rfl | hy
        · exact bytesLt_total k k' (by simpa using hlt) (fun e => hk e.symm)
        · exact h.1 y hy

/-- `insertSorted` acts on lookups like a map assignment (no sortedness needed) -/
theorem lookup_insertSorted (q k : Bytes) (v : Value) : ∀ (ms : Members),
    lookup q (insertSorted k v ms) = if k = q then some v else lookup q ms
  | [] => by simp [insertSorted, lookup]
  | (k', v') :: ms => by
    simp only [insertSorted]
    split
    · rename_i hk
      subst hk
      simp only [lookup]
      split <;> rfl
    · rename_i hk
      split
      · simp only [lookup]
      · simp only [lookup, lookup_insertSorted q k v ms]
        by_cases h1 : k' = q
        · have : ¬ k = q := fun e => hk (h1.trans e.symm)
          simp [h1, this]
        · simp [h1]

theorem SortedK_mergeSorted : ∀ (ys xs : Members), SortedK xs → SortedK (mergeSorted xs ys)
  | [], xs, h => by simpa [mergeSorted] using h
  | (k, v) :: ys, xs, h => by
    simp only [mergeSorted]
    exact SortedK_mergeSorted ys _ (SortedK_insertSorted k v xs h)

theorem mem_mergeSorted : ∀ (ys xs : Members) (x : Bytes × Value),
    x ∈ mergeSorted xs ys → x ∈ xs ∨ x ∈ ys
  | [], xs, x, h => by simp only [mergeSorted] at h; exact Or.inl h
  | (k, v) :: ys, xs, x, h => by
    simp only [mergeSorted] at h
    rcases mem_mergeSorted ys _ x h with h | h
    · rcases mem_insertSorted k v xs x h with rfl | h
      · exact Or.inr (List.mem_cons_self ..)
      · exact Or.inl h
    · exact Or.inr (List.mem_cons_of_mem _ h)

/-- lookups through `mergeSorted`: the second list (duplicate-free names) has priority -/
theorem lookup_mergeSorted (q : Bytes) : ∀ (ys xs : Members), nodupKeys (ys.map Prod.fst) = true →
    lookup q (mergeSorted xs ys) = match lookup q ys with | some v => some v | none => lookup q xs
  | [], xs, _ => by simp [mergeSorted, lookup]
  | (k, v) :: ys, xs, h => by
    rw [nodupKeys_members_cons] at h
    simp only [mergeSorted]
    rw [lookup_mergeSorted q ys _ h.2, lookup_insertSorted, lookup_cons]
    by_cases hk : k = q
    · subst hk
      simp [h.1]
    · simp [hk]

/-! ### `anyOf` -/

theorem lookup_anyOfM (q : Bytes) : ∀ (ms acc : Members), nodupKeys (ms.map Prod.fst) = true →
    lookup q (anyOfM ms acc) =
      match lookup q ms with | some v => some (anyOf v) | none => lookup q acc
  | [], acc, _ => by simp [anyOfM, lookup]
  | (k, v) :: ms, acc, h => by
    rw [nodupKeys_members_cons] at h
    simp only [anyOfM]
    rw [lookup_anyOfM q ms _ h.2, lookup_insertSorted, lookup_cons]
    by_cases hk : k = q
    · subst hk
      simp [h.1]
    · simp [hk]

theorem SortedK_anyOfM : ∀ (ms acc : Members), SortedK acc → SortedK (anyOfM ms acc)
  | [], acc, h => by simpa [anyOfM] using h
  | (k, v) :: ms, acc, h => by
    simp only [anyOfM]
    exact SortedK_anyOfM ms _ (SortedK_insertSorted k _ acc h)

/-- the members of `anyOfM ms acc` come from `acc` or are normalised members of `ms` -/
theorem mem_anyOfM : ∀ (ms acc : Members) (x : Bytes × Value), x ∈ anyOfM ms acc →
    x ∈ acc ∨ ∃ v, (x.1, v) ∈ ms ∧ x.2 = anyOf v
  | [], acc, x, h => by simp only [anyOfM] at h; exact Or.inl h
  | (k, v) :: ms, acc, x, h => by
    simp only [anyOfM] at h
    rcases mem_anyOfM ms _ x h with h | ⟨w, hw, e⟩
    · rcases mem_insertSorted k _ acc x h with rfl | h
      · exact Or.inr ⟨v, List.mem_cons_self .., rfl⟩
      · exact Or.inl h
    · exact Or.inr ⟨w, List.mem_cons_of_mem _ hw, e⟩

/-! ### hereditarily sorted values -/

def sortedKeys : List Bytes → Bool
  | [] => true
  | k :: ks => ks.all (fun k' => bytesLt k k') && sortedKeys ks

theorem sortedKeys_iff : ∀ (ms : Members), sortedKeys (ms.map Prod.fst) = true ↔ SortedK ms
  | [] => by simp [sortedKeys, SortedK]
  | m :: ms => by
    rw [SortedK_cons, ← sortedKeys_iff ms]
    simp only [List.map_cons, sortedKeys, Bool.and_eq_true, List.all_eq_true, List.mem_map,
      forall_exists_index, and_imp, forall_apply_eq_imp_iff₂]

mutual
/-- every object inside has its members sorted by name -/
def Norm : Value → Bool
  | .arr xs => NormL xs
  | .obj ms => sortedKeys (ms.map Prod.fst) && NormM ms
  | _ => true
def NormL : List Value → Bool
  | [] => true
  | x :: xs => Norm x && NormL xs
def NormM : Members → Bool
  | [] => true
  | (_, v) :: ms => Norm v && NormM ms
end

theorem NormM_iff : ∀ (ms : Members), NormM ms = true ↔ ∀ x ∈ ms, Norm x.2 = true
  | [] => by simp [NormM]
  | (k, v) :: ms => by simp [NormM, NormM_iff ms]

theorem NormL_iff : ∀ (xs : List Value), NormL xs = true ↔ ∀ x ∈ xs, Norm x = true
  | [] => by simp [NormL]
  | x :: xs => by simp [NormL, NormL_iff xs]

theorem Norm_obj (ms : Members) : Norm (.obj ms) = true ↔ SortedK ms ∧ NormM ms = true := by
  simp only [Norm, Bool.and_eq_true, sortedKeys_iff]

theorem NormM_insertSorted (k : Bytes) (v : Value) (ms : Members) (hv : Norm v = true)
    (h : NormM ms = true) : NormM (insertSorted k v ms) = true := by
  rw [NormM_iff] at h ⊢
  intro x hx
  rcases mem_insertSorted k v ms x hx with rfl | hx
  · exact hv
  · exact h x hx

mutual
theorem Norm_anyOf : ∀ v : Value, Norm (anyOf v) = true
  | .null => rfl
  | .bool _ => rfl
  | .num _ => rfl
  | .str _ => rfl
  | .arr xs => by simp only [anyOf, Norm]; exact NormL_anyOfL xs
  | .obj ms => by
    simp only [anyOf]
    rw [Norm_obj]
    exact ⟨SortedK_anyOfM ms [] SortedK_nil, NormM_anyOfM ms [] rfl⟩
theorem NormL_anyOfL : ∀ xs : List Value, NormL (anyOfL xs) = true
  | [] => rfl
  | x :: xs => by simp only [anyOfL, NormL, Norm_anyOf x, NormL_anyOfL xs, Bool.and_self]
theorem NormM_anyOfM : ∀ (ms acc : Members), NormM acc = true → NormM (anyOfM ms acc) = true
  | [], acc, h => by simpa [anyOfM] using h
  | (k, v) :: ms, acc, h => by
    simp only [anyOfM]
    exact NormM_anyOfM ms _ (NormM_insertSorted k _ acc (Norm_anyOf v) h)
end

mutual
/-- sorted names are duplicate-free, hereditarily -/
theorem noDup_of_Norm : ∀ v : Value, Norm v = true → noDup v = true
  | .null, _ => rfl
  | .bool _, _ => rfl
  | .num _, _ => rfl
  | .str _, _ => rfl
  | .arr xs, h => by simp only [Norm] at h; simp only [noDup]; exact noDupL_of_NormL xs h
  | .obj ms, h => by
    have h' := (Norm_obj ms).1 h
    simp only [noDup, Bool.and_eq_true]
    exact ⟨SortedK_nodup ms h'.1, noDupM_of_NormM ms h'.2⟩
theorem noDupL_of_NormL : ∀ xs : List Value, NormL xs = true → noDupL xs = true
  | [], _ => rfl
  | x :: xs, h => by
    simp only [NormL, Bool.and_eq_true] at h
    simp only [noDupL, noDup_of_Norm x h.1, noDupL_of_NormL xs h.2, Bool.and_self]
theorem noDupM_of_NormM : ∀ ms : Members, NormM ms = true → noDupM ms = true
  | [], _ => rfl
  | (_, v) :: ms, h => by
    simp only [NormM, Bool.and_eq_true] at h
    simp only [noDupM, noDup_of_Norm v h.1, noDupM_of_NormM ms h.2, Bool.and_self]
end

theorem noDup_anyOf (v : Value) : noDup (anyOf v) = true := noDup_of_Norm _ (Norm_anyOf v)

/-! ### for duplicate-free values normalisation keeps the value up to member order -/

theorem eqvL_anyOfL : ∀ (xs : List Value), (∀ x, x ∈ xs → eqv (anyOf x) x = true) →
    eqvL (anyOfL xs) xs = true
  | [], _ => rfl
  | x :: xs, h => by
    simp only [anyOfL, eqvL, Bool.and_eq_true]
    exact ⟨h x (List.mem_cons_self ..), eqvL_anyOfL xs fun y hy => h y (List.mem_cons_of_mem _ hy)⟩

theorem eqv_anyOf : ∀ v : Value, noDup v = true → eqv (anyOf v) v = true := by
  apply Value.ind
  · intro _; rfl
  · intro b _; simp [anyOf, eqv]
  · intro l _; simp [anyOf, eqv]
  · intro s _; simp [anyOf, eqv]
  · intro xs ih h
    rw [noDup_arr, Value.noDupL_iff] at h
    simp only [anyOf, eqv]
    exact eqvL_anyOfL xs fun x hx => ih x hx (h x hx)
  · intro ms ih h
    rw [noDup_obj] at h
    simp only [anyOf]
    rw [eqv_obj_iff (SortedK_nodup _ (SortedK_anyOfM ms [] SortedK_nil))]
    intro q
    rw [lookup_anyOfM q ms [] h.1]
    cases hl : lookup q ms with
    | none => rfl
    | some v =>
      simp only [optEqv_some_some]
      exact ih q v (mem_of_lookup hl) (noDup_of_lookup h.2 hl)

theorem eqv_anyOfM (ms : Members) (h : noDup (.obj ms) = true) :
    eqv (.obj (anyOfM ms [])) (.obj ms) = true := by
  have := eqv_anyOf (.obj ms) h
  simpa only [anyOf] using this

end Impl
end JP
