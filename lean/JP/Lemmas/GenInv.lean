import JP.Lemmas.CloseEnsure

/-!
# A generic hereditary invariant of the engine state

`P : GenP` packages a predicate `PC` on raw messages and a predicate `PK` on member names (the
order list of parsed objects) with the closure properties the engine needs:

* `PC` of the literal `null` (padding, `null` operation values);
* `PC` of an object / array gives `PC` of its members / elements and `PK` of its decoded names;
* `PK` of the empty name.

`GN P n`: every raw message inside `n` satisfies `PC`, every name in the order list of a parsed
object inside `n` satisfies `PK`.  Every operation preserves `GN P` on the root's container and
`self` node (`applyOps_G`), provided

* the operation's value satisfies `PC`, the decoded reference tokens of its `path` satisfy `PK`
  (`OpG`);
* what the encoder writes for a node satisfying `GN P` satisfies `PC` again (`hcopy`; `deepCopy`).
-/

namespace JP
namespace Impl

structure GenP where
  PC : Cst → Prop
  PK : Bytes → Prop
  null : PC litNull
  obj : ∀ ms, PC (.obj ms) → ∀ m ∈ ms, PK (unquote m.1) ∧ PC m.2
  arr : ∀ xs, PC (.arr xs) → ∀ x ∈ xs, PC x
  nilKey : PK []

mutual
def GN (P : GenP) : Node → Prop
  | .raw c => P.PC c
  | .doc keys obj => (∀ k ∈ keys, P.PK k) ∧ GNM P obj
  | .ary ns => GNL P ns
  | _ => True
def GNM (P : GenP) : NMembers → Prop
  | [] => True
  | (_, n) :: ms => GN P n ∧ GNM P ms
def GNL (P : GenP) : List Node → Prop
  | [] => True
  | n :: ns => GN P n ∧ GNL P ns
end

variable {P : GenP}

theorem GNL_iff (ns : List Node) : GNL P ns ↔ ∀ n ∈ ns, GN P n := by
  induction ns with
  | nil => simp [GNL]
  | cons n ns ih => simp [GNL, ih]

theorem GNM_iff (ms : NMembers) : GNM P ms ↔ ∀ kn ∈ ms, GN P kn.2 := by
  induction ms with
  | nil => simp [GNM]
  | cons m ms ih => obtain ⟨k, n⟩ := m; simp [GNM, ih]

theorem GN_nil : GN P .nil := by simp [GN]

theorem GN_ary (ns : List Node) : GN P (.ary ns) ↔ ∀ n ∈ ns, GN P n := by
  simp only [GN, GNL_iff]

theorem GN_doc (keys : List Bytes) (obj : NMembers) :
    GN P (.doc keys obj) ↔ (∀ k ∈ keys, P.PK k) ∧ ∀ kn ∈ obj, GN P kn.2 := by
  simp only [GN, GNM_iff]

theorem GNL_getElem? {ns : List Node} {i : Nat} {n : Node} (h : ∀ n ∈ ns, GN P n)
    (hi : ns[i]? = some n) : GN P n := h n (List.mem_of_getElem? hi)

/-! ### decoding one level -/

theorem GN_childOf {c : Cst} (h : P.PC c) : GN P (childOf c) := by
  unfold childOf; split
  · exact GN_nil
  · exact h

theorem GNM_setN {k : Bytes} {n : Node} {obj : NMembers} (hn : GN P n)
    (h : ∀ kn ∈ obj, GN P kn.2) : ∀ kn ∈ setN k n obj, GN P kn.2 := by
  intro x hx
  rcases mem_setN hx with rfl | hx
  · exact hn
  · exact h x hx

theorem GN_decodeMembers : ∀ (ms : List (Bytes × Cst)) (acc : NMembers), (∀ m ∈ ms, P.PC m.2) →
    (∀ kn ∈ acc, GN P kn.2) → ∀ kn ∈ decodeMembers ms acc, GN P kn.2
  | [], acc, _, h => by simpa [decodeMembers] using h
  | (k, v) :: ms, acc, hw, h => by
    simp only [decodeMembers]
    exact GN_decodeMembers ms _ (fun m hm => hw m (by simp [hm]))
      (GNM_setN (GN_childOf (hw (k, v) (by simp))) h)

theorem PK_decodeKeys {ms : List (Bytes × Cst)} (h : P.PC (.obj ms)) : ∀ k ∈ decodeKeys ms, P.PK k := by
  intro k hk
  obtain ⟨m, hm, rfl⟩ := List.mem_map.1 hk
  exact (P.obj ms h m hm).1

theorem GN_decodeDoc {ms : List (Bytes × Cst)} (h : P.PC (.obj ms)) : GN P (decodeDoc ms) := by
  unfold decodeDoc
  rw [GN_doc]
  exact ⟨PK_decodeKeys h, GN_decodeMembers ms [] (fun m hmem => (P.obj ms h m hmem).2) (by simp)⟩

theorem GN_decodeAry {xs : List Cst} (h : P.PC (.arr xs)) : GN P (decodeAry xs) := by
  unfold decodeAry
  rw [GN_ary]
  intro n hn
  obtain ⟨c, hc, rfl⟩ := List.mem_map.1 hn
  exact GN_childOf (P.arr xs h c hc)

/-- outcome of a method returning a node -/
def ConG (P : GenP) : Outcome Node → Prop
  | .ok c => GN P c
  | _ => True

theorem intoContainer_G {n : Node} (hn : GN P n) : ConG P (intoContainer n) := by
  cases n with
  | nil => simp [intoContainer, rawIsArray, intoDoc, ConG]
  | raw c =>
    cases c with
    | arr xs =>
      simp only [intoContainer, rawIsArray, Cst.isArr, if_true, intoAry, ConG]
      exact GN_decodeAry hn
    | obj ms =>
      simp only [intoContainer, rawIsArray, Cst.isArr, Bool.false_eq_true, if_false, intoDoc, ConG]
      exact GN_decodeDoc hn
    | lit s => simp [intoContainer, rawIsArray, Cst.isArr, intoDoc, ConG]
    | str s => simp [intoContainer, rawIsArray, Cst.isArr, intoDoc, ConG]
  | doc keys obj =>
    simp only [intoContainer, rawIsArray, Bool.false_eq_true, if_false, intoDoc, ConG]; exact hn
  | ary ns => simp only [intoContainer, rawIsArray, if_true, intoAry, ConG]; exact hn
  | docNil => simp [intoContainer, rawIsArray, intoDoc, ConG]
  | nilAry => simp [intoContainer, rawIsArray, intoDoc, ConG]

theorem enter_G {cr key next} (hn : GN P next) : ConG P (enter cr key next) := by
  unfold enter
  exact intoContainer_G hn

theorem decodeRoot_G {c : Cst} (h : P.PC c) : ConG P (decodeRoot c) := by
  cases c with
  | arr xs => exact GN_decodeAry h
  | obj ms => exact GN_decodeDoc h
  | lit s => simp only [decodeRoot]; split <;> simp [ConG, GN]
  | str s => trivial

/-! ### container methods -/

theorem conGet_G {o self con key} (hs : GN P self) (hc : GN P con) :
    ConG P (conGet o self con key) := by
  cases con with
  | doc keys obj =>
    simp only [conGet]
    split
    · rename_i n hl
      exact ((GN_doc keys obj).1 hc).2 _ (lookupN_mem hl)
    · trivial
  | docNil =>
    simp only [conGet]
    trivial
  | ary nodes =>
    have hm := (GN_ary nodes).1 hc
    simp only [conGet]
    repeat' split
    all_goals first
      | trivial
      | exact hs
      | exact GNL_getElem? hm (by assumption)
  | nilAry => trivial
  | nil => trivial
  | raw c => trivial

theorem GN_docSet {keys obj key val} (hc : GN P (.doc keys obj)) (hq : P.PK key) (hv : GN P val) :
    GN P (docSet keys obj key val) := by
  unfold docSet
  rw [GN_doc] at hc ⊢
  obtain ⟨h2, h3⟩ := hc
  refine ⟨?_, GNM_setN hv h3⟩
  split
  · exact h2
  · intro k hk
    rcases List.mem_append.1 hk with h | h
    · exact h2 k h
    · simp only [List.mem_singleton] at h; subst h; exact hq

theorem GNL_listSet {i : Nat} {val : Node} {nodes : List Node} (hn : ∀ n ∈ nodes, GN P n)
    (hv : GN P val) : ∀ n ∈ listSet i val nodes, GN P n := by
  intro x hx
  rcases mem_listSet hx with rfl | hx
  · exact hv
  · exact hn x hx

theorem GNL_listInsert {i : Nat} {val : Node} {nodes : List Node} (hn : ∀ n ∈ nodes, GN P n)
    (hv : GN P val) : ∀ n ∈ listInsert i val nodes, GN P n := by
  intro x hx
  rcases mem_listInsert hx with rfl | hx
  · exact hv
  · exact hn x hx

theorem conSet_G {o con key val} (hc : GN P con) (hq : P.PK key) (hv : GN P val) :
    ConG P (conSet o con key val) := by
  cases con with
  | doc keys obj => exact GN_docSet hc hq hv
  | ary nodes =>
    have hm := (GN_ary nodes).1 hc
    simp only [conSet]
    repeat' split
    all_goals first
      | trivial
      | exact (GN_ary _).2 (GNL_listSet hm hv)
  | docNil => trivial
  | nilAry => trivial
  | nil => trivial
  | raw c => trivial

theorem conAdd_G {o con key val} (hc : GN P con) (hq : P.PK key) (hv : GN P val) :
    ConG P (conAdd o con key val) := by
  cases con with
  | doc keys obj => exact GN_docSet hc hq hv
  | ary nodes =>
    have hm := (GN_ary nodes).1 hc
    simp only [conAdd]
    repeat' split
    all_goals first
      | trivial
      | exact (GN_ary _).2 (GNL_listInsert hm hv)
      | (refine (GN_ary _).2 ?_
         intro n hn
         simp only [List.mem_append, List.mem_singleton] at hn
         rcases hn with hn | rfl
         · exact hm n hn
         · exact hv)
  | docNil => trivial
  | nilAry => trivial
  | nil => trivial
  | raw c => trivial

theorem conRemove_G {o con key} (hc : GN P con) : ConG P (conRemove o con key) := by
  cases con with
  | doc keys obj =>
    obtain ⟨h2, h3⟩ := (GN_doc keys obj).1 hc
    simp only [conRemove]
    repeat' split
    all_goals first
      | trivial
      | exact hc
      | exact (GN_doc _ _).2 ⟨fun k hk => h2 k ((eraseKey_sublist key keys).subset hk),
          fun x hx => h3 x (mem_eraseN hx)⟩
  | ary nodes =>
    have hm := (GN_ary nodes).1 hc
    simp only [conRemove]
    repeat' split
    all_goals first
      | trivial
      | exact hc
      | exact (GN_ary _).2 (fun x hx => hm x (List.mem_of_mem_eraseIdx hx))
  | docNil => trivial
  | nilAry => trivial
  | nil => trivial
  | raw c => trivial

theorem putChild_G {o con key child'} (hc : GN P con) (hch : GN P child') :
    GN P (putChild o con key child') := by
  cases con with
  | doc keys obj =>
    simp only [putChild]
    rw [GN_doc] at hc ⊢
    exact ⟨hc.1, GNM_setN hch hc.2⟩
  | ary nodes =>
    simp only [putChild]
    split
    · exact (GN_ary _).2 (GNL_listSet ((GN_ary _).1 hc) hch)
    · exact hc
  | docNil => exact hc
  | nilAry => exact hc
  | nil => exact hc
  | raw c => exact hc

/-! ### walks -/

def WalkG {α} (P : GenP) (Q : α → Prop) : Walk α → Prop
  | .done con a => GN P con ∧ Q a
  | .notFound con => GN P con
  | .fail _ => True
  | .panic => True
  | .doneSelf s a => GN P s ∧ Q a
  | .notFoundSelf s => GN P s

def ActG {α} (P : GenP) (Q : α → Prop) : Outcome (Node × α) → Prop
  | .ok (con', a) => GN P con' ∧ Q a
  | .err _ => True
  | .panic => True

theorem wrapWalk_G {α} {Q : α → Prop} {o con key} {w : Walk α}
    (hc : GN P con) (hw : WalkG P Q w) : WalkG P Q (wrapWalk o con key w) := by
  cases w with
  | done child' a =>
    simp only [wrapWalk]
    exact ⟨putChild_G hc hw.1, hw.2⟩
  | notFound child' =>
    simp only [wrapWalk]
    exact putChild_G hc hw
  | fail e => trivial
  | panic => trivial
  | doneSelf s a => exact hw
  | notFoundSelf s => exact hw

theorem walk_G {α} (o : Opts) (act : Node → Node → Outcome (Node × α)) (Q : α → Prop)
    (hact : ∀ self con, GN P con → GN P self → ActG P Q (act self con)) :
    ∀ (parts : List Bytes) (cr : Bool) (self con : Node),
      GN P con → GN P self → WalkG P Q (walk o act cr self con parts) := by
  intro parts
  induction parts with
  | nil =>
    intro cr self con hc hs
    rw [walk_nil]
    have := hact self con hc hs
    cases h : act self con with
    | ok p => obtain ⟨con', a⟩ := p; rw [h] at this; exact this
    | err e => trivial
    | panic => trivial
  | cons part rest ih =>
    intro cr self con hc hs
    rw [walk_cons]
    have hg' := conGet_G (o := o) (key := decodeToken part) hs hc
    cases hg : conGet o self con (decodeToken part) with
    | panic => trivial
    | err e => exact hc
    | ok next =>
      rw [hg] at hg'
      simp only []
      split
      · exact hc
      · have he := enter_G (cr := cr) (key := decodeToken part) hg'
        cases hent : enter cr (decodeToken part) next with
        | panic => trivial
        | err e => exact hc
        | ok child =>
          rw [hent] at he
          exact wrapWalk_G hc (ih false .nil child he GN_nil)

/-- a root whose nodes satisfy the invariant -/
def RootG (P : GenP) (r : Root) : Prop := GN P r.con ∧ GN P r.self

theorem splitPath_keyG {path : Bytes} {parts : List Bytes} {key : Bytes}
    (hp : ∀ p ∈ splitSlash path, P.PK (decodeToken p))
    (h : splitPath path = some (parts, key)) :
    P.PK key ∧ ∀ p ∈ parts, P.PK (decodeToken p) := by
  unfold splitPath at h
  split at h
  · cases h
  · split at h
    · simp only [Option.some.injEq, Prod.mk.injEq] at h
      obtain ⟨rfl, rfl⟩ := h
      exact ⟨P.nilKey, by simp⟩
    · cases h
  · rename_i x rest _ heq
    split at h
    · cases h
    simp only [Option.some.injEq, Prod.mk.injEq] at h
    obtain ⟨rfl, rfl⟩ := h
    rw [heq] at hp
    constructor
    · cases hl : rest.getLast? with
      | none => simp only [Option.getD_none]; exact P.nilKey
      | some l =>
        simp only [Option.getD_some]
        exact hp l (List.mem_cons_of_mem _ (List.mem_of_getLast? hl))
    · intro p hp'
      exact hp p (List.mem_cons_of_mem _ (List.dropLast_subset _ hp'))

theorem withPath_G {α} (o : Opts) (r : Root) (path : Bytes)
    (act : Node → Node → Bytes → Outcome (Node × α)) (Q : α → Prop) (hr : RootG P r)
    (hact : ∀ self con key, GN P con → GN P self → ActG P Q (act self con key)) :
    WalkG P Q (withPath o r path act) := by
  unfold withPath
  split
  · exact hr.1
  · exact walk_G o _ Q (fun self con => hact self con _) _ _ _ _ hr.1 hr.2

theorem withPath_Gq {α} (o : Opts) (r : Root) (path : Bytes)
    (act : Node → Node → Bytes → Outcome (Node × α)) (Q : α → Prop) (hr : RootG P r)
    (hp : ∀ p ∈ splitSlash path, P.PK (decodeToken p))
    (hact : ∀ self con key, P.PK key → GN P con → GN P self → ActG P Q (act self con key)) :
    WalkG P Q (withPath o r path act) := by
  unfold withPath
  split
  · exact hr.1
  · rename_i parts key hsp
    exact walk_G o _ Q (fun self con => hact self con _ (splitPath_keyG hp hsp).1) _ _ _ _ hr.1 hr.2

def OutG (P : GenP) : Outcome Root → Prop
  | .ok r => RootG P r
  | _ => True

theorem liftWalk_G {Q : Unit → Prop} {r : Root} {w : Walk Unit} {k : Root → Outcome Root}
    (hr : RootG P r) (hw : WalkG P Q w) (hk : ∀ r', RootG P r' → OutG P (k r')) :
    OutG P (liftWalk r w k) := by
  cases w with
  | done con a => exact ⟨hw.1, hr.2⟩
  | notFound con => exact hk _ ⟨hw, hr.2⟩
  | fail e => trivial
  | panic => trivial
  | doneSelf s a => exact ⟨hr.1, hw.1⟩
  | notFoundSelf s => exact hk _ ⟨hr.1, hw⟩

theorem liftAct_G {α} {Q : α → Prop} {x : Outcome Node} {a : α} : ConG P x → Q a →
    ActG P Q (match x with
      | .ok con' => (.ok (con', a) : Outcome (Node × α))
      | .err e => .err e
      | .panic => .panic) := by
  intro hx ha
  cases x with
  | ok c => exact ⟨hx, ha⟩
  | err e => trivial
  | panic => trivial

/-! ### `deepCopy`, `deepParse` -/

theorem GN_deepCopy {e} (hcopy : ∀ n, GN P n → P.PC (cstOf e n)) {n : Node} (h : GN P n) :
    GN P (deepCopy e n).1 := by
  cases n with
  | nil => exact GN_nil
  | raw c => exact hcopy _ h
  | doc keys obj => exact hcopy _ h
  | ary ns => exact hcopy _ h
  | docNil => exact hcopy _ h
  | nilAry => exact hcopy _ h

mutual
theorem GN_deepParseC : ∀ (c : Cst), P.PC c → GN P (deepParseC c)
  | .lit s, h => by
    simp only [deepParseC]; split
    · exact GN_nil
    · exact h
  | .str b, h => by simpa [deepParseC, GN] using h
  | .arr xs, h => by
    simp only [deepParseC]; rw [GN_ary]; exact GN_deepParseCL xs (P.arr xs h)
  | .obj ms, h => by
    simp only [deepParseC]; rw [GN_doc]
    exact ⟨PK_decodeKeys h, GN_deepParseCM ms [] (fun m hmem => (P.obj ms h m hmem).2) (by simp)⟩
theorem GN_deepParseCL : ∀ (xs : List Cst), (∀ x ∈ xs, P.PC x) → ∀ n ∈ deepParseCL xs, GN P n
  | [], _ => by simp [deepParseCL]
  | x :: xs, h => by
    intro n hn
    simp only [deepParseCL, List.mem_cons] at hn
    rcases hn with hn | hn
    · rw [hn]; exact GN_deepParseC x (h x (by simp))
    · exact GN_deepParseCL xs (fun y hy => h y (by simp [hy])) n hn
theorem GN_deepParseCM : ∀ (ms : List (Bytes × Cst)) (acc : NMembers), (∀ m ∈ ms, P.PC m.2) →
    (∀ p ∈ acc, GN P p.2) → ∀ p ∈ deepParseCM ms acc, GN P p.2
  | [], acc, _, h2 => by simpa [deepParseCM] using h2
  | (k, v) :: ms, acc, h, h2 => by
    simp only [deepParseCM]
    exact GN_deepParseCM ms _ (fun m hm => h m (by simp [hm]))
      (GNM_setN (GN_deepParseC v (h (k, v) (by simp))) h2)
end

mutual
theorem GN_deepParse : ∀ (n : Node), GN P n → GN P (deepParse n)
  | .raw c, h => by
    simp only [deepParse]
    split
    · exact GN_deepParseC c h
    · exact h
  | .doc keys obj, h => by
    simp only [GN] at h
    simp only [deepParse, GN]
    exact ⟨h.1, GN_deepParseM obj h.2⟩
  | .ary ns, h => by
    simp only [GN] at h
    simp only [deepParse, GN]
    exact GN_deepParseL ns h
  | .nil, _ => by simp [deepParse, GN]
  | .docNil, _ => by simp [deepParse, GN]
  | .nilAry, _ => by simp [deepParse, GN]
theorem GN_deepParseM : ∀ (obj : NMembers), GNM P obj → GNM P (deepParseM obj)
  | [], _ => by simp [deepParseM, GNM]
  | (k, n) :: ms, h => by
    simp only [GNM] at h
    simp only [deepParseM, GNM]
    exact ⟨GN_deepParse n h.1, GN_deepParseM ms h.2⟩
theorem GN_deepParseL : ∀ (ns : List Node), GNL P ns → GNL P (deepParseL ns)
  | [], _ => by simp [deepParseL, GNL]
  | n :: ns, h => by
    simp only [GNL] at h
    simp only [deepParseL, GNL]
    exact ⟨GN_deepParse n h.1, GN_deepParseL ns h.2⟩
end

theorem equalTo_G {n : Node} {ov : Option Cst} (hn : GN P n) : GN P (equalTo n ov).2 := by
  cases ov with
  | none => simp [equalTo]; exact hn
  | some c =>
    simp only [equalTo]
    split
    · exact hn
    · split
      · exact GN_deepParse n hn
      · exact hn

/-! ### the operations -/

/-- what the invariant needs of an operation -/
structure OpG (P : GenP) (op : Op) : Prop where
  val : ∀ c, op.value = some c → P.PC c
  toks : ∀ p ∈ splitSlash op.path, P.PK (decodeToken p)

theorem GN_valueNode {op : Op} (h : OpG P op) : GN P (op.valueNode.getD .nil) := by
  unfold Op.valueNode
  cases hv : op.value with
  | none => exact GN_nil
  | some c => exact h.val c hv

theorem addWalk_G {o r path val} (hr : RootG P r)
    (hp : ∀ p ∈ splitSlash path, P.PK (decodeToken p)) (hv : GN P val) :
    WalkG P (fun _ => True) (addWalk o r path val) :=
  withPath_Gq o r path _ _ hr hp fun _ _ _ hq hc _ => liftAct_G (conAdd_G hc hq hv) trivial

/-! #### `ensure` -/

theorem GN_rawNull : GN P rawNull := by
  simp only [rawNull, GN]; exact P.null

theorem GNL_padNulls (n : Nat) : ∀ x ∈ padNulls n, GN P x := by
  intro x hx
  rw [padNulls, List.mem_replicate] at hx
  rw [hx.2]; exact GN_rawNull

theorem GN_aryPad (n : Nat) : GN P (.ary (padNulls n)) := (GN_ary _).2 (GNL_padNulls n)

theorem GN_emptyDoc : GN P (.doc [] []) := by simp [GN, GNM]

def EnsG (P : GenP) : Outcome (Node × Node) → Prop
  | .ok (c, s) => GN P c ∧ GN P s
  | _ => True

theorem ensurePad_G {part con} (hc : GN P con) : GN P (ensurePad part con) := by
  unfold ensurePad
  split
  · rename_i ai nodes
    split
    · have := (GN_ary _).1 hc
      rw [GN_ary]
      intro n hn
      rcases List.mem_append.1 hn with h | h
      · exact this n h
      · exact GNL_padNulls _ n h
    · exact hc
  · exact hc

theorem ensureAdd_G {o con1 key self x} (hc : GN P con1) (hq : P.PK key) (hs : GN P self)
    (hx : EnsG P x) : EnsG P (ensureAdd o con1 key self x) := by
  cases x with
  | ok p =>
    obtain ⟨child, s'⟩ := p
    simp only [ensureAdd]
    have := conAdd_G (o := o) (key := key) hc hq hx.1
    cases h : conAdd o con1 key child with
    | ok con2 => rw [h] at this; exact ⟨this, hs⟩
    | err e => exact ⟨hc, hs⟩
    | panic => trivial
  | err e => trivial
  | panic => trivial

theorem ensurePut_G {o con key self x} (hc : GN P con) (hs : GN P self) (hx : EnsG P x) :
    EnsG P (ensurePut o con key self x) := by
  cases x with
  | ok p =>
    obtain ⟨child, s'⟩ := p
    simp only [ensurePut]
    exact ⟨putChild_G hc hx.1, hs⟩
  | err e => trivial
  | panic => trivial

theorem ensureTarget_G {o self con key t} (hs : GN P self) (hc : GN P con)
    (h : ensureTarget o self con key = some t) : GN P t := by
  have hg := conGet_G (o := o) (key := key) hs hc
  unfold ensureTarget at h
  cases hx : conGet o self con key with
  | ok n =>
    rw [hx] at h hg
    cases n <;> simp only [Option.some.injEq] at h <;> first | contradiction | (subst h; exact hg)
  | err e => rw [hx] at h; cases h
  | panic => rw [hx] at h; cases h

theorem ensure_G (o : Opts) : ∀ (parts : List Bytes) (cr : Bool) (self con : Node),
    (∀ p ∈ parts, P.PK (decodeToken p)) →
    GN P con → GN P self → EnsG P (ensure o cr self con parts) := by
  intro parts
  induction parts with
  | nil => intro cr self con _ hc hs; rw [ensure]; exact ⟨hc, hs⟩
  | cons part rest ih =>
    intro cr self con hp hc hs
    cases rest with
    | nil => rw [ensure]; exact ⟨hc, hs⟩
    | cons nxt rest =>
      have hq : P.PK (decodeToken part) := hp part (by simp)
      have hp' : ∀ p ∈ nxt :: rest, P.PK (decodeToken p) := fun p h => hp p (List.mem_cons_of_mem _ h)
      rw [ensure_cons2]
      cases ht : ensureTarget o self con (decodeToken part) with
      | none =>
        simp only []
        split
        · split
          · trivial
          · split
            · trivial
            · exact ensureAdd_G (ensurePad_G hc) hq hs (ih false .nil _ hp' (GN_aryPad _) GN_nil)
        · exact ensureAdd_G (ensurePad_G hc) hq hs (ih false .nil _ hp' GN_emptyDoc GN_nil)
      | some t =>
        simp only []
        have hwt := ensureTarget_G hs hc ht
        have he := enter_G (cr := cr) (key := decodeToken part) hwt
        cases hent : enter cr (decodeToken part) t with
        | panic => trivial
        | err e => trivial
        | ok child =>
          rw [hent] at he
          exact ensurePut_G hc hs (ih false .nil child hp' he GN_nil)

theorem ensurePath_G {o r path} (hr : RootG P r)
    (hp : ∀ p ∈ splitSlash path, P.PK (decodeToken p)) : OutG P (ensurePath o r path) := by
  unfold ensurePath
  split
  · exact hr
  · exact hr
  · rename_i hd parts _ heq
    split
    · exact hr
    have := ensure_G (P := P) o parts r.selfCR r.self r.con
      (fun p h => hp p (by rw [heq]; exact List.mem_cons_of_mem _ h)) hr.1 hr.2
    cases h : ensure o r.selfCR r.self r.con parts with
    | ok p => obtain ⟨c, s⟩ := p; rw [h] at this; exact this
    | err e => trivial
    | panic => trivial

theorem opAdd_G {o r op} (hr : RootG P r) (hv : OpG P op) : OutG P (opAdd o r op) := by
  unfold opAdd
  split
  · cases hval : op.value with
    | none => trivial
    | some c =>
      simp only []
      have hd := decodeRoot_G (hv.val c hval)
      cases h : decodeRoot c with
      | ok con => rw [h] at hd; exact ⟨hd, hv.val c hval⟩
      | err e => trivial
      | panic => trivial
  · simp only []
    have h1 : OutG P (if o.ensure = true then ensurePath o r op.path else .ok r) := by
      split
      · exact ensurePath_G hr hv.toks
      · exact hr
    cases he : (if o.ensure = true then ensurePath o r op.path else Outcome.ok r) with
    | err e => trivial
    | panic => trivial
    | ok r1 =>
      rw [he] at h1
      exact liftWalk_G h1 (addWalk_G h1 hv.toks (GN_valueNode hv)) (fun _ _ => trivial)

theorem opRemove_G {o r op} (hr : RootG P r) : OutG P (opRemove o r op) := by
  unfold opRemove
  refine liftWalk_G (Q := fun _ => True) hr ?_ ?_
  · exact withPath_G o r _ _ _ hr fun _ _ _ hc _ => liftAct_G (conRemove_G hc) trivial
  · intro r' hr'
    split
    · exact hr'
    · trivial

theorem opReplace_G {o r op} (hr : RootG P r) (hv : OpG P op) : OutG P (opReplace o r op) := by
  unfold opReplace
  split
  · cases hval : op.value with
    | none => trivial
    | some c =>
      simp only []
      have hw := hv.val c hval
      cases c with
      | obj ms => exact ⟨GN_decodeDoc hw, GN_nil⟩
      | arr xs => exact ⟨GN_decodeAry hw, GN_nil⟩
      | lit s =>
        simp only []
        split
        · exact ⟨by simp [GN], GN_nil⟩
        · trivial
      | str s => trivial
  · simp only []
    refine liftWalk_G (Q := fun _ => True) hr ?_ (fun _ _ => trivial)
    refine withPath_Gq o r _ _ _ hr hv.toks ?_
    intro self con key hq hc hs
    cases hg : conGet o self con key with
    | panic => trivial
    | err e => trivial
    | ok x => exact liftAct_G (conSet_G hc hq (GN_valueNode hv)) trivial

theorem opMove_G {o r op} (hcopy : ∀ n, GN P n → P.PC (cstOf o.esc n)) (hr : RootG P r) (hv : OpG P op) :
    OutG P (opMove o r op) := by
  unfold opMove
  split
  · trivial
  · split
    · trivial
    · rename_i frm _ _
      simp only []
      generalize hwe : (withPath o r frm _) = w
      have hw : WalkG P (fun v => GN P v) w := by
        rw [← hwe]
        refine withPath_G o r _ _ _ hr ?_
        intro self con key hc hs
        have hg' := conGet_G (o := o) (key := key) hs hc
        cases hg : conGet o self con key with
        | panic => trivial
        | err e => trivial
        | ok x =>
          rw [hg] at hg'
          exact liftAct_G (conRemove_G hc) hg'
      have hcont : ∀ r1 val, RootG P r1 → GN P val → OutG P (liftWalk r1 (addWalk o r1 op.path val)
          (fun _ => .err .missing)) := by
        intro r1 val h1 hvv
        exact liftWalk_G h1 (addWalk_G h1 hv.toks hvv) (fun _ _ => trivial)
      clear hwe
      cases w with
      | panic => trivial
      | fail e => trivial
      | notFound c => trivial
      | notFoundSelf s => trivial
      | done con val => exact hcont _ _ ⟨hw.1, hr.2⟩ hw.2
      | doneSelf s val => exact hcont _ _ ⟨hr.1, hw.1⟩ hw.2

theorem opTest_G {o r op} (hr : RootG P r) : OutG P (opTest o r op) := by
  unfold opTest
  split
  · have := equalTo_G (n := r.con) (ov := op.value) hr.1
    cases he : equalTo r.con op.value with
    | mk b con' =>
      rw [he] at this
      simp only []
      split
      · exact ⟨this, hr.2⟩
      · trivial
  · refine liftWalk_G (Q := fun _ => True) hr ?_ (fun _ _ => trivial)
    refine withPath_G o r _ _ _ hr ?_
    intro self con key hc hs
    simp only []
    have hg' := conGet_G (o := o) (key := key) hs hc
    cases hg : conGet o self con key with
    | panic => trivial
    | err e' =>
      cases e' <;> simp only [] <;> first
        | trivial
        | skip
      cases he : equalTo Node.nil op.value with
      | mk b val' =>
        simp only []
        split
        · exact ⟨hc, trivial⟩
        · trivial
    | ok val =>
      simp only []
      rw [hg] at hg'
      have := equalTo_G (n := val) (ov := op.value) hg'
      cases he : equalTo val op.value with
      | mk b val' =>
        rw [he] at this
        simp only []
        split
        · split
          · exact ⟨hc, trivial⟩
          · exact ⟨putChild_G hc this, trivial⟩
        · trivial

/-! #### copy -/

def OutG2 (P : GenP) : Outcome (Root × Int) → Prop
  | .ok (r', _) => RootG P r'
  | _ => True

theorem afterW_G {α} {Q : α → Prop} {r : Root} {w : Walk α} {r1 : Root} (hr : RootG P r)
    (hw : WalkG P Q w) (h : afterW r w = some r1) : RootG P r1 := by
  cases w <;> simp only [afterW] at h <;> first | contradiction | cases h
  · exact ⟨hw.1, hr.2⟩
  · exact ⟨hr.1, hw.1⟩

theorem failOf_G {α} {w : Walk α} : OutG2 P (failOf w) := by
  cases w <;> simp only [failOf] <;> trivial

theorem copySource_G {o r frm} (hr : RootG P r) : WalkG P (fun v => GN P v) (copySource o r frm) := by
  refine withPath_G o r _ _ _ hr ?_
  intro self con key hc hs
  have hg' := conGet_G (o := o) (key := key) hs hc
  cases hg : conGet o self con key with
  | panic => trivial
  | err e => trivial
  | ok x => rw [hg] at hg'; exact ⟨hc, hg'⟩

theorem copyFirst_G {o r frm} (hr : RootG P r) : WalkG P (fun v => GN P v) (copyFirst o r frm) := by
  unfold copyFirst
  split
  · split
    · trivial
    · exact ⟨hr.1, hr.1⟩
  · exact copySource_G hr

theorem destWalk_G {o r path} (hr : RootG P r) : WalkG P (fun _ => True) (destWalk o r path) :=
  withPath_G o r _ _ _ hr fun _ _ _ hc _ => ⟨hc, trivial⟩

theorem copySrc_G {o r2 frm val} (hr2 : RootG P r2) (h3 : copySrc o r2 frm = .ok val) : GN P val := by
  unfold copySrc at h3
  split at h3
  · cases h3; exact hr2.1
  · have hw3 := copySource_G (o := o) (frm := frm) hr2
    split at h3 <;> first | contradiction | skip
    · rename_i h4; rw [h4] at hw3; cases h3; exact hw3.2
    · rename_i h4; rw [h4] at hw3; cases h3; exact hw3.2

theorem opCopy_G {o r acc op} (hcopy : ∀ n, GN P n → P.PC (cstOf o.esc n)) (hr : RootG P r) (hv : OpG P op) :
    OutG2 P (opCopy o r acc op) := by
  rw [opCopy_eq]
  split
  · trivial
  · rename_i frm _
    have hw1 := copyFirst_G (o := o) (frm := frm) hr
    split
    · exact failOf_G
    · rename_i r1 h1
      have hr1 := afterW_G hr hw1 h1
      have hw2 := destWalk_G (o := o) (path := op.path) hr1
      split
      · exact failOf_G
      · rename_i r2 h2
        have hr2 := afterW_G hr1 hw2 h2
        split
        · trivial
        · trivial
        · rename_i val h3
          have hval : GN P val := copySrc_G hr2 h3
          split
          · trivial
          · split
            · trivial
            · have hw4 := addWalk_G (o := o) (path := op.path) hr2 hv.toks (val := (deepCopy o.esc val).1)
                (GN_deepCopy hcopy hval)
              split
              · rename_i r3 h4
                exact afterW_G hr2 hw4 h4
              · exact failOf_G

theorem liftAcc_G2 {acc x} (h : OutG P x) : OutG2 P (liftAcc acc x) := by
  cases x with
  | ok r => exact h
  | err e => trivial
  | panic => trivial

theorem applyOp_G {o r acc op} (hcopy : ∀ n, GN P n → P.PC (cstOf o.esc n)) (hr : RootG P r) (hv : OpG P op) :
    OutG2 P (applyOp o r acc op) := by
  rw [applyOp_eq]
  split
  · exact liftAcc_G2 (opAdd_G hr hv)
  split
  · exact liftAcc_G2 (opRemove_G hr)
  split
  · exact liftAcc_G2 (opReplace_G hr hv)
  split
  · exact liftAcc_G2 (opMove_G hcopy hr hv)
  split
  · exact liftAcc_G2 (opTest_G hr)
  split
  · exact opCopy_G hcopy hr hv
  · trivial

/-- **the engine preserves the generic invariant** -/
theorem applyOps_G (o : Opts) (hcopy : ∀ n, GN P n → P.PC (cstOf o.esc n)) (ops : List Op) :
    ∀ (r : Root) (acc : Int), RootG P r → (∀ op ∈ ops, OpG P op) → OutG P (applyOps o r acc ops) := by
  induction ops with
  | nil => intro r acc hr _; exact hr
  | cons op ops ih =>
    intro r acc hr hv
    rw [applyOps_cons]
    have h1 := applyOp_G (o := o) (acc := acc) hcopy hr (hv op List.mem_cons_self)
    cases h : applyOp o r acc op with
    | ok p =>
      obtain ⟨r', acc'⟩ := p
      rw [h] at h1
      exact ih r' acc' h1 (fun op' hm => hv op' (List.mem_cons_of_mem _ hm))
    | err e => trivial
    | panic => trivial

end Impl
end JP
