import JP.Lemmas.HeapLegacyCon
import JP.Lemmas.HeapFind

/-!
# The legacy `findObject`: in-place descent = `Legacy.walk`, the container reached sits in a CONTEXT

Same statement as `JP/Lemmas/HeapFind.lean` for the legacy engine: after the descent the heap
splits into the subtree at the container reached and a context disjoint from it, and whatever is
done to the subtree WITHOUT touching the context makes the root represent the value `Legacy.walk`
rebuilds with `putChild` (`LCtx`).  When the legacy `findObject` returns nil every caller fails, so
nothing is claimed about the heap in that case.
-/

namespace JP
namespace Heap
namespace Lg

open JP.Impl (Outcome)
open JP.Legacy (Node NMembers walk Walk putChild conGet)

/-- what `walk` does with the result of the walk below a child stored under `key` -/
def wrapW {α} (con : Node) (key : Bytes) : Walk α → Walk α
  | .done c a => .done (putChild con key c) a
  | .notFound => .notFound
  | .fail e => .fail e
  | .panic => .panic

/-- the walk result once the action has run on the container found -/
def doneOf {α} (rb : Node → Node) : Outcome (Node × α) → Walk α
  | .ok (pc', a) => .done (rb pc') a
  | .err e => .fail e
  | .panic => .panic

def isNilL : Node → Bool
  | .nil => true
  | _ => false

theorem walk_nil {α} (neg : Bool) (act : Node → Outcome (Node × α)) (con : Node) :
    walk neg act con [] = doneOf id (act con) := by
  rw [walk]
  cases act con with
  | ok x => obtain ⟨a, b⟩ := x; rfl
  | err e => rfl
  | panic => rfl

theorem walk_cons_err {α} {neg : Bool} {act : Node → Outcome (Node × α)}
    {con : Node} {part : Bytes} {rest : List Bytes} {er : Impl.Err}
    (hg : conGet neg con (decodeToken part) = .err er) :
    walk neg act con (part :: rest) = .notFound := by
  rw [walk]
  simp only [hg]

theorem walk_cons_panic {α} {neg : Bool} {act : Node → Outcome (Node × α)}
    {con : Node} {part : Bytes} {rest : List Bytes}
    (hg : conGet neg con (decodeToken part) = .panic) :
    walk neg act con (part :: rest) = .panic := by
  rw [walk]
  simp only [hg]

theorem walk_cons_notfound {α} {neg : Bool} {act : Node → Outcome (Node × α)}
    {con next : Node} {part : Bytes} {rest : List Bytes}
    (hg : conGet neg con (decodeToken part) = .ok next)
    (hn : isNilL next = true ∨ Legacy.rawIsNil next = true ∨ ∃ er, Legacy.intoContainer next = .err er) :
    walk neg act con (part :: rest) = .notFound := by
  rw [walk]
  simp only [hg]
  cases next with
  | nil => rfl
  | rawNil => rfl
  | raw c =>
    simp only [isNilL, Legacy.rawIsNil, Bool.false_eq_true, false_or] at hn
    obtain ⟨er, her⟩ := hn
    simp [her, Legacy.rawIsNil]
  | doc obj =>
    simp only [isNilL, Legacy.rawIsNil, Bool.false_eq_true, false_or] at hn
    obtain ⟨er, her⟩ := hn
    simp [her, Legacy.rawIsNil]
  | ary ns =>
    simp only [isNilL, Legacy.rawIsNil, Bool.false_eq_true, false_or] at hn
    obtain ⟨er, her⟩ := hn
    simp [her, Legacy.rawIsNil]
  | docNil =>
    simp only [isNilL, Legacy.rawIsNil, Bool.false_eq_true, false_or] at hn
    obtain ⟨er, her⟩ := hn
    simp [her, Legacy.rawIsNil]

theorem walk_cons_into_panic {α} {neg : Bool} {act : Node → Outcome (Node × α)}
    {con next : Node} {part : Bytes} {rest : List Bytes}
    (hg : conGet neg con (decodeToken part) = .ok next)
    (hn : isNilL next = false) (hr : Legacy.rawIsNil next = false)
    (hc : Legacy.intoContainer next = .panic) :
    walk neg act con (part :: rest) = .panic := by
  rw [walk]
  simp only [hg]
  cases next with
  | nil => simp [isNilL] at hn
  | rawNil => simp [Legacy.rawIsNil] at hr
  | raw c => simp [hc, Legacy.rawIsNil]
  | doc obj => simp [hc, Legacy.rawIsNil]
  | ary ns => simp [hc, Legacy.rawIsNil]
  | docNil => simp [hc, Legacy.rawIsNil]

theorem walk_cons_ok {α} {neg : Bool} {act : Node → Outcome (Node × α)}
    {con next child : Node} {part : Bytes} {rest : List Bytes}
    (hg : conGet neg con (decodeToken part) = .ok next)
    (hn : isNilL next = false) (hr : Legacy.rawIsNil next = false)
    (hc : Legacy.intoContainer next = .ok child) :
    walk neg act con (part :: rest) = wrapW con (decodeToken part) (walk neg act child rest) := by
  rw [walk]
  simp only [hg]
  cases next with
  | nil => simp [isNilL] at hn
  | rawNil => simp [Legacy.rawIsNil] at hr
  | raw c =>
    simp only [hc, Legacy.rawIsNil, Bool.false_eq_true, if_false]
    cases walk neg act child rest <;> rfl
  | doc obj =>
    simp only [hc, Legacy.rawIsNil, Bool.false_eq_true, if_false]
    cases walk neg act child rest <;> rfl
  | ary ns =>
    simp only [hc, Legacy.rawIsNil, Bool.false_eq_true, if_false]
    cases walk neg act child rest <;> rfl
  | docNil =>
    simp only [hc, Legacy.rawIsNil, Bool.false_eq_true, if_false]
    cases walk neg act child rest <;> rfl

theorem wrapW_doneOf {α} (con : Node) (key : Bytes) (rb : Node → Node)
    (x : Outcome (Node × α)) :
    wrapW con key (doneOf rb x) = doneOf (fun y => putChild con key (rb y)) x := by
  cases x with
  | ok v => obtain ⟨a, b⟩ := v; rfl
  | err e => rfl
  | panic => rfl

theorem isNil_false_of_repr {h : Heap} {n : Node} {b : Nat} {f : List Nat}
    (r : LRepr h n (some b) f) : isNilL n = false := by
  cases n with
  | nil => simp only [LRepr] at r; cases r.1
  | rawNil => rfl
  | raw c => rfl
  | doc m => rfl
  | ary k => rfl
  | docNil => rfl

/-- the context of the container at `c` below `root`: put ANY tree at `c` that leaves the cells
`ctx` alone, and `root` represents `plug` of it -/
def LCtx (h' : Heap) (root c : Nat) (ctx : List Nat) (plug : Node → Node) : Prop :=
  ∀ (h'' : Heap) (con' : Node) (fc' : List Nat), LRepr h'' con' (some c) fc' →
    (∀ x ∈ ctx, h''[x]? = h'[x]?) → Disj fc' ctx →
    ∃ fp'', LRepr h'' (plug con') (some root) fp'' ∧ ∀ x ∈ fp'', x ∈ fc' ∨ x ∈ ctx

/-- `find` against `walk`, outcome by outcome -/
def Found (neg : Bool) (h : Heap) (a : Nat) (n : Node) (fp : List Nat)
    (parts : List Bytes) : Outcome (Heap × Option Nat) → Prop
  | .panic => ∀ {α : Type} (act : Node → Outcome (Node × α)), walk neg act n parts = .panic
  | .err _ => False
  | .ok (_, none) => ∀ {α : Type} (act : Node → Outcome (Node × α)), walk neg act n parts = .notFound
  | .ok (h', some c) =>
    ∃ conc fc ctx plug, LRepr h' conc (some c) fc ∧ Disj fc ctx ∧ Ext h h' fp (fc ++ ctx) ∧
      LCtx h' a c ctx plug ∧ (∀ x ∈ ctx, x < h'.length) ∧
      ∀ {α : Type} (act : Node → Outcome (Node × α)),
        walk neg act n parts = doneOf plug (act conc)

theorem find_refines (neg : Bool) : ∀ (parts : List Bytes) (h : Heap) (a : Nat) (n : Node) (fp : List Nat),
    LRepr h n (some a) fp → Found neg h a n fp parts (find neg h a parts)
  | [], h, a, n, fp, r => by
    simp only [find, Found]
    refine ⟨n, fp, [], id, r, Disj.nil_right _, ?_, ?_, (fun x hx => by cases hx),
      fun act => walk_nil neg act n⟩
    · simpa using Ext.refl h fp
    · intro h'' con' fc' r' _ _
      exact ⟨fc', r', fun x hx => Or.inl hx⟩
  | part :: rest, h, a, n, fp, r => by
    have hG := hGet_refines neg (decodeToken part) r
    have hv := LRepr.valid r
    simp only [find]
    cases hg : hGet neg h a (decodeToken part) with
    | panic =>
      cases hc : conGet neg n (decodeToken part) with
      | panic => simp only [Found]; intro α act; exact walk_cons_panic hc
      | ok x => rw [hg, hc] at hG; simp at hG
      | err e => rw [hg, hc] at hG; simp at hG
    | err e =>
      cases hc : conGet neg n (decodeToken part) with
      | panic => rw [hg, hc] at hG; simp at hG
      | ok x => rw [hg, hc] at hG; simp at hG
      | err e' =>
        simp only [Found]
        intro α act; exact walk_cons_err hc
    | ok p =>
      cases hc : conGet neg n (decodeToken part) with
      | panic => rw [hg, hc] at hG; simp at hG
      | err e' => rw [hg, hc] at hG; simp at hG
      | ok next =>
        rw [hg, hc] at hG
        simp only [OutRel_ok_ok] at hG
        cases p with
        | none =>
          obtain ⟨f0, hr0, _⟩ := Got.repr hG
          obtain ⟨rfl, _⟩ := LRepr.none_iff hr0
          simp only [Found]
          intro α act; exact walk_cons_notfound hc (Or.inl rfl)
        | some b =>
          obtain ⟨f, rst, hr, dfr, sf, sr, hcr, wand⟩ := Got.some hG
          have hnn := isNil_false_of_repr hr
          have hI := intoContainer_refines hr
          simp only
          rw [ptrRawIsNil_eq hr]
          by_cases hrn : Legacy.rawIsNil next = true
          · simp only [hrn, if_true, Found]
            intro α act; exact walk_cons_notfound hc (Or.inr (Or.inl hrn))
          · have hrn' : Legacy.rawIsNil next = false := by simpa using hrn
            simp only [hrn', Bool.false_eq_true, if_false]
            cases hi : intoContainer h (some b) with
            | panic =>
              cases hi2 : Legacy.intoContainer next with
              | panic => simp only [Found]; intro α act; exact walk_cons_into_panic hc hnn hrn' hi2
              | ok x => rw [hi, hi2] at hI; simp at hI
              | err e => rw [hi, hi2] at hI; simp at hI
            | err e =>
              cases hi2 : Legacy.intoContainer next with
              | panic => rw [hi, hi2] at hI; simp at hI
              | ok x => rw [hi, hi2] at hI; simp at hI
              | err e' =>
                simp only [Found]
                intro α act; exact walk_cons_notfound hc (Or.inr (Or.inr ⟨e', hi2⟩))
            | ok h1 =>
              cases hi2 : Legacy.intoContainer next with
              | panic => rw [hi, hi2] at hI; simp at hI
              | err e' => rw [hi, hi2] at hI; simp at hI
              | ok child =>
                rw [hi, hi2] at hI
                simp only [OutRel_ok_ok] at hI
                obtain ⟨f1, hr1, e1⟩ := hI
                have ih := find_refines neg rest h1 b child f1 hr1
                have hwalk : ∀ {α : Type} (act : Node → Outcome (Node × α)),
                    walk neg act n (part :: rest) =
                      wrapW n (decodeToken part) (walk neg act child rest) :=
                  fun act => walk_cons_ok hc hnn hrn' hi2
                have vrst : ∀ x ∈ rst, x < h.length := fun x hx => hv x (sr x hx)
                show Found neg h a n fp (part :: rest) (find neg h1 b rest)
                cases hf : find neg h1 b rest with
                | panic =>
                  rw [hf] at ih
                  simp only [Found] at ih ⊢
                  intro α act
                  rw [hwalk act, ih act]; rfl
                | err e => rw [hf] at ih; simp only [Found] at ih
                | ok res =>
                  obtain ⟨h2, oc⟩ := res
                  rw [hf] at ih
                  cases oc with
                  | none =>
                    simp only [Found] at ih ⊢
                    intro α act
                    rw [hwalk act, ih act]; rfl
                  | some c =>
                    simp only [Found] at ih ⊢
                    obtain ⟨conc, fc, ctx1, plug1, hrc, dc, e2, hctx, vctx, hw⟩ := ih
                    have e12 := Ext.trans e1 e2
                    have drst : Disj rst (fc ++ ctx1) := Ext.disj e12 (Disj.symm dfr) vrst
                    refine ⟨conc, fc, ctx1 ++ rst, fun x => putChild n (decodeToken part) (plug1 x),
                      hrc, ?_, Ext.widen e12 sf (fun x hx => ?_), ?_, fun x hx => ?_, fun act => ?_⟩
                    · intro x hx hy
                      simp only [List.mem_append] at hy
                      rcases hy with hy | hy
                      · exact dc x hx hy
                      · exact drst x hy (by simp [hx])
                    · simp only [List.mem_append] at hx ⊢
                      rcases hx with hx | hx | hx
                      · exact Or.inl (Or.inl hx)
                      · exact Or.inl (Or.inr hx)
                      · exact Or.inr (sr x hx)
                    · intro h'' con' fc' r' fr d'
                      obtain ⟨fpb, hrb, subb⟩ := hctx h'' con' fc' r' (fun x hx => fr x (by simp [hx]))
                        (fun x hx hy => d' x hx (by simp [hy]))
                      obtain ⟨fpA, hrA, subA⟩ := wand h'' (plug1 con') fpb hrb
                        (fun x hx => by
                          rw [fr x (by simp [hx])]
                          exact e12.frame x (vrst x hx) (fun h1 => dfr x h1 hx))
                        (fun x hx hy => by
                          rcases subb x hx with h1 | h1
                          · exact d' x h1 (by simp [hy])
                          · exact drst x hy (by simp [h1]))
                      refine ⟨fpA, hrA, fun x hx => ?_⟩
                      simp only [List.mem_append]
                      rcases subA x hx with h1 | h1
                      · rcases subb x h1 with h2 | h2
                        · exact Or.inl h2
                        · exact Or.inr (Or.inl h2)
                      · exact Or.inr (Or.inr h1)
                    · simp only [List.mem_append] at hx
                      rcases hx with hx | hx
                      · exact vctx x hx
                      · exact Nat.lt_of_lt_of_le (vrst x hx) e12.len
                    · rw [hwalk act, hw act, wrapW_doneOf]

/-! ### `findObject(doc, path)` against `withPath` -/

def FoundP (neg : Bool) (r : Node) (h : Heap) (root : Nat) (fp : List Nat) (path : Bytes) :
    Outcome (Heap × Option (Nat × Bytes)) → Prop
  | .panic => ∀ {α : Type} (act : Node → Bytes → Outcome (Node × α)),
      Legacy.withPath neg r path act = .panic
  | .err _ => False
  | .ok (_, none) =>
      ∀ {α : Type} (act : Node → Bytes → Outcome (Node × α)), Legacy.withPath neg r path act = .notFound
  | .ok (h', some (c, key)) =>
    ∃ conc fc ctx plug, LRepr h' conc (some c) fc ∧ Disj fc ctx ∧ Ext h h' fp (fc ++ ctx) ∧
      LCtx h' root c ctx plug ∧ (∀ x ∈ ctx, x < h'.length) ∧
      ∀ {α : Type} (act : Node → Bytes → Outcome (Node × α)),
        Legacy.withPath neg r path act = doneOf plug (act conc key)

theorem findObject_refines (neg : Bool) (r : Node) {h : Heap} {root : Nat} {fp : List Nat}
    (path : Bytes) (hr : LRepr h r (some root) fp) :
    FoundP neg r h root fp path (findObject neg h root path) := by
  unfold findObject
  cases hs : Legacy.splitPath path with
  | none =>
    simp only [FoundP]
    intro α act
    simp only [Legacy.withPath, hs]
  | some pk =>
    obtain ⟨parts, key⟩ := pk
    have hF := find_refines neg parts h root r fp hr
    simp only
    cases hf : find neg h root parts with
    | panic =>
      rw [hf] at hF
      simp only [Found] at hF
      simp only [FoundP]
      intro α act
      simp only [Legacy.withPath, hs]
      exact hF _
    | err e => rw [hf] at hF; simp only [Found] at hF
    | ok res =>
      obtain ⟨h', oc⟩ := res
      rw [hf] at hF
      cases oc with
      | none =>
        simp only [Found] at hF
        simp only [FoundP]
        intro α act
        simp only [Legacy.withPath, hs]; exact hF _
      | some c =>
        simp only [Found] at hF
        simp only [FoundP]
        obtain ⟨conc, fc, ctx, plug, h1, h2, h3, h4, h5, h6⟩ := hF
        exact ⟨conc, fc, ctx, plug, h1, h2, h3, h4, h5,
          fun act => by simp only [Legacy.withPath, hs]; exact h6 _⟩

/-- put the rewritten container back into its context (after an optional allocation `ext`) -/
theorem commit {h h2 : Heap} {fp : List Nat} {root c : Nat} {conc : Node} {fc ctx : List Nat}
    {plug : Node → Node} (hrc : LRepr h2 conc (some c) fc) (dc : Disj fc ctx)
    (e : Ext h h2 fp (fc ++ ctx)) (hctx : LCtx h2 root c ctx plug) (vctx : ∀ x ∈ ctx, x < h2.length)
    (ext : List Cell) (cell' : Cell) {con' : Node} {fc' : List Nat}
    (hr : LRepr ((h2 ++ ext).set c cell') con' (some c) fc')
    (sub : ∀ x ∈ fc', x ∉ ctx ∧ (x ∈ fp ∨ h.length ≤ x)) :
    ∃ fp', LRepr ((h2 ++ ext).set c cell') (plug con') (some root) fp' ∧
      Ext h ((h2 ++ ext).set c cell') fp fp' ∧ ∀ x ∈ fp', x ∈ fc' ∨ x ∈ ctx := by
  have hcfc : c ∈ fc := LRepr.head_mem hrc
  obtain ⟨fp', hr', sub'⟩ := hctx _ con' fc' hr
    (fun x hx => by
      rw [List.getElem?_set_ne (by intro e'; exact dc c hcfc (e' ▸ hx))]
      exact List.getElem?_append_left (vctx x hx))
    (fun x hx hy => (sub x hx).1 hy)
  refine ⟨fp', hr', ⟨?_, fun x hx hf => ?_, fun x hx => ?_⟩, sub'⟩
  · simp only [List.length_set, List.length_append]; have := e.len; omega
  · have hxc : c ≠ x := by
      intro e'
      subst e'
      rcases e.sub c (by simp [hcfc]) with h1 | h1
      · exact hf h1
      · omega
    rw [List.getElem?_set_ne hxc, List.getElem?_append_left (Nat.lt_of_lt_of_le hx e.len)]
    exact e.frame x hx hf
  · rcases sub' x hx with h1 | h1
    · exact (sub x h1).2
    · exact e.sub x (by simp [h1])

end Lg
end Heap
end JP
