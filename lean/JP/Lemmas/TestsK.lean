import JP.Lemmas.TestsPrint
import JP.Lemmas.CloseEnsure
import JP.Lemmas.CloseTokens

/-!
# Passing tests are transparent, part 2: the engine preserves `KN`

Every operation (any options) keeps the invariant `KN e` (`e = o.esc`) on the root's container and
`self` node, provided the operation's value is `KC` and the reference tokens of its `path` survive
the encoder (`OpK`; both hold for a decoded patch outside the trigger class).  The root container
stays container-shaped (`shape`).
-/

namespace JP
namespace Impl

/-- container-shaped: what `conGet` and friends accept without panicking -/
def shape : Node → Bool
  | .doc _ _ => true
  | .ary _ => true
  | .docNil => true
  | .nilAry => true
  | _ => false

/-- a container satisfying the invariant -/
def KS (e : Bool) (c : Node) : Prop := KN e c ∧ shape c = true

theorem KNL_getElem? {e} {ns : List Node} {i : Nat} {n : Node} (h : ∀ n ∈ ns, KN e n)
    (hi : ns[i]? = some n) : KN e n := h n (List.mem_of_getElem? hi)

/-! ### decoding one level -/

theorem KN_childOf {e} {c : Cst} (h : KC e c) : KN e (childOf c) := by
  unfold childOf; split
  · exact KN_nil e
  · exact h

theorem KNM_setN {e} {k : Bytes} {n : Node} {obj : NMembers} (hn : KN e n)
    (h : ∀ kn ∈ obj, KN e kn.2) : ∀ kn ∈ setN k n obj, KN e kn.2 := by
  intro x hx
  rcases mem_setN hx with rfl | hx
  · exact hn
  · exact h x hx

theorem KN_decodeMembers {e} : ∀ (ms : List (Bytes × Cst)) (acc : NMembers), (∀ m ∈ ms, KC e m.2) →
    (∀ kn ∈ acc, KN e kn.2) → ∀ kn ∈ decodeMembers ms acc, KN e kn.2
  | [], acc, _, h => by simpa [decodeMembers] using h
  | (k, v) :: ms, acc, hw, h => by
    simp only [decodeMembers]
    exact KN_decodeMembers ms _ (fun m hm => hw m (by simp [hm]))
      (KNM_setN (KN_childOf (hw (k, v) (by simp))) h)

theorem QK_decodeKeys {e} {ms : List (Bytes × Cst)} (h : ∀ m ∈ ms, validBody m.1 = true) :
    ∀ k ∈ decodeKeys ms, QK e k = true := by
  intro k hk
  obtain ⟨m, hm, rfl⟩ := List.mem_map.1 hk
  exact QK_unquote e m.1 (h m hm)

theorem KN_decodeDoc {e} {ms : List (Bytes × Cst)} (h : KC e (.obj ms)) : KN e (decodeDoc ms) := by
  obtain ⟨hk, hm⟩ := KC_obj h
  unfold decodeDoc
  rw [KN_doc]
  exact ⟨hk, QK_decodeKeys (fun m hmem => (hm m hmem).1),
    KN_decodeMembers ms [] (fun m hmem => (hm m hmem).2.2) (by simp)⟩

theorem KN_decodeAry {e} {xs : List Cst} (h : KC e (.arr xs)) : KN e (decodeAry xs) := by
  unfold decodeAry
  rw [KN_ary]
  intro n hn
  obtain ⟨c, hc, rfl⟩ := List.mem_map.1 hn
  exact KN_childOf (KC_arr h c hc)

/-- outcome of a method returning a node -/
def ConK (e : Bool) : Outcome Node → Prop
  | .ok c => KN e c
  | _ => True

/-- outcome of a method returning a container -/
def ConKS (e : Bool) : Outcome Node → Prop
  | .ok c => KS e c
  | _ => True

theorem intoContainer_K {e} {n : Node} (hn : KN e n) : ConKS e (intoContainer n) := by
  cases n with
  | nil => simp [intoContainer, rawIsArray, intoDoc, ConKS]
  | raw c =>
    cases c with
    | arr xs =>
      simp only [intoContainer, rawIsArray, Cst.isArr, if_true, intoAry, ConKS]
      exact ⟨KN_decodeAry hn, rfl⟩
    | obj ms =>
      simp only [intoContainer, rawIsArray, Cst.isArr, Bool.false_eq_true, if_false, intoDoc, ConKS]
      exact ⟨KN_decodeDoc hn, rfl⟩
    | lit s => simp [intoContainer, rawIsArray, Cst.isArr, intoDoc, ConKS]
    | str s => simp [intoContainer, rawIsArray, Cst.isArr, intoDoc, ConKS]
  | doc keys obj =>
    simp only [intoContainer, rawIsArray, Bool.false_eq_true, if_false, intoDoc, ConKS]; exact ⟨hn, rfl⟩
  | ary ns => simp only [intoContainer, rawIsArray, if_true, intoAry, ConKS]; exact ⟨hn, rfl⟩
  | docNil => simp [intoContainer, rawIsArray, intoDoc, ConKS]
  | nilAry => simp [intoContainer, rawIsArray, intoDoc, ConKS]

theorem enter_K {e cr key next} (hn : KN e next) : ConKS e (enter cr key next) := by
  unfold enter
  exact intoContainer_K hn

theorem decodeRoot_K {e} {c : Cst} (h : KC e c) : ConKS e (decodeRoot c) := by
  cases c with
  | arr xs => exact ⟨KN_decodeAry h, rfl⟩
  | obj ms => exact ⟨KN_decodeDoc h, rfl⟩
  | lit s => simp only [decodeRoot]; split <;> simp [ConKS, KS, KN, shape]
  | str s => trivial

/-! ### container methods -/

theorem conGet_K {e o self con key} (hs : KN e self) (hc : KN e con) :
    ConK e (conGet o self con key) := by
  cases con with
  | doc keys obj =>
    simp only [conGet]
    split
    · rename_i n hl
      exact ((KN_doc e keys obj).1 hc).2.2 _ (lookupN_mem hl)
    · trivial
  | docNil =>
    simp only [conGet]
    trivial
  | ary nodes =>
    have hm := (KN_ary e nodes).1 hc
    simp only [conGet]
    repeat' split
    all_goals first
      | trivial
      | exact hs
      | exact KNL_getElem? hm (by assumption)
  | nilAry => trivial
  | nil => trivial
  | raw c => trivial

theorem KN_docSet {e keys obj key val} (hc : KN e (.doc keys obj)) (hq : QK e key = true) (hv : KN e val) :
    KN e (docSet keys obj key val) := by
  unfold docSet
  rw [KN_doc] at hc ⊢
  obtain ⟨h1, h2, h3⟩ := hc
  refine ⟨?_, ?_, KNM_setN hv h3⟩
  · split
    · exact h1
    · rename_i hcont
      rw [List.nodup_append]
      refine ⟨h1, by simp, ?_⟩
      intro a ha b hb
      simp only [List.mem_singleton] at hb
      subst hb
      intro hab
      subst hab
      exact hcont (by simpa using ha)
  · split
    · exact h2
    · intro k hk
      rcases List.mem_append.1 hk with h | h
      · exact h2 k h
      · simp only [List.mem_singleton] at h; subst h; exact hq

theorem KNL_listSet {e} {i : Nat} {val : Node} {nodes : List Node} (hn : ∀ n ∈ nodes, KN e n)
    (hv : KN e val) : ∀ n ∈ listSet i val nodes, KN e n := by
  intro x hx
  rcases mem_listSet hx with rfl | hx
  · exact hv
  · exact hn x hx

theorem KNL_listInsert {e} {i : Nat} {val : Node} {nodes : List Node} (hn : ∀ n ∈ nodes, KN e n)
    (hv : KN e val) : ∀ n ∈ listInsert i val nodes, KN e n := by
  intro x hx
  rcases mem_listInsert hx with rfl | hx
  · exact hv
  · exact hn x hx

theorem conSet_K {e o con key val} (hc : KN e con) (hq : QK e key = true) (hv : KN e val) :
    ConKS e (conSet o con key val) := by
  cases con with
  | doc keys obj => exact ⟨KN_docSet hc hq hv, rfl⟩
  | ary nodes =>
    have hm := (KN_ary e nodes).1 hc
    simp only [conSet]
    repeat' split
    all_goals first
      | trivial
      | exact ⟨(KN_ary e _).2 (KNL_listSet hm hv), rfl⟩
  | docNil => trivial
  | nilAry => trivial
  | nil => trivial
  | raw c => trivial

theorem conAdd_K {e o con key val} (hc : KN e con) (hq : QK e key = true) (hv : KN e val) :
    ConKS e (conAdd o con key val) := by
  cases con with
  | doc keys obj => exact ⟨KN_docSet hc hq hv, rfl⟩
  | ary nodes =>
    have hm := (KN_ary e nodes).1 hc
    simp only [conAdd]
    repeat' split
    all_goals first
      | trivial
      | exact ⟨(KN_ary e _).2 (KNL_listInsert hm hv), rfl⟩
      | (refine ⟨(KN_ary e _).2 ?_, rfl⟩
         intro n hn
         simp only [List.mem_append, List.mem_singleton] at hn
         rcases hn with hn | rfl
         · exact hm n hn
         · exact hv)
  | docNil => trivial
  | nilAry => trivial
  | nil => trivial
  | raw c => trivial

theorem conRemove_K {e o con key} (hc : KN e con) : ConKS e (conRemove o con key) := by
  cases con with
  | doc keys obj =>
    obtain ⟨h1, h2, h3⟩ := (KN_doc e keys obj).1 hc
    simp only [conRemove]
    repeat' split
    all_goals first
      | trivial
      | exact ⟨hc, rfl⟩
      | exact ⟨(KN_doc e _ _).2 ⟨List.Nodup.sublist (eraseKey_sublist key keys) h1,
          fun k hk => h2 k ((eraseKey_sublist key keys).subset hk), fun x hx => h3 x (mem_eraseN hx)⟩, rfl⟩
  | ary nodes =>
    have hm := (KN_ary e nodes).1 hc
    simp only [conRemove]
    repeat' split
    all_goals first
      | trivial
      | exact ⟨hc, rfl⟩
      | exact ⟨(KN_ary e _).2 (fun x hx => hm x (List.mem_of_mem_eraseIdx hx)), rfl⟩
  | docNil => trivial
  | nilAry => trivial
  | nil => trivial
  | raw c => trivial

theorem putChild_K {e o con key child'} (hc : KS e con) (hch : KN e child') :
    KS e (putChild o con key child') := by
  obtain ⟨hk, hs⟩ := hc
  cases con with
  | doc keys obj =>
    simp only [putChild]
    rw [KS, KN_doc] at *
    exact ⟨⟨hk.1, hk.2.1, KNM_setN hch hk.2.2⟩, rfl⟩
  | ary nodes =>
    simp only [putChild]
    split
    · exact ⟨(KN_ary e _).2 (KNL_listSet ((KN_ary e _).1 hk) hch), rfl⟩
    · exact ⟨hk, hs⟩
  | docNil => exact ⟨hk, hs⟩
  | nilAry => exact ⟨hk, hs⟩
  | nil => exact ⟨hk, hs⟩
  | raw c => exact ⟨hk, hs⟩

/-! ### walks -/

def WalkK {α} (e : Bool) (Q : α → Prop) : Walk α → Prop
  | .done con a => KS e con ∧ Q a
  | .notFound con => KS e con
  | .fail _ => True
  | .panic => True
  | .doneSelf s a => KN e s ∧ Q a
  | .notFoundSelf s => KN e s

def ActK {α} (e : Bool) (Q : α → Prop) : Outcome (Node × α) → Prop
  | .ok (con', a) => KS e con' ∧ Q a
  | .err _ => True
  | .panic => True

theorem wrapWalk_K {α} {e} {Q : α → Prop} {o con key} {w : Walk α}
    (hc : KS e con) (hw : WalkK e Q w) : WalkK e Q (wrapWalk o con key w) := by
  cases w with
  | done child' a =>
    simp only [wrapWalk]
    exact ⟨putChild_K hc hw.1.1, hw.2⟩
  | notFound child' =>
    simp only [wrapWalk]
    exact putChild_K hc hw.1
  | fail e => trivial
  | panic => trivial
  | doneSelf s a => exact hw
  | notFoundSelf s => exact hw

theorem walk_K {α} {e} (o : Opts) (act : Node → Node → Outcome (Node × α)) (Q : α → Prop)
    (hact : ∀ self con, KS e con → KN e self → ActK e Q (act self con)) :
    ∀ (parts : List Bytes) (cr : Bool) (self con : Node),
      KS e con → KN e self → WalkK e Q (walk o act cr self con parts) := by
  intro parts
  induction parts with
  | nil =>
    intro cr self con hc hs
    rw [walk_nil]
    have := hact self con hc hs
    cases h : act self con with
    | ok p => obtain ⟨con', a⟩ := p; rw [h] at this; exact this
    | err e => trivial
    | panic => trivial
  | cons part rest ih =>
    intro cr self con hc hs
    rw [walk_cons]
    have hg' := conGet_K (o := o) (key := decodeToken part) hs hc.1
    cases hg : conGet o self con (decodeToken part) with
    | panic => trivial
    | err e => exact hc
    | ok next =>
      rw [hg] at hg'
      simp only []
      split
      · exact hc
      · have he := enter_K (cr := cr) (key := decodeToken part) hg'
        cases hent : enter cr (decodeToken part) next with
        | panic => trivial
        | err e => exact hc
        | ok child =>
          rw [hent] at he
          exact wrapWalk_K hc (ih false .nil child he (KN_nil e))

/-- a root whose nodes satisfy the invariant -/
def RootK (e : Bool) (r : Root) : Prop := KS e r.con ∧ KN e r.self

theorem QK_nil (e : Bool) : QK e [] = true := by cases e <;> decide

theorem splitPath_key {e} {path : Bytes} {parts : List Bytes} {key : Bytes}
    (hp : ∀ p ∈ splitSlash path, QK e (decodeToken p) = true)
    (h : splitPath path = some (parts, key)) :
    QK e key = true ∧ ∀ p ∈ parts, QK e (decodeToken p) = true := by
  unfold splitPath at h
  split at h
  · cases h
  · split at h
    · simp only [Option.some.injEq, Prod.mk.injEq] at h
      obtain ⟨rfl, rfl⟩ := h
      exact ⟨QK_nil e, by simp⟩
    · cases h
  · rename_i x rest _ heq
    split at h
    · cases h
    simp only [Option.some.injEq, Prod.mk.injEq] at h
    obtain ⟨rfl, rfl⟩ := h
    rw [heq] at hp
    constructor
    · cases hl : rest.getLast? with
      | none => simp only [Option.getD_none]; exact QK_nil e
      | some l =>
        simp only [Option.getD_some]
        exact hp l (List.mem_cons_of_mem _ (List.mem_of_getLast? hl))
    · intro p hp'
      exact hp p (List.mem_cons_of_mem _ (List.dropLast_subset _ hp'))

/-- walks whose action needs no fact about the last token (`remove`, `get`, `test`, …) -/
theorem withPath_K {α} {e} (o : Opts) (r : Root) (path : Bytes)
    (act : Node → Node → Bytes → Outcome (Node × α)) (Q : α → Prop) (hr : RootK e r)
    (hact : ∀ self con key, KS e con → KN e self → ActK e Q (act self con key)) :
    WalkK e Q (withPath o r path act) := by
  unfold withPath
  split
  · exact hr.1
  · exact walk_K o _ Q (fun self con => hact self con _) _ _ _ _ hr.1 hr.2

/-- walks along the `path` of the operation, whose last token becomes a member name -/
theorem withPath_Kq {α} {e} (o : Opts) (r : Root) (path : Bytes)
    (act : Node → Node → Bytes → Outcome (Node × α)) (Q : α → Prop) (hr : RootK e r)
    (hp : ∀ p ∈ splitSlash path, QK e (decodeToken p) = true)
    (hact : ∀ self con key, QK e key = true → KS e con → KN e self → ActK e Q (act self con key)) :
    WalkK e Q (withPath o r path act) := by
  unfold withPath
  split
  · exact hr.1
  · rename_i parts key hsp
    exact walk_K o _ Q (fun self con => hact self con _ (splitPath_key hp hsp).1) _ _ _ _ hr.1 hr.2

def OutK (e : Bool) : Outcome Root → Prop
  | .ok r => RootK e r
  | _ => True

theorem liftWalk_K {e} {Q : Unit → Prop} {r : Root} {w : Walk Unit} {k : Root → Outcome Root}
    (hr : RootK e r) (hw : WalkK e Q w) (hk : ∀ r', RootK e r' → OutK e (k r')) :
    OutK e (liftWalk r w k) := by
  cases w with
  | done con a => exact ⟨hw.1, hr.2⟩
  | notFound con => exact hk _ ⟨hw, hr.2⟩
  | fail e => trivial
  | panic => trivial
  | doneSelf s a => exact ⟨hr.1, hw.1⟩
  | notFoundSelf s => exact hk _ ⟨hr.1, hw⟩

theorem liftAct_K {α} {e} {Q : α → Prop} {x : Outcome Node} {a : α} : ConKS e x → Q a →
    ActK e Q (match x with
      | .ok con' => (.ok (con', a) : Outcome (Node × α))
      | .err e => .err e
      | .panic => .panic) := by
  intro hx ha
  cases x with
  | ok c => exact ⟨hx, ha⟩
  | err e => trivial
  | panic => trivial

/-! ### `deepCopy`, `deepParse` -/

theorem KN_deepCopy {e} {n : Node} (h : KN e n) : KN e (deepCopy e n).1 := by
  cases n with
  | nil => exact KN_nil e
  | raw c => exact KC_cstOf e _ h
  | doc keys obj => exact KC_cstOf e _ h
  | ary ns => exact KC_cstOf e _ h
  | docNil => exact KC_cstOf e _ h
  | nilAry => exact KC_cstOf e _ h

mutual
theorem KN_deepParseC (e : Bool) : ∀ (c : Cst), KC e c → KN e (deepParseC c)
  | .lit s, h => by
    simp only [deepParseC]; split
    · exact KN_nil e
    · exact h
  | .str b, h => by simpa [deepParseC, KN] using h
  | .arr xs, h => by
    simp only [deepParseC]; rw [KN_ary]; exact KN_deepParseCL e xs (KC_arr h)
  | .obj ms, h => by
    obtain ⟨hk, hm⟩ := KC_obj h
    simp only [deepParseC]; rw [KN_doc]
    exact ⟨hk, QK_decodeKeys (fun m hmem => (hm m hmem).1),
      KN_deepParseCM e ms [] (fun m hmem => (hm m hmem).2.2) (by simp)⟩
theorem KN_deepParseCL (e : Bool) : ∀ (xs : List Cst), (∀ x ∈ xs, KC e x) → ∀ n ∈ deepParseCL xs, KN e n
  | [], _ => by simp [deepParseCL]
  | x :: xs, h => by
    intro n hn
    simp only [deepParseCL, List.mem_cons] at hn
    rcases hn with hn | hn
    · rw [hn]; exact KN_deepParseC e x (h x (by simp))
    · exact KN_deepParseCL e xs (fun y hy => h y (by simp [hy])) n hn
theorem KN_deepParseCM (e : Bool) : ∀ (ms : List (Bytes × Cst)) (acc : NMembers), (∀ m ∈ ms, KC e m.2) →
    (∀ p ∈ acc, KN e p.2) → ∀ p ∈ deepParseCM ms acc, KN e p.2
  | [], acc, _, h2 => by simpa [deepParseCM] using h2
  | (k, v) :: ms, acc, h, h2 => by
    simp only [deepParseCM]
    exact KN_deepParseCM e ms _ (fun m hm => h m (by simp [hm]))
      (KNM_setN (KN_deepParseC e v (h (k, v) (by simp))) h2)
end

mutual
theorem KN_deepParse (e : Bool) : ∀ (n : Node), KN e n → KN e (deepParse n)
  | .raw c, h => by
    simp only [deepParse]
    split
    · exact KN_deepParseC e c h
    · exact h
  | .doc keys obj, h => by
    simp only [KN] at h
    simp only [deepParse, KN]
    exact ⟨h.1, h.2.1, KN_deepParseM e obj h.2.2⟩
  | .ary ns, h => by
    simp only [KN] at h
    simp only [deepParse, KN]
    exact KN_deepParseL e ns h
  | .nil, _ => by simp [deepParse, KN]
  | .docNil, _ => by simp [deepParse, KN]
  | .nilAry, _ => by simp [deepParse, KN]
theorem KN_deepParseM (e : Bool) : ∀ (obj : NMembers), KNM e obj → KNM e (deepParseM obj)
  | [], _ => by simp [deepParseM, KNM]
  | (k, n) :: ms, h => by
    simp only [KNM] at h
    simp only [deepParseM, KNM]
    exact ⟨KN_deepParse e n h.1, KN_deepParseM e ms h.2⟩
theorem KN_deepParseL (e : Bool) : ∀ (ns : List Node), KNL e ns → KNL e (deepParseL ns)
  | [], _ => by simp [deepParseL, KNL]
  | n :: ns, h => by
    simp only [KNL] at h
    simp only [deepParseL, KNL]
    exact ⟨KN_deepParse e n h.1, KN_deepParseL e ns h.2⟩
end

theorem shape_deepParse {n : Node} (h : shape n = true) : shape (deepParse n) = true := by
  cases n <;> simp_all [shape, deepParse]

theorem equalTo_K {e} {n : Node} {ov : Option Cst} (hn : KN e n) : KN e (equalTo n ov).2 := by
  cases ov with
  | none => simp [equalTo]; exact hn
  | some c =>
    simp only [equalTo]
    split
    · exact hn
    · split
      · exact KN_deepParse e n hn
      · exact hn

theorem equalTo_shape {n : Node} {ov : Option Cst} (hn : shape n = true) : shape (equalTo n ov).2 = true := by
  cases ov with
  | none => simp [equalTo]; exact hn
  | some c =>
    simp only [equalTo]
    split
    · exact hn
    · split
      · exact shape_deepParse hn
      · exact hn

/-! ### the operations -/

/-- what the invariant needs of an operation -/
structure OpK (e : Bool) (op : Op) : Prop where
  val : ∀ c, op.value = some c → KC e c
  toks : ∀ p ∈ splitSlash op.path, QK e (decodeToken p) = true

theorem KN_valueNode {e} {op : Op} (h : OpK e op) : KN e (op.valueNode.getD .nil) := by
  unfold Op.valueNode
  cases hv : op.value with
  | none => exact KN_nil e
  | some c => exact h.val c hv

theorem addWalk_K {e o r path val} (hr : RootK e r)
    (hp : ∀ p ∈ splitSlash path, QK e (decodeToken p) = true) (hv : KN e val) :
    WalkK e (fun _ => True) (addWalk o r path val) :=
  withPath_Kq o r path _ _ hr hp fun _ _ _ hq hc _ => liftAct_K (conAdd_K hc.1 hq hv) trivial

/-! #### `ensure` -/

theorem KN_rawNull (e : Bool) : KN e rawNull := by
  simp only [rawNull, KN]; exact KC_litNull e

theorem KNL_padNulls (e : Bool) (n : Nat) : ∀ x ∈ padNulls n, KN e x := by
  intro x hx
  rw [padNulls, List.mem_replicate] at hx
  rw [hx.2]; exact KN_rawNull e

theorem KS_aryPad (e : Bool) (n : Nat) : KS e (.ary (padNulls n)) := ⟨(KN_ary e _).2 (KNL_padNulls e n), rfl⟩

theorem KS_emptyDoc (e : Bool) : KS e (.doc [] []) := ⟨by simp [KN, KNM], rfl⟩

/-- outcome of `ensure` -/
def EnsK (e : Bool) : Outcome (Node × Node) → Prop
  | .ok (c, s) => KS e c ∧ KN e s
  | _ => True

theorem ensurePad_K {e part con} (hc : KS e con) : KS e (ensurePad part con) := by
  unfold ensurePad
  split
  · rename_i ai nodes
    split
    · refine ⟨?_, rfl⟩
      have := (KN_ary e _).1 hc.1
      rw [KN_ary]
      intro n hn
      rcases List.mem_append.1 hn with h | h
      · exact this n h
      · exact KNL_padNulls e _ n h
    · exact hc
  · exact hc

theorem ensureAdd_K {e o con1 key self x} (hc : KS e con1) (hq : QK e key = true) (hs : KN e self)
    (hx : EnsK e x) : EnsK e (ensureAdd o con1 key self x) := by
  cases x with
  | ok p =>
    obtain ⟨child, s'⟩ := p
    simp only [ensureAdd]
    have := conAdd_K (o := o) (key := key) hc.1 hq hx.1.1
    cases h : conAdd o con1 key child with
    | ok con2 => rw [h] at this; exact ⟨this, hs⟩
    | err e => exact ⟨hc, hs⟩
    | panic => trivial
  | err e => trivial
  | panic => trivial

theorem ensurePut_K {e o con key self x} (hc : KS e con) (hs : KN e self) (hx : EnsK e x) :
    EnsK e (ensurePut o con key self x) := by
  cases x with
  | ok p =>
    obtain ⟨child, s'⟩ := p
    simp only [ensurePut]
    exact ⟨putChild_K hc hx.1.1, hs⟩
  | err e => trivial
  | panic => trivial

theorem ensureTarget_K {e o self con key t} (hs : KN e self) (hc : KN e con)
    (h : ensureTarget o self con key = some t) : KN e t := by
  have hg := conGet_K (o := o) (key := key) hs hc
  unfold ensureTarget at h
  cases hx : conGet o self con key with
  | ok n =>
    rw [hx] at h hg
    cases n <;> simp only [Option.some.injEq] at h <;> first | contradiction | (subst h; exact hg)
  | err e => rw [hx] at h; cases h
  | panic => rw [hx] at h; cases h

theorem ensure_K {e} (o : Opts) : ∀ (parts : List Bytes) (cr : Bool) (self con : Node),
    (∀ p ∈ parts, QK e (decodeToken p) = true) →
    KS e con → KN e self → EnsK e (ensure o cr self con parts) := by
  intro parts
  induction parts with
  | nil => intro cr self con _ hc hs; rw [ensure]; exact ⟨hc, hs⟩
  | cons part rest ih =>
    intro cr self con hp hc hs
    cases rest with
    | nil => rw [ensure]; exact ⟨hc, hs⟩
    | cons nxt rest =>
      have hq : QK e (decodeToken part) = true := hp part (by simp)
      have hp' : ∀ p ∈ nxt :: rest, QK e (decodeToken p) = true := fun p h => hp p (List.mem_cons_of_mem _ h)
      rw [ensure_cons2]
      cases ht : ensureTarget o self con (decodeToken part) with
      | none =>
        simp only []
        split
        · split
          · trivial
          · split
            · trivial
            · exact ensureAdd_K (ensurePad_K hc) hq hs (ih false .nil _ hp' (KS_aryPad e _) (KN_nil e))
        · exact ensureAdd_K (ensurePad_K hc) hq hs (ih false .nil _ hp' (KS_emptyDoc e) (KN_nil e))
      | some t =>
        simp only []
        have hwt := ensureTarget_K hs hc.1 ht
        have he := enter_K (cr := cr) (key := decodeToken part) hwt
        cases hent : enter cr (decodeToken part) t with
        | panic => trivial
        | err e => trivial
        | ok child =>
          rw [hent] at he
          exact ensurePut_K hc hs (ih false .nil child hp' he (KN_nil e))

theorem ensurePath_K {e o r path} (hr : RootK e r)
    (hp : ∀ p ∈ splitSlash path, QK e (decodeToken p) = true) : OutK e (ensurePath o r path) := by
  unfold ensurePath
  split
  · exact hr
  · exact hr
  · rename_i hd parts _ heq
    split
    · exact hr
    have := ensure_K (e := e) o parts r.selfCR r.self r.con
      (fun p h => hp p (by rw [heq]; exact List.mem_cons_of_mem _ h)) hr.1 hr.2
    cases h : ensure o r.selfCR r.self r.con parts with
    | ok p => obtain ⟨c, s⟩ := p; rw [h] at this; exact this
    | err e => trivial
    | panic => trivial

theorem opAdd_K {e o r op} (hr : RootK e r) (hv : OpK e op) : OutK e (opAdd o r op) := by
  unfold opAdd
  split
  · cases hval : op.value with
    | none => trivial
    | some c =>
      simp only []
      have hd := decodeRoot_K (hv.val c hval)
      cases h : decodeRoot c with
      | ok con => rw [h] at hd; exact ⟨hd, hv.val c hval⟩
      | err e => trivial
      | panic => trivial
  · simp only []
    have h1 : OutK e (if o.ensure = true then ensurePath o r op.path else .ok r) := by
      split
      · exact ensurePath_K hr hv.toks
      · exact hr
    cases he : (if o.ensure = true then ensurePath o r op.path else Outcome.ok r) with
    | err e => trivial
    | panic => trivial
    | ok r1 =>
      rw [he] at h1
      exact liftWalk_K h1 (addWalk_K h1 hv.toks (KN_valueNode hv)) (fun _ _ => trivial)

theorem opRemove_K {e o r op} (hr : RootK e r) : OutK e (opRemove o r op) := by
  unfold opRemove
  refine liftWalk_K (Q := fun _ => True) hr ?_ ?_
  · exact withPath_K o r _ _ _ hr fun _ _ _ hc _ => liftAct_K (conRemove_K hc.1) trivial
  · intro r' hr'
    split
    · exact hr'
    · trivial

theorem opReplace_K {e o r op} (hr : RootK e r) (hv : OpK e op) : OutK e (opReplace o r op) := by
  unfold opReplace
  split
  · cases hval : op.value with
    | none => trivial
    | some c =>
      simp only []
      have hw := hv.val c hval
      cases c with
      | obj ms => exact ⟨⟨KN_decodeDoc hw, rfl⟩, KN_nil e⟩
      | arr xs => exact ⟨⟨KN_decodeAry hw, rfl⟩, KN_nil e⟩
      | lit s =>
        simp only []
        split
        · exact ⟨⟨by simp [KN], rfl⟩, KN_nil e⟩
        · trivial
      | str s => trivial
  · simp only []
    refine liftWalk_K (Q := fun _ => True) hr ?_ (fun _ _ => trivial)
    refine withPath_Kq o r _ _ _ hr hv.toks ?_
    intro self con key hq hc hs
    cases hg : conGet o self con key with
    | panic => trivial
    | err e => trivial
    | ok x => exact liftAct_K (conSet_K hc.1 hq (KN_valueNode hv)) trivial

theorem opMove_K {e o r op} (he : o.esc = e) (hr : RootK e r) (hv : OpK e op) : OutK e (opMove o r op) := by
  unfold opMove
  split
  · trivial
  · split
    · trivial
    · rename_i frm _ _
      simp only []
      generalize hwe : (withPath o r frm _) = w
      have hw : WalkK e (fun v => KN e v) w := by
        rw [← hwe]
        refine withPath_K o r _ _ _ hr ?_
        intro self con key hc hs
        have hg' := conGet_K (o := o) (key := key) hs hc.1
        cases hg : conGet o self con key with
        | panic => trivial
        | err e => trivial
        | ok x =>
          rw [hg] at hg'
          exact liftAct_K (conRemove_K hc.1) hg'
      have hcont : ∀ r1 val, RootK e r1 → KN e val → OutK e (liftWalk r1 (addWalk o r1 op.path val)
          (fun _ => .err .missing)) := by
        intro r1 val h1 hvv
        exact liftWalk_K h1 (addWalk_K h1 hv.toks hvv) (fun _ _ => trivial)
      clear hwe
      cases w with
      | panic => trivial
      | fail e => trivial
      | notFound c => trivial
      | notFoundSelf s => trivial
      | done con val => exact hcont _ _ ⟨hw.1, hr.2⟩ hw.2
      | doneSelf s val => exact hcont _ _ ⟨hr.1, hw.1⟩ hw.2

theorem opTest_K {e o r op} (hr : RootK e r) : OutK e (opTest o r op) := by
  unfold opTest
  split
  · have := equalTo_K (n := r.con) (ov := op.value) hr.1.1
    have hsh := equalTo_shape (n := r.con) (ov := op.value) hr.1.2
    cases he : equalTo r.con op.value with
    | mk b con' =>
      rw [he] at this hsh
      simp only []
      split
      · exact ⟨⟨this, hsh⟩, hr.2⟩
      · trivial
  · refine liftWalk_K (Q := fun _ => True) hr ?_ (fun _ _ => trivial)
    refine withPath_K o r _ _ _ hr ?_
    intro self con key hc hs
    simp only []
    have hg' := conGet_K (o := o) (key := key) hs hc.1
    cases hg : conGet o self con key with
    | panic => trivial
    | err e' =>
      cases e' <;> simp only [] <;> first
        | trivial
        | skip
      cases he : equalTo Node.nil op.value with
      | mk b val' =>
        simp only []
        split
        · exact ⟨hc, trivial⟩
        · trivial
    | ok val =>
      simp only []
      rw [hg] at hg'
      have := equalTo_K (n := val) (ov := op.value) hg'
      cases he : equalTo val op.value with
      | mk b val' =>
        rw [he] at this
        simp only []
        split
        · split
          · exact ⟨hc, trivial⟩
          · exact ⟨putChild_K hc this, trivial⟩
        · trivial

/-! #### copy -/

def OutK2 (e : Bool) : Outcome (Root × Int) → Prop
  | .ok (r', _) => RootK e r'
  | _ => True

theorem afterW_K {α} {e} {Q : α → Prop} {r : Root} {w : Walk α} {r1 : Root} (hr : RootK e r)
    (hw : WalkK e Q w) (h : afterW r w = some r1) : RootK e r1 := by
  cases w <;> simp only [afterW] at h <;> first | contradiction | cases h
  · exact ⟨hw.1, hr.2⟩
  · exact ⟨hr.1, hw.1⟩

theorem failOf_K {α} {e} {w : Walk α} : OutK2 e (failOf w) := by
  cases w <;> simp only [failOf] <;> trivial

theorem copySource_K {e o r frm} (hr : RootK e r) : WalkK e (fun v => KN e v) (copySource o r frm) := by
  refine withPath_K o r _ _ _ hr ?_
  intro self con key hc hs
  have hg' := conGet_K (o := o) (key := key) hs hc.1
  cases hg : conGet o self con key with
  | panic => trivial
  | err e => trivial
  | ok x => rw [hg] at hg'; exact ⟨hc, hg'⟩

theorem copyFirst_K {e o r frm} (hr : RootK e r) : WalkK e (fun v => KN e v) (copyFirst o r frm) := by
  unfold copyFirst
  split
  · split
    · trivial
    · exact ⟨hr.1, hr.1.1⟩
  · exact copySource_K hr

theorem destWalk_K {e o r path} (hr : RootK e r) : WalkK e (fun _ => True) (destWalk o r path) :=
  withPath_K o r _ _ _ hr fun _ _ _ hc _ => ⟨hc, trivial⟩

theorem copySrc_K {e o r2 frm val} (hr2 : RootK e r2) (h3 : copySrc o r2 frm = .ok val) : KN e val := by
  unfold copySrc at h3
  split at h3
  · cases h3; exact hr2.1.1
  · have hw3 := copySource_K (o := o) (frm := frm) hr2
    split at h3 <;> first | contradiction | skip
    · rename_i h4; rw [h4] at hw3; cases h3; exact hw3.2
    · rename_i h4; rw [h4] at hw3; cases h3; exact hw3.2

theorem opCopy_K {e o r acc op} (he : o.esc = e) (hr : RootK e r) (hv : OpK e op) :
    OutK2 e (opCopy o r acc op) := by
  rw [opCopy_eq]
  split
  · trivial
  · rename_i frm _
    have hw1 := copyFirst_K (o := o) (frm := frm) hr
    split
    · exact failOf_K
    · rename_i r1 h1
      have hr1 := afterW_K hr hw1 h1
      have hw2 := destWalk_K (o := o) (path := op.path) hr1
      split
      · exact failOf_K
      · rename_i r2 h2
        have hr2 := afterW_K hr1 hw2 h2
        split
        · trivial
        · trivial
        · rename_i val h3
          have hval : KN e val := copySrc_K hr2 h3
          split
          · trivial
          · split
            · trivial
            · have hw4 := addWalk_K (o := o) (path := op.path) hr2 hv.toks (val := (deepCopy o.esc val).1)
                (by rw [he]; exact KN_deepCopy hval)
              split
              · rename_i r3 h4
                exact afterW_K hr2 hw4 h4
              · exact failOf_K

theorem liftAcc_K2 {e acc x} (h : OutK e x) : OutK2 e (liftAcc acc x) := by
  cases x with
  | ok r => exact h
  | err e => trivial
  | panic => trivial

theorem applyOp_K {e o r acc op} (he : o.esc = e) (hr : RootK e r) (hv : OpK e op) :
    OutK2 e (applyOp o r acc op) := by
  rw [applyOp_eq]
  split
  · exact liftAcc_K2 (opAdd_K hr hv)
  split
  · exact liftAcc_K2 (opRemove_K hr)
  split
  · exact liftAcc_K2 (opReplace_K hr hv)
  split
  · exact liftAcc_K2 (opMove_K he hr hv)
  split
  · exact liftAcc_K2 (opTest_K hr)
  split
  · exact opCopy_K he hr hv
  · trivial

end Impl
end JP
