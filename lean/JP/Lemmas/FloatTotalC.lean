import JP.Lemmas.FloatTotalDefs

/-!
# Totality of the shortest-digits search: the candidate with the maximal number of digits exists

With `n = maxDigits bits` digits (17 / 9) one of the two decimals around the exact value is within
`v / 2^(mantBits + 2)` of it (`2^(mantBits+1) < 10^(n-1)`), so, given that close decimals round to `x`, `cand` is not
`none`.
-/

namespace JP
namespace Codec
namespace Float

theorem candPick_ne_none (bits : Nat) (x : FP) (lo r b : Nat) (e : Int)
    (h0 : r = 0 → roundsTo bits x lo e = true)
    (h1 : r ≠ 0 → roundsTo bits x lo e = true ∨ roundsTo bits x (lo + 1) e = true) :
    candPick bits x lo r b e ≠ none := by
  unfold candPick
  by_cases hr : r = 0
  · simp only [hr, if_true, h0 hr]
    simp
  · simp only [hr, if_false]
    cases hlo : roundsTo bits x lo e <;> cases hhi : roundsTo bits x (lo + 1) e
    · have := h1 hr
      rw [hlo, hhi] at this
      simp at this
    · simp
    · simp
    · simp only [Bool.and_self, if_true]
      by_cases c1 : 2 * r < b
      · simp [c1]
      · by_cases c2 : b < 2 * r
        · simp [c1, c2]
        · by_cases c3 : lo % 2 = 0
          · simp [c1, c2, c3]
          · simp [c1, c2, c3]

theorem pow_gap (bits : Nat) : 2 ^ (mantBits bits + 1) < 10 ^ (maxDigits bits - 1) := by
  unfold mantBits maxDigits
  by_cases h : bits = 32
  · simp only [h, if_true]; decide
  · simp only [h, if_false]; decide

theorem maxDigits_pos (bits : Nat) : 1 ≤ maxDigits bits := by
  unfold maxDigits
  by_cases h : bits = 32
  · simp only [h, if_true]; decide
  · simp only [h, if_false]; decide

/-- from `10^(k-1) ≤ N/D`: the scaled fraction is at least `10^(n-1)` -/
theorem candAB_ge (N D : Nat) (k : Int) (n : Nat) (hn : 1 ≤ n) (hk : geP10 N D (k - 1) = true) :
    10 ^ (n - 1) * (candAB N D ((n : Int) - k)).2 ≤ (candAB N D ((n : Int) - k)).1 := by
  unfold geP10 at hk
  unfold candAB
  by_cases hk1 : k - 1 ≥ 0
  · simp only [hk1, if_true, decide_eq_true_eq] at hk
    by_cases hs : (n : Int) - k ≥ 0
    · simp only [hs, if_true]
      have e : n - 1 = (k - 1).toNat + ((n : Int) - k).toNat := by omega
      rw [e, Nat.pow_add]
      generalize 10 ^ (k - 1).toNat = P at *
      generalize 10 ^ ((n : Int) - k).toNat = Q at *
      calc P * Q * D = (D * P) * Q := by
            rw [Nat.mul_comm D P, Nat.mul_assoc, Nat.mul_assoc, Nat.mul_comm Q D]
        _ ≤ N * Q := Nat.mul_le_mul_right Q hk
    · simp only [hs, if_false]
      have e : (k - 1).toNat = (n - 1) + (-((n : Int) - k)).toNat := by omega
      rw [e, Nat.pow_add] at hk
      generalize 10 ^ (n - 1) = P at *
      generalize 10 ^ (-((n : Int) - k)).toNat = Q at *
      calc P * (D * Q) = D * (P * Q) := by
            rw [← Nat.mul_assoc, Nat.mul_comm P D, Nat.mul_assoc]
        _ ≤ N := hk
  · simp only [hk1, if_false, decide_eq_true_eq] at hk
    have hs : (n : Int) - k ≥ 0 := by omega
    simp only [hs, if_true]
    have e : ((n : Int) - k).toNat = (-(k - 1)).toNat + (n - 1) := by omega
    rw [e, Nat.pow_add]
    generalize 10 ^ (n - 1) = P at *
    generalize 10 ^ (-(k - 1)).toNat = Q at *
    calc P * D ≤ P * (N * Q) := Nat.mul_le_mul_left P hk
      _ = N * (Q * P) := by
            rw [Nat.mul_comm P (N * Q), Nat.mul_assoc]

theorem candAB_snd_pos (N D : Nat) (hD : 0 < D) (s : Int) : 0 < (candAB N D s).2 := by
  unfold candAB
  by_cases hs : s ≥ 0
  · simp only [hs, if_true]; exact hD
  · simp only [hs, if_false]
    exact Nat.mul_pos hD (Nat.pow_pos (by decide))

/-- closeness of the decimal `c · 10^e`, read on the scaled fraction `(a, b) = candAB N D (-e)` -/
theorem close_of_cand (bits : Nat) (x : FP) (c : Nat) (e s : Int) (hs : s = -e)
    (h : 2 ^ (mantBits bits + 2)
          * adiff (c * (candAB (exactN bits x) (exactD bits x) s).2) (candAB (exactN bits x) (exactD bits x) s).1
        < (candAB (exactN bits x) (exactD bits x) s).1) :
    closeTo bits x (decN c e) (decD e) := by
  subst hs
  unfold closeTo decN decD
  unfold candAB at h
  generalize exactN bits x = N at *
  generalize exactD bits x = D at *
  generalize 2 ^ (mantBits bits + 2) = M at *
  by_cases he : e > 0
  · have h1 : ¬ (-e ≥ 0) := by omega
    have h2 : e ≥ 0 := by omega
    simp only [h1, if_false, Int.neg_neg] at h
    simp only [h2, if_true, Nat.mul_one]
    generalize 10 ^ e.toNat = P at *
    have e1 : c * P * D = c * (D * P) := by
      rw [Nat.mul_assoc, Nat.mul_comm P D]
    rw [e1]
    exact h
  · by_cases he0 : e = 0
    · subst he0
      simp only [Int.neg_zero, ge_iff_le, Int.le_refl, if_true, Int.toNat_zero, Nat.pow_zero, Nat.mul_one] at h ⊢
      exact h
    · have h1 : -e ≥ 0 := by omega
      have h2 : ¬ (e ≥ 0) := by omega
      simp only [h1, if_true] at h
      simp only [h2, if_false]
      exact h

theorem adiff_lo (a b : Nat) : adiff (a / b * b) a = a % b := by
  unfold adiff
  have h := Nat.div_add_mod a b
  rw [Nat.mul_comm] at h
  generalize a / b * b = q at *
  omega

theorem adiff_hi (a b : Nat) (hb : 0 < b) : adiff ((a / b + 1) * b) a = b - a % b := by
  unfold adiff
  have h := Nat.div_add_mod a b
  have hlt := Nat.mod_lt a hb
  rw [Nat.mul_comm] at h
  rw [Nat.add_mul, Nat.one_mul]
  generalize a / b * b = q at *
  omega

theorem close_ineq (T P a b r : Nat) (hT : T < P) (hb : 0 < b) (hab : P * b ≤ a) (hr : 2 * r ≤ b) :
    T * 2 * r < a := by
  calc T * 2 * r = T * (2 * r) := Nat.mul_assoc _ _ _
    _ ≤ T * b := Nat.mul_le_mul_left T hr
    _ < P * b := Nat.mul_lt_mul_of_pos_right hT hb
    _ ≤ a := hab

/-- the candidate with the maximal number of digits exists -/
theorem cand_max_some (bits : Nat) (x : FP) (N D : Nat) (_hN : 0 < N) (hD : 0 < D)
    (hNx : N = exactN bits x) (hDx : D = exactD bits x) (k : Int)
    (hk : geP10 N D (k - 1) = true)
    (hA : ∀ (c : Nat) (e : Int), c ≠ 0 → closeTo bits x (decN c e) (decD e) → roundsTo bits x c e = true) :
    cand bits x N D k (maxDigits bits) ≠ none := by
  subst hNx hDx
  have hn := maxDigits_pos bits
  have hge := candAB_ge (exactN bits x) (exactD bits x) k (maxDigits bits) hn hk
  have hbpos := candAB_snd_pos (exactN bits x) (exactD bits x) hD ((maxDigits bits : Int) - k)
  have hgap := pow_gap bits
  have hse : (maxDigits bits : Int) - k = -(k - (maxDigits bits : Int)) := by omega
  have hcl := fun c => close_of_cand bits x c (k - (maxDigits bits : Int)) ((maxDigits bits : Int) - k) hse
  unfold cand
  simp only []
  generalize hab : candAB (exactN bits x) (exactD bits x) ((maxDigits bits : Int) - k) = ab at *
  generalize k - (maxDigits bits : Int) = e at *
  obtain ⟨a, b⟩ := ab
  simp only [] at hge hbpos hcl ⊢
  rw [Nat.pow_succ] at hcl
  generalize 2 ^ (mantBits bits + 1) = T at *
  generalize 10 ^ (maxDigits bits - 1) = P at *
  have hPpos : 0 < P := by omega
  have hlo : a / b ≠ 0 := by
    have : P ≤ a / b := (Nat.le_div_iff_mul_le hbpos).2 hge
    omega
  have hmod := Nat.mod_lt a hbpos
  have okLo : 2 * (a % b) ≤ b → roundsTo bits x (a / b) e = true := by
    intro hr
    apply hA _ _ hlo
    apply hcl
    rw [adiff_lo]
    exact close_ineq T P a b _ hgap hbpos hge hr
  have okHi : ¬ (2 * (a % b) ≤ b) → roundsTo bits x (a / b + 1) e = true := by
    intro hr
    apply hA _ _ (Nat.succ_ne_zero _)
    apply hcl
    rw [adiff_hi a b hbpos]
    exact close_ineq T P a b _ hgap hbpos hge (by omega)
  apply candPick_ne_none
  · intro h0
    exact okLo (by omega)
  · intro _
    by_cases hr : 2 * (a % b) ≤ b
    · exact Or.inl (okLo hr)
    · exact Or.inr (okHi hr)

end Float
end Codec
end JP
