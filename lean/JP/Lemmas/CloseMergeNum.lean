import JP.Lemmas.TextParseNum
import JP.Lemmas.TextBody

/-!
# Number literals: what `parseNumber` consumes is itself a complete number

`parseNumber x = some (l, r)` implies `x = l ++ r` and `parseNumber l = some (l, [])`
(the parser looks ahead one byte only, and that byte never belongs to the literal).
Needed to show that every syntax tree produced by `parseCst` is well-formed (`WFC`).
-/

namespace JP

/-- the continuation does not start with a digit -/
def noDig : Bytes → Prop
  | [] => True
  | c :: _ => isDigit c = false

theorem takeDigits_split : ∀ (x d r : Bytes), takeDigits x = (d, r) → x = d ++ r ∧ noDig r
  | [], d, r, h => by
    simp only [takeDigits, Prod.mk.injEq] at h
    obtain ⟨rfl, rfl⟩ := h
    exact ⟨rfl, trivial⟩
  | c :: cs, d, r, h => by
    simp only [takeDigits] at h
    by_cases hc : isDigit c = true
    · simp only [hc, if_true] at h
      cases h' : takeDigits cs with
      | mk d' r' =>
        rw [h'] at h
        simp only [Prod.mk.injEq] at h
        obtain ⟨rfl, rfl⟩ := h
        have ⟨e, n⟩ := takeDigits_split cs d' r' h'
        exact ⟨by rw [e]; rfl, n⟩
    · simp only [hc, Bool.false_eq_true, if_false, Prod.mk.injEq] at h
      obtain ⟨rfl, rfl⟩ := h
      exact ⟨rfl, by simpa [noDig] using hc⟩

theorem takeDigits_build : ∀ (d rest : Bytes), (∀ c ∈ d, isDigit c = true) → noDig rest →
    takeDigits (d ++ rest) = (d, rest)
  | [], rest, _, hn => by
    cases rest with
    | nil => rfl
    | cons c cs => simp only [noDig] at hn; simp [takeDigits, hn]
  | c :: d, rest, hd, hn => by
    have hc := hd c (by simp)
    have ih := takeDigits_build d rest (fun y hy => hd y (by simp [hy])) hn
    simp [takeDigits, hc, ih]

theorem takeDigits_all (x d r : Bytes) (h : takeDigits x = (d, r)) : ∀ c ∈ d, isDigit c = true := by
  induction x generalizing d r with
  | nil =>
    simp only [takeDigits, Prod.mk.injEq] at h
    intro c hc; rw [← h.1] at hc; cases hc
  | cons a x ih =>
    simp only [takeDigits] at h
    by_cases ha : isDigit a = true
    · simp only [ha, if_true] at h
      cases hx : takeDigits x with
      | mk d' r' =>
        rw [hx] at h
        simp only [Prod.mk.injEq] at h
        intro c hc
        rw [← h.1] at hc
        rcases List.mem_cons.1 hc with rfl | hc
        · exact ha
        · exact ih d' r' hx c hc
    · simp only [ha, Bool.false_eq_true, if_false, Prod.mk.injEq] at h
      intro c hc; rw [← h.1] at hc; cases hc

set_option maxRecDepth 100000 in
theorem digit_not_special : ∀ c : UInt8, isDigit c = true →
    c ≠ 45 ∧ c ≠ 46 ∧ c ≠ 101 ∧ c ≠ 69 ∧ c ≠ 43 := by
  apply byte_forall; decide

/-! ### equation lemmas for the stages -/

theorem numSign_minus (r : Bytes) : numSign (45 :: r) = ([45], r) := rfl

theorem numSign_other (c : UInt8) (r : Bytes) (h : c ≠ 45) : numSign (c :: r) = ([], c :: r) := by
  unfold numSign
  split
  · rename_i heq; simp only [List.cons.injEq] at heq; exact absurd heq.1 h
  · rfl

theorem numInt_zero (r : Bytes) : numInt (48 :: r) = some ([48], r) := rfl

theorem numInt_cons (c : UInt8) (r : Bytes) (h : c ≠ 48) : numInt (c :: r) =
    if isDigit c then (some (c :: (takeDigits r).1, (takeDigits r).2)) else none := by
  conv => lhs; unfold numInt
  split
  · rename_i heq; simp only [List.cons.injEq] at heq; exact absurd heq.1 h
  · rename_i heq; simp only [List.cons.injEq] at heq
    obtain ⟨rfl, rfl⟩ := heq; rfl
  · rename_i heq; simp at heq

theorem numFrac_dot (r : Bytes) : numFrac (46 :: r) =
    if (takeDigits r).1.isEmpty then none else some (46 :: (takeDigits r).1, (takeDigits r).2) := rfl

theorem numFrac_other (x : Bytes) (h : ∀ t, x ≠ 46 :: t) : numFrac x = some ([], x) := by
  unfold numFrac
  split
  · rename_i t; exact absurd rfl (h t)
  · rfl

theorem numExpSign_plus (r : Bytes) : numExpSign (43 :: r) = ([43], r) := rfl
theorem numExpSign_minus (r : Bytes) : numExpSign (45 :: r) = ([45], r) := rfl
theorem numExpSign_other (x : Bytes) (h1 : ∀ t, x ≠ 43 :: t) (h2 : ∀ t, x ≠ 45 :: t) :
    numExpSign x = ([], x) := by
  unfold numExpSign
  split
  · rename_i t; exact absurd rfl (h1 t)
  · rename_i t; exact absurd rfl (h2 t)
  · rfl

/-! ### what each stage consumes -/

theorem numSign_cut (x : Bytes) :
    (numSign x).1 ++ (numSign x).2 = x ∧
    ((numSign x).1 = [45] ∨ ((numSign x).1 = [] ∧ ∀ t, x ≠ 45 :: t)) := by
  cases x with
  | nil => exact ⟨rfl, Or.inr ⟨rfl, fun t h => by cases h⟩⟩
  | cons c r =>
    by_cases h : c = 45
    · subst h; exact ⟨rfl, Or.inl rfl⟩
    · rw [numSign_other c r h]
      exact ⟨rfl, Or.inr ⟨rfl, fun t ht => h (by simp only [List.cons.injEq] at ht; exact ht.1)⟩⟩

theorem numInt_cut (x ip r1 : Bytes) (h : numInt x = some (ip, r1)) :
    x = ip ++ r1 ∧ (∃ c t, ip = c :: t ∧ isDigit c = true) ∧
    ∀ rest, noDig rest → numInt (ip ++ rest) = some (ip, rest) := by
  cases x with
  | nil => simp [numInt] at h
  | cons c r =>
    by_cases h0 : c = 48
    · subst h0
      rw [numInt_zero] at h
      simp only [Option.some.injEq, Prod.mk.injEq] at h
      obtain ⟨rfl, rfl⟩ := h
      exact ⟨rfl, ⟨48, [], rfl, by decide⟩, fun rest _ => rfl⟩
    · rw [numInt_cons c r h0] at h
      by_cases hc : isDigit c = true
      · simp only [hc, if_true, Option.some.injEq, Prod.mk.injEq] at h
        obtain ⟨rfl, rfl⟩ := h
        have ⟨e, _⟩ := takeDigits_split r _ _ rfl
        refine ⟨by rw [List.cons_append, ← e], ⟨c, _, rfl, hc⟩, fun rest hn => ?_⟩
        rw [List.cons_append, numInt_cons c _ h0]
        simp only [hc, if_true]
        rw [takeDigits_build _ rest (takeDigits_all r _ _ rfl) hn]
      · simp [hc] at h

theorem numFrac_cut (x fp r2 : Bytes) (h : numFrac x = some (fp, r2)) :
    x = fp ++ r2 ∧ (fp = [] ∨ ∃ t, fp = 46 :: t) ∧
    ∀ rest, noDig rest → (∀ t, rest ≠ 46 :: t) → numFrac (fp ++ rest) = some (fp, rest) := by
  by_cases hx : ∃ t, x = 46 :: t
  · obtain ⟨t, rfl⟩ := hx
    rw [numFrac_dot] at h
    by_cases he : (takeDigits t).1.isEmpty = true
    · simp [he] at h
    · simp only [he, Bool.false_eq_true, if_false, Option.some.injEq, Prod.mk.injEq] at h
      obtain ⟨rfl, rfl⟩ := h
      have ⟨e, _⟩ := takeDigits_split t _ _ rfl
      refine ⟨by rw [List.cons_append, ← e], Or.inr ⟨_, rfl⟩, fun rest hn _ => ?_⟩
      rw [List.cons_append, numFrac_dot, takeDigits_build _ rest (takeDigits_all t _ _ rfl) hn]
      simp only [he, Bool.false_eq_true, if_false]
  · have hx' : ∀ t, x ≠ 46 :: t := fun t ht => hx ⟨t, ht⟩
    rw [numFrac_other x hx'] at h
    simp only [Option.some.injEq, Prod.mk.injEq] at h
    obtain ⟨rfl, rfl⟩ := h
    exact ⟨rfl, Or.inl rfl, fun rest _ h46 => by rw [List.nil_append]; exact numFrac_other rest h46⟩

theorem numExpSign_cut (x : Bytes) :
    (numExpSign x).1 ++ (numExpSign x).2 = x ∧
    ∀ d, d ≠ [] → (∀ c ∈ d, isDigit c = true) → (numExpSign x).2 = d →
      numExpSign ((numExpSign x).1 ++ d) = ((numExpSign x).1, d) := by
  by_cases h1 : ∃ t, x = 43 :: t
  · obtain ⟨t, rfl⟩ := h1
    exact ⟨rfl, fun d _ _ _ => rfl⟩
  · by_cases h2 : ∃ t, x = 45 :: t
    · obtain ⟨t, rfl⟩ := h2
      exact ⟨rfl, fun d _ _ _ => rfl⟩
    · have e := numExpSign_other x (fun t ht => h1 ⟨t, ht⟩) (fun t ht => h2 ⟨t, ht⟩)
      rw [e]
      refine ⟨rfl, fun d _ _ hd => ?_⟩
      simp only at hd
      subst hd
      exact e

theorem numExp_cut (x ep r3 : Bytes) (h : numExp x = some (ep, r3)) :
    x = ep ++ r3 ∧ (ep = [] ∨ ∃ e t, ep = e :: t ∧ (e = 101 ∨ e = 69)) ∧
    numExp ep = some (ep, []) := by
  cases x with
  | nil =>
    simp only [numExp, Option.some.injEq, Prod.mk.injEq] at h
    obtain ⟨rfl, rfl⟩ := h
    exact ⟨rfl, Or.inl rfl, rfl⟩
  | cons e r =>
    simp only [numExp] at h
    by_cases he : e = 101 ∨ e = 69
    · simp only [he, if_true] at h
      by_cases hd : (takeDigits (numExpSign r).2).1.isEmpty = true
      · simp [hd] at h
      · simp only [hd, Bool.false_eq_true, if_false, Option.some.injEq, Prod.mk.injEq] at h
        obtain ⟨rfl, rfl⟩ := h
        have ⟨e1, hs⟩ := numExpSign_cut r
        have ⟨e2, _⟩ := takeDigits_split (numExpSign r).2 _ _ rfl
        have hall := takeDigits_all (numExpSign r).2 _ _ rfl
        refine ⟨?_, Or.inr ⟨e, _, rfl, he⟩, ?_⟩
        · simp only [List.cons_append, List.append_assoc]; rw [← e2, e1]
        · -- re-parse `e :: sg ++ d`
          have hne : (takeDigits (numExpSign r).2).1 ≠ [] := by
            intro hnil; rw [hnil] at hd; exact hd rfl
          -- the digits start right after the sign in `r`, so the sign of `sg ++ d` is `sg`
          have key : numExpSign ((numExpSign r).1 ++ (takeDigits (numExpSign r).2).1) =
              ((numExpSign r).1, (takeDigits (numExpSign r).2).1) := by
            by_cases h1 : ∃ t, r = 43 :: t
            · obtain ⟨t, rfl⟩ := h1; rfl
            · by_cases h2 : ∃ t, r = 45 :: t
              · obtain ⟨t, rfl⟩ := h2; rfl
              · have e := numExpSign_other r (fun t ht => h1 ⟨t, ht⟩) (fun t ht => h2 ⟨t, ht⟩)
                rw [e]
                simp only [List.nil_append]
                rw [e] at hne hall
                simp only at hne hall
                cases hdd : (takeDigits r).1 with
                | nil => exact absurd hdd hne
                | cons c t =>
                  have hc : isDigit c = true := hall c (by rw [hdd]; simp)
                  have hsp := digit_not_special c hc
                  exact numExpSign_other _
                    (fun t' ht => hsp.2.2.2.2 (by simp only [List.cons.injEq] at ht; exact ht.1))
                    (fun t' ht => hsp.1 (by simp only [List.cons.injEq] at ht; exact ht.1))
          have hb := takeDigits_build (takeDigits (numExpSign r).2).1 [] hall trivial
          rw [List.append_nil] at hb
          rw [List.cons_append]
          simp only [numExp, he, if_true, key, hb, hd, Bool.false_eq_true, if_false, List.cons_append]
    · simp only [he, if_false, Option.some.injEq, Prod.mk.injEq] at h
      obtain ⟨rfl, rfl⟩ := h
      exact ⟨rfl, Or.inl rfl, rfl⟩

/-! ### the whole number -/

theorem parseNumber_cut (x l r : Bytes) (h : parseNumber x = some (l, r)) :
    x = l ++ r ∧ parseNumber l = some (l, []) := by
  rw [parseNumber_eq] at h
  cases h1 : numInt (numSign x).2 with
  | none => rw [h1] at h; simp at h
  | some q1 =>
    obtain ⟨ip, r1⟩ := q1
    rw [h1] at h
    simp only at h
    cases h2 : numFrac r1 with
    | none => rw [h2] at h; simp at h
    | some q2 =>
      obtain ⟨fp, r2⟩ := q2
      rw [h2] at h
      simp only at h
      cases h3 : numExp r2 with
      | none => rw [h3] at h; simp at h
      | some q3 =>
        obtain ⟨ep, r3⟩ := q3
        rw [h3] at h
        simp only [Option.some.injEq, Prod.mk.injEq] at h
        obtain ⟨rfl, rfl⟩ := h
        have ⟨s1, s2⟩ := numSign_cut x
        have ⟨i1, ⟨c, t, i2, i3⟩, i4⟩ := numInt_cut _ _ _ h1
        have ⟨f1, f2, f3⟩ := numFrac_cut _ _ _ h2
        have ⟨x1, x2, x3⟩ := numExp_cut _ _ _ h3
        have hsp := digit_not_special c i3
        -- the first byte of `ep` and of `fp ++ ep`
        have nd_ep : noDig ep ∧ ∀ t, ep ≠ 46 :: t := by
          rcases x2 with rfl | ⟨e, t', rfl, he⟩
          · exact ⟨trivial, fun t ht => by cases ht⟩
          · refine ⟨?_, fun t ht => ?_⟩
            · show isDigit e = false
              rcases he with rfl | rfl <;> decide
            · simp only [List.cons.injEq] at ht
              rcases he with rfl | rfl <;> exact absurd ht.1 (by decide)
        have nd_fe : noDig (fp ++ ep) := by
          rcases f2 with rfl | ⟨t', rfl⟩
          · simpa using nd_ep.1
          · show isDigit 46 = false; decide
        constructor
        · -- x = l ++ r
          conv => lhs; rw [← s1, i1, f1, x1]
          simp only [List.append_assoc]
        · rw [parseNumber_eq]
          have hsg : numSign ((numSign x).1 ++ ip ++ fp ++ ep) =
              ((numSign x).1, ip ++ (fp ++ ep)) := by
            rcases s2 with e | ⟨e, _⟩
            · rw [e]; simp only [List.append_assoc]; rfl
            · rw [e, i2]
              simp only [List.nil_append, List.cons_append, List.append_assoc]
              exact numSign_other c _ hsp.1
          rw [hsg]
          simp only
          rw [i4 _ nd_fe]
          simp only
          rw [f3 _ nd_ep.1 nd_ep.2]
          simp only
          rw [x3]

end JP
