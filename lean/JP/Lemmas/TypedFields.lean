import JP.Lemmas.TypedBasic

/-!
# `typeFields`: the selected fields

* `typeFields_nodup`: the names of `typeFields t` are pairwise distinct;
* `typeFields_mem_raw`: every selected field was found by the breadth-first search;
* `typeFields_index_ne_nil`: every selected field has a non-empty index sequence;
* `typeFields_names_ok`: for a well-formed type every name can stand raw between quotes, given that
  `isValidTag` guarantees it for tag names.

The first needs of the 4-level comparator `fldLess` only that it refines the (weak) order of the
names; of `bytesLt` that it is a strict total order (re-proved here: `JP.Lemmas.CloseMergeSorted`
has the same three facts in `JP.Impl`, behind heavier imports).
-/

namespace JP
namespace Codec
namespace Typed

/-! ### `bytesLt` is a strict total order -/

theorem tf_bytesLt_irrefl : ∀ a : Bytes, bytesLt a a = false
  | [] => rfl
  | a :: as => by
    have : ¬ a < a := by rw [UInt8.lt_iff_toNat_lt]; omega
    simp only [bytesLt, this, if_false]
    exact tf_bytesLt_irrefl as

theorem tf_bytesLt_trans : ∀ a b c : Bytes, bytesLt a b = true → bytesLt b c = true → bytesLt a c = true
  | [], [], _, h, _ => by simp [bytesLt] at h
  | [], _ :: _, [], _, h => by simp [bytesLt] at h
  | [], _ :: _, _ :: _, _, _ => rfl
  | _ :: _, [], _, h, _ => by simp [bytesLt] at h
  | _ :: _, _ :: _, [], _, h => by simp [bytesLt] at h
  | a :: as, b :: bs, c :: cs, h1, h2 => by
    simp only [bytesLt] at h1 h2 ⊢
    simp only [UInt8.lt_iff_toNat_lt] at h1 h2 ⊢
    by_cases hab : a.toNat < b.toNat
    · by_cases hbc : b.toNat < c.toNat
      · rw [if_pos (by omega)]
      · rw [if_neg hbc] at h2
        by_cases hcb : c.toNat < b.toNat
        · rw [if_pos hcb] at h2; cases h2
        · rw [if_pos (by omega)]
    · rw [if_neg hab] at h1
      by_cases hba : b.toNat < a.toNat
      · rw [if_pos hba] at h1; cases h1
      · rw [if_neg hba] at h1
        by_cases hbc : b.toNat < c.toNat
        · rw [if_pos (by omega)]
        · rw [if_neg hbc] at h2
          by_cases hcb : c.toNat < b.toNat
          · rw [if_pos hcb] at h2; cases h2
          · rw [if_neg hcb] at h2
            rw [if_neg (by omega), if_neg (by omega)]
            exact tf_bytesLt_trans as bs cs h1 h2

theorem tf_bytesLt_total : ∀ a b : Bytes, bytesLt a b = false → a ≠ b → bytesLt b a = true
  | [], [], _, h => absurd rfl h
  | [], _ :: _, h, _ => by simp [bytesLt] at h
  | _ :: _, [], _, _ => rfl
  | a :: as, b :: bs, h1, h2 => by
    simp only [bytesLt] at h1 ⊢
    simp only [UInt8.lt_iff_toNat_lt] at h1 ⊢
    by_cases hab : a.toNat < b.toNat
    · rw [if_pos hab] at h1; cases h1
    · rw [if_neg hab] at h1
      by_cases hba : b.toNat < a.toNat
      · rw [if_pos hba]
      · rw [if_neg hba] at h1
        rw [if_neg hba, if_neg hab]
        have hEq : a = b := UInt8.toNat_inj.1 (by omega)
        subst hEq
        exact tf_bytesLt_total as bs h1 (fun e => h2 (by rw [e]))

/-- `a ≤ b → b ≤ c → a ≤ c`, where `x ≤ y` is `bytesLt y x = false` -/
theorem tf_le_trans (a b c : Bytes) (hab : bytesLt b a = false) (hbc : bytesLt c b = false) :
    bytesLt c a = false := by
  cases hca : bytesLt c a with
  | false => rfl
  | true =>
    by_cases e : a = b
    · subst e; rw [hca] at hbc; cases hbc
    · have h1 : bytesLt a b = true := tf_bytesLt_total b a hab (fun h => e h.symm)
      have h2 := tf_bytesLt_trans c a b hca h1
      rw [h2] at hbc; cases hbc

/-! ### `insertBy`, `sortBy`: permutations -/

theorem insertBy_perm (lt : Fld → Fld → Bool) (a : Fld) : ∀ l : List Fld, (insertBy lt a l).Perm (a :: l)
  | [] => List.Perm.refl _
  | b :: bs => by
    unfold insertBy
    cases h : lt a b with
    | true => rw [if_pos rfl]
    | false =>
      rw [if_neg (by intro h'; cases h')]
      exact ((insertBy_perm lt a bs).cons b).trans (List.Perm.swap a b bs)

theorem sortBy_perm (lt : Fld → Fld → Bool) : ∀ l : List Fld, (sortBy lt l).Perm l
  | [] => List.Perm.refl _
  | a :: as => by
    unfold sortBy
    exact (insertBy_perm lt a (sortBy lt as)).trans ((sortBy_perm lt as).cons a)

theorem mem_sortBy (lt : Fld → Fld → Bool) (l : List Fld) (f : Fld) : f ∈ sortBy lt l ↔ f ∈ l :=
  (sortBy_perm lt l).mem_iff

theorem length_sortBy (lt : Fld → Fld → Bool) (l : List Fld) : (sortBy lt l).length = l.length :=
  (sortBy_perm lt l).length_eq

/-! ### sorting by `fldLess` sorts by name -/

/-- names weakly increasing -/
def NameSorted (l : List Fld) : Prop := l.Pairwise (fun a b => bytesLt b.name a.name = false)

theorem fldLess_true_le (a b : Fld) (h : fldLess a b = true) : bytesLt b.name a.name = false := by
  unfold fldLess at h
  by_cases e : a.name = b.name
  · rw [e]; exact tf_bytesLt_irrefl _
  · rw [if_pos e] at h
    cases hba : bytesLt b.name a.name with
    | false => rfl
    | true =>
      have := tf_bytesLt_trans _ _ _ h hba
      rw [tf_bytesLt_irrefl] at this; cases this

theorem fldLess_false_le (a b : Fld) (h : fldLess a b = false) : bytesLt a.name b.name = false := by
  unfold fldLess at h
  by_cases e : a.name = b.name
  · rw [e]; exact tf_bytesLt_irrefl _
  · rw [if_pos e] at h; exact h

theorem insertBy_nameSorted (a : Fld) : ∀ l : List Fld, NameSorted l → NameSorted (insertBy fldLess a l)
  | [], _ => by
    unfold insertBy
    exact List.pairwise_cons.2 ⟨fun _ h => (nomatch h), List.Pairwise.nil⟩
  | b :: bs, hs => by
    have hs' := List.pairwise_cons.1 hs
    unfold insertBy
    cases h : fldLess a b with
    | true =>
      rw [if_pos rfl]
      refine List.pairwise_cons.2 ⟨?_, hs⟩
      intro x hx
      have hab := fldLess_true_le a b h
      rcases List.mem_cons.1 hx with rfl | hx
      · exact hab
      · exact tf_le_trans _ _ _ hab (hs'.1 x hx)
    | false =>
      rw [if_neg (by intro h'; cases h')]
      refine List.pairwise_cons.2 ⟨?_, insertBy_nameSorted a bs hs'.2⟩
      intro x hx
      have hx' := (insertBy_perm fldLess a bs).mem_iff.1 hx
      rcases List.mem_cons.1 hx' with rfl | hx'
      · exact fldLess_false_le _ _ h
      · exact hs'.1 x hx'

theorem sortBy_nameSorted : ∀ l : List Fld, NameSorted (sortBy fldLess l)
  | [] => List.Pairwise.nil
  | a :: as => by
    unfold sortBy
    exact insertBy_nameSorted a _ (sortBy_nameSorted as)

/-! ### `dominate` -/

theorem dominantField_some (fi : Fld) (same : List Fld) (d : Fld)
    (h : dominantField (fi :: same) = some d) : d = fi := by
  cases same with
  | nil => simp only [dominantField] at h; exact (Option.some.inj h).symm
  | cons f1 r =>
    simp only [dominantField] at h
    split at h
    · cases h
    · exact (Option.some.inj h).symm

theorem dominate_cons (fuel : Nat) (fi : Fld) (rest : List Fld) :
    dominate (fuel + 1) (fi :: rest) = fi :: dominate fuel (rest.dropWhile (fun fj => fj.name = fi.name))
    ∨ dominate (fuel + 1) (fi :: rest) = dominate fuel (rest.dropWhile (fun fj => fj.name = fi.name)) := by
  simp only [dominate]
  split
  · exact Or.inl rfl
  · cases hd : dominantField (fi :: List.takeWhile (fun fj => decide (fj.name = fi.name)) rest) with
    | none => exact Or.inr rfl
    | some d =>
      have := dominantField_some _ _ _ hd
      subst this
      exact Or.inl rfl

/-- `dominate` only selects -/
theorem dominate_subset : ∀ (fuel : Nat) (l : List Fld) (f : Fld), f ∈ dominate fuel l → f ∈ l
  | 0, _, _, h => by simp only [dominate] at h; cases h
  | _ + 1, [], _, h => by simp only [dominate] at h; cases h
  | fuel + 1, fi :: rest, f, h => by
    have hsuf : ∀ g, g ∈ rest.dropWhile (fun fj => fj.name = fi.name) → g ∈ fi :: rest :=
      fun g hg => List.mem_cons_of_mem _ ((List.dropWhile_suffix _).subset hg)
    rcases dominate_cons fuel fi rest with e | e
    · rw [e] at h
      rcases List.mem_cons.1 h with rfl | h
      · exact List.mem_cons_self
      · exact hsuf _ (dominate_subset fuel _ f h)
    · rw [e] at h
      exact hsuf _ (dominate_subset fuel _ f h)

/-- past the run of `fi.name` in a name-sorted list no element has that name -/
theorem dropWhile_name_ne (fi : Fld) : ∀ rest : List Fld, NameSorted (fi :: rest) →
    ∀ g ∈ rest.dropWhile (fun fj => fj.name = fi.name), g.name ≠ fi.name
  | [], _, g, hg => by simp only [List.dropWhile] at hg; cases hg
  | r :: rs, hs, g, hg => by
    have h1 := List.pairwise_cons.1 hs
    have h2 := List.pairwise_cons.1 h1.2
    by_cases e : r.name = fi.name
    · rw [List.dropWhile_cons_of_pos (by simpa using e)] at hg
      refine dropWhile_name_ne fi rs ?_ g hg
      exact List.pairwise_cons.2 ⟨fun x hx => h1.1 x (List.mem_cons_of_mem _ hx), h2.2⟩
    · rw [List.dropWhile_cons_of_neg (by simpa using e)] at hg
      rcases List.mem_cons.1 hg with rfl | hg
      · exact e
      · intro eg
        -- fi ≤ r, fi ≠ r, so fi < r; r ≤ g = fi: contradiction
        have hlt : bytesLt fi.name r.name = true :=
          tf_bytesLt_total _ _ (h1.1 r List.mem_cons_self) e
        have hle := h2.1 g hg
        rw [eg, hlt] at hle
        cases hle

theorem dominate_names_pairwise : ∀ (fuel : Nat) (l : List Fld), NameSorted l →
    List.Pairwise (· ≠ ·) ((dominate fuel l).map Fld.name)
  | 0, _, _ => by simp only [dominate]; exact List.Pairwise.nil
  | _ + 1, [], _ => by simp only [dominate]; exact List.Pairwise.nil
  | fuel + 1, fi :: rest, hs => by
    have hsAfter : NameSorted (rest.dropWhile (fun fj => fj.name = fi.name)) :=
      List.Pairwise.sublist (List.dropWhile_suffix _).sublist (List.pairwise_cons.1 hs).2
    have ih := dominate_names_pairwise fuel _ hsAfter
    rcases dominate_cons fuel fi rest with e | e
    · rw [e, List.map_cons]
      refine List.pairwise_cons.2 ⟨?_, ih⟩
      intro n hn
      rcases List.mem_map.1 hn with ⟨g, hg, rfl⟩
      exact fun h => dropWhile_name_ne fi rest hs g (dominate_subset fuel _ g hg) h.symm
    · rw [e]; exact ih

/-! ### 1, 2 -/

theorem typeFields_names_pairwise (t : GoType) :
    List.Pairwise (· ≠ ·) ((typeFields t).map Fld.name) := by
  unfold typeFields
  refine (List.Perm.pairwise_iff (fun h => Ne.symm h) ((sortBy_perm _ _).map Fld.name)).2 ?_
  exact dominate_names_pairwise _ _ (sortBy_nameSorted _)

theorem typeFields_nodup (t : GoType) : ((typeFields t).map Fld.name).Nodup :=
  typeFields_names_pairwise t

theorem typeFields_mem_raw (t : GoType) : ∀ f ∈ typeFields t, f ∈ rawFields t := by
  intro f hf
  unfold typeFields at hf
  have h1 := (mem_sortBy _ _ f).1 hf
  have h2 := dominate_subset _ _ f h1
  exact (mem_sortBy _ _ f).1 h2

/-! ### an invariant of the breadth-first search

`P` is a property of recorded fields which `mkFld` establishes from a field of a well-formed struct;
every queued field has a well-formed type. -/

theorem wf_deref (t : GoType) (h : t.wf = true) : t.deref.wf = true := by
  cases t <;> first | exact h | (simp only [GoType.wf] at h; simpa only [GoType.deref] using h)

theorem wfFields_structFieldsOf (t : GoType) (h : t.wf = true) : wfFields (structFieldsOf t) = true := by
  cases t with
  | struct n fs => simp only [GoType.wf] at h; simpa only [structFieldsOf] using h
  | _ => simp only [structFieldsOf, wfFields]

def ScanInv (P : Fld → Prop) (st : Scan) : Prop :=
  (∀ f ∈ st.next, f.typ.wf = true) ∧ (∀ f ∈ st.fields, P f)

theorem mkFld_typ (f : Fld) (i : Nat) (sf : FieldInfo) (sft : GoType) :
    (mkFld f i sf sft).typ = sft.deref := rfl

theorem mkFld_index (f : Fld) (i : Nat) (sf : FieldInfo) (sft : GoType) :
    (mkFld f i sf sft).index = f.index ++ [i] := rfl

theorem scanField_fields_mem (count : List (GoType × Nat)) (f : Fld) (i : Nat) (sf : FieldInfo)
    (sft : GoType) (st : Scan) :
    ∀ g ∈ (scanField count f i sf sft st).fields, g ∈ st.fields ∨ g = mkFld f i sf sft := by
  unfold scanField
  by_cases c1 : (sf.anonymous && !sf.exported && !sft.deref.isStruct) = true
  · rw [if_pos c1]; exact fun g hg => Or.inl hg
  rw [if_neg c1]
  by_cases c2 : (!sf.anonymous && !sf.exported) = true
  · rw [if_pos c2]; exact fun g hg => Or.inl hg
  rw [if_neg c2]
  by_cases c3 : sf.tag = [45]
  · rw [if_pos c3]; exact fun g hg => Or.inl hg
  rw [if_neg c3]
  dsimp only
  by_cases c4 : ((mkFld f i sf sft).tag || !sf.anonymous || !(mkFld f i sf sft).typ.isStruct) = true
  · rw [if_pos c4]
    intro g hg
    rcases List.mem_append.1 hg with hg | hg
    · exact Or.inl hg
    · right
      by_cases c5 : countOf f.typ count > 1
      · rw [if_pos c5] at hg
        simp only [List.mem_cons, List.not_mem_nil, or_false, or_self] at hg
        exact hg
      · rw [if_neg c5] at hg
        simp only [List.mem_cons, List.not_mem_nil, or_false] at hg
        exact hg
  · rw [if_neg c4]; exact fun g hg => Or.inl hg

theorem scanField_next_mem (count : List (GoType × Nat)) (f : Fld) (i : Nat) (sf : FieldInfo)
    (sft : GoType) (st : Scan) :
    ∀ g ∈ (scanField count f i sf sft st).next, g ∈ st.next ∨ g.typ = sft.deref := by
  unfold scanField
  by_cases c1 : (sf.anonymous && !sf.exported && !sft.deref.isStruct) = true
  · rw [if_pos c1]; exact fun g hg => Or.inl hg
  rw [if_neg c1]
  by_cases c2 : (!sf.anonymous && !sf.exported) = true
  · rw [if_pos c2]; exact fun g hg => Or.inl hg
  rw [if_neg c2]
  by_cases c3 : sf.tag = [45]
  · rw [if_pos c3]; exact fun g hg => Or.inl hg
  rw [if_neg c3]
  dsimp only
  by_cases c4 : ((mkFld f i sf sft).tag || !sf.anonymous || !(mkFld f i sf sft).typ.isStruct) = true
  · rw [if_pos c4]; exact fun g hg => Or.inl hg
  · rw [if_neg c4]
    dsimp only
    intro g hg
    by_cases c5 : countOf (mkFld f i sf sft).typ (incr (mkFld f i sf sft).typ st.nextCount) = 1
    · rw [if_pos c5] at hg
      rcases List.mem_append.1 hg with hg | hg
      · exact Or.inl hg
      · simp only [List.mem_cons, List.not_mem_nil, or_false] at hg
        right; rw [hg]; rfl
    · rw [if_neg c5] at hg; exact Or.inl hg

section inv
variable (P : Fld → Prop)
  (hmk : ∀ (f : Fld) (i : Nat) (sf : FieldInfo) (sft : GoType),
    sf.name.all identByte = true → P (mkFld f i sf sft))
include hmk

theorem scanField_inv (count : List (GoType × Nat)) (f : Fld) (i : Nat) (sf : FieldInfo) (sft : GoType)
    (st : Scan) (hn : sf.name.all identByte = true) (ht : sft.wf = true) (h : ScanInv P st) :
    ScanInv P (scanField count f i sf sft st) := by
  refine ⟨fun g hg => ?_, fun g hg => ?_⟩
  · rcases scanField_next_mem count f i sf sft st g hg with hg | hg
    · exact h.1 g hg
    · rw [hg]; exact wf_deref _ ht
  · rcases scanField_fields_mem count f i sf sft st g hg with hg | hg
    · exact h.2 g hg
    · rw [hg]; exact hmk f i sf sft hn

theorem scanStruct_inv (count : List (GoType × Nat)) (f : Fld) :
    ∀ (fs : List (FieldInfo × GoType)) (i : Nat) (st : Scan), wfFields fs = true → ScanInv P st →
      ScanInv P (scanStruct count f i fs st)
  | [], _, _, _, h => by simp only [scanStruct]; exact h
  | (sf, sft) :: rest, i, st, hw, h => by
    simp only [scanStruct]
    simp only [wfFields, Bool.and_eq_true] at hw
    exact scanStruct_inv count f rest (i + 1) _ hw.2
      (scanField_inv P hmk count f i sf sft st hw.1.1.2 hw.1.2 h)

theorem scanLevel_inv (count : List (GoType × Nat)) :
    ∀ (current : List Fld) (visited : List GoType) (st : Scan),
      (∀ f ∈ current, f.typ.wf = true) → ScanInv P st →
      ScanInv P (scanLevel count current visited st).2
  | [], _, _, _, h => by simp only [scanLevel]; exact h
  | f :: current, visited, st, hc, h => by
    have hc' : ∀ g ∈ current, g.typ.wf = true := fun g hg => hc g (List.mem_cons_of_mem _ hg)
    simp only [scanLevel]
    split
    · exact scanLevel_inv count current visited st hc' h
    · exact scanLevel_inv count current _ _ hc'
        (scanStruct_inv P hmk count f _ 0 st
          (wfFields_structFieldsOf _ (hc f List.mem_cons_self)) h)

theorem bfs_inv : ∀ (fuel : Nat) (next : List Fld) (nc : List (GoType × Nat)) (visited : List GoType)
    (fields : List Fld), (∀ f ∈ next, f.typ.wf = true) → (∀ f ∈ fields, P f) →
    ∀ f ∈ bfs fuel next nc visited fields, P f
  | 0, _, _, _, _, _, hf => by simp only [bfs]; exact hf
  | fuel + 1, next, nc, visited, fields, hn, hf => by
    simp only [bfs]
    split
    · exact hf
    · have h := scanLevel_inv P hmk nc next visited { next := [], nextCount := [], fields := fields } hn
        ⟨fun _ h => (nomatch h), hf⟩
      exact bfs_inv fuel _ _ _ _ h.1 h.2

theorem rawFields_inv (t : GoType) (ht : t.wf = true) : ∀ f ∈ rawFields t, P f := by
  unfold rawFields
  refine bfs_inv P hmk _ _ _ _ _ ?_ (fun _ h => (nomatch h))
  intro f hf
  simp only [List.mem_cons, List.not_mem_nil, or_false] at hf
  rw [hf]; exact ht

end inv

/-! ### 3: names -/

theorem identByte_okByte (c : UInt8) (h : identByte c = true) : okByte c = true := by
  unfold identByte at h
  unfold okByte
  simp only [Bool.or_eq_true, Bool.and_eq_true, decide_eq_true_eq, bne_iff_ne, ne_eq] at h ⊢
  refine ⟨⟨?_, ?_⟩, ?_⟩
  · intro e
    have : c.toNat = 34 := by rw [e]; rfl
    omega
  · intro e
    have : c.toNat = 92 := by rw [e]; rfl
    omega
  · omega

theorem ident_nameOk (s : Bytes) (h : s.all identByte = true) : nameOk s = true := by
  unfold nameOk
  rw [List.all_eq_true] at h ⊢
  exact fun c hc => identByte_okByte c (h c hc)

theorem mkFld_nameOk (hv : ∀ s : Bytes, isValidTag s = true → nameOk s = true)
    (f : Fld) (i : Nat) (sf : FieldInfo) (sft : GoType) (hn : sf.name.all identByte = true) :
    nameOk (mkFld f i sf sft).name = true := by
  show nameOk (if (if isValidTag (parseTag sf.tag).1 then (parseTag sf.tag).1 else []).isEmpty
    then sf.name else (if isValidTag (parseTag sf.tag).1 then (parseTag sf.tag).1 else [])) = true
  cases hvt : isValidTag (parseTag sf.tag).1 with
  | false =>
    simp only [Bool.false_eq_true, if_false, List.isEmpty_nil, if_true]
    exact ident_nameOk _ hn
  | true =>
    simp only [if_true]
    split
    · exact ident_nameOk _ hn
    · exact hv _ hvt

theorem typeFields_names_ok (t : GoType) (hv : ∀ s : Bytes, isValidTag s = true → nameOk s = true)
    (ht : t.wf = true) : ∀ f ∈ typeFields t, nameOk f.name = true := by
  intro f hf
  exact rawFields_inv (fun f => nameOk f.name = true)
    (fun f i sf sft hn => mkFld_nameOk hv f i sf sft hn) t ht f (typeFields_mem_raw t f hf)

/-! ### index sequences are non-empty (no well-formedness needed) -/

/-- the search invariant without the `wf` part: a property `mkFld` always establishes -/
theorem scanField_fields (P : Fld → Prop) (hmk : ∀ f i sf sft, P (mkFld f i sf sft))
    (count : List (GoType × Nat)) (f : Fld) (i : Nat) (sf : FieldInfo) (sft : GoType) (st : Scan)
    (h : ∀ g ∈ st.fields, P g) : ∀ g ∈ (scanField count f i sf sft st).fields, P g := by
  intro g hg
  rcases scanField_fields_mem count f i sf sft st g hg with hg | hg
  · exact h g hg
  · rw [hg]; exact hmk f i sf sft

theorem scanStruct_fields (P : Fld → Prop) (hmk : ∀ f i sf sft, P (mkFld f i sf sft))
    (count : List (GoType × Nat)) (f : Fld) :
    ∀ (fs : List (FieldInfo × GoType)) (i : Nat) (st : Scan), (∀ g ∈ st.fields, P g) →
      ∀ g ∈ (scanStruct count f i fs st).fields, P g
  | [], _, _, h => by simp only [scanStruct]; exact h
  | (sf, sft) :: rest, i, st, h => by
    simp only [scanStruct]
    exact scanStruct_fields P hmk count f rest (i + 1) _ (scanField_fields P hmk count f i sf sft st h)

theorem scanLevel_fields (P : Fld → Prop) (hmk : ∀ f i sf sft, P (mkFld f i sf sft))
    (count : List (GoType × Nat)) :
    ∀ (current : List Fld) (visited : List GoType) (st : Scan), (∀ g ∈ st.fields, P g) →
      ∀ g ∈ (scanLevel count current visited st).2.fields, P g
  | [], _, _, h => by simp only [scanLevel]; exact h
  | f :: current, visited, st, h => by
    simp only [scanLevel]
    split
    · exact scanLevel_fields P hmk count current visited st h
    · exact scanLevel_fields P hmk count current _ _ (scanStruct_fields P hmk count f _ 0 st h)

theorem bfs_fields (P : Fld → Prop) (hmk : ∀ f i sf sft, P (mkFld f i sf sft)) :
    ∀ (fuel : Nat) (next : List Fld) (nc : List (GoType × Nat)) (visited : List GoType)
      (fields : List Fld), (∀ f ∈ fields, P f) → ∀ f ∈ bfs fuel next nc visited fields, P f
  | 0, _, _, _, _, hf => by simp only [bfs]; exact hf
  | fuel + 1, next, nc, visited, fields, hf => by
    simp only [bfs]
    split
    · exact hf
    · exact bfs_fields P hmk fuel _ _ _ _
        (scanLevel_fields P hmk nc next visited { next := [], nextCount := [], fields := fields } hf)

theorem rawFields_index_ne_nil (t : GoType) : ∀ f ∈ rawFields t, f.index ≠ [] := by
  unfold rawFields
  refine bfs_fields (fun f => f.index ≠ []) ?_ _ _ _ _ _ (fun _ h => (nomatch h))
  intro f i sf sft
  rw [mkFld_index]
  exact fun h => by simp at h

theorem typeFields_index_ne_nil (t : GoType) : ∀ f ∈ typeFields t, f.index ≠ [] :=
  fun f hf => rawFields_index_ne_nil t f (typeFields_mem_raw t f hf)

end Typed
end Codec
end JP

#print axioms JP.Codec.Typed.typeFields_nodup
#print axioms JP.Codec.Typed.typeFields_names_pairwise
#print axioms JP.Codec.Typed.typeFields_mem_raw
#print axioms JP.Codec.Typed.typeFields_index_ne_nil
#print axioms JP.Codec.Typed.typeFields_names_ok

/-
Output of the `#print axioms` commands above (Lean 4.33, `lake build JP.Lemmas.TypedFields`):

'JP.Codec.Typed.typeFields_nodup' depends on axioms: [propext, Classical.choice, Quot.sound]
'JP.Codec.Typed.typeFields_names_pairwise' depends on axioms: [propext, Classical.choice, Quot.sound]
'JP.Codec.Typed.typeFields_mem_raw' depends on axioms: [propext, Classical.choice, Quot.sound]
'JP.Codec.Typed.typeFields_index_ne_nil' depends on axioms: [propext, Classical.choice, Quot.sound]
'JP.Codec.Typed.typeFields_names_ok' depends on axioms: [propext, Classical.choice, Quot.sound]
-/
