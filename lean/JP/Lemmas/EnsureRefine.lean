import JP.Lemmas.EnsureSpecStep

/-!
# EnsurePathExistsOnAdd, part 4: `Impl.ensure` refines `Spec.ensureAdd`

`ensure` creates the missing parents.  Its result denotes an intermediate document on which the
plain `add` (`Spec.atParent … addIn`) answers what `Spec.ensureAdd` answers on the original
document (`EnsRef`).
-/

namespace JP
namespace Ens

open Impl
open Spec (Res)

/-- the result of `ensure` against the specification's `ensureAdd` -/
def EnsRef (o : Opts) (e : Bool) (v : Value) (cr : Bool) (self con : Node) (parts : List Bytes) : Prop :=
  match Spec.ensureAdd (specOpts o) v (den con) (parts.map decodeToken) with
  | .ok c' => ∃ con1, ensure o cr self con parts = .ok (con1, self) ∧ Inv e con1 ∧ isCon con1 = true ∧
      Spec.atParent (specOpts o) (Spec.addIn (specOpts o) v) (den con1) (parts.map decodeToken) = .ok (c', ())
  | .fail _ => (∃ er, ensure o cr self con parts = .err er) ∨
      ∃ con1 c, ensure o cr self con parts = .ok (con1, self) ∧ Inv e con1 ∧ isCon con1 = true ∧
        Spec.atParent (specOpts o) (Spec.addIn (specOpts o) v) (den con1) (parts.map decodeToken) = .fail c
  | .unspec => True

/-- the generic step: the document is rebuilt by `mk` around the container `ensure` returns for
the child `child0`, the value by `kv` -/
theorem ensRef_step {o : Opts} {e : Bool} {v : Value} {cr : Bool} {self con child0 : Node}
    {part nxt : Bytes} {rest : List Bytes} (mk : Node → Node) (kv : Value → Value)
    (hspec : Spec.ensureAdd (specOpts o) v (den con) ((part :: nxt :: rest).map decodeToken) =
      (Spec.ensureAdd (specOpts o) v (den child0) ((nxt :: rest).map decodeToken)).bind fun c' => .ok (kv c'))
    (hok : ∀ c s, ensure o false .nil child0 (nxt :: rest) = .ok (c, s) → Inv e c → isCon c = true →
      ensure o cr self con (part :: nxt :: rest) = .ok (mk c, self))
    (herr : ∀ er, ensure o false .nil child0 (nxt :: rest) = .err er →
      ensure o cr self con (part :: nxt :: rest) = .err er)
    (hmk : ∀ c, Inv e c → isCon c = true → Inv e (mk c) ∧ isCon (mk c) = true ∧
      Spec.atParent (specOpts o) (Spec.addIn (specOpts o) v) (den (mk c)) ((part :: nxt :: rest).map decodeToken) =
        (Spec.atParent (specOpts o) (Spec.addIn (specOpts o) v) (den c) ((nxt :: rest).map decodeToken)).bind
          fun ca => .ok (kv ca.1, ca.2))
    (ih : EnsRef o e v false .nil child0 (nxt :: rest)) :
    EnsRef o e v cr self con (part :: nxt :: rest) := by
  unfold EnsRef at ih ⊢
  rw [hspec]
  cases hres : Spec.ensureAdd (specOpts o) v (den child0) ((nxt :: rest).map decodeToken) with
  | unspec => simp only [Res.bind]
  | fail c =>
    rw [hres] at ih
    simp only [Res.bind]
    rcases ih with ⟨er, her⟩ | ⟨con1, c1, h1, h2, h3, h4⟩
    · exact Or.inl ⟨er, herr er her⟩
    · obtain ⟨a, b, c'⟩ := hmk con1 h2 h3
      exact Or.inr ⟨mk con1, c1, hok _ _ h1 h2 h3, a, b, by rw [c', h4]; rfl⟩
  | ok c' =>
    rw [hres] at ih
    simp only [Res.bind]
    obtain ⟨con1, h1, h2, h3, h4⟩ := ih
    obtain ⟨a, b, c''⟩ := hmk con1 h2 h3
    exact ⟨mk con1, hok _ _ h1 h2 h3, a, b, by rw [c'', h4]; rfl⟩

/-! ### the container created for a missing parent -/

/-- the container `ensurePathExists` creates, given the (undecoded) next token -/
def freshNode (nxt : Bytes) : Node :=
  if (atoi nxt).isSome ∨ nxt = [45] then
    .ary (padNulls (if (atoi nxt).getD 0 < 0 then 0 else ((atoi nxt).getD 0).toNat))
  else .doc [] []

theorem ensure_none {o : Opts} {cr : Bool} {self con : Node} {part nxt : Bytes} {rest : List Bytes}
    (ht : target o self con (decodeToken part) = none) (hneg : ¬ (atoi nxt).getD 0 < 0) :
    ensure o cr self con (part :: nxt :: rest) =
      addIgn o (pad part con) (decodeToken part) self (ensure o false .nil (freshNode nxt) (nxt :: rest)) := by
  rw [ensure_cons2, ht]
  simp only [freshNode]
  by_cases h : (atoi nxt).isSome ∨ nxt = [45]
  · rw [if_pos h, if_pos h, if_neg (fun hh => hneg hh.1), if_neg (by omega)]
  · rw [if_neg h, if_neg h]

theorem Inv_emptyDoc (e : Bool) : Inv e (.doc [] []) := by
  rw [Inv_doc]
  exact ⟨rfl, rfl, fun kn hkn => by simp at hkn⟩

theorem freshFor_spec {e : Bool} {nxt : Bytes} {fresh : Value}
    (h : Spec.freshFor (decodeToken nxt) = .ok fresh) :
    ¬ (atoi nxt).getD 0 < 0 ∧ den (freshNode nxt) = fresh ∧ Inv e (freshNode nxt) ∧
      isCon (freshNode nxt) = true := by
  have hat := atoi_decodeToken nxt
  have hdash := decodeToken_eq_dash nxt
  by_cases hd : decodeToken nxt = [45]
  · have hn : nxt = [45] := hdash.1 hd
    subst hn
    simp only [Spec.freshFor, show decodeToken [45] = [45] from rfl, classify_dash, Res.ok.injEq] at h
    subst h
    refine ⟨by decide, ?_, ?_, ?_⟩
    · simp [freshNode, atoi_dash, padNulls, den, denL]
    · simp only [freshNode, atoi_dash, Option.isSome_none, Bool.false_eq_true, or_true, if_true]
      exact (Inv_ary e _).2 (InvL_padNulls e _)
    · simp [freshNode, isCon]
  · have hn : nxt ≠ [45] := fun hx => hd (hdash.2 hx)
    rcases classify_cases (decodeToken nxt) hd with ⟨ha, hc⟩ | ⟨i, ha, hc | hc⟩
    · rw [hat] at ha
      simp only [Spec.freshFor, hc, Res.ok.injEq] at h
      subst h
      have hfn : freshNode nxt = .doc [] [] := by simp [freshNode, ha, hn]
      rw [hfn]
      exact ⟨by simp [ha], by simp [den, denM], Inv_emptyDoc e, rfl⟩
    · rw [hat] at ha
      simp only [Spec.freshFor, hc] at h
      by_cases h0 : i < 0
      · rw [if_pos h0] at h; cases h
      · rw [if_neg h0] at h
        split at h
        · cases h
        · simp only [Res.ok.injEq] at h
          subst h
          have hfn : freshNode nxt = .ary (padNulls i.toNat) := by simp [freshNode, ha, h0]
          rw [hfn]
          exact ⟨by simp [ha]; omega, by rw [den_ary, denL_padNulls],
            (Inv_ary e _).2 (InvL_padNulls e _), rfl⟩
    · simp only [Spec.freshFor, hc] at h
      cases h


/-! ### the four steps -/

theorem target_some {o : Opts} {self con n : Node} {key : Bytes}
    (hg : conGet o self con key = .ok n) (hnn : isNil n = false) : target o self con key = some n := by
  simp only [target, hg]
  cases n <;> simp [isNil] at hnn ⊢

theorem target_none_err {o : Opts} {self con : Node} {key : Bytes} {er : Err}
    (hg : conGet o self con key = .err er) : target o self con key = none := by
  simp only [target, hg]

theorem not_isNil_of_container {n : Node} (h : (den n).isContainer = true) : isNil n = false := by
  cases hx : isNil n with
  | false => rfl
  | true => rw [isNil_den hx] at h; simp [Value.isContainer, Value.isObj, Value.isArr] at h

/-- an existing object member that is a container: descend -/
theorem ensRef_doc_some {o : Opts} {e : Bool} {v : Value} {cr : Bool} {self : Node} {keys : List Bytes}
    {obj : NMembers} {part nxt : Bytes} {rest : List Bytes} {n : Node}
    (hinv : Inv e (.doc keys obj))
    (hl : lookupN (decodeToken part) obj = some n)
    (ih : ∀ child, Inv e child → isCon child = true → EnsRef o e v false .nil child (nxt :: rest)) :
    EnsRef o e v cr self (.doc keys obj) (part :: nxt :: rest) := by
  have hn : Inv e n := (InvM_lookupN ((Inv_doc _ _ _).1 hinv).2.2 hl).2
  have hic := intoContainer_spec hn
  by_cases hcont : (den n).isContainer = true
  · rw [if_pos hcont] at hic
    obtain ⟨child, hinto, hchild, hcc, hden⟩ := hic
    have hg : conGet o self (.doc keys obj) (decodeToken part) = .ok n := by
      rw [conGet_doc _ _ _ _ _, hl]
    have ht := target_some hg (not_isNil_of_container hcont)
    apply ensRef_step (child0 := child) (fun c => .doc keys (setN (decodeToken part) c obj))
      (fun c' => .obj (Value.set (decodeToken part) c' (denM obj)))
    · rw [den_doc_inv hinv, hden]
      simp only [List.map_cons]
      rw [ensureAdd_obj_cons, lookupN_denM, hl]
      simp only [Option.map_some, hcont, if_true]
    · intro c s hens hc hcc'
      rw [ensure_cons2, ht]
      simp only [enter, hinto, hens, putRes, putChild]
    · intro er hens
      rw [ensure_cons2, ht]
      simp only [enter, hinto, hens, putRes]
    · intro c hc hcc'
      obtain ⟨h1, h2⟩ := Inv_putChild_doc hinv hl hc
      refine ⟨h1, rfl, ?_⟩
      rw [h2]
      simp only [List.map_cons]
      rw [atParent_obj_step _ _ _ _ _ _ (den c) (lookup_set_self _ _ _)]
      simp only [set_set]
    · exact ih child hchild hcc
  · unfold EnsRef
    rw [den_doc_inv hinv]
    simp only [List.map_cons]
    rw [ensureAdd_obj_cons, lookupN_denM, hl]
    simp only [Option.map_some, hcont, Bool.false_eq_true, if_false]

theorem pad_doc (part : Bytes) (keys : List Bytes) (obj : NMembers) :
    pad part (.doc keys obj) = .doc keys obj := by
  simp only [pad]
  cases atoi part <;> rfl

/-- an absent object member: create it -/
theorem ensRef_doc_none {o : Opts} {e : Bool} {v : Value} {cr : Bool} {self : Node} {keys : List Bytes}
    {obj : NMembers} {part nxt : Bytes} {rest : List Bytes}
    (hinv : Inv e (.doc keys obj)) (hq : QK e (decodeToken part) = true)
    (hl : lookupN (decodeToken part) obj = none)
    (ih : ∀ child, Inv e child → isCon child = true → EnsRef o e v false .nil child (nxt :: rest)) :
    EnsRef o e v cr self (.doc keys obj) (part :: nxt :: rest) := by
  have hlv : Value.lookup (decodeToken part) (denM obj) = none := by rw [lookupN_denM, hl]; rfl
  have hspec0 : Spec.ensureAdd (specOpts o) v (den (.doc keys obj)) ((part :: nxt :: rest).map decodeToken) =
      (Spec.freshFor (decodeToken nxt)).bind fun fresh =>
        (Spec.ensureAdd (specOpts o) v fresh ((nxt :: rest).map decodeToken)).bind fun inner =>
          .ok (.obj (Value.set (decodeToken part) inner (denM obj))) := by
    rw [den_doc_inv hinv]
    simp only [List.map_cons]
    rw [ensureAdd_obj_cons, hlv]
    simp only [set_of_lookup_none _ _ _ hlv]
  cases hf : Spec.freshFor (decodeToken nxt) with
  | unspec => unfold EnsRef; rw [hspec0, hf]; simp only [Res.bind]
  | fail c => exact absurd hf (freshFor_ne_fail _ _)
  | ok fresh =>
    obtain ⟨hneg, hfd, hfi, hfc⟩ := freshFor_spec (e := e) hf
    have hg : conGet o self (.doc keys obj) (decodeToken part) = .err .missing := by
      rw [conGet_doc _ _ _ _ _, hl]
    have ht := target_none_err hg
    apply ensRef_step (child0 := freshNode nxt) (fun c => docSet keys obj (decodeToken part) c)
      (fun c' => .obj (Value.set (decodeToken part) c' (denM obj)))
    · rw [hspec0, hf, hfd]; rfl
    · intro c s hens hc hcc'
      rw [ensure_none ht hneg, hens, pad_doc]
      simp only [addIgn, conAdd]
    · intro er hens
      rw [ensure_none ht hneg, hens]
      rfl
    · intro c hc hcc'
      refine ⟨Inv_docSet hinv hq hc, rfl, ?_⟩
      rw [den_docSet hinv hq hc]
      simp only [List.map_cons]
      rw [atParent_obj_step _ _ _ _ _ _ (den c) (lookup_set_self _ _ _)]
      simp only [set_set]
    · exact ih _ hfi hfc


theorem getElem?_append_last {α} (xs : List α) (b : α) (k : Nat) (hk : xs.length = k) :
    (xs ++ [b])[k]? = some b := by subst hk; simp

theorem setAt_append_last' {α} (xs : List α) (a b : α) (k : Nat) (hk : xs.length = k) :
    Spec.setAt k a (xs ++ [b]) = xs ++ [a] := by subst hk; exact setAt_append_last a b xs

theorem listInsert_append' {α} (xs : List α) (a : α) (k : Nat) (hk : xs.length = k) :
    listInsert k a xs = xs ++ [a] := by subst hk; exact listInsert_length a xs

/-- an existing array element that is a container: descend -/
theorem ensRef_ary_some {o : Opts} {e : Bool} {v : Value} {cr : Bool} {self : Node} {ns : List Node}
    {part nxt : Bytes} {rest : List Bytes} {n : Node} {i : Int}
    (hinv : Inv e (.ary ns))
    (hc : Spec.classify (decodeToken part) = .int i) (h0 : ¬ i < 0)
    (hmax : ¬ i.toNat > Spec.ensureMaxIndex) (hx : ns[i.toNat]? = some n)
    (ih : ∀ child, Inv e child → isCon child = true → EnsRef o e v false .nil child (nxt :: rest)) :
    EnsRef o e v cr self (.ary ns) (part :: nxt :: rest) := by
  have hinvL := (Inv_ary e ns).1 hinv
  have hn : Inv e n := InvL_getElem? hinvL hx
  have ha : atoi (decodeToken part) = some i := classify_int hc
  have hlt : i.toNat < ns.length := by
    rcases Nat.lt_or_ge i.toNat ns.length with h | h
    · exact h
    · rw [List.getElem?_eq_none h] at hx; cases hx
  have hspec0 : Spec.ensureAdd (specOpts o) v (den (.ary ns)) ((part :: nxt :: rest).map decodeToken) =
      if (den n).isContainer then
        (Spec.ensureAdd (specOpts o) v (den n) ((nxt :: rest).map decodeToken)).bind fun c' =>
          .ok (.arr (Spec.setAt i.toNat c' (denL ns)))
      else .unspec := by
    rw [den_ary]
    simp only [List.map_cons]
    rw [ensureAdd_arr_cons, hc]
    simp only [h0, hmax, if_false, denL_getElem?, hx, Option.map_some]
  have hic := intoContainer_spec hn
  by_cases hcont : (den n).isContainer = true
  · rw [if_pos hcont] at hic
    obtain ⟨child, hinto, hchild, hcc, hden⟩ := hic
    have hg : conGet o self (.ary ns) (decodeToken part) = .ok n := by
      simp [conGet, ha, h0, hx]
    have ht := target_some hg (not_isNil_of_container hcont)
    have hput : ∀ c, putChild o (.ary ns) (decodeToken part) c = .ary (listSet i.toNat c ns) := by
      intro c; simp [putChild, ha, h0]
    apply ensRef_step (child0 := child) (fun c => .ary (listSet i.toNat c ns))
      (fun c' => .arr (Spec.setAt i.toNat c' (denL ns)))
    · rw [hspec0, if_pos hcont, hden]
    · intro c s hens hc' hcc'
      rw [ensure_cons2, ht]
      simp only [enter, hinto, hens, putRes, hput]
    · intro er hens
      rw [ensure_cons2, ht]
      simp only [enter, hinto, hens, putRes]
    · intro c hc' hcc'
      refine ⟨(Inv_ary e _).2 (InvL_listSet hc' hinvL), rfl, ?_⟩
      rw [den_ary, denL_listSet]
      simp only [List.map_cons]
      rw [atParent_arr_step _ _ _ _ _ _ i.toNat (den c)
        (readIdx_int hc h0 (by rw [setAt_length, denL_length]; exact hlt))
        (setAt_getElem? _ _ _ (by rw [denL_length]; exact hlt))]
      simp only [setAt_setAt]
    · exact ih child hchild hcc
  · unfold EnsRef
    rw [hspec0, if_neg hcont]
    trivial

/-- an array element at or beyond the end: pad with nulls and create it -/
theorem ensRef_ary_none {o : Opts} {e : Bool} {v : Value} {cr : Bool} {self : Node} {ns : List Node}
    {part nxt : Bytes} {rest : List Bytes} {i : Int}
    (hinv : Inv e (.ary ns))
    (hc : Spec.classify (decodeToken part) = .int i) (h0 : ¬ i < 0)
    (hmax : ¬ i.toNat > Spec.ensureMaxIndex) (hx : ns[i.toNat]? = none)
    (ih : ∀ child, Inv e child → isCon child = true → EnsRef o e v false .nil child (nxt :: rest)) :
    EnsRef o e v cr self (.ary ns) (part :: nxt :: rest) := by
  have hinvL := (Inv_ary e ns).1 hinv
  have ha : atoi (decodeToken part) = some i := classify_int hc
  have hap : atoi part = some i := by rw [← atoi_decodeToken]; exact ha
  have hd : decodeToken part ≠ [45] := classify_int_ne_dash hc
  have hge : ns.length ≤ i.toNat := List.getElem?_eq_none_iff.1 hx
  have hlen' : (ns ++ padNulls (i.toNat - ns.length)).length = i.toNat := by
    rw [List.length_append, padNulls_length]; omega
  have hdl : denL (ns ++ padNulls (i.toNat - ns.length)) =
      denL ns ++ List.replicate (i.toNat - ns.length) .null := by
    rw [denL_append, denL_padNulls]
  have hdlen : (denL (ns ++ padNulls (i.toNat - ns.length))).length = i.toNat := by
    rw [denL_length]; exact hlen'
  have hspec0 : Spec.ensureAdd (specOpts o) v (den (.ary ns)) ((part :: nxt :: rest).map decodeToken) =
      (Spec.freshFor (decodeToken nxt)).bind fun fresh =>
        (Spec.ensureAdd (specOpts o) v fresh ((nxt :: rest).map decodeToken)).bind fun inner =>
          .ok (.arr (denL (ns ++ padNulls (i.toNat - ns.length)) ++ [inner])) := by
    rw [den_ary]
    simp only [List.map_cons]
    rw [ensureAdd_arr_cons, hc]
    simp only [h0, hmax, if_false, denL_getElem?, hx, Option.map_none, hdl, denL_length]
  cases hf : Spec.freshFor (decodeToken nxt) with
  | unspec => unfold EnsRef; rw [hspec0, hf]; simp only [Res.bind]
  | fail c => exact absurd hf (freshFor_ne_fail _ _)
  | ok fresh =>
    obtain ⟨hneg, hfd, hfi, hfc⟩ := freshFor_spec (e := e) hf
    have hg : conGet o self (.ary ns) (decodeToken part) = .err .invalidIndex := by
      simp [conGet, ha, h0, hx]
    have ht := target_none_err hg
    have hpad : pad part (.ary ns) = .ary (ns ++ padNulls (i.toNat - ns.length)) := by
      simp only [pad, hap]
      by_cases hi : i ≥ (ns.length : Int) + 1
      · rw [if_pos hi]
      · rw [if_neg hi]
        have : i.toNat - ns.length = 0 := by omega
        rw [this]; simp [padNulls]
    have hadd : ∀ c, conAdd o (.ary (ns ++ padNulls (i.toNat - ns.length))) (decodeToken part) c =
        .ok (.ary (ns ++ padNulls (i.toNat - ns.length) ++ [c])) := by
      intro c
      have h1 : ¬ i ≥ ((ns ++ padNulls (i.toNat - ns.length)).length : Int) + 1 := by
        rw [hlen']; omega
      simp only [conAdd, hd, if_false, ha, h1, h0]
      rw [listInsert_append' _ _ _ hlen']
    apply ensRef_step (child0 := freshNode nxt)
      (fun c => .ary (ns ++ padNulls (i.toNat - ns.length) ++ [c]))
      (fun c' => .arr (denL (ns ++ padNulls (i.toNat - ns.length)) ++ [c']))
    · rw [hspec0, hf, hfd]; rfl
    · intro c s hens hc' hcc'
      rw [ensure_none ht hneg, hens, hpad]
      simp only [addIgn, hadd]
    · intro er hens
      rw [ensure_none ht hneg, hens]
      rfl
    · intro c hc' hcc'
      have hI : InvL e (ns ++ padNulls (i.toNat - ns.length)) := by
        intro x hx'
        rcases List.mem_append.1 hx' with h | h
        · exact hinvL x h
        · exact InvL_padNulls e _ x h
      refine ⟨(Inv_ary e _).2 (InvL_append hc' hI), rfl, ?_⟩
      rw [den_ary, denL_append]
      simp only [List.map_cons, denL]
      rw [atParent_arr_step _ _ _ _ _ _ i.toNat (den c)
        (readIdx_int hc h0 (by rw [List.length_append, hdlen]; simp))
        (getElem?_append_last _ _ _ hdlen)]
      simp only [setAt_append_last' _ _ _ _ hdlen]
    · exact ih _ hfi hfc


/-! ### the whole walk -/

theorem ensure_single (o : Opts) (cr : Bool) (self con : Node) (part : Bytes) :
    ensure o cr self con [part] = .ok (con, self) := by
  rw [ensure]

/-- **`ensure` refines `ensureAdd`**: where the specification is defined, `ensure` returns a
container on which the plain `add` answers what `ensureAdd` answers on the original one -/
theorem ensure_refines (o : Opts) (e : Bool) (v : Value) :
    ∀ (parts : List Bytes) (cr : Bool) (self con : Node), Inv e con → isCon con = true →
      (∀ p ∈ parts, QK e (decodeToken p) = true) →
      EnsRef o e v cr self con parts := by
  intro parts
  induction parts with
  | nil =>
    intro cr self con _ _ _
    unfold EnsRef
    simp only [List.map_nil, ensureAdd_nil]
  | cons part tail ih =>
    intro cr self con hinv hcon hq
    cases tail with
    | nil =>
      have hcd := den_isContainer hinv hcon
      have hens := ensure_single o cr self con part
      unfold EnsRef
      simp only [List.map_cons, List.map_nil]
      rw [ensureAdd_single]
      cases hadd : Spec.addIn (specOpts o) v (den con) (decodeToken part) with
      | unspec => simp only [Res.bind]
      | fail c =>
        simp only [Res.bind]
        exact Or.inr ⟨con, c, hens, hinv, hcon, by rw [atParent_single _ _ _ _ hcd, hadd]⟩
      | ok ca =>
        obtain ⟨c', u⟩ := ca
        simp only [Res.bind]
        exact ⟨con, hens, hinv, hcon, by rw [atParent_single _ _ _ _ hcd, hadd]⟩
    | cons nxt rest =>
      have hqk := hq part (by simp)
      have ih' : ∀ child, Inv e child → isCon child = true →
          EnsRef o e v false .nil child (nxt :: rest) :=
        fun child a b => ih false .nil child a b
          (fun p hp => hq p (List.mem_cons_of_mem _ hp))
      cases con with
      | doc keys obj =>
        cases hl : lookupN (decodeToken part) obj with
        | none => exact ensRef_doc_none hinv hqk hl ih'
        | some n => exact ensRef_doc_some hinv hl ih'
      | ary ns =>
        have hun : ∀ {k : Spec.Tok}, Spec.classify (decodeToken part) = k → (∀ i, k ≠ .int i) →
            EnsRef o e v cr self (.ary ns) (part :: nxt :: rest) := by
          intro k hk hni
          unfold EnsRef
          rw [den_ary]
          simp only [List.map_cons]
          rw [ensureAdd_arr_cons, hk]
          cases k with
          | int i => exact absurd rfl (hni i)
          | noncanon => trivial
          | dash => trivial
          | name => trivial
        cases hc : Spec.classify (decodeToken part) with
        | int i =>
          by_cases h0 : i < 0
          · unfold EnsRef
            rw [den_ary]
            simp only [List.map_cons]
            rw [ensureAdd_arr_cons, hc]
            simp only [h0, if_true]
          · by_cases hmax : i.toNat > Spec.ensureMaxIndex
            · unfold EnsRef
              rw [den_ary]
              simp only [List.map_cons]
              rw [ensureAdd_arr_cons, hc]
              simp only [h0, if_false, hmax, if_true]
            · cases hx : ns[i.toNat]? with
              | none => exact ensRef_ary_none hinv hc h0 hmax hx ih'
              | some n => exact ensRef_ary_some hinv hc h0 hmax hx ih'
        | noncanon => exact hun hc (fun i => by simp)
        | dash => exact hun hc (fun i => by simp)
        | name => exact hun hc (fun i => by simp)
      | nil => simp [isCon] at hcon
      | raw c => simp [isCon] at hcon
      | docNil => simp [isCon] at hcon
      | nilAry => simp [isCon] at hcon

end Ens
end JP
