import JP.Lemmas.TypedDecTyped1

set_option linter.unusedSimpArgs false

/-!
# Type preservation, part 2: what the `*Interface` functions return is a well-typed `interface{}` content
(maps with distinct keys: they are built by `setD` from the empty map)
-/

namespace JP
namespace Codec
namespace TDec

open Scanner
open JP.Codec.Typed

def distinctB : List Bytes → Bool
  | [] => true
  | k :: ks => !ks.contains k && distinctB ks

mutual
/-- every map inside has distinct keys -/
def dkV : DVal → Bool
  | .list xs => dkL xs
  | .map ms => distinctB (ms.map Prod.fst) && dkM ms
  | _ => true
def dkL : List DVal → Bool
  | [] => true
  | x :: xs => dkV x && dkL xs
def dkM : DMembers → Bool
  | [] => true
  | (_, v) :: ms => dkV v && dkM ms
end

theorem dkL_append : ∀ (xs ys : List DVal), dkL (xs ++ ys) = (dkL xs && dkL ys)
  | [], ys => by simp [dkL]
  | x :: xs, ys => by simp [dkL, dkL_append xs ys, Bool.and_assoc]

theorem mem_setD_keys (k : Bytes) (v : DVal) (x : Bytes) : ∀ m : DMembers,
    x ∈ (setD k v m).map Prod.fst ↔ (x ∈ m.map Prod.fst ∨ x = k)
  | [] => by simp [setD]
  | (k', v') :: m => by
    by_cases hk : k' = k
    · subst hk
      simp only [setD, if_true, List.map_cons, List.mem_cons]
      constructor
      · intro h; rcases h with h | h
        · exact .inr h
        · exact .inl (.inr h)
      · intro h; rcases h with (h | h) | h
        · exact .inl h
        · exact .inr h
        · exact .inl h
    · simp only [setD, hk, if_false, List.map_cons, List.mem_cons, mem_setD_keys k v x m, or_assoc]

theorem setD_distinct (k : Bytes) (v : DVal) : ∀ m : DMembers, distinctB (m.map Prod.fst) = true →
    distinctB ((setD k v m).map Prod.fst) = true
  | [], _ => by simp [setD, distinctB]
  | (k', v') :: m, h => by
    simp only [List.map_cons, distinctB, Bool.and_eq_true, Bool.not_eq_true', List.contains_eq_mem,
      decide_eq_false_iff_not] at h
    by_cases hk : k' = k
    · subst hk
      simp [setD, distinctB, h.1, h.2]
    · have hne : ¬ (k' ∈ (setD k v m).map Prod.fst) := by
        rw [mem_setD_keys]; intro hh; rcases hh with hh | hh
        · exact h.1 hh
        · exact hk hh
      simp only [setD, hk, if_false, List.map_cons, distinctB, Bool.and_eq_true, Bool.not_eq_true',
        List.contains_eq_mem, decide_eq_false_iff_not]
      exact ⟨hne, setD_distinct k v m h.2⟩

theorem setD_dkM (k : Bytes) (v : DVal) (hv : dkV v = true) : ∀ m : DMembers, dkM m = true → dkM (setD k v m) = true
  | [], _ => by simp [setD, dkM, hv]
  | (k', v') :: m, h => by
    simp only [dkM, Bool.and_eq_true] at h
    by_cases hk : k' = k
    · simp [setD, hk, dkM, hv, h.2]
    · simp [setD, hk, dkM, h.1, setD_dkM k v hv m h.2]

theorem literalInterface_dk (d d1 : DState) (v : DVal) (h : literalInterface d = .ok (d1, v)) : dkV v = true := by
  simp only [literalInterface] at h
  cases hr : rescanLiteral d with
  | panic => simp [hr] at h
  | fuel => simp [hr] at h
  | ok d2 =>
    simp only [hr] at h
    cases hs : slice? d2.data d.readIndex d2.readIndex with
    | none => simp [hs] at h
    | some item =>
      simp only [hs] at h
      cases item with
      | nil => simp at h
      | cons c item' =>
        simp only at h
        by_cases h1 : c = 110
        · simp [h1] at h; rw [← h.2]; rfl
        · by_cases h2 : c = 116 ∨ c = 102
          · simp [h1, h2] at h; rw [← h.2]; rfl
          · by_cases h3 : c = 34
            · subst h3
              cases hu : unquoteBytes (34 :: item') with
              | none => simp [hu] at h
              | some s => simp [hu] at h; rw [← h.2]; rfl
            · by_cases h4 : ¬c = 45 ∧ isDigit c = false
              · simp [h1, h2, h3, h4] at h
              · simp [h1, h2, h3, h4] at h; rw [← h.2]; rfl

def DkVI (G : Nat) : Prop := ∀ d d1 v, valueInterface G d = .ok (d1, v) → dkV v = true
def DkAI (G : Nat) : Prop := ∀ d acc d1 vs, dkL acc = true → arrayInterface G d acc = .ok (d1, vs) → dkL vs = true
def DkOI (G : Nat) : Prop := ∀ d m d1 m', distinctB (m.map Prod.fst) = true → dkM m = true →
  objectInterface G d m = .ok (d1, m') → distinctB (m'.map Prod.fst) = true ∧ dkM m' = true

theorem dk_all : ∀ G, DkVI G ∧ DkAI G ∧ DkOI G := by
  intro G
  induction G with
  | zero =>
    refine ⟨?_, ?_, ?_⟩
    · intro d d1 v h; simp [valueInterface] at h
    · intro d acc d1 vs _ h; simp [arrayInterface] at h
    · intro d m d1 m' _ _ h; simp [objectInterface] at h
  | succ G ih =>
    obtain ⟨hV, hA, hO⟩ := ih
    refine ⟨?_, ?_, ?_⟩
    · intro d d1 v h
      simp only [valueInterface] at h
      by_cases h1 : d.opcode = scanBeginArray
      · simp only [h1, if_true] at h
        cases hc : arrayInterface G d [] with
        | ok p =>
          obtain ⟨d2, vs⟩ := p
          simp [hc] at h
          rw [← h.2]
          simpa [dkV] using hA d [] d2 vs rfl hc
        | panic => simp [hc] at h
        | fuel => simp [hc] at h
      · simp only [h1, if_false] at h
        by_cases h2 : d.opcode = scanBeginObject
        · simp only [h2, if_true] at h
          cases hc : objectInterface G d [] with
          | ok p =>
            obtain ⟨d2, m⟩ := p
            simp [hc] at h
            rw [← h.2]
            have := hO d [] d2 m rfl rfl hc
            simp [dkV, this.1, this.2]
          | panic => simp [hc] at h
          | fuel => simp [hc] at h
        · simp only [h2, if_false] at h
          by_cases h3 : d.opcode = scanBeginLiteral
          · simp only [h3, if_true] at h
            exact literalInterface_dk d d1 v h
          · simp [h3] at h
    · intro d acc d1 vs hacc h
      simp only [arrayInterface] at h
      by_cases h1 : (scanWhile scanSkipSpace d).opcode = scanEndArray
      · simp [h1] at h; rw [← h.2]; exact hacc
      · simp only [h1, if_false] at h
        cases hc : valueInterface G (scanWhile scanSkipSpace d) with
        | panic => simp [hc] at h
        | fuel => simp [hc] at h
        | ok p =>
          obtain ⟨d2, v⟩ := p
          simp only [hc] at h
          have hv := hV _ _ _ hc
          have hacc' : dkL (acc ++ [v]) = true := by simp [dkL_append, hacc, dkL, hv]
          by_cases h2 : (skipSpaceIf d2).opcode = scanEndArray
          · simp [h2] at h; rw [← h.2]; exact hacc'
          · simp only [h2, if_false] at h
            by_cases h3 : (skipSpaceIf d2).opcode = scanArrayValue
            · simp [h3] at h
              exact hA _ _ _ _ hacc' h
            · simp [h3] at h
    · intro d m d1 m' hd hm h
      simp only [objectInterface] at h
      by_cases h1 : (scanWhile scanSkipSpace d).opcode = scanEndObject
      · simp [h1] at h; rw [← h.2]; exact ⟨hd, hm⟩
      · simp only [h1, if_false] at h
        by_cases h2 : (scanWhile scanSkipSpace d).opcode = scanBeginLiteral
        · simp only [h2, ne_eq, not_true_eq_false, if_false] at h
          cases hr : rescanLiteral (scanWhile scanSkipSpace d) with
          | panic => simp [hr] at h
          | fuel => simp [hr] at h
          | ok d2 =>
            simp only [hr] at h
            cases hs : slice? d2.data (scanWhile scanSkipSpace d).readIndex d2.readIndex with
            | none => simp [hs] at h
            | some item =>
              simp only [hs] at h
              cases hu : unquoteBytes item with
              | none => simp [hu] at h
              | some key =>
                simp only [hu] at h
                by_cases h3 : (skipSpaceIf d2).opcode = scanObjectKey
                · simp only [h3, ne_eq, not_true_eq_false, if_false] at h
                  cases hc : valueInterface G (scanWhile scanSkipSpace (skipSpaceIf d2)) with
                  | panic => simp [hc] at h
                  | fuel => simp [hc] at h
                  | ok p =>
                    obtain ⟨d5, v⟩ := p
                    simp only [hc] at h
                    have hv := hV _ _ _ hc
                    have hd' := setD_distinct key v m hd
                    have hm' := setD_dkM key v hv m hm
                    by_cases h4 : (skipSpaceIf d5).opcode = scanEndObject
                    · simp [h4] at h; rw [← h.2]; exact ⟨hd', hm'⟩
                    · simp only [h4, if_false] at h
                      by_cases h5 : (skipSpaceIf d5).opcode = scanObjectValue
                      · simp [h5] at h
                        exact hO _ _ _ _ hd' hm' h
                      · simp [h5] at h
                · simp [h3] at h
        · simp [h2] at h

/-! ### `ifaceOf` of such a value is a well-typed interface content -/

theorem distinctKeys_str : ∀ ks : List Bytes, distinctKeys (ks.map MapKey.str) = distinctB ks
  | [] => rfl
  | k :: ks => by
    have : (ks.map MapKey.str).contains (MapKey.str k) = ks.contains k := by
      induction ks with
      | nil => rfl
      | cons a as ih => simp [List.contains_cons, ih]
    simp [distinctKeys, distinctB, this, distinctKeys_str ks]

theorem ifaceOfM_keys : ∀ m : DMembers, distinctKeys ((ifaceOfM m).map Prod.fst) = distinctB (m.map Prod.fst) := by
  intro m
  have : ∀ m : DMembers, (ifaceOfM m).map Prod.fst = (m.map Prod.fst).map MapKey.str := by
    intro m
    induction m with
    | nil => rfl
    | cons a m ih => obtain ⟨k, v⟩ := a; simp only [ifaceOfM, List.map_cons, ih]
  rw [this, distinctKeys_str]

mutual
theorem ifaceOf_typed : ∀ v : DVal, dkV v = true → GoVal.hasType .iface (ifaceOf v) = true
  | .str s, _ => by simp [ifaceOf, GoVal.hasType, GoType.wf]
  | .num l, _ => by simp [ifaceOf, GoVal.hasType, GoType.wf]
  | .bool b, _ => by simp [ifaceOf, GoVal.hasType, GoType.wf]
  | .null, _ => by simp [ifaceOf, GoVal.hasType, GoType.nilable]
  | .rawText _, _ => by simp [ifaceOf, GoVal.hasType, GoType.nilable]
  | .nilPtr, _ => by simp [ifaceOf, GoVal.hasType, GoType.nilable]
  | .nilSlice, _ => by simp [ifaceOf, GoVal.hasType, GoType.nilable]
  | .nilMap, _ => by simp [ifaceOf, GoVal.hasType, GoType.nilable]
  | .list xs, h => by
    simp only [dkV] at h
    simp [ifaceOf, GoVal.hasType, GoType.wf, GoType.isUint8, ifaceOfL_typed xs h]
  | .map ms, h => by
    simp only [dkV, Bool.and_eq_true] at h
    simp [ifaceOf, GoVal.hasType, GoType.wf, ifaceOfM_keys, h.1, ifaceOfM_typed ms h.2]
theorem ifaceOfL_typed : ∀ xs : List DVal, dkL xs = true → hasTypeAll .iface (ifaceOfL xs) = true
  | [], _ => rfl
  | x :: xs, h => by
    simp only [dkL, Bool.and_eq_true] at h
    simp [ifaceOfL, hasTypeAll, ifaceOf_typed x h.1, ifaceOfL_typed xs h.2]
theorem ifaceOfM_typed : ∀ ms : DMembers, dkM ms = true → hasTypeM .str .iface (ifaceOfM ms) = true
  | [], _ => rfl
  | (k, v) :: ms, h => by
    simp only [dkM, Bool.and_eq_true] at h
    simp [ifaceOfM, hasTypeM, MapKey.hasType, ifaceOf_typed v h.1, ifaceOfM_typed ms h.2]
end

theorem arrayInterface_typed (G : Nat) (d d1 : DState) (vs : List DVal) (h : arrayInterface G d [] = .ok (d1, vs)) :
    DV.typed .iface (.iface (.slice .iface) (.list (ifaceOfL vs))) = true := by
  have := (dk_all G).2.1 d [] d1 vs rfl h
  simp [DV.typed, GoVal.hasType, GoType.wf, GoType.isUint8, ifaceOfL_typed vs this]

theorem objectInterface_typed (G : Nat) (d d1 : DState) (m : DMembers) (h : objectInterface G d [] = .ok (d1, m)) :
    DV.typed .iface (.iface (.map .str .iface) (.map (ifaceOfM m))) = true := by
  have := (dk_all G).2.2 d [] d1 m rfl rfl h
  simp [DV.typed, GoVal.hasType, GoType.wf, ifaceOfM_keys, this.1, ifaceOfM_typed m this.2]

end TDec
end Codec
end JP
