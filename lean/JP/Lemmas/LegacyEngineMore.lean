import JP.Lemmas.LegacyEngineOps

/-!
# Legacy engine lemmas, part 4: `move`, `test`, `copy`
-/

namespace JP
namespace Legacy

open Value
open Impl (QK Outcome Err nav)
open Spec (Res)

/-! ### move -/

/-- the action of `move` at the source: `get`, then `remove` -/
def actMoveSrc (neg : Bool) : Node → Bytes → Outcome (Node × Node) :=
  fun con key =>
    match conGet neg con key with
    | .panic => .panic
    | .err e => .err e
    | .ok val =>
      match conRemove neg con key with
      | .ok con' => .ok (con', val)
      | .err e => .err e
      | .panic => .panic

theorem opMove_eq (neg : Bool) (root : Node) (op : Op) (f : Bytes) (h : op.frm = .ok f) :
    opMove neg root op =
      match withPath neg root f (actMoveSrc neg) with
      | .panic => .panic
      | .fail e => .err e
      | .notFound => .err .missing
      | .done root1 val =>
        match op.path with
        | .missing => .err .missing
        | .bad => .err .other
        | .ok path => liftWalk (withPath neg root1 path fun con key => unitAct (conAdd neg con key val)) := by
  simp only [opMove, h]
  rfl

theorem actMoveSrc_ref {neg : Bool} {key : Bytes} :
    ActRef (fun _ => True) key (actMoveSrc neg) (Spec.removeIn (specOpts neg))
      (fun val old => Inv val ∧ den val = old) := by
  intro pc hi hd
  have hrem := conRemove_refines (neg := neg) (key := key) hi hd
  have hget := conGet_refines (neg := neg) (key := key) hi hd
  have hrel := Impl.removeIn_getIn_strong (specOpts neg) (den pc) key
  cases hf : Spec.removeIn (specOpts neg) (den pc) key with
  | unspec => trivial
  | fail c =>
    rw [hf] at hrem hrel
    rw [hrel] at hget
    intro _
    obtain ⟨er, her⟩ := hrem
    rcases hget with ⟨er', hg⟩ | ⟨_, hg, _⟩
    · exact ⟨er', by simp only [actMoveSrc, hg]⟩
    · exact ⟨er, by simp only [actMoveSrc, hg, her]⟩
  | ok pb =>
    obtain ⟨p', old⟩ := pb
    rw [hf] at hrem hrel
    rw [hrel] at hget
    obtain ⟨n, hn, hin, hdn⟩ := hget
    obtain ⟨pc', h1, h2, h3, h4⟩ := hrem
    exact ⟨pc', n, by simp only [actMoveSrc, hn, h1], h2, h3, h4, hin, hdn⟩

theorem opMove_refines {neg : Bool} {root : Node} {op : Op} {sop : Spec.Op} {path f : Bytes}
    {ptoks ftoks : List Bytes} (sz acc : Nat)
    (hr : Inv root) (hc : isDA root = true)
    (hpath : op.path = .ok path) (hfrm : op.frm = .ok f)
    (hk : sop.kind = .move) (hsp : sop.path = path) (hsf : sop.frm = f)
    (hp : Spec.parsePointer path = some ptoks)
    (hq : ∀ x ∈ ptoks, QK true x = true)
    (hpf : Spec.parsePointer f = some ftoks) :
    OpRefL .move (Spec.applyOp (specOpts neg) sz acc (den root) sop) (opMove neg root op) := by
  have hp' : Spec.parsePointer sop.path = some ptoks := by rw [hsp]; exact hp
  · cases ftoks with
    | nil =>
      rw [Impl.spec_move_root hk hp' (by rw [hsf]; exact hpf)]
      simp [OpRefL, listed]
    | cons ft fts =>
      rw [Impl.spec_move hk hp' (by rw [hsf]; exact hpf), opMove_eq neg root op f hfrm]
      have h1 := withPath_refines_err (neg := neg) (root := root) (path := f)
        (act := actMoveSrc neg) (f := Spec.removeIn (specOpts neg))
        (R := fun val old => Inv val ∧ den val = old) hr hc hpf (by simp)
        (fun key _ => actMoveSrc_ref) (fun key => ⟨.missing, rfl⟩)
      cases hres : Spec.atParent (specOpts neg) (Spec.removeIn (specOpts neg)) (den root) (ft :: fts) with
      | unspec => trivial
      | fail c =>
        rw [hres] at h1
        simp only [Res.bind, OpRefL]
        intro _
        rcases h1 with ⟨er, h⟩ | h
        · exact ⟨er, by rw [h]⟩
        · exact ⟨.missing, by rw [h]⟩
      | ok dv =>
        rw [hres] at h1
        obtain ⟨root1, val, hw, hi1, hc1, hd1, hival, hdval⟩ := h1
        simp only [Res.bind]
        rw [hw]
        simp only [hpath]
        cases ptoks with
        | nil => trivial
        | cons pt pts =>
          simp only
          have h2 := addAt_refines (neg := neg) (path := path) hi1 hc1 hp (by simp) hival hq
          rw [hd1, hdval] at h2
          exact liftWalk_ref h2

/-! ### test -/

mutual
theorem PlainStr_of_StrFix : ∀ c : Cst, StrFix c = true → PlainStr c = true
  | .lit _, _ => rfl
  | .str b, h => by
    simp only [StrFix, fixBody, Bool.and_eq_true] at h
    simp only [PlainStr, plainBody]; exact h.1
  | .arr xs, h => by simp only [StrFix] at h; simp only [PlainStr]; exact PlainStrL_of_StrFixL xs h
  | .obj ms, h => by simp only [StrFix] at h; simp only [PlainStr]; exact PlainStrM_of_StrFixM ms h
theorem PlainStrL_of_StrFixL : ∀ xs : List Cst, StrFixL xs = true → PlainStrL xs = true
  | [], _ => rfl
  | x :: xs, h => by
    simp only [StrFixL, Bool.and_eq_true] at h
    simp only [PlainStrL, Bool.and_eq_true]
    exact ⟨PlainStr_of_StrFix x h.1, PlainStrL_of_StrFixL xs h.2⟩
theorem PlainStrM_of_StrFixM : ∀ ms : List (Bytes × Cst), StrFixM ms = true → PlainStrM ms = true
  | [], _ => rfl
  | (k, v) :: ms, h => by
    simp only [StrFixM, Bool.and_eq_true] at h
    simp only [PlainStrM, Bool.and_eq_true]
    exact ⟨PlainStr_of_StrFix v h.1, PlainStrM_of_StrFixM ms h.2⟩
end

theorem PlainStr_of_RawOK {c : Cst} (h : RawOK c = true) : PlainStr c = true := by
  simp only [RawOK, Bool.and_eq_true] at h
  exact PlainStr_of_StrFix c h.2

mutual
theorem PlainN_of_LT : ∀ n : Node, LT n = true → PlainN n = true
  | .nil, _ => rfl
  | .rawNil, _ => rfl
  | .docNil, _ => rfl
  | .raw c, h => by simp only [LT] at h; simp only [PlainN]; exact PlainStr_of_RawOK h
  | .doc ob, h => by simp only [LT] at h; simp only [PlainN]; exact PlainNM_of_LTM ob h
  | .ary ns, h => by simp only [LT] at h; simp only [PlainN]; exact PlainNL_of_LTL ns h
theorem PlainNM_of_LTM : ∀ ob : NMembers, LTM ob = true → PlainNM ob = true
  | [], _ => rfl
  | (k, n) :: ms, h => by
    simp only [LTM, Bool.and_eq_true] at h
    simp only [PlainNM, Bool.and_eq_true]
    exact ⟨PlainN_of_LT n h.1.2, PlainNM_of_LTM ms h.2⟩
theorem PlainNL_of_LTL : ∀ ns : List Node, LTL ns = true → PlainNL ns = true
  | [], _ => rfl
  | n :: ns, h => by
    simp only [LTL, Bool.and_eq_true] at h
    simp only [PlainNL, Bool.and_eq_true]
    exact ⟨PlainN_of_LT n h.1, PlainNL_of_LTL ns h.2⟩
end

/-- the value a `test` compares with -/
def wantOf (ov : ValField) : Value := (specValue ov).getD .null

/-- side conditions on the value of a `test` -/
structure TestValOK (ov : ValField) : Prop where
  present : ov ≠ .absent
  val : ∀ c, ov = .val c → c.valueOf.noDup = true ∧ RawOK c = true ∧ c.isNullLit = false

theorem eqv_null_right (a : Value) : Value.eqv a .null = a.isNull := by
  cases a <;> simp [Value.eqv, Value.isNull]

/-- `n.equal(op.value())` decides structural equality, and the parsing it leaves behind changes
neither the value nor the invariant -/
theorem equalTo_refines {n : Node} {ov : ValField} (hn : Inv n) (hov : TestValOK ov) :
    (equalTo n ov).1 = Value.eqv (den n) (wantOf ov) ∧ Inv (equalTo n ov).2 ∧
      den (equalTo n ov).2 = den n ∧ (isDA n = true → isDA (equalTo n ov).2 = true) := by
  cases ov with
  | absent => exact absurd rfl hov.present
  | null =>
    have h1 : equalTo n .null = (isNullN n, n) := rfl
    have h2 : wantOf .null = .null := rfl
    rw [h1, h2, eqv_null_right, isNullN_den n hn.1]
    exact ⟨rfl, hn, rfl, fun h => h⟩
  | val c =>
    obtain ⟨h1, h2, _⟩ := hov.val c rfl
    have he := eqNC_eqv n c hn.1 h1 (PlainN_of_LT n hn.2) (PlainStr_of_RawOK h2)
    have hw : wantOf (.val c) = c.valueOf := rfl
    have heq : equalTo n (.val c) = if eqNC n c then (true, deepParse n) else (false, n) := rfl
    rw [hw, heq]
    cases hb : eqNC n c with
    | true =>
      obtain ⟨d1, d2, d3⟩ := deepParse_spec n hn
      rw [if_pos rfl]
      exact ⟨by rw [← he, hb], d1, d2, d3⟩
    | false =>
      rw [if_neg (by simp)]
      exact ⟨by rw [← he, hb], hn, rfl, fun h => h⟩

/-- the action of `test` at the parent -/
def actTest (neg : Bool) (ov : ValField) : Node → Bytes → Outcome (Node × Unit) :=
  fun con key =>
    match conGet neg con key with
    | .panic => .panic
    | .err e => .err e
    | .ok .nil =>
      (match ov with
       | .val _ => .err .testFailed
       | _ => .ok (con, ()))
    | .ok val =>
      match ov with
      | .absent => .err .testFailed
      | ov =>
        let (b, val') := equalTo val ov
        if b then .ok (putChild con key val', ()) else .err .testFailed

theorem opTest_eq_nonroot (neg : Bool) (root : Node) (op : Op) (path : Bytes)
    (hpath : op.path = .ok path) (hp : path ≠ []) :
    opTest neg root op = liftWalk (withPath neg root path (actTest neg op.value)) := by
  simp only [opTest, hpath, hp, if_false]
  rfl

/-- putting back, under the key it was read with, a node with the same value -/
theorem putChild_same {neg : Bool} {pc n n' : Node} {key : Bytes} {pv : Value × Value}
    (hi : Inv pc) (hd : isDA pc = true)
    (hspec : Spec.getIn (specOpts neg) true (den pc) key = .ok pv)
    (hg : conGet neg pc key = .ok n) (hnn : n ≠ .nil) (hin : Inv n') (hden : den n' = den n) :
    Inv (putChild pc key n') ∧ isDA (putChild pc key n') = true ∧ den (putChild pc key n') = den pc := by
  cases pc with
  | doc ob =>
    simp only [conGet, Outcome.ok.injEq] at hg
    cases hl : lookupN key ob with
    | none => rw [hl] at hg; exact absurd hg.symm hnn
    | some m =>
      rw [hl] at hg
      simp only [Option.getD_some] at hg
      subst hg
      obtain ⟨a, b⟩ := Inv_putChild_doc hi hl hin
      refine ⟨a, rfl, ?_⟩
      rw [putChild_doc, b, hden, den_doc]
      rw [Impl.set_lookup_self key (den m) (denM ob) (by rw [lookupN_denM, hl]; rfl)]
  | ary ns =>
    simp only [den_ary, Spec.getIn, denL_length, specOpts_neg] at hspec
    have hget := conGet_ary neg ns key
    cases hr : Spec.readIdx neg ns.length key with
    | unspec => rw [hr] at hspec; cases hspec
    | bad => rw [hr] at hspec; cases hspec
    | «at» i =>
      rw [hr] at hget
      obtain ⟨m, hm, hgm⟩ := hget
      rw [hgm] at hg
      simp only [Outcome.ok.injEq] at hg
      subst hg
      have hinvL := (Inv_ary ns).1 hi
      rw [putChild_ary n' hr]
      refine ⟨(Inv_ary _).2 (InvL_listSet hin hinvL), rfl, ?_⟩
      rw [den_ary, denL_listSet, hden, den_ary]
      rw [Impl.setAt_self i (den m) (denL ns) (by simp [denL_getElem?, hm])]
  | nil => simp [isDA] at hd
  | rawNil => simp [isDA] at hd
  | raw c => simp [isDA] at hd
  | docNil => simp [isDA] at hd

theorem isNullLit_of_eqv_null {c : Cst} (h : Value.eqv .null c.valueOf = true) : c.isNullLit = true := by
  rw [isNullLit_valueOf]
  cases hv : c.valueOf <;> rw [hv] at h <;> simp [Value.eqv] at h

/-- the edit `test` performs at the parent, with the comparison decided by `Value.eqv` alone
(the specification's `testEq` additionally classifies "numbers that differ only in spelling" as
outside the domain) -/
def testInS (so : Spec.Opts) (want : Value) (p : Value) (t : Bytes) : Res (Value × Unit) :=
  (Spec.getIn so true p t).bind fun pv =>
    if Value.eqv pv.2 want then .ok (pv.1, ()) else .fail .testUnequal

theorem actTest_ref {neg : Bool} {ov : ValField} {key : Bytes} (hov : TestValOK ov) :
    ActRef (fun _ => True) key (actTest neg ov) (testInS (specOpts neg) (wantOf ov)) (fun _ _ => True) := by
  intro pc hi hd
  have hget := conGet_refines_test (neg := neg) (key := key) hi hd
  simp only [testInS]
  cases hg : Spec.getIn (specOpts neg) true (den pc) key with
  | unspec => trivial
  | fail c =>
    rw [hg] at hget
    obtain ⟨er, her⟩ := hget
    simp only [Res.bind]
    exact fun _ => ⟨er, by simp only [actTest, her]⟩
  | ok pv =>
    rw [hg] at hget
    obtain ⟨n, hn, hin, hdn⟩ := hget
    have hfst := Impl.getIn_fst hg
    simp only [Res.bind]
    by_cases hnil : n = .nil
    · subst hnil
      have hpv : pv.2 = .null := by rw [← hdn]; rfl
      cases ov with
      | absent => exact absurd rfl hov.present
      | null =>
        have : Value.eqv pv.2 (wantOf .null) = true := by
          rw [hpv]; simp [wantOf, specValue, Value.eqv]
        rw [if_pos this]
        exact ⟨pc, (), by simp only [actTest, hn], hi, hd, hfst.symm, trivial⟩
      | val c =>
        obtain ⟨_, _, hcn⟩ := hov.val c rfl
        have hne : Value.eqv pv.2 (wantOf (.val c)) = false := by
          rw [hpv]
          cases hx : Value.eqv .null (wantOf (.val c)) with
          | false => rfl
          | true =>
            have := isNullLit_of_eqv_null (c := c) (by simpa [wantOf, specValue] using hx)
            rw [this] at hcn; cases hcn
        rw [if_neg (by rw [hne]; simp)]
        exact fun _ => ⟨.testFailed, by simp only [actTest, hn]⟩
    · obtain ⟨e1, e2, e3, _⟩ := equalTo_refines (n := n) (ov := ov) hin hov
      have hact : actTest neg ov pc key =
          if (equalTo n ov).1 then .ok (putChild pc key (equalTo n ov).2, ()) else .err .testFailed := by
        cases ov with
        | absent => exact absurd rfl hov.present
        | null => cases n <;> first | exact absurd rfl hnil | simp only [actTest, hn]
        | val c => cases n <;> first | exact absurd rfl hnil | simp only [actTest, hn]
      rw [hdn] at e1
      cases hb : Value.eqv pv.2 (wantOf ov) with
      | true =>
        rw [if_pos rfl]
        rw [hb] at e1
        obtain ⟨p1, p2, p3⟩ := putChild_same hi hd hg hn hnil e2 e3
        exact ⟨_, (), by rw [hact, e1]; rfl, p1, p2, by rw [p3]; exact hfst.symm, trivial⟩
      | false =>
        rw [if_neg (by simp)]
        rw [hb] at e1
        exact fun _ => ⟨.testFailed, by rw [hact, e1]; rfl⟩

/-- `atParent` with the strict test edit, in terms of the lookup of the tested location -/
theorem atParent_testInS (so : Spec.Opts) (want doc : Value) (toks : List Bytes) (hne : toks ≠ []) :
    match Spec.atParent so (Spec.getIn so true) doc toks with
    | .ok pv => Spec.atParent so (testInS so want) doc toks =
        if Value.eqv pv.2 want then .ok (doc, ()) else .fail .testUnequal
    | .fail c => Spec.atParent so (testInS so want) doc toks = .fail c
    | .unspec => Spec.atParent so (testInS so want) doc toks = .unspec := by
  obtain ⟨ts, t, rfl⟩ := Impl.exists_concat toks hne
  rw [Impl.atParent_nav, Impl.atParent_nav]
  cases hn : nav so doc ts with
  | unspec => rfl
  | fail c => rfl
  | ok pk =>
    obtain ⟨p, k⟩ := pk
    obtain ⟨_, hk⟩ := Impl.nav_ok so ts doc p k hn
    simp only [Res.bind, testInS]
    cases hg : Spec.getIn so true p t with
    | unspec => rfl
    | fail c => rfl
    | ok pv =>
      have := Impl.getIn_fst hg
      simp only
      cases Value.eqv pv.2 want with
      | true => simp [this, hk]
      | false => simp

/-- **`test`**, in the form the refinement theorem uses: where the tested location can be read,
the legacy `test` succeeds (leaving the value of the document unchanged) exactly when the value
there is `Value.eqv` to the operand; where it cannot be read for a reason other than an
unreachable parent, the legacy `test` reports an error -/
theorem opTest_strong {neg : Bool} {root : Node} {op : Op} {path : Bytes} {t : Bytes} {ts : List Bytes}
    (hr : Inv root) (hc : isDA root = true)
    (hpath : op.path = .ok path) (hp : Spec.parsePointer path = some (t :: ts))
    (hov : TestValOK op.value) :
    match Spec.atParent (specOpts neg) (Spec.getIn (specOpts neg) true) (den root) (t :: ts) with
    | .ok pv =>
      if Value.eqv pv.2 (wantOf op.value) then
        ∃ r', opTest neg root op = .ok r' ∧ Inv r' ∧ isDA r' = true ∧ den r' = den root
      else ∃ er, opTest neg root op = .err er
    | .fail c => c ≠ .parentUnreachable → ∃ er, opTest neg root op = .err er
    | .unspec => True := by
  have hne : path ≠ [] := fun h => by
    have := (Impl.parsePointer_nil_iff hp).2 h; cases this
  rw [opTest_eq_nonroot neg root op path hpath hne]
  have hrel := atParent_testInS (specOpts neg) (wantOf op.value) (den root) (t :: ts) (by simp)
  have := withPath_refines (neg := neg) (root := root) (path := path)
    (act := actTest neg op.value) (f := testInS (specOpts neg) (wantOf op.value))
    (R := fun _ _ => True) (L := fun _ => True) hr hc hp (by simp)
    (fun key _ => actTest_ref hov)
  cases hres : Spec.atParent (specOpts neg) (Spec.getIn (specOpts neg) true) (den root) (t :: ts) with
  | unspec => trivial
  | fail c =>
    rw [hres] at hrel
    rw [hrel] at this
    intro hcn
    rcases this trivial with ⟨er, h⟩ | ⟨h, _⟩
    · exact ⟨er, by rw [h]; rfl⟩
    · exact absurd h hcn
  | ok pv =>
    rw [hres] at hrel
    simp only [] at hrel ⊢
    cases hb : Value.eqv pv.2 (wantOf op.value) with
    | true =>
      rw [hb, if_pos rfl] at hrel
      rw [hrel] at this
      obtain ⟨con', a, w1, w2, w3, w4, _⟩ := this
      rw [if_pos rfl]
      exact ⟨con', by rw [w1]; rfl, w2, w3, w4⟩
    | false =>
      rw [hb, if_neg (by simp)] at hrel
      rw [hrel] at this
      rw [if_neg (by simp)]
      rcases this trivial with ⟨er, h⟩ | ⟨h, _⟩
      · exact ⟨er, by rw [h]; rfl⟩
      · cases h

/-- `test` of the whole document -/
theorem opTest_root {neg : Bool} {root : Node} {op : Op}
    (hr : Inv root) (hc : isDA root = true) (hpath : op.path = .ok []) (hov : TestValOK op.value) :
    if Value.eqv (den root) (wantOf op.value) then
      ∃ r', opTest neg root op = .ok r' ∧ Inv r' ∧ isDA r' = true ∧ den r' = den root
    else ∃ er, opTest neg root op = .err er := by
  obtain ⟨e1, e2, e3, e4⟩ := equalTo_refines (n := root) (ov := op.value) hr hov
  have hact : opTest neg root op =
      if (equalTo root op.value).1 then .ok (equalTo root op.value).2 else .err .testFailed := by
    simp only [opTest, hpath, if_true]
  cases hb : Value.eqv (den root) (wantOf op.value) with
  | true =>
    rw [hb] at e1
    rw [if_pos rfl]
    exact ⟨_, by rw [hact, e1]; rfl, e2, e4 hc, e3⟩
  | false =>
    rw [hb] at e1
    rw [if_neg (by simp)]
    exact ⟨.testFailed, by rw [hact, e1]; rfl⟩

end Legacy
end JP
