import JP.Lemmas.LegacyCloseGood
import JP.Legacy.Check

/-!
# Legacy `Apply`: every raw message the engine keeps is well formed

`WN n`: every raw message inside the legacy node `n` is a well-formed syntax tree (`WFC`).  The
invariant holds for the decoded root of a well-formed document and for the values of a decoded
patch, is preserved by every operation of the engine (`applyOps_WN`; `copy` re-marshals, `test`
parses), and implies that what `json.Marshal` prints (`cstOf`) is well formed.  Hence a successful
`Apply` returns the compact print of a well-formed tree; it parses back unless it nests deeper than
the decoder's limit (`add` / `copy` / `move` can build such a document).
-/

namespace JP
namespace Legacy
open Impl (Err Outcome litNull lookupLastC listSet listInsert)

mutual
def WN : Node → Bool
  | .raw c => WFC c
  | .doc ob => WNM ob
  | .ary ns => WNL ns
  | _ => true
def WNM : NMembers → Bool
  | [] => true
  | (_, n) :: ms => WN n && WNM ms
def WNL : List Node → Bool
  | [] => true
  | n :: ns => WN n && WNL ns
end

theorem WNM_iff : ∀ (ms : NMembers), WNM ms = true ↔ ∀ kn ∈ ms, WN kn.2 = true
  | [] => by simp [WNM]
  | (k, n) :: ms => by
    simp only [WNM, Bool.and_eq_true, WNM_iff ms, List.mem_cons, forall_eq_or_imp]

theorem WNL_iff : ∀ (ns : List Node), WNL ns = true ↔ ∀ n ∈ ns, WN n = true
  | [] => by simp [WNL]
  | n :: ns => by simp only [WNL, Bool.and_eq_true, WNL_iff ns, List.mem_cons, forall_eq_or_imp]

theorem WN_nil : WN .nil = true := rfl
theorem WN_rawNil : WN .rawNil = true := rfl
theorem WN_docNil : WN .docNil = true := rfl
theorem WN_doc (ob : NMembers) : WN (.doc ob) = WNM ob := by simp only [WN]
theorem WN_ary (ns : List Node) : WN (.ary ns) = WNL ns := by simp only [WN]
theorem WN_raw (c : Cst) : WN (.raw c) = WFC c := by simp only [WN]

/-! ### lists -/

theorem mem_listSet {α} : ∀ (i : Nat) (a : α) (xs : List α) (x : α), x ∈ listSet i a xs → x = a ∨ x ∈ xs
  | _, _, [], _, h => by simp [listSet] at h
  | 0, a, y :: ys, x, h => by
    simp only [listSet, List.mem_cons] at h
    rcases h with h | h
    · exact Or.inl h
    · exact Or.inr (List.mem_cons_of_mem _ h)
  | i + 1, a, y :: ys, x, h => by
    simp only [listSet, List.mem_cons] at h
    rcases h with h | h
    · exact Or.inr (h ▸ List.mem_cons_self)
    · rcases mem_listSet i a ys x h with h | h
      · exact Or.inl h
      · exact Or.inr (List.mem_cons_of_mem _ h)

theorem mem_listInsert {α} : ∀ (i : Nat) (a : α) (xs : List α) (x : α), x ∈ listInsert i a xs → x = a ∨ x ∈ xs
  | 0, a, xs, x, h => by
    simp only [listInsert, List.mem_cons] at h
    exact h
  | _ + 1, a, [], x, h => by
    simp only [listInsert, List.mem_singleton] at h
    exact Or.inl h
  | i + 1, a, y :: ys, x, h => by
    simp only [listInsert, List.mem_cons] at h
    rcases h with h | h
    · exact Or.inr (h ▸ List.mem_cons_self)
    · rcases mem_listInsert i a ys x h with h | h
      · exact Or.inl h
      · exact Or.inr (List.mem_cons_of_mem _ h)

theorem WNL_listSet (i : Nat) (a : Node) (ns : List Node) (ha : WN a = true) (h : WNL ns = true) :
    WNL (listSet i a ns) = true := by
  rw [WNL_iff] at h ⊢
  intro x hx
  rcases mem_listSet i a ns x hx with rfl | hx
  · exact ha
  · exact h x hx

theorem WNL_listInsert (i : Nat) (a : Node) (ns : List Node) (ha : WN a = true) (h : WNL ns = true) :
    WNL (listInsert i a ns) = true := by
  rw [WNL_iff] at h ⊢
  intro x hx
  rcases mem_listInsert i a ns x hx with rfl | hx
  · exact ha
  · exact h x hx

theorem WNL_eraseIdx (i : Nat) (ns : List Node) (h : WNL ns = true) : WNL (ns.eraseIdx i) = true := by
  rw [WNL_iff] at h ⊢
  exact fun x hx => h x (List.mem_of_mem_eraseIdx hx)

theorem WNL_append (xs ys : List Node) (hx : WNL xs = true) (hy : WNL ys = true) : WNL (xs ++ ys) = true := by
  rw [WNL_iff] at hx hy ⊢
  intro x h
  rcases List.mem_append.1 h with h | h
  · exact hx x h
  · exact hy x h

theorem WNM_setN (k : Bytes) (n : Node) (ob : NMembers) (hn : WN n = true) (ho : WNM ob = true) :
    WNM (setN k n ob) = true := by
  rw [WNM_iff] at ho ⊢
  intro x hx
  rcases mem_setN_C k n ob x hx with rfl | h
  · exact hn
  · exact ho x h

theorem WNM_eraseN (k : Bytes) (ob : NMembers) (ho : WNM ob = true) : WNM (eraseN k ob) = true := by
  rw [WNM_iff] at ho ⊢
  exact fun x hx => ho x (mem_eraseN_C k ob x hx)

theorem WN_of_lookupN (k : Bytes) (n : Node) (ob : NMembers) (ho : WNM ob = true)
    (h : lookupN k ob = some n) : WN n = true :=
  (WNM_iff ob).1 ho _ (lookupN_memL h)

/-! ### decoding one level -/

theorem WN_childOf (c : Cst) (h : WFC c = true) : WN (childOf c) = true := by
  simp only [childOf]
  split
  · rfl
  · simpa only [WN] using h

theorem WNM_decodeMembers : ∀ (ms : List (Bytes × Cst)) (acc : NMembers),
    WFCM ms = true → WNM acc = true → WNM (decodeMembers ms acc) = true
  | [], acc, _, ha => by simpa [decodeMembers] using ha
  | (k, v) :: ms, acc, hm, ha => by
    simp only [WFCM, Bool.and_eq_true] at hm
    simp only [decodeMembers]
    exact WNM_decodeMembers ms _ hm.2 (WNM_setN _ _ acc (WN_childOf v hm.1.2) ha)

theorem WN_decodeDoc (ms : List (Bytes × Cst)) (h : WFC (.obj ms) = true) : WN (decodeDoc ms) = true := by
  simp only [WFC] at h
  simp only [decodeDoc, WN]
  exact WNM_decodeMembers ms [] h rfl

theorem WNL_map_childOf : ∀ (xs : List Cst), WFCL xs = true → WNL (xs.map childOf) = true
  | [], _ => rfl
  | x :: xs, h => by
    simp only [WFCL, Bool.and_eq_true] at h
    simp only [List.map_cons, WNL, Bool.and_eq_true]
    exact ⟨WN_childOf x h.1, WNL_map_childOf xs h.2⟩

theorem WN_decodeAry (xs : List Cst) (h : WFC (.arr xs) = true) : WN (decodeAry xs) = true := by
  simp only [WFC] at h
  simp only [decodeAry, WN]
  exact WNL_map_childOf xs h

/-! ### what `cstOf` prints is well formed -/

theorem WFCM_iff_C : ∀ (ms : List (Bytes × Cst)),
    WFCM ms = true ↔ ∀ m ∈ ms, validBody m.1 = true ∧ WFC m.2 = true
  | [] => by simp [WFCM]
  | (k, v) :: ms => by
    simp only [WFCM, Bool.and_eq_true, WFCM_iff_C ms, List.mem_cons, forall_eq_or_imp, and_assoc]

theorem WFC_litNull_C : WFC litNull = true := by decide

mutual
theorem WFC_cstOf : ∀ (n : Node), WN n = true → WFC (cstOf n) = true
  | .nil, _ => by simp only [cstOf]; exact WFC_litNull_C
  | .rawNil, _ => by simp only [cstOf]; exact WFC_litNull_C
  | .docNil, _ => by simp only [cstOf]; exact WFC_litNull_C
  | .raw c, h => by
    simp only [cstOf]
    exact WFC_escape true c (by simpa only [WN] using h)
  | .doc ob, h => by
    simp only [WN] at h
    have hm := WFC_cstOfM ob h
    rw [cstOf_doc_C]
    simp only [WFC]
    rw [WFCM_iff_C]
    intro m hmem
    obtain ⟨p, hp, rfl⟩ := mem_printedM_C.1 hmem
    exact ⟨(validBody_iff _).2 (VB_quoteBodyStd p.1), hm p hp⟩
  | .ary ns, h => by
    simp only [WN] at h
    simp only [cstOf, WFC]
    exact WFCL_cstOfL ns h
theorem WFC_cstOfM : ∀ (ob : NMembers), WNM ob = true → ∀ p ∈ ob, WFC (cstOf p.2) = true
  | [], _ => by intro p hp; cases hp
  | (k, n) :: ms, h => by
    simp only [WNM, Bool.and_eq_true] at h
    intro p hp
    rcases List.mem_cons.1 hp with rfl | hp
    · exact WFC_cstOf n h.1
    · exact WFC_cstOfM ms h.2 p hp
theorem WFCL_cstOfL : ∀ (ns : List Node), WNL ns = true → WFCL (cstOfL ns) = true
  | [], _ => rfl
  | n :: ns, h => by
    simp only [WNL, Bool.and_eq_true] at h
    simp only [cstOfL, WFCL, Bool.and_eq_true]
    exact ⟨WFC_cstOf n h.1, WFCL_cstOfL ns h.2⟩
end

theorem WN_deepCopy (n : Node) (h : WN n = true) : WN (deepCopy n).1 = true := by
  cases n with
  | nil => rfl
  | rawNil => simp only [deepCopy, WN]; exact WFC_cstOf _ h
  | raw c => simp only [deepCopy, WN]; exact WFC_cstOf _ h
  | doc ob => simp only [deepCopy, WN]; exact WFC_cstOf _ h
  | docNil => simp only [deepCopy, WN]; exact WFC_cstOf _ h
  | ary ns => simp only [deepCopy, WN]; exact WFC_cstOf _ h

/-! ### `deepParse` -/

mutual
theorem WN_deepParseC : ∀ (c : Cst), WFC c = true → WN (deepParseC c) = true
  | .lit s, h => by
    simp only [deepParseC]
    split
    · rfl
    · simpa only [WN] using h
  | .str b, h => by simpa only [deepParseC, WN] using h
  | .arr xs, h => by
    simp only [WFC] at h
    simp only [deepParseC, WN]
    exact WNL_deepParseCL xs h
  | .obj ms, h => by
    simp only [WFC] at h
    simp only [deepParseC, WN]
    exact WNM_deepParseCM ms [] h rfl
theorem WNL_deepParseCL : ∀ (xs : List Cst), WFCL xs = true → WNL (deepParseCL xs) = true
  | [], _ => rfl
  | x :: xs, h => by
    simp only [WFCL, Bool.and_eq_true] at h
    simp only [deepParseCL, WNL, Bool.and_eq_true]
    exact ⟨WN_deepParseC x h.1, WNL_deepParseCL xs h.2⟩
theorem WNM_deepParseCM : ∀ (ms : List (Bytes × Cst)) (acc : NMembers), WFCM ms = true →
    WNM acc = true → WNM (deepParseCM ms acc) = true
  | [], acc, _, ha => by simpa [deepParseCM] using ha
  | (k, v) :: ms, acc, h, ha => by
    simp only [WFCM, Bool.and_eq_true] at h
    simp only [deepParseCM]
    exact WNM_deepParseCM ms _ h.2 (WNM_setN _ _ acc (WN_deepParseC v h.1.2) ha)
end

mutual
theorem WN_deepParse : ∀ (n : Node), WN n = true → WN (deepParse n) = true
  | .nil, _ => rfl
  | .rawNil, _ => rfl
  | .docNil, _ => rfl
  | .raw c, h => by
    simp only [deepParse]
    split
    · exact WN_deepParseC c (by simpa only [WN] using h)
    · exact h
  | .doc ob, h => by
    simp only [WN] at h
    simp only [deepParse, WN]
    exact WNM_deepParseM ob h
  | .ary ns, h => by
    simp only [WN] at h
    simp only [deepParse, WN]
    exact WNL_deepParseL ns h
theorem WNM_deepParseM : ∀ (ob : NMembers), WNM ob = true → WNM (deepParseM ob) = true
  | [], _ => rfl
  | (k, n) :: ms, h => by
    simp only [WNM, Bool.and_eq_true] at h
    simp only [deepParseM, WNM, Bool.and_eq_true]
    exact ⟨WN_deepParse n h.1, WNM_deepParseM ms h.2⟩
theorem WNL_deepParseL : ∀ (ns : List Node), WNL ns = true → WNL (deepParseL ns) = true
  | [], _ => rfl
  | n :: ns, h => by
    simp only [WNL, Bool.and_eq_true] at h
    simp only [deepParseL, WNL, Bool.and_eq_true]
    exact ⟨WN_deepParse n h.1, WNL_deepParseL ns h.2⟩
end

/-! ### container methods -/

/-- an `ok` result satisfies the invariant -/
def OutW : Outcome Node → Prop
  | .ok c => WN c = true
  | _ => True

def ActW {α} (Q : α → Prop) : Outcome (Node × α) → Prop
  | .ok (c, a) => WN c = true ∧ Q a
  | _ => True

def WalkW {α} (Q : α → Prop) : Walk α → Prop
  | .done c a => WN c = true ∧ Q a
  | _ => True

theorem conGet_W {neg con key} (hc : WN con = true) : OutW (conGet neg con key) := by
  cases con with
  | nil => trivial
  | rawNil => trivial
  | raw c => trivial
  | docNil => exact WN_nil
  | doc ob =>
    simp only [conGet, OutW]
    cases hl : lookupN key ob with
    | none => rfl
    | some n => exact WN_of_lookupN key n ob (by simpa only [WN] using hc) hl
  | ary ns =>
    have hns : WNL ns = true := by simpa only [WN] using hc
    simp only [conGet]
    repeat' split
    all_goals first
      | trivial
      | (rename_i hget; exact (WNL_iff ns).1 hns _ (List.mem_of_getElem? hget))

theorem conAdd_W {neg con key val} (hc : WN con = true) (hv : WN val = true) :
    OutW (conAdd neg con key val) := by
  cases con with
  | nil => trivial
  | rawNil => trivial
  | raw c => trivial
  | docNil => trivial
  | doc ob =>
    simp only [conAdd, OutW, WN]
    exact WNM_setN _ _ ob hv (by simpa only [WN] using hc)
  | ary ns =>
    have hns : WNL ns = true := by simpa only [WN] using hc
    simp only [conAdd]
    repeat' split
    all_goals first
      | trivial
      | (simp only [OutW, WN]; exact WNL_append _ _ hns (by simp only [WNL, hv, Bool.and_self]))
      | (simp only [OutW, WN]; exact WNL_listInsert _ _ ns hv hns)

theorem conSet_W {neg con key val} (hc : WN con = true) (hv : WN val = true) :
    OutW (conSet neg con key val) := by
  cases con with
  | nil => trivial
  | rawNil => trivial
  | raw c => trivial
  | docNil => trivial
  | doc ob =>
    simp only [conSet, OutW, WN]
    exact WNM_setN _ _ ob hv (by simpa only [WN] using hc)
  | ary ns =>
    have hns : WNL ns = true := by simpa only [WN] using hc
    simp only [conSet]
    repeat' split
    all_goals first
      | trivial
      | (simp only [OutW, WN]; exact WNL_listSet _ _ ns hv hns)

theorem conRemove_W {neg con key} (hc : WN con = true) : OutW (conRemove neg con key) := by
  cases con with
  | nil => trivial
  | rawNil => trivial
  | raw c => trivial
  | docNil => trivial
  | doc ob =>
    simp only [conRemove]
    split
    · trivial
    · simp only [OutW, WN]; exact WNM_eraseN _ ob (by simpa only [WN] using hc)
  | ary ns =>
    have hns : WNL ns = true := by simpa only [WN] using hc
    simp only [conRemove]
    repeat' split
    all_goals first
      | trivial
      | (simp only [OutW, WN]; exact WNL_eraseIdx _ ns hns)

theorem intoDoc_W {n} (h : WN n = true) : OutW (intoDoc n) := by
  cases n with
  | nil => trivial
  | rawNil => trivial
  | doc ob => exact h
  | docNil => exact WN_docNil
  | ary ns => trivial
  | raw c =>
    have hc : WFC c = true := by simpa only [WN] using h
    cases c with
    | obj ms => simp only [intoDoc, OutW]; exact WN_decodeDoc ms hc
    | lit s => simp only [intoDoc]; split <;> trivial
    | str b => simp only [intoDoc]; split <;> trivial
    | arr xs => simp only [intoDoc]; split <;> trivial

theorem intoAry_W {n} (h : WN n = true) : OutW (intoAry n) := by
  cases n with
  | nil => trivial
  | rawNil => trivial
  | doc ob => trivial
  | docNil => trivial
  | ary ns => exact h
  | raw c =>
    have hc : WFC c = true := by simpa only [WN] using h
    cases c with
    | arr xs => simp only [intoAry, OutW]; exact WN_decodeAry xs hc
    | lit s => trivial
    | str b => trivial
    | obj ms => trivial

theorem intoContainer_W {n} (h : WN n = true) : OutW (intoContainer n) := by
  unfold intoContainer
  split
  · exact intoAry_W h
  · exact intoDoc_W h

theorem WN_putChild {con key child} (hc : WN con = true) (hch : WN child = true) :
    WN (putChild con key child) = true := by
  cases con with
  | nil => exact hc
  | rawNil => exact hc
  | raw c => exact hc
  | docNil => exact hc
  | doc ob => simp only [putChild, WN]; exact WNM_setN _ _ ob hch (by simpa only [WN] using hc)
  | ary ns =>
    simp only [putChild]
    split
    · simp only [WN]; exact WNL_listSet _ _ ns hch (by simpa only [WN] using hc)
    · exact hc

/-! ### `findObject` -/

theorem walk_W {α} (Q : α → Prop) (neg : Bool) (act : Node → Outcome (Node × α))
    (hact : ∀ con, WN con = true → ActW Q (act con)) :
    ∀ (parts : List Bytes) (con : Node), WN con = true → WalkW Q (walk neg act con parts)
  | [], con, hc => by
    have := hact con hc
    simp only [walk]
    cases h : act con with
    | ok r => obtain ⟨c, a⟩ := r; rw [h] at this; exact this
    | err e => trivial
    | panic => trivial
  | part :: rest, con, hc => by
    simp only [walk]
    have hg := conGet_W (neg := neg) (key := decodeToken part) hc
    cases hget : conGet neg con (decodeToken part) with
    | panic => trivial
    | err e => trivial
    | ok next =>
      rw [hget] at hg
      have hi := intoContainer_W (n := next) hg
      have hstep : WalkW Q (if rawIsNil next = true then (Walk.notFound : Walk α) else
          match intoContainer next with
          | .panic => .panic
          | .err _ => .notFound
          | .ok child =>
            match walk neg act child rest with
            | .done child' a => .done (putChild con (decodeToken part) child') a
            | .notFound => .notFound
            | .fail e => .fail e
            | .panic => .panic) := by
        split
        · trivial
        · cases hic : intoContainer next with
          | panic => trivial
          | err e => trivial
          | ok child =>
            rw [hic] at hi
            have ih := walk_W Q neg act hact rest child hi
            cases hw : walk neg act child rest with
            | done c' a =>
              rw [hw] at ih
              simp only [hw]
              exact ⟨WN_putChild hc ih.1, ih.2⟩
            | notFound => simp only [hw]; trivial
            | fail e => simp only [hw]; trivial
            | panic => simp only [hw]; trivial
      cases next with
      | nil => trivial
      | _ => exact hstep

theorem withPath_W {α} (Q : α → Prop) (neg : Bool) (root : Node) (path : Bytes)
    (act : Node → Bytes → Outcome (Node × α)) (hr : WN root = true)
    (hact : ∀ con key, WN con = true → ActW Q (act con key)) :
    WalkW Q (withPath neg root path act) := by
  unfold withPath
  split
  · trivial
  · exact walk_W Q neg _ (fun con hc => hact con _ hc) _ root hr

theorem unitAct_W {x : Outcome Node} (h : OutW x) : ActW (fun _ : Unit => True) (unitAct x) := by
  cases x with
  | ok c => exact ⟨h, trivial⟩
  | err e => trivial
  | panic => trivial

theorem liftWalk_W {Q : Unit → Prop} {w : Walk Unit} (h : WalkW Q w) : OutW (liftWalk w) := by
  cases w with
  | done c a => exact h.1
  | notFound => trivial
  | fail e => trivial
  | panic => trivial

/-! ### the operations -/

/-- the value of an operation satisfies the invariant -/
def OpW (op : Op) : Prop := WN op.valueNode = true

theorem opAdd_W {neg root op} (hr : WN root = true) (ho : OpW op) : OutW (opAdd neg root op) := by
  unfold opAdd
  split
  · exact liftWalk_W (withPath_W _ neg root _ _ hr fun con key hc => unitAct_W (conAdd_W hc ho))
  · trivial

theorem opRemove_W {neg root op} (hr : WN root = true) : OutW (opRemove neg root op) := by
  unfold opRemove
  split
  · exact liftWalk_W (withPath_W _ neg root _ _ hr fun con key hc => unitAct_W (conRemove_W hc))
  · trivial

theorem opReplace_W {neg root op} (hr : WN root = true) (ho : OpW op) : OutW (opReplace neg root op) := by
  unfold opReplace
  split
  · trivial
  · trivial
  · split
    · split
      · trivial
      · trivial
      · rename_i c hv
        have hc : WFC c = true := by
          have := ho
          simp only [OpW, Op.valueNode, hv, WN] at this
          exact this
        split
        · exact WN_decodeDoc _ hc
        · exact WN_decodeAry _ hc
        · trivial
    · refine liftWalk_W (Q := fun _ => True) (withPath_W _ neg root _ _ hr fun con key hc => ?_)
      cases hget : conGet neg con key with
      | panic => trivial
      | err e => trivial
      | ok x => exact unitAct_W (conSet_W hc ho)

theorem withPath_W' {α} (Q : α → Prop) {neg : Bool} {root : Node} {path : Bytes}
    {act : Node → Bytes → Outcome (Node × α)} {w : Walk α} (hp : withPath neg root path act = w)
    (hr : WN root = true)
    (hact : ∀ con key, WN con = true → ActW Q (act con key)) : WalkW Q w :=
  hp ▸ withPath_W Q neg root path act hr hact

theorem opMove_W {neg root op} (hr : WN root = true) : OutW (opMove neg root op) := by
  unfold opMove
  split
  · trivial
  · trivial
  · rename_i frm _
    simp only []
    generalize hp : withPath neg root frm _ = w
    have hw : WalkW (fun v : Node => WN v = true) w := by
      refine withPath_W' _ hp hr fun con key hc => ?_
      have hg := conGet_W (neg := neg) (key := key) hc
      cases hget : conGet neg con key with
      | panic => trivial
      | err e => trivial
      | ok x =>
        rw [hget] at hg
        have := conRemove_W (neg := neg) (key := key) hc
        cases hrm : conRemove neg con key with
        | ok c => rw [hrm] at this; exact ⟨this, hg⟩
        | err e => trivial
        | panic => trivial
    cases w with
    | panic => trivial
    | fail e => trivial
    | notFound => trivial
    | done root1 val =>
      simp only []
      split
      · trivial
      · trivial
      · exact liftWalk_W (withPath_W _ neg root1 _ _ hw.1 fun con key hc => unitAct_W (conAdd_W hc hw.2))

theorem equalTo_W {n ov} (h : WN n = true) : WN (equalTo n ov).2 = true := by
  unfold equalTo
  split
  · exact h
  · exact h
  · split
    · exact WN_deepParse n h
    · exact h

theorem opTest_W {neg root op} (hr : WN root = true) : OutW (opTest neg root op) := by
  unfold opTest
  split
  · trivial
  · trivial
  · split
    · have := equalTo_W (n := root) (ov := op.value) hr
      cases he : equalTo root op.value with
      | mk b root' =>
        rw [he] at this
        simp only []
        split
        · exact this
        · trivial
    · refine liftWalk_W (Q := fun _ => True) (withPath_W _ neg root _ _ hr fun con key hc => ?_)
      have hg := conGet_W (neg := neg) (key := key) hc
      cases hget : conGet neg con key with
      | panic => trivial
      | err e => trivial
      | ok x =>
        rw [hget] at hg
        cases x with
        | nil => simp only []; split <;> first | trivial | exact ⟨hc, trivial⟩
        | _ =>
          simp only []
          split
          · trivial
          · split
            · exact ⟨WN_putChild hc (equalTo_W hg), trivial⟩
            · trivial

theorem copySource_W {neg root frm} (hr : WN root = true) :
    WalkW (fun v : Node => WN v = true) (copySource neg root frm) := by
  unfold copySource
  refine withPath_W _ neg root _ _ hr fun con key hc => ?_
  have hg := conGet_W (neg := neg) (key := key) hc
  cases hget : conGet neg con key with
  | panic => trivial
  | err e => trivial
  | ok x => rw [hget] at hg; exact ⟨hc, hg⟩

def PrepW : Outcome (Node × Node × Nat) → Prop
  | .ok (c, cp, _) => WN c = true ∧ WN cp = true
  | _ => True

theorem copyPrepare_W {neg root op} (hr : WN root = true) : PrepW (copyPrepare neg root op) := by
  unfold copyPrepare
  split
  · trivial
  · trivial
  · rename_i frm _
    have h1 := copySource_W (neg := neg) (frm := frm) hr
    split
    · trivial
    · trivial
    · trivial
    · rename_i root1 v1 hd
      rw [hd] at h1
      split
      · rename_i path _
        have h2 : WalkW (fun _ : Unit => True)
            (withPath neg root1 path fun con _ => (.ok (con, ()) : Outcome (Node × Unit))) :=
          withPath_W _ neg root1 _ _ h1.1 fun con key hc => ⟨hc, trivial⟩
        split
        · trivial
        · trivial
        · trivial
        · rename_i root2 u hd2
          rw [hd2] at h2
          have h3 := copySource_W (neg := neg) (frm := frm) h2.1
          split
          · rename_i c val hd3
            rw [hd3] at h3
            simp only [PrepW]
            exact ⟨h2.1, WN_deepCopy val h3.2⟩
          · trivial
          · trivial
      · trivial

def StepW : Outcome (Node × Int) → Prop
  | .ok (c, _) => WN c = true
  | _ => True

theorem opCopy_W {neg limit root acc op} (hr : WN root = true) :
    StepW (opCopy neg limit root acc op) := by
  unfold opCopy
  have h1 := copyPrepare_W (neg := neg) (op := op) hr
  split
  · trivial
  · trivial
  · rename_i root2 cp sz hp
    rw [hp] at h1
    simp only []
    split
    · trivial
    · split
      · rename_i path _
        have := liftWalk_W (withPath_W _ neg root2 path
          (fun con key => unitAct (conAdd neg con key cp)) h1.1 fun con key hc => unitAct_W (conAdd_W hc h1.2))
        split
        · rename_i h; rw [h] at this; exact this
        · trivial
        · trivial
      · trivial

theorem lift_W {acc : Int} : ∀ {x : Outcome Node}, OutW x →
    StepW (match x with
      | .ok r' => .ok (r', acc)
      | .err e => .err e
      | .panic => .panic)
  | .ok _, h => h
  | .err _, _ => trivial
  | .panic, _ => trivial

theorem applyOp_W {neg limit root acc op} (hr : WN root = true) (ho : OpW op) :
    StepW (applyOp neg limit root acc op) := by
  unfold applyOp
  simp only []
  split
  · exact lift_W (opAdd_W hr ho)
  · split
    · exact lift_W (opRemove_W hr)
    · split
      · exact lift_W (opReplace_W hr ho)
      · split
        · exact lift_W (opMove_W hr)
        · split
          · exact lift_W (opTest_W hr)
          · split
            · exact opCopy_W hr
            · trivial

/-- **the engine keeps every raw message well formed** -/
theorem applyOps_WN (neg : Bool) (limit : Int) : ∀ (ops : List Op) (root : Node) (acc : Int),
    WN root = true → (∀ op ∈ ops, OpW op) → OutW (applyOps neg limit root acc ops)
  | [], root, acc, hr, _ => hr
  | op :: ops, root, acc, hr, ho => by
    simp only [applyOps]
    have h := applyOp_W (neg := neg) (limit := limit) (acc := acc) (op := op) hr (ho op List.mem_cons_self)
    cases hs : applyOp neg limit root acc op with
    | ok ra =>
      obtain ⟨r', a'⟩ := ra
      rw [hs] at h
      exact applyOps_WN neg limit ops r' a' h (fun o hm => ho o (List.mem_cons_of_mem _ hm))
    | err e => trivial
    | panic => trivial

/-! ### the root of a well-formed document, the values of a decoded patch -/

theorem decodeRoot_W (doc : Bytes) : OutW (decodeRoot doc) := by
  unfold decodeRoot
  cases hp : parseCst doc with
  | none => trivial
  | some c =>
    have hw := (Impl.GC_of_parse doc c hp).1
    simp only []
    split
    · split
      · exact WN_decodeAry _ hw
      · trivial
    · split
      · exact WN_decodeDoc _ hw
      · split
        · exact WN_docNil
        · trivial

theorem WFC_of_lookupLastC (k : Bytes) (c : Cst) : ∀ (ms : List (Bytes × Cst)), WFCM ms = true →
    lookupLastC k ms = some c → WFC c = true
  | [], _, h => by simp [lookupLastC] at h
  | (k', v) :: ms, hw, h => by
    simp only [WFCM, Bool.and_eq_true] at hw
    simp only [lookupLastC] at h
    cases hl : lookupLastC k ms with
    | some c' =>
      rw [hl] at h
      simp only [Option.some.injEq] at h
      subst h
      exact WFC_of_lookupLastC k c' ms hw.2 hl
    | none =>
      rw [hl] at h
      simp only at h
      split at h
      · simp only [Option.some.injEq] at h; subst h; exact hw.1.2
      · cases h

theorem OpW_decodeOp (ms : List (Bytes × Cst)) (h : WFCM ms = true) : OpW (decodeOp ms) := by
  simp only [OpW, Op.valueNode, decodeOp, opValue, member]
  cases hl : lookupLastC (ascii "value") ms with
  | none => rfl
  | some c =>
    simp only []
    cases hn : c.isNullLit with
    | true => rfl
    | false =>
      simp only [Bool.false_eq_true, if_false, WN]
      exact WFC_of_lookupLastC _ c ms h hl

theorem OpW_decodeOps : ∀ (cs : List Cst) (ops : List Op), WFCL cs = true → decodeOps cs = some ops →
    ∀ op ∈ ops, OpW op
  | [], ops, _, h => by
    simp only [decodeOps, Option.some.injEq] at h
    subst h; intro op hop; cases hop
  | c :: cs, ops, hw, h => by
    simp only [WFCL, Bool.and_eq_true] at hw
    have step : ∀ (o : Op), OpW o → (decodeOps cs).map (o :: ·) = some ops → ∀ op ∈ ops, OpW op := by
      intro o ho hm
      cases hd : decodeOps cs with
      | none => rw [hd] at hm; cases hm
      | some ops' =>
        rw [hd] at hm
        simp only [Option.map_some, Option.some.injEq] at hm
        subst hm
        intro op hop
        rcases List.mem_cons.1 hop with rfl | hop
        · exact ho
        · exact OpW_decodeOps cs ops' hw.2 hd op hop
    cases c with
    | obj ms =>
      simp only [decodeOps] at h
      exact step _ (OpW_decodeOp ms (by simpa only [WFC] using hw.1)) h
    | lit s =>
      simp only [decodeOps] at h
      split at h
      · exact step _ (OpW_decodeOp [] rfl) h
      · cases h
    | str b => simp [decodeOps] at h
    | arr xs => simp [decodeOps] at h

theorem OpW_decodePatch (patch : Bytes) (ops : List Op) (h : decodePatch patch = .ok ops) :
    ∀ op ∈ ops, OpW op := by
  unfold decodePatch at h
  cases hp : parseCst patch with
  | none => rw [hp] at h; cases h
  | some c =>
    have hw := (Impl.GC_of_parse patch c hp).1
    rw [hp] at h
    cases c with
    | arr xs =>
      simp only at h
      cases hd : decodeOps xs with
      | none => rw [hd] at h; cases h
      | some ops' =>
        rw [hd] at h
        simp only [Outcome.ok.injEq] at h
        subst h
        exact OpW_decodeOps xs ops' (by simpa only [WFC] using hw) hd
    | lit s =>
      simp only at h
      split at h
      · simp only [Outcome.ok.injEq] at h; subst h; intro op hop; cases hop
      · cases h
    | str b => simp [Cst.isNullLit] at h
    | obj ms => simp [Cst.isNullLit] at h

/-- **a successful legacy `Apply` (no indent, non-empty document) prints a well-formed tree** -/
theorem applyBytes_tree (neg : Bool) (limit : Int) (doc : Bytes) (ops : List Op) (out : Bytes)
    (hne : doc ≠ []) (hops : ∀ op ∈ ops, OpW op)
    (h : applyBytes neg limit [] doc ops = .ok out) :
    ∃ t : Cst, out = Cst.print t ∧ WFC t = true := by
  unfold applyBytes at h
  simp only [hne, if_false] at h
  have h1 := decodeRoot_W doc
  cases hd : decodeRoot doc with
  | panic => rw [hd] at h; cases h
  | err e => rw [hd] at h; cases h
  | ok root =>
    rw [hd] at h h1
    simp only [] at h
    have h2 := applyOps_WN neg limit ops root 0 h1 hops
    cases ha : applyOps neg limit root 0 ops with
    | panic => rw [ha] at h; cases h
    | err e => rw [ha] at h; cases h
    | ok r =>
      rw [ha] at h h2
      simp only [if_true, Outcome.ok.injEq] at h
      exact ⟨cstOf r, h.symm, WFC_cstOf r h2⟩

end Legacy
end JP
