import JP.Lemmas.FloatDecimal

/-!
# Printing an integer float: pieces (`FP.ofNat` is injective, exact candidates, the decimal point)
-/

namespace JP
namespace Codec
namespace Float

open JP.Codec.Typed (decimal)

/-! ## `FP.ofNat` -/

theorem ofNat_bounds (bits n : Nat) (h0 : n ≠ 0) (hn : n < 2 ^ (mantBits bits + 1)) :
    Nat.log2 n ≤ mantBits bits ∧ 2 ^ mantBits bits ≤ n * 2 ^ (mantBits bits - Nat.log2 n) ∧
      n * 2 ^ (mantBits bits - Nat.log2 n) < 2 ^ (mantBits bits + 1) := by
  have hl1 : 2 ^ Nat.log2 n ≤ n := Nat.log2_self_le h0
  have hl2 : n < 2 ^ (Nat.log2 n + 1) := Nat.lt_log2_self
  have hlm : Nat.log2 n ≤ mantBits bits := by
    have : 2 ^ Nat.log2 n < 2 ^ (mantBits bits + 1) := Nat.lt_of_le_of_lt hl1 hn
    have := (Nat.pow_lt_pow_iff_right (a := 2) (by omega)).1 this
    omega
  refine ⟨hlm, ?_, ?_⟩
  · calc 2 ^ mantBits bits = 2 ^ Nat.log2 n * 2 ^ (mantBits bits - Nat.log2 n) := by
          rw [← Nat.pow_add]; congr 1; omega
      _ ≤ n * 2 ^ (mantBits bits - Nat.log2 n) := Nat.mul_le_mul_right _ hl1
  · calc n * 2 ^ (mantBits bits - Nat.log2 n)
          < 2 ^ (Nat.log2 n + 1) * 2 ^ (mantBits bits - Nat.log2 n) :=
            Nat.mul_lt_mul_of_pos_right hl2 (Nat.pos_of_ne_zero (by simp))
      _ = 2 ^ (mantBits bits + 1) := by rw [← Nat.pow_add]; congr 1; omega

theorem ofNat_exp (bits n : Nat) (h0 : n ≠ 0) : (FP.ofNat bits n).exp = bias bits + Nat.log2 n := by
  simp [FP.ofNat, h0]

theorem ofNat_mant (bits n : Nat) (h0 : n ≠ 0) :
    (FP.ofNat bits n).mant = n * 2 ^ (mantBits bits - Nat.log2 n) - 2 ^ mantBits bits := by
  simp [FP.ofNat, h0]

theorem ofNat_inj (bits a b : Nat) (ha0 : a ≠ 0) (hb0 : b ≠ 0)
    (ha : a < 2 ^ (mantBits bits + 1)) (hb : b < 2 ^ (mantBits bits + 1))
    (he : (FP.ofNat bits a).exp = (FP.ofNat bits b).exp)
    (hm : (FP.ofNat bits a).mant = (FP.ofNat bits b).mant) : a = b := by
  rw [ofNat_exp bits a ha0, ofNat_exp bits b hb0] at he
  rw [ofNat_mant bits a ha0, ofNat_mant bits b hb0] at hm
  have hl : Nat.log2 a = Nat.log2 b := by omega
  obtain ⟨_, ha1, _⟩ := ofNat_bounds bits a ha0 ha
  obtain ⟨_, hb1, _⟩ := ofNat_bounds bits b hb0 hb
  rw [hl] at hm ha1
  have : a * 2 ^ (mantBits bits - Nat.log2 b) = b * 2 ^ (mantBits bits - Nat.log2 b) := by omega
  exact Nat.eq_of_mul_eq_mul_right (Nat.pos_of_ne_zero (by simp)) this

/-! ## an integer candidate `c · 10^e` is read exactly -/

theorem roundDec_int (bits c e : Nat) (h : c * 10 ^ e < 2 ^ (mantBits bits + 1)) (he : e ≤ 300) :
    roundDec bits c (e : Int) =
      ((FP.ofNat bits (c * 10 ^ e)).exp, (FP.ofNat bits (c * 10 ^ e)).mant, false) := by
  by_cases hc : c = 0
  · subst hc; simp [roundDec, FP.ofNat]
  · have hpos : 0 < 10 ^ e := Nat.pos_of_ne_zero (by simp)
    have hle : c ≤ c * 10 ^ e := Nat.le_mul_of_pos_right c hpos
    have hlen : numDigits c ≤ 17 :=
      decimal_length_le c 16 (Nat.lt_of_le_of_lt hle (Nat.lt_of_lt_of_le h (pow_mant_le bits)))
    have hne : c * 10 ^ e ≠ 0 := by
      have : 0 < c * 10 ^ e := Nat.mul_pos (by omega) hpos
      omega
    unfold roundDec
    rw [if_neg hc]
    simp only
    rw [if_neg (by omega), if_neg (by omega), if_pos (by omega)]
    simp only [Int.toNat_natCast]
    rw [roundRat_nat bits (c * 10 ^ e) hne h, ofNat_exp bits _ hne, ofNat_mant bits _ hne]

theorem roundsTo_ofNat (bits n c e : Nat) (hn0 : n ≠ 0) (hn : n < 2 ^ (mantBits bits + 1))
    (h : c * 10 ^ e < 2 ^ (mantBits bits + 1)) (he : e ≤ 300) :
    roundsTo bits (FP.ofNat bits n) c (e : Int) = decide (c * 10 ^ e = n) := by
  unfold roundsTo
  simp only [roundDec_int bits c e h he, Bool.not_false, Bool.and_true]
  by_cases hmn : c * 10 ^ e = n
  · subst hmn; simp
  · simp only [hmn, decide_false, Bool.and_eq_false_iff, decide_eq_false_iff_not]
    by_cases hm0 : c * 10 ^ e = 0
    · left
      rw [hm0, ofNat_exp bits n hn0]
      have hb : bias bits ≠ 0 := by unfold bias; split <;> omega
      simp [FP.ofNat]; omega
    · by_cases hexp : (FP.ofNat bits (c * 10 ^ e)).exp = (FP.ofNat bits n).exp
      · right
        intro hmant
        exact hmn (ofNat_inj bits _ n hm0 hn0 h hn hexp hmant)
      · left; exact hexp

/-! ## the decimal point -/

/-- `10^k ≤ n`, for negative `k` true -/
def geNat (n : Nat) (k : Int) : Bool := if k ≥ 0 then decide (10 ^ k.toNat ≤ n) else true

theorem geP10_mul (n D : Nat) (hD : 0 < D) (hn : 0 < n) (k : Int) : geP10 (n * D) D k = geNat n k := by
  unfold geP10 geNat
  by_cases hk : k ≥ 0
  · simp only [hk, if_true]
    congr 1
    rw [Nat.mul_comm D, Nat.mul_le_mul_right_iff hD]
  · simp only [hk, if_false, decide_eq_true_eq]
    have hp : 0 < 10 ^ (-k).toNat := Nat.pos_of_ne_zero (by simp)
    calc D ≤ n * D := Nat.le_mul_of_pos_left D hn
      _ ≤ n * D * 10 ^ (-k).toNat := Nat.le_mul_of_pos_right _ hp

theorem fixUp_spec (N D : Nat) (K : Int) (hlt : ∀ j, j < K → geP10 N D j = true)
    (hK : geP10 N D K = false) : ∀ (fuel : Nat) (k0 : Int), k0 ≤ K → K - k0 ≤ fuel →
      fixUp fuel N D k0 = K := by
  intro fuel
  induction fuel with
  | zero => intro k0 h1 h2; simp only [fixUp]; omega
  | succ f ih =>
    intro k0 h1 h2
    simp only [fixUp]
    by_cases hk : k0 = K
    · subst hk; simp [hK]
    · rw [hlt k0 (by omega)]
      simp only [if_true]
      exact ih (k0 + 1) (by omega) (by omega)

theorem fixUp_stay (N D : Nat) (k0 : Int) (h : geP10 N D k0 = false) (fuel : Nat) :
    fixUp fuel N D k0 = k0 := by
  cases fuel <;> simp [fixUp, h]

theorem fixDown_spec (N D : Nat) (K : Int) (hK1 : geP10 N D (K - 1) = true)
    (hge : ∀ j, K ≤ j → geP10 N D j = false) : ∀ (fuel : Nat) (c : Int), K ≤ c → c - K ≤ fuel →
      fixDown fuel N D c = K := by
  intro fuel
  induction fuel with
  | zero => intro c h1 h2; simp only [fixDown]; omega
  | succ f ih =>
    intro c h1 h2
    simp only [fixDown]
    by_cases hk : c = K
    · subst hk; simp [hK1]
    · rw [hge (c - 1) (by omega)]
      simp only [Bool.false_eq_true, if_false]
      exact ih (c - 1) (by omega) (by omega)

theorem fix_spec (N D : Nat) (K k0 : Int) (hlt : ∀ j, j < K → geP10 N D j = true)
    (hge : ∀ j, K ≤ j → geP10 N D j = false) (h1 : k0 ≤ K + 4) (h2 : K ≤ k0 + 4) :
    fixDown 4 N D (fixUp 4 N D k0) = K := by
  by_cases hle : k0 ≤ K
  · rw [fixUp_spec N D K hlt (hge K (by omega)) 4 k0 hle (by omega)]
    exact fixDown_spec N D K (hlt (K - 1) (by omega)) hge 4 K (by omega) (by omega)
  · rw [fixUp_stay N D k0 (hge k0 (by omega))]
    exact fixDown_spec N D K (hlt (K - 1) (by omega)) hge 4 k0 (by omega) (by omega)

/-- the estimate `l · 1233 / 4096 + 1` of the number of decimal digits of a number with `l + 1` bits -/
theorem estimate_table : ∀ l : Fin 54,
    2 ^ (l.val + 1) ≤ 10 ^ (l.val * 1233 / 4096 + 2) ∧ 10 ^ (l.val * 1233 / 4096) ≤ 2 ^ l.val * 10 := by
  decide +kernel

theorem pow10_lt_iff (a b : Nat) : 10 ^ a < 10 ^ b ↔ a < b :=
  Nat.pow_lt_pow_iff_right (by omega)

end Float
end Codec
end JP
