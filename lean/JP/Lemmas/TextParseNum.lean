import JP.Lemmas.TextWFC

namespace JP

def numSign : Bytes → Bytes × Bytes
  | 45 :: r => ([45], r)
  | r => ([], r)

def numInt : Bytes → Option (Bytes × Bytes)
  | 48 :: r => some ([48], r)
  | c :: r => if isDigit c then let (d, r') := takeDigits r; some (c :: d, r') else none
  | [] => none

def numFrac : Bytes → Option (Bytes × Bytes)
  | 46 :: r => let (d, r') := takeDigits r; if d.isEmpty then none else some (46 :: d, r')
  | r => some ([], r)

def numExpSign : Bytes → Bytes × Bytes
  | 43 :: r' => ([43], r')
  | 45 :: r' => ([45], r')
  | r' => ([], r')

def numExp : Bytes → Option (Bytes × Bytes)
  | e :: r =>
    if e = 101 ∨ e = 69 then
      let (sg, r') : Bytes × Bytes := numExpSign r
      let (d, r'') := takeDigits r'
      if d.isEmpty then none else some (e :: sg ++ d, r'')
    else some ([], e :: r)
  | [] => some ([], [])

theorem parseNumber_eq (bs : Bytes) : parseNumber bs =
    match numInt (numSign bs).2 with
    | none => none
    | some (ip, r1) =>
      match numFrac r1 with
      | none => none
      | some (fp, r2) =>
        match numExp r2 with
        | none => none
        | some (ep, r3) => some ((numSign bs).1 ++ ip ++ fp ++ ep, r3) := by
  rfl

/-- the continuation cannot extend a complete number -/
def numStop : Bytes → Prop
  | [] => True
  | c :: _ => isDigit c = false ∧ c ≠ 46 ∧ c ≠ 101 ∧ c ≠ 69

theorem takeDigits_stop (rest : Bytes) (h : numStop rest) : takeDigits rest = ([], rest) := by
  cases rest with
  | nil => rfl
  | cons c cs => simp only [numStop] at h; simp [takeDigits, h.1]

theorem takeDigits_append : ∀ (x rest d r : Bytes), takeDigits x = (d, r) →
    (r ≠ [] ∨ numStop rest) → takeDigits (x ++ rest) = (d, r ++ rest)
  | [], rest, d, r, h, hs => by
    simp only [takeDigits, Prod.mk.injEq] at h
    obtain ⟨rfl, rfl⟩ := h
    cases hs with
    | inl h => exact absurd rfl h
    | inr h => simpa using takeDigits_stop rest h
  | c :: cs, rest, d, r, h, hs => by
    simp only [takeDigits] at h
    by_cases hc : isDigit c = true
    · simp only [hc, if_true] at h
      cases h' : takeDigits cs with
      | mk d' r' =>
        rw [h'] at h
        simp only [Prod.mk.injEq] at h
        obtain ⟨rfl, rfl⟩ := h
        have ih := takeDigits_append cs rest d' r' h' hs
        simp only [List.cons_append, takeDigits, hc, if_true, ih]
    · simp only [hc] at h
      simp only [Bool.false_eq_true, if_false, Prod.mk.injEq] at h
      obtain ⟨rfl, rfl⟩ := h
      simp [takeDigits, hc]

theorem numInt_append (x rest p r : Bytes) (h : numInt x = some (p, r))
    (hs : r ≠ [] ∨ numStop rest) : numInt (x ++ rest) = some (p, r ++ rest) := by
  unfold numInt at h
  split at h
  · simp only [Option.some.injEq, Prod.mk.injEq] at h
    obtain ⟨rfl, rfl⟩ := h
    simp [numInt]
  · rename_i c r' hne
    split at h
    · rename_i hc
      cases h' : takeDigits r' with
      | mk d' r'' =>
        rw [h'] at h
        simp only [Option.some.injEq, Prod.mk.injEq] at h
        obtain ⟨rfl, rfl⟩ := h
        have ih := takeDigits_append r' rest d' r'' h' hs
        simp only [List.cons_append]
        unfold numInt
        split
        · rename_i heq
          simp only [List.cons.injEq] at heq
          exact absurd heq.1 hne
        · rename_i heq
          simp only [List.cons.injEq] at heq
          obtain ⟨rfl, rfl⟩ := heq
          simp [hc, ih]
        · rename_i heq; simp at heq
    · simp at h
  · simp at h

theorem numFrac_stop (rest : Bytes) (h : numStop rest) : numFrac rest = some ([], rest) := by
  unfold numFrac
  split
  · simp [numStop] at h
  · rfl

theorem numFrac_append (x rest p r : Bytes) (h : numFrac x = some (p, r))
    (hs : r ≠ [] ∨ numStop rest) : numFrac (x ++ rest) = some (p, r ++ rest) := by
  unfold numFrac at h
  split at h
  · rename_i t
    cases h' : takeDigits t with
    | mk d r' =>
      rw [h'] at h
      simp only at h
      split at h
      · simp at h
      · rename_i hd
        simp only [Option.some.injEq, Prod.mk.injEq] at h
        obtain ⟨rfl, rfl⟩ := h
        have ih := takeDigits_append t rest d r' h' hs
        simp [numFrac, ih, hd]
  · rename_i hne
    simp only [Option.some.injEq, Prod.mk.injEq] at h
    obtain ⟨rfl, rfl⟩ := h
    cases x with
    | nil =>
      cases hs with
      | inl h => exact absurd rfl h
      | inr h => simpa using numFrac_stop rest h
    | cons c t =>
      simp only [List.cons_append]
      unfold numFrac
      split
      · rename_i heq
        simp only [List.cons.injEq] at heq
        exact (hne t (by rw [heq.1])).elim
      · rfl

theorem numExpSign_append (c : UInt8) (t rest : Bytes) :
    numExpSign (c :: t ++ rest) = ((numExpSign (c :: t)).1, (numExpSign (c :: t)).2 ++ rest) := by
  by_cases h1 : c = 43
  · subst h1; rfl
  · by_cases h2 : c = 45
    · subst h2; rfl
    · have e1 : ∀ u, numExpSign (c :: u) = ([], c :: u) := by
        intro u
        unfold numExpSign
        split
        · rename_i heq; simp only [List.cons.injEq] at heq; exact absurd heq.1 h1
        · rename_i heq; simp only [List.cons.injEq] at heq; exact absurd heq.1 h2
        · rfl
      rw [List.cons_append, e1, e1]
      rfl

theorem numExp_stop (rest : Bytes) (h : numStop rest) : numExp rest = some ([], rest) := by
  cases rest with
  | nil => rfl
  | cons c cs =>
    simp only [numStop] at h
    simp [numExp, h.2.2.1, h.2.2.2]

theorem numExp_append (x rest p r : Bytes) (h : numExp x = some (p, r))
    (hs : r ≠ [] ∨ numStop rest) : numExp (x ++ rest) = some (p, r ++ rest) := by
  cases x with
  | nil =>
    simp only [numExp, Option.some.injEq, Prod.mk.injEq] at h
    obtain ⟨rfl, rfl⟩ := h
    cases hs with
    | inl h => exact absurd rfl h
    | inr h => simpa using numExp_stop rest h
  | cons e t =>
    simp only [numExp] at h
    by_cases he : e = 101 ∨ e = 69
    · simp only [he, if_true] at h
      cases t with
      | nil => simp [numExpSign, takeDigits] at h
      | cons c t' =>
        have hsg := numExpSign_append c t' rest
        cases h1 : numExpSign (c :: t') with
        | mk sg r' =>
          rw [h1] at h hsg
          simp only at h hsg
          cases h2 : takeDigits r' with
          | mk d r'' =>
            rw [h2] at h
            simp only at h
            split at h
            · simp at h
            · rename_i hd
              simp only [Option.some.injEq, Prod.mk.injEq] at h
              obtain ⟨rfl, rfl⟩ := h
              have ih := takeDigits_append r' rest d r'' h2 hs
              simp only [List.cons_append] at hsg ⊢
              simp [numExp, he, hsg, ih, hd]
    · simp only [he, if_false, Option.some.injEq, Prod.mk.injEq] at h
      obtain ⟨rfl, rfl⟩ := h
      simp [numExp, he]

theorem numSign_append (c : UInt8) (t rest : Bytes) :
    numSign (c :: t ++ rest) = ((numSign (c :: t)).1, (numSign (c :: t)).2 ++ rest) := by
  by_cases h2 : c = 45
  · subst h2; rfl
  · have e1 : ∀ u, numSign (c :: u) = ([], c :: u) := by
      intro u
      unfold numSign
      split
      · rename_i heq; simp only [List.cons.injEq] at heq; exact absurd heq.1 h2
      · rfl
    rw [List.cons_append, e1, e1]
    rfl

theorem numExp_nil_stop (rest ep r3 : Bytes) (h : numExp [] = some (ep, r3))
    (hs : r3 ≠ [] ∨ numStop rest) : ([] : Bytes) ≠ [] ∨ numStop rest := by
  simp only [numExp, Option.some.injEq, Prod.mk.injEq] at h
  obtain ⟨rfl, rfl⟩ := h
  exact hs

theorem numFrac_nil_stop (rest ep r3 : Bytes) (h : numFrac [] = some (ep, r3))
    (hs : r3 ≠ [] ∨ numStop rest) : ([] : Bytes) ≠ [] ∨ numStop rest := by
  have : numFrac [] = some ([], []) := rfl
  rw [this] at h
  simp only [Option.some.injEq, Prod.mk.injEq] at h
  obtain ⟨rfl, rfl⟩ := h
  exact hs

/-- appending a continuation to the input of a successful `parseNumber` does not change the
result provided the parse stopped before the end of the input or the continuation cannot
extend a number -/
theorem parseNumber_append (x rest l r : Bytes) (h : parseNumber x = some (l, r))
    (hs : r ≠ [] ∨ numStop rest) : parseNumber (x ++ rest) = some (l, r ++ rest) := by
  rw [parseNumber_eq] at h ⊢
  cases x with
  | nil => simp [numSign, numInt] at h
  | cons c t =>
    rw [numSign_append]
    cases hsg : numSign (c :: t) with
    | mk sg r0 =>
      rw [hsg] at h
      simp only at h ⊢
      cases h1 : numInt r0 with
      | none => rw [h1] at h; simp at h
      | some q1 =>
        obtain ⟨ip, r1⟩ := q1
        rw [h1] at h
        simp only at h
        cases h2 : numFrac r1 with
        | none => rw [h2] at h; simp at h
        | some q2 =>
          obtain ⟨fp, r2⟩ := q2
          rw [h2] at h
          simp only at h
          cases h3 : numExp r2 with
          | none => rw [h3] at h; simp at h
          | some q3 =>
            obtain ⟨ep, r3⟩ := q3
            rw [h3] at h
            simp only [Option.some.injEq, Prod.mk.injEq] at h
            obtain ⟨rfl, rfl⟩ := h
            have hs2 : r2 ≠ [] ∨ numStop rest := by
              cases r2 with
              | nil => exact numExp_nil_stop rest ep r3 h3 hs
              | cons _ _ => exact Or.inl (by simp)
            have hs1 : r1 ≠ [] ∨ numStop rest := by
              cases r1 with
              | nil => exact numFrac_nil_stop rest fp r2 h2 hs2
              | cons _ _ => exact Or.inl (by simp)
            rw [numInt_append r0 rest ip r1 h1 hs1]
            simp only
            rw [numFrac_append r1 rest fp r2 h2 hs2]
            simp only
            rw [numExp_append r2 rest ep r3 h3 hs]

/-- a complete number literal followed by a non-extending continuation -/
theorem parseNumber_complete (l rest : Bytes) (h : parseNumber l = some (l, []))
    (hs : numStop rest) : parseNumber (l ++ rest) = some (l, rest) := by
  simpa using parseNumber_append l rest l [] h (Or.inr hs)

/-- a number starts with `-` or a digit -/
theorem parseNumber_head (x l r : Bytes) (h : parseNumber x = some (l, r)) :
    ∃ c t, x = c :: t ∧ (c = 45 ∨ isDigit c = true) := by
  cases x with
  | nil => rw [parseNumber_eq] at h; simp [numSign, numInt] at h
  | cons c t =>
    refine ⟨c, t, rfl, ?_⟩
    by_cases h2 : c = 45
    · exact Or.inl h2
    · right
      have e1 : numSign (c :: t) = ([], c :: t) := by
        unfold numSign
        split
        · rename_i heq; simp only [List.cons.injEq] at heq; exact absurd heq.1 h2
        · rfl
      rw [parseNumber_eq, e1] at h
      simp only at h
      by_cases h0 : c = 48
      · subst h0; decide
      · have e2 : numInt (c :: t) = if isDigit c then
            (let (d, r') := takeDigits t; some (c :: d, r')) else none := by
          conv => lhs; unfold numInt
          split
          · rename_i heq; simp only [List.cons.injEq] at heq; exact absurd heq.1 h0
          · rename_i heq; simp only [List.cons.injEq] at heq
            obtain ⟨rfl, rfl⟩ := heq; rfl
          · rename_i heq; simp at heq
        rw [e2] at h
        by_cases hd : isDigit c = true
        · exact hd
        · simp [hd] at h

end JP
