import JP.Lemmas.FloatRound
import JP.Lemmas.FloatDecimal

/-!
# The two shortcuts of `roundDec` agree with the arithmetic

`roundDec` answers without arithmetic when the decimal exponent is astronomic.  Here: the arithmetic
(`roundRat` on the exact fraction) would have given the same answer, so `roundDec` IS `roundRat` on the exact
fraction for every decimal.
-/

namespace JP
namespace Codec
namespace Float

open JP.Codec.Typed (decimal)

theorem pow_1328 : 2 ^ 1328 ≤ 10 ^ 400 := by decide +kernel
theorem pow_1200 : 2 ^ 1200 ≤ 10 ^ 401 := by decide +kernel

theorem pickQ_ge_q0 (bits N D : Nat) :
    (Nat.log2 N : Int) - (Nat.log2 D : Int) - (mantBits bits : Int) - 1 ≤ pickQ bits N D := by
  unfold pickQ
  simp only
  split
  · omega
  · split
    · split <;> omega
    · omega

theorem fmt_consts (bits : Nat) :
    mantBits bits ≤ 52 ∧ 1 ≤ mantBits bits ∧ bias bits ≤ 1023 ∧ 2 ≤ bias bits ∧
      expMax bits ≤ bias bits + 1100 ∧ bias bits + mantBits bits ≤ 1075 ∧ 2 ≤ expMax bits := by
  unfold mantBits bias expMax expBits
  by_cases hb : bits = 32 <;> simp [hb]

/-- a quotient of at least `2^1328` overflows -/
theorem roundRat_huge (bits N D : Nat) (hD : 0 < D) (h : 2 ^ 1328 * D ≤ N) :
    roundRat bits N D = (expMax bits, 0, true) := by
  have hN : 0 < N := Nat.lt_of_lt_of_le (Nat.mul_pos (two_pow_pos _) hD) h
  have hN0 : N ≠ 0 := by omega
  have hD0 : D ≠ 0 := by omega
  obtain ⟨c1, c2, c3, c4, c5, c6, c7⟩ := fmt_consts bits
  -- log2 N ≥ log2 D + 1328
  have hlog : Nat.log2 D + 1328 ≤ Nat.log2 N := by
    apply (Nat.le_log2 hN0).2
    calc 2 ^ (Nat.log2 D + 1328) = 2 ^ 1328 * 2 ^ Nat.log2 D := by rw [Nat.pow_add, Nat.mul_comm]
      _ ≤ 2 ^ 1328 * D := Nat.mul_le_mul_left _ (Nat.log2_self_le hD0)
      _ ≤ N := h
  have hq := pickQ_ge_q0 bits N D
  obtain ⟨hU, hL⟩ := pickQ_spec bits N D hN hD
  have hge := pickQ_ge bits N D
  have hb := scaled_snd_pos N D hD (pickQ bits N D)
  obtain ⟨_, _, _, n4⟩ :=
    nearestEven_spec (scaled N D (pickQ bits N D)).1 (scaled N D (pickQ bits N D)).2 hb
  rw [roundRat_eq]
  generalize nearestEven (scaled N D (pickQ bits N D)).1 (scaled N D (pickQ bits N D)).2 = S at *
  generalize (scaled N D (pickQ bits N D)).1 / (scaled N D (pickQ bits N D)).2 = Q at *
  have hS : S ≤ 2 ^ (mantBits bits + 1) := by rcases n4 with h | h <;> omega
  have hn : 2 ^ mantBits bits ≤ S ∨ pickQ bits N D = 1 - ((bias bits + mantBits bits : Nat) : Int) := by
    rcases hL with h | h
    · left; rcases n4 with h' | h' <;> omega
    · right; exact h
  rcases encodeSig_spec bits S (pickQ bits N D) hS hge hn with ⟨_, h2, _, _⟩ | ⟨_, _, h3, h4, _⟩
  · exact h2
  · exfalso
    generalize (encodeSig bits S (pickQ bits N D)).1 = e' at h3 h4
    simp only [FP.qexp] at h4
    split at h4 <;> omega

/-- a quotient below `2^-1200` is zero -/
theorem roundRat_tiny (bits N D : Nat) (hN : 0 < N) (h : N * 2 ^ 1200 < D) :
    roundRat bits N D = (0, 0, false) := by
  have hN0 : N ≠ 0 := by omega
  have hD : 0 < D := by omega
  have hD0 : D ≠ 0 := by omega
  obtain ⟨c1, c2, c3, c4, c5, c6, c7⟩ := fmt_consts bits
  have hlog : Nat.log2 N + 1200 ≤ Nat.log2 D := by
    apply (Nat.le_log2 hD0).2
    calc 2 ^ (Nat.log2 N + 1200) = 2 ^ Nat.log2 N * 2 ^ 1200 := Nat.pow_add _ _ _
      _ ≤ N * 2 ^ 1200 := Nat.mul_le_mul_right _ (Nat.log2_self_le hN0)
      _ ≤ D := Nat.le_of_lt h
  have hpick : pickQ bits N D = 1 - ((bias bits + mantBits bits : Nat) : Int) := by
    unfold pickQ
    simp only
    rw [if_pos (by omega)]
  have hk : (-(1 - ((bias bits + mantBits bits : Nat) : Int))).toNat = bias bits + mantBits bits - 1 := by omega
  have hsc : scaled N D (1 - ((bias bits + mantBits bits : Nat) : Int))
      = (N * 2 ^ (bias bits + mantBits bits - 1), D) := by
    unfold scaled
    rw [if_neg (by omega), hk]
  -- 2 · a < D
  have hsmall : 2 * (N * 2 ^ (bias bits + mantBits bits - 1)) < D := by
    have e : 2 * (N * 2 ^ (bias bits + mantBits bits - 1)) = N * 2 ^ (bias bits + mantBits bits) := by
      have : bias bits + mantBits bits = (bias bits + mantBits bits - 1) + 1 := by omega
      conv => rhs; rw [this, Nat.pow_succ]
      simp only [Nat.mul_comm, Nat.mul_left_comm]
    rw [e]
    calc N * 2 ^ (bias bits + mantBits bits) ≤ N * 2 ^ 1200 :=
          Nat.mul_le_mul_left _ (Nat.pow_le_pow_right (by omega) (by omega))
      _ < D := h
  rw [roundRat_eq, hpick, hsc]
  simp only
  generalize N * 2 ^ (bias bits + mantBits bits - 1) = a at hsmall
  have hlt : a < D := by omega
  have hne : nearestEven a D = 0 := by
    unfold nearestEven
    rw [Nat.mod_eq_of_lt hlt, Nat.div_eq_of_lt hlt]
    have h1 : ¬ (D < 2 * a) := by omega
    have h2 : ¬ (2 * a = D) := by omega
    simp [h1, h2]
  rw [hne]
  unfold encodeSig
  have hz : ¬ ((0 : Nat) = 2 ^ (mantBits bits + 1)) := by
    have := two_pow_pos (mantBits bits + 1); omega
  simp only [hz, if_false]
  rw [if_pos (two_pow_pos _)]

/-- `roundDec` is `roundRat` on the exact fraction — for EVERY decimal `c · 10^e`, `c ≠ 0` -/
theorem roundDec_eq_roundRat (bits c : Nat) (e : Int) (hc : c ≠ 0) :
    roundDec bits c e =
      if e ≥ 0 then roundRat bits (c * 10 ^ e.toNat) 1 else roundRat bits c (10 ^ (-e).toNat) := by
  have hb1 : 10 ^ (numDigits c - 1) ≤ c := (decimal_len_bounds c (by omega)).1
  have hb2 : c < 10 ^ numDigits c := (decimal_len_bounds c (by omega)).2
  have hlp : 0 < numDigits c := decimal_length_pos c
  have hp10 : ∀ k : Nat, 0 < 10 ^ k := fun k => Nat.pos_of_ne_zero (by simp)
  unfold roundDec
  rw [if_neg hc]
  simp only
  by_cases h1 : e + ((numDigits c : Nat) : Int) > 400
  · rw [if_pos h1]
    by_cases he : e ≥ 0
    · rw [if_pos he]
      symm
      apply roundRat_huge bits _ 1 (by omega)
      -- 2^1328 ≤ 10^400 ≤ 10^(nd-1) * 10^e ≤ c * 10^e
      have hexp : 400 ≤ (numDigits c - 1) + e.toNat := by omega
      calc 2 ^ 1328 * 1 ≤ 10 ^ 400 := by rw [Nat.mul_one]; exact pow_1328
        _ ≤ 10 ^ ((numDigits c - 1) + e.toNat) := Nat.pow_le_pow_right (by omega) hexp
        _ = 10 ^ (numDigits c - 1) * 10 ^ e.toNat := Nat.pow_add _ _ _
        _ ≤ c * 10 ^ e.toNat := Nat.mul_le_mul_right _ hb1
    · rw [if_neg he]
      symm
      apply roundRat_huge bits _ _ (hp10 _)
      have hexp : 400 + (-e).toNat ≤ numDigits c - 1 := by omega
      calc 2 ^ 1328 * 10 ^ (-e).toNat ≤ 10 ^ 400 * 10 ^ (-e).toNat := Nat.mul_le_mul_right _ pow_1328
        _ = 10 ^ (400 + (-e).toNat) := (Nat.pow_add _ _ _).symm
        _ ≤ 10 ^ (numDigits c - 1) := Nat.pow_le_pow_right (by omega) hexp
        _ ≤ c := hb1
  · rw [if_neg h1]
    by_cases h2 : e + ((numDigits c : Nat) : Int) < -400
    · rw [if_pos h2]
      have he : ¬ (e ≥ 0) := by omega
      rw [if_neg he]
      symm
      apply roundRat_tiny bits _ _ (by omega)
      have hexp : 401 + numDigits c ≤ (-e).toNat := by omega
      calc c * 2 ^ 1200 < 10 ^ numDigits c * 2 ^ 1200 := Nat.mul_lt_mul_of_pos_right hb2 (two_pow_pos _)
        _ ≤ 10 ^ numDigits c * 10 ^ 401 := Nat.mul_le_mul_left _ pow_1200
        _ = 10 ^ (401 + numDigits c) := by rw [← Nat.pow_add, Nat.add_comm]
        _ ≤ 10 ^ (-e).toNat := Nat.pow_le_pow_right (by omega) hexp
    · rw [if_neg h2]

end Float
end Codec
end JP
