import JP.Lemmas.CloseMergeNum
import JP.Lemmas.TextParse

/-!
# Soundness of the reference parser: every tree `parseCst` returns is well-formed

`parseCst bs = some c → WFC c ∧ c.depth ≤ maxDepth` — the converse direction of
`parse_print`.  Consequently `parseCst (Cst.print c) = some c` for every parsed tree.
-/

namespace JP

theorem parseStrBody_sound (x : Bytes) : ∀ (b r : Bytes), parseStrBody x = some (b, r) → VB b := by
  fun_induction parseStrBody x <;> intro b r h
  all_goals try (simp at h; done)
  · simp only [Option.some.injEq, Prod.mk.injEq] at h
    obtain ⟨rfl, rfl⟩ := h
    exact VB_nil
  · rename_i e cs he _ ih
    cases hp : parseStrBody cs with
    | none => rw [hp] at h; simp at h
    | some q =>
      obtain ⟨b', r'⟩ := q
      rw [hp] at h
      simp only [Option.map_some, Option.some.injEq, Prod.mk.injEq] at h
      obtain ⟨rfl, rfl⟩ := h
      exact (VB_simple_iff e b' he).2 (ih b' r' hp)
  · rename_i h1 h2 h3 h4 cs hh _ _ ih
    cases hp : parseStrBody cs with
    | none => rw [hp] at h; simp at h
    | some q =>
      obtain ⟨b', r'⟩ := q
      rw [hp] at h
      simp only [Option.map_some, Option.some.injEq, Prod.mk.injEq] at h
      obtain ⟨rfl, rfl⟩ := h
      simp only [Bool.and_eq_true] at hh
      exact (VB_u_iff h1 h2 h3 h4 b').2 ⟨⟨hh.1.1.1, hh.1.1.2, hh.1.2, hh.2⟩, ih b' r' hp⟩
  · rename_i c cs hc1 hc2 hc3 ih
    cases hp : parseStrBody cs with
    | none => rw [hp] at h; simp at h
    | some q =>
      obtain ⟨b', r'⟩ := q
      rw [hp] at h
      simp only [Option.map_some, Option.some.injEq, Prod.mk.injEq] at h
      obtain ⟨rfl, rfl⟩ := h
      exact (VB_plain_iff c b' hc2).2 ⟨hc1, by omega, ih b' r' hp⟩

theorem parseStrBody_validBody (x b r : Bytes) (h : parseStrBody x = some (b, r)) : validBody b = true :=
  (validBody_iff b).2 (parseStrBody_sound x b r h)

theorem parseLit_sound (w bs : Bytes) (c : Cst) (r : Bytes) (h : parseLit w bs = some (c, r)) : c = .lit w := by
  unfold parseLit at h
  split at h
  · simp only [Option.some.injEq, Prod.mk.injEq] at h; exact h.1.symm
  · simp at h

theorem validLit_number (x l r : Bytes) (h : parseNumber x = some (l, r)) : validLit l = true := by
  have := (parseNumber_cut x l r h).2
  simp [validLit, this]

private theorem map_some_obj {α β γ : Type} {o : Option (α × β)} {f : α → γ} {c : γ} {r : β}
    (h : (o.map fun p => (f p.1, p.2)) = some (c, r)) : ∃ a, o = some (a, r) ∧ c = f a := by
  cases o with
  | none => simp at h
  | some p =>
    obtain ⟨a, b⟩ := p
    simp only [Option.map_some, Option.some.injEq, Prod.mk.injEq] at h
    exact ⟨a, by rw [h.2], h.1.symm⟩

theorem parse_sound_aux : ∀ (f : Nat),
    (∀ d bs c r, d ≤ maxDepth → parseValue f d bs = some (c, r) →
      WFC c = true ∧ d + c.depth ≤ maxDepth) ∧
    (∀ d bs xs r, d ≤ maxDepth → parseElems f d bs = some (xs, r) →
      WFCL xs = true ∧ d + Cst.depthL xs ≤ maxDepth) ∧
    (∀ d bs ms r, d ≤ maxDepth → parseMembers f d bs = some (ms, r) →
      WFCM ms = true ∧ d + Cst.depthM ms ≤ maxDepth)
  | 0 => by
    refine ⟨?_, ?_, ?_⟩ <;> intro d bs c r _ h
    · simp [parseValue] at h
    · simp [parseElems] at h
    · simp [parseMembers] at h
  | f + 1 => by
    obtain ⟨ihv, ihe, ihm⟩ := parse_sound_aux f
    refine ⟨?_, ?_, ?_⟩
    · intro d bs c r hd h
      cases bs with
      | nil => simp [parseValue] at h
      | cons b cs =>
        rw [parseValue] at h
        split at h
        · -- object
          split at h
          · simp at h
          · rename_i hdep
            split at h
            · simp only [Option.some.injEq, Prod.mk.injEq] at h
              obtain ⟨rfl, rfl⟩ := h
              simp only [WFC, WFCM, Cst.depth, Cst.depthM]
              exact ⟨trivial, by omega⟩
            · obtain ⟨ms, hm, rfl⟩ := map_some_obj (f := Cst.obj) h
              have ⟨w, dp⟩ := ihm (d + 1) _ ms r (by omega) hm
              simp only [WFC, Cst.depth]
              exact ⟨w, by omega⟩
        · split at h
          · -- array
            split at h
            · simp at h
            · rename_i hdep
              split at h
              · simp only [Option.some.injEq, Prod.mk.injEq] at h
                obtain ⟨rfl, rfl⟩ := h
                simp only [WFC, WFCL, Cst.depth, Cst.depthL]
                exact ⟨trivial, by omega⟩
              · obtain ⟨xs, hm, rfl⟩ := map_some_obj (f := Cst.arr) h
                have ⟨w, dp⟩ := ihe (d + 1) _ xs r (by omega) hm
                simp only [WFC, Cst.depth]
                exact ⟨w, by omega⟩
          · split at h
            · -- string
              obtain ⟨s, hm, rfl⟩ := map_some_obj (f := Cst.str) h
              simp only [WFC, Cst.depth]
              exact ⟨parseStrBody_validBody _ _ _ hm, by omega⟩
            · split at h
              · have := parseLit_sound _ _ _ _ h
                subst this
                exact ⟨by decide, by simp only [Cst.depth]; omega⟩
              · split at h
                · have := parseLit_sound _ _ _ _ h
                  subst this
                  exact ⟨by decide, by simp only [Cst.depth]; omega⟩
                · split at h
                  · have := parseLit_sound _ _ _ _ h
                    subst this
                    exact ⟨by decide, by simp only [Cst.depth]; omega⟩
                  · obtain ⟨l, hm, rfl⟩ := map_some_obj (f := Cst.lit) h
                    simp only [WFC, Cst.depth]
                    exact ⟨validLit_number _ _ _ hm, by omega⟩
    · intro d bs xs r hd h
      rw [parseElems] at h
      cases hv : parseValue f d bs with
      | none => rw [hv] at h; simp at h
      | some q =>
        obtain ⟨x, r1⟩ := q
        rw [hv] at h
        have ⟨w, dp⟩ := ihv d bs x r1 hd hv
        simp only at h
        split at h
        · simp only [Option.some.injEq, Prod.mk.injEq] at h
          obtain ⟨rfl, rfl⟩ := h
          simp only [WFCL, Cst.depthL, w, Bool.and_self]
          exact ⟨trivial, by omega⟩
        · obtain ⟨xs', hm, rfl⟩ := map_some_obj (f := fun t => x :: t) h
          have ⟨w', dp'⟩ := ihe d _ xs' r hd hm
          simp only [WFCL, Cst.depthL, w, w', Bool.and_self]
          exact ⟨trivial, by omega⟩
        · simp at h
    · intro d bs ms r hd h
      rw [parseMembers.eq_def] at h
      simp only at h
      split at h
      · rename_i cs
        cases hk : parseStrBody cs with
        | none => rw [hk] at h; simp at h
        | some q =>
          obtain ⟨k, r1⟩ := q
          rw [hk] at h
          have wk := parseStrBody_validBody _ _ _ hk
          simp only at h
          split at h
          · rename_i r2 hs
            cases hv : parseValue f d (skipWs r2) with
            | none => rw [hv] at h; simp at h
            | some q =>
              obtain ⟨v, r3⟩ := q
              rw [hv] at h
              have ⟨w, dp⟩ := ihv d _ v r3 hd hv
              simp only at h
              split at h
              · simp only [Option.some.injEq, Prod.mk.injEq] at h
                obtain ⟨rfl, rfl⟩ := h
                simp only [WFCM, Cst.depthM, w, wk, Bool.and_self]
                exact ⟨trivial, by omega⟩
              · obtain ⟨ms', hm, rfl⟩ := map_some_obj (f := fun t => (k, v) :: t) h
                have ⟨w', dp'⟩ := ihm d _ ms' r hd hm
                simp only [WFCM, Cst.depthM, w, w', wk, Bool.and_self]
                exact ⟨trivial, by omega⟩
              · simp at h
          · simp at h
      · simp at h

/-- every tree the reference parser returns is well-formed and within the nesting limit -/
theorem parseCst_sound (bs : Bytes) (c : Cst) (h : parseCst bs = some c) :
    WFC c = true ∧ c.depth ≤ maxDepth := by
  unfold parseCst at h
  cases hv : parseValue (bs.length + 1) 0 (skipWs bs) with
  | none => rw [hv] at h; simp at h
  | some q =>
    obtain ⟨c', r⟩ := q
    rw [hv] at h
    simp only at h
    split at h
    · simp only [Option.some.injEq] at h
      subst h
      have := (parse_sound_aux _).1 0 _ c' r (Nat.zero_le _) hv
      exact ⟨this.1, by omega⟩
    · simp at h

/-- re-printing a parsed tree compactly and parsing again gives the same tree -/
theorem parse_print_of_parse (bs : Bytes) (c : Cst) (h : parseCst bs = some c) :
    parseCst (Cst.print c) = some c :=
  parse_print c (parseCst_sound bs c h).1 (parseCst_sound bs c h).2

end JP
