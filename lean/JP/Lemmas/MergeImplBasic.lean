import JP.Lemmas.Equal

/-!
# Association-list facts for the merge implementation (C02)

`setN` / `eraseN` / `eraseKey` / `lookupN` on node member lists against `Value.set` /
`Value.erase` / `Value.lookup` on their denotation; the document invariant `WF (.doc keys ob)`
under `docSet'` and `docRemoveIgnore`; `dropNilEntries`; `decodeDoc`.
-/

namespace JP
open Value

namespace Value

theorem erase_of_not_mem (k : Bytes) : ∀ (ms : Members), k ∉ ms.map Prod.fst → erase k ms = ms
  | [], _ => rfl
  | (k', v) :: ms, h => by
    simp only [List.map_cons, List.mem_cons, not_or] at h
    have hne : ¬ k' = k := fun e => h.1 e.symm
    simp only [erase, if_neg hne, erase_of_not_mem k ms h.2]

theorem set_of_not_mem (k : Bytes) (v : Value) : ∀ (ms : Members), k ∉ ms.map Prod.fst →
    set k v ms = ms ++ [(k, v)]
  | [], _ => rfl
  | (k', v') :: ms, h => by
    simp only [List.map_cons, List.mem_cons, not_or] at h
    have hne : ¬ k' = k := fun e => h.1 e.symm
    simp only [Value.set, if_neg hne, set_of_not_mem k v ms h.2, List.cons_append]

end Value

namespace Impl

/-! ### lookups -/

theorem lookupN_den (k : Bytes) : ∀ (ob : NMembers), (lookupN k ob).map den = lookup k (denM ob)
  | [] => rfl
  | (k', n) :: ms => by
    simp only [lookupN, denM, lookup]
    by_cases h : k' = k
    · simp [h]
    · simp only [if_neg h]; exact lookupN_den k ms

theorem lookupN_none_iff (k : Bytes) : ∀ (ob : NMembers), lookupN k ob = none ↔ k ∉ ob.map Prod.fst
  | [] => by simp [lookupN]
  | (k', n) :: ms => by
    simp only [lookupN, List.map_cons, List.mem_cons, not_or]
    by_cases h : k' = k
    · simp [h]
    · simp only [if_neg h, lookupN_none_iff k ms]
      constructor
      · intro hm; exact ⟨fun e => h e.symm, hm⟩
      · intro hm; exact hm.2

theorem lookupN_isSome_iff (k : Bytes) (ob : NMembers) : (∃ n, lookupN k ob = some n) ↔ k ∈ ob.map Prod.fst := by
  have := lookupN_none_iff k ob
  cases h : lookupN k ob with
  | none => rw [h] at this; simp at this; simp [this]
  | some n =>
    rw [h] at this; simp at this
    simp only [Option.some.injEq, exists_eq', true_iff]
    obtain ⟨x, hx⟩ := this
    exact List.mem_map.mpr ⟨(k, x), hx, rfl⟩

theorem WF_of_lookupN (k : Bytes) (n : Node) : ∀ (ob : NMembers), WFM ob = true → lookupN k ob = some n → WF n = true
  | [], _ => by simp [lookupN]
  | (k', n') :: ms, h => by
    simp only [WFM, Bool.and_eq_true] at h
    simp only [lookupN]
    by_cases hk : k' = k
    · simp only [hk, if_true]; intro e; cases e; exact h.1
    · simp only [if_neg hk]; exact WF_of_lookupN k n ms h.2

theorem lookupN_append_of_not_mem (k : Bytes) (rest : NMembers) : ∀ (done : NMembers),
    k ∉ done.map Prod.fst → lookupN k (done ++ rest) = lookupN k rest
  | [], _ => rfl
  | (k', n) :: ms, h => by
    simp only [List.map_cons, List.mem_cons, not_or] at h
    have hne : ¬ k' = k := fun e => h.1 e.symm
    simp only [List.cons_append, lookupN, if_neg hne]
    exact lookupN_append_of_not_mem k rest ms h.2

/-! ### `setN` -/

theorem denM_setN (k : Bytes) (n : Node) : ∀ (ob : NMembers), denM (setN k n ob) = set k (den n) (denM ob)
  | [] => rfl
  | (k', n') :: ms => by
    simp only [setN, denM, Value.set]
    by_cases h : k' = k
    · simp only [if_pos h, denM]
    · simp only [if_neg h, denM, denM_setN k n ms]

theorem keys_setN (k : Bytes) (n : Node) : ∀ (ob : NMembers),
    (setN k n ob).map Prod.fst = if k ∈ ob.map Prod.fst then ob.map Prod.fst else ob.map Prod.fst ++ [k]
  | [] => by simp [setN]
  | (k', n') :: ms => by
    simp only [setN, List.map_cons, List.mem_cons]
    by_cases h : k' = k
    · simp [h]
    · have hne : ¬ k = k' := fun e => h e.symm
      simp only [if_neg h, List.map_cons, keys_setN k n ms, hne, false_or]
      split <;> simp

theorem WFM_setN (k : Bytes) (n : Node) (hn : WF n = true) : ∀ (ob : NMembers), WFM ob = true → WFM (setN k n ob) = true
  | [], _ => by simp [setN, WFM, hn]
  | (k', n') :: ms, h => by
    simp only [WFM, Bool.and_eq_true] at h
    simp only [setN]
    by_cases hk : k' = k
    · simp only [if_pos hk, WFM, Bool.and_eq_true]; exact ⟨hn, h.2⟩
    · simp only [if_neg hk, WFM, Bool.and_eq_true]; exact ⟨h.1, WFM_setN k n hn ms h.2⟩

theorem setN_of_not_mem (k : Bytes) (n : Node) : ∀ (ob : NMembers), k ∉ ob.map Prod.fst →
    setN k n ob = ob ++ [(k, n)]
  | [], _ => rfl
  | (k', n') :: ms, h => by
    simp only [List.map_cons, List.mem_cons, not_or] at h
    have hne : ¬ k' = k := fun e => h.1 e.symm
    simp only [setN, if_neg hne, setN_of_not_mem k n ms h.2, List.cons_append]

/-! ### `eraseN`, `eraseKey` -/

theorem eraseKey_eq_erase (k : Bytes) : ∀ (ks : List Bytes), eraseKey k ks = ks.erase k
  | [] => rfl
  | k' :: ks => by
    simp only [eraseKey, List.erase_cons, beq_iff_eq]
    by_cases h : k' = k
    · simp [h]
    · simp [h, eraseKey_eq_erase k ks]

theorem keys_eraseN (k : Bytes) : ∀ (ob : NMembers), (eraseN k ob).map Prod.fst = eraseKey k (ob.map Prod.fst)
  | [] => rfl
  | (k', n) :: ms => by
    simp only [eraseN, List.map_cons, eraseKey]
    by_cases h : k' = k
    · simp [h]
    · simp [h, keys_eraseN k ms]

theorem WFM_eraseN (k : Bytes) : ∀ (ob : NMembers), WFM ob = true → WFM (eraseN k ob) = true
  | [], _ => rfl
  | (k', n) :: ms, h => by
    simp only [WFM, Bool.and_eq_true] at h
    simp only [eraseN]
    by_cases hk : k' = k
    · simp only [if_pos hk]; exact h.2
    · simp only [if_neg hk, WFM, Bool.and_eq_true]; exact ⟨h.1, WFM_eraseN k ms h.2⟩

theorem denM_eraseN (k : Bytes) : ∀ (ob : NMembers), (ob.map Prod.fst).Nodup →
    denM (eraseN k ob) = erase k (denM ob)
  | [], _ => rfl
  | (k', n) :: ms, h => by
    simp only [List.map_cons, List.nodup_cons] at h
    simp only [eraseN, denM, erase]
    by_cases hk : k' = k
    · subst hk
      simp only [if_true]
      rw [erase_of_not_mem]
      rw [nodup_fst_denM]; exact h.1
    · simp only [if_neg hk, denM, denM_eraseN k ms h.2]

theorem eraseN_append_mid (k : Bytes) (n : Node) (rest : NMembers) : ∀ (done : NMembers),
    k ∉ done.map Prod.fst → eraseN k (done ++ (k, n) :: rest) = done ++ rest
  | [], _ => by simp [eraseN]
  | (k', n') :: ms, h => by
    simp only [List.map_cons, List.mem_cons, not_or] at h
    have hne : ¬ k' = k := fun e => h.1 e.symm
    simp only [List.cons_append, eraseN, if_neg hne, eraseN_append_mid k n rest ms h.2]

/-! ### the document invariant under the two map operations -/

theorem docSet'_inv (keys : List Bytes) (ob : NMembers) (k : Bytes) (n : Node)
    (h : WF (.doc keys ob) = true) (hn : WF n = true) :
    WF (.doc (docSet' keys ob k n).1 (docSet' keys ob k n).2) = true ∧
    denM (docSet' keys ob k n).2 = set k (den n) (denM ob) := by
  have ⟨hk, hnd, hm⟩ := (WF_doc_iff keys ob).mp h
  refine ⟨?_, denM_setN k n ob⟩
  rw [WF_doc_iff]
  simp only [docSet']
  refine ⟨?_, ?_, WFM_setN k n hn ob hm⟩
  · rw [keys_setN, ← hk]
    by_cases hc : k ∈ keys
    · simp [hc]
    · simp [hc]
  · by_cases hc : k ∈ keys
    · simp [hc, hnd]
    · have : keys.contains k = false := by
        cases hcc : keys.contains k with
        | false => rfl
        | true => exact absurd (List.contains_iff_mem.mp hcc) hc
      simp only [this, Bool.false_eq_true, if_false]
      rw [nodupKeys_iff] at hnd ⊢
      rw [List.nodup_append]
      refine ⟨hnd, by simp, ?_⟩
      intro a ha b hb
      simp only [List.mem_singleton] at hb
      subst hb
      exact fun e => hc (e ▸ ha)

theorem docRemoveIgnore_inv (keys : List Bytes) (ob : NMembers) (k : Bytes)
    (h : WF (.doc keys ob) = true) :
    WF (.doc (docRemoveIgnore keys ob k).1 (docRemoveIgnore keys ob k).2) = true ∧
    denM (docRemoveIgnore keys ob k).2 = erase k (denM ob) := by
  have ⟨hk, hnd, hm⟩ := (WF_doc_iff keys ob).mp h
  have hnd' := (nodupKeys_iff _).mp hnd
  simp only [docRemoveIgnore]
  cases hl : lookupN k ob with
  | none =>
    refine ⟨h, ?_⟩
    simp only
    rw [erase_of_not_mem]
    rw [nodup_fst_denM]
    exact (lookupN_none_iff k ob).mp hl
  | some c =>
    simp only
    refine ⟨?_, denM_eraseN k ob (hk ▸ hnd')⟩
    rw [WF_doc_iff]
    refine ⟨by rw [keys_eraseN, hk], ?_, WFM_eraseN k ob hm⟩
    rw [nodupKeys_iff, eraseKey_eq_erase]
    exact hnd'.erase k

/-! ### `dropNilEntries` on a duplicate-free map: filter out the nil entries -/

def isNil : Node → Bool
  | .nil => true
  | _ => false

def dropNil : NMembers → NMembers
  | [] => []
  | (k, n) :: ms => if isNil n then dropNil ms else (k, n) :: dropNil ms

theorem dropNil_sublist : ∀ (ms : NMembers), (dropNil ms).Sublist ms
  | [] => List.Sublist.slnil
  | (k, n) :: ms => by
    simp only [dropNil]
    split
    · exact List.Sublist.cons _ (dropNil_sublist ms)
    · exact List.Sublist.cons_cons _ (dropNil_sublist ms)

theorem dropNilEntries_spec : ∀ (rest done : NMembers), ((done ++ rest).map Prod.fst).Nodup →
    dropNilEntries ((done ++ rest).map Prod.fst) (done ++ rest) rest =
      ((done ++ dropNil rest).map Prod.fst, done ++ dropNil rest)
  | [], done, _ => by simp [dropNilEntries, dropNil]
  | (k, n) :: r, done, hnd => by
    have hk : k ∉ done.map Prod.fst := by
      simp only [List.map_append, List.map_cons] at hnd
      have := (List.nodup_append.mp hnd).2.2
      intro hm
      exact this k hm k (by simp) rfl
    have hnd2 : ((done ++ r).map Prod.fst).Nodup := by
      refine List.Nodup.sublist ?_ hnd
      apply List.Sublist.map
      exact List.Sublist.append (List.Sublist.refl _) (List.Sublist.cons _ (List.Sublist.refl _))
    have step : ∀ n', isNil n' = false →
        dropNilEntries ((done ++ (k, n') :: r).map Prod.fst) (done ++ (k, n') :: r) r =
        (((done ++ [(k, n')]) ++ dropNil r).map Prod.fst, (done ++ [(k, n')]) ++ dropNil r) := by
      intro n' _
      have := dropNilEntries_spec r (done ++ [(k, n')]) (by simpa using hnd)
      simpa using this
    cases n with
    | nil =>
      simp only [dropNilEntries, docRemoveIgnore]
      rw [lookupN_append_of_not_mem k _ done hk]
      simp only [lookupN, if_true]
      rw [eraseN_append_mid k .nil r done hk, ← keys_eraseN, eraseN_append_mid k .nil r done hk]
      simp only [dropNil, isNil, if_true]
      exact dropNilEntries_spec r done hnd2
    | raw c =>
      simp only [dropNilEntries, dropNil, isNil]
      rw [step _ rfl]; simp
    | doc ks ms =>
      simp only [dropNilEntries, dropNil, isNil]
      rw [step _ rfl]; simp
    | ary ns =>
      simp only [dropNilEntries, dropNil, isNil]
      rw [step _ rfl]; simp
    | docNil =>
      simp only [dropNilEntries, dropNil, isNil]
      rw [step _ rfl]; simp
    | nilAry =>
      simp only [dropNilEntries, dropNil, isNil]
      rw [step _ rfl]; simp

theorem dropNilEntries_self (ob : NMembers) (hnd : (ob.map Prod.fst).Nodup) :
    dropNilEntries (ob.map Prod.fst) ob ob = ((dropNil ob).map Prod.fst, dropNil ob) := by
  have := dropNilEntries_spec ob [] (by simpa using hnd)
  simpa using this

/-! ### decoding one level -/

def childM : List (Bytes × Cst) → NMembers
  | [] => []
  | (k, v) :: ms => (unquote k, childOf v) :: childM ms

theorem keys_childM : ∀ (ms : List (Bytes × Cst)), (childM ms).map Prod.fst = (Cst.valueOfM ms).map Prod.fst
  | [] => rfl
  | (k, v) :: ms => by simp [childM, Cst.valueOfM, keys_childM ms]

theorem decodeKeys_eq (ms : List (Bytes × Cst)) : decodeKeys ms = (Cst.valueOfM ms).map Prod.fst := by
  rw [keys_valueOfM]; rfl

theorem den_childOf (c : Cst) : den (childOf c) = c.valueOf := by
  simp only [childOf]
  by_cases h : c.isNullLit = true
  · rw [if_pos h]
    rw [(isNullLit_iff c).mp h]
    simp [den, Cst.valueOf, Cst.litValue]
  · rw [if_neg h]; rfl

theorem WF_childOf (c : Cst) (h : noDup c.valueOf = true) : WF (childOf c) = true := by
  simp only [childOf]
  split
  · rfl
  · exact h

theorem denM_childM : ∀ (ms : List (Bytes × Cst)), denM (childM ms) = Cst.valueOfM ms
  | [] => rfl
  | (k, v) :: ms => by simp [childM, denM, Cst.valueOfM, den_childOf, denM_childM ms]

theorem WFM_childM : ∀ (ms : List (Bytes × Cst)), noDupM (Cst.valueOfM ms) = true → WFM (childM ms) = true
  | [], _ => rfl
  | (k, v) :: ms, h => by
    simp only [Cst.valueOfM, noDupM, Bool.and_eq_true] at h
    simp only [childM, WFM, Bool.and_eq_true]
    exact ⟨WF_childOf v h.1, WFM_childM ms h.2⟩

theorem decodeMembers_nodup : ∀ (ms : List (Bytes × Cst)) (acc : NMembers),
    (acc.map Prod.fst ++ (Cst.valueOfM ms).map Prod.fst).Nodup →
    decodeMembers ms acc = acc ++ childM ms
  | [], acc, _ => by simp [decodeMembers, childM]
  | (k, v) :: ms, acc, h => by
    simp only [Cst.valueOfM, List.map_cons] at h
    have hk : unquote k ∉ acc.map Prod.fst := by
      have := (List.nodup_append.mp h).2.2
      intro hm
      exact this _ hm _ (by simp) rfl
    simp only [decodeMembers, childM]
    rw [setN_of_not_mem _ _ acc hk, decodeMembers_nodup ms]
    · simp
    · simpa using h

theorem decodeDoc_eq (ms : List (Bytes × Cst)) (h : nodupKeys ((Cst.valueOfM ms).map Prod.fst) = true) :
    decodeDoc ms = .doc ((childM ms).map Prod.fst) (childM ms) := by
  simp only [decodeDoc, decodeKeys_eq, keys_childM]
  rw [decodeMembers_nodup ms [] (by simpa using (nodupKeys_iff _).mp h)]
  simp

theorem WF_decodeDoc (ms : List (Bytes × Cst)) (h : noDup (Cst.valueOf (.obj ms)) = true) :
    WF (decodeDoc ms) = true := by
  simp only [Cst.valueOf, noDup, Bool.and_eq_true] at h
  rw [decodeDoc_eq ms h.1, WF_doc_iff]
  exact ⟨rfl, by rw [keys_childM]; exact h.1, WFM_childM ms h.2⟩

theorem den_decodeDoc (ms : List (Bytes × Cst)) (h : noDup (Cst.valueOf (.obj ms)) = true) :
    den (decodeDoc ms) = .obj (Cst.valueOfM ms) := by
  have hw := WF_decodeDoc ms h
  simp only [Cst.valueOf, noDup, Bool.and_eq_true] at h
  rw [decodeDoc_eq ms h.1] at hw ⊢
  have ⟨hk, hn, _⟩ := (WF_doc_iff _ _).mp hw
  rw [den_doc_wf _ _ hk hn, denM_childM]

end Impl
end JP
