import JP.Lemmas.LegacyRespell
import JP.Lemmas.CloseMergeCreate

/-!
# `respellBF` on whole printed texts

The legacy `CreateMergePatch` model prints the produced patch with the v5 fork's encoder and
re-spells the result (`respellBF`: `\u0008` / `\u000c` become `\b` / `\f`).  Here the body-level
facts of `JP/Lemmas/LegacyRespell.lean` are lifted to whole texts: for a tree the encoder produced
(every string body and member name is a `quoteBody true` output, literals hold no backslash)
re-spelling the printed text is printing the tree with every body re-spelled (`stdC`); that tree is
well-formed again, as deep, and denotes the same value.  Hence the output of the legacy
`CreateMergePatch` parses back to the value that was marshalled.
-/

namespace JP
namespace Legacy
open Value

/-! ### re-spelling distributes over unit-closed pieces -/

/-- re-spelling `P` in front of anything writes `P'` and continues after it -/
def Resp (P P' : Bytes) : Prop := ∀ Y, respellS (P ++ Y) = P' ++ respellS Y

theorem Resp.self {P P' : Bytes} (h : Resp P P') : respellS P = P' := by
  have := h []
  simpa [respellS_nil] using this

theorem Resp.append {P P' Q Q' : Bytes} (hp : Resp P P') (hq : Resp Q Q') : Resp (P ++ Q) (P' ++ Q') := by
  intro Y
  rw [List.append_assoc, hp, hq, List.append_assoc]

theorem Resp.nil : Resp [] [] := fun _ => rfl

theorem Resp.plain (T : Bytes) (h : ∀ x ∈ T, x ≠ 92) : Resp T T :=
  fun Y => respellS_append_plain T Y h

theorem Resp.byte (c : UInt8) (h : c ≠ 92) : Resp [c] [c] :=
  Resp.plain [c] (by intro x hx; rw [List.mem_singleton] at hx; rw [hx]; exact h)

/-- the piece the encoder writes for the first rune of `b :: rest`, with an arbitrary continuation -/
theorem quoteBody_step_resp (b : UInt8) (rest : Bytes) :
    ∃ P P' : Bytes,
      quoteBody true (b :: rest) = P ++ quoteBody true ((b :: rest).drop (decodeRune (b :: rest)).2) ∧
      Resp P P' := by
  by_cases hb : b.toNat < 128
  · have hd := decodeRune_one b rest hb
    refine ⟨quoteAscii true b, stdAscii b, ?_, fun Y => respellS_quoteAscii b hb Y⟩
    rw [quoteBody_ascii true b rest hb, hd]; rfl
  · rw [quoteBody_multi true b rest hb]
    by_cases hok : (decodeRune (b :: rest)).1 = runeError ∧ (decodeRune (b :: rest)).2 = 1
    · rw [if_pos hok]
      refine ⟨ascii "\\ufffd", ascii "\\ufffd", by rw [hok.2]; rfl, ?_⟩
      intro Y
      show respellS (92 :: 117 :: 102 :: 102 :: 102 :: 100 :: Y) = _
      rw [respellS_u 102 102 102 100 _ (by decide) (by decide) (by decide) (by decide) (by decide)]
      rfl
    · rw [if_neg hok]
      by_cases hls : (decodeRune (b :: rest)).1 = 0x2028 ∨ (decodeRune (b :: rest)).1 = 0x2029
      · rw [if_pos hls]
        rcases hls with h | h
        · refine ⟨[92, 117, 50, 48, 50, 56], [92, 117, 50, 48, 50, 56], by rw [h, hexLower_8]; rfl, ?_⟩
          intro Y
          show respellS (92 :: 117 :: 50 :: 48 :: 50 :: 56 :: Y) = _
          rw [respellS_u 50 48 50 56 _ (by decide) (by decide) (by decide) (by decide) (by decide)]
          rfl
        · refine ⟨[92, 117, 50, 48, 50, 57], [92, 117, 50, 48, 50, 57], by rw [h, hexLower_9]; rfl, ?_⟩
          intro Y
          show respellS (92 :: 117 :: 50 :: 48 :: 50 :: 57 :: Y) = _
          rw [respellS_u 50 48 50 57 _ (by decide) (by decide) (by decide) (by decide) (by decide)]
          rfl
      · rw [if_neg hls]
        have hhigh := rune_bytes_high b rest (by omega)
        have h92 : ∀ x ∈ (b :: rest).take (decodeRune (b :: rest)).2, x ≠ 92 := by
          intro x hx e
          have := hhigh x hx
          subst e
          revert this; decide
        exact ⟨_, _, rfl, Resp.plain _ h92⟩

/-- a whole encoded body is unit-closed: what follows it is re-spelled independently -/
theorem resp_quoteBody (k : Bytes) : Resp (quoteBody true k) (quoteBodyStd k) := by
  rw [quoteBodyStd_eq]
  induction k using rune_induction with
  | nil => exact Resp.nil
  | cons b rest ih =>
    obtain ⟨P, P', h1, h2⟩ := quoteBody_step_resp b rest
    have := Resp.append h2 ih
    rw [h1]
    have hs : respellS (P ++ quoteBody true ((b :: rest).drop (decodeRune (b :: rest)).2)) =
        P' ++ respellS (quoteBody true ((b :: rest).drop (decodeRune (b :: rest)).2)) := this.self
    rw [hs]; exact this

/-! ### number literals hold no backslash -/

def numByte (c : UInt8) : Prop := isDigit c = true ∨ c = 45 ∨ c = 43 ∨ c = 46 ∨ c = 101 ∨ c = 69

theorem numByte_ne92 {c : UInt8} (h : numByte c) : c ≠ 92 := by
  intro e; subst e
  rcases h with h | h | h | h | h | h <;> revert h <;> decide

theorem numInt_bytes (x ip r : Bytes) (h : numInt x = some (ip, r)) : ∀ c ∈ ip, numByte c := by
  cases x with
  | nil => simp [numInt] at h
  | cons c t =>
    by_cases h0 : c = 48
    · subst h0
      rw [numInt_zero] at h
      simp only [Option.some.injEq, Prod.mk.injEq] at h
      intro x hx; rw [← h.1] at hx
      rw [List.mem_singleton] at hx; subst hx; exact Or.inl (by decide)
    · rw [numInt_cons c t h0] at h
      by_cases hc : isDigit c = true
      · simp only [hc, if_true, Option.some.injEq, Prod.mk.injEq] at h
        intro x hx; rw [← h.1] at hx
        rcases List.mem_cons.1 hx with rfl | hx
        · exact Or.inl hc
        · exact Or.inl (takeDigits_all t _ _ rfl x hx)
      · simp [hc] at h

theorem numFrac_bytes (x fp r : Bytes) (h : numFrac x = some (fp, r)) : ∀ c ∈ fp, numByte c := by
  by_cases hx : ∃ t, x = 46 :: t
  · obtain ⟨t, rfl⟩ := hx
    rw [numFrac_dot] at h
    by_cases he : (takeDigits t).1.isEmpty = true
    · simp [he] at h
    · simp only [he, Bool.false_eq_true, if_false, Option.some.injEq, Prod.mk.injEq] at h
      intro c hc; rw [← h.1] at hc
      rcases List.mem_cons.1 hc with rfl | hc
      · exact Or.inr (Or.inr (Or.inr (Or.inl rfl)))
      · exact Or.inl (takeDigits_all t _ _ rfl c hc)
  · rw [numFrac_other x (fun t ht => hx ⟨t, ht⟩)] at h
    simp only [Option.some.injEq, Prod.mk.injEq] at h
    intro c hc; rw [← h.1] at hc; cases hc

theorem numExpSign_bytes (x : Bytes) : ∀ c ∈ (numExpSign x).1, numByte c := by
  by_cases h1 : ∃ t, x = 43 :: t
  · obtain ⟨t, rfl⟩ := h1
    intro c hc
    rw [numExpSign_plus, List.mem_singleton] at hc; subst hc
    exact Or.inr (Or.inr (Or.inl rfl))
  · by_cases h2 : ∃ t, x = 45 :: t
    · obtain ⟨t, rfl⟩ := h2
      intro c hc
      rw [numExpSign_minus, List.mem_singleton] at hc; subst hc
      exact Or.inr (Or.inl rfl)
    · rw [numExpSign_other x (fun t ht => h1 ⟨t, ht⟩) (fun t ht => h2 ⟨t, ht⟩)]
      intro c hc; cases hc

theorem numExp_bytes (x ep r : Bytes) (h : numExp x = some (ep, r)) : ∀ c ∈ ep, numByte c := by
  cases x with
  | nil =>
    simp only [numExp, Option.some.injEq, Prod.mk.injEq] at h
    intro c hc; rw [← h.1] at hc; cases hc
  | cons e t =>
    simp only [numExp] at h
    by_cases he : e = 101 ∨ e = 69
    · simp only [he, if_true] at h
      split at h
      · cases h
      · simp only [Option.some.injEq, Prod.mk.injEq] at h
        intro c hc; rw [← h.1] at hc
        rcases List.mem_cons.1 hc with rfl | hc
        · rcases he with rfl | rfl
          · exact Or.inr (Or.inr (Or.inr (Or.inr (Or.inl rfl))))
          · exact Or.inr (Or.inr (Or.inr (Or.inr (Or.inr rfl))))
        · rcases List.mem_append.1 hc with hc | hc
          · exact numExpSign_bytes t c hc
          · exact Or.inl (takeDigits_all _ _ _ rfl c hc)
    · simp only [he, if_false, Option.some.injEq, Prod.mk.injEq] at h
      intro c hc; rw [← h.1] at hc; cases hc

theorem parseNumber_bytes (x l r : Bytes) (h : parseNumber x = some (l, r)) : ∀ c ∈ l, numByte c := by
  rw [parseNumber_eq] at h
  cases h1 : numInt (numSign x).2 with
  | none => rw [h1] at h; simp at h
  | some q1 =>
    obtain ⟨ip, r1⟩ := q1
    rw [h1] at h
    simp only at h
    cases h2 : numFrac r1 with
    | none => rw [h2] at h; simp at h
    | some q2 =>
      obtain ⟨fp, r2⟩ := q2
      rw [h2] at h
      simp only at h
      cases h3 : numExp r2 with
      | none => rw [h3] at h; simp at h
      | some q3 =>
        obtain ⟨ep, r3⟩ := q3
        rw [h3] at h
        simp only [Option.some.injEq, Prod.mk.injEq] at h
        intro c hc
        rw [← h.1] at hc
        simp only [List.mem_append] at hc
        rcases hc with ((hc | hc) | hc) | hc
        · rcases (numSign_cut x).2 with e | ⟨e, _⟩
          · rw [e, List.mem_singleton] at hc; subst hc; exact Or.inr (Or.inl rfl)
          · rw [e] at hc; cases hc
        · exact numInt_bytes _ _ _ h1 c hc
        · exact numFrac_bytes _ _ _ h2 c hc
        · exact numExp_bytes _ _ _ h3 c hc

theorem validNum_plain (l : Bytes) (h : validNum l = true) : ∀ c ∈ l, c ≠ 92 := by
  simp only [validNum, decide_eq_true_eq] at h
  exact fun c hc => numByte_ne92 (parseNumber_bytes l l [] h c hc)

/-! ### trees the encoder produced, and their re-spelling -/

mutual
/-- every string body and member name re-spelled -/
def stdC : Cst → Cst
  | .lit s => .lit s
  | .str b => .str (respellS b)
  | .arr xs => .arr (stdCL xs)
  | .obj ms => .obj (stdCM ms)
def stdCL : List Cst → List Cst
  | [] => []
  | x :: xs => stdC x :: stdCL xs
def stdCM : List (Bytes × Cst) → List (Bytes × Cst)
  | [] => []
  | (k, v) :: ms => (respellS k, stdC v) :: stdCM ms
end

mutual
/-- literals hold no backslash; string bodies and member names are encoder outputs -/
def Enc : Cst → Prop
  | .lit s => ∀ x ∈ s, x ≠ 92
  | .str b => ∃ s, b = quoteBody true s
  | .arr xs => EncL xs
  | .obj ms => EncM ms
def EncL : List Cst → Prop
  | [] => True
  | x :: xs => Enc x ∧ EncL xs
def EncM : List (Bytes × Cst) → Prop
  | [] => True
  | (k, v) :: ms => (∃ s, k = quoteBody true s) ∧ Enc v ∧ EncM ms
end

theorem resp_quoted (b : Bytes) (h : ∃ s, b = quoteBody true s) :
    Resp (34 :: b ++ [34]) (34 :: respellS b ++ [34]) := by
  obtain ⟨s, rfl⟩ := h
  have h1 := resp_quoteBody s
  rw [h1.self]
  have := Resp.append (Resp.byte 34 (by decide)) (Resp.append h1 (Resp.byte 34 (by decide)))
  simpa using this

mutual
theorem resp_print : ∀ (c : Cst), Enc c → Resp (Cst.print c) (Cst.print (stdC c))
  | .lit s, h => by
    simp only [Enc] at h
    simp only [Cst.print, stdC]
    exact Resp.plain s h
  | .str b, h => by
    simp only [Enc] at h
    simp only [Cst.print, stdC]
    exact resp_quoted b h
  | .arr xs, h => by
    simp only [Enc] at h
    simp only [Cst.print, stdC]
    have := Resp.append (Resp.byte 91 (by decide)) (Resp.append (resp_printL xs h) (Resp.byte 93 (by decide)))
    simpa using this
  | .obj ms, h => by
    simp only [Enc] at h
    simp only [Cst.print, stdC]
    have := Resp.append (Resp.byte 123 (by decide)) (Resp.append (resp_printM ms h) (Resp.byte 125 (by decide)))
    simpa using this
theorem resp_printL : ∀ (xs : List Cst), EncL xs → Resp (Cst.printL xs) (Cst.printL (stdCL xs))
  | [], _ => Resp.nil
  | [x], h => by
    simp only [EncL] at h
    simp only [Cst.printL, stdCL]
    exact resp_print x h.1
  | x :: y :: xs, h => by
    simp only [EncL] at h
    have ih := resp_printL (y :: xs) (by simp only [EncL]; exact h.2)
    simp only [stdCL] at ih
    simp only [Cst.printL, stdCL]
    have := Resp.append (resp_print x h.1) (Resp.append (Resp.byte 44 (by decide)) ih)
    simpa using this
theorem resp_printM : ∀ (ms : List (Bytes × Cst)), EncM ms → Resp (Cst.printM ms) (Cst.printM (stdCM ms))
  | [], _ => Resp.nil
  | [(k, v)], h => by
    simp only [EncM] at h
    simp only [Cst.printM, stdCM]
    have := Resp.append (resp_quoted k h.1) (Resp.append (Resp.byte 58 (by decide)) (resp_print v h.2.1))
    simpa using this
  | (k, v) :: m :: ms, h => by
    simp only [EncM] at h
    have ih := resp_printM (m :: ms) h.2.2
    obtain ⟨k', v'⟩ := m
    simp only [stdCM] at ih
    simp only [Cst.printM, stdCM]
    have := Resp.append (resp_quoted k h.1) (Resp.append (Resp.byte 58 (by decide))
      (Resp.append (resp_print v h.2.1) (Resp.append (Resp.byte 44 (by decide)) ih)))
    simpa using this
end

/-- **re-spelling a printed encoder tree is printing the re-spelled tree** -/
theorem respellS_print (c : Cst) (h : Enc c) : respellS (Cst.print c) = Cst.print (stdC c) :=
  (resp_print c h).self

/-! ### the re-spelled tree: well-formed, as deep, same value -/

theorem validBody_respell (b : Bytes) (h : ∃ s, b = quoteBody true s) : validBody (respellS b) = true := by
  obtain ⟨s, rfl⟩ := h
  rw [← quoteBodyStd_eq]
  exact (validBody_iff _).2 (VB_quoteBodyStd s)

theorem unquote_respell (b : Bytes) (h : ∃ s, b = quoteBody true s) : unquote (respellS b) = unquote b := by
  obtain ⟨s, rfl⟩ := h
  rw [← quoteBodyStd_eq]
  exact unquote_quoteBodyStd s

mutual
theorem stdC_spec : ∀ (c : Cst), Enc c → WFC c = true →
    WFC (stdC c) = true ∧ (stdC c).depth = c.depth ∧ (stdC c).valueOf = c.valueOf
  | .lit s, _, hw => ⟨by simpa only [stdC] using hw, rfl, rfl⟩
  | .str b, h, _ => by
    simp only [Enc] at h
    simp only [stdC, WFC, Cst.depth, Cst.valueOf, validBody_respell b h, unquote_respell b h, and_self]
  | .arr xs, h, hw => by
    simp only [Enc] at h
    simp only [WFC] at hw
    obtain ⟨a, b, c⟩ := stdCL_spec xs h hw
    simp only [stdC, WFC, Cst.depth, Cst.valueOf, a, b, c, and_self]
  | .obj ms, h, hw => by
    simp only [Enc] at h
    simp only [WFC] at hw
    obtain ⟨a, b, c⟩ := stdCM_spec ms h hw
    simp only [stdC, WFC, Cst.depth, Cst.valueOf, a, b, c, and_self]
theorem stdCL_spec : ∀ (xs : List Cst), EncL xs → WFCL xs = true →
    WFCL (stdCL xs) = true ∧ Cst.depthL (stdCL xs) = Cst.depthL xs ∧
      Cst.valueOfL (stdCL xs) = Cst.valueOfL xs
  | [], _, _ => ⟨rfl, rfl, rfl⟩
  | x :: xs, h, hw => by
    simp only [EncL] at h
    simp only [WFCL, Bool.and_eq_true] at hw
    obtain ⟨a, b, c⟩ := stdC_spec x h.1 hw.1
    obtain ⟨a', b', c'⟩ := stdCL_spec xs h.2 hw.2
    simp only [stdCL, WFCL, Cst.depthL, Cst.valueOfL, a, b, c, a', b', c', Bool.and_self, and_self]
theorem stdCM_spec : ∀ (ms : List (Bytes × Cst)), EncM ms → WFCM ms = true →
    WFCM (stdCM ms) = true ∧ Cst.depthM (stdCM ms) = Cst.depthM ms ∧
      Cst.valueOfM (stdCM ms) = Cst.valueOfM ms
  | [], _, _ => ⟨rfl, rfl, rfl⟩
  | (k, v) :: ms, h, hw => by
    simp only [EncM] at h
    simp only [WFCM, Bool.and_eq_true] at hw
    obtain ⟨a, b, c⟩ := stdC_spec v h.2.1 hw.1.2
    obtain ⟨a', b', c'⟩ := stdCM_spec ms h.2.2 hw.2
    simp only [stdCM, WFCM, Cst.depthM, Cst.valueOfM, a, b, c, a', b', c', validBody_respell k h.1,
      unquote_respell k h.1, Bool.and_self, and_self]
end

/-! ### what `marshalAny` builds is an encoder tree -/

mutual
theorem Enc_marshal : ∀ (v : Value), NumsValid v = true → Enc (Impl.marshalAnyE true v)
  | .null, _ => by
    simp only [Impl.marshalAnyE, Impl.litNull, Enc]; decide
  | .bool b, _ => by
    simp only [Impl.marshalAnyE, Enc]; cases b <;> decide
  | .num l, h => by
    simp only [Impl.marshalAnyE, Enc]
    exact validNum_plain l (by simpa [NumsValid] using h)
  | .str s, _ => by
    simp only [Impl.marshalAnyE, Enc]; exact ⟨s, rfl⟩
  | .arr xs, h => by
    simp only [Impl.marshalAnyE, Enc]
    exact EncL_marshal xs (by simpa [NumsValid] using h)
  | .obj ms, h => by
    simp only [Impl.marshalAnyE, Enc]
    exact EncM_marshal ms (by simpa [NumsValid] using h)
theorem EncL_marshal : ∀ (xs : List Value), NumsValidL xs = true → EncL (Impl.marshalAnyEL true xs)
  | [], _ => trivial
  | x :: xs, h => by
    simp only [NumsValidL, Bool.and_eq_true] at h
    simp only [Impl.marshalAnyEL, EncL]
    exact ⟨Enc_marshal x h.1, EncL_marshal xs h.2⟩
theorem EncM_marshal : ∀ (ms : Members), NumsValidM ms = true → EncM (Impl.marshalAnyEM true ms)
  | [], _ => trivial
  | (k, v) :: ms, h => by
    simp only [NumsValidM, Bool.and_eq_true] at h
    simp only [Impl.marshalAnyEM, EncM]
    exact ⟨⟨k, rfl⟩, Enc_marshal v h.1, EncM_marshal ms h.2⟩
end

/-- **marshal, print, re-spell, parse, evaluate: the value comes back** -/
theorem parse_respell_marshal_GV (v : Value) (h : Impl.GV maxDepth v = true) :
    parseCst (respellS (Cst.print (Impl.marshalAnyE true v))) = some (stdC (Impl.marshalAnyE true v)) ∧
    (stdC (Impl.marshalAnyE true v)).valueOf = v := by
  have ⟨a, b, c⟩ := Impl.GV_spec true v maxDepth h
  have henc := Enc_marshal v b
  have hw := JP.marshal_wfc true v b
  obtain ⟨s1, s2, s3⟩ := stdC_spec _ henc hw
  rw [respellS_print _ henc]
  exact ⟨JP.parse_print _ s1 (by rw [s2]; exact c), by rw [s3]; exact JP.roundtrip true v a b⟩

theorem parseValueOf_respell_marshal_GV (v : Value) (h : Impl.GV maxDepth v = true) (f : Nat)
    (hf : (Cst.print (Impl.marshalAnyE true v)).length < f) :
    parseValueOf (respellBF f (Cst.print (Impl.marshalAnyE true v))) = some v := by
  obtain ⟨p1, p2⟩ := parse_respell_marshal_GV v h
  rw [respellBF_eq _ _ hf]
  simp only [parseValueOf, p1, Option.map_some, p2]

end Legacy
end JP
