import JP.Lemmas.ScanStep

/-!
# White space around a text does not change `Valid`
-/

namespace JP
namespace Scanner

/-- the three kinds of configurations a scan can be in -/
def Reach (s : Scan) : Prop :=
  (s.st = .stateError ∧ s.err = true) ∨
  (s.st = .stateEndTop ∧ s.err = false ∧ s.endTop = true) ∨
  (s.err = false ∧ s.endTop = false ∧ s.st ≠ .stateError)

/-- scan in progress -/
def Mid (s : Scan) : Prop := s.err = false ∧ s.endTop = false

def RP (r : Scan × Nat) : Prop := Reach r.1

theorem reach_init : Reach Scan.init := .inr (.inr ⟨rfl, rfl, by decide⟩)

theorem rp_error (s : Scan) : RP s.error := .inl ⟨rfl, rfl⟩
theorem rp_goto (s : Scan) (st : St) (op : Nat) (hm : Mid s) (h : st ≠ .stateError) :
    RP (s.goto st op) := .inr (.inr ⟨hm.1, hm.2, h⟩)
theorem rp_mid (s : Scan) (op : Nat) (hm : Mid s) (h : s.st ≠ .stateError) :
    RP (s, op) := .inr (.inr ⟨hm.1, hm.2, h⟩)
theorem rp_same (s : Scan) (op : Nat) (h : Reach s) : RP (s, op) := h
theorem rp_push (s : Scan) (p op : Nat) (hm : Mid s) (h : s.st ≠ .stateError) : RP (s.push p op) := by
  unfold Scan.push; simp only; split
  · exact .inr (.inr ⟨hm.1, hm.2, h⟩)
  · exact rp_error _
theorem rp_pop (s : Scan) (op : Nat) (hm : Mid s) : RP (s.pop, op) := by
  unfold Scan.pop RP; simp only; split
  · exact .inr (.inl ⟨rfl, hm.1, rfl⟩)
  · exact .inr (.inr ⟨hm.1, hm.2, fun h => by cases h⟩)

theorem rp_stateEndTop (s : Scan) (c : UInt8) (h : Reach s) : RP (stateEndTop s c) := by
  unfold stateEndTop; split
  · exact .inl ⟨rfl, rfl⟩
  · exact h

macro "rp_tac" hm:ident : tactic => `(tactic| first
  | exact rp_error _
  | exact rp_goto _ _ _ $hm (fun h => by cases h)
  | exact rp_pop _ _ $hm
  | exact rp_push _ _ _ $hm (fun h => by cases h)
  | exact rp_mid _ _ $hm (fun h => by cases h))

theorem rp_stateEndValue (s : Scan) (c : UInt8) (hm : Mid s) : RP (stateEndValue s c) := by
  unfold stateEndValue
  split
  · exact rp_stateEndTop _ _ (.inr (.inl ⟨rfl, hm.1, rfl⟩))
  · repeat' split
    all_goals rp_tac hm

theorem rp_stateBeginValue (s : Scan) (c : UInt8) (hm : Mid s) (hs : s.st ≠ .stateError) :
    RP (stateBeginValue s c) := by
  unfold stateBeginValue
  repeat' split
  all_goals first | exact rp_mid _ _ hm hs | rp_tac hm

theorem rp_stateBeginString (s : Scan) (c : UInt8) (hm : Mid s) (hs : s.st ≠ .stateError) :
    RP (stateBeginString s c) := by
  unfold stateBeginString
  repeat' split
  all_goals first | exact rp_mid _ _ hm hs | rp_tac hm

theorem rp_state0 (s : Scan) (c : UInt8) (hm : Mid s) : RP (state0 s c) := by
  unfold state0
  repeat' split
  all_goals first | rp_tac hm | exact rp_stateEndValue _ _ hm

theorem rp_stateESign (s : Scan) (c : UInt8) (hm : Mid s) : RP (stateESign s c) := by
  unfold stateESign
  split
  all_goals rp_tac hm

theorem rp_hexStep (s : Scan) (c : UInt8) (n : St) (hm : Mid s) (hn : n ≠ .stateError) :
    RP (hexStep s c n) := by
  unfold hexStep
  split
  · exact rp_goto _ _ _ hm hn
  · rp_tac hm

theorem rp_expect (s : Scan) (c w : UInt8) (n : St) (hm : Mid s) (hn : n ≠ .stateError) :
    RP (expect s c w n) := by
  unfold expect
  split
  · exact rp_goto _ _ _ hm hn
  · rp_tac hm

theorem rp_stateBeginValueOrEmpty (s : Scan) (c : UInt8) (hm : Mid s) (hs : s.st ≠ .stateError) :
    RP (stateBeginValueOrEmpty s c) := by
  unfold stateBeginValueOrEmpty
  split
  · exact rp_mid _ _ hm hs
  · split
    · exact rp_stateEndValue _ _ hm
    · exact rp_stateBeginValue _ _ hm hs

theorem rp_stateBeginStringOrEmpty (s : Scan) (c : UInt8) (hm : Mid s) (hs : s.st ≠ .stateError) :
    RP (stateBeginStringOrEmpty s c) := by
  unfold stateBeginStringOrEmpty
  split
  · exact rp_mid _ _ hm hs
  · split
    · split
      · exact rp_error _
      · exact rp_stateEndValue _ _ hm
    · exact rp_stateBeginString _ _ hm hs

theorem rp_stateInString (s : Scan) (c : UInt8) (hm : Mid s) (hs : s.st ≠ .stateError) :
    RP (stateInString s c) := by
  unfold stateInString
  repeat' split
  all_goals first | exact rp_mid _ _ hm hs | rp_tac hm

theorem rp_stateInStringEsc (s : Scan) (c : UInt8) (hm : Mid s) : RP (stateInStringEsc s c) := by
  unfold stateInStringEsc
  repeat' split
  all_goals rp_tac hm

theorem rp_stateNeg (s : Scan) (c : UInt8) (hm : Mid s) : RP (stateNeg s c) := by
  unfold stateNeg
  repeat' split
  all_goals rp_tac hm

theorem rp_state1 (s : Scan) (c : UInt8) (hm : Mid s) : RP (state1 s c) := by
  unfold state1
  split
  · rp_tac hm
  · exact rp_state0 _ _ hm

theorem rp_stateDot (s : Scan) (c : UInt8) (hm : Mid s) : RP (stateDot s c) := by
  unfold stateDot
  split
  all_goals rp_tac hm

theorem rp_stateDot0 (s : Scan) (c : UInt8) (hm : Mid s) (hs : s.st ≠ .stateError) : RP (stateDot0 s c) := by
  unfold stateDot0
  split
  · exact rp_mid _ _ hm hs
  · split
    · rp_tac hm
    · exact rp_stateEndValue _ _ hm

theorem rp_stateE (s : Scan) (c : UInt8) (hm : Mid s) : RP (stateE s c) := by
  unfold stateE
  split
  · rp_tac hm
  · exact rp_stateESign _ _ hm

theorem rp_stateE0 (s : Scan) (c : UInt8) (hm : Mid s) (hs : s.st ≠ .stateError) : RP (stateE0 s c) := by
  unfold stateE0
  split
  · exact rp_mid _ _ hm hs
  · exact rp_stateEndValue _ _ hm

theorem rp_step_mid (s : Scan) (c : UInt8) (hm : Mid s) (hs : s.st ≠ .stateError) : RP (step s c) := by
  have hr : Reach s := .inr (.inr ⟨hm.1, hm.2, hs⟩)
  unfold step
  split
  · exact rp_stateBeginValueOrEmpty _ _ hm hs
  · exact rp_stateBeginValue _ _ hm hs
  · exact rp_stateBeginStringOrEmpty _ _ hm hs
  · exact rp_stateBeginString _ _ hm hs
  · exact rp_stateEndValue _ _ hm
  · exact rp_stateEndTop _ _ hr
  · exact rp_stateInString _ _ hm hs
  · exact rp_stateInStringEsc _ _ hm
  · exact rp_hexStep _ _ _ hm (by decide)
  · exact rp_hexStep _ _ _ hm (by decide)
  · exact rp_hexStep _ _ _ hm (by decide)
  · exact rp_hexStep _ _ _ hm (by decide)
  · exact rp_stateNeg _ _ hm
  · exact rp_state1 _ _ hm
  · exact rp_state0 _ _ hm
  · exact rp_stateDot _ _ hm
  · exact rp_stateDot0 _ _ hm hs
  · exact rp_stateE _ _ hm
  · exact rp_stateESign _ _ hm
  · exact rp_stateE0 _ _ hm hs
  · exact rp_expect _ _ _ _ hm (by decide)
  · exact rp_expect _ _ _ _ hm (by decide)
  · exact rp_expect _ _ _ _ hm (by decide)
  · exact rp_expect _ _ _ _ hm (by decide)
  · exact rp_expect _ _ _ _ hm (by decide)
  · exact rp_expect _ _ _ _ hm (by decide)
  · exact rp_expect _ _ _ _ hm (by decide)
  · exact rp_expect _ _ _ _ hm (by decide)
  · exact rp_expect _ _ _ _ hm (by decide)
  · exact rp_expect _ _ _ _ hm (by decide)
  · exact rp_same _ _ hr

theorem reach_step (s : Scan) (c : UInt8) (h : Reach s) : Reach (step s c).1 := by
  rcases h with h | h | h
  · have : step s c = (s, scanError) := by simp [step, h.1]
    rw [this]; exact .inl h
  · have : step s c = stateEndTop s c := by simp [step, h.1]
    rw [this]; exact rp_stateEndTop _ _ (.inr (.inl h))
  · exact rp_step_mid s c ⟨h.1, h.2.1⟩ h.2.2

/-! ### a white-space byte does not change what `eof` answers -/

def WsOK (s : Scan) (c : UInt8) : Prop :=
  ((step s c).2 = scanError → eof s = false) ∧ ((step s c).2 ≠ scanError → eof (step s c).1 = eof s)

theorem isHex'_9 : hexStep.isHex' 9 = false := by decide
theorem isHex'_10 : hexStep.isHex' 10 = false := by decide
theorem isHex'_13 : hexStep.isHex' 13 = false := by decide
theorem isDigit_9 : isDigit 9 = false := by decide
theorem isDigit_10 : isDigit 10 = false := by decide
theorem isDigit_13 : isDigit 13 = false := by decide

macro "ws_tac" : tactic => `(tactic| (
  intro X stk
  cases stk <;> cases X <;>
    simp [WsOK, eof, step, stateBeginValueOrEmpty, stateBeginValue, stateBeginStringOrEmpty,
      stateBeginString, stateEndValue, stateEndTop, stateInString, stateInStringEsc, hexStep, stateNeg,
      state1, state0, stateDot, stateDot0, stateE, stateESign, stateE0, expect, Scan.error, Scan.goto,
      isSpace, isDigit_32, isHex'_32, isDigit_9, isDigit_10, isDigit_13, isHex'_9, isHex'_10, isHex'_13,
      scanError, scanContinue, scanSkipSpace, scanEnd]))

theorem wsOK_32 : ∀ (X : St) (stk : List Nat), WsOK ⟨X, stk, false, false⟩ 32 := by ws_tac
theorem wsOK_9 : ∀ (X : St) (stk : List Nat), WsOK ⟨X, stk, false, false⟩ 9 := by ws_tac
theorem wsOK_10 : ∀ (X : St) (stk : List Nat), WsOK ⟨X, stk, false, false⟩ 10 := by ws_tac
theorem wsOK_13 : ∀ (X : St) (stk : List Nat), WsOK ⟨X, stk, false, false⟩ 13 := by ws_tac

theorem isWs_cases {c : UInt8} (h : isWs c = true) : c = 32 ∨ c = 9 ∨ c = 13 ∨ c = 10 := by
  simpa [isWs, or_assoc] using h

theorem wsOK (s : Scan) (c : UInt8) (hr : Reach s) (hc : isWs c = true) : WsOK s c := by
  rcases hr with h | h | h
  · have hs : step s c = (s, scanError) := by simp [step, h.1]
    refine ⟨fun _ => by simp [eof, h.2], fun hne => ?_⟩
    rw [hs] at hne; exact absurd rfl hne
  · have hs : step s c = (s, scanEnd) := by simp [step, h.1, stateEndTop, isSpace_eq_isWs, hc]
    refine ⟨fun he => ?_, fun _ => by rw [hs]⟩
    rw [hs] at he; exact absurd he (show scanEnd ≠ scanError by decide)
  · obtain ⟨X, stk, et, er⟩ := s
    simp only at h
    obtain ⟨rfl, rfl, _⟩ := h
    rcases isWs_cases hc with rfl | rfl | rfl | rfl
    · exact wsOK_32 X stk
    · exact wsOK_9 X stk
    · exact wsOK_13 X stk
    · exact wsOK_10 X stk

/-- trailing white space: from a reachable configuration, it changes nothing -/
theorem vf_ws (ws : Bytes) (hws : ∀ c ∈ ws, isWs c = true) :
    ∀ (s : Scan), Reach s → validFrom s ws = eof s := by
  induction ws with
  | nil => intro s _; rfl
  | cons c cs ih =>
    intro s hr
    have hc : isWs c = true := hws c (by simp)
    have hok := wsOK s c hr hc
    rw [validFrom_cons]
    split
    · rename_i he; exact (hok.1 he).symm
    · rename_i he
      rw [ih (fun c' h' => hws c' (by simp [h'])) _ (reach_step s c hr)]
      exact hok.2 he

theorem vf_append_ws (bs ws : Bytes) (hws : ∀ c ∈ ws, isWs c = true) :
    ∀ (s : Scan), Reach s → validFrom s (bs ++ ws) = validFrom s bs := by
  induction bs with
  | nil => intro s hr; exact vf_ws ws hws s hr
  | cons c cs ih =>
    intro s hr
    rw [List.cons_append, validFrom_cons, validFrom_cons, ih _ (reach_step s c hr)]

theorem vf_ws_append (ws bs : Bytes) (hws : ∀ c ∈ ws, isWs c = true) :
    validFrom Scan.init (ws ++ bs) = validFrom Scan.init bs := by
  induction ws with
  | nil => rfl
  | cons c cs ih =>
    have hc : isWs c = true := hws c (by simp)
    have : step Scan.init c = (Scan.init, scanSkipSpace) := step_bv_ws [] c hc
    rw [List.cons_append, vf_step this (by decide)]
    exact ih (fun c' h' => hws c' (by simp [h']))

/-- white space around a text does not matter to `Valid` -/
theorem valid_ws_eq (ws₁ bs ws₂ : Bytes) (h₁ : ∀ c ∈ ws₁, isWs c = true) (h₂ : ∀ c ∈ ws₂, isWs c = true) :
    valid (ws₁ ++ bs ++ ws₂) = valid bs := by
  rw [valid_eq_validFrom, valid_eq_validFrom, List.append_assoc, vf_ws_append _ _ h₁,
    vf_append_ws _ _ h₂ _ reach_init]

end Scanner
end JP
