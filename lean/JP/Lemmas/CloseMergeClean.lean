import JP.Lemmas.CloseMergeCreate

/-!
# No raw HTML-sensitive bytes in re-marshalled output

`CleanC c`: literals are valid, every string body and member-name body is free of raw `<`, `>`,
`&`, U+2028, U+2029.  Then the compact print of `c` is free of them; `cstOf true n` (escaped raw
messages, names quoted with escaping on) and `marshalAny v` are `CleanC`.
-/

namespace JP
namespace Impl
open Value

mutual
def CleanC : Cst → Bool
  | .lit l => validLit l
  | .str b => !hasRawHtml b
  | .arr xs => CleanCL xs
  | .obj ms => CleanCM ms
def CleanCL : List Cst → Bool
  | [] => true
  | x :: xs => CleanC x && CleanCL xs
def CleanCM : List (Bytes × Cst) → Bool
  | [] => true
  | (k, v) :: ms => !hasRawHtml k && CleanC v && CleanCM ms
end

theorem hasRawHtml_quoted' (k X : Bytes) (hk : hasRawHtml k = false) (hX : hasRawHtml X = false) :
    hasRawHtml (34 :: (k ++ 34 :: X)) = false := by
  rw [hasRawHtml_plain _ _ (by decide)]
  apply hasRawHtml_append _ _ hk
  · rw [hasRawHtml_plain _ _ (by decide)]; exact hX
  · show (34 : UInt8).toNat < 0x80; decide

mutual
theorem print_clean : ∀ (c : Cst), CleanC c = true → hasRawHtml (Cst.print c) = false
  | .lit s, h => by
    simp only [CleanC] at h
    simp only [Cst.print]; exact hasRawHtml_validLit s h
  | .str b, h => by
    simp only [CleanC, Bool.not_eq_true'] at h
    simp only [Cst.print, List.cons_append]
    exact hasRawHtml_quoted' b [] h rfl
  | .arr xs, h => by
    simp only [CleanC] at h
    simp only [Cst.print]
    rw [List.cons_append, hasRawHtml_plain _ _ (by decide)]
    exact hasRawHtml_snoc _ _ (by decide) (by decide) (printL_clean xs h)
  | .obj ms, h => by
    simp only [CleanC] at h
    simp only [Cst.print]
    rw [List.cons_append, hasRawHtml_plain _ _ (by decide)]
    exact hasRawHtml_snoc _ _ (by decide) (by decide) (printM_clean ms h)
theorem printL_clean : ∀ (xs : List Cst), CleanCL xs = true → hasRawHtml (Cst.printL xs) = false
  | [], _ => rfl
  | x :: xs, h => by
    simp only [CleanCL, Bool.and_eq_true] at h
    have ih := printL_clean xs h.2
    have ihx := print_clean x h.1
    cases xs with
    | nil => simp only [Cst.printL]; exact ihx
    | cons y ys =>
      simp only [Cst.printL] at ih ⊢
      exact hasRawHtml_sep _ _ 44 (by decide) (by decide) ihx ih
theorem printM_clean : ∀ (ms : List (Bytes × Cst)), CleanCM ms = true → hasRawHtml (Cst.printM ms) = false
  | [], _ => rfl
  | (k, v) :: ms, h => by
    simp only [CleanCM, Bool.and_eq_true, Bool.not_eq_true'] at h
    have ih := printM_clean ms h.2
    have ihv := print_clean v h.1.2
    cases ms with
    | nil =>
      simp only [Cst.printM]
      apply hasRawHtml_quoted' _ _ h.1.1
      rw [hasRawHtml_plain _ _ (by decide)]; exact ihv
    | cons m ms' =>
      obtain ⟨k', v'⟩ := m
      simp only [Cst.printM, List.cons_append, List.append_assoc]
      apply hasRawHtml_quoted' _ _ h.1.1
      rw [hasRawHtml_plain _ _ (by decide)]
      exact hasRawHtml_sep _ _ 44 (by decide) (by decide) ihv ih
end

/-! ### escaped trees -/

mutual
theorem CleanC_escape : ∀ (c : Cst), WFC c = true → CleanC (Cst.escape true c) = true
  | .lit s, h => by simpa [Cst.escape, CleanC, WFC] using h
  | .str b, _ => by simp [Cst.escape, CleanC, escBody_clean]
  | .arr xs, h => by
    simp only [WFC] at h
    simp only [Cst.escape, CleanC]; exact CleanCL_escapeL xs h
  | .obj ms, h => by
    simp only [WFC] at h
    simp only [Cst.escape, CleanC]; exact CleanCM_escapeM ms h
theorem CleanCL_escapeL : ∀ (xs : List Cst), WFCL xs = true → CleanCL (Cst.escapeL true xs) = true
  | [], _ => rfl
  | x :: xs, h => by
    simp only [WFCL, Bool.and_eq_true] at h
    simp only [Cst.escapeL, CleanCL, CleanC_escape x h.1, CleanCL_escapeL xs h.2, Bool.and_self]
theorem CleanCM_escapeM : ∀ (ms : List (Bytes × Cst)), WFCM ms = true → CleanCM (Cst.escapeM true ms) = true
  | [], _ => rfl
  | (k, v) :: ms, h => by
    simp only [WFCM, Bool.and_eq_true] at h
    simp [Cst.escapeM, CleanCM, escBody_clean, CleanC_escape v h.1.2, CleanCM_escapeM ms h.2]
end

/-! ### what `cstOf true` prints -/

theorem CleanC_litNull : CleanC litNull = true := by decide

theorem CleanCM_map_keys (f : Bytes → Cst) : ∀ (keys : List Bytes), (∀ k ∈ keys, CleanC (f k) = true) →
    CleanCM (keys.map fun k => (quoteBody true k, f k)) = true
  | [], _ => rfl
  | k :: ks, h => by
    simp only [List.map_cons, CleanCM, Bool.and_eq_true, Bool.not_eq_true']
    exact ⟨⟨quoteBody_clean k, h k (List.mem_cons_self ..)⟩,
      CleanCM_map_keys f ks fun k' hk' => h k' (List.mem_cons_of_mem _ hk')⟩

mutual
theorem CleanC_cstOf : ∀ (n : Node) (d : Nat), GoodN d n = true → CleanC (cstOf true n) = true
  | .nil, _, _ => by simp only [cstOf]; exact CleanC_litNull
  | .raw c, d, h => by
    simp only [cstOf]
    exact CleanC_escape c ((GoodN_raw d c).1 h).1
  | .doc keys ob, d, h => by
    rw [GoodN_doc] at h
    have hm := CleanC_cstOfM ob (d - 1) h.2
    simp only [cstOf, CleanC]
    exact CleanCM_map_keys _ keys (fun k _ => hm k)
  | .ary ns, d, h => by
    rw [GoodN_ary] at h
    simp only [cstOf, CleanC]
    exact CleanCL_cstOfL ns (d - 1) h.2
  | .docNil, _, _ => by simp only [cstOf]; exact CleanC_litNull
  | .nilAry, _, _ => by simp only [cstOf]; exact CleanC_litNull
theorem CleanC_cstOfM : ∀ (ob : NMembers) (d : Nat), GoodNM d ob = true →
    ∀ k, CleanC ((lookupC k (cstOfM true ob)).getD litNull) = true
  | [], _, _, k => by simp only [cstOfM, lookupC, Option.getD_none]; exact CleanC_litNull
  | (k', n) :: ms, d, h, k => by
    simp only [GoodNM, Bool.and_eq_true] at h
    simp only [cstOfM, lookupC_cons]
    split
    · simp only [Option.getD_some]; exact CleanC_cstOf n d h.1.2
    · exact CleanC_cstOfM ms d h.2 k
theorem CleanCL_cstOfL : ∀ (ns : List Node) (d : Nat), GoodNL d ns = true → CleanCL (cstOfL true ns) = true
  | [], _, _ => rfl
  | n :: ns, d, h => by
    simp only [GoodNL, Bool.and_eq_true] at h
    simp only [cstOfL, CleanCL, CleanC_cstOf n d h.1, CleanCL_cstOfL ns d h.2, Bool.and_self]
end

theorem print_cstOf_clean (n : Node) (d : Nat) (h : GoodN d n = true) :
    hasRawHtml (Cst.print (cstOf true n)) = false :=
  print_clean _ (CleanC_cstOf n d h)

/-! ### what `Marshal` prints -/

mutual
theorem CleanC_marshal : ∀ (v : Value), NumsValid v = true → CleanC (marshalAnyE true v) = true
  | .null, _ => by simp only [marshalAnyE]; exact CleanC_litNull
  | .bool b, _ => by cases b <;> decide
  | .num l, h => by
    simp only [NumsValid] at h
    simp only [marshalAnyE, CleanC]; exact validLit_of_validNum l h
  | .str s, _ => by simp [marshalAnyE, CleanC, quoteBody_clean]
  | .arr xs, h => by
    simp only [NumsValid] at h
    simp only [marshalAnyE, CleanC]; exact CleanCL_marshal xs h
  | .obj ms, h => by
    simp only [NumsValid] at h
    simp only [marshalAnyE, CleanC]; exact CleanCM_marshal ms h
theorem CleanCL_marshal : ∀ (xs : List Value), NumsValidL xs = true → CleanCL (marshalAnyEL true xs) = true
  | [], _ => rfl
  | x :: xs, h => by
    simp only [NumsValidL, Bool.and_eq_true] at h
    simp only [marshalAnyEL, CleanCL, CleanC_marshal x h.1, CleanCL_marshal xs h.2, Bool.and_self]
theorem CleanCM_marshal : ∀ (ms : Members), NumsValidM ms = true → CleanCM (marshalAnyEM true ms) = true
  | [], _ => rfl
  | (k, v) :: ms, h => by
    simp only [NumsValidM, Bool.and_eq_true] at h
    simp [marshalAnyEM, CleanCM, quoteBody_clean, CleanC_marshal v h.1, CleanCM_marshal ms h.2]
end

theorem print_marshal_clean (v : Value) (h : NumsValid v = true) :
    hasRawHtml (Cst.print (marshalAny v)) = false :=
  print_clean _ (CleanC_marshal v h)

end Impl
end JP
