import JP.Lemmas.ApplyBasic

/-!
# The `selfCR` flag of a root is never consulted

With the repaired `get` (an empty reference token is an ordinary member name) neither `walk` nor
`ensure` looks at its `cr` argument, so the flag `Root.selfCR` (set by `Apply` when the document is
an array whose leading white space contains a carriage return) has no influence on any operation:
two roots with the same `con` and `self` give the same outcome, up to the flag.
-/

namespace JP
namespace Impl

theorem walk_cr {α} (o : Opts) (act : Node → Node → Outcome (Node × α)) (cr cr' : Bool) (self con : Node)
    (parts : List Bytes) : walk o act cr self con parts = walk o act cr' self con parts := by
  cases parts with
  | nil => simp only [walk]
  | cons p ps => rw [walk_cons, walk_cons]; simp only [enter]

theorem ensure_cr (o : Opts) (cr cr' : Bool) (self con : Node) (parts : List Bytes) :
    ensure o cr self con parts = ensure o cr' self con parts := by
  match parts with
  | [] => simp only [ensure]
  | [_] => simp only [ensure]
  | p :: q :: rest => rw [ensure_cons2, ensure_cons2]; simp only [enter]

/-- the same container and `self` node (the flag may differ) -/
def SameCS (r₁ r₂ : Root) : Prop := r₁.con = r₂.con ∧ r₁.self = r₂.self

theorem SameCS.rfl' (r : Root) : SameCS r r := ⟨rfl, rfl⟩

/-- outcomes that agree up to the flag -/
def OutSame : Outcome Root → Outcome Root → Prop
  | .ok a, .ok b => SameCS a b
  | .err e, .err e' => e = e'
  | .panic, .panic => True
  | _, _ => False

def OutSame2 : Outcome (Root × Int) → Outcome (Root × Int) → Prop
  | .ok a, .ok b => SameCS a.1 b.1 ∧ a.2 = b.2
  | .err e, .err e' => e = e'
  | .panic, .panic => True
  | _, _ => False

theorem withPath_same {α} (o : Opts) {r₁ r₂ : Root} (h : SameCS r₁ r₂) (path : Bytes)
    (act : Node → Node → Bytes → Outcome (Node × α)) :
    withPath o r₁ path act = withPath o r₂ path act := by
  unfold withPath
  cases splitPath path with
  | none => simp only [h.1]
  | some pk =>
    obtain ⟨parts, key⟩ := pk
    simp only []
    rw [walk_cr o _ r₁.selfCR r₂.selfCR, h.1, h.2]

theorem liftWalk_same {r₁ r₂ : Root} (h : SameCS r₁ r₂) (w : Walk Unit) {k₁ k₂ : Root → Outcome Root}
    (hk : ∀ a b, SameCS a b → OutSame (k₁ a) (k₂ b)) :
    OutSame (liftWalk r₁ w k₁) (liftWalk r₂ w k₂) := by
  cases w with
  | done con a => exact ⟨rfl, h.2⟩
  | notFound con => exact hk _ _ ⟨rfl, h.2⟩
  | fail e => exact rfl
  | panic => trivial
  | doneSelf s a => exact ⟨h.1, rfl⟩
  | notFoundSelf s => exact hk _ _ ⟨h.1, rfl⟩

theorem OutSame.refl (x : Outcome Root) : OutSame x x := by
  cases x with
  | ok a => exact ⟨rfl, rfl⟩
  | err e => exact rfl
  | panic => trivial

theorem ensurePath_same (o : Opts) {r₁ r₂ : Root} (h : SameCS r₁ r₂) (path : Bytes) :
    OutSame (ensurePath o r₁ path) (ensurePath o r₂ path) := by
  unfold ensurePath
  split
  · exact h
  · exact h
  · split
    · exact h
    rw [ensure_cr o r₁.selfCR r₂.selfCR, h.1, h.2]
    generalize ensure o r₂.selfCR r₂.self r₂.con _ = x
    cases x with
    | ok p => obtain ⟨c, s⟩ := p; exact ⟨rfl, rfl⟩
    | err e => exact rfl
    | panic => trivial

theorem opAdd_same (o : Opts) {r₁ r₂ : Root} (h : SameCS r₁ r₂) (op : Op) :
    OutSame (opAdd o r₁ op) (opAdd o r₂ op) := by
  unfold opAdd
  split
  · exact OutSame.refl _
  · simp only []
    have h1 : OutSame (if o.ensure then ensurePath o r₁ op.path else .ok r₁)
        (if o.ensure then ensurePath o r₂ op.path else .ok r₂) := by
      split
      · exact ensurePath_same o h _
      · exact h
    cases hx : (if o.ensure then ensurePath o r₁ op.path else Outcome.ok r₁) with
    | err e =>
      rw [hx] at h1
      cases hy : (if o.ensure then ensurePath o r₂ op.path else Outcome.ok r₂) with
      | err e' => rw [hy] at h1; exact h1
      | ok b => rw [hy] at h1; exact h1.elim
      | panic => rw [hy] at h1; exact h1.elim
    | panic =>
      rw [hx] at h1
      cases hy : (if o.ensure then ensurePath o r₂ op.path else Outcome.ok r₂) with
      | err e' => rw [hy] at h1; exact h1.elim
      | ok b => rw [hy] at h1; exact h1.elim
      | panic => trivial
    | ok a =>
      rw [hx] at h1
      cases hy : (if o.ensure then ensurePath o r₂ op.path else Outcome.ok r₂) with
      | err e' => rw [hy] at h1; exact h1.elim
      | panic => rw [hy] at h1; exact h1.elim
      | ok b =>
        rw [hy] at h1
        simp only []
        rw [withPath_same o h1]
        exact liftWalk_same h1 _ (fun _ _ _ => rfl)

theorem opRemove_same (o : Opts) {r₁ r₂ : Root} (h : SameCS r₁ r₂) (op : Op) :
    OutSame (opRemove o r₁ op) (opRemove o r₂ op) := by
  unfold opRemove
  rw [withPath_same o h]
  refine liftWalk_same h _ ?_
  intro a b hab
  split
  · exact hab
  · exact rfl

theorem opReplace_same (o : Opts) {r₁ r₂ : Root} (h : SameCS r₁ r₂) (op : Op) :
    OutSame (opReplace o r₁ op) (opReplace o r₂ op) := by
  unfold opReplace
  split
  · exact OutSame.refl _
  · simp only []
    rw [withPath_same o h]
    exact liftWalk_same h _ (fun _ _ _ => rfl)

theorem opMove_same (o : Opts) {r₁ r₂ : Root} (h : SameCS r₁ r₂) (op : Op) :
    OutSame (opMove o r₁ op) (opMove o r₂ op) := by
  unfold opMove
  split
  · exact rfl
  · split
    · exact rfl
    · rename_i frm _ _
      simp only []
      rw [withPath_same o h]
      generalize withPath o r₂ frm _ = w
      cases w with
      | panic => trivial
      | fail e => exact rfl
      | notFound c => exact rfl
      | notFoundSelf s => exact rfl
      | done con val =>
        simp only []
        have h1 : SameCS { r₁ with con := con } { r₂ with con := con } := ⟨rfl, h.2⟩
        rw [withPath_same o h1]
        exact liftWalk_same h1 _ (fun _ _ _ => rfl)
      | doneSelf s val =>
        simp only []
        have h1 : SameCS { r₁ with self := s } { r₂ with self := s } := ⟨h.1, rfl⟩
        rw [withPath_same o h1]
        exact liftWalk_same h1 _ (fun _ _ _ => rfl)

theorem opTest_same (o : Opts) {r₁ r₂ : Root} (h : SameCS r₁ r₂) (op : Op) :
    OutSame (opTest o r₁ op) (opTest o r₂ op) := by
  unfold opTest
  split
  · rw [h.1]
    cases equalTo r₂.con op.value with
    | mk b con' =>
      simp only []
      split
      · exact ⟨rfl, h.2⟩
      · exact rfl
  · rw [withPath_same o h]
    exact liftWalk_same h _ (fun _ _ _ => rfl)

/-- the state after a walk that found its container (as inside `opCopy`) -/
def afterCR (r : Root) {α} (w : Walk α) : Option Root :=
  match w with
  | .done con _ => some { r with con := con }
  | .doneSelf s _ => some { r with self := s }
  | _ => none

def failCR {α} (w : Walk α) : Outcome (Root × Int) :=
  match w with
  | .panic => .panic
  | .fail e => .err e
  | _ => .err .missing

theorem afterCR_same {α} {r₁ r₂ : Root} (h : SameCS r₁ r₂) (w : Walk α) :
    (afterCR r₁ w = none ∧ afterCR r₂ w = none) ∨
      ∃ a b, afterCR r₁ w = some a ∧ afterCR r₂ w = some b ∧ SameCS a b := by
  cases w with
  | done con x => exact Or.inr ⟨_, _, rfl, rfl, rfl, h.2⟩
  | doneSelf s x => exact Or.inr ⟨_, _, rfl, rfl, h.1, rfl⟩
  | notFound c => exact Or.inl ⟨rfl, rfl⟩
  | notFoundSelf c => exact Or.inl ⟨rfl, rfl⟩
  | fail e => exact Or.inl ⟨rfl, rfl⟩
  | panic => exact Or.inl ⟨rfl, rfl⟩

theorem OutSame2.refl (x : Outcome (Root × Int)) : OutSame2 x x := by
  cases x with
  | ok a => exact ⟨⟨rfl, rfl⟩, rfl⟩
  | err e => exact rfl
  | panic => trivial

theorem copySource_same (o : Opts) {r₁ r₂ : Root} (h : SameCS r₁ r₂) (frm : Bytes) :
    copySource o r₁ frm = copySource o r₂ frm := by
  unfold copySource
  exact withPath_same o h _ _

theorem copyFirst_same (o : Opts) {r₁ r₂ : Root} (h : SameCS r₁ r₂) (frm : Bytes) :
    copyFirst o r₁ frm = copyFirst o r₂ frm := by
  unfold copyFirst
  rw [copySource_same o h, h.1]

theorem opCopy_eq_cr (o : Opts) (r : Root) (acc : Int) (op : Op) :
    opCopy o r acc op =
      match op.frm with
      | none => .err .missing
      | some frm =>
        match afterCR r (copyFirst o r frm) with
        | none => failCR (copyFirst o r frm)
        | some r1 =>
          match afterCR r1 (withPath o r1 op.path fun _ con _ => (.ok (con, ()) : Outcome (Node × Unit))) with
          | none => failCR (withPath o r1 op.path fun _ con _ => (.ok (con, ()) : Outcome (Node × Unit)))
          | some r2 =>
            match (if frm = [] then (.ok r2.con : Outcome Node)
                else match copySource o r2 frm with
                  | .done _ v => .ok v
                  | .doneSelf _ v => .ok v
                  | .panic => .panic
                  | _ => .err .other) with
            | .panic => .panic
            | .err e => .err e
            | .ok val =>
              if frm = [] && isDocNil r2.con then .err .expectedObject
              else if o.limit > 0 ∧ acc + ((deepCopy o.esc val).2 : Int) > o.limit then .err .copySize
              else
                match afterCR r2 (withPath o r2 op.path fun _ con key =>
                    match conAdd o con key (deepCopy o.esc val).1 with
                    | .ok con' => (.ok (con', ()) : Outcome (Node × Unit))
                    | .err e => .err e
                    | .panic => .panic) with
                | some r3 => .ok (r3, acc + ((deepCopy o.esc val).2 : Int))
                | none => failCR (withPath o r2 op.path fun _ con key =>
                    match conAdd o con key (deepCopy o.esc val).1 with
                    | .ok con' => (.ok (con', ()) : Outcome (Node × Unit))
                    | .err e => .err e
                    | .panic => .panic) := by
  unfold opCopy
  cases op.frm with
  | none => rfl
  | some frm => rfl

theorem opCopy_same (o : Opts) {r₁ r₂ : Root} (h : SameCS r₁ r₂) (acc : Int) (op : Op) :
    OutSame2 (opCopy o r₁ acc op) (opCopy o r₂ acc op) := by
  rw [opCopy_eq_cr, opCopy_eq_cr]
  cases op.frm with
  | none => exact rfl
  | some frm =>
    simp only []
    rw [copyFirst_same o h]
    rcases afterCR_same h (copyFirst o r₂ frm) with ⟨h1, h2⟩ | ⟨a, b, h1, h2, hab⟩
    · rw [h1, h2]; exact OutSame2.refl _
    · rw [h1, h2]
      simp only []
      rw [withPath_same o hab]
      rcases afterCR_same hab (withPath o b op.path fun _ con _ => (.ok (con, ()) : Outcome (Node × Unit)))
        with ⟨h3, h4⟩ | ⟨a2, b2, h3, h4, hab2⟩
      · rw [h3, h4]; exact OutSame2.refl _
      · rw [h3, h4]
        simp only []
        rw [copySource_same o hab2, hab2.1]
        generalize (if frm = [] then (Outcome.ok b2.con : Outcome Node)
                else match copySource o b2 frm with
                  | .done _ v => .ok v
                  | .doneSelf _ v => .ok v
                  | .panic => .panic
                  | _ => .err .other) = src
        cases src with
        | panic => trivial
        | err e => exact rfl
        | ok val =>
          simp only []
          split
          · exact rfl
          · split
            · exact rfl
            · rw [withPath_same o hab2]
              rcases afterCR_same hab2 (withPath o b2 op.path fun _ con key =>
                  match conAdd o con key (deepCopy o.esc val).1 with
                  | .ok con' => (.ok (con', ()) : Outcome (Node × Unit))
                  | .err e => .err e
                  | .panic => .panic) with ⟨h5, h6⟩ | ⟨a3, b3, h5, h6, hab3⟩
              · rw [h5, h6]; exact OutSame2.refl _
              · rw [h5, h6]; exact ⟨hab3, rfl⟩

theorem applyOp_same (o : Opts) {r₁ r₂ : Root} (h : SameCS r₁ r₂) (acc : Int) (op : Op) :
    OutSame2 (applyOp o r₁ acc op) (applyOp o r₂ acc op) := by
  have lift : ∀ {x y : Outcome Root}, OutSame x y →
      OutSame2 (match x with | .ok r' => .ok (r', acc) | .err e => .err e | .panic => .panic)
        (match y with | .ok r' => .ok (r', acc) | .err e => .err e | .panic => .panic) := by
    intro x y hxy
    cases x <;> cases y <;> first | exact hxy.elim | exact ⟨hxy, rfl⟩ | exact hxy | trivial
  unfold applyOp
  simp only []
  split
  · exact lift (opAdd_same o h op)
  · split
    · exact lift (opRemove_same o h op)
    · split
      · exact lift (opReplace_same o h op)
      · split
        · exact lift (opMove_same o h op)
        · split
          · exact lift (opTest_same o h op)
          · split
            · exact opCopy_same o h acc op
            · exact rfl

theorem applyOps_same (o : Opts) (ops : List Op) : ∀ {r₁ r₂ : Root} (acc : Int), SameCS r₁ r₂ →
    OutSame (applyOps o r₁ acc ops) (applyOps o r₂ acc ops) := by
  induction ops with
  | nil => intro r₁ r₂ acc h; exact h
  | cons op ops ih =>
    intro r₁ r₂ acc h
    rw [applyOps_cons, applyOps_cons]
    have h1 := applyOp_same o h acc op
    cases hx : applyOp o r₁ acc op with
    | ok a =>
      rw [hx] at h1
      cases hy : applyOp o r₂ acc op with
      | ok b =>
        rw [hy] at h1
        simp only [Outcome.bind]
        rw [h1.2]
        exact ih b.2 h1.1
      | err e => rw [hy] at h1; exact h1.elim
      | panic => rw [hy] at h1; exact h1.elim
    | err e =>
      rw [hx] at h1
      cases hy : applyOp o r₂ acc op with
      | ok b => rw [hy] at h1; exact h1.elim
      | err e' => rw [hy] at h1; exact h1
      | panic => rw [hy] at h1; exact h1.elim
    | panic =>
      rw [hx] at h1
      cases hy : applyOp o r₂ acc op with
      | ok b => rw [hy] at h1; exact h1.elim
      | err e' => rw [hy] at h1; exact h1.elim
      | panic => trivial

/-- the final marshalling looks at the container only -/
theorem marshalRoot_same (esc : Bool) {r₁ r₂ : Root} (h : SameCS r₁ r₂) :
    marshalRoot esc r₁ = marshalRoot esc r₂ := by
  unfold marshalRoot
  rw [h.1]

/-- **`Apply` does not depend on the flag**: everything after `applyOps` -/
theorem applyTail_selfCR (o : Opts) (indent : Bytes) (con self : Node) (cr cr' : Bool) (ops : List Op) :
    (match applyOps o { con := con, self := self, selfCR := cr } 0 ops with
      | .panic => (.panic : Outcome Bytes)
      | .err e => .err e
      | .ok r =>
        match marshalRoot o.esc r with
        | .panic => .panic
        | .err e => .err e
        | .ok data => if indent = [] then .ok data else .ok ((Scanner.indent indent data).getD [])) =
    (match applyOps o { con := con, self := self, selfCR := cr' } 0 ops with
      | .panic => (.panic : Outcome Bytes)
      | .err e => .err e
      | .ok r =>
        match marshalRoot o.esc r with
        | .panic => .panic
        | .err e => .err e
        | .ok data => if indent = [] then .ok data else .ok ((Scanner.indent indent data).getD [])) := by
  have h := applyOps_same o ops (r₁ := { con := con, self := self, selfCR := cr })
    (r₂ := { con := con, self := self, selfCR := cr' }) 0 ⟨rfl, rfl⟩
  cases hx : applyOps o { con := con, self := self, selfCR := cr } 0 ops with
  | ok a =>
    rw [hx] at h
    cases hy : applyOps o { con := con, self := self, selfCR := cr' } 0 ops with
    | ok b => rw [hy] at h; simp only [marshalRoot_same o.esc h]
    | err e => rw [hy] at h; exact h.elim
    | panic => rw [hy] at h; exact h.elim
  | err e =>
    rw [hx] at h
    cases hy : applyOps o { con := con, self := self, selfCR := cr' } 0 ops with
    | ok b => rw [hy] at h; exact h.elim
    | err e' => rw [hy] at h; simp only [OutSame] at h; rw [h]
    | panic => rw [hy] at h; exact h.elim
  | panic =>
    rw [hx] at h
    cases hy : applyOps o { con := con, self := self, selfCR := cr' } 0 ops with
    | ok b => rw [hy] at h; exact h.elim
    | err e' => rw [hy] at h; exact h.elim
    | panic => rfl

end Impl
end JP
