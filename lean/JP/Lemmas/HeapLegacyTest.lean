import JP.Lemmas.HeapLegacyParse
import JP.Lemmas.HeapLegacyCopy

/-!
# The legacy `test`: the verdict of `equal` is the value model's on the abstraction; a successful
comparison leaves the visited part parsed, in place
-/

namespace JP
namespace Heap
namespace Lg

open JP.Impl (Outcome)
open JP.Legacy (Node NMembers walk Walk putChild conGet Op StrField ValField)

theorem hEqualTo_refines {h : Heap} {n : Node} {p : Ptr} {f : List Nat} (ov : ValField)
    (r : LRepr h n p f) :
    ∃ h', hEqualTo h p ov = .ok ((Legacy.equalTo n ov).1, h') ∧
      ((Legacy.equalTo n ov).1 = true → LStepP h p f h' (Legacy.equalTo n ov).2) ∧
      (p = none → h' = h) := by
  unfold hEqualTo Legacy.equalTo
  rw [abs_fuelOf r]
  cases ov with
  | absent => exact ⟨h, rfl, fun _ => ⟨f, r, Ext.refl _ _⟩, fun _ => rfl⟩
  | null => exact ⟨h, rfl, fun _ => ⟨f, r, Ext.refl _ _⟩, fun _ => rfl⟩
  | val c =>
    simp only
    by_cases he : Legacy.eqNC n c = true
    · simp only [he, if_true]
      refine ⟨_, rfl, fun _ => deepParseH_spec n r _ (by have := r.size_le; simp only [fuelOf]; omega),
        fun hp => ?_⟩
      subst hp; simp [fuelOf, deepParseH]
    · simp only [he]
      exact ⟨h, rfl, fun hb => by simp at hb, fun _ => rfl⟩

theorem testRoot_refines {s : St} {r : Node} {fp : List Nat} (ov : ValField)
    (hr : LRepr s.h r (some s.root) fp) :
    OutRel (LRelSt s.h fp) (testVerdict (hEqualTo s.h (some s.root) ov) s.root)
      (match Legacy.equalTo r ov with
       | (b, root') => if b then .ok root' else .err .testFailed) := by
  obtain ⟨h', heq, hstep, _⟩ := hEqualTo_refines ov hr
  rw [heq]
  cases hq : Legacy.equalTo r ov with
  | mk b con' =>
    rw [hq] at hstep
    simp only at hstep ⊢
    cases b with
    | false => simp [testVerdict]
    | true =>
      simp only [testVerdict, if_true, OutRel_ok_ok]
      obtain ⟨f', hr', e⟩ := hstep rfl
      exact ⟨f', hr', e⟩

theorem testAt_refines (neg : Bool) {s : St} {r : Node} {fp : List Nat} (path : Bytes) (op : Op)
    (hr : LRepr s.h r (some s.root) fp) :
    OutRel (LRelSt s.h fp) (testAt neg s path op)
      (Legacy.liftWalk (Legacy.withPath neg r path fun con key =>
        match conGet neg con key with
        | .panic => .panic
        | .err e => .err e
        | .ok .nil =>
          (match op.value with
           | .val _ => .err .testFailed
           | _ => .ok (con, ()))
        | .ok val =>
          match op.value with
          | .absent => .err .testFailed
          | ov =>
            match Legacy.equalTo val ov with
            | (b, val') => if b then .ok (putChild con key val', ()) else .err .testFailed)) := by
  unfold testAt
  have hF := findObject_refines neg r path hr
  cases hf : findObject neg s.h s.root path with
  | panic =>
    rw [hf] at hF; simp only [FoundP] at hF
    rw [hF]; simp [Legacy.liftWalk]
  | err e => rw [hf] at hF; simp only [FoundP] at hF
  | ok res =>
    obtain ⟨h1, oc⟩ := res
    rw [hf] at hF
    cases oc with
    | none =>
      simp only [FoundP] at hF
      rw [hF]; simp [Legacy.liftWalk]
    | some ck =>
      obtain ⟨c, key⟩ := ck
      simp only [FoundP] at hF
      obtain ⟨conc, fc, ctx, plug, hrc, dc, e1, hctx, vctx, hw⟩ := hF
      rw [hw]
      have vfc := LRepr.valid hrc
      rcases outCases (hGet_refines neg key hrc) with ⟨g1, g2⟩ | ⟨e, g1, g2⟩ | ⟨p, val, g1, g2, hG⟩
      · simp [g1, g2, doneOf, Legacy.liftWalk]
      · simp [g1, g2, doneOf, Legacy.liftWalk]
      · simp only [g1, g2]
        cases p with
        | none =>
          obtain ⟨f0, hr0, _⟩ := Got.repr hG
          obtain ⟨rfl, _⟩ := LRepr.none_iff hr0
          simp only
          cases op.value with
          | val cv => simp [doneOf, Legacy.liftWalk]
          | absent =>
            simp only [doneOf, Legacy.liftWalk, OutRel_ok_ok]
            obtain ⟨fpB, hrB, eB⟩ := ctx_close hrc dc e1 hctx
            exact ⟨fpB, hrB, eB⟩
          | null =>
            simp only [doneOf, Legacy.liftWalk, OutRel_ok_ok]
            obtain ⟨fpB, hrB, eB⟩ := ctx_close hrc dc e1 hctx
            exact ⟨fpB, hrB, eB⟩
        | some b =>
          obtain ⟨f, rest, hrv, dfr, sf, sr, hcr, wand⟩ := Got.some hG
          -- the value model takes its second branch: the node is not nil
          have hmatch : (match (Outcome.ok val : Outcome Node) with
              | .panic => (.panic : Outcome (Node × Unit))
              | .err e => .err e
              | .ok .nil =>
                (match op.value with
                 | .val _ => .err .testFailed
                 | _ => .ok (conc, ()))
              | .ok val =>
                match op.value with
                | .absent => .err .testFailed
                | ov =>
                  match Legacy.equalTo val ov with
                  | (b, val') => if b then .ok (putChild conc key val', ()) else .err .testFailed) =
              (match op.value with
                | .absent => .err .testFailed
                | ov =>
                  match Legacy.equalTo val ov with
                  | (b, val') => if b then .ok (putChild conc key val', ()) else .err .testFailed) := by
            cases val with
            | nil => simp only [LRepr] at hrv; cases hrv.1
            | rawNil => rfl
            | raw c => rfl
            | doc m => rfl
            | ary k => rfl
            | docNil => rfl
          rw [hmatch]
          -- the common end for `null` and a value
          have finish : ∀ ov : ValField,
              OutRel (LRelSt s.h fp) (testVerdict (hEqualTo h1 (some b) ov) s.root)
                (Legacy.liftWalk (doneOf plug
                  (match Legacy.equalTo val ov with
                   | (b, val') => if b then .ok (putChild conc key val', ()) else .err .testFailed))) := by
            intro ov
            obtain ⟨h', heq, hstep, _⟩ := hEqualTo_refines ov hrv
            rw [heq]
            cases hq : Legacy.equalTo val ov with
            | mk bb val' =>
              rw [hq] at hstep
              simp only at hstep ⊢
              cases bb with
              | false => simp [testVerdict, doneOf, Legacy.liftWalk]
              | true =>
                simp only [testVerdict, if_true, doneOf, Legacy.liftWalk, OutRel_ok_ok]
                obtain ⟨f', hr', e⟩ := hstep rfl
                have vrest : ∀ x ∈ rest, x < h1.length := fun x hx => vfc x (sr x hx)
                obtain ⟨fc', hrc', subc⟩ := wand h' val' f' hr'
                  (fun x hx => e.frame x (vrest x hx) (fun h1' => dfr x h1' hx))
                  (Disj.symm (Ext.disj e (Disj.symm dfr) vrest))
                obtain ⟨fp'', hr'', sub''⟩ := hctx h' _ fc' hrc'
                  (fun x hx => e.frame x (vctx x hx) (fun h1' => dc x (sf x h1') hx))
                  (fun x hx hy => by
                    rcases subc x hx with h1' | h1'
                    · rcases e.sub x h1' with h2 | h2
                      · exact dc x (sf x h2) hy
                      · have := vctx x hy; omega
                    · exact dc x (sr x h1') hy)
                refine ⟨fp'', hr'', Ext.trans e1 (Ext.widen e (fun x hx => by simp [sf x hx]) (fun x hx => ?_))⟩
                rcases sub'' x hx with h1' | h1'
                · rcases subc x h1' with h2 | h2
                  · exact Or.inl h2
                  · exact Or.inr (by simp [sr x h2])
                · exact Or.inr (by simp [h1'])
          cases hov : op.value with
          | absent => simp [doneOf, Legacy.liftWalk]
          | null => simpa using finish .null
          | val cv => simpa using finish (.val cv)

theorem opTest_refines (neg : Bool) {s : St} {r : Node} {fp : List Nat} (op : Op)
    (hr : LRepr s.h r (some s.root) fp) :
    OutRel (LRelSt s.h fp) (Lg.opTest neg s op) (Legacy.opTest neg r op) := by
  unfold Lg.opTest Legacy.opTest
  cases op.path with
  | missing => simp
  | bad => simp
  | ok path =>
    simp only
    by_cases hp : path = []
    · simp only [hp, if_true]
      exact testRoot_refines op.value hr
    · simp only [hp, if_false]
      exact testAt_refines neg path op hr

end Lg
end Heap
end JP
