import JP.Lemmas.OrderBasic

/-!
# The navigation function `Spec.atParent`: equations, inversion, an induction principle for
successful walks
-/

namespace JP
namespace Spec
open Value

theorem Res.bind_eq_ok {α β} {r : Res α} {f : α → Res β} {b : β} :
    r.bind f = .ok b ↔ ∃ a, r = .ok a ∧ f a = .ok b := by
  cases r <;> simp [Res.bind]

theorem Res.bind_ok {α β} (a : α) (f : α → Res β) : (Res.ok a).bind f = f a := rfl

variable {α : Type} {o : Opts} {f : Value → Bytes → Res (Value × α)}

theorem atParent_nil (v : Value) : atParent o f v [] = .unspec := by
  cases v <;> rfl

theorem atParent_single_obj (ms : Members) (t : Bytes) :
    atParent o f (.obj ms) [t] = f (.obj ms) t := rfl

theorem atParent_single_arr (xs : List Value) (t : Bytes) :
    atParent o f (.arr xs) [t] = f (.arr xs) t := rfl

theorem atParent_single_of_container {v : Value} (h : v.isContainer = true) (t : Bytes) :
    atParent o f v [t] = f v t := by
  cases v <;> simp [isContainer, isObj, isArr] at h <;> rfl

theorem atParent_single_of_not_container {v : Value} (h : v.isContainer = false) (t : Bytes) :
    atParent o f v [t] = .fail .parentUnreachable := by
  cases v <;> simp [isContainer, isObj, isArr] at h <;> rfl

theorem atParent_obj_cons (ms : Members) (t t2 : Bytes) (ts : List Bytes) :
    atParent o f (.obj ms) (t :: t2 :: ts) =
      match Value.lookup t ms with
      | none => .fail .parentUnreachable
      | some child =>
        (atParent o f child (t2 :: ts)).bind fun (c', a) => .ok (.obj (Value.set t c' ms), a) := rfl

theorem atParent_arr_cons (xs : List Value) (t t2 : Bytes) (ts : List Bytes) :
    atParent o f (.arr xs) (t :: t2 :: ts) =
      match readIdx o.neg xs.length t with
      | .unspec => .unspec
      | .bad => .fail .parentUnreachable
      | .at i =>
        match xs[i]? with
        | none => .fail .parentUnreachable
        | some child =>
          (atParent o f child (t2 :: ts)).bind fun (c', a) => .ok (.arr (setAt i c' xs), a) := rfl

theorem atParent_cons_of_not_container {v : Value} (h : v.isContainer = false) (t t2 : Bytes)
    (ts : List Bytes) : atParent o f v (t :: t2 :: ts) = .fail .parentUnreachable := by
  cases v <;> simp [isContainer, isObj, isArr] at h <;> rfl

/-- a successful walk starts at a container -/
theorem isContainer_of_atParent {v : Value} {p : List Bytes} {r : Value × α}
    (h : atParent o f v p = .ok r) : v.isContainer = true := by
  cases hc : v.isContainer with
  | true => rfl
  | false =>
    cases p with
    | nil => rw [atParent_nil] at h; cases h
    | cons t ts =>
      cases ts with
      | nil => rw [atParent_single_of_not_container hc] at h; cases h
      | cons t2 ts => rw [atParent_cons_of_not_container hc] at h; cases h

/-- inversion of a successful step through an object -/
theorem atParent_obj_cons_ok {ms : Members} {t t2 : Bytes} {ts : List Bytes} {d' : Value} {a : α}
    (h : atParent o f (.obj ms) (t :: t2 :: ts) = .ok (d', a)) :
    ∃ child c', Value.lookup t ms = some child ∧ atParent o f child (t2 :: ts) = .ok (c', a) ∧
      d' = .obj (Value.set t c' ms) := by
  rw [atParent_obj_cons] at h
  cases hl : Value.lookup t ms with
  | none => rw [hl] at h; cases h
  | some child =>
    rw [hl] at h
    obtain ⟨⟨c', a'⟩, h1, h2⟩ := Res.bind_eq_ok.1 h
    cases h2
    exact ⟨child, c', rfl, h1, rfl⟩

/-- inversion of a successful step through an array -/
theorem atParent_arr_cons_ok {xs : List Value} {t t2 : Bytes} {ts : List Bytes} {d' : Value} {a : α}
    (h : atParent o f (.arr xs) (t :: t2 :: ts) = .ok (d', a)) :
    ∃ i child c', readIdx o.neg xs.length t = .at i ∧ xs[i]? = some child ∧
      atParent o f child (t2 :: ts) = .ok (c', a) ∧ d' = .arr (setAt i c' xs) := by
  rw [atParent_arr_cons] at h
  cases hr : readIdx o.neg xs.length t with
  | unspec => rw [hr] at h; cases h
  | bad => rw [hr] at h; cases h
  | «at» i =>
    rw [hr] at h
    cases hx : xs[i]? with
    | none => simp only [hx] at h; cases h
    | some child =>
      simp only [hx] at h
      obtain ⟨⟨c', a'⟩, h1, h2⟩ := Res.bind_eq_ok.1 h
      cases h2
      exact ⟨i, child, c', rfl, hx, h1, rfl⟩

/-- induction over successful walks: the last step applies `f` to a container, an inner step
goes through an object member (and `set`s it) or an array element (and `setAt`s it) -/
theorem atParent_induct {motive : Value → List Bytes → Value → α → Prop}
    (leaf : ∀ v t d' a, v.isContainer = true → f v t = .ok (d', a) → motive v [t] d' a)
    (obj : ∀ ms t t2 ts child c' a, Value.lookup t ms = some child →
      atParent o f child (t2 :: ts) = .ok (c', a) → motive child (t2 :: ts) c' a →
      motive (.obj ms) (t :: t2 :: ts) (.obj (Value.set t c' ms)) a)
    (arr : ∀ xs t t2 ts i child c' a, readIdx o.neg xs.length t = .at i → xs[i]? = some child →
      atParent o f child (t2 :: ts) = .ok (c', a) → motive child (t2 :: ts) c' a →
      motive (.arr xs) (t :: t2 :: ts) (.arr (setAt i c' xs)) a) :
    ∀ (p : List Bytes) (v d' : Value) (a : α), atParent o f v p = .ok (d', a) → motive v p d' a
  | [], v, d', a, h => by rw [atParent_nil] at h; cases h
  | [t], v, d', a, h => by
    have hc := isContainer_of_atParent h
    rw [atParent_single_of_container hc] at h
    exact leaf v t d' a hc h
  | t :: t2 :: ts, v, d', a, h => by
    have hc := isContainer_of_atParent h
    cases v with
    | obj ms =>
      obtain ⟨child, c', hl, hrec, rfl⟩ := atParent_obj_cons_ok h
      exact obj ms t t2 ts child c' a hl hrec
        (atParent_induct leaf obj arr (t2 :: ts) child c' a hrec)
    | arr xs =>
      obtain ⟨i, child, c', hr, hx, hrec, rfl⟩ := atParent_arr_cons_ok h
      exact arr xs t t2 ts i child c' a hr hx hrec
        (atParent_induct leaf obj arr (t2 :: ts) child c' a hrec)
    | null => simp [isContainer, isObj, isArr] at hc
    | bool b => simp [isContainer, isObj, isArr] at hc
    | num l => simp [isContainer, isObj, isArr] at hc
    | str s => simp [isContainer, isObj, isArr] at hc

/-! ### the four container edits on objects -/

theorem addIn_obj (v : Value) (ms : Members) (t : Bytes) :
    addIn o v (.obj ms) t = .ok (.obj (Value.set t v ms), ()) := rfl

theorem removeIn_obj_ok {ms : Members} {t : Bytes} {d' old : Value}
    (h : removeIn o (.obj ms) t = .ok (d', old)) :
    Value.lookup t ms = some old ∧ d' = .obj (Value.erase t ms) := by
  simp only [removeIn] at h
  cases hl : Value.lookup t ms with
  | none => rw [hl] at h; cases h
  | some w => rw [hl] at h; cases h; exact ⟨rfl, rfl⟩

theorem replaceIn_obj_ok {v : Value} {ms : Members} {t : Bytes} {d' : Value} {u : Unit}
    (h : replaceIn o v (.obj ms) t = .ok (d', u)) :
    (Value.lookup t ms).isSome = true ∧ d' = .obj (Value.set t v ms) := by
  simp only [replaceIn] at h
  cases hl : Value.lookup t ms with
  | none => rw [hl] at h; cases h
  | some w => rw [hl] at h; cases h; exact ⟨rfl, rfl⟩

theorem getIn_ok {b : Bool} {parent : Value} {t : Bytes} {d' v : Value}
    (h : getIn o b parent t = .ok (d', v)) : d' = parent := by
  cases parent with
  | obj ms =>
    simp only [getIn] at h
    cases hl : Value.lookup t ms with
    | none => rw [hl] at h; cases b <;> simp at h; exact h.1.symm
    | some w => rw [hl] at h; cases h; rfl
  | arr xs =>
    simp only [getIn] at h
    cases hr : readIdx o.neg xs.length t with
    | unspec => rw [hr] at h; cases h
    | bad => rw [hr] at h; cases h
    | «at» i =>
      rw [hr] at h
      cases hx : xs[i]? with
      | none => simp only [hx] at h; cases h
      | some w => simp only [hx] at h; cases h; rfl
  | null => simp [getIn] at h
  | bool _ => simp [getIn] at h
  | num _ => simp [getIn] at h
  | str _ => simp [getIn] at h

/-! ### the four container edits on arrays -/

theorem addIn_arr_ok {v : Value} {xs : List Value} {t : Bytes} {d' : Value} {u : Unit}
    (h : addIn o v (.arr xs) t = .ok (d', u)) :
    ∃ i, slotIdx o.neg xs.length t = .at i ∧ d' = .arr (insertAt i v xs) := by
  simp only [addIn] at h
  cases hr : slotIdx o.neg xs.length t with
  | unspec => rw [hr] at h; cases h
  | bad => rw [hr] at h; cases h
  | «at» i => rw [hr] at h; cases h; exact ⟨i, rfl, rfl⟩

theorem removeIn_arr_ok {xs : List Value} {t : Bytes} {d' old : Value}
    (h : removeIn o (.arr xs) t = .ok (d', old)) :
    ∃ i, readIdx o.neg xs.length t = .at i ∧ xs[i]? = some old ∧ d' = .arr (xs.eraseIdx i) := by
  simp only [removeIn] at h
  cases hr : readIdx o.neg xs.length t with
  | unspec => rw [hr] at h; cases h
  | bad => rw [hr] at h; cases h
  | «at» i =>
    rw [hr] at h
    cases hx : xs[i]? with
    | none => simp only [hx] at h; cases h
    | some w => simp only [hx] at h; cases h; exact ⟨i, rfl, hx, rfl⟩

theorem replaceIn_arr_ok {v : Value} {xs : List Value} {t : Bytes} {d' : Value} {u : Unit}
    (h : replaceIn o v (.arr xs) t = .ok (d', u)) :
    ∃ i, readIdx o.neg xs.length t = .at i ∧ i < xs.length ∧ d' = .arr (setAt i v xs) := by
  simp only [replaceIn] at h
  cases hr : readIdx o.neg xs.length t with
  | unspec => rw [hr] at h; cases h
  | bad => rw [hr] at h; cases h
  | «at» i =>
    rw [hr] at h
    by_cases hi : i < xs.length
    · simp only [hi, if_true] at h; cases h; exact ⟨i, rfl, hi, rfl⟩
    · simp only [hi, if_false] at h; cases h

/-- an insertion slot lies within the array -/
theorem slotIdx_le {neg : Bool} {n : Nat} {t : Bytes} {i : Nat} (h : slotIdx neg n t = .at i) : i ≤ n := by
  simp only [slotIdx] at h
  split at h
  · split at h
    · split at h
      · cases h; assumption
      · cases h
    · split at h
      · cases h; omega
      · cases h
  · cases h
  · cases h; exact Nat.le_refl _
  · cases h

/-- an element index lies within the array -/
theorem readIdx_lt {neg : Bool} {n : Nat} {t : Bytes} {i : Nat} (h : readIdx neg n t = .at i) : i < n := by
  simp only [readIdx] at h
  split at h
  · split at h
    · split at h
      · cases h; assumption
      · cases h
    · split at h
      · rename_i j _ hneg hcond
        cases h
        have := hcond.2
        omega
      · cases h
  · cases h
  · cases h
  · cases h

end Spec
end JP
