import JP.Lemmas.TypedBasic

/-!
# The typed encoder prints a syntax tree

`cst` mirrors `enc` (same combinators `encAll`, `encEntries`, `encFields`, `sortKV`, same fuel), but
builds the `Cst` the encoder prints instead of the bytes; `enc_eq_print`: `enc = (cst).map Cst.print`.
Every statement about the structure of the output is proved on the tree.
-/

namespace JP
namespace Codec
namespace Typed

open JP.Codec.Enc (isValidNumber null)

/-! ### the tree -/

/-- a primitive: bare, or between quotes when the `string` option applies -/
def litOrStr (quoted : Bool) (b : Bytes) : Cst := if quoted then .str b else .lit b

def boolCst (quoted : Bool) : GoVal → Option Cst
  | .bool b => some (litOrStr quoted (if b then ascii "true" else ascii "false"))
  | _ => none

def intCst (quoted : Bool) : GoVal → Option Cst
  | .int n => some (litOrStr quoted (fmtInt n))
  | _ => none

def uintCst (quoted : Bool) : GoVal → Option Cst
  | .uint n => some (litOrStr quoted (decimal n))
  | _ => none

def stringCst (esc quoted : Bool) : GoVal → Option Cst
  | .str s => some (.str (if quoted then quoteBody false (goString esc s) else quoteBody esc s))
  | _ => none

def numberCst (quoted : Bool) : GoVal → Option Cst
  | .str s =>
    let numStr := if s.isEmpty then [48] else s
    if isValidNumber numStr then some (litOrStr quoted numStr) else none
  | _ => none

def bytesCst : GoVal → Option Cst
  | .nil => some (.lit null)
  | .bytes b => some (.str (base64 b))
  | _ => none

def arrayCstBody (f : GoVal → Option Cst) (xs : List GoVal) : Option Cst :=
  match encAll f xs with
  | none => none
  | some cs => some (.arr cs)

def arrayCst (f : GoVal → Option Cst) (n : Nat) : GoVal → Option Cst
  | .list xs => if xs.length = n then arrayCstBody f xs else none
  | _ => none

def sliceCst (f : GoVal → Option Cst) : GoVal → Option Cst
  | .nil => some (.lit null)
  | .list xs => arrayCstBody f xs
  | _ => none

def ptrCst (f : GoVal → Option Cst) : GoVal → Option Cst
  | .nil => some (.lit null)
  | .ptr v => f v
  | _ => none

def ifaceCst (f : GoType → GoVal → Option Cst) : GoVal → Option Cst
  | .nil => some (.lit null)
  | .iface t v => f t v
  | _ => none

/-- map entries as members: the key text spelled by `e.string` -/
def keyMembers (esc : Bool) : List (Bytes × Cst) → List (Bytes × Cst)
  | [] => []
  | (k, c) :: r => (quoteBody esc k, c) :: keyMembers esc r

def mapCst (esc : Bool) (f : GoVal → Option Cst) : GoVal → Option Cst
  | .nil => some (.lit null)
  | .map ms =>
    (match encEntries f ms with
     | none => none
     | some kvs => some (.obj (keyMembers esc (sortKV kvs))))
  | _ => none

/-- the spelling of a field name between the quotes -/
def nameBody (esc : Bool) (n : Bytes) : Bytes := if esc then Scanner.htmlEscape 0 n else n

def nameMembers (esc : Bool) : List (Bytes × Cst) → List (Bytes × Cst)
  | [] => []
  | (n, c) :: r => (nameBody esc n, c) :: nameMembers esc r

def structCst (esc : Bool) (f : Bool → GoType → GoVal → Option Cst) (t : GoType) (v : GoVal) : Option Cst :=
  match v with
  | .struct _ =>
    (match encFields f t v (typeFields t) with
     | none => none
     | some ms => some (.obj (nameMembers esc ms)))
  | _ => none

def cstT (esc : Bool) (f : Bool → GoType → GoVal → Option Cst) (quoted : Bool) (t : GoType) (v : GoVal) : Option Cst :=
  match t with
  | .bool => boolCst quoted v
  | .int _ => intCst quoted v
  | .uint _ => uintCst quoted v
  | .string => stringCst esc quoted v
  | .number => numberCst quoted v
  | .iface => ifaceCst (f quoted) v
  | .struct n fs => structCst esc f (.struct n fs) v
  | .map _ e => mapCst esc (f quoted e) v
  | .slice e => if e.isUint8 then bytesCst v else sliceCst (f quoted e) v
  | .array n e => arrayCst (f quoted e) n v
  | .ptr e => ptrCst (f quoted e) v

def cst (esc : Bool) : Nat → Bool → GoType → GoVal → Option Cst
  | 0, _, _, _ => none
  | fuel + 1, quoted, t, v => cstT esc (cst esc fuel) quoted t v

/-- the tree `marshalTyped` prints -/
def typedCst (esc : Bool) (t : GoType) (v : GoVal) : Option Cst := cst esc (v.height + 1) false t v

/-! ### the combinators commute with a map on the results -/

theorem encAll_map {α β : Type} (h : α → β) (f : GoVal → Option β) (g : GoVal → Option α)
    (hf : ∀ v, f v = (g v).map h) : ∀ xs, encAll f xs = (encAll g xs).map (List.map h)
  | [] => rfl
  | x :: xs => by
    simp only [encAll, hf x, encAll_map h f g hf xs]
    cases g x with
    | none => rfl
    | some a =>
      cases encAll g xs with
      | none => rfl
      | some as => rfl

def mapSnd {α β : Type} (h : α → β) : List (Bytes × α) → List (Bytes × β)
  | [] => []
  | (k, a) :: r => (k, h a) :: mapSnd h r

theorem encEntries_map {α β : Type} (h : α → β) (f : GoVal → Option β) (g : GoVal → Option α)
    (hf : ∀ v, f v = (g v).map h) : ∀ ms, encEntries f ms = (encEntries g ms).map (mapSnd h)
  | [] => rfl
  | (k, v) :: ms => by
    simp only [encEntries, hf v, encEntries_map h f g hf ms]
    cases g v with
    | none => rfl
    | some a =>
      cases encEntries g ms with
      | none => rfl
      | some as => rfl

theorem encFields_map {α β : Type} (h : α → β) (f : Bool → GoType → GoVal → Option β)
    (g : Bool → GoType → GoVal → Option α) (hf : ∀ q t v, f q t v = (g q t v).map h) (t : GoType) (v : GoVal) :
    ∀ flds, encFields f t v flds = (encFields g t v flds).map (mapSnd h)
  | [] => rfl
  | fld :: flds => by
    simp only [encFields, encFields_map h f g hf t v flds]
    cases walk fld.index v with
    | skip => rfl
    | bad => rfl
    | val fv =>
      simp only []
      by_cases he : (fld.omitEmpty && isEmptyValue (typeByIndex t fld.index) fv) = true
      · simp only [he, if_true]
      · simp only [he, hf]
        cases g fld.quoted (typeByIndex t fld.index) fv with
        | none => rfl
        | some a =>
          cases encFields g t v flds with
          | none => rfl
          | some as => rfl

theorem insertKV_map {α β : Type} (h : α → β) (k : Bytes) (a : α) :
    ∀ l : List (Bytes × α), insertKV k (h a) (mapSnd h l) = mapSnd h (insertKV k a l)
  | [] => rfl
  | (k', a') :: l => by
    simp only [mapSnd, insertKV]
    cases hk : bytesLt k k' with
    | true => simp only [if_true, mapSnd]
    | false => simp only [Bool.false_eq_true, if_false, mapSnd, insertKV_map h k a l]

theorem sortKV_map {α β : Type} (h : α → β) : ∀ l : List (Bytes × α), sortKV (mapSnd h l) = mapSnd h (sortKV l)
  | [] => rfl
  | (k, a) :: l => by
    simp only [mapSnd, sortKV, sortKV_map h l, insertKV_map]

/-! ### printing -/

theorem joinComma_print : ∀ cs : List Cst, joinComma (cs.map Cst.print) = Cst.printL cs
  | [] => rfl
  | [c] => by simp only [List.map, joinComma, Cst.printL]
  | c :: d :: cs => by
    have ih := joinComma_print (d :: cs)
    simp only [List.map] at ih
    simp only [List.map, joinComma, Cst.printL, ih]

theorem emitEntries_print (esc : Bool) : ∀ l : List (Bytes × Cst),
    emitEntries esc (mapSnd Cst.print l) = Cst.printM (keyMembers esc l)
  | [] => rfl
  | [(k, c)] => by
    simp only [mapSnd, emitEntries, keyMembers, Cst.printM, goString, List.cons_append, List.append_assoc, List.nil_append]
  | (k, c) :: (k', c') :: l => by
    have ih := emitEntries_print esc ((k', c') :: l)
    simp only [mapSnd, keyMembers] at ih
    simp only [mapSnd, emitEntries, keyMembers, Cst.printM, goString, List.cons_append, List.append_assoc,
      List.nil_append, ih]

theorem emitMembers_print (esc : Bool) : ∀ l : List (Bytes × Cst),
    emitMembers esc (mapSnd Cst.print l) = Cst.printM (nameMembers esc l)
  | [] => rfl
  | [(k, c)] => by
    simp only [mapSnd, emitMembers, nameMembers, Cst.printM, fieldName, nameBody, List.cons_append, List.append_assoc,
      List.nil_append]
  | (k, c) :: (k', c') :: l => by
    have ih := emitMembers_print esc ((k', c') :: l)
    simp only [mapSnd, nameMembers] at ih
    simp only [mapSnd, emitMembers, nameMembers, Cst.printM, fieldName, nameBody, List.cons_append, List.append_assoc,
      List.nil_append, ih]

theorem print_litOrStr (q : Bool) (b : Bytes) : Cst.print (litOrStr q b) = wrapQuoted q b := by
  cases q <;> simp [litOrStr, wrapQuoted, Cst.print]

/-! ### `enc = print ∘ cst` -/

theorem arrayBody_eq_print (f : GoVal → Option Bytes) (g : GoVal → Option Cst)
    (hf : ∀ v, f v = (g v).map Cst.print) (xs : List GoVal) :
    arrayBody f xs = (arrayCstBody g xs).map Cst.print := by
  simp only [arrayBody, arrayCstBody, encAll_map Cst.print f g hf xs]
  cases encAll g xs with
  | none => rfl
  | some cs => simp only [Option.map_some, joinComma_print, Cst.print]

theorem encT_eq (esc : Bool) (f : Bool → GoType → GoVal → Option Bytes) (g : Bool → GoType → GoVal → Option Cst)
    (hf : ∀ q t v, f q t v = (g q t v).map Cst.print) (q : Bool) (t : GoType) (v : GoVal) :
    encT esc f q t v = (cstT esc g q t v).map Cst.print := by
  cases t with
  | bool =>
    simp only [encT, cstT]
    cases v <;> simp only [boolEncoder, boolCst, Option.map_none, Option.map_some, print_litOrStr]
  | int k =>
    simp only [encT, cstT]
    cases v <;> simp only [intEncoder, intCst, Option.map_none, Option.map_some, print_litOrStr]
  | uint k =>
    simp only [encT, cstT]
    cases v <;> simp only [uintEncoder, uintCst, Option.map_none, Option.map_some, print_litOrStr]
  | string =>
    simp only [encT, cstT]
    cases v <;> simp only [stringEncoder, stringCst, Option.map_none, Option.map_some]
    cases q <;> simp [goString, Cst.print]
  | number =>
    simp only [encT, cstT]
    cases v with
    | str s =>
      simp only [numberEncoder, numberCst]
      cases hn : isValidNumber (if s.isEmpty = true then [48] else s) <;> simp [print_litOrStr]
    | _ => rfl
  | iface =>
    simp only [encT, cstT]
    cases v <;> simp only [interfaceEncoder, ifaceCst, Option.map_none, Option.map_some, hf, Cst.print]
  | struct n fs =>
    simp only [encT, cstT]
    cases v <;> simp only [structEncoder, structCst, Option.map_none]
    rw [encFields_map Cst.print f g hf]
    cases encFields g (.struct n fs) _ (typeFields (.struct n fs)) with
    | none => rfl
    | some ms => simp only [Option.map_some, emitMembers_print, Cst.print]
  | map k e =>
    simp only [encT, cstT]
    cases v <;> simp only [mapEncoder, mapCst, Option.map_none, Option.map_some, Cst.print]
    rw [encEntries_map Cst.print (f q e) (g q e) (hf q e)]
    cases encEntries (g q e) _ with
    | none => rfl
    | some kvs => simp only [Option.map_some, sortKV_map, emitEntries_print, Cst.print]
  | slice e =>
    simp only [encT, cstT]
    cases hu : e.isUint8 with
    | true =>
      simp only [if_true]
      cases v <;> simp only [encodeByteSlice, bytesCst, Option.map_none, Option.map_some, Cst.print]
    | false =>
      simp only [Bool.false_eq_true, if_false]
      cases v <;> simp only [sliceEncoder, sliceCst, Option.map_none, Option.map_some, Cst.print,
        arrayBody_eq_print (f q e) (g q e) (hf q e)]
  | array n e =>
    simp only [encT, cstT]
    cases v <;> simp only [arrayEncoder, arrayCst, Option.map_none]
    split
    · exact arrayBody_eq_print (f q e) (g q e) (hf q e) _
    · rfl
  | ptr e =>
    simp only [encT, cstT]
    cases v <;> simp only [ptrEncoder, ptrCst, Option.map_none, Option.map_some, Cst.print, hf]

theorem enc_eq_print (esc : Bool) : ∀ (fuel : Nat) (q : Bool) (t : GoType) (v : GoVal),
    enc esc fuel q t v = (cst esc fuel q t v).map Cst.print
  | 0, _, _, _ => rfl
  | fuel + 1, q, t, v => by
    simp only [enc, cst]
    exact encT_eq esc (enc esc fuel) (cst esc fuel) (enc_eq_print esc fuel) q t v

theorem marshalTyped_eq_print (esc : Bool) (t : GoType) (v : GoVal) :
    marshalTyped esc t v = (typedCst esc t v).map Cst.print :=
  enc_eq_print esc _ false t v

end Typed
end Codec
end JP
