import JP.Lemmas.EscPrint
import JP.Lemmas.ParseWs

/-!
# T2: the escapes and raw line separators of the bodies of a parsed tree occur in the text

`parse_escs`: `parseValue f d x = some (c, r)` splits `x = t ++ r` with `t` complete (`Cpl`) and every
body of `c` having its HTML-class escapes among those of `t` and its raw U+2028/U+2029 among those
of `t` (`CA (AT t) c`).  Hence `parseCst_CA`.
-/

namespace JP
namespace Impl

/-- allowed by the text `t`: an escape of `t`, or a raw line separator of `t` -/
def AT (t : Bytes) (v : Nat) : Prop := v ∈ hE t ∨ v ∈ rawLineSeps t

theorem AT_left {a b : Bytes} (ha : Cpl a) {v : Nat} (h : AT a v) : AT (a ++ b) v := by
  rcases h with h | h
  · left; rw [ha b]; exact List.mem_append_left _ h
  · right; exact rawLineSeps_prefix a b v h

theorem AT_right {a b : Bytes} (ha : Cpl a) {v : Nat} (h : AT b v) : AT (a ++ b) v := by
  rcases h with h | h
  · left; rw [ha b]; exact List.mem_append_right _ h
  · right; exact rawLineSeps_suffix a b v h

theorem BA_mono {A B : Nat → Prop} (h : ∀ v, A v → B v) {b : Bytes} (hb : BA A b) : BA B b :=
  ⟨fun v hv => h v (hb.1 v hv), fun v hv => h v (hb.2 v hv)⟩

mutual
theorem CA_mono {A B : Nat → Prop} (h : ∀ v, A v → B v) : ∀ c : Cst, CA A c → CA B c
  | .lit _, _ => by simp [CA]
  | .str b, hc => by simp only [CA] at hc ⊢; exact BA_mono h hc
  | .arr xs, hc => by simp only [CA] at hc ⊢; exact CAL_mono h xs hc
  | .obj ms, hc => by simp only [CA] at hc ⊢; exact CAM_mono h ms hc
theorem CAL_mono {A B : Nat → Prop} (h : ∀ v, A v → B v) : ∀ xs : List Cst, CAL A xs → CAL B xs
  | [], _ => by simp [CAL]
  | x :: xs, hc => by simp only [CAL] at hc ⊢; exact ⟨CA_mono h x hc.1, CAL_mono h xs hc.2⟩
theorem CAM_mono {A B : Nat → Prop} (h : ∀ v, A v → B v) : ∀ ms : List (Bytes × Cst), CAM A ms → CAM B ms
  | [], _ => by simp [CAM]
  | (k, v) :: ms, hc => by
    simp only [CAM] at hc ⊢
    exact ⟨BA_mono h hc.1, CA_mono h v hc.2.1, CAM_mono h ms hc.2.2⟩
end

/-! ### pieces of text -/

theorem isWs_ne {c : UInt8} (h : isWs c = true) : c ≠ 92 := by
  rintro rfl; revert h; decide

theorem skipWs_split : ∀ x : Bytes, ∃ ws, x = ws ++ skipWs x ∧ ∀ c ∈ ws, isWs c = true
  | [] => ⟨[], rfl, by simp⟩
  | c :: cs => by
    simp only [skipWs]
    split
    · rename_i hc
      obtain ⟨ws, h1, h2⟩ := skipWs_split cs
      refine ⟨c :: ws, by rw [List.cons_append, ← h1], ?_⟩
      intro x hx
      simp only [List.mem_cons] at hx
      rcases hx with rfl | hx
      · exact hc
      · exact h2 x hx
    · exact ⟨[], rfl, by simp⟩

theorem Cpl_ws {ws : Bytes} (h : ∀ c ∈ ws, isWs c = true) : Cpl ws :=
  (Cpl_noBS ws (fun c hc => isWs_ne (h c hc))).1

theorem parseStrBody_split (x : Bytes) : ∀ (b r : Bytes), parseStrBody x = some (b, r) → x = b ++ 34 :: r := by
  fun_induction parseStrBody x <;> intro b r h
  all_goals try (simp at h; done)
  · simp only [Option.some.injEq, Prod.mk.injEq] at h
    obtain ⟨rfl, rfl⟩ := h
    rfl
  · rename_i e cs he _ ih
    cases hp : parseStrBody cs with
    | none => rw [hp] at h; simp at h
    | some q =>
      obtain ⟨b', r'⟩ := q
      rw [hp] at h
      simp only [Option.map_some, Option.some.injEq, Prod.mk.injEq] at h
      obtain ⟨rfl, rfl⟩ := h
      rw [ih b' r' hp]; rfl
  · rename_i h1 h2 h3 h4 cs hh _ _ ih
    cases hp : parseStrBody cs with
    | none => rw [hp] at h; simp at h
    | some q =>
      obtain ⟨b', r'⟩ := q
      rw [hp] at h
      simp only [Option.map_some, Option.some.injEq, Prod.mk.injEq] at h
      obtain ⟨rfl, rfl⟩ := h
      rw [ih b' r' hp]; rfl
  · rename_i c cs hc1 hc2 hc3 ih
    cases hp : parseStrBody cs with
    | none => rw [hp] at h; simp at h
    | some q =>
      obtain ⟨b', r'⟩ := q
      rw [hp] at h
      simp only [Option.map_some, Option.some.injEq, Prod.mk.injEq] at h
      obtain ⟨rfl, rfl⟩ := h
      rw [ih b' r' hp]; rfl

/-- a string token -/
theorem str_seg (cs b r : Bytes) (h : parseStrBody cs = some (b, r)) :
    (34 :: cs) = (34 :: b ++ [34]) ++ r ∧ Cpl (34 :: b ++ [34]) ∧ BA (AT (34 :: b ++ [34])) b := by
  have hs := parseStrBody_split cs b r h
  have hv : validBody b = true := (validBody_eq_true_iff b).2 (parseStrBody_sound_A cs b r h)
  obtain ⟨c1, c2⟩ := Cpl_quoted hv
  refine ⟨by rw [hs]; simp, c1, ?_, ?_⟩
  · intro v hv'; left; rw [c2]; exact hv'
  · intro v hv'; right
    have := rawLineSeps_prefix b [34] v hv'
    exact rawLineSeps_suffix [34] (b ++ [34]) v this

theorem lit_seg (w bs : Bytes) (q : Cst × Bytes) (_hw : ∀ c ∈ w, c ≠ 92) (h : parseLit w bs = some q) :
    bs = w ++ q.2 ∧ q.1 = .lit w := by
  simp only [parseLit] at h
  split at h
  · rename_i hp
    obtain ⟨t, rfl⟩ := isPrefix_split w bs hp
    simp only [Option.some.injEq] at h
    subst h
    simp
  · cases h

theorem Option.map_eq_some_pair {α β : Type} {g : α × Bytes → β × Bytes} {a : Option (α × Bytes)} {r : β × Bytes}
    (h : a.map g = some r) : ∃ q, a = some q ∧ g q = r := by
  cases a with
  | none => simp at h
  | some q => exact ⟨q, rfl, by simpa using h⟩

/-! ### the parser -/

theorem parse_escs_aux : ∀ (f : Nat),
    (∀ d x c r, parseValue f d x = some (c, r) → ∃ t, x = t ++ r ∧ Cpl t ∧ CA (AT t) c) ∧
    (∀ d x xs r, parseElems f d x = some (xs, r) → ∃ t, x = t ++ r ∧ Cpl t ∧ CAL (AT t) xs) ∧
    (∀ d x ms r, parseMembers f d x = some (ms, r) → ∃ t, x = t ++ r ∧ Cpl t ∧ CAM (AT t) ms)
  | 0 => by
    refine ⟨?_, ?_, ?_⟩
    · intro d x c r h; simp [parseValue] at h
    · intro d x xs r h; simp [parseElems] at h
    · intro d x ms r h; simp [parseMembers] at h
  | f + 1 => by
    obtain ⟨ihv, ihe, ihm⟩ := parse_escs_aux f
    refine ⟨?_, ?_, ?_⟩
    · intro d x c r h
      cases x with
      | nil => simp [parseValue] at h
      | cons c0 cs =>
        rw [parseValue] at h
        obtain ⟨ws, hws, hwsw⟩ := skipWs_split cs
        have cws := Cpl_ws hwsw
        split at h
        · rename_i h123
          subst h123
          split at h
          · simp at h
          · split at h
            · rename_i r0 hsk
              simp only [Option.some.injEq, Prod.mk.injEq] at h
              obtain ⟨rfl, rfl⟩ := h
              refine ⟨123 :: (ws ++ [125]), by rw [hws, hsk]; simp, Cpl_plain (by decide)
                (Cpl_append cws (Cpl_single (by decide))), by simp [CA, CAM]⟩
            · obtain ⟨⟨ms, r'⟩, hm, hq⟩ := Option.map_eq_some_pair h
              simp only [Prod.mk.injEq] at hq
              obtain ⟨rfl, rfl⟩ := hq
              obtain ⟨t', ht', ct', ca⟩ := ihm _ _ ms r' hm
              have cpre : Cpl (123 :: ws) := Cpl_plain (by decide) cws
              refine ⟨(123 :: ws) ++ t', by rw [hws, ht']; simp, Cpl_append cpre ct', ?_⟩
              simp only [CA]
              exact CAM_mono (fun v hv => AT_right cpre hv) ms ca
        · rename_i h123
          split at h
          · rename_i h91
            subst h91
            split at h
            · simp at h
            · split at h
              · rename_i r0 hsk
                simp only [Option.some.injEq, Prod.mk.injEq] at h
                obtain ⟨rfl, rfl⟩ := h
                refine ⟨91 :: (ws ++ [93]), by rw [hws, hsk]; simp, Cpl_plain (by decide)
                  (Cpl_append cws (Cpl_single (by decide))), by simp [CA, CAL]⟩
              · obtain ⟨⟨xs, r'⟩, hm, hq⟩ := Option.map_eq_some_pair h
                simp only [Prod.mk.injEq] at hq
                obtain ⟨rfl, rfl⟩ := hq
                obtain ⟨t', ht', ct', ca⟩ := ihe _ _ xs r' hm
                have cpre : Cpl (91 :: ws) := Cpl_plain (by decide) cws
                refine ⟨(91 :: ws) ++ t', by rw [hws, ht']; simp, Cpl_append cpre ct', ?_⟩
                simp only [CA]
                exact CAL_mono (fun v hv => AT_right cpre hv) xs ca
          · rename_i h91
            split at h
            · rename_i h34
              subst h34
              obtain ⟨⟨b, r'⟩, hm, hq⟩ := Option.map_eq_some_pair h
              simp only [Prod.mk.injEq] at hq
              obtain ⟨rfl, rfl⟩ := hq
              obtain ⟨e1, e2, e3⟩ := str_seg cs b r' hm
              exact ⟨_, e1, e2, by simp only [CA]; exact e3⟩
            · rename_i h34
              have hlit : ∀ w : Bytes, (∀ c ∈ w, c ≠ 92) → parseLit w (c0 :: cs) = some (c, r) →
                  ∃ t, c0 :: cs = t ++ r ∧ Cpl t ∧ CA (AT t) c := by
                intro w hw hl
                obtain ⟨e1, e2⟩ := lit_seg w (c0 :: cs) (c, r) hw hl
                simp only at e1 e2
                subst e2
                exact ⟨w, e1, (Cpl_noBS w hw).1, by simp [CA]⟩
              split at h
              · exact hlit _ (by decide) h
              · split at h
                · exact hlit _ (by decide) h
                · split at h
                  · exact hlit _ (by decide) h
                  · obtain ⟨⟨l, r'⟩, hm, hq⟩ := Option.map_eq_some_pair h
                    simp only [Prod.mk.injEq] at hq
                    obtain ⟨rfl, rfl⟩ := hq
                    obtain ⟨e1, e2⟩ := parseNumber_eq_append _ l r' hm
                    exact ⟨l, e1, (Cpl_noBS l (fun c hc => numChar_ne (e2 c hc))).1, by simp [CA]⟩
    · intro d x xs r h
      rw [parseElems] at h
      cases hv : parseValue f d x with
      | none => rw [hv] at h; simp at h
      | some p =>
        obtain ⟨v, r1⟩ := p
        rw [hv] at h
        simp only at h
        obtain ⟨t1, ht1, ct1, ca1⟩ := ihv d x v r1 hv
        obtain ⟨ws, hws, hwsw⟩ := skipWs_split r1
        have cws := Cpl_ws hwsw
        split at h
        · rename_i r' hsk
          simp only [Option.some.injEq, Prod.mk.injEq] at h
          obtain ⟨rfl, rfl⟩ := h
          refine ⟨t1 ++ (ws ++ [93]), by rw [ht1, hws, hsk]; simp,
            Cpl_append ct1 (Cpl_append cws (Cpl_single (by decide))), ?_⟩
          simp only [CAL, and_true]
          exact CA_mono (fun v hv => AT_left ct1 hv) _ ca1
        · rename_i r' hsk
          obtain ⟨⟨ys, r''⟩, hm, hq⟩ := Option.map_eq_some_pair h
          simp only [Prod.mk.injEq] at hq
          obtain ⟨rfl, rfl⟩ := hq
          obtain ⟨ws2, hws2, hwsw2⟩ := skipWs_split r'
          have cws2 := Cpl_ws hwsw2
          obtain ⟨t2, ht2, ct2, ca2⟩ := ihe d _ ys r'' hm
          have cmid : Cpl (ws ++ (44 :: ws2)) := Cpl_append cws (Cpl_plain (by decide) cws2)
          have cpre : Cpl (t1 ++ (ws ++ (44 :: ws2))) := Cpl_append ct1 cmid
          refine ⟨(t1 ++ (ws ++ (44 :: ws2))) ++ t2, ?_, Cpl_append cpre ct2, ?_⟩
          · rw [ht1, hws, hsk, hws2, ht2]; simp
          · simp only [CAL]
            refine ⟨CA_mono (fun v hv => ?_) _ ca1, CAL_mono (fun v hv => AT_right cpre hv) _ ca2⟩
            have : AT (t1 ++ ((ws ++ (44 :: ws2)) ++ t2)) v := AT_left ct1 hv
            rwa [← List.append_assoc] at this
        · simp at h
    · intro d x ms r h
      rw [parseMembers.eq_def] at h
      simp only at h
      split at h
      · rename_i cs
        cases hk : parseStrBody cs with
        | none => rw [hk] at h; simp at h
        | some p =>
          obtain ⟨k, r1⟩ := p
          rw [hk] at h
          simp only at h
          obtain ⟨e1, e2, e3⟩ := str_seg cs k r1 hk
          obtain ⟨ws, hws, hwsw⟩ := skipWs_split r1
          have cws := Cpl_ws hwsw
          split at h
          · rename_i r2 hsk
            obtain ⟨ws1, hws1, hwsw1⟩ := skipWs_split r2
            have cws1 := Cpl_ws hwsw1
            cases hv : parseValue f d (skipWs r2) with
            | none => rw [hv] at h; simp at h
            | some p =>
              obtain ⟨v, r3⟩ := p
              rw [hv] at h
              simp only at h
              obtain ⟨tv, htv, ctv, cav⟩ := ihv d _ v r3 hv
              obtain ⟨ws3, hws3, hwsw3⟩ := skipWs_split r3
              have cws3 := Cpl_ws hwsw3
              -- the key, the colon, the value
              have ckey : Cpl ((34 :: k ++ [34]) ++ (ws ++ (58 :: ws1))) :=
                Cpl_append e2 (Cpl_append cws (Cpl_plain (by decide) cws1))
              have chead : Cpl (((34 :: k ++ [34]) ++ (ws ++ (58 :: ws1))) ++ tv) := Cpl_append ckey ctv
              have hkey : ∀ (y : Bytes), BA (AT ((((34 :: k ++ [34]) ++ (ws ++ (58 :: ws1))) ++ tv) ++ y)) k := by
                intro y
                refine BA_mono (fun v hv => ?_) e3
                have : AT ((34 :: k ++ [34]) ++ ((ws ++ (58 :: ws1)) ++ tv ++ y)) v := AT_left e2 hv
                simpa [List.append_assoc] using this
              have hval : ∀ (y : Bytes), CA (AT ((((34 :: k ++ [34]) ++ (ws ++ (58 :: ws1))) ++ tv) ++ y)) v := by
                intro y
                refine CA_mono (fun u hu => ?_) _ cav
                exact AT_left chead (AT_right ckey hu)
              split at h
              · rename_i r4 hsk3
                simp only [Option.some.injEq, Prod.mk.injEq] at h
                obtain ⟨rfl, rfl⟩ := h
                refine ⟨(((34 :: k ++ [34]) ++ (ws ++ (58 :: ws1))) ++ tv) ++ (ws3 ++ [125]), ?_,
                  Cpl_append chead (Cpl_append cws3 (Cpl_single (by decide))), ?_⟩
                · rw [e1, hws, hsk, hws1, htv, hws3, hsk3]; simp
                · simp only [CAM, and_true]
                  exact ⟨hkey _, hval _⟩
              · rename_i r4 hsk3
                obtain ⟨⟨ms', r5⟩, hm, hq⟩ := Option.map_eq_some_pair h
                simp only [Prod.mk.injEq] at hq
                obtain ⟨rfl, rfl⟩ := hq
                obtain ⟨ws4, hws4, hwsw4⟩ := skipWs_split r4
                have cws4 := Cpl_ws hwsw4
                obtain ⟨tm, htm, ctm, cam⟩ := ihm d _ ms' r5 hm
                have csep : Cpl (ws3 ++ (44 :: ws4)) := Cpl_append cws3 (Cpl_plain (by decide) cws4)
                have cpre : Cpl ((((34 :: k ++ [34]) ++ (ws ++ (58 :: ws1))) ++ tv) ++ (ws3 ++ (44 :: ws4))) :=
                  Cpl_append chead csep
                refine ⟨((((34 :: k ++ [34]) ++ (ws ++ (58 :: ws1))) ++ tv) ++ (ws3 ++ (44 :: ws4))) ++ tm, ?_,
                  Cpl_append cpre ctm, ?_⟩
                · rw [e1, hws, hsk, hws1, htv, hws3, hsk3, hws4, htm]; simp
                · simp only [CAM]
                  refine ⟨?_, ?_, CAM_mono (fun u hu => AT_right cpre hu) _ cam⟩
                  · have := hkey ((ws3 ++ (44 :: ws4)) ++ tm)
                    simpa [List.append_assoc] using this
                  · have := hval ((ws3 ++ (44 :: ws4)) ++ tm)
                    simpa [List.append_assoc] using this
              · simp at h
          · simp at h
      · simp at h

/-- **T2** -/
theorem parseCst_CA (x : Bytes) (c : Cst) (h : parseCst x = some c) : Cpl x ∧ CA (AT x) c := by
  unfold parseCst at h
  cases hv : parseValue (x.length + 1) 0 (skipWs x) with
  | none => rw [hv] at h; cases h
  | some p =>
    obtain ⟨c', r⟩ := p
    rw [hv] at h
    simp only at h
    split at h
    · rename_i hr
      simp only [Option.some.injEq] at h
      subst h
      obtain ⟨t, ht, ct, ca⟩ := (parse_escs_aux _).1 0 _ c' r hv
      obtain ⟨ws, hws, hwsw⟩ := skipWs_split x
      have cws := Cpl_ws hwsw
      obtain ⟨ws2, hws2, hwsw2⟩ := skipWs_split r
      have hr' : skipWs r = [] := by simpa using hr
      rw [hr', List.append_nil] at hws2
      have cws2 := Cpl_ws hwsw2
      have hx : x = (ws ++ t) ++ ws2 := by rw [hws, ht, hws2] ; simp
      have cpre : Cpl (ws ++ t) := Cpl_append cws ct
      rw [hx]
      refine ⟨Cpl_append cpre cws2, CA_mono (fun v hv => ?_) _ ca⟩
      exact AT_left cpre (AT_right cws hv)
    · cases h

end Impl
end JP
