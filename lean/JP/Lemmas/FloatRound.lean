import JP.Codec.Float

/-!
# `roundRat`: the exponent is chosen right, and the significand is the nearest integer (ties to even)

For `N, D > 0` let `q := pickQ bits N D` and `a / b := N / D / 2^q` (`scaled`).  Then the integer part
`Q := a / b` satisfies `Q < 2^(mb+1)` and (`2^mb ≤ Q` or `q = qmin`): `q` is the exponent of the last place of
the binade (or of the subnormals) that contains `N / D`.
-/

namespace JP
namespace Codec
namespace Float

/-- `a/b < 2^k`, as integers -/
theorem div_lt_of_lt_mul (a b k : Nat) (hb : 0 < b) (h : a < b * k) : a / b < k :=
  (Nat.div_lt_iff_lt_mul hb).2 (by rw [Nat.mul_comm]; exact h)

theorem le_div_of_mul_le (a b k : Nat) (hb : 0 < b) (h : k * b ≤ a) : k ≤ a / b :=
  (Nat.le_div_iff_mul_le hb).2 h

theorem two_pow_pos (k : Nat) : 0 < 2 ^ k := Nat.pos_of_ne_zero (by simp)

/-- upper bound: for every `q ≥ log2 N - log2 D - mb` the scaled quotient is below `2^(mb+1)` -/
theorem scaled_upper (N D mb : Nat) (hD : 0 < D) (q : Int)
    (hq : (Nat.log2 N : Int) - (Nat.log2 D : Int) - (mb : Int) ≤ q) :
    (scaled N D q).1 / (scaled N D q).2 < 2 ^ (mb + 1) := by
  have hD0 : D ≠ 0 := by omega
  have hN2 : N < 2 ^ (Nat.log2 N + 1) := Nat.lt_log2_self
  have hD1 : 2 ^ Nat.log2 D ≤ D := Nat.log2_self_le hD0
  generalize Nat.log2 N = lN at hN2 hq
  generalize Nat.log2 D = lD at hD1 hq
  unfold scaled
  by_cases h0 : q ≥ 0
  · simp only [h0, if_true]
    apply div_lt_of_lt_mul _ _ _ (Nat.mul_pos hD (two_pow_pos _))
    -- N < D * 2^q * 2^(mb+1)
    have e : D * 2 ^ q.toNat * 2 ^ (mb + 1) = D * 2 ^ (q.toNat + (mb + 1)) := by
      rw [Nat.mul_assoc, ← Nat.pow_add]
    rw [e]
    have hexp : lN + 1 ≤ lD + (q.toNat + (mb + 1)) := by omega
    calc N < 2 ^ (lN + 1) := hN2
      _ ≤ 2 ^ (lD + (q.toNat + (mb + 1))) := Nat.pow_le_pow_right (by omega) hexp
      _ = 2 ^ lD * 2 ^ (q.toNat + (mb + 1)) := Nat.pow_add _ _ _
      _ ≤ D * 2 ^ (q.toNat + (mb + 1)) := Nat.mul_le_mul_right _ hD1
  · simp only [h0, if_false]
    apply div_lt_of_lt_mul _ _ _ hD
    -- N * 2^(-q) < D * 2^(mb+1)
    have hexp : lN + 1 + (-q).toNat ≤ lD + (mb + 1) := by omega
    calc N * 2 ^ (-q).toNat < 2 ^ (lN + 1) * 2 ^ (-q).toNat :=
          Nat.mul_lt_mul_of_pos_right hN2 (two_pow_pos _)
      _ = 2 ^ (lN + 1 + (-q).toNat) := (Nat.pow_add _ _ _).symm
      _ ≤ 2 ^ (lD + (mb + 1)) := Nat.pow_le_pow_right (by omega) hexp
      _ = 2 ^ lD * 2 ^ (mb + 1) := Nat.pow_add _ _ _
      _ ≤ D * 2 ^ (mb + 1) := Nat.mul_le_mul_right _ hD1

/-- lower bound: for every `q ≤ log2 N - log2 D - mb - 1` the scaled quotient is at least `2^mb` -/
theorem scaled_lower (N D mb : Nat) (hN : 0 < N) (hD : 0 < D) (q : Int)
    (hq : q ≤ (Nat.log2 N : Int) - (Nat.log2 D : Int) - (mb : Int) - 1) :
    2 ^ mb ≤ (scaled N D q).1 / (scaled N D q).2 := by
  have hN0 : N ≠ 0 := by omega
  have hN1 : 2 ^ Nat.log2 N ≤ N := Nat.log2_self_le hN0
  have hD2 : D < 2 ^ (Nat.log2 D + 1) := Nat.lt_log2_self
  generalize Nat.log2 N = lN at hN1 hq
  generalize Nat.log2 D = lD at hD2 hq
  unfold scaled
  by_cases h0 : q ≥ 0
  · simp only [h0, if_true]
    apply le_div_of_mul_le _ _ _ (Nat.mul_pos hD (two_pow_pos _))
    -- 2^mb * (D * 2^q) ≤ N
    have hexp : mb + (lD + 1) + q.toNat ≤ lN := by omega
    calc 2 ^ mb * (D * 2 ^ q.toNat) ≤ 2 ^ mb * (2 ^ (lD + 1) * 2 ^ q.toNat) :=
          Nat.mul_le_mul_left _ (Nat.mul_le_mul_right _ (Nat.le_of_lt hD2))
      _ = 2 ^ (mb + (lD + 1) + q.toNat) := by rw [← Nat.pow_add, ← Nat.pow_add]; congr 1; omega
      _ ≤ 2 ^ lN := Nat.pow_le_pow_right (by omega) hexp
      _ ≤ N := hN1
  · simp only [h0, if_false]
    apply le_div_of_mul_le _ _ _ hD
    -- 2^mb * D ≤ N * 2^(-q)
    have hexp : mb + (lD + 1) ≤ lN + (-q).toNat := by omega
    calc 2 ^ mb * D ≤ 2 ^ mb * 2 ^ (lD + 1) := Nat.mul_le_mul_left _ (Nat.le_of_lt hD2)
      _ = 2 ^ (mb + (lD + 1)) := (Nat.pow_add _ _ _).symm
      _ ≤ 2 ^ (lN + (-q).toNat) := Nat.pow_le_pow_right (by omega) hexp
      _ = 2 ^ lN * 2 ^ (-q).toNat := Nat.pow_add _ _ _
      _ ≤ N * 2 ^ (-q).toNat := Nat.mul_le_mul_right _ hN1

end Float
end Codec
end JP

namespace JP
namespace Codec
namespace Float

theorem scaled_snd_pos (N D : Nat) (hD : 0 < D) (q : Int) : 0 < (scaled N D q).2 := by
  unfold scaled
  split
  · exact Nat.mul_pos hD (two_pow_pos _)
  · exact hD

/-- one exponent lower doubles the quotient -/
theorem scaled_pred (N D : Nat) (q : Int) :
    (scaled N D (q - 1)).1 * (scaled N D q).2 = 2 * (scaled N D q).1 * (scaled N D (q - 1)).2 := by
  unfold scaled
  by_cases h1 : q - 1 ≥ 0
  · have h0 : q ≥ 0 := by omega
    simp only [h1, h0, if_true]
    have : q.toNat = (q - 1).toNat + 1 := by omega
    rw [this, Nat.pow_succ]
    simp only [Nat.mul_assoc, Nat.mul_comm, Nat.mul_left_comm]
  · by_cases h0 : q ≥ 0
    · have hq : q = 0 := by omega
      subst hq
      simp [Nat.mul_comm, Nat.mul_left_comm]
    · simp only [h1, h0, if_false]
      have : (-(q - 1)).toNat = (-q).toNat + 1 := by omega
      rw [this, Nat.pow_succ]
      simp only [Nat.mul_assoc, Nat.mul_comm, Nat.mul_left_comm]

theorem scaled_pred_lt (N D : Nat) (hD : 0 < D) (q : Int) (K : Nat)
    (h : (scaled N D q).1 / (scaled N D q).2 < K) :
    (scaled N D (q - 1)).1 / (scaled N D (q - 1)).2 < 2 * K := by
  have hb := scaled_snd_pos N D hD q
  have hb' := scaled_snd_pos N D hD (q - 1)
  have he := scaled_pred N D q
  generalize (scaled N D q).1 = a at *
  generalize (scaled N D q).2 = b at *
  generalize (scaled N D (q - 1)).1 = a' at *
  generalize (scaled N D (q - 1)).2 = b' at *
  have h1 : a < K * b := (Nat.div_lt_iff_lt_mul hb).1 h
  apply (Nat.div_lt_iff_lt_mul hb').2
  -- a' * b = 2 a b' < 2 K b b'
  have h2 : a' * b < 2 * K * b' * b := by
    rw [he]
    calc 2 * a * b' < 2 * (K * b) * b' := by
          apply Nat.mul_lt_mul_of_pos_right _ hb'
          omega
      _ = 2 * K * b' * b := by
          simp only [Nat.mul_assoc, Nat.mul_comm, Nat.mul_left_comm]
  exact Nat.lt_of_mul_lt_mul_right h2

theorem pickQ_ge (bits N D : Nat) :
    (1 : Int) - ((bias bits + mantBits bits : Nat) : Int) ≤ pickQ bits N D := by
  unfold pickQ
  simp only
  split
  · omega
  · split
    · split <;> omega
    · omega

/-- the exponent of the last place is right: the integer part of `N / D / 2^q` has at most `mb + 1` bits, and
exactly `mb + 1` bits unless `q` is the smallest exponent (subnormal range) -/
theorem pickQ_spec (bits N D : Nat) (hN : 0 < N) (hD : 0 < D) :
    (scaled N D (pickQ bits N D)).1 / (scaled N D (pickQ bits N D)).2 < 2 ^ (mantBits bits + 1) ∧
    (2 ^ mantBits bits ≤ (scaled N D (pickQ bits N D)).1 / (scaled N D (pickQ bits N D)).2 ∨
      pickQ bits N D = 1 - ((bias bits + mantBits bits : Nat) : Int)) := by
  unfold pickQ
  simp only
  generalize hq0 : (Nat.log2 N : Int) - (Nat.log2 D : Int) - (mantBits bits : Int) = q0
  generalize hqm : (1 : Int) - ((bias bits + mantBits bits : Nat) : Int) = qmin
  by_cases h1 : q0 ≤ qmin
  · rw [if_pos h1]
    exact ⟨scaled_upper N D _ hD qmin (by omega), Or.inr rfl⟩
  · rw [if_neg h1]
    by_cases h2 : (scaled N D q0).1 / (scaled N D q0).2 < 2 ^ mantBits bits
    · rw [if_pos h2]
      have hq : (if q0 - 1 ≤ qmin then qmin else q0 - 1) = q0 - 1 := by
        split <;> omega
      rw [hq]
      refine ⟨?_, Or.inl (scaled_lower N D _ hN hD (q0 - 1) (by omega))⟩
      have := scaled_pred_lt N D hD q0 _ h2
      rw [Nat.pow_succ]; omega
    · rw [if_neg h2]
      exact ⟨scaled_upper N D _ hD q0 (by omega), Or.inl (by omega)⟩

end Float
end Codec
end JP

namespace JP
namespace Codec
namespace Float

/-- nearest integer to `a / b`, ties to even (the rounding step of `roundRat`) -/
def nearestEven (a b : Nat) : Nat :=
  if (decide (b < 2 * (a % b)) || (2 * (a % b) = b && (a / b) % 2 = 1)) = true then a / b + 1 else a / b

/-- the fields of the float `S · 2^q` (the last step of `roundRat`) -/
def encodeSig (bits : Nat) (S : Nat) (q : Int) : Nat × Nat × Bool :=
  let mb := mantBits bits
  let qmin : Int := 1 - ((bias bits + mb : Nat) : Int)
  let Q2 := if S = 2 ^ (mb + 1) then 2 ^ mb else S
  let q2 : Int := if S = 2 ^ (mb + 1) then q + 1 else q
  if Q2 < 2 ^ mb then (0, Q2, false)
  else
    let e := (q2 - qmin).toNat + 1
    if e ≥ expMax bits then (expMax bits, 0, true) else (e, Q2 - 2 ^ mb, false)

theorem roundRat_eq (bits N D : Nat) :
    roundRat bits N D =
      encodeSig bits (nearestEven (scaled N D (pickQ bits N D)).1 (scaled N D (pickQ bits N D)).2)
        (pickQ bits N D) := rfl

/-- `nearestEven a b` is an integer nearest to `a / b`; when two are equally near it is the even one -/
theorem nearestEven_spec (a b : Nat) (hb : 0 < b) :
    2 * (nearestEven a b * b) ≤ 2 * a + b ∧ 2 * a ≤ 2 * (nearestEven a b * b) + b ∧
    ((2 * (nearestEven a b * b) = 2 * a + b ∨ 2 * a = 2 * (nearestEven a b * b) + b) →
      nearestEven a b % 2 = 0) ∧
    (nearestEven a b = a / b ∨ nearestEven a b = a / b + 1) := by
  have hdm : b * (a / b) + a % b = a := Nat.div_add_mod a b
  have hr : a % b < b := Nat.mod_lt a hb
  have e1 : a / b * b = b * (a / b) := Nat.mul_comm _ _
  have e2 : (a / b + 1) * b = b * (a / b) + b := by rw [Nat.add_mul, e1]; omega
  generalize hR : a % b = R at *
  generalize hQ : a / b = Q at *
  generalize hP : b * Q = P at *
  unfold nearestEven
  rw [hR, hQ]
  by_cases hup : (decide (b < 2 * R) || (2 * R = b && Q % 2 = 1)) = true
  · rw [if_pos hup, e2]
    simp only [Bool.or_eq_true, decide_eq_true_eq, Bool.and_eq_true] at hup
    refine ⟨by omega, by omega, ?_, Or.inr rfl⟩
    intro ht
    rcases hup with h | ⟨h1, h2⟩
    · omega
    · omega
  · rw [if_neg hup, e1]
    simp only [Bool.or_eq_true, decide_eq_true_eq, Bool.and_eq_true, not_or, not_and] at hup
    refine ⟨by omega, by omega, ?_, Or.inl rfl⟩
    intro ht
    have := hup.2
    omega

/-- `encodeSig` encodes `S · 2^q`: for `S ≤ 2^(mb+1)`, `q ≥ qmin`, and (`2^mb ≤ S` or `q = qmin`), either the
exponent is out of range (overflow) or the result is a well-formed finite float whose value
`sig · 2^qexp` is `S · 2^q` -/
theorem encodeSig_spec (bits S : Nat) (q : Int) (hS : S ≤ 2 ^ (mantBits bits + 1))
    (hq : (1 : Int) - ((bias bits + mantBits bits : Nat) : Int) ≤ q)
    (hn : 2 ^ mantBits bits ≤ S ∨ q = 1 - ((bias bits + mantBits bits : Nat) : Int)) :
    ((encodeSig bits S q).2.2 = true ∧ encodeSig bits S q = (expMax bits, 0, true) ∧ 2 ^ mantBits bits ≤ S ∧
        (expMax bits : Int) ≤ q + (if S = 2 ^ (mantBits bits + 1) then 1 else 0)
          + ((bias bits + mantBits bits : Nat) : Int)) ∨
    ((encodeSig bits S q).2.2 = false ∧
      (FP.mk false (encodeSig bits S q).1 (encodeSig bits S q).2.1).wf bits = true ∧
      (encodeSig bits S q).1 < expMax bits ∧
      q ≤ (FP.mk false (encodeSig bits S q).1 (encodeSig bits S q).2.1).qexp bits ∧
      (FP.mk false (encodeSig bits S q).1 (encodeSig bits S q).2.1).sig bits
        * 2 ^ ((FP.mk false (encodeSig bits S q).1 (encodeSig bits S q).2.1).qexp bits - q).toNat = S) := by
  have hem : expMax bits + 1 = 2 ^ expBits bits := by
    unfold expMax
    have : 0 < 2 ^ expBits bits := two_pow_pos _
    omega
  have hem2 : 2 ≤ expMax bits := by
    unfold expMax expBits; split <;> simp
  have hpow : 2 ^ (mantBits bits + 1) = 2 * 2 ^ mantBits bits := by rw [Nat.pow_succ]; omega
  have hmbpos : 0 < 2 ^ mantBits bits := two_pow_pos _
  generalize hmb : mantBits bits = mb at *
  generalize hP : 2 ^ mb = P at *
  unfold encodeSig
  simp only [hmb, hP, hpow]
  by_cases hc : S = 2 * P
  · -- carry
    simp only [hc, if_true]
    rw [if_neg (by omega)]
    by_cases he : (q + 1 - (1 - ((bias bits + mb : Nat) : Int))).toNat + 1 ≥ expMax bits
    · left
      rw [if_pos he]
      exact ⟨rfl, rfl, by omega, by omega⟩
    · right
      rw [if_neg he]
      simp only [FP.wf, FP.qexp, FP.sig, hmb, hP, Bool.and_eq_true, decide_eq_true_eq]
      have hne : ¬ ((q + 1 - (1 - ((bias bits + mb : Nat) : Int))).toNat + 1 = 0) := by omega
      simp only [hne, if_false]
      refine ⟨trivial, ⟨by omega, by omega⟩, by omega, by omega, ?_⟩
      have : ((((q + 1 - (1 - ((bias bits + mb : Nat) : Int))).toNat + 1 : Nat) : Int)
          - ((bias bits + mb : Nat) : Int) - q).toNat = 1 := by omega
      rw [this]; omega
  · simp only [hc, if_false]
    by_cases hsub : S < P
    · right
      rw [if_pos hsub]
      have hqe : q = 1 - ((bias bits + mb : Nat) : Int) := by
        rcases hn with h | h
        · omega
        · exact h
      simp only [FP.wf, FP.qexp, FP.sig, hmb, hP, Bool.and_eq_true, decide_eq_true_eq, if_true]
      refine ⟨trivial, ⟨by omega, hsub⟩, by omega, by omega, ?_⟩
      have : (((1 : Nat) : Int) - ((bias bits + mb : Nat) : Int) - q).toNat = 0 := by omega
      rw [this]; omega
    · rw [if_neg hsub]
      by_cases he : (q - (1 - ((bias bits + mb : Nat) : Int))).toNat + 1 ≥ expMax bits
      · left
        rw [if_pos he]
        exact ⟨rfl, rfl, by omega, by omega⟩
      · right
        rw [if_neg he]
        simp only [FP.wf, FP.qexp, FP.sig, hmb, hP, Bool.and_eq_true, decide_eq_true_eq]
        have hne : ¬ ((q - (1 - ((bias bits + mb : Nat) : Int))).toNat + 1 = 0) := by omega
        simp only [hne, if_false]
        refine ⟨trivial, ⟨by omega, by omega⟩, by omega, by omega, ?_⟩
        have : ((((q - (1 - ((bias bits + mb : Nat) : Int))).toNat + 1 : Nat) : Int)
            - ((bias bits + mb : Nat) : Int) - q).toNat = 0 := by omega
        rw [this]; omega

end Float
end Codec
end JP

namespace JP
namespace Codec
namespace Float

/-- `roundRat` is correct rounding: with `q` the exponent of the last place of the binade that contains
`N / D` (or the subnormal exponent) and `a / b = N / D / 2^q`, there is an integer `S` NEAREST to `a / b`
(even when two are equally near) such that the result is the well-formed finite float with value `S · 2^q`,
or — when the exponent that `S · 2^q` needs is out of range — the overflow answer -/
theorem roundRat_spec (bits N D : Nat) (hN : 0 < N) (hD : 0 < D) :
    ∃ (S : Nat) (q : Int) (a b : Nat),
      (a, b) = scaled N D q ∧ 0 < b ∧
      (1 : Int) - ((bias bits + mantBits bits : Nat) : Int) ≤ q ∧
      a / b < 2 ^ (mantBits bits + 1) ∧
      (2 ^ mantBits bits ≤ a / b ∨ q = 1 - ((bias bits + mantBits bits : Nat) : Int)) ∧
      2 * (S * b) ≤ 2 * a + b ∧ 2 * a ≤ 2 * (S * b) + b ∧
      ((2 * (S * b) = 2 * a + b ∨ 2 * a = 2 * (S * b) + b) → S % 2 = 0) ∧
      ((roundRat bits N D = (expMax bits, 0, true) ∧ 2 ^ mantBits bits ≤ S ∧
          (expMax bits : Int) ≤ q + (if S = 2 ^ (mantBits bits + 1) then 1 else 0)
            + ((bias bits + mantBits bits : Nat) : Int)) ∨
       ((roundRat bits N D).2.2 = false ∧
        (FP.mk false (roundRat bits N D).1 (roundRat bits N D).2.1).wf bits = true ∧
        (roundRat bits N D).1 < expMax bits ∧
        q ≤ (FP.mk false (roundRat bits N D).1 (roundRat bits N D).2.1).qexp bits ∧
        (FP.mk false (roundRat bits N D).1 (roundRat bits N D).2.1).sig bits
          * 2 ^ ((FP.mk false (roundRat bits N D).1 (roundRat bits N D).2.1).qexp bits - q).toNat = S)) := by
  obtain ⟨hU, hL⟩ := pickQ_spec bits N D hN hD
  have hge := pickQ_ge bits N D
  have hb := scaled_snd_pos N D hD (pickQ bits N D)
  obtain ⟨n1, n2, n3, n4⟩ :=
    nearestEven_spec (scaled N D (pickQ bits N D)).1 (scaled N D (pickQ bits N D)).2 hb
  refine ⟨nearestEven (scaled N D (pickQ bits N D)).1 (scaled N D (pickQ bits N D)).2, pickQ bits N D,
    (scaled N D (pickQ bits N D)).1, (scaled N D (pickQ bits N D)).2, rfl, hb, hge, hU, hL, n1, n2, n3, ?_⟩
  rw [roundRat_eq]
  generalize nearestEven (scaled N D (pickQ bits N D)).1 (scaled N D (pickQ bits N D)).2 = S at *
  generalize (scaled N D (pickQ bits N D)).1 / (scaled N D (pickQ bits N D)).2 = Q at *
  have hS : S ≤ 2 ^ (mantBits bits + 1) := by rcases n4 with h | h <;> omega
  have hn : 2 ^ mantBits bits ≤ S ∨ pickQ bits N D = 1 - ((bias bits + mantBits bits : Nat) : Int) := by
    rcases hL with h | h
    · left; rcases n4 with h' | h' <;> omega
    · right; exact h
  rcases encodeSig_spec bits S (pickQ bits N D) hS hge hn with ⟨_, h2, h3, h4⟩ | h
  · left; exact ⟨h2, h3, h4⟩
  · right; exact h

end Float
end Codec
end JP
