import JP.Lemmas.LegacyEqual
import JP.Lemmas.LegacyPlain
import JP.Lemmas.TextWFC
import JP.Lemmas.TextUtf8Tree

/-!
# `NoEscapes` + well-formed + valid UTF-8 ⇒ `PlainStr`

For a syntax tree the grammar accepts (`WFC`, what `parseCst` returns) whose string bodies hold
no backslash and are valid UTF-8, every string value decodes to its own body.
-/

namespace JP
namespace Legacy
open Cst

mutual
theorem plainStr_of_noEscapes : ∀ (c : Cst), NoEscapes c = true → WFC c = true → CstUtf8 c = true →
    PlainStr c = true
  | .lit _, _, _, _ => rfl
  | .str b, h1, h2, h3 => by
    simp only [NoEscapes, Bool.not_eq_true'] at h1
    simp only [WFC] at h2
    simp only [CstUtf8] at h3
    simp only [PlainStr, plainBody, beq_iff_eq]
    exact unquote_of_clean b (cleanBody_of_valid b h1 ((validBody_iff b).1 h2)) h3
  | .arr xs, h1, h2, h3 => by
    simp only [NoEscapes] at h1
    simp only [WFC] at h2
    simp only [CstUtf8] at h3
    simp only [PlainStr]
    exact plainStrL_of_noEscapes xs h1 h2 h3
  | .obj ms, h1, h2, h3 => by
    simp only [NoEscapes] at h1
    simp only [WFC] at h2
    simp only [CstUtf8] at h3
    simp only [PlainStr]
    exact plainStrM_of_noEscapes ms h1 h2 h3
theorem plainStrL_of_noEscapes : ∀ (xs : List Cst), NoEscapesL xs = true → WFCL xs = true →
    CstUtf8L xs = true → PlainStrL xs = true
  | [], _, _, _ => rfl
  | x :: xs, h1, h2, h3 => by
    simp only [NoEscapesL, WFCL, CstUtf8L, Bool.and_eq_true] at h1 h2 h3
    simp only [PlainStrL, Bool.and_eq_true]
    exact ⟨plainStr_of_noEscapes x h1.1 h2.1 h3.1, plainStrL_of_noEscapes xs h1.2 h2.2 h3.2⟩
theorem plainStrM_of_noEscapes : ∀ (ms : List (Bytes × Cst)), NoEscapesM ms = true → WFCM ms = true →
    CstUtf8M ms = true → PlainStrM ms = true
  | [], _, _, _ => rfl
  | (k, v) :: ms, h1, h2, h3 => by
    simp only [NoEscapesM, WFCM, CstUtf8M, Bool.and_eq_true] at h1 h2 h3
    simp only [PlainStrM, Bool.and_eq_true]
    exact ⟨plainStr_of_noEscapes v h1.1.2 h2.1.2 h3.1.2, plainStrM_of_noEscapes ms h1.2 h2.2 h3.2⟩
end

end Legacy
end JP
