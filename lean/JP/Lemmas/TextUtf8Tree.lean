import JP.Lemmas.TextUtf8
import JP.Lemmas.TextClean

/-!
# UTF-8 validity of printed trees
-/

namespace JP

/-- a valid prefix can be dropped -/
theorem isValidUtf8_append (a b : Bytes) (ha : isValidUtf8 a = true) : isValidUtf8 (a ++ b) = isValidUtf8 b := by
  induction a using rune_induction with
  | nil => rfl
  | cons c rest ih =>
    rw [isValidUtf8_cons] at ha
    split at ha
    · cases ha
    · rename_i hok
      have h1 := isValidUtf8_rune c rest (List.drop (decodeRune (c :: rest)).2 (c :: rest) ++ b) hok
      rw [← List.append_assoc, List.take_append_drop] at h1
      rw [h1]; exact ih ha

theorem isValidUtf8_append_true (a b : Bytes) (ha : isValidUtf8 a = true) (hb : isValidUtf8 b = true) :
    isValidUtf8 (a ++ b) = true := by rw [isValidUtf8_append a b ha]; exact hb

theorem isValidUtf8_all_ascii (l : Bytes) (h : ∀ c ∈ l, c.toNat < 128) : isValidUtf8 l = true := by
  have := isValidUtf8_ascii_append l [] h
  rw [List.append_nil] at this; rw [this]; rfl

theorem isValidUtf8_validLit (l : Bytes) (h : validLit l = true) : isValidUtf8 l = true := by
  rcases validLit_cases l h with rfl | rfl | rfl | hn
  · decide
  · decide
  · decide
  · exact isValidUtf8_all_ascii l (fun c hc => (numChar_plain c (parseNumber_chars l l [] hn c hc)).2)

mutual
/-- every string body and member-name body is valid UTF-8 -/
def CstUtf8 : Cst → Bool
  | .str b => isValidUtf8 b
  | .arr xs => CstUtf8L xs
  | .obj ms => CstUtf8M ms
  | .lit _ => true
def CstUtf8L : List Cst → Bool
  | [] => true
  | x :: xs => CstUtf8 x && CstUtf8L xs
def CstUtf8M : List (Bytes × Cst) → Bool
  | [] => true
  | (k, v) :: ms => isValidUtf8 k && CstUtf8 v && CstUtf8M ms
end

theorem isValidUtf8_quoted (k X : Bytes) (hk : isValidUtf8 k = true) (hX : isValidUtf8 X = true) :
    isValidUtf8 (34 :: (k ++ 34 :: X)) = true := by
  rw [isValidUtf8_ascii_cons _ _ (by decide), isValidUtf8_append _ _ hk, isValidUtf8_ascii_cons _ _ (by decide)]
  exact hX

mutual
theorem isValidUtf8_print : ∀ (c : Cst), WFC c = true → CstUtf8 c = true → isValidUtf8 (Cst.print c) = true
  | .lit s, h, _ => by
    simp only [WFC] at h
    simp only [Cst.print]; exact isValidUtf8_validLit s h
  | .str b, _, hu => by
    simp only [CstUtf8] at hu
    simp only [Cst.print, List.cons_append]
    exact isValidUtf8_quoted b [] hu rfl
  | .arr xs, h, hu => by
    simp only [WFC] at h; simp only [CstUtf8] at hu
    simp only [Cst.print, List.cons_append]
    rw [isValidUtf8_ascii_cons _ _ (by decide), isValidUtf8_append _ _ (isValidUtf8_printL xs h hu)]
    decide
  | .obj ms, h, hu => by
    simp only [WFC] at h; simp only [CstUtf8] at hu
    simp only [Cst.print, List.cons_append]
    rw [isValidUtf8_ascii_cons _ _ (by decide), isValidUtf8_append _ _ (isValidUtf8_printM ms h hu)]
    decide
theorem isValidUtf8_printL : ∀ (xs : List Cst), WFCL xs = true → CstUtf8L xs = true →
    isValidUtf8 (Cst.printL xs) = true
  | [], _, _ => rfl
  | x :: xs, h, hu => by
    simp only [WFCL, Bool.and_eq_true] at h
    simp only [CstUtf8L, Bool.and_eq_true] at hu
    have ih := isValidUtf8_printL xs h.2 hu.2
    have ihx := isValidUtf8_print x h.1 hu.1
    cases xs with
    | nil => simp only [Cst.printL]; exact ihx
    | cons y ys =>
      simp only [Cst.printL]
      rw [isValidUtf8_append _ _ ihx, isValidUtf8_ascii_cons _ _ (by decide)]
      exact ih
theorem isValidUtf8_printM : ∀ (ms : List (Bytes × Cst)), WFCM ms = true → CstUtf8M ms = true →
    isValidUtf8 (Cst.printM ms) = true
  | [], _, _ => rfl
  | (k, v) :: ms, h, hu => by
    simp only [WFCM, Bool.and_eq_true] at h
    simp only [CstUtf8M, Bool.and_eq_true] at hu
    have ih := isValidUtf8_printM ms h.2 hu.2
    have ihv := isValidUtf8_print v h.1.2 hu.1.2
    cases ms with
    | nil =>
      simp only [Cst.printM, List.cons_append]
      apply isValidUtf8_quoted _ _ hu.1.1
      rw [isValidUtf8_ascii_cons _ _ (by decide)]; exact ihv
    | cons m ms' =>
      obtain ⟨k', v'⟩ := m
      simp only [Cst.printM, List.cons_append, List.append_assoc]
      apply isValidUtf8_quoted _ _ hu.1.1
      rw [isValidUtf8_ascii_cons _ _ (by decide), isValidUtf8_append _ _ ihv, isValidUtf8_ascii_cons _ _ (by decide)]
      exact ih
end

theorem isValidUtf8_escIf (e : Bool) (b : Bytes) (h : isValidUtf8 b = true) :
    isValidUtf8 (if e then escBody b else b) = true := by
  cases e with
  | false => exact h
  | true => exact isValidUtf8_escBody b h

mutual
theorem CstUtf8_escape (e : Bool) : ∀ (c : Cst), CstUtf8 c = true → CstUtf8 (Cst.escape e c) = true
  | .lit _, _ => by simp only [Cst.escape, CstUtf8]
  | .str b, h => by
    simp only [CstUtf8] at h
    simp only [Cst.escape, CstUtf8, isValidUtf8_escIf e b h]
  | .arr xs, h => by
    simp only [CstUtf8] at h
    simp only [Cst.escape, CstUtf8, CstUtf8L_escapeL e xs h]
  | .obj ms, h => by
    simp only [CstUtf8] at h
    simp only [Cst.escape, CstUtf8, CstUtf8M_escapeM e ms h]
theorem CstUtf8L_escapeL (e : Bool) : ∀ (xs : List Cst), CstUtf8L xs = true → CstUtf8L (Cst.escapeL e xs) = true
  | [], _ => by simp only [Cst.escapeL, CstUtf8L]
  | x :: xs, h => by
    simp only [CstUtf8L, Bool.and_eq_true] at h
    simp only [Cst.escapeL, CstUtf8L, CstUtf8_escape e x h.1, CstUtf8L_escapeL e xs h.2, Bool.and_self]
theorem CstUtf8M_escapeM (e : Bool) : ∀ (ms : List (Bytes × Cst)), CstUtf8M ms = true →
    CstUtf8M (Cst.escapeM e ms) = true
  | [], _ => by simp only [Cst.escapeM, CstUtf8M]
  | (k, v) :: ms, h => by
    simp only [CstUtf8M, Bool.and_eq_true] at h
    simp only [Cst.escapeM, CstUtf8M, isValidUtf8_escIf e k h.1.1, CstUtf8_escape e v h.1.2,
      CstUtf8M_escapeM e ms h.2, Bool.and_self]
end

open Impl in
mutual
theorem CstUtf8_marshal (e : Bool) : ∀ (v : Value), CstUtf8 (marshalAnyE e v) = true
  | .null => rfl
  | .bool _ => rfl
  | .num _ => rfl
  | .str s => by simp only [marshalAnyE, CstUtf8, isValidUtf8_quoteBody]
  | .arr xs => by simp only [marshalAnyE, CstUtf8, CstUtf8L_marshal e xs]
  | .obj ms => by simp only [marshalAnyE, CstUtf8, CstUtf8M_marshal e ms]
theorem CstUtf8L_marshal (e : Bool) : ∀ (xs : List Value), CstUtf8L (marshalAnyEL e xs) = true
  | [] => rfl
  | x :: xs => by simp only [marshalAnyEL, CstUtf8L, CstUtf8_marshal e x, CstUtf8L_marshal e xs, Bool.and_self]
theorem CstUtf8M_marshal (e : Bool) : ∀ (ms : Value.Members), CstUtf8M (marshalAnyEM e ms) = true
  | [] => rfl
  | (k, v) :: ms => by
    simp only [marshalAnyEM, CstUtf8M, isValidUtf8_quoteBody, CstUtf8_marshal e v, CstUtf8M_marshal e ms,
      Bool.and_self]
end

end JP
