import JP.Lemmas.OrderOps

/-!
# Literal provenance: every number literal of the result of an operation occurs in the
document or in the value carried by the operation
-/

namespace JP
namespace Spec
open Value

variable {α : Type} {o : Opts} {f : Value → Bytes → Res (Value × α)}

/-- literals of the new document after a walk, given the law for the edit at the end -/
theorem lits_atParent_doc (S : List Bytes)
    (hf : ∀ p t p' a, f p t = .ok (p', a) → ∀ l, l ∈ p'.numLits → l ∈ p.numLits ∨ l ∈ S) :
    ∀ (p : List Bytes) (v d' : Value) (a : α), atParent o f v p = .ok (d', a) →
      ∀ l, l ∈ d'.numLits → l ∈ v.numLits ∨ l ∈ S := by
  apply atParent_induct
  · intro v t d' a _ h; exact hf v t d' a h
  · intro ms t t2 ts child c' a hl _ ih l hmem
    rw [numLits_obj] at hmem ⊢
    rcases numLitsM_set hmem with h | h
    · exact Or.inl h
    · rcases ih l h with h | h
      · exact Or.inl (numLitsM_of_lookup hl h)
      · exact Or.inr h
  · intro xs t t2 ts i child c' a _ hx _ ih l hmem
    rw [numLits_arr] at hmem ⊢
    obtain ⟨x, hxm, hlx⟩ := mem_numLitsL.1 hmem
    rcases mem_setAt hxm with h | h
    · subst h
      rcases ih l hlx with h | h
      · exact Or.inl (numLitsL_of_getElem? hx h)
      · exact Or.inr h
    · exact Or.inl (mem_numLitsL.2 ⟨x, h, hlx⟩)

/-- literals of the value a walk returns (removed / read value) -/
theorem lits_atParent_res (L : α → List Bytes)
    (hf : ∀ p t p' a, f p t = .ok (p', a) → ∀ l, l ∈ L a → l ∈ p.numLits) :
    ∀ (p : List Bytes) (v d' : Value) (a : α), atParent o f v p = .ok (d', a) →
      ∀ l, l ∈ L a → l ∈ v.numLits := by
  apply atParent_induct
  · intro v t d' a _ h; exact hf v t d' a h
  · intro ms t t2 ts child c' a hl _ ih l hmem
    rw [numLits_obj]
    exact numLitsM_of_lookup hl (ih l hmem)
  · intro xs t t2 ts i child c' a _ hx _ ih l hmem
    rw [numLits_arr]
    exact numLitsL_of_getElem? hx (ih l hmem)

/-! ### the edits -/

theorem lits_addIn {v p p' : Value} {t : Bytes} {u : Unit} (h : addIn o v p t = .ok (p', u)) :
    ∀ l, l ∈ p'.numLits → l ∈ p.numLits ∨ l ∈ v.numLits := by
  intro l hl
  cases p with
  | obj ms =>
    rw [addIn_obj] at h; cases h
    rw [numLits_obj] at hl ⊢
    exact numLitsM_set hl
  | arr xs =>
    obtain ⟨i, _, rfl⟩ := addIn_arr_ok h
    rw [numLits_arr] at hl ⊢
    obtain ⟨x, hxm, hlx⟩ := mem_numLitsL.1 hl
    rcases mem_insertAt hxm with h | h
    · subst h; exact Or.inr hlx
    · exact Or.inl (mem_numLitsL.2 ⟨x, h, hlx⟩)
  | null => simp [addIn] at h
  | bool _ => simp [addIn] at h
  | num _ => simp [addIn] at h
  | str _ => simp [addIn] at h

theorem lits_removeIn {p p' old : Value} {t : Bytes} (h : removeIn o p t = .ok (p', old)) :
    (∀ l, l ∈ p'.numLits → l ∈ p.numLits) ∧ (∀ l, l ∈ old.numLits → l ∈ p.numLits) := by
  cases p with
  | obj ms =>
    obtain ⟨hl, rfl⟩ := removeIn_obj_ok h
    simp only [numLits_obj]
    exact ⟨fun l hm => numLitsM_erase hm, fun l hm => numLitsM_of_lookup hl hm⟩
  | arr xs =>
    obtain ⟨i, _, hx, rfl⟩ := removeIn_arr_ok h
    simp only [numLits_arr]
    refine ⟨fun l hm => ?_, fun l hm => numLitsL_of_getElem? hx hm⟩
    obtain ⟨x, hxm, hlx⟩ := mem_numLitsL.1 hm
    exact mem_numLitsL.2 ⟨x, List.mem_of_mem_eraseIdx hxm, hlx⟩
  | null => simp [removeIn] at h
  | bool _ => simp [removeIn] at h
  | num _ => simp [removeIn] at h
  | str _ => simp [removeIn] at h

theorem lits_replaceIn {v p p' : Value} {t : Bytes} {u : Unit} (h : replaceIn o v p t = .ok (p', u)) :
    ∀ l, l ∈ p'.numLits → l ∈ p.numLits ∨ l ∈ v.numLits := by
  intro l hl
  cases p with
  | obj ms =>
    obtain ⟨_, rfl⟩ := replaceIn_obj_ok h
    rw [numLits_obj] at hl ⊢
    exact numLitsM_set hl
  | arr xs =>
    obtain ⟨i, _, _, rfl⟩ := replaceIn_arr_ok h
    rw [numLits_arr] at hl ⊢
    obtain ⟨x, hxm, hlx⟩ := mem_numLitsL.1 hl
    rcases mem_setAt hxm with h | h
    · subst h; exact Or.inr hlx
    · exact Or.inl (mem_numLitsL.2 ⟨x, h, hlx⟩)
  | null => simp [replaceIn] at h
  | bool _ => simp [replaceIn] at h
  | num _ => simp [replaceIn] at h
  | str _ => simp [replaceIn] at h

theorem lits_getIn {b : Bool} {p p' v : Value} {t : Bytes} (h : getIn o b p t = .ok (p', v)) :
    ∀ l, l ∈ v.numLits → l ∈ p.numLits := by
  intro l hl
  cases p with
  | obj ms =>
    simp only [getIn] at h
    cases hlk : Value.lookup t ms with
    | none =>
      rw [hlk] at h
      cases b with
      | false => simp at h
      | true => simp at h; rw [← h.2] at hl; simp [numLits] at hl
    | some w => rw [hlk] at h; cases h; rw [numLits_obj]; exact numLitsM_of_lookup hlk hl
  | arr xs =>
    simp only [getIn] at h
    cases hr : readIdx o.neg xs.length t with
    | unspec => rw [hr] at h; cases h
    | bad => rw [hr] at h; cases h
    | «at» i =>
      rw [hr] at h
      cases hx : xs[i]? with
      | none => simp only [hx] at h; cases h
      | some w => simp only [hx] at h; cases h; rw [numLits_arr]; exact numLitsL_of_getElem? hx hl
  | null => simp [getIn] at h
  | bool _ => simp [getIn] at h
  | num _ => simp [getIn] at h
  | str _ => simp [getIn] at h

/-! ### walks with each edit -/

theorem lits_atParent_addIn {v d d' : Value} {p : List Bytes} {u : Unit}
    (h : atParent o (addIn o v) d p = .ok (d', u)) :
    ∀ l, l ∈ d'.numLits → l ∈ d.numLits ∨ l ∈ v.numLits :=
  lits_atParent_doc v.numLits (fun _ _ _ _ h => lits_addIn h) p d d' u h

theorem lits_atParent_replaceIn {v d d' : Value} {p : List Bytes} {u : Unit}
    (h : atParent o (replaceIn o v) d p = .ok (d', u)) :
    ∀ l, l ∈ d'.numLits → l ∈ d.numLits ∨ l ∈ v.numLits :=
  lits_atParent_doc v.numLits (fun _ _ _ _ h => lits_replaceIn h) p d d' u h

theorem lits_atParent_removeIn_doc {d d' old : Value} {p : List Bytes}
    (h : atParent o (removeIn o) d p = .ok (d', old)) :
    ∀ l, l ∈ d'.numLits → l ∈ d.numLits := by
  intro l hl
  rcases lits_atParent_doc [] (fun _ _ _ _ h l hl => Or.inl ((lits_removeIn h).1 l hl)) p d d' old h l hl
    with h | h
  · exact h
  · cases h

theorem lits_atParent_removeIn_res {d d' old : Value} {p : List Bytes}
    (h : atParent o (removeIn o) d p = .ok (d', old)) :
    ∀ l, l ∈ old.numLits → l ∈ d.numLits :=
  lits_atParent_res (fun a => a.numLits) (fun _ _ _ _ h => (lits_removeIn h).2) p d d' old h

theorem lits_atParent_getIn_res {b : Bool} {d d' v : Value} {p : List Bytes}
    (h : atParent o (getIn o b) d p = .ok (d', v)) :
    ∀ l, l ∈ v.numLits → l ∈ d.numLits :=
  lits_atParent_res (fun a => a.numLits) (fun _ _ _ _ h => lits_getIn h) p d d' v h

theorem lits_copySrc {d v : Value} {frm : List Bytes} (h : copySrc o d frm = .ok v) :
    ∀ l, l ∈ v.numLits → l ∈ d.numLits := by
  cases frm with
  | nil => simp only [copySrc] at h; cases h; exact fun _ h => h
  | cons u us =>
    simp only [copySrc] at h
    obtain ⟨⟨d1, v1⟩, h1, h2⟩ := Res.bind_eq_ok.1 h
    cases h2
    exact lits_atParent_getIn_res h1

/-! ### `ensureAdd` -/

theorem numLitsL_replicate_null (n : Nat) : numLitsL (List.replicate n .null) = [] := by
  induction n with
  | zero => rfl
  | succ n ih => simp [List.replicate_succ, numLitsL, numLits, ih]

theorem lits_freshFor {t : Bytes} {fresh : Value} (h : freshFor t = .ok fresh) : fresh.numLits = [] := by
  simp only [freshFor] at h
  split at h
  · cases h; rfl
  · split at h
    · cases h
    · split at h
      · cases h
      · cases h; rw [numLits_arr, numLitsL_replicate_null]
  · cases h
  · cases h; rfl

theorem lits_ensureAdd {v : Value} : ∀ (p : List Bytes) (c d' : Value), ensureAdd o v c p = .ok d' →
    ∀ l, l ∈ d'.numLits → l ∈ c.numLits ∨ l ∈ v.numLits
  | [], c, d', h => by rw [ensureAdd_nil] at h; cases h
  | [t], c, d', h => by
    rw [ensureAdd_single] at h
    obtain ⟨⟨c', u⟩, h1, h2⟩ := Res.bind_eq_ok.1 h
    cases h2
    exact lits_addIn h1
  | t :: t2 :: ts, c, d', h => by
    intro l hl
    cases c with
    | obj ms =>
      rw [ensureAdd_obj_cons] at h
      cases hlk : Value.lookup t ms with
      | some child =>
        simp only [hlk] at h
        split at h
        · obtain ⟨c', h1, h2⟩ := Res.bind_eq_ok.1 h
          cases h2
          rw [numLits_obj] at hl ⊢
          rcases numLitsM_set hl with h | h
          · exact Or.inl h
          · rcases lits_ensureAdd (t2 :: ts) child c' h1 l h with h | h
            · exact Or.inl (numLitsM_of_lookup hlk h)
            · exact Or.inr h
        · cases h
      | none =>
        simp only [hlk] at h
        obtain ⟨fresh, hf, h1⟩ := Res.bind_eq_ok.1 h
        obtain ⟨inner, h2, h3⟩ := Res.bind_eq_ok.1 h1
        cases h3
        rw [numLits_obj] at hl ⊢
        rcases numLitsM_append.1 hl with h | h
        · exact Or.inl h
        · simp only [numLitsM, List.append_nil] at h
          rcases lits_ensureAdd (t2 :: ts) fresh inner h2 l h with h | h
          · rw [lits_freshFor hf] at h; cases h
          · exact Or.inr h
    | arr xs =>
      rw [ensureAdd_arr_cons] at h
      split at h
      · rename_i i _
        split at h
        · cases h
        · split at h
          · cases h
          · cases hx : xs[i.toNat]? with
            | some child =>
              simp only [hx] at h
              split at h
              · obtain ⟨c', h1, h2⟩ := Res.bind_eq_ok.1 h
                cases h2
                rw [numLits_arr] at hl ⊢
                obtain ⟨x, hxm, hlx⟩ := mem_numLitsL.1 hl
                rcases mem_setAt hxm with h | h
                · subst h
                  rcases lits_ensureAdd (t2 :: ts) child x h1 l hlx with h | h
                  · exact Or.inl (numLitsL_of_getElem? hx h)
                  · exact Or.inr h
                · exact Or.inl (mem_numLitsL.2 ⟨x, h, hlx⟩)
              · cases h
            | none =>
              simp only [hx] at h
              obtain ⟨fresh, hf, h1⟩ := Res.bind_eq_ok.1 h
              obtain ⟨inner, h2, h3⟩ := Res.bind_eq_ok.1 h1
              cases h3
              rw [numLits_arr] at hl ⊢
              obtain ⟨x, hxm, hlx⟩ := mem_numLitsL.1 hl
              simp only [List.mem_append, List.mem_replicate, List.mem_singleton] at hxm
              rcases hxm with (h | h) | h
              · exact Or.inl (mem_numLitsL.2 ⟨x, h, hlx⟩)
              · rw [h.2] at hlx; simp [numLits] at hlx
              · subst h
                rcases lits_ensureAdd (t2 :: ts) fresh x h2 l hlx with h | h
                · rw [lits_freshFor hf] at h; cases h
                · exact Or.inr h
      · cases h
    | null => rw [ensureAdd_cons_of_not_container _ rfl] at h; cases h
    | bool _ => rw [ensureAdd_cons_of_not_container _ rfl] at h; cases h
    | num _ => rw [ensureAdd_cons_of_not_container _ rfl] at h; cases h
    | str _ => rw [ensureAdd_cons_of_not_container _ rfl] at h; cases h

/-! ### one operation, a whole patch -/

/-- every number literal of the result of one operation occurs in the document or in the
operation's value -/
theorem lits_applyOp {size acc : Nat} {d : Value} {op : Op} {d' : Value} {acc' : Nat}
    (h : applyOp o size acc d op = .ok (d', acc')) :
    ∀ l, l ∈ d'.numLits → l ∈ d.numLits ∨ ∃ v, op.value = some v ∧ l ∈ v.numLits := by
  intro l hl
  cases hp : parsePointer op.path with
  | none => exact absurd h (applyOp_badPointer_ne_ok hp _)
  | some path =>
  cases hk : op.kind with
  | add =>
    cases hv : op.value with
    | none => rw [applyOp_add_none hp hk hv] at h; cases h
    | some v =>
      cases path with
      | nil =>
        rw [applyOp_add_root hp hk hv] at h
        split at h
        · cases h; exact Or.inr ⟨_, rfl, hl⟩
        · split at h <;> cases h
      | cons t ts =>
        rw [applyOp_add_cons hp hk hv] at h
        split at h
        · obtain ⟨d1, h1, h2⟩ := Res.bind_eq_ok.1 h
          cases h2
          rcases lits_ensureAdd _ _ _ h1 l hl with h | h
          · exact Or.inl h
          · exact Or.inr ⟨v, rfl, h⟩
        · obtain ⟨⟨d1, u⟩, h1, h2⟩ := Res.bind_eq_ok.1 h
          cases h2
          rcases lits_atParent_addIn h1 l hl with h | h
          · exact Or.inl h
          · exact Or.inr ⟨v, rfl, h⟩
  | remove =>
    cases path with
    | nil => rw [applyOp_remove_root hp hk] at h; cases h
    | cons t ts =>
      obtain ⟨_, h1 | ⟨old, h1⟩⟩ := applyOp_remove_ok hp hk h
      · rw [h1.2.2] at hl; exact Or.inl hl
      · exact Or.inl (lits_atParent_removeIn_doc h1 l hl)
  | replace =>
    cases hv : op.value with
    | none => rw [applyOp_replace_none hp hk hv] at h; cases h
    | some v =>
      cases path with
      | nil =>
        rw [applyOp_replace_root hp hk hv] at h
        split at h
        · cases h; exact Or.inr ⟨_, rfl, hl⟩
        · split at h <;> cases h
      | cons t ts =>
        rw [applyOp_replace_cons hp hk hv] at h
        obtain ⟨⟨d1, u⟩, h1, h2⟩ := Res.bind_eq_ok.1 h
        cases h2
        rcases lits_atParent_replaceIn h1 l hl with h | h
        · exact Or.inl h
        · exact Or.inr ⟨v, rfl, h⟩
  | move =>
    cases hf : parsePointer op.frm with
    | none => rw [applyOp_move_badFrom hp hk hf] at h; cases h
    | some frm =>
      cases frm with
      | nil => rw [applyOp_move_fromRoot hp hk hf] at h; cases h
      | cons u us =>
        cases path with
        | nil =>
          rw [applyOp_move_toRoot hp hk hf] at h
          obtain ⟨⟨d1, v1⟩, _, h2⟩ := Res.bind_eq_ok.1 h
          cases h2
        | cons t ts =>
          rw [applyOp_move_cons hp hk hf] at h
          obtain ⟨⟨d1, v1⟩, h1, h2⟩ := Res.bind_eq_ok.1 h
          obtain ⟨⟨d2, u2⟩, h3, h4⟩ := Res.bind_eq_ok.1 h2
          cases h4
          rcases lits_atParent_addIn h3 l hl with h | h
          · exact Or.inl (lits_atParent_removeIn_doc h1 l h)
          · exact Or.inl (lits_atParent_removeIn_res h1 l h)
  | copy =>
    cases hf : parsePointer op.frm with
    | none => rw [applyOp_copy_badFrom hp hk hf] at h; cases h
    | some frm =>
      cases path with
      | nil =>
        rw [applyOp_copy_toRoot hp hk hf] at h
        obtain ⟨v1, _, h2⟩ := Res.bind_eq_ok.1 h
        cases h2
      | cons t ts =>
        rw [applyOp_copy_cons hp hk hf] at h
        obtain ⟨v1, h1, h2⟩ := Res.bind_eq_ok.1 h
        obtain ⟨_, _, h3⟩ := Res.bind_eq_ok.1 h2
        split at h3
        · cases h3
        · obtain ⟨⟨d2, u2⟩, h4, h5⟩ := Res.bind_eq_ok.1 h3
          cases h5
          rcases lits_atParent_addIn h4 l hl with h | h
          · exact Or.inl h
          · exact Or.inl (lits_copySrc h1 l h)
  | test =>
    obtain ⟨rfl, _⟩ := applyOp_test_ok hk h
    exact Or.inl hl

/-- every number literal of the result of a patch occurs in the document or in the value of
one of the operations -/
theorem lits_applyFrom {sizeAt : Nat → Nat} : ∀ (ops : List Op) (i acc : Nat) (d d' : Value),
    applyFrom o sizeAt i acc d ops = .ok d' →
    ∀ l, l ∈ d'.numLits → l ∈ d.numLits ∨ ∃ op v, op ∈ ops ∧ op.value = some v ∧ l ∈ v.numLits
  | [], i, acc, d, d', h => by
    simp only [applyFrom] at h; cases h
    exact fun l hl => Or.inl hl
  | op :: ops, i, acc, d, d', h => by
    intro l hl
    simp only [applyFrom] at h
    split at h
    · rename_i d1 acc1 h1
      rcases lits_applyFrom ops _ _ _ _ h l hl with h2 | ⟨op', v, hm, hv, hlv⟩
      · rcases lits_applyOp h1 l h2 with h3 | ⟨v, hv, hlv⟩
        · exact Or.inl h3
        · exact Or.inr ⟨op, v, List.mem_cons_self, hv, hlv⟩
      · exact Or.inr ⟨op', v, List.mem_cons_of_mem _ hm, hv, hlv⟩
    · cases h
    · cases h

end Spec
end JP
