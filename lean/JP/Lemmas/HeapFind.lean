import JP.Lemmas.HeapCon2
import JP.Lemmas.ApplyBasic

/-!
# `findObject`: in-place descent = `Impl.walk`, and the container reached sits in a CONTEXT

`find` returns the ADDRESS of the container it reached; the value model's `walk` rebuilds the path
(`putChild`).  `find_refines` says they are the same thing: the heap after the descent splits into
the subtree at the container reached and a context (the containers on the path and all their other
children), disjoint from it, and whatever is done to the subtree WITHOUT touching the context makes
the root represent the value `walk` rebuilds (`Ctx`: the magic wand of the context).
-/

namespace JP
namespace Heap

open JP.Impl (Node NMembers Outcome walk Walk putChild conGet Opts)


/-! ### one step of `walk`, in convenient forms (the value model's own equations) -/

def isNilH : Node → Bool
  | .nil => true
  | _ => false

/-- what `walk` does with the result of the walk below a child stored under `key` -/
def wrapW {α} (o : Opts) (con : Node) (key : Bytes) : Walk α → Walk α
  | .done c a => .done (putChild o con key c) a
  | .notFound c => .notFound (putChild o con key c)
  | .fail e => .fail e
  | .panic => .panic
  | .doneSelf s a => .doneSelf s a
  | .notFoundSelf s => .notFoundSelf s

/-- the walk result once the action has run on the container found -/
def doneOf {α} (rb : Node → Node) : Outcome (Node × α) → Walk α
  | .ok (pc', a) => .done (rb pc') a
  | .err e => .fail e
  | .panic => .panic

theorem eng_walk_nil {α} (o : Opts) (act : Node → Node → Outcome (Node × α)) (cr : Bool) (self con : Node) :
    walk o act cr self con [] = doneOf id (act self con) := by
  rw [walk]
  cases act self con with
  | ok x => obtain ⟨a, b⟩ := x; rfl
  | err e => rfl
  | panic => rfl

theorem walk_cons_err {α} {o : Opts} {act : Node → Node → Outcome (Node × α)} {cr : Bool}
    {self con : Node} {part : Bytes} {rest : List Bytes} {er : Impl.Err}
    (hg : conGet o self con (decodeToken part) = .err er) :
    walk o act cr self con (part :: rest) = .notFound con := by
  rw [walk]
  simp only [hg]

theorem walk_cons_notfound {α} {o : Opts} {act : Node → Node → Outcome (Node × α)} {cr : Bool}
    {self con next : Node} {part : Bytes} {rest : List Bytes}
    (hg : conGet o self con (decodeToken part) = .ok next)
    (hn : isNilH next = true ∨ ∃ er, Impl.intoContainer next = .err er) :
    walk o act cr self con (part :: rest) = .notFound con := by
  rw [walk]
  simp only [hg]
  cases next with
  | nil => rfl
  | raw c => simp only [isNilH, Bool.false_eq_true, false_or] at hn
             obtain ⟨er, her⟩ := hn
             simp [her]
  | doc keys obj => simp only [isNilH, Bool.false_eq_true, false_or] at hn
                    obtain ⟨er, her⟩ := hn
                    simp [her]
  | ary ns => simp only [isNilH, Bool.false_eq_true, false_or] at hn
              obtain ⟨er, her⟩ := hn
              simp [her]
  | docNil => simp only [isNilH, Bool.false_eq_true, false_or] at hn
              obtain ⟨er, her⟩ := hn
              simp [her]
  | nilAry => simp only [isNilH, Bool.false_eq_true, false_or] at hn
              obtain ⟨er, her⟩ := hn
              simp [her]

theorem walk_cons_ok {α} {o : Opts} {act : Node → Node → Outcome (Node × α)} {cr : Bool}
    {self con next child : Node} {part : Bytes} {rest : List Bytes}
    (hg : conGet o self con (decodeToken part) = .ok next)
    (hn : isNilH next = false)
    (hc : Impl.intoContainer next = .ok child) :
    walk o act cr self con (part :: rest) =
      wrapW o con (decodeToken part) (walk o act false .nil child rest) := by
  rw [walk]
  simp only [hg]
  cases next with
  | nil => simp [isNilH] at hn
  | raw c => simp only [hc]
             cases walk o act false .nil child rest <;> rfl
  | doc keys obj => simp only [hc]
                    cases walk o act false .nil child rest <;> rfl
  | ary ns => simp only [hc]
              cases walk o act false .nil child rest <;> rfl
  | docNil => simp only [hc]
              cases walk o act false .nil child rest <;> rfl
  | nilAry => simp only [hc]
              cases walk o act false .nil child rest <;> rfl

/-- the context of the container at `c` below `root`: put ANY tree at `c` that leaves the cells
`ctx` alone, and `root` represents `plug` of it -/
def Ctx (h' : Heap) (root c : Nat) (ctx : List Nat) (plug : Node → Node) : Prop :=
  ∀ (h'' : Heap) (con' : Node) (fc' : List Nat), Repr h'' con' (some c) fc' →
    (∀ x ∈ ctx, h''[x]? = h'[x]?) → Disj fc' ctx →
    ∃ fp'', Repr h'' (plug con') (some root) fp'' ∧ ∀ x ∈ fp'', x ∈ fc' ∨ x ∈ ctx

/-- `find` against `walk`, outcome by outcome -/
def Found (o : Opts) (cr : Bool) (s : Node) (h : Heap) (a : Nat) (n : Node) (fp : List Nat)
    (parts : List Bytes) : Outcome (Heap × Option Nat) → Prop
  | .panic => ∀ {α : Type} (act : Node → Node → Outcome (Node × α)), walk o act cr s n parts = .panic
  | .err _ => False
  | .ok (h', none) =>
    ∃ n' fp', Repr h' n' (some a) fp' ∧ Ext h h' fp fp' ∧
      ∀ {α : Type} (act : Node → Node → Outcome (Node × α)), walk o act cr s n parts = .notFound n'
  | .ok (h', some c) =>
    ∃ conc fc ctx plug s', Repr h' conc (some c) fc ∧ Disj fc ctx ∧ Ext h h' fp (fc ++ ctx) ∧
      Ctx h' a c ctx plug ∧ (∀ x ∈ ctx, x < h'.length) ∧
      ∀ {α : Type} (act : Node → Node → Outcome (Node × α)),
        walk o act cr s n parts = doneOf plug (act s' conc)

theorem walk_cons_panic {α} {o : Opts} {act : Node → Node → Outcome (Node × α)} {cr : Bool}
    {self con : Node} {part : Bytes} {rest : List Bytes}
    (hg : conGet o self con (decodeToken part) = .panic) :
    walk o act cr self con (part :: rest) = .panic := by
  rw [walk]
  simp only [hg]

theorem walk_cons_into_panic {α} {o : Opts} {act : Node → Node → Outcome (Node × α)} {cr : Bool}
    {self con next : Node} {part : Bytes} {rest : List Bytes}
    (hg : conGet o self con (decodeToken part) = .ok next)
    (hn : isNilH next = false)
    (hc : Impl.intoContainer next = .panic) :
    walk o act cr self con (part :: rest) = .panic := by
  rw [walk]
  simp only [hg]
  cases next with
  | nil => simp [isNilH] at hn
  | raw c => simp only [hc]
  | doc keys obj => simp only [hc]
  | ary ns => simp only [hc]
  | docNil => simp only [hc]
  | nilAry => simp only [hc]

theorem wrapW_doneOf {α} (o : Opts) (con : Node) (key : Bytes) (rb : Node → Node)
    (x : Outcome (Node × α)) :
    wrapW o con key (doneOf rb x) = doneOf (fun y => putChild o con key (rb y)) x := by
  cases x with
  | ok v => obtain ⟨a, b⟩ := v; rfl
  | err e => rfl
  | panic => rfl

theorem isNil_false_of_repr {h : Heap} {n : Node} {b : Nat} {f : List Nat}
    (r : Repr h n (some b) f) : isNilH n = false := by
  cases n with
  | nil => simp only [Repr] at r; cases r.1
  | raw c => rfl
  | doc k m => rfl
  | ary k => rfl
  | docNil => rfl
  | nilAry => rfl

/-- an operation confined to `f ⊆ fp` is an operation confined to `fp` -/
theorem Ext.widen {h h' : Heap} {f g fp g' : List Nat} (e : Ext h h' f g) (sf : ∀ x ∈ f, x ∈ fp)
    (sg : ∀ x ∈ g', x ∈ g ∨ x ∈ fp) : Ext h h' fp g' := by
  refine ⟨e.len, fun x hx hf => e.frame x hx (fun h1 => hf (sf x h1)), fun x hx => ?_⟩
  rcases sg x hx with h1 | h1
  · rcases e.sub x h1 with h2 | h2
    · exact Or.inl (sf x h2)
    · exact Or.inr h2
  · exact Or.inl h1

theorem find_refines (o : Opts) : ∀ (parts : List Bytes) (h : Heap) (a : Nat) (n : Node) (fp : List Nat)
    (cr : Bool) (s : Node), Repr h n (some a) fp → Found o cr s h a n fp parts (find o h a parts)
  | [], h, a, n, fp, cr, s, r => by
    simp only [find, Found]
    refine ⟨n, fp, [], id, s, r, Disj.nil_right _, ?_, ?_, (fun x hx => by cases hx),
      fun act => eng_walk_nil o act cr s n⟩
    · simpa using Ext.refl h fp
    · intro h'' con' fc' r' _ _
      exact ⟨fc', r', fun x hx => Or.inl hx⟩
  | part :: rest, h, a, n, fp, cr, s, r => by
    have hG := hGet_refines o s (decodeToken part) r
    have hv := Repr.valid n r
    simp only [find]
    cases hg : hGet o h a (decodeToken part) with
    | panic =>
      cases hc : conGet o s n (decodeToken part) with
      | panic => simp only [Found]; intro α act; exact walk_cons_panic hc
      | ok x => rw [hg, hc] at hG; simp at hG
      | err e => rw [hg, hc] at hG; simp at hG
    | err e =>
      cases hc : conGet o s n (decodeToken part) with
      | panic => rw [hg, hc] at hG; simp at hG
      | ok x => rw [hg, hc] at hG; simp at hG
      | err e' =>
        simp only [Found]
        exact ⟨n, fp, r, Ext.refl _ _, fun act => walk_cons_err hc⟩
    | ok p =>
      cases hc : conGet o s n (decodeToken part) with
      | panic => rw [hg, hc] at hG; simp at hG
      | err e' => rw [hg, hc] at hG; simp at hG
      | ok next =>
        rw [hg, hc] at hG
        simp only [OutRel_ok_ok] at hG
        obtain ⟨f, rst, hr, dfr, sf, sr, hcr, wand⟩ := hG
        cases p with
        | none =>
          obtain ⟨rfl, _⟩ := Repr.none_iff hr
          simp only [Found]
          exact ⟨n, fp, r, Ext.refl _ _, fun act => walk_cons_notfound hc (Or.inl rfl)⟩
        | some b =>
          have hnn := isNil_false_of_repr hr
          have hI := intoContainer_refines hr
          simp only
          cases hi : intoContainer h (some b) with
          | panic =>
            cases hi2 : Impl.intoContainer next with
            | panic => simp only [Found]; intro α act; exact walk_cons_into_panic hc hnn hi2
            | ok x => rw [hi, hi2] at hI; simp at hI
            | err e => rw [hi, hi2] at hI; simp at hI
          | err e =>
            cases hi2 : Impl.intoContainer next with
            | panic => rw [hi, hi2] at hI; simp at hI
            | ok x => rw [hi, hi2] at hI; simp at hI
            | err e' =>
              simp only [Found]
              exact ⟨n, fp, r, Ext.refl _ _, fun act => walk_cons_notfound hc (Or.inr ⟨e', hi2⟩)⟩
          | ok h1 =>
            cases hi2 : Impl.intoContainer next with
            | panic => rw [hi, hi2] at hI; simp at hI
            | err e' => rw [hi, hi2] at hI; simp at hI
            | ok child =>
              rw [hi, hi2] at hI
              simp only [OutRel_ok_ok] at hI
              obtain ⟨f1, hr1, e1⟩ := hI
              have ih := find_refines o rest h1 b child f1 false .nil hr1
              have hwalk : ∀ {α : Type} (act : Node → Node → Outcome (Node × α)),
                  walk o act cr s n (part :: rest) =
                    wrapW o n (decodeToken part) (walk o act false .nil child rest) :=
                fun act => walk_cons_ok hc hnn hi2
              have vrst : ∀ x ∈ rst, x < h.length := fun x hx => hv x (sr x hx)
              show Found o cr s h a n fp (part :: rest) (find o h1 b rest)
              cases hf : find o h1 b rest with
              | panic =>
                rw [hf] at ih
                simp only [Found] at ih ⊢
                intro α act
                rw [hwalk act, ih act]; rfl
              | err e => rw [hf] at ih; simp only [Found] at ih
              | ok res =>
                obtain ⟨h2, oc⟩ := res
                rw [hf] at ih
                cases oc with
                | none =>
                  simp only [Found] at ih ⊢
                  obtain ⟨n', fp1, hr2, e2, hw⟩ := ih
                  have e12 := Ext.trans e1 e2
                  obtain ⟨fpA, hrA, subA⟩ := wand h2 n' fp1 hr2
                    (fun x hx => e12.frame x (vrst x hx) (fun h1 => dfr x h1 hx))
                    (Disj.symm (Ext.disj e12 (Disj.symm dfr) vrst))
                  refine ⟨_, fpA, hrA, Ext.widen e12 sf (fun x hx => ?_), fun act => ?_⟩
                  · rcases subA x hx with h1 | h1
                    · exact Or.inl h1
                    · exact Or.inr (sr x h1)
                  · rw [hwalk act, hw act]; rfl
                | some c =>
                  simp only [Found] at ih ⊢
                  obtain ⟨conc, fc, ctx1, plug1, s', hrc, dc, e2, hctx, vctx, hw⟩ := ih
                  have e12 := Ext.trans e1 e2
                  have drst : Disj rst (fc ++ ctx1) := Ext.disj e12 (Disj.symm dfr) vrst
                  refine ⟨conc, fc, ctx1 ++ rst, fun x => putChild o n (decodeToken part) (plug1 x), s',
                    hrc, ?_, Ext.widen e12 sf (fun x hx => ?_), ?_, fun x hx => ?_, fun act => ?_⟩
                  · intro x hx hy
                    simp only [List.mem_append] at hy
                    rcases hy with hy | hy
                    · exact dc x hx hy
                    · exact drst x hy (by simp [hx])
                  · simp only [List.mem_append] at hx ⊢
                    rcases hx with hx | hx | hx
                    · exact Or.inl (Or.inl hx)
                    · exact Or.inl (Or.inr hx)
                    · exact Or.inr (sr x hx)
                  · intro h'' con' fc' r' fr d'
                    obtain ⟨fpb, hrb, subb⟩ := hctx h'' con' fc' r' (fun x hx => fr x (by simp [hx]))
                      (fun x hx hy => d' x hx (by simp [hy]))
                    obtain ⟨fpA, hrA, subA⟩ := wand h'' (plug1 con') fpb hrb
                      (fun x hx => by
                        rw [fr x (by simp [hx])]
                        exact e12.frame x (vrst x hx) (fun h1 => dfr x h1 hx))
                      (fun x hx hy => by
                        rcases subb x hx with h1 | h1
                        · exact d' x h1 (by simp [hy])
                        · exact drst x hy (by simp [h1]))
                    refine ⟨fpA, hrA, fun x hx => ?_⟩
                    simp only [List.mem_append]
                    rcases subA x hx with h1 | h1
                    · rcases subb x h1 with h2 | h2
                      · exact Or.inl h2
                      · exact Or.inr (Or.inl h2)
                    · exact Or.inr (Or.inr h1)
                  · simp only [List.mem_append] at hx
                    rcases hx with hx | hx
                    · exact vctx x hx
                    · exact Nat.lt_of_lt_of_le (vrst x hx) e12.len
                  · rw [hwalk act, hw act, wrapW_doneOf]

/-! ### `findObject(doc, path)` against `withPath` -/

def FoundP (o : Opts) (r : Impl.Root) (h : Heap) (root : Nat) (fp : List Nat) (path : Bytes) :
    Outcome (Heap × Option (Nat × Bytes)) → Prop
  | .panic => ∀ {α : Type} (act : Node → Node → Bytes → Outcome (Node × α)),
      Impl.withPath o r path act = .panic
  | .err _ => False
  | .ok (h', none) =>
    ∃ n' fp', Repr h' n' (some root) fp' ∧ Ext h h' fp fp' ∧
      ∀ {α : Type} (act : Node → Node → Bytes → Outcome (Node × α)),
        Impl.withPath o r path act = .notFound n'
  | .ok (h', some (c, key)) =>
    ∃ conc fc ctx plug s', Repr h' conc (some c) fc ∧ Disj fc ctx ∧ Ext h h' fp (fc ++ ctx) ∧
      Ctx h' root c ctx plug ∧ (∀ x ∈ ctx, x < h'.length) ∧
      ∀ {α : Type} (act : Node → Node → Bytes → Outcome (Node × α)),
        Impl.withPath o r path act = doneOf plug (act s' conc key)

theorem findObject_refines (o : Opts) (r : Impl.Root) {h : Heap} {root : Nat} {fp : List Nat}
    (path : Bytes) (hr : Repr h r.con (some root) fp) :
    FoundP o r h root fp path (findObject o h root path) := by
  unfold findObject
  cases hs : Impl.splitPath path with
  | none =>
    simp only [FoundP]
    exact ⟨r.con, fp, hr, Ext.refl _ _, fun act => by simp only [Impl.withPath, hs]⟩
  | some pk =>
    obtain ⟨parts, key⟩ := pk
    have hF := find_refines o parts h root r.con fp r.selfCR r.self hr
    simp only
    cases hf : find o h root parts with
    | panic =>
      rw [hf] at hF
      simp only [Found] at hF
      simp only [FoundP]
      intro α act
      simp only [Impl.withPath, hs]
      exact hF _
    | err e => rw [hf] at hF; simp only [Found] at hF
    | ok res =>
      obtain ⟨h', oc⟩ := res
      rw [hf] at hF
      cases oc with
      | none =>
        simp only [Found] at hF
        simp only [FoundP]
        obtain ⟨n', fp', h1, h2, h3⟩ := hF
        exact ⟨n', fp', h1, h2, fun act => by simp only [Impl.withPath, hs]; exact h3 _⟩
      | some c =>
        simp only [Found] at hF
        simp only [FoundP]
        obtain ⟨conc, fc, ctx, plug, s', h1, h2, h3, h4, h5, h6⟩ := hF
        exact ⟨conc, fc, ctx, plug, s', h1, h2, h3, h4, h5,
          fun act => by simp only [Impl.withPath, hs]; exact h6 _⟩

/-- put the rewritten container back into its context (after an optional allocation `ext`) -/
theorem commit {h h2 : Heap} {fp : List Nat} {root c : Nat} {conc : Node} {fc ctx : List Nat}
    {plug : Node → Node} (hrc : Repr h2 conc (some c) fc) (dc : Disj fc ctx)
    (e : Ext h h2 fp (fc ++ ctx)) (hctx : Ctx h2 root c ctx plug) (vctx : ∀ x ∈ ctx, x < h2.length)
    (ext : List Cell) (cell' : Cell) {con' : Node} {fc' : List Nat}
    (hr : Repr ((h2 ++ ext).set c cell') con' (some c) fc')
    (sub : ∀ x ∈ fc', x ∉ ctx ∧ (x ∈ fp ∨ h.length ≤ x)) :
    ∃ fp', Repr ((h2 ++ ext).set c cell') (plug con') (some root) fp' ∧
      Ext h ((h2 ++ ext).set c cell') fp fp' ∧ ∀ x ∈ fp', x ∈ fc' ∨ x ∈ ctx := by
  have hcfc : c ∈ fc := Repr.head_mem hrc
  obtain ⟨fp', hr', sub'⟩ := hctx _ con' fc' hr
    (fun x hx => by
      rw [List.getElem?_set_ne (by intro e'; exact dc c hcfc (e' ▸ hx))]
      exact List.getElem?_append_left (vctx x hx))
    (fun x hx hy => (sub x hx).1 hy)
  refine ⟨fp', hr', ⟨?_, fun x hx hf => ?_, fun x hx => ?_⟩, sub'⟩
  · simp only [List.length_set, List.length_append]; have := e.len; omega
  · have hxc : c ≠ x := by
      intro e'
      subst e'
      rcases e.sub c (by simp [hcfc]) with h1 | h1
      · exact hf h1
      · omega
    rw [List.getElem?_set_ne hxc, List.getElem?_append_left (Nat.lt_of_lt_of_le hx e.len)]
    exact e.frame x hx hf
  · rcases sub' x hx with h1 | h1
    · exact (sub x h1).2
    · exact e.sub x (by simp [h1])

end Heap
end JP
