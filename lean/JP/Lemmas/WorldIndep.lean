import JP.Lemmas.WorldPool

/-!
# `Sat`: what a program returns whatever (invariant-respecting) leftovers it meets, and the
invariant of everything it puts back; `Bal`: it never puts what it does not hold
-/

namespace JP
namespace World

open Impl

/-- `Sat p Q`: whatever objects the pools hand out (as long as they satisfy the pool
invariants) the program returns a value satisfying `Q`, and every object it puts back satisfies
the pool invariants again -/
inductive SatI {α : Type} (Q : α → Prop) : Prog α → Nat → Nat → Nat → Prop
  | ret {x : α} {a b c : Nat} : Q x → SatI Q (.ret x) a b c
  | getDec {k : DecState → Prog α} {a b c : Nat} :
      (∀ s : DecState, s.Inv → SatI Q (k s) (a + 1) b c) → SatI Q (.getDec k) a b c
  | putDec {s : DecState} {k : Prog α} {a b c : Nat} : s.Inv → SatI Q k a b c → SatI Q (.putDec s k) (a + 1) b c
  | getEnc {k : EncState → Prog α} {a b c : Nat} :
      (∀ s : EncState, s.Inv → SatI Q (k s) a (b + 1) c) → SatI Q (.getEnc k) a b c
  | putEnc {s : EncState} {k : Prog α} {a b c : Nat} : s.Inv → SatI Q k a b c → SatI Q (.putEnc s k) a (b + 1) c
  | getScan {k : ScanState → Prog α} {a b c : Nat} :
      (∀ s : ScanState, SatI Q (k s) a b (c + 1)) → SatI Q (.getScan k) a b c
  | putScan {s : ScanState} {k : Prog α} {a b c : Nat} : SatI Q k a b c → SatI Q (.putScan s k) a b (c + 1)
  | cache {key : Nat} {k : Prog α} {a b c : Nat} : SatI Q k a b c → SatI Q (.cache key k) a b c
  | tau {k : Prog α} {a b c : Nat} : SatI Q k a b c → SatI Q (.tau k) a b c

/-- the indices count the objects of each pool the program holds at this point: it never puts
an object it does not hold.  A whole call starts holding nothing. -/
abbrev Sat {α : Type} (p : Prog α) (Q : α → Prop) : Prop := SatI Q p 0 0 0

theorem SatI.lift {α : Type} {p : Prog α} {Q : α → Prop} {a b c : Nat} (hp : SatI Q p a b c) (a' b' c' : Nat) :
    SatI Q p (a + a') (b + b') (c + c') := by
  induction hp with
  | ret hq => exact .ret hq
  | getDec _ ih => exact .getDec fun s hs => by have := ih s hs; rwa [Nat.add_right_comm] at this
  | putDec hs _ ih => rw [Nat.add_right_comm]; exact .putDec hs ih
  | getEnc _ ih => exact .getEnc fun s hs => by have := ih s hs; rwa [Nat.add_right_comm] at this
  | putEnc hs _ ih => rw [Nat.add_right_comm]; exact .putEnc hs ih
  | getScan _ ih => exact .getScan fun s => by have := ih s; rwa [Nat.add_right_comm] at this
  | putScan _ ih => rw [Nat.add_right_comm]; exact .putScan ih
  | cache _ ih => exact .cache ih
  | tau _ ih => exact .tau ih

theorem SatI.bind {α β : Type} {p : Prog α} {Q : α → Prop} {f : α → Prog β} {R : β → Prop} {a b c : Nat}
    (hp : SatI Q p a b c) (hf : ∀ x, Q x → Sat (f x) R) : SatI R (p.bind f) a b c := by
  induction hp with
  | @ret x a b c hq => have := (hf _ hq).lift a b c; simp only [Nat.zero_add] at this; exact this
  | getDec _ ih => exact .getDec fun s hs => ih s hs
  | putDec hs _ ih => exact .putDec hs ih
  | getEnc _ ih => exact .getEnc fun s hs => ih s hs
  | putEnc hs _ ih => exact .putEnc hs ih
  | getScan _ ih => exact .getScan fun s => ih s
  | putScan _ ih => exact .putScan ih
  | cache _ ih => exact .cache ih
  | tau _ ih => exact .tau ih

theorem Sat.bind {α β : Type} {p : Prog α} {Q : α → Prop} {f : α → Prog β} {R : β → Prop}
    (hp : Sat p Q) (hf : ∀ x, Q x → Sat (f x) R) : Sat (p.bind f) R := SatI.bind hp hf

/-- every leftover the call meets satisfies the pool invariants -/
def Leftovers.Inv (L : Leftovers) : Prop := (∀ i, (L.dec i).Inv) ∧ (∀ i, (L.enc i).Inv)

theorem SatI.runFrom {α : Type} {p : Prog α} {Q : α → Prop} {a b c : Nat} (hp : SatI Q p a b c)
    (L : Leftovers) (hL : L.Inv) (i j l : Nat) : Q (p.runFrom L i j l) := by
  induction hp generalizing i j l with
  | ret hq => exact hq
  | getDec _ ih => exact ih _ (hL.1 i) _ _ _
  | putDec _ _ ih => exact ih _ _ _
  | getEnc _ ih => exact ih _ (hL.2 j) _ _ _
  | putEnc _ _ ih => exact ih _ _ _
  | getScan _ ih => exact ih _ _ _ _
  | putScan _ ih => exact ih _ _ _
  | cache _ ih => exact ih _ _ _
  | tau _ ih => exact ih _ _ _

theorem Sat.run {α : Type} {p : Prog α} {Q : α → Prop} (hp : Sat p Q) (L : Leftovers) (hL : L.Inv) :
    Q (p.run L) := SatI.runFrom hp L hL 0 0 0

theorem Leftovers.fresh_inv : Leftovers.fresh.Inv := ⟨fun _ => rfl, fun _ => rfl⟩

/-! ### entry points -/

theorem validP_sat (data : Bytes) : Sat (validP data) (· = Scanner.valid data) :=
  .getScan fun s => .putScan (.ret (validW_fst s data))

theorem compactP_sat (esc : Bool) (src : Bytes) : Sat (compactP esc src) (· = Scanner.compact esc src) :=
  .getScan fun s => .putScan (.ret (compactW_fst s esc src))

theorem indentP_sat (ind src : Bytes) : Sat (indentP ind src) (· = Scanner.indent ind src) :=
  .getScan fun s => .putScan (.ret (indentW_fst s ind src))

theorem unmarshalValidP_sat (data : Bytes) (tgt : Target) :
    Sat (unmarshalValidP data tgt) (· = decodePure data tgt false false) :=
  .getDec fun s hs => .putDec (unmarshalValid_release_inv s data tgt hs)
    (.ret (by rw [unmarshalValid_fst, hs]))

theorem unmarshalP_sat (data : Bytes) (tgt : Target) :
    Sat (unmarshalP data tgt)
      (· = if Scanner.valid data then decodePure data tgt false false else .syntax) :=
  .getDec fun s hs => .putDec (unmarshal_release_inv s data tgt hs)
    (.ret (by rw [unmarshal_fst, hs]))

theorem marshalP_sat (h : EncHavoc) (out : Outcome Bytes) : Sat (marshalP h out) (· = out) := by
  refine .getEnc fun e he => ?_
  obtain ⟨e', h1, h2⟩ := marshalEscapedW_inv e h out he
  rw [h1]
  exact .cache (.putEnc h2 (.ret rfl))

/-- the root `partialDoc`: its node in the pure model is determined by the text; its `keys` are not -/
theorem docUnmarshalP_sat (data : Bytes) (c : Cst) (hp : parseCst data = some c) :
    Sat (docUnmarshalP data) (fun r => ∃ stale, r = pdocPure stale data) := by
  refine .getDec fun d0 h0 => ?_
  have h1 := delegate_fst d0 data c hp
  have h2 := unmarshalValid_release_inv d0 data .delegate h0
  cases hu : unmarshalValid d0 data .delegate with
  | mk r d0' =>
    rw [hu] at h1 h2
    simp only at h1 h2
    subst h1
    simp only
    refine .getDec fun d1 hd1 => ?_
    refine .putDec ?_ (.putDec h2 (.ret ⟨d1.lastKeys, partialDocUnmarshal_fst d1 data⟩))
    have := unmarshalValidWithKeys_release_inv d1 data hd1
    unfold partialDocUnmarshal
    cases hk : unmarshalValidWithKeys d1 data with
    | mk r2 rest =>
      cases rest with
      | mk keys d =>
        rw [hk] at this
        cases r2 with
        | ok c2 fl => cases c2 <;> exact this
        | _ => exact this

theorem aryUnmarshalP_sat (data : Bytes) (xs : List Cst) (hp : parseCst data = some (.arr xs)) :
    Sat (aryUnmarshalP data) (· = .ok (decodeAry xs)) := by
  refine .getDec fun d0 h0 => ?_
  have h1 := delegate_fst d0 data _ hp
  have h2 := unmarshalValid_release_inv d0 data .delegate h0
  cases hu : unmarshalValid d0 data .delegate with
  | mk r d0' =>
    rw [hu] at h1 h2
    simp only at h1 h2
    subst h1
    simp only
    refine .getDec fun d1 hd1 => ?_
    refine .putDec ?_ (.putDec h2 (.ret (partialAryUnmarshal_fst d1 data xs hp)))
    have := unmarshalValid_release_inv d1 data .sliceLazy hd1
    unfold partialAryUnmarshal
    cases hk : unmarshalValid d1 data .sliceLazy with
    | mk r2 d =>
      rw [hk] at this
      cases r2 with
      | ok c2 fl => cases c2 <;> exact this
      | _ => exact this

theorem innerP_sat (xs : List Inner) : Sat (innerP xs) (fun _ => True) := by
  induction xs with
  | nil => exact .ret trivial
  | cons x rest ih =>
    cases x with
    | decode data tgt => exact (unmarshalValidP_sat data tgt).bind fun _ _ => ih
    | encode h out => exact (marshalP_sat h out).bind fun _ _ => ih
    | compact esc src => exact (compactP_sat esc src).bind fun _ _ => ih
    | valid data => exact (validP_sat data).bind fun _ _ => ih

end World
end JP
