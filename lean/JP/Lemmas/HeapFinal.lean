import JP.Lemmas.HeapCopy
import JP.Lemmas.HeapTest
import JP.Lemmas.HeapEnsure3
import JP.Lemmas.NoPanicApply

/-!
# All six operations, the loop, the entry point: heap model = value model, unconditionally

The only fact about the value model used beyond its definitions: the root is container-shaped
(`RootOK`, the invariant of `JP.Props.C04.apply_no_panic`), needed where `ensurePathExists` calls
`doc.add` on the current container before it descends.
-/

namespace JP
namespace Heap

open JP.Impl (Node NMembers Outcome Opts Op Root RootOK isCon)

theorem applyOp_refines (o : Opts) {s : St} {r : Root} {fp : List Nat} (acc : Int) (op : Op)
    (hr : Repr s.h r.con (some s.root) fp) (hc : isCon r.con = true) :
    OutRel (RelAcc s.h fp) (Heap.applyOp o s acc op) (Impl.applyOp o r acc op) :=
  applyOp_refines_of o acc op (fun _ => opCopy_refines o acc op hr) (fun _ => opTest_refines o op hr)
    (fun _ => opAdd_refines_all o op hr hc) hr

/-- the invariant of the value model survives every successful operation (valid or not: an
`add`/`replace` of the whole document without a value crashes in both models) -/
theorem applyOp_rootOK {o : Opts} {r : Root} {acc : Int} {op : Op} {r' : Root} {acc' : Int}
    (hr : RootOK r) (h : Impl.applyOp o r acc op = .ok (r', acc')) : RootOK r' := by
  by_cases hv : Impl.OpValid op
  · have := Impl.applyOp_ok (o := o) (acc := acc) hr hv
    rw [h] at this; exact this
  · have hnv : (op.kind = ascii "add" ∨ op.kind = ascii "replace") ∧ op.value = none := by
      unfold Impl.OpValid at hv
      by_cases hk : op.kind = ascii "add" ∨ op.kind = ascii "replace"
      · refine ⟨hk, ?_⟩
        cases hval : op.value with
        | none => rfl
        | some c => exact absurd (fun _ => by simp [hval]) hv
      · exact absurd (fun hk' => absurd hk' hk) hv
    obtain ⟨hk, hval⟩ := hnv
    rw [Impl.applyOp_eq] at h
    rcases hk with hk | hk
    · simp only [hk, if_true] at h
      have hx := Impl.liftAcc_ok h
      by_cases hp : op.path = []
      · have : Impl.opAdd o r op = .panic := by simp [Impl.opAdd, hp, hval]
        rw [this] at hx; cases hx.1
      · have := Impl.opAdd_ok (o := o) (op := op) hr (fun hp' => absurd hp' hp)
        rw [hx.1] at this; exact this
    · have hne : ¬ op.kind = ascii "add" := by rw [hk]; decide
      have hne2 : ¬ op.kind = ascii "remove" := by rw [hk]; decide
      simp only [hne, hne2, hk, if_true, if_false] at h
      have hx := Impl.liftAcc_ok h
      by_cases hp : op.path = []
      · have : Impl.opReplace o r op = .panic := by simp [Impl.opReplace, hp, hval]
        rw [this] at hx; cases hx.1
      · have := Impl.opReplace_ok (o := o) (op := op) hr (fun hp' => absurd hp' hp)
        rw [hx.1] at this; exact this

theorem applyOps_refines (o : Opts) : ∀ (ops : List Op) (s : St) (r : Root) (fp : List Nat)
    (acc : Int), Repr s.h r.con (some s.root) fp → RootOK r →
    OutRel (RelSt s.h fp) (Heap.applyOps o s acc ops) (Impl.applyOps o r acc ops)
  | [], s, r, fp, acc, hr, _ => by
    simp only [Heap.applyOps, Impl.applyOps, OutRel_ok_ok]
    exact ⟨fp, hr, Ext.refl _ _⟩
  | op :: ops, s, r, fp, acc, hr, hok => by
    have h1 := applyOp_refines o acc op hr hok.1
    simp only [Heap.applyOps, Impl.applyOps]
    cases hx : Heap.applyOp o s acc op with
    | panic =>
      cases hy : Impl.applyOp o r acc op with
      | panic => simp
      | ok y => rw [hx, hy] at h1; simp at h1
      | err e => rw [hx, hy] at h1; simp at h1
    | err e =>
      cases hy : Impl.applyOp o r acc op with
      | panic => rw [hx, hy] at h1; simp at h1
      | ok y => rw [hx, hy] at h1; simp at h1
      | err e' => rw [hx, hy] at h1; simpa using h1
    | ok x =>
      cases hy : Impl.applyOp o r acc op with
      | panic => rw [hx, hy] at h1; simp at h1
      | err e' => rw [hx, hy] at h1; simp at h1
      | ok y =>
        rw [hx, hy] at h1
        simp only [OutRel_ok_ok, RelAcc] at h1
        obtain ⟨s1, a1⟩ := x
        obtain ⟨r1, a1'⟩ := y
        obtain ⟨⟨fp1, hr1, e1⟩, rfl⟩ := h1
        simp only
        have ih := applyOps_refines o ops s1 r1 fp1 a1 hr1 (applyOp_rootOK hok hy)
        exact OutRel.mono (fun a b hab => RelSt.trans e1 hab) ih

/-- the heap engine = the value engine, for every option set, document and patch -/
theorem applyHeap_eq (o : Opts) (doc : Bytes) (ops : List Op) :
    applyHeap o doc ops = Impl.applyBytes o [] doc ops := by
  unfold applyHeap Impl.applyBytes
  by_cases hd : doc = []
  · simp [hd]
  · simp only [hd, if_false]
    by_cases hv : (!Scanner.valid doc) = true
    · simp [hv]
    · simp only [hv]
      cases hp : parseCst doc with
      | none => rfl
      | some c =>
        simp only
        have hN := newRoot_refines [] c
        have hd := Impl.decodeRoot_ok c
        cases h1 : newRoot [] c with
        | panic =>
          cases h2 : Impl.decodeRoot c with
          | panic => rfl
          | ok x => rw [h1, h2] at hN; simp at hN
          | err e => rw [h1, h2] at hN; simp at hN
        | err e =>
          cases h2 : Impl.decodeRoot c with
          | panic => rw [h1, h2] at hN; simp at hN
          | ok x => rw [h1, h2] at hN; simp at hN
          | err e' => rw [h1, h2] at hN; simp only [OutRel_err_err] at hN; subst hN; rfl
        | ok s =>
          cases h2 : Impl.decodeRoot c with
          | panic => rw [h1, h2] at hN; simp at hN
          | err e' => rw [h1, h2] at hN; simp at hN
          | ok con =>
            rw [h1, h2] at hN; simp only [OutRel_ok_ok] at hN
            rw [h2] at hd
            obtain ⟨fp, hr, _, _⟩ := hN
            simp only
            have hrok : RootOK { con := con, self := .raw c, selfCR := c.isArr && !Impl.goIsArray doc } :=
              ⟨hd.1, hd.2, Impl.NP_raw c⟩
            have hO := applyOps_refines o ops s
              { con := con, self := .raw c, selfCR := c.isArr && !Impl.goIsArray doc } fp 0 hr hrok
            cases h3 : Heap.applyOps o s 0 ops with
            | panic =>
              cases h4 : Impl.applyOps o { con := con, self := .raw c, selfCR := c.isArr && !Impl.goIsArray doc } 0 ops with
              | panic => rfl
              | ok x => rw [h3, h4] at hO; simp at hO
              | err e => rw [h3, h4] at hO; simp at hO
            | err e =>
              cases h4 : Impl.applyOps o { con := con, self := .raw c, selfCR := c.isArr && !Impl.goIsArray doc } 0 ops with
              | panic => rw [h3, h4] at hO; simp at hO
              | ok x => rw [h3, h4] at hO; simp at hO
              | err e' => rw [h3, h4] at hO; simp only [OutRel_err_err] at hO; subst hO; rfl
            | ok s' =>
              cases h4 : Impl.applyOps o { con := con, self := .raw c, selfCR := c.isArr && !Impl.goIsArray doc } 0 ops with
              | panic => rw [h3, h4] at hO; simp at hO
              | err e' => rw [h3, h4] at hO; simp at hO
              | ok r' =>
                rw [h3, h4] at hO; simp only [OutRel_ok_ok] at hO
                obtain ⟨fp', hr', _⟩ := hO
                simp only
                rw [marshalRoot_refines o.esc hr']
                cases Impl.marshalRoot o.esc r' <;> rfl

end Heap
end JP
