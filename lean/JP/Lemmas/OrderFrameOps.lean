import JP.Lemmas.OrderFrame

/-!
# Frame law for one operation and for a whole patch
-/

namespace JP
namespace Spec
open Value

variable {o : Opts}

theorem readIdx_of_int {neg : Bool} {n : Nat} {t : Bytes} {i : Int} (hc : classify t = .int i)
    (h0 : ¬ i < 0) : readIdx neg n t = if i.toNat < n then .at i.toNat else .bad := by
  have : 0 ≤ i := by omega
  simp only [readIdx, hc, this, if_true]

/-- `ensureAdd`: the container at a prefix of the pointer is still an object, only the member
on the way may have changed; that member is appended if it had to be created -/
theorem ensureAdd_at_prefix {v : Value} {a : Bytes} {p' : List Bytes} {ms : Members} :
    ∀ (c : List Bytes) (d d' : Value), ensureAdd o v d (c ++ a :: p') = .ok d' →
      resolve o.neg d c = some (.obj ms) →
      ∃ ms', resolve o.neg d' c = some (.obj ms') ∧
        (∀ b, b ≠ a → Value.lookup b ms' = Value.lookup b ms) ∧
        (keys ms' = keys ms ∨ (Value.lookup a ms = none ∧ keys ms' = keys ms ++ [a]))
  | [], d, d', h, hres => by
    rw [resolve_nil] at hres; cases hres
    rw [List.nil_append] at h
    cases p' with
    | nil =>
      rw [ensureAdd_single, addIn_obj] at h
      cases h
      refine ⟨_, rfl, fun b hb => lookup_set_other hb v ms, ?_⟩
      cases hl : Value.lookup a ms with
      | none => exact Or.inr ⟨rfl, keys_set_absent a v ms (by simp [hl])⟩
      | some w => exact Or.inl (keys_set_present a v ms (by simp [hl]))
    | cons t2 ts =>
      rw [ensureAdd_obj_cons] at h
      cases hl : Value.lookup a ms with
      | some ch =>
        simp only [hl] at h
        split at h
        · obtain ⟨c', _, h2⟩ := Res.bind_eq_ok.1 h
          cases h2
          exact ⟨_, rfl, fun b hb => lookup_set_other hb c' ms,
            Or.inl (keys_set_present a c' ms (by simp [hl]))⟩
        · cases h
      | none =>
        simp only [hl] at h
        obtain ⟨fresh, _, h1⟩ := Res.bind_eq_ok.1 h
        obtain ⟨inner, _, h3⟩ := Res.bind_eq_ok.1 h1
        cases h3
        refine ⟨_, rfl, fun b hb => ?_, Or.inr ⟨rfl, by simp [keys_append, keys_cons, keys_nil]⟩⟩
        rw [lookup_append, lookup_cons_ne (Ne.symm hb), lookup_nil]
        cases Value.lookup b ms <;> rfl
  | t :: c, d, d', h, hres => by
    obtain ⟨t2, ts, hts⟩ := exists_cons_of_append_cons c a p'
    rw [List.cons_append, hts] at h
    rw [resolve_cons] at hres
    cases d with
    | obj ms0 =>
      rw [ensureAdd_obj_cons] at h
      rw [child_obj] at hres
      cases hl : Value.lookup t ms0 with
      | none => rw [hl] at hres; cases hres
      | some ch =>
        rw [hl, Option.bind_some] at hres
        simp only [hl] at h
        split at h
        · obtain ⟨c', hrec, h2⟩ := Res.bind_eq_ok.1 h
          cases h2
          rw [← hts] at hrec
          obtain ⟨ms', h1, h2⟩ := ensureAdd_at_prefix c ch c' hrec hres
          refine ⟨ms', ?_, h2⟩
          rw [resolve_cons, child_obj, lookup_set_self, Option.bind_some]; exact h1
        · cases h
    | arr xs =>
      rw [ensureAdd_arr_cons] at h
      split at h
      · rename_i i hcl
        split at h
        · cases h
        · rename_i hneg
          split at h
          · cases h
          · have hr := readIdx_of_int (neg := o.neg) (n := xs.length) hcl hneg
            cases hx : xs[i.toNat]? with
            | none =>
              have hlen : ¬ i.toNat < xs.length := by
                intro hlt
                rw [List.getElem?_eq_getElem hlt] at hx; cases hx
              rw [if_neg hlen] at hr
              simp only [child, hr] at hres
              cases hres
            | some ch =>
              have hlen : i.toNat < xs.length := by
                apply Classical.byContradiction
                intro hge
                rw [List.getElem?_eq_none (by omega)] at hx; cases hx
              rw [if_pos hlen] at hr
              rw [child_arr_at hr, hx, Option.bind_some] at hres
              simp only [hx] at h
              split at h
              · obtain ⟨c', hrec, h2⟩ := Res.bind_eq_ok.1 h
                cases h2
                rw [← hts] at hrec
                obtain ⟨ms', h1, h2⟩ := ensureAdd_at_prefix c ch c' hrec hres
                refine ⟨ms', ?_, h2⟩
                have hr' : readIdx o.neg (setAt i.toNat c' xs).length t = .at i.toNat := by
                  rw [length_setAt]; exact hr
                rw [resolve_cons, child_arr_at hr', getElem?_setAt_self c' hlen, Option.bind_some]
                exact h1
              · cases h
      · cases h
    | null => simp [child] at hres
    | bool _ => simp [child] at hres
    | num _ => simp [child] at hres
    | str _ => simp [child] at hres

theorem stable_ensureAdd {v : Value} {p : List Bytes} {d d' : Value}
    (h : ensureAdd o v d p = .ok d') : Stable o.neg d d' p := by
  intro c a p' ms hp hres
  subst hp
  obtain ⟨ms', h1, h2, _⟩ := ensureAdd_at_prefix c d d' h hres
  exact ⟨ms', h1, h2⟩

/-! ### one operation -/

/-- every pointer the operation edits (its `path`, and for `move` also its `from`) is
incomparable with `q`; a `test` edits nothing -/
def Op.editsIncomparable (op : Op) (q : List Bytes) : Prop :=
  op.kind ≠ .test →
    (∀ p, parsePointer op.path = some p → Incomparable p q) ∧
    (op.kind = .move → ∀ f, parsePointer op.frm = some f → Incomparable f q)

/-- what one operation did to the document, as edits at pointers: a `Stable` step at the
`path`, preceded for `move` by a `Stable` step at `from` -/
theorem stable_applyOp {size acc : Nat} {d : Value} {op : Op} {d' : Value} {acc' : Nat}
    (h : applyOp o size acc d op = .ok (d', acc')) :
    ∃ p, parsePointer op.path = some p ∧
      ((op.kind ≠ .move ∧ (p = [] ∨ Stable o.neg d d' p)) ∨
       (op.kind = .move ∧ ∃ f d1, parsePointer op.frm = some f ∧ f ≠ [] ∧ p ≠ [] ∧
          Stable o.neg d d1 f ∧ Stable o.neg d1 d' p)) := by
  cases hp : parsePointer op.path with
  | none => exact absurd h (applyOp_badPointer_ne_ok hp _)
  | some path =>
  refine ⟨path, rfl, ?_⟩
  cases hk : op.kind with
  | add =>
    refine Or.inl ⟨by simp, ?_⟩
    cases path with
    | nil => exact Or.inl rfl
    | cons t ts =>
      right
      cases hv : op.value with
      | none => rw [applyOp_add_none hp hk hv] at h; cases h
      | some v =>
        rw [applyOp_add_cons hp hk hv] at h
        split at h
        · obtain ⟨d1, h1, h2⟩ := Res.bind_eq_ok.1 h
          cases h2
          exact stable_ensureAdd h1
        · obtain ⟨⟨d1, u⟩, h1, h2⟩ := Res.bind_eq_ok.1 h
          cases h2
          exact stable_atParent (objLocal_addIn o v) h1
  | remove =>
    refine Or.inl ⟨by simp, ?_⟩
    cases path with
    | nil => exact Or.inl rfl
    | cons t ts =>
      right
      obtain ⟨_, h1 | ⟨old, h1⟩⟩ := applyOp_remove_ok hp hk h
      · rw [h1.2.2]; exact stable_refl _ _ _
      · exact stable_atParent (objLocal_removeIn o) h1
  | replace =>
    refine Or.inl ⟨by simp, ?_⟩
    cases path with
    | nil => exact Or.inl rfl
    | cons t ts =>
      right
      cases hv : op.value with
      | none => rw [applyOp_replace_none hp hk hv] at h; cases h
      | some v =>
        rw [applyOp_replace_cons hp hk hv] at h
        obtain ⟨⟨d1, u⟩, h1, h2⟩ := Res.bind_eq_ok.1 h
        cases h2
        exact stable_atParent (objLocal_replaceIn o v) h1
  | move =>
    refine Or.inr ⟨rfl, ?_⟩
    cases hf : parsePointer op.frm with
    | none => rw [applyOp_move_badFrom hp hk hf] at h; cases h
    | some frm =>
      cases frm with
      | nil => rw [applyOp_move_fromRoot hp hk hf] at h; cases h
      | cons u us =>
        cases path with
        | nil =>
          rw [applyOp_move_toRoot hp hk hf] at h
          obtain ⟨⟨d1, v1⟩, _, h2⟩ := Res.bind_eq_ok.1 h
          cases h2
        | cons t ts =>
          rw [applyOp_move_cons hp hk hf] at h
          obtain ⟨⟨d1, v1⟩, h1, h2⟩ := Res.bind_eq_ok.1 h
          obtain ⟨⟨d2, u2⟩, h3, h4⟩ := Res.bind_eq_ok.1 h2
          cases h4
          exact ⟨_, d1, rfl, by simp, by simp, stable_atParent (objLocal_removeIn o) h1,
            stable_atParent (objLocal_addIn o v1) h3⟩
  | copy =>
    refine Or.inl ⟨by simp, ?_⟩
    cases path with
    | nil => exact Or.inl rfl
    | cons t ts =>
      right
      cases hf : parsePointer op.frm with
      | none => rw [applyOp_copy_badFrom hp hk hf] at h; cases h
      | some frm =>
        rw [applyOp_copy_cons hp hk hf] at h
        obtain ⟨v1, h1, h2⟩ := Res.bind_eq_ok.1 h
        obtain ⟨_, _, h3⟩ := Res.bind_eq_ok.1 h2
        split at h3
        · cases h3
        · obtain ⟨⟨d2, u2⟩, h4, h5⟩ := Res.bind_eq_ok.1 h3
          cases h5
          exact stable_atParent (objLocal_addIn o v1) h4
  | test =>
    refine Or.inl ⟨by simp, Or.inr ?_⟩
    obtain ⟨rfl, _⟩ := applyOp_test_ok hk h
    exact stable_refl _ _ _

/-- **frame law for one operation**: a location that is reached through objects and whose
pointer is incomparable with the pointer(s) the operation edits keeps its value (and is still
reached through objects) -/
theorem frame_applyOp {size acc : Nat} {d : Value} {op : Op} {d' : Value} {acc' : Nat}
    {q : List Bytes} (h : applyOp o size acc d op = .ok (d', acc'))
    (hinc : op.editsIncomparable q) (hobj : objPath o.neg d q) :
    resolve o.neg d' q = resolve o.neg d q ∧ objPath o.neg d' q := by
  by_cases htest : op.kind = .test
  · obtain ⟨rfl, _⟩ := applyOp_test_ok htest h
    exact ⟨rfl, hobj⟩
  obtain ⟨hpath, hmove⟩ := hinc htest
  obtain ⟨p, hp, hcases⟩ := stable_applyOp h
  have hpq := hpath p hp
  have hpne : p ≠ [] := fun he => hpq.1 (he ▸ List.nil_prefix)
  rcases hcases with ⟨_, hnil | hst⟩ | ⟨hk, f, d1, hf, _, _, hst1, hst2⟩
  · exact absurd hnil hpne
  · exact resolve_of_stable_elsewhere hst hpq hobj
  · have hfq := hmove hk f hf
    obtain ⟨e1, o1⟩ := resolve_of_stable_elsewhere hst1 hfq hobj
    obtain ⟨e2, o2⟩ := resolve_of_stable_elsewhere hst2 hpq o1
    exact ⟨e2.trans e1, o2⟩

/-- **frame law for a patch** -/
theorem frame_applyFrom {sizeAt : Nat → Nat} {q : List Bytes} :
    ∀ (ops : List Op) (i acc : Nat) (d d' : Value), applyFrom o sizeAt i acc d ops = .ok d' →
      (∀ op, op ∈ ops → op.editsIncomparable q) → objPath o.neg d q →
      resolve o.neg d' q = resolve o.neg d q ∧ objPath o.neg d' q
  | [], i, acc, d, d', h, _, hobj => by
    simp only [applyFrom] at h; cases h
    exact ⟨rfl, hobj⟩
  | op :: ops, i, acc, d, d', h, hinc, hobj => by
    simp only [applyFrom] at h
    split at h
    · rename_i d1 acc1 h1
      obtain ⟨e1, o1⟩ := frame_applyOp h1 (hinc op List.mem_cons_self) hobj
      obtain ⟨e2, o2⟩ := frame_applyFrom ops _ _ _ _ h
        (fun op' hm => hinc op' (List.mem_cons_of_mem _ hm)) o1
      exact ⟨e2.trans e1, o2⟩
    · cases h
    · cases h

end Spec
end JP
