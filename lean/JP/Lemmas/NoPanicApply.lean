import JP.Lemmas.NoPanicOps

/-!
# `applyOps`, `applyBytes`, and the merge entry points never panic
-/

namespace JP
namespace Impl

/-- what `validateOperation` guarantees and the engine relies on: add/replace carry a value -/
def OpValid (op : Op) : Prop :=
  (op.kind = ascii "add" ∨ op.kind = ascii "replace") → op.value.isSome

theorem decodeOp_valid {ms : List (Bytes × Cst)} {op : Op} (h : decodeOp ms = some op) : OpValid op := by
  have key : ∀ (b : Bool) (x : Option Op), (if !b then none else x) = some op → b = true ∧ x = some op := by
    intro b x h; cases b <;> simp_all
  unfold decodeOp at h
  obtain ⟨hb, hx⟩ := key _ _ h
  split at hx
  · contradiction
  · cases hx
    intro hk
    simp only [] at hk
    rw [if_pos hk] at hb
    exact hb

theorem decodeOps_valid : ∀ {xs : List Cst} {ops : List Op}, decodeOps xs = some ops →
    ∀ op ∈ ops, OpValid op
  | [], ops, h => by simp only [decodeOps, Option.some.injEq] at h; subst h; simp
  | c :: cs, ops, h => by
    cases c with
    | obj ms =>
      simp only [decodeOps] at h
      cases h1 : decodeOp ms with
      | none => simp [h1] at h
      | some op =>
        cases h2 : decodeOps cs with
        | none => simp [h1, h2] at h
        | some ops' =>
          simp only [h1, h2, Option.some.injEq] at h
          subst h
          intro op' hm
          rcases List.mem_cons.1 hm with hm | hm
          · rw [hm]; exact decodeOp_valid h1
          · exact decodeOps_valid h2 op' hm
    | lit s => simp [decodeOps] at h
    | str s => simp [decodeOps] at h
    | arr xs => simp [decodeOps] at h

theorem decodePatch_valid {bs : Bytes} {ops : List Op} (h : decodePatch bs = .ok ops) :
    ∀ op ∈ ops, OpValid op := by
  unfold decodePatch at h
  split at h
  · contradiction
  · split at h
    · contradiction
    · split at h
      · rename_i hd; cases h; exact decodeOps_valid hd
      · contradiction
    · split at h <;> contradiction

theorem decodePatch_ne_panic (bs : Bytes) : decodePatch bs ≠ .panic := by
  unfold decodePatch
  repeat' split
  all_goals simp

theorem liftAcc_ok2 {acc x} (h : OutOK x) : OutOK2 (liftAcc acc x) := by
  cases x with
  | ok r => exact h
  | err e => trivial
  | panic => exact h

theorem applyOp_ok {o r acc op} (hr : RootOK r) (hv : OpValid op) : OutOK2 (applyOp o r acc op) := by
  rw [applyOp_eq]
  split
  · rename_i hk; exact liftAcc_ok2 (opAdd_ok hr fun _ => hv (Or.inl hk))
  split
  · exact liftAcc_ok2 (opRemove_ok hr)
  split
  · rename_i hk; exact liftAcc_ok2 (opReplace_ok hr fun _ => hv (Or.inr hk))
  split
  · exact liftAcc_ok2 (opMove_ok hr)
  split
  · exact liftAcc_ok2 (opTest_ok hr)
  split
  · exact opCopy_ok hr
  · trivial

theorem applyOps_ok (o : Opts) (ops : List Op) : ∀ (r : Root) (acc : Int), RootOK r →
    (∀ op ∈ ops, OpValid op) → OutOK (applyOps o r acc ops) := by
  induction ops with
  | nil => intro r acc hr _; exact hr
  | cons op ops ih =>
    intro r acc hr hv
    rw [applyOps_cons]
    have h1 := applyOp_ok (o := o) (acc := acc) hr (hv op List.mem_cons_self)
    cases h : applyOp o r acc op with
    | ok p =>
      obtain ⟨r', acc'⟩ := p
      rw [h] at h1
      exact ih r' acc' h1 (fun op' hm => hv op' (List.mem_cons_of_mem _ hm))
    | err e => trivial
    | panic => rw [h] at h1; exact h1

theorem marshalRoot_ne_panic (esc : Bool) (r : Root) : marshalRoot esc r ≠ .panic := by
  unfold marshalRoot
  split <;> simp

theorem applyBytes_ne_panic (o : Opts) (indent doc : Bytes) (ops : List Op)
    (hv : ∀ op ∈ ops, OpValid op) : applyBytes o indent doc ops ≠ .panic := by
  unfold applyBytes
  split
  · simp
  split
  · simp
  split
  · simp
  · rename_i c _
    have hd := decodeRoot_ok c
    cases h : decodeRoot c with
    | panic => rw [h] at hd; exact absurd hd id
    | err e => simp
    | ok con =>
      rw [h] at hd
      simp only []
      have hr : RootOK { con := con, self := .raw c, selfCR := c.isArr && !goIsArray doc } :=
        ⟨hd.1, hd.2, NP_raw c⟩
      have ha := applyOps_ok o ops _ 0 hr hv
      cases h2 : applyOps o { con := con, self := .raw c, selfCR := c.isArr && !goIsArray doc } 0 ops with
      | panic => rw [h2] at ha; exact absurd ha id
      | err e => simp
      | ok r' =>
        simp only []
        cases h3 : marshalRoot o.esc r' with
        | panic => exact absurd h3 (marshalRoot_ne_panic _ _)
        | err e => simp
        | ok data =>
          simp only []
          split <;> simp

/-! ### merge -/

theorem doMergePatch_ne_panic (mm : Bool) (d p : Bytes) : doMergePatch mm d p ≠ .panic := by
  unfold doMergePatch
  split
  · simp
  split
  · simp
  split
  · split
    · simp
    split
    · simp
    split
    · simp only [decodeDoc]; simp
    · split <;> simp
    · simp
    · simp
  · simp

theorem createObject_ne_panic (a b : Cst) : createObject a b ≠ .panic := by
  unfold createObject
  simp only []
  split <;> simp

theorem createArray_ne_panic : ∀ (xs ys : List Cst), createArray xs ys ≠ .panic
  | [], [] => by simp [createArray]
  | [], _ :: _ => by simp [createArray]
  | _ :: _, [] => by simp [createArray]
  | a :: as, b :: bs => by
    simp only [createArray]
    have h1 := createObject_ne_panic a b
    have h2 := createArray_ne_panic as bs
    cases h : createObject a b with
    | panic => exact absurd h h1
    | err e => simp
    | ok v =>
      simp only []
      cases h' : createArray as bs with
      | panic => exact absurd h' h2
      | err e => simp
      | ok vs => simp

theorem mapOk_ne_panic {α β} {x : Outcome α} {f : α → β} (h : x ≠ .panic) :
    (match x with
     | .ok v => (.ok (f v) : Outcome β)
     | .err e => .err e
     | .panic => .panic) ≠ .panic := by
  cases x <;> simp_all

theorem createMergePatch_ne_panic (a b : Bytes) : createMergePatch a b ≠ .panic := by
  unfold createMergePatch
  split
  · simp
  split
  · split
    · split
      · simp
      · intro h
        split at h
        · contradiction
        · contradiction
        · exact createArray_ne_panic _ _ ‹_›
    · simp
    · simp
    · intro h
      split at h
      · contradiction
      · contradiction
      · exact createObject_ne_panic _ _ ‹_›
  · simp

end Impl
end JP
