import JP.Lemmas.NoPanicParse
import JP.Lemmas.ApplyBasic

/-!
# The container methods on container-shaped nodes that satisfy the invariant
-/

namespace JP
namespace Impl

/-- outcome of a container method: no panic, and the rebuilt container is fine -/
def ConOK : Outcome Node → Prop
  | .ok con' => isCon con' = true ∧ NP con'
  | .err _ => True
  | .panic => False

theorem conGet_ne_panic {o self con key} (hc : isCon con = true) : conGet o self con key ≠ .panic := by
  cases con <;> simp only [isCon] at hc <;> try contradiction
  all_goals
    simp only [conGet]
    repeat' split
    all_goals simp

theorem conGet_NP {o self con key n} (hs : NP self) (hn : NP con)
    (h : conGet o self con key = .ok n) : NP n := by
  cases con with
  | doc keys obj =>
    simp only [conGet] at h
    split at h
    · rename_i n' hl
      cases h
      exact ((NP_doc _ _).1 hn).2.2 _ (lookupN_mem hl)
    · contradiction
  | ary nodes =>
    rw [NP_ary] at hn
    simp only [conGet] at h
    repeat' split at h
    all_goals first
      | contradiction
      | (cases h; exact hs)
      | (cases h; exact hn _ (List.mem_of_getElem? ‹_›))
  | docNil => simp [conGet] at h
  | nilAry => simp [conGet] at h
  | nil => simp [conGet] at h
  | raw c => simp [conGet] at h

/-- a successful `get` on a parsed object found a map entry -/
theorem conGet_doc_lookup {o self keys obj key n}
    (h : conGet o self (.doc keys obj) key = .ok n) : lookupN key obj = some n := by
  simp only [conGet] at h
  split at h
  · rename_i hl; cases h; exact hl
  · contradiction

theorem NP_docSet {keys obj key val} (hn : NP (.doc keys obj)) (hv : NP val) :
    NP (docSet keys obj key val) := by
  rw [NP_doc] at hn
  unfold docSet
  rw [NP_doc]
  refine ⟨nodup_setN hn.1, ?_, ?_⟩
  · intro k hk
    rcases mem_names_setN hk with h | h
    · subst h
      split
      · rename_i hc; simpa using hc
      · simp
    · have := hn.2.1 k h
      split
      · exact this
      · exact List.mem_append_left _ this
  · intro p hp
    rcases mem_setN hp with h | h
    · rw [h]; exact hv
    · exact hn.2.2 p h

theorem NPL_listInsert {i : Nat} {val : Node} {nodes : List Node} (hn : ∀ n ∈ nodes, NP n) (hv : NP val) :
    ∀ n ∈ listInsert i val nodes, NP n := by
  intro n h
  rcases mem_listInsert h with h | h
  · rw [h]; exact hv
  · exact hn n h

theorem NPL_listSet {i : Nat} {val : Node} {nodes : List Node} (hn : ∀ n ∈ nodes, NP n) (hv : NP val) :
    ∀ n ∈ listSet i val nodes, NP n := by
  intro n h
  rcases mem_listSet h with h | h
  · rw [h]; exact hv
  · exact hn n h

theorem conAdd_ok {o con key val} (hc : isCon con = true) (hn : NP con) (hv : NP val) :
    ConOK (conAdd o con key val) := by
  cases con with
  | doc keys obj => simp only [conAdd, ConOK]; exact ⟨rfl, NP_docSet hn hv⟩
  | ary nodes =>
    rw [NP_ary] at hn
    simp only [conAdd]
    repeat' split
    all_goals first
      | trivial
      | (simp only [ConOK, isCon, NP_ary, true_and]
         first
           | exact NPL_listInsert hn hv
           | (intro n h
              rcases List.mem_append.1 h with h | h
              · exact hn n h
              · rw [List.mem_singleton.1 h]; exact hv))
      | (simp only [ConOK]; omega)
  | docNil => simp [conAdd, ConOK]
  | nilAry => simp [conAdd, ConOK]
  | nil => simp [isCon] at hc
  | raw c => simp [isCon] at hc

theorem conRemove_ok {o con key} (hc : isCon con = true) (hn : NP con) :
    ConOK (conRemove o con key) := by
  cases con with
  | doc keys obj =>
    have hn' := (NP_doc _ _).1 hn
    simp only [conRemove]
    split
    · split
      · exact ⟨rfl, hn⟩
      · trivial
    · rename_i n hl
      have hk : key ∈ keys := hn'.2.1 _ (lookupN_names hl)
      have : keys.contains key = true := by simpa using hk
      simp only [this, if_true, ConOK, isCon, true_and]
      rw [NP_doc, names_eraseN, eraseKey_eq]
      refine ⟨hn'.1.erase _, ?_, fun p hp => hn'.2.2 p (mem_eraseN hp)⟩
      intro k hk'
      rw [hn'.1.mem_erase_iff] at hk'
      exact (List.mem_erase_of_ne hk'.1).2 (hn'.2.1 k hk'.2)
  | ary nodes =>
    have hn' := (NP_ary _).1 hn
    simp only [conRemove]
    repeat' split
    all_goals first
      | trivial
      | exact ⟨rfl, hn⟩
      | (simp only [ConOK, isCon, NP_ary, true_and]
         intro n h
         exact hn' n (List.mem_of_mem_eraseIdx h))
  | docNil => simp [conRemove, ConOK]
  | nilAry => simp [conRemove, ConOK]
  | nil => simp [isCon] at hc
  | raw c => simp [isCon] at hc

/-- `set` after a successful `get` with the same key (what `replace` does) -/
theorem conSet_ok {o self con key val x} (hc : isCon con = true) (hn : NP con) (hv : NP val)
    (hg : conGet o self con key = .ok x) : ConOK (conSet o con key val) := by
  cases con with
  | doc keys obj => simp only [conSet, ConOK]; exact ⟨rfl, NP_docSet hn hv⟩
  | ary nodes =>
    have hn' := (NP_ary _).1 hn
    simp only [conSet]
    cases ha : atoi key with
    | none => trivial
    | some idx =>
      have hk : key ≠ [] := by intro h; subst h; simp [atoi] at ha
      simp only [conGet, hk, if_false, ha] at hg
      simp only []
      repeat' split
      all_goals first
        | trivial
        | (simp only [ConOK, isCon, NP_ary, true_and]; exact NPL_listSet hn' hv)
        | skip
      all_goals
        simp only [ConOK]
        repeat' split at hg
        all_goals first
          | contradiction
          | (rename_i hget
             have := (List.getElem?_eq_some_iff.1 hget).1
             omega)
  | docNil => simp [conSet, ConOK]
  | nilAry => simp [conSet, ConOK]
  | nil => simp [isCon] at hc
  | raw c => simp [isCon] at hc

end Impl
end JP
