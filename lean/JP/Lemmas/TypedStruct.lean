import JP.Lemmas.TypedWF

/-!
# Structure of the printed tree: struct members in field order, omitted fields, sorted map members
-/

namespace JP
namespace Codec
namespace Typed

open JP.Codec.Enc (isValidNumber null)

/-! ### struct members -/

/-- the field is written: following its index path reaches a value (no nil embedded pointer on the
way) and that value is not an empty one dropped by `omitempty` -/
def present (t : GoType) (v : GoVal) (f : Fld) : Bool :=
  match walk f.index v with
  | .val fv => !(f.omitEmpty && isEmptyValue (typeByIndex t f.index) fv)
  | _ => false

/-- the fields of `typeFields t` that `structEncoder.encode` writes for `v`, in order -/
def presentFields (t : GoType) (v : GoVal) : List Fld := (typeFields t).filter (present t v)

theorem encFields_names {α : Type} (f : Bool → GoType → GoVal → Option α) (t : GoType) (v : GoVal) :
    ∀ (flds : List Fld) (ms : List (Bytes × α)), encFields f t v flds = some ms →
      ms.map Prod.fst = (flds.filter (present t v)).map Fld.name
  | [], ms, h => by simp only [encFields, Option.some.injEq] at h; subst h; rfl
  | fld :: flds, ms, h => by
    have ih := encFields_names f t v flds
    simp only [encFields] at h
    cases hw : walk fld.index v with
    | skip =>
      rw [hw] at h
      have hp : present t v fld = false := by simp only [present, hw]
      simp only [List.filter_cons, hp, Bool.false_eq_true, if_false]
      exact ih ms h
    | bad => rw [hw] at h; cases h
    | val fv =>
      rw [hw] at h
      simp only [] at h
      cases he : (fld.omitEmpty && isEmptyValue (typeByIndex t fld.index) fv) with
      | true =>
        rw [he] at h
        simp only [if_true] at h
        have hp : present t v fld = false := by simp only [present, hw, he, Bool.not_true]
        simp only [List.filter_cons, hp, Bool.false_eq_true, if_false]
        exact ih ms h
      | false =>
        rw [he] at h
        simp only [Bool.false_eq_true, if_false] at h
        have hp : present t v fld = true := by simp only [present, hw, he, Bool.not_false]
        cases hf : f fld.quoted (typeByIndex t fld.index) fv with
        | none => rw [hf] at h; cases h
        | some b =>
          rw [hf] at h
          cases hr : encFields f t v flds with
          | none => rw [hr] at h; cases h
          | some bs =>
            rw [hr] at h
            simp only [Option.some.injEq] at h
            subst h
            simp only [List.filter_cons, hp, if_true, List.map_cons, ih bs hr]

theorem nameMembers_fst (esc : Bool) : ∀ (ms : List (Bytes × Cst)),
    (nameMembers esc ms).map Prod.fst = (ms.map Prod.fst).map (nameBody esc)
  | [] => rfl
  | (k, c) :: ms => by simp only [nameMembers, List.map_cons, nameMembers_fst esc ms]

/-- the tree of a struct value: an object whose member names are the (spelled) names of the present
fields, in the order of `typeFields` -/
theorem typedCst_struct (esc : Bool) (n : Bytes) (fs : List (FieldInfo × GoType)) (v : GoVal) (c : Cst)
    (h : typedCst esc (.struct n fs) v = some c) :
    ∃ ms, c = .obj ms ∧ ms.map Prod.fst = (presentFields (.struct n fs) v).map (fun f => nameBody esc f.name) := by
  simp only [typedCst, cst, cstT] at h
  cases v <;> simp only [structCst] at h <;> try cases h
  rename_i vs
  cases hr : encFields (cst esc (GoVal.struct vs).height) (.struct n fs) (.struct vs) (typeFields (.struct n fs)) with
  | none => rw [hr] at h; cases h
  | some ms =>
    rw [hr] at h
    simp only [Option.some.injEq] at h
    subst h
    refine ⟨_, rfl, ?_⟩
    rw [nameMembers_fst, encFields_names _ _ _ _ ms hr, presentFields, List.map_map]
    rfl

theorem presentFields_sublist (t : GoType) (v : GoVal) : (presentFields t v).Sublist (typeFields t) :=
  List.filter_sublist

theorem presentFields_nodup (t : GoType) (v : GoVal) : ((presentFields t v).map Fld.name).Nodup :=
  List.Nodup.sublist ((presentFields_sublist t v).map Fld.name) (typeFields_nodup t)

theorem mem_presentFields (t : GoType) (v : GoVal) (f : Fld) :
    f ∈ presentFields t v ↔ f ∈ typeFields t ∧ present t v f = true := by
  simp only [presentFields, List.mem_filter]

theorem present_iff (t : GoType) (v : GoVal) (f : Fld) (fv : GoVal) (hw : walk f.index v = .val fv) :
    present t v f = true ↔ ¬ (f.omitEmpty = true ∧ isEmptyValue (typeByIndex t f.index) fv = true) := by
  simp only [present, hw, Bool.not_eq_true', Bool.and_eq_false_iff]
  constructor
  · rintro (h | h) ⟨h1, h2⟩
    · rw [h] at h1; cases h1
    · rw [h] at h2; cases h2
  · intro h
    cases ho : f.omitEmpty with
    | false => exact Or.inl rfl
    | true =>
      cases he : isEmptyValue (typeByIndex t f.index) fv with
      | false => exact Or.inr rfl
      | true => exact absurd ⟨ho, he⟩ h

theorem eq_of_nodup_names : ∀ (l : List Fld), (l.map Fld.name).Nodup → ∀ a ∈ l, ∀ b ∈ l, a.name = b.name → a = b
  | [], _, a, ha, _, _, _ => by cases ha
  | x :: xs, hnd, a, ha, b, hb, hn => by
    simp only [List.map_cons, List.nodup_cons] at hnd
    rcases List.mem_cons.mp ha with rfl | ha'
    · rcases List.mem_cons.mp hb with rfl | hb'
      · rfl
      · exact absurd (hn ▸ List.mem_map.mpr ⟨b, hb', rfl⟩) hnd.1
    · rcases List.mem_cons.mp hb with rfl | hb'
      · exact absurd (hn ▸ List.mem_map.mpr ⟨a, ha', rfl⟩) hnd.1
      · exact eq_of_nodup_names xs hnd.2 a ha' b hb' hn

/-- a name occurs among the members iff the field of that name is present (names are distinct) -/
theorem name_mem_present (t : GoType) (v : GoVal) (f : Fld) (hf : f ∈ typeFields t) :
    f.name ∈ (presentFields t v).map Fld.name ↔ present t v f = true := by
  constructor
  · intro h
    obtain ⟨g, hg, hn⟩ := List.mem_map.mp h
    have hg' := (mem_presentFields t v g).mp hg
    -- two fields of `typeFields t` with one name are one field
    have : g = f := by
      exact eq_of_nodup_names _ (typeFields_nodup t) g hg'.1 f hf hn
    rw [← this]; exact hg'.2
  · intro h
    exact List.mem_map.mpr ⟨f, (mem_presentFields t v f).mpr ⟨hf, h⟩, rfl⟩

/-! ### map members -/

theorem encEntries_keys {α : Type} (f : GoVal → Option α) : ∀ (ms : List (MapKey × GoVal)) (kvs : List (Bytes × α)),
    encEntries f ms = some kvs → kvs.map Prod.fst = ms.map (fun p => keyText p.1)
  | [], kvs, h => by simp only [encEntries, Option.some.injEq] at h; subst h; rfl
  | (k, v) :: ms, kvs, h => by
    simp only [encEntries] at h
    cases hf : f v with
    | none => rw [hf] at h; cases h
    | some b =>
      rw [hf] at h
      cases hr : encEntries f ms with
      | none => rw [hr] at h; cases h
      | some bs =>
        rw [hr] at h
        simp only [Option.some.injEq] at h
        subst h
        simp only [List.map_cons, encEntries_keys f ms bs hr]

theorem insertKV_perm {α : Type} (k : Bytes) (a : α) : ∀ l : List (Bytes × α), (insertKV k a l).Perm ((k, a) :: l)
  | [] => List.Perm.refl _
  | (k', a') :: l => by
    simp only [insertKV]
    cases bytesLt k k' with
    | true => exact List.Perm.refl _
    | false =>
      simp only [Bool.false_eq_true, if_false]
      exact List.Perm.trans (List.Perm.cons _ (insertKV_perm k a l)) (List.Perm.swap _ _ _)

theorem sortKV_perm {α : Type} : ∀ l : List (Bytes × α), (sortKV l).Perm l
  | [] => List.Perm.refl _
  | (k, a) :: l => by
    simp only [sortKV]
    exact List.Perm.trans (insertKV_perm k a (sortKV l)) (List.Perm.cons _ (sortKV_perm l))

/-- sorted by key text (`sv[i].ks < sv[j].ks` never holds for `j` before `i`) -/
def KeySorted {α : Type} (l : List (Bytes × α)) : Prop := l.Pairwise (fun a b => bytesLt b.1 a.1 = false)

theorem insertKV_sorted {α : Type} (k : Bytes) (a : α) : ∀ l : List (Bytes × α), KeySorted l → KeySorted (insertKV k a l)
  | [], _ => by simp only [insertKV, KeySorted, List.pairwise_cons, List.not_mem_nil, false_imp_iff, implies_true,
      List.Pairwise.nil, and_self]
  | (k', a') :: l, h => by
    simp only [KeySorted, List.pairwise_cons] at h
    simp only [insertKV]
    cases hk : bytesLt k k' with
    | true =>
      simp only [if_true, KeySorted, List.pairwise_cons]
      have hkk : bytesLt k' k = false := by
        cases hx : bytesLt k' k with
        | false => rfl
        | true => have := tf_bytesLt_trans k k' k hk hx; rw [tf_bytesLt_irrefl] at this; cases this
      refine ⟨?_, h⟩
      intro p hp
      rcases List.mem_cons.mp hp with rfl | hp'
      · exact hkk
      · exact tf_le_trans k k' p.1 hkk (h.1 p hp')
    | false =>
      simp only [Bool.false_eq_true, if_false, KeySorted, List.pairwise_cons]
      refine ⟨?_, insertKV_sorted k a l h.2⟩
      intro p hp
      rcases (mem_insertKV k a l p).mp hp with rfl | hp'
      · exact hk
      · exact h.1 p hp'

theorem sortKV_sorted {α : Type} : ∀ l : List (Bytes × α), KeySorted (sortKV l)
  | [] => List.Pairwise.nil
  | (k, a) :: l => by
    simp only [sortKV]
    exact insertKV_sorted k a _ (sortKV_sorted l)

theorem keyMembers_fst (esc : Bool) : ∀ (l : List (Bytes × Cst)),
    (keyMembers esc l).map Prod.fst = (l.map Prod.fst).map (quoteBody esc)
  | [] => rfl
  | (k, c) :: l => by simp only [keyMembers, List.map_cons, keyMembers_fst esc l]

/-- the tree of a map value: an object whose member names are the key texts, sorted, as spelled
by `e.string` -/
theorem typedCst_map (esc : Bool) (k : KeyType) (e : GoType) (ms : List (MapKey × GoVal)) (c : Cst)
    (h : typedCst esc (.map k e) (.map ms) = some c) :
    ∃ (members : List (Bytes × Cst)) (keys : List Bytes), c = .obj members ∧ members.map Prod.fst = keys.map (quoteBody esc) ∧
      keys.Perm (ms.map (fun p => keyText p.1)) ∧ keys.Pairwise (fun a b => bytesLt b a = false) := by
  simp only [typedCst, cst, cstT, mapCst] at h
  cases hr : encEntries (cst esc (GoVal.map ms).height false e) ms with
  | none => rw [hr] at h; cases h
  | some kvs =>
    rw [hr] at h
    simp only [Option.some.injEq] at h
    subst h
    refine ⟨_, (sortKV kvs).map Prod.fst, rfl, keyMembers_fst esc _, ?_, ?_⟩
    · rw [← encEntries_keys _ ms kvs hr]
      exact (sortKV_perm kvs).map Prod.fst
    · have := sortKV_sorted kvs
      simp only [KeySorted] at this
      exact List.pairwise_map.mpr this

/-! ### `hasType` values carry well-formed dynamic types -/

mutual
theorem hasType_typesWf : ∀ (t : GoType) (v : GoVal), GoVal.hasType t v = true → v.typesWf = true
  | _, .nil, _ => rfl
  | _, .bool _, _ => rfl
  | _, .int _, _ => rfl
  | _, .uint _, _ => rfl
  | _, .str _, _ => rfl
  | _, .bytes _, _ => rfl
  | t, .list xs, h => by
    simp only [GoVal.typesWf]
    cases t <;> simp only [GoVal.hasType, Bool.false_eq_true, Bool.and_eq_true] at h
    · exact hasTypeAll_typesWf _ xs h.2
    · exact hasTypeAll_typesWf _ xs h.2
  | t, .map ms, h => by
    simp only [GoVal.typesWf]
    cases t <;> simp only [GoVal.hasType, Bool.false_eq_true, Bool.and_eq_true] at h
    exact hasTypeM_typesWf _ _ ms h.2
  | t, .ptr v, h => by
    simp only [GoVal.typesWf]
    cases t <;> simp only [GoVal.hasType, Bool.false_eq_true] at h
    exact hasType_typesWf _ v h
  | t, .iface dt v, h => by
    simp only [GoVal.typesWf, Bool.and_eq_true]
    cases t <;> simp only [GoVal.hasType, Bool.false_eq_true, Bool.and_eq_true] at h
    exact ⟨h.1.2, hasType_typesWf dt v h.2⟩
  | t, .struct vs, h => by
    simp only [GoVal.typesWf]
    cases t <;> simp only [GoVal.hasType, Bool.false_eq_true] at h
    exact hasTypeL_typesWf _ vs h
theorem hasTypeAll_typesWf : ∀ (e : GoType) (xs : List GoVal), hasTypeAll e xs = true → typesWfL xs = true
  | _, [], _ => rfl
  | e, x :: xs, h => by
    simp only [hasTypeAll, Bool.and_eq_true] at h
    simp only [typesWfL, Bool.and_eq_true]
    exact ⟨hasType_typesWf e x h.1, hasTypeAll_typesWf e xs h.2⟩
theorem hasTypeM_typesWf : ∀ (k : KeyType) (e : GoType) (ms : List (MapKey × GoVal)), hasTypeM k e ms = true → typesWfM ms = true
  | _, _, [], _ => rfl
  | k, e, (key, v) :: ms, h => by
    simp only [hasTypeM, Bool.and_eq_true] at h
    simp only [typesWfM, Bool.and_eq_true]
    exact ⟨hasType_typesWf e v h.1.2, hasTypeM_typesWf k e ms h.2⟩
theorem hasTypeL_typesWf : ∀ (fts : List (FieldInfo × GoType)) (vs : List GoVal), hasTypeL fts vs = true → typesWfL vs = true
  | _, [], _ => rfl
  | fts, v :: vs, h => by
    cases fts with
    | nil => simp only [hasTypeL, Bool.false_eq_true] at h
    | cons ft r =>
      obtain ⟨fi, ft⟩ := ft
      simp only [hasTypeL, Bool.and_eq_true] at h
      simp only [typesWfL, Bool.and_eq_true]
      exact ⟨hasType_typesWf ft v h.1, hasTypeL_typesWf r vs h.2⟩
end

end Typed
end Codec
end JP
