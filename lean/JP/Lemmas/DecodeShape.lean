import JP.Lemmas.ScanStep

/-!
# What one scanner step does to the parse stack, by opcode

`step_shape`: from a live configuration (no error, top-level value not complete) a step that
returns a structural opcode changes the stack as the opcode says (`opStack`), keeps the
configuration live, and after a closing bracket the configuration is `afterClose`.
-/

namespace JP
namespace Scanner

/-- no error, top-level value not complete -/
def Live (s : Scan) : Prop := s.endTop = false ∧ s.err = false

/-- the stack after a step with opcode `op` -/
def opStack (op : Nat) (S : List Nat) : List Nat :=
  if op = scanBeginObject then parseObjectKey :: S
  else if op = scanBeginArray then parseArrayValue :: S
  else if op = scanObjectKey then parseObjectValue :: S.tail
  else if op = scanObjectValue then parseObjectKey :: S.tail
  else if op = scanEndObject ∨ op = scanEndArray then S.tail
  else S

def isClose (op : Nat) : Prop := op = scanEndObject ∨ op = scanEndArray

instance (op : Nat) : Decidable (isClose op) := by unfold isClose; infer_instance

/-- the shape of a step result -/
def SH (s : Scan) (r : Scan × Nat) : Prop :=
  Live s → r.2 ≠ scanError → r.2 ≠ scanEnd →
    r.1.stack = opStack r.2 s.stack ∧ r.1.err = false ∧
    (isClose r.2 → r.1 = afterClose s.stack.tail) ∧ (¬ isClose r.2 → r.1.endTop = false)

theorem sh_error (s : Scan) : SH s s.error := fun _ h _ => absurd rfl h

theorem sh_plain (s : Scan) (st : St) (op : Nat)
    (h : op = scanContinue ∨ op = scanBeginLiteral ∨ op = scanSkipSpace ∨ op = scanArrayValue) :
    SH s ({ s with st := st }, op) := by
  intro hl _ _
  have hc : ¬ isClose op := by
    rcases h with rfl | rfl | rfl | rfl <;> (intro h'; rcases h' with h' | h' <;> cases h')
  have ho : opStack op s.stack = s.stack := by
    rcases h with rfl | rfl | rfl | rfl <;> rfl
  exact ⟨ho.symm, hl.2, fun h' => absurd h' hc, fun _ => hl.1⟩

theorem sh_goto (s : Scan) (st : St) (op : Nat)
    (h : op = scanContinue ∨ op = scanBeginLiteral ∨ op = scanSkipSpace ∨ op = scanArrayValue) :
    SH s (s.goto st op) := sh_plain s st op h

theorem sh_same (s : Scan) (op : Nat)
    (h : op = scanContinue ∨ op = scanBeginLiteral ∨ op = scanSkipSpace ∨ op = scanArrayValue) :
    SH s (s, op) := sh_plain s s.st op h

theorem sh_push (s : Scan) (st : St) (p op : Nat)
    (h : (p = parseObjectKey ∧ op = scanBeginObject) ∨ (p = parseArrayValue ∧ op = scanBeginArray)) :
    SH s (({ s with st := st }).push p op) := by
  intro hl h1 _
  unfold Scan.push at h1 ⊢
  simp only at h1 ⊢
  split
  · have hc : ¬ isClose op := by
      rcases h with ⟨_, rfl⟩ | ⟨_, rfl⟩ <;> (intro h'; rcases h' with h' | h' <;> cases h')
    have ho : opStack op s.stack = p :: s.stack := by
      rcases h with ⟨rfl, rfl⟩ | ⟨rfl, rfl⟩ <;> rfl
    exact ⟨ho.symm, hl.2, fun h' => absurd h' hc, fun _ => hl.1⟩
  · rename_i hh; simp only [hh, if_false, Scan.error] at h1; exact absurd rfl h1

theorem pop_live (s : Scan) (hl : Live s) : s.pop = afterClose s.stack.tail := by
  obtain ⟨st, stack, endTop, err⟩ := s
  obtain ⟨h1, h2⟩ := hl
  simp only at h1 h2; subst h1 h2
  simp only [Scan.pop, afterClose, topS, mk]
  cases h : stack.tail with
  | nil => simp
  | cons a t => simp

theorem sh_pop (s : Scan) (op : Nat) (h : isClose op) : SH s (s.pop, op) := by
  intro hl _ _
  have hp := pop_live s hl
  refine ⟨?_, ?_, fun _ => hp, fun h' => absurd h h'⟩
  · rw [hp]
    have : opStack op s.stack = s.stack.tail := by
      rcases h with rfl | rfl <;> simp [opStack, scanEndObject, scanEndArray, scanBeginObject, scanBeginArray, scanObjectKey, scanObjectValue]
    rw [this]
    unfold afterClose; split
    · rename_i he; simp only [topS]; exact (List.isEmpty_iff.1 he).symm
    · rfl
  · rw [hp]; unfold afterClose; split <;> rfl

macro "sh_tac" : tactic => `(tactic| first
  | exact sh_error _
  | exact sh_goto _ _ _ (by decide)
  | exact sh_same _ _ (by decide)
  | exact sh_pop _ _ (by decide)
  | exact sh_push _ _ _ _ (by decide))

theorem sh_stateEndTop (s : Scan) (c : UInt8) : SH s (stateEndTop s c) := by
  unfold stateEndTop; split <;> exact fun _ _ h => absurd rfl h

theorem opStack_key (S : List Nat) : opStack scanObjectKey S = parseObjectValue :: S.tail := rfl
theorem opStack_val (S : List Nat) : opStack scanObjectValue S = parseObjectKey :: S.tail := rfl

theorem sh_stateEndValue (s : Scan) (c : UInt8) : SH s (stateEndValue s c) := by
  unfold stateEndValue
  split
  · intro _ _ h2
    exfalso; apply h2
    unfold stateEndTop; split <;> rfl
  · rename_i ps rest hs
    repeat' split
    all_goals first | sh_tac | skip
    · -- object key, `:`
      intro hl _ _
      refine ⟨by simp only [hs, opStack_key, List.tail_cons], hl.2, fun h => ?_, fun _ => hl.1⟩
      rcases h with h | h <;> cases h
    · -- object value, `,`
      intro hl _ _
      refine ⟨by simp only [hs, opStack_val, List.tail_cons], hl.2, fun h => ?_, fun _ => hl.1⟩
      rcases h with h | h <;> cases h

theorem sh_stateBeginValue (s : Scan) (c : UInt8) : SH s (stateBeginValue s c) := by
  unfold stateBeginValue
  repeat' split
  all_goals sh_tac

theorem sh_stateBeginString (s : Scan) (c : UInt8) : SH s (stateBeginString s c) := by
  unfold stateBeginString
  repeat' split
  all_goals sh_tac

theorem sh_state0 (s : Scan) (c : UInt8) : SH s (state0 s c) := by
  unfold state0
  repeat' split
  all_goals first | sh_tac | exact sh_stateEndValue _ _

theorem sh_stateESign (s : Scan) (c : UInt8) : SH s (stateESign s c) := by
  unfold stateESign
  split
  all_goals sh_tac

theorem sh_hexStep (s : Scan) (c : UInt8) (n : St) : SH s (hexStep s c n) := by
  unfold hexStep
  split
  all_goals sh_tac

theorem sh_expect (s : Scan) (c w : UInt8) (n : St) : SH s (expect s c w n) := by
  unfold expect
  split
  all_goals sh_tac

/-- `}` right after `{`: the frame is rewritten to "object value" and popped -/
theorem sh_bsoe_close (s : Scan) (rest : List Nat) (p : Nat) (hs : s.stack = p :: rest) :
    SH s (stateEndValue { s with stack := parseObjectValue :: rest } 125) := by
  have he : stateEndValue { s with stack := parseObjectValue :: rest } 125 =
      (({ s with stack := parseObjectValue :: rest } : Scan).pop, scanEndObject) := by
    simp [stateEndValue, isSpace, parseObjectValue, parseObjectKey]
  rw [he]
  intro hl _ _
  have hp := pop_live { s with stack := parseObjectValue :: rest } ⟨hl.1, hl.2⟩
  simp only [List.tail_cons] at hp
  refine ⟨?_, ?_, fun _ => by rw [hp, hs]; rfl, fun h => absurd (Or.inl rfl) h⟩
  · rw [hp, hs]
    show (afterClose rest).stack = rest
    unfold afterClose; split
    · rename_i he'; simp only [topS]; exact (List.isEmpty_iff.1 he').symm
    · rfl
  · rw [hp]; unfold afterClose; split <;> rfl

theorem step_shape (s : Scan) (c : UInt8) : SH s (step s c) := by
  unfold step
  split
  all_goals first
    | exact sh_stateEndValue _ _ | exact sh_stateEndTop _ _ | exact sh_stateBeginValue _ _
    | exact sh_stateBeginString _ _ | exact sh_state0 _ _ | exact sh_stateESign _ _
    | exact sh_hexStep _ _ _ | exact sh_expect _ _ _ _ | exact sh_error _
    | skip
  · unfold stateBeginValueOrEmpty
    repeat' split
    all_goals first | sh_tac | exact sh_stateEndValue _ _ | exact sh_stateBeginValue _ _
  · unfold stateBeginStringOrEmpty
    repeat' split
    all_goals first | sh_tac | exact sh_stateBeginString _ _ | skip
    rename_i hc _ _ _ hs
    subst hc
    exact sh_bsoe_close s _ _ hs
  · unfold stateInString
    repeat' split
    all_goals sh_tac
  · unfold stateInStringEsc
    repeat' split
    all_goals sh_tac
  · unfold stateNeg
    repeat' split
    all_goals sh_tac
  · unfold state1
    split
    all_goals first | sh_tac | exact sh_state0 _ _
  · unfold stateDot
    split
    all_goals sh_tac
  · unfold stateDot0
    repeat' split
    all_goals first | sh_tac | exact sh_stateEndValue _ _
  · unfold stateE
    split
    all_goals first | sh_tac | exact sh_stateESign _ _
  · unfold stateE0
    split
    all_goals first | sh_tac | exact sh_stateEndValue _ _
  · exact fun _ h _ => absurd rfl h

/-! ### only white space is skipped -/

def SK (c : UInt8) (r : Scan × Nat) : Prop := r.2 = scanSkipSpace → isSpace c = true

theorem sk_error (c : UInt8) (s : Scan) : SK c s.error := fun h => by cases h
theorem sk_goto (c : UInt8) (s : Scan) (st : St) (op : Nat) (h : op ≠ scanSkipSpace) : SK c (s.goto st op) :=
  fun h' => absurd h' h
theorem sk_pair (c : UInt8) (s : Scan) (op : Nat) (h : op ≠ scanSkipSpace) : SK c (s, op) :=
  fun h' => absurd h' h
theorem sk_push (c : UInt8) (s : Scan) (p op : Nat) (h : op ≠ scanSkipSpace) : SK c (s.push p op) := by
  unfold Scan.push; simp only; split
  · exact fun h' => absurd h' h
  · exact fun h' => by cases h'

macro "sk_tac" : tactic => `(tactic| first
  | exact sk_error _ _
  | exact sk_goto _ _ _ _ (by decide)
  | exact sk_pair _ _ _ (by decide)
  | exact sk_push _ _ _ _ (by decide)
  | (intro _; assumption))

theorem sk_stateEndTop (s : Scan) (c : UInt8) : SK c (stateEndTop s c) := by
  unfold stateEndTop; split <;> exact fun h => by cases h

theorem sk_stateEndValue (s : Scan) (c : UInt8) : SK c (stateEndValue s c) := by
  unfold stateEndValue
  split
  · exact sk_stateEndTop _ _
  · repeat' split
    all_goals sk_tac

theorem sk_stateBeginValue (s : Scan) (c : UInt8) : SK c (stateBeginValue s c) := by
  unfold stateBeginValue
  repeat' split
  all_goals sk_tac

theorem sk_stateBeginString (s : Scan) (c : UInt8) : SK c (stateBeginString s c) := by
  unfold stateBeginString
  repeat' split
  all_goals sk_tac

theorem sk_state0 (s : Scan) (c : UInt8) : SK c (state0 s c) := by
  unfold state0
  repeat' split
  all_goals first | sk_tac | exact sk_stateEndValue _ _

theorem sk_stateESign (s : Scan) (c : UInt8) : SK c (stateESign s c) := by
  unfold stateESign
  split
  all_goals sk_tac

theorem sk_hexStep (s : Scan) (c : UInt8) (n : St) : SK c (hexStep s c n) := by
  unfold hexStep
  split
  all_goals sk_tac

theorem sk_expect (s : Scan) (c w : UInt8) (n : St) : SK c (expect s c w n) := by
  unfold expect
  split
  all_goals sk_tac

theorem step_skip_isWs (s : Scan) (c : UInt8) : SK c (step s c) := by
  unfold step
  split
  all_goals first
    | exact sk_stateEndValue _ _ | exact sk_stateEndTop _ _ | exact sk_stateBeginValue _ _
    | exact sk_stateBeginString _ _ | exact sk_state0 _ _ | exact sk_stateESign _ _
    | exact sk_hexStep _ _ _ | exact sk_expect _ _ _ _ | exact sk_error _ _
    | skip
  · unfold stateBeginValueOrEmpty
    repeat' split
    all_goals first | sk_tac | exact sk_stateEndValue _ _ | exact sk_stateBeginValue _ _
  · unfold stateBeginStringOrEmpty
    repeat' split
    all_goals first | sk_tac | exact sk_stateBeginString _ _ | exact sk_stateEndValue _ _
  · unfold stateInString
    repeat' split
    all_goals sk_tac
  · unfold stateInStringEsc
    repeat' split
    all_goals sk_tac
  · unfold stateNeg
    repeat' split
    all_goals sk_tac
  · unfold state1
    split
    all_goals first | sk_tac | exact sk_state0 _ _
  · unfold stateDot
    split
    all_goals sk_tac
  · unfold stateDot0
    repeat' split
    all_goals first | sk_tac | exact sk_stateEndValue _ _
  · unfold stateE
    split
    all_goals first | sk_tac | exact sk_stateESign _ _
  · unfold stateE0
    split
    all_goals first | sk_tac | exact sk_stateEndValue _ _
  · exact fun h => by cases h

end Scanner
end JP
