import JP.Impl.Den
import JP.Check

/-!
# Engine lemmas, part 1: the abstraction `den`, the invariants, decoding one level

* `isCon`   – the node is a parsed container (`doc` / `ary`);
* `TX e`    – the *text* invariant needed by `copy` (which re-prints a subtree): every member
              name kept in a parsed object survives `quoteBody e` / `unquote`, every string body
              inside a raw message survives `escBody` (when `e`), every member name of a raw
              object survives re-quoting after decoding;
* `Inv e n` – `WF n ∧ TX e n`.
-/

namespace JP
namespace Impl

/-! ### small predicates -/

def isCon : Node → Bool
  | .doc _ _ => true
  | .ary _ => true
  | _ => false

def isNil : Node → Bool
  | .nil => true
  | _ => false

/-- what `compact(escape = e)` does to one string body -/
def escB (e : Bool) (b : Bytes) : Bytes := if e then escBody b else b

/-- the name `k` survives being printed by the encoder and read back, and what the encoder
prints is left alone by `compact`'s escaping -/
def QK (e : Bool) (k : Bytes) : Bool :=
  unquote (quoteBody e k) == k && escB e (quoteBody e k) == quoteBody e k

/-- the string body `b` denotes the same string after `compact`'s escaping, and escaping
twice is escaping once -/
def EscOK (e : Bool) (b : Bytes) : Bool :=
  unquote (escB e b) == unquote b && escB e (escB e b) == escB e b

mutual
def CstOK (e : Bool) : Cst → Bool
  | .lit _ => true
  | .str b => EscOK e b
  | .arr xs => CstOKL e xs
  | .obj ms => CstOKM e ms
def CstOKL (e : Bool) : List Cst → Bool
  | [] => true
  | x :: xs => CstOK e x && CstOKL e xs
def CstOKM (e : Bool) : List (Bytes × Cst) → Bool
  | [] => true
  | (k, v) :: ms => EscOK e k && QK e (unquote k) && CstOK e v && CstOKM e ms
end

mutual
def TX (e : Bool) : Node → Bool
  | .raw c => CstOK e c
  | .doc _ obj => TXM e obj
  | .ary ns => TXL e ns
  | _ => true
def TXM (e : Bool) : NMembers → Bool
  | [] => true
  | (k, n) :: ms => QK e k && TX e n && TXM e ms
def TXL (e : Bool) : List Node → Bool
  | [] => true
  | n :: ns => TX e n && TXL e ns
end

def Inv (e : Bool) (n : Node) : Prop := WF n = true ∧ TX e n = true

def InvL (e : Bool) (ns : List Node) : Prop := ∀ n ∈ ns, Inv e n

def InvM (e : Bool) (obj : NMembers) : Prop := ∀ kn ∈ obj, QK e kn.1 = true ∧ Inv e kn.2

/-! ### list forms of the mutual list functions -/

theorem WFL_iff (ns : List Node) : WFL ns = true ↔ ∀ n ∈ ns, WF n = true := by
  induction ns with
  | nil => simp [WFL]
  | cons n ns ih => simp [WFL, ih]

theorem WFM_iff (ms : NMembers) : WFM ms = true ↔ ∀ kn ∈ ms, WF kn.2 = true := by
  induction ms with
  | nil => simp [WFM]
  | cons m ms ih => obtain ⟨k, n⟩ := m; simp [WFM, ih]

theorem TXL_iff (e : Bool) (ns : List Node) : TXL e ns = true ↔ ∀ n ∈ ns, TX e n = true := by
  induction ns with
  | nil => simp [TXL]
  | cons n ns ih => simp [TXL, ih]

theorem TXM_iff (e : Bool) (ms : NMembers) :
    TXM e ms = true ↔ ∀ kn ∈ ms, QK e kn.1 = true ∧ TX e kn.2 = true := by
  induction ms with
  | nil => simp [TXM]
  | cons m ms ih => obtain ⟨k, n⟩ := m; simp [TXM, ih, and_assoc]

theorem denL_eq_map (ns : List Node) : denL ns = ns.map den := by
  induction ns with
  | nil => simp [denL]
  | cons n ns ih => simp [denL, ih]

theorem denM_eq_map (ms : NMembers) : denM ms = ms.map fun kn => (kn.1, den kn.2) := by
  induction ms with
  | nil => simp [denM]
  | cons m ms ih => obtain ⟨k, n⟩ := m; simp [denM, ih]

theorem denM_keys (ms : NMembers) : (denM ms).map Prod.fst = ms.map Prod.fst := by
  induction ms with
  | nil => simp [denM]
  | cons m ms ih => obtain ⟨k, n⟩ := m; simp [denM, ih]

theorem denL_length (ns : List Node) : (denL ns).length = ns.length := by
  simp [denL_eq_map]

theorem denL_append (xs ys : List Node) : denL (xs ++ ys) = denL xs ++ denL ys := by
  simp [denL_eq_map]

theorem denM_append (xs ys : NMembers) : denM (xs ++ ys) = denM xs ++ denM ys := by
  simp [denM_eq_map]

theorem denL_getElem? (ns : List Node) (i : Nat) : (denL ns)[i]? = ns[i]?.map den := by
  simp [denL_eq_map]

/-! ### `Inv` of the constructors -/

theorem Inv_nil (e : Bool) : Inv e .nil := by simp [Inv, WF, TX]

theorem Inv_raw (e : Bool) (c : Cst) : Inv e (.raw c) ↔ c.valueOf.noDup = true ∧ CstOK e c = true := by
  simp [Inv, WF, TX]

theorem Inv_ary (e : Bool) (ns : List Node) : Inv e (.ary ns) ↔ InvL e ns := by
  simp only [Inv, WF, TX, WFL_iff, TXL_iff, InvL]
  constructor
  · intro h n hn; exact ⟨h.1 n hn, h.2 n hn⟩
  · intro h; exact ⟨fun n hn => (h n hn).1, fun n hn => (h n hn).2⟩

theorem Inv_doc (e : Bool) (keys : List Bytes) (obj : NMembers) :
    Inv e (.doc keys obj) ↔
      keys = obj.map Prod.fst ∧ Value.nodupKeys keys = true ∧ InvM e obj := by
  simp only [Inv, WF, TX, WFM_iff, TXM_iff, InvM, Bool.and_eq_true, beq_iff_eq]
  constructor
  · rintro ⟨⟨⟨h1, h2⟩, h3⟩, h4⟩
    exact ⟨h1, h2, fun kn hkn => ⟨(h4 kn hkn).1, h3 kn hkn, (h4 kn hkn).2⟩⟩
  · rintro ⟨h1, h2, h3⟩
    exact ⟨⟨⟨h1, h2⟩, fun kn hkn => (h3 kn hkn).2.1⟩, fun kn hkn => ⟨(h3 kn hkn).1, (h3 kn hkn).2.2⟩⟩

theorem Inv_docNil (e : Bool) : ¬ Inv e .docNil := by simp [Inv, WF]
theorem Inv_nilAry (e : Bool) : ¬ Inv e .nilAry := by simp [Inv, WF]

/-! ### key lists -/

theorem nodupKeys_iff (ks : List Bytes) : Value.nodupKeys ks = true ↔ ks.Nodup := by
  induction ks with
  | nil => simp [Value.nodupKeys]
  | cons k ks ih => simp [Value.nodupKeys, ih, List.nodup_cons]

/-- generic: mapping the key list of a duplicate-free association list through its own lookup -/
theorem map_keys_lookup {β γ : Type} (lk : Bytes → List (Bytes × β) → Option β)
    (hcons : ∀ k k' b ms, lk k ((k', b) :: ms) = if k' = k then some b else lk k ms)
    (g : Bytes → Option β → γ) :
    ∀ ms : List (Bytes × β), Value.nodupKeys (ms.map Prod.fst) = true →
      (ms.map Prod.fst).map (fun k => g k (lk k ms)) = ms.map (fun kb => g kb.1 (some kb.2)) := by
  intro ms
  induction ms with
  | nil => intro _; rfl
  | cons m ms ih =>
    obtain ⟨k, b⟩ := m
    intro h
    simp only [List.map_cons, Value.nodupKeys, Bool.and_eq_true, Bool.not_eq_true', List.contains_eq_mem,
      decide_eq_false_iff_not] at h
    simp only [List.map_cons, hcons, if_true]
    congr 1
    rw [← ih h.2]
    apply List.map_congr_left
    intro k' hk'
    have : k ≠ k' := fun heq => h.1 (heq ▸ hk')
    simp [this]

theorem den_doc_of_WF (keys : List Bytes) (obj : NMembers) (h : WF (.doc keys obj) = true) :
    den (.doc keys obj) = .obj (denM obj) := by
  simp only [WF, Bool.and_eq_true, beq_iff_eq] at h
  obtain ⟨⟨h1, h2⟩, _⟩ := h
  subst h1
  simp only [den]
  congr 1
  have := map_keys_lookup (β := Value) (γ := Bytes × Value) Value.lookup
    (by intro k k' b ms; rfl) (fun k o => (k, o.getD .null)) (denM obj)
    (by rw [denM_keys]; exact h2)
  rw [denM_keys] at this
  rw [this]
  simp [denM_eq_map]

theorem den_doc_inv {e : Bool} {keys : List Bytes} {obj : NMembers} (h : Inv e (.doc keys obj)) :
    den (.doc keys obj) = .obj (denM obj) := den_doc_of_WF keys obj h.1

theorem den_ary (ns : List Node) : den (.ary ns) = .arr (denL ns) := by simp [den]

/-! ### lookups -/

theorem lookupN_denM (k : Bytes) (obj : NMembers) :
    Value.lookup k (denM obj) = (lookupN k obj).map den := by
  induction obj with
  | nil => simp [denM, Value.lookup, lookupN]
  | cons m ms ih =>
    obtain ⟨k', n⟩ := m
    simp only [denM, Value.lookup, lookupN]
    split <;> simp [ih]

theorem lookupN_mem {k : Bytes} {obj : NMembers} {n : Node} (h : lookupN k obj = some n) :
    (k, n) ∈ obj := by
  induction obj with
  | nil => simp [lookupN] at h
  | cons m ms ih =>
    obtain ⟨k', n'⟩ := m
    simp only [lookupN] at h
    split at h
    · next hk => simp at h; subst hk; subst h; simp
    · exact List.mem_cons_of_mem _ (ih h)

theorem lookupN_isSome_iff (k : Bytes) (obj : NMembers) :
    (lookupN k obj).isSome = true ↔ k ∈ obj.map Prod.fst := by
  induction obj with
  | nil => simp [lookupN]
  | cons m ms ih =>
    obtain ⟨k', n'⟩ := m
    simp only [lookupN, List.map_cons, List.mem_cons]
    split
    · next hk => simp [hk]
    · next hk => rw [ih]; constructor
                 · intro h; exact Or.inr h
                 · rintro (h | h)
                   · exact absurd h.symm hk
                   · exact h

/-! ### `setN`, `eraseN`, `eraseKey` -/

theorem denM_setN (k : Bytes) (n : Node) (obj : NMembers) :
    denM (setN k n obj) = Value.set k (den n) (denM obj) := by
  induction obj with
  | nil => simp [setN, denM, Value.set]
  | cons m ms ih =>
    obtain ⟨k', n'⟩ := m
    simp only [setN, denM, Value.set]
    split <;> simp [denM, ih]

theorem mem_setN {k : Bytes} {n : Node} {obj : NMembers} {x : Bytes × Node} (h : x ∈ setN k n obj) :
    x = (k, n) ∨ x ∈ obj := by
  induction obj with
  | nil => simp [setN] at h; exact Or.inl h
  | cons m ms ih =>
    obtain ⟨k', n'⟩ := m
    simp only [setN] at h
    split at h
    · simp only [List.mem_cons] at h ⊢
      rcases h with h | h
      · exact Or.inl h
      · exact Or.inr (Or.inr h)
    · simp only [List.mem_cons] at h ⊢
      rcases h with h | h
      · exact Or.inr (Or.inl h)
      · rcases ih h with h | h
        · exact Or.inl h
        · exact Or.inr (Or.inr h)

theorem setN_keys (k : Bytes) (n : Node) (obj : NMembers) :
    (setN k n obj).map Prod.fst =
      if (obj.map Prod.fst).contains k then obj.map Prod.fst else obj.map Prod.fst ++ [k] := by
  induction obj with
  | nil => simp [setN]
  | cons m ms ih =>
    obtain ⟨k', n'⟩ := m
    simp only [setN, List.map_cons, List.contains_cons]
    by_cases hk : k' = k
    · subst hk; simp
    · have hk' : (k == k') = false := by simp [Ne.symm hk]
      simp only [hk, if_false, List.map_cons, ih, hk', Bool.false_or]
      split <;> simp

theorem setN_append_of_not_mem (k : Bytes) (n : Node) (obj : NMembers)
    (h : k ∉ obj.map Prod.fst) : setN k n obj = obj ++ [(k, n)] := by
  induction obj with
  | nil => simp [setN]
  | cons m ms ih =>
    obtain ⟨k', n'⟩ := m
    simp only [List.map_cons, List.mem_cons, not_or] at h
    simp only [setN]
    rw [if_neg (Ne.symm h.1), ih h.2]
    rfl

theorem mem_eraseN {k : Bytes} {obj : NMembers} {x : Bytes × Node} (h : x ∈ eraseN k obj) : x ∈ obj := by
  induction obj with
  | nil => simp [eraseN] at h
  | cons m ms ih =>
    obtain ⟨k', n'⟩ := m
    simp only [eraseN] at h
    split at h
    · exact List.mem_cons_of_mem _ h
    · simp only [List.mem_cons] at h ⊢
      rcases h with h | h
      · exact Or.inl h
      · exact Or.inr (ih h)

theorem eraseN_keys (k : Bytes) (obj : NMembers) :
    (eraseN k obj).map Prod.fst = eraseKey k (obj.map Prod.fst) := by
  induction obj with
  | nil => simp [eraseN, eraseKey]
  | cons m ms ih =>
    obtain ⟨k', n'⟩ := m
    simp only [eraseN, List.map_cons, eraseKey]
    split <;> simp [ih]

theorem eraseKey_sublist (k : Bytes) (ks : List Bytes) : (eraseKey k ks).Sublist ks := by
  induction ks with
  | nil => simp [eraseKey]
  | cons k' ks ih =>
    simp only [eraseKey]
    split
    · exact List.sublist_cons_self _ _
    · exact List.Sublist.cons_cons _ ih

theorem erase_of_not_mem (k : Bytes) (ms : Value.Members) (h : k ∉ ms.map Prod.fst) :
    Value.erase k ms = ms := by
  induction ms with
  | nil => simp [Value.erase]
  | cons m ms ih =>
    obtain ⟨k', v⟩ := m
    simp only [List.map_cons, List.mem_cons, not_or] at h
    simp only [Value.erase]
    rw [if_neg (Ne.symm h.1), ih h.2]

theorem denM_eraseN (k : Bytes) (obj : NMembers) (h : (obj.map Prod.fst).Nodup) :
    denM (eraseN k obj) = Value.erase k (denM obj) := by
  induction obj with
  | nil => simp [eraseN, denM, Value.erase]
  | cons m ms ih =>
    obtain ⟨k', n'⟩ := m
    simp only [List.map_cons, List.nodup_cons] at h
    simp only [eraseN, denM, Value.erase]
    split
    · next hk =>
      subst hk
      rw [erase_of_not_mem]
      rw [denM_keys]; exact h.1
    · simp [denM, ih h.2]

/-! ### `listSet`, `listInsert`, `eraseIdx` -/

theorem listSet_eq_setAt {α} (i : Nat) (a : α) (xs : List α) : listSet i a xs = Spec.setAt i a xs := by
  induction xs generalizing i with
  | nil => cases i <;> rfl
  | cons x xs ih => cases i with
    | zero => rfl
    | succ i => simp [listSet, Spec.setAt, ih]

theorem listInsert_eq_insertAt {α} (i : Nat) (a : α) (xs : List α) :
    listInsert i a xs = Spec.insertAt i a xs := by
  induction xs generalizing i with
  | nil => cases i <;> rfl
  | cons x xs ih => cases i with
    | zero => rfl
    | succ i => simp [listInsert, Spec.insertAt, ih]

theorem setAt_map {α β} (f : α → β) (i : Nat) (a : α) (xs : List α) :
    (Spec.setAt i a xs).map f = Spec.setAt i (f a) (xs.map f) := by
  induction xs generalizing i with
  | nil => cases i <;> rfl
  | cons x xs ih => cases i with
    | zero => rfl
    | succ i => simp [Spec.setAt, ih]

theorem insertAt_map {α β} (f : α → β) (i : Nat) (a : α) (xs : List α) :
    (Spec.insertAt i a xs).map f = Spec.insertAt i (f a) (xs.map f) := by
  induction xs generalizing i with
  | nil => cases i <;> rfl
  | cons x xs ih => cases i with
    | zero => rfl
    | succ i => simp [Spec.insertAt, ih]

theorem denL_listSet (i : Nat) (n : Node) (ns : List Node) :
    denL (listSet i n ns) = Spec.setAt i (den n) (denL ns) := by
  rw [listSet_eq_setAt, denL_eq_map, denL_eq_map, setAt_map]

theorem denL_listInsert (i : Nat) (n : Node) (ns : List Node) :
    denL (listInsert i n ns) = Spec.insertAt i (den n) (denL ns) := by
  rw [listInsert_eq_insertAt, denL_eq_map, denL_eq_map, insertAt_map]

theorem denL_eraseIdx (i : Nat) (ns : List Node) : denL (ns.eraseIdx i) = (denL ns).eraseIdx i := by
  induction ns generalizing i with
  | nil => simp [denL]
  | cons x xs ih => cases i with
    | zero => simp [denL]
    | succ i => simp [denL, ih]

theorem insertAt_length_eq_append {α} (a : α) (xs : List α) : Spec.insertAt xs.length a xs = xs ++ [a] := by
  induction xs with
  | nil => rfl
  | cons x xs ih => simp [Spec.insertAt, ih]

theorem setAt_length {α} (i : Nat) (a : α) (xs : List α) : (Spec.setAt i a xs).length = xs.length := by
  induction xs generalizing i with
  | nil => cases i <;> rfl
  | cons x xs ih => cases i with
    | zero => rfl
    | succ i => simp [Spec.setAt, ih]

theorem setAt_getElem? {α} (i : Nat) (a : α) (xs : List α) (h : i < xs.length) :
    (Spec.setAt i a xs)[i]? = some a := by
  induction xs generalizing i with
  | nil => simp at h
  | cons x xs ih => cases i with
    | zero => rfl
    | succ i => simp only [List.length_cons] at h; simp [Spec.setAt, ih i (by omega)]

theorem setAt_self {α} (i : Nat) (a : α) (xs : List α) (h : xs[i]? = some a) : Spec.setAt i a xs = xs := by
  induction xs generalizing i with
  | nil => simp at h
  | cons x xs ih => cases i with
    | zero => simp at h; simp [Spec.setAt, h]
    | succ i => simp at h; simp [Spec.setAt, ih i h]

theorem mem_listSet {α} {i : Nat} {a x : α} {xs : List α} (h : x ∈ listSet i a xs) : x = a ∨ x ∈ xs := by
  induction xs generalizing i with
  | nil => cases i <;> simp [listSet] at h
  | cons y ys ih => cases i with
    | zero => simp only [listSet, List.mem_cons] at h ⊢
              rcases h with h | h
              · exact Or.inl h
              · exact Or.inr (Or.inr h)
    | succ i => simp only [listSet, List.mem_cons] at h ⊢
                rcases h with h | h
                · exact Or.inr (Or.inl h)
                · rcases ih h with h | h
                  · exact Or.inl h
                  · exact Or.inr (Or.inr h)

theorem mem_listInsert {α} {i : Nat} {a x : α} {xs : List α} (h : x ∈ listInsert i a xs) : x = a ∨ x ∈ xs := by
  induction xs generalizing i with
  | nil => cases i <;> simp [listInsert] at h <;> exact Or.inl h
  | cons y ys ih => cases i with
    | zero => simp only [listInsert, List.mem_cons] at h ⊢
              exact h
    | succ i => simp only [listInsert, List.mem_cons] at h ⊢
                rcases h with h | h
                · exact Or.inr (Or.inl h)
                · rcases ih h with h | h
                  · exact Or.inl h
                  · exact Or.inr (Or.inr h)

/-! ### `Inv` of the container edits -/

theorem InvL_listSet {e i n ns} (hn : Inv e n) (h : InvL e ns) : InvL e (listSet i n ns) := by
  intro x hx
  rcases mem_listSet hx with rfl | hx
  · exact hn
  · exact h x hx

theorem InvL_listInsert {e i n ns} (hn : Inv e n) (h : InvL e ns) : InvL e (listInsert i n ns) := by
  intro x hx
  rcases mem_listInsert hx with rfl | hx
  · exact hn
  · exact h x hx

theorem InvL_append {e ns n} (hn : Inv e n) (h : InvL e ns) : InvL e (ns ++ [n]) := by
  intro x hx
  simp only [List.mem_append, List.mem_singleton] at hx
  rcases hx with hx | rfl
  · exact h x hx
  · exact hn

theorem InvL_eraseIdx {e i ns} (h : InvL e ns) : InvL e (ns.eraseIdx i) :=
  fun x hx => h x (List.mem_of_mem_eraseIdx hx)

theorem InvL_getElem? {e} {i : Nat} {ns : List Node} {n} (h : InvL e ns) (hi : ns[i]? = some n) : Inv e n :=
  h n (List.mem_of_getElem? hi)

theorem InvM_setN {e k n obj} (hk : QK e k = true) (hn : Inv e n) (h : InvM e obj) : InvM e (setN k n obj) := by
  intro x hx
  rcases mem_setN hx with rfl | hx
  · exact ⟨hk, hn⟩
  · exact h x hx

theorem InvM_eraseN {e k obj} (h : InvM e obj) : InvM e (eraseN k obj) :=
  fun x hx => h x (mem_eraseN hx)

theorem InvM_lookupN {e k obj n} (h : InvM e obj) (hl : lookupN k obj = some n) : QK e k = true ∧ Inv e n :=
  h (k, n) (lookupN_mem hl)

theorem Inv_docSet {e keys obj k n} (h : Inv e (.doc keys obj)) (hk : QK e k = true) (hn : Inv e n) :
    Inv e (docSet keys obj k n) := by
  rw [Inv_doc] at h
  obtain ⟨h1, h2, h3⟩ := h
  subst h1
  simp only [docSet]
  rw [Inv_doc]
  refine ⟨(setN_keys k n obj).symm, ?_, InvM_setN hk hn h3⟩
  rw [nodupKeys_iff] at h2 ⊢
  split
  · exact h2
  · next hc =>
    simp only [List.contains_eq_mem, decide_eq_true_eq] at hc
    rw [List.nodup_append]
    refine ⟨h2, by simp, ?_⟩
    intro a ha b hb
    simp only [List.mem_singleton] at hb
    subst hb
    intro heq
    exact hc (heq ▸ ha)

theorem den_docSet {e keys obj k n} (h : Inv e (.doc keys obj)) (hk : QK e k = true) (hn : Inv e n) :
    den (docSet keys obj k n) = .obj (Value.set k (den n) (denM obj)) := by
  have h' := Inv_docSet h hk hn
  simp only [docSet] at h' ⊢
  rw [den_doc_inv h', denM_setN]

end Impl
end JP
