import JP.Legacy.Check

/-!
# Legacy package: panic freedom

The invariant is much weaker than for v5: the root container, and every container a walk
enters, is *container-shaped* (`isCon`: a parsed object, a nil map, or a parsed array).  The
container methods panic on nothing else; `findObject` never descends into a nil node;
`replace` calls `set` only after a successful `get`; the index arithmetic of `add` stays in
range; in `merge` the document map is nil only at a raw `null`, which never sits inside a
parsed object (`MOK`).
-/

namespace JP
namespace Legacy

open Impl (Err Outcome listSet listInsert)

def isCon : Node → Bool
  | .doc _ => true
  | .docNil => true
  | .ary _ => true
  | _ => false

/-- no panic, and an `ok` result is container-shaped -/
def ConOK : Outcome Node → Prop
  | .ok c => isCon c = true
  | .err _ => True
  | .panic => False

def ActOK {α} : Outcome (Node × α) → Prop
  | .ok (c, _) => isCon c = true
  | .err _ => True
  | .panic => False

def WalkOK {α} : Walk α → Prop
  | .done c _ => isCon c = true
  | .notFound => True
  | .fail _ => True
  | .panic => False

theorem conGet_ne_panic {neg con key} (hc : isCon con = true) : conGet neg con key ≠ .panic := by
  cases con <;> simp only [isCon] at hc <;> try contradiction
  all_goals
    simp only [conGet]
    repeat' split
    all_goals simp

theorem conAdd_ok {neg con key val} (hc : isCon con = true) : ConOK (conAdd neg con key val) := by
  cases con <;> simp only [isCon] at hc <;> try contradiction
  · simp [conAdd, ConOK, isCon]
  · simp [conAdd, ConOK]
  · simp only [conAdd]
    repeat' split
    all_goals first
      | trivial
      | (simp only [ConOK, isCon]; done)
      | (simp only [ConOK]; omega)

theorem conRemove_ok {neg con key} (hc : isCon con = true) : ConOK (conRemove neg con key) := by
  cases con <;> simp only [isCon] at hc <;> try contradiction
  all_goals
    simp only [conRemove]
    repeat' split
    all_goals first
      | trivial
      | (simp only [ConOK, isCon])

/-- `set` after a successful `get` with the same key (what `replace` does) -/
theorem conSet_ok {neg con key val x} (hc : isCon con = true)
    (hg : conGet neg con key = .ok x) : ConOK (conSet neg con key val) := by
  cases con <;> simp only [isCon] at hc <;> try contradiction
  · simp [conSet, ConOK, isCon]
  · simp [conSet, ConOK]
  · rename_i nodes
    simp only [conSet]
    cases ha : atoi key with
    | none => trivial
    | some idx =>
      simp only [conGet, ha] at hg
      simp only []
      repeat' split
      all_goals first
        | trivial
        | (simp only [ConOK, isCon]; done)
        | skip
      all_goals
        simp only [ConOK]
        repeat' split at hg
        all_goals first
          | contradiction
          | (rename_i hget
             have := (List.getElem?_eq_some_iff.1 hget).1
             omega)

theorem intoDoc_ok {n} (h : n ≠ .nil) : ConOK (intoDoc n) := by
  cases n with
  | nil => exact absurd rfl h
  | rawNil => trivial
  | doc obj => simp [intoDoc, ConOK, isCon]
  | docNil => simp [intoDoc, ConOK, isCon]
  | ary ns => trivial
  | raw c =>
    cases c with
    | obj ms => simp [intoDoc, ConOK, decodeDoc, isCon]
    | lit s => simp only [intoDoc]; split <;> simp [ConOK, isCon]
    | str b => simp only [intoDoc]; split <;> simp [ConOK, isCon]
    | arr xs => simp only [intoDoc]; split <;> simp [ConOK, isCon]

theorem intoAry_ok {n} (h : n ≠ .nil) : ConOK (intoAry n) := by
  cases n with
  | nil => exact absurd rfl h
  | rawNil => trivial
  | doc obj => trivial
  | docNil => trivial
  | ary ns => simp [intoAry, ConOK, isCon]
  | raw c => cases c <;> simp [intoAry, ConOK, decodeAry, isCon]

theorem intoContainer_ok {n} (h : n ≠ .nil) : ConOK (intoContainer n) := by
  unfold intoContainer
  split
  · exact intoAry_ok h
  · exact intoDoc_ok h

theorem isCon_putChild {con key child} (hc : isCon con = true) : isCon (putChild con key child) = true := by
  cases con <;> simp only [isCon] at hc <;> try contradiction
  · rfl
  · rfl
  · simp only [putChild]; split <;> rfl

theorem walk_ok {α} (neg : Bool) (act : Node → Outcome (Node × α))
    (hact : ∀ con, isCon con = true → ActOK (act con)) :
    ∀ (parts : List Bytes) (con : Node), isCon con = true → WalkOK (walk neg act con parts)
  | [], con, hc => by
    have := hact con hc
    simp only [walk]
    cases h : act con with
    | ok r => obtain ⟨c, a⟩ := r; rw [h] at this; exact this
    | err e => trivial
    | panic => rw [h] at this; exact this
  | part :: rest, con, hc => by
    simp only [walk]
    have hg := conGet_ne_panic (neg := neg) (key := decodeToken part) hc
    cases hget : conGet neg con (decodeToken part) with
    | panic => exact absurd hget hg
    | err e => trivial
    | ok next =>
      by_cases hn : next = .nil
      · subst hn; trivial
      · have hi := intoContainer_ok hn
        have hstep : WalkOK (if rawIsNil next = true then (Walk.notFound : Walk α) else
            match intoContainer next with
            | .panic => .panic
            | .err _ => .notFound
            | .ok child =>
              match walk neg act child rest with
              | .done child' a => .done (putChild con (decodeToken part) child') a
              | .notFound => .notFound
              | .fail e => .fail e
              | .panic => .panic) := by
          split
          · trivial
          · cases hic : intoContainer next with
            | panic => rw [hic] at hi; exact hi
            | err e => trivial
            | ok child =>
              rw [hic] at hi
              have ih := walk_ok neg act hact rest child hi
              cases hw : walk neg act child rest with
              | done c' a => simp only [hw]; exact isCon_putChild hc
              | notFound => simp only [hw]; trivial
              | fail e => simp only [hw]; trivial
              | panic => rw [hw] at ih; exact ih.elim
        cases next with
        | nil => exact absurd rfl hn
        | _ => exact hstep

theorem withPath_ok {α} (neg : Bool) (root : Node) (path : Bytes)
    (act : Node → Bytes → Outcome (Node × α)) (hr : isCon root = true)
    (hact : ∀ con key, isCon con = true → ActOK (act con key)) :
    WalkOK (withPath neg root path act) := by
  unfold withPath
  split
  · trivial
  · exact walk_ok neg _ (fun con hc => hact con _ hc) _ root hr

theorem unitAct_ok {x : Outcome Node} (h : ConOK x) : ActOK (unitAct x) := by
  cases x with
  | ok c => exact h
  | err e => trivial
  | panic => exact h

theorem liftWalk_ok {w : Walk Unit} (h : WalkOK w) : ConOK (liftWalk w) := by
  cases w with
  | done c a => exact h
  | notFound => trivial
  | fail e => trivial
  | panic => exact h

/-! ### the operations -/

theorem opAdd_ok {neg root op} (hr : isCon root = true) : ConOK (opAdd neg root op) := by
  unfold opAdd
  split
  · exact liftWalk_ok (withPath_ok neg root _ _ hr fun con key hc => unitAct_ok (conAdd_ok hc))
  · trivial

theorem opRemove_ok {neg root op} (hr : isCon root = true) : ConOK (opRemove neg root op) := by
  unfold opRemove
  split
  · exact liftWalk_ok (withPath_ok neg root _ _ hr fun con key hc => unitAct_ok (conRemove_ok hc))
  · trivial

theorem opReplace_ok {neg root op} (hr : isCon root = true) : ConOK (opReplace neg root op) := by
  unfold opReplace
  split
  · trivial
  · trivial
  · split
    · split
      · trivial
      · trivial
      · split
        · simp [ConOK, decodeDoc, isCon]
        · simp [ConOK, decodeAry, isCon]
        · trivial
    · refine liftWalk_ok (withPath_ok neg root _ _ hr fun con key hc => ?_)
      have hg := conGet_ne_panic (neg := neg) (key := key) hc
      cases hget : conGet neg con key with
      | panic => exact absurd hget hg
      | err e => trivial
      | ok x => exact unitAct_ok (conSet_ok hc hget)

theorem withPath_ok' {α} {neg : Bool} {root : Node} {path : Bytes}
    {act : Node → Bytes → Outcome (Node × α)} {w : Walk α} (hp : withPath neg root path act = w)
    (hr : isCon root = true)
    (hact : ∀ con key, isCon con = true → ActOK (act con key)) : WalkOK w :=
  hp ▸ withPath_ok neg root path act hr hact

theorem opMove_ok {neg root op} (hr : isCon root = true) : ConOK (opMove neg root op) := by
  unfold opMove
  split
  · trivial
  · trivial
  · rename_i frm _
    simp only []
    generalize hp : withPath neg root frm _ = w
    have hw : WalkOK w := by
      refine withPath_ok' hp hr fun con key hc => ?_
      have hg := conGet_ne_panic (neg := neg) (key := key) hc
      cases hget : conGet neg con key with
      | panic => exact absurd hget hg
      | err e => trivial
      | ok x =>
        have := conRemove_ok (neg := neg) (key := key) hc
        cases hrm : conRemove neg con key with
        | ok c => rw [hrm] at this; exact this
        | err e => trivial
        | panic => rw [hrm] at this; exact this
    cases w with
    | panic => exact hw
    | fail e => trivial
    | notFound => trivial
    | done root1 val =>
      simp only []
      split
      · trivial
      · trivial
      · exact liftWalk_ok (withPath_ok neg root1 _ _ hw fun con key hc => unitAct_ok (conAdd_ok hc))

theorem isCon_deepParse {n} (h : isCon n = true) : isCon (deepParse n) = true := by
  cases n <;> simp only [isCon] at h <;> try contradiction
  all_goals simp [deepParse, isCon]

theorem equalTo_isCon {n ov} (h : isCon n = true) : isCon (equalTo n ov).2 = true := by
  unfold equalTo
  split
  · exact h
  · exact h
  · split
    · exact isCon_deepParse h
    · exact h

theorem opTest_ok {neg root op} (hr : isCon root = true) : ConOK (opTest neg root op) := by
  unfold opTest
  split
  · trivial
  · trivial
  · split
    · have := equalTo_isCon (n := root) (ov := op.value) hr
      cases he : equalTo root op.value with
      | mk b root' =>
        rw [he] at this
        simp only []
        split
        · exact this
        · trivial
    · refine liftWalk_ok (withPath_ok neg root _ _ hr fun con key hc => ?_)
      have hg := conGet_ne_panic (neg := neg) (key := key) hc
      cases hget : conGet neg con key with
      | panic => exact absurd hget hg
      | err e => trivial
      | ok x =>
        cases x with
        | nil => simp only []; split <;> first | trivial | exact hc
        | _ =>
          simp only []
          split
          · trivial
          · split
            · exact isCon_putChild hc
            · trivial

theorem copySource_ok {neg root frm} (hr : isCon root = true) : WalkOK (copySource neg root frm) := by
  unfold copySource
  refine withPath_ok neg root _ _ hr fun con key hc => ?_
  have hg := conGet_ne_panic (neg := neg) (key := key) hc
  cases hget : conGet neg con key with
  | panic => exact absurd hget hg
  | err e => trivial
  | ok x => exact hc

def PrepOK : Outcome (Node × Node × Nat) → Prop
  | .ok (c, _, _) => isCon c = true
  | .err _ => True
  | .panic => False

theorem copyPrepare_ok {neg root op} (hr : isCon root = true) : PrepOK (copyPrepare neg root op) := by
  unfold copyPrepare
  split
  · trivial
  · trivial
  · rename_i frm _
    have h1 := copySource_ok (neg := neg) (frm := frm) hr
    split
    · rename_i hp; rw [hp] at h1; exact h1
    · trivial
    · trivial
    · rename_i root1 v1 hd
      rw [hd] at h1
      split
      · rename_i path _
        have h2 : WalkOK (withPath neg root1 path fun con _ => (.ok (con, ()) : Outcome (Node × Unit))) :=
          withPath_ok neg root1 _ _ h1 fun con key hc => hc
        split
        · rename_i hp; rw [hp] at h2; exact h2
        · trivial
        · trivial
        · rename_i root2 u hd2
          rw [hd2] at h2
          have h3 := copySource_ok (neg := neg) (frm := frm) h2
          split
          · simp only [PrepOK]; exact h2
          · rename_i hp; rw [hp] at h3; exact h3
          · trivial
      · trivial

def StepOK : Outcome (Node × Int) → Prop
  | .ok (c, _) => isCon c = true
  | .err _ => True
  | .panic => False

theorem opCopy_ok {neg limit root acc op} (hr : isCon root = true) :
    StepOK (opCopy neg limit root acc op) := by
  unfold opCopy
  have h1 := copyPrepare_ok (neg := neg) (op := op) hr
  split
  · rename_i hp; rw [hp] at h1; exact h1
  · trivial
  · rename_i root2 cp sz hp
    rw [hp] at h1
    simp only []
    split
    · trivial
    · split
      · rename_i path _
        have := liftWalk_ok (withPath_ok neg root2 path
          (fun con key => unitAct (conAdd neg con key cp)) h1 fun con key hc => unitAct_ok (conAdd_ok hc))
        split
        · rename_i h; rw [h] at this; exact this
        · trivial
        · rename_i h; rw [h] at this; exact this
      · trivial

theorem lift_ok {acc : Int} : ∀ {x : Outcome Node}, ConOK x →
    StepOK (match x with
      | .ok r' => .ok (r', acc)
      | .err e => .err e
      | .panic => .panic)
  | .ok _, h => h
  | .err _, _ => trivial
  | .panic, h => h

theorem applyOp_ok {neg limit root acc op} (hr : isCon root = true) :
    StepOK (applyOp neg limit root acc op) := by
  unfold applyOp
  simp only []
  split
  · exact lift_ok (opAdd_ok hr)
  · split
    · exact lift_ok (opRemove_ok hr)
    · split
      · exact lift_ok (opReplace_ok hr)
      · split
        · exact lift_ok (opMove_ok hr)
        · split
          · exact lift_ok (opTest_ok hr)
          · split
            · exact opCopy_ok hr
            · trivial

theorem applyOps_ok (neg : Bool) (limit : Int) : ∀ (ops : List Op) (root : Node) (acc : Int),
    isCon root = true → ConOK (applyOps neg limit root acc ops)
  | [], root, acc, hr => hr
  | op :: ops, root, acc, hr => by
    simp only [applyOps]
    have h := applyOp_ok (neg := neg) (limit := limit) (acc := acc) (op := op) hr
    cases hs : applyOp neg limit root acc op with
    | ok ra => obtain ⟨r', a'⟩ := ra; rw [hs] at h; exact applyOps_ok neg limit ops r' a' h
    | err e => trivial
    | panic => rw [hs] at h; exact h

theorem decodeRoot_ok (doc : Bytes) : ConOK (decodeRoot doc) := by
  unfold decodeRoot
  repeat' split
  all_goals first
    | trivial
    | simp [ConOK, decodeAry, decodeDoc, isCon]

theorem decodePatch_ne_panic (bs : Bytes) : decodePatch bs ≠ .panic := by
  unfold decodePatch
  repeat' split
  all_goals simp

theorem applyBytes_ne_panic (neg : Bool) (limit : Int) (indent doc : Bytes) (ops : List Op) :
    applyBytes neg limit indent doc ops ≠ .panic := by
  unfold applyBytes
  split
  · simp
  · have h1 := decodeRoot_ok doc
    cases hd : decodeRoot doc with
    | panic => rw [hd] at h1; exact absurd h1 id
    | err e => simp
    | ok root =>
      rw [hd] at h1
      simp only []
      have h2 := applyOps_ok neg limit ops root 0 h1
      cases ha : applyOps neg limit root 0 ops with
      | panic => rw [ha] at h2; exact absurd h2 id
      | err e => simp
      | ok r => simp only []; split <;> simp

/-! ### merge -/

mutual
/-- inside a parsed object there is no nil map and no raw `null` -/
def MOK : Node → Prop
  | .nil => True
  | .rawNil => True
  | .raw c => c.isNullLit = false
  | .doc obj => MOKM obj
  | .docNil => False
  | .ary _ => True
def MOKM : NMembers → Prop
  | [] => True
  | (_, n) :: ms => MOK n ∧ MOKM ms
end

theorem MOKM_iff (obj : NMembers) : MOKM obj ↔ ∀ p ∈ obj, MOK p.2 := by
  induction obj with
  | nil => simp [MOKM]
  | cons p ms ih => obtain ⟨k, n⟩ := p; simp [MOKM, ih]

theorem mem_setN {k : Bytes} {n : Node} {obj : NMembers} {p : Bytes × Node}
    (h : p ∈ setN k n obj) : p = (k, n) ∨ p ∈ obj := by
  induction obj with
  | nil => simp [setN] at h; exact Or.inl h
  | cons q ms ih =>
    obtain ⟨k', n'⟩ := q
    simp only [setN] at h
    split at h
    · rcases List.mem_cons.1 h with h | h
      · exact Or.inl h
      · exact Or.inr (List.mem_cons_of_mem _ h)
    · rcases List.mem_cons.1 h with h | h
      · exact Or.inr (h ▸ List.mem_cons_self)
      · rcases ih h with h | h
        · exact Or.inl h
        · exact Or.inr (List.mem_cons_of_mem _ h)

theorem mem_eraseN {k : Bytes} {obj : NMembers} {p : Bytes × Node} (h : p ∈ eraseN k obj) : p ∈ obj := by
  induction obj with
  | nil => simp [eraseN] at h
  | cons q ms ih =>
    obtain ⟨k', n'⟩ := q
    simp only [eraseN] at h
    split at h
    · exact List.mem_cons_of_mem _ h
    · rcases List.mem_cons.1 h with h | h
      · exact h ▸ List.mem_cons_self
      · exact List.mem_cons_of_mem _ (ih h)

theorem lookupN_mem {k : Bytes} {obj : NMembers} {n : Node} (h : lookupN k obj = some n) :
    (k, n) ∈ obj := by
  induction obj with
  | nil => simp [lookupN] at h
  | cons p ms ih =>
    obtain ⟨k', n'⟩ := p
    simp only [lookupN] at h
    split at h
    · rename_i hk; cases h; subst hk; exact List.mem_cons_self
    · exact List.mem_cons_of_mem _ (ih h)

theorem MOKM_setN {k n obj} (ho : MOKM obj) (hn : MOK n) : MOKM (setN k n obj) := by
  rw [MOKM_iff] at *
  intro p hp
  rcases mem_setN hp with h | h
  · rw [h]; exact hn
  · exact ho p h

theorem MOKM_eraseN {k obj} (ho : MOKM obj) : MOKM (eraseN k obj) := by
  rw [MOKM_iff] at *
  exact fun p hp => ho p (mem_eraseN hp)

theorem MOK_childOf (c : Cst) : MOK (childOf c) := by
  unfold childOf
  split
  · trivial
  · rename_i h; simp only [MOK]; simpa using h

theorem MOKM_decodeMembers : ∀ (ms : List (Bytes × Cst)) (acc : NMembers), MOKM acc →
    MOKM (decodeMembers ms acc)
  | [], acc, h => h
  | (k, v) :: ms, acc, h => by
    simp only [decodeMembers]
    exact MOKM_decodeMembers ms _ (MOKM_setN h (MOK_childOf v))

theorem MOKM_filter {f : Bytes × Node → Bool} {obj} (h : MOKM obj) : MOKM (obj.filter f) := by
  rw [MOKM_iff] at *
  exact fun p hp => h p (List.mem_filter.1 hp).1

mutual
theorem MOK_pruneC : ∀ (c : Cst), c.isNullLit = false → MOK (pruneC c)
  | .obj ms, _ => by
    simp only [pruneC, MOK]
    exact MOKM_filter (MOKM_pruneCM ms [] trivial)
  | .lit s, h => by simp only [pruneC, h]; exact h
  | .str b, h => by simp only [pruneC, h]; exact h
  | .arr xs, h => by simp only [pruneC, h]; exact h
theorem MOKM_pruneCM : ∀ (ms : List (Bytes × Cst)) (acc : NMembers), MOKM acc → MOKM (pruneCM ms acc)
  | [], acc, h => h
  | (k, v) :: ms, acc, h => by
    simp only [pruneCM]
    refine MOKM_pruneCM ms _ (MOKM_setN h ?_)
    cases hv : v.isNullLit with
    | true => trivial
    | false => exact MOK_pruneC v hv
end

/-- the result of `intoDoc` on a member of a parsed object -/
theorem intoDoc_MOK {cur : Node} (h : MOK cur) :
    match intoDoc cur with
    | .ok (.doc obj) => MOKM obj
    | .ok .docNil => False
    | _ => True := by
  cases cur with
  | nil => trivial
  | rawNil => trivial
  | doc obj => exact h
  | docNil => exact h
  | ary ns => trivial
  | raw c =>
    cases c with
    | obj ms => simp only [intoDoc, decodeDoc]; exact MOKM_decodeMembers ms [] trivial
    | lit s => simp only [MOK] at h; simp only [intoDoc, h]; trivial
    | str b => simp only [intoDoc]; trivial
    | arr xs => simp only [intoDoc]; trivial

def MergeOK : Option Node → Prop
  | some n => MOK n
  | none => False

def MergeDocsOK : Option NMembers → Prop
  | some obj => MOKM obj
  | none => False

mutual
theorem mergeNC_ok (mm : Bool) : ∀ (pc : Cst) (cur : Node), MOK cur → pc.isNullLit = false →
    MergeOK (mergeNC mm cur pc)
  | .obj pms, cur, hc, _ => by
    have hi := intoDoc_MOK hc
    simp only [mergeNC]
    split
    · rename_i obj hd
      rw [hd] at hi
      have := mergeDocsC_ok mm pms obj hi
      cases hm : mergeDocsC mm (some obj) pms with
      | none => rw [hm] at this; exact this
      | some obj' => rw [hm] at this; exact this
    · rename_i hd; rw [hd] at hi; exact hi.elim
    · exact MOK_pruneC (.obj pms) rfl
  | .lit s, cur, hc, hp => by
    have hi := intoDoc_MOK hc
    simp only [mergeNC]
    split
    · rename_i obj hd; rw [hd] at hi; simp only [hp]; exact hp
    · rename_i hd; rw [hd] at hi; exact hi.elim
    · exact MOK_pruneC _ hp
  | .str b, cur, hc, hp => by
    have hi := intoDoc_MOK hc
    simp only [mergeNC]
    split
    · rename_i obj hd; rw [hd] at hi; simp only [hp]; exact hp
    · rename_i hd; rw [hd] at hi; exact hi.elim
    · exact MOK_pruneC _ hp
  | .arr xs, cur, hc, hp => by
    have hi := intoDoc_MOK hc
    simp only [mergeNC]
    split
    · rename_i obj hd; rw [hd] at hi; simp only [hp]; exact hp
    · rename_i hd; rw [hd] at hi; exact hi.elim
    · exact MOK_pruneC _ hp
theorem mergeDocsC_ok (mm : Bool) : ∀ (pms : List (Bytes × Cst)) (obj : NMembers), MOKM obj →
    MergeDocsOK (mergeDocsC mm (some obj) pms)
  | [], obj, ho => ho
  | (k, v) :: pms, obj, ho => by
    simp only [mergeDocsC]
    split
    · exact mergeDocsC_ok mm pms obj ho
    · cases hv : v.isNullLit with
      | true =>
        simp only [if_true]
        refine mergeDocsC_ok mm pms _ ?_
        split
        · exact MOKM_setN ho trivial
        · exact MOKM_eraseN ho
      | false =>
        have hnew : MOK (if mm = true then Node.raw v else pruneC v) := by
          split
          · exact hv
          · exact MOK_pruneC v hv
        simp only [Bool.false_eq_true, if_false]
        split
        · exact mergeDocsC_ok mm pms _ (MOKM_setN ho hnew)
        · exact mergeDocsC_ok mm pms _ (MOKM_setN ho hnew)
        · rename_i cur _ hl
          have hcur : MOK cur := (MOKM_iff obj).1 ho _ (lookupN_mem hl)
          have := mergeNC_ok mm v cur hcur hv
          cases hm : mergeNC mm cur v with
          | none => rw [hm] at this; exact this.elim
          | some n =>
            rw [hm] at this
            exact mergeDocsC_ok mm pms _ (MOKM_setN ho this)
end

theorem mergeDocsC_decode_ne_none {mm dms pms}
    (h : mergeDocsC mm (some (decodeMembers dms [])) pms = none) : False := by
  have := mergeDocsC_ok mm pms _ (MOKM_decodeMembers dms [] trivial)
  rw [h] at this
  exact this

theorem doMergePatch_ne_panic (mm : Bool) (d p : Bytes) : doMergePatch mm d p ≠ .panic := by
  unfold doMergePatch
  repeat' split
  all_goals first
    | (simp; done)
    | (rename_i h; exact (mergeDocsC_decode_ne_none h).elim)

theorem createArray_ne_panic : ∀ (xs ys : List Cst), createArray xs ys ≠ .panic
  | [], ys => by simp [createArray]
  | a :: as, ys => by
    simp only [createArray]
    split
    · simp
    · split
      · have := createArray_ne_panic as ‹_›
        split
        · simp
        · simp
        · rename_i h; exact absurd h this
      · simp

theorem createObject_ne_panic (a b : Bytes) : createObject a b ≠ .panic := by
  unfold createObject
  repeat' split
  all_goals simp

theorem createMergePatch_ne_panic (a b : Bytes) : createMergePatch a b ≠ .panic := by
  unfold createMergePatch
  simp only []
  repeat' split
  all_goals first
    | (simp; done)
    | (rename_i h; exact absurd h (createArray_ne_panic _ _))
    | (rename_i h; exact absurd h (createObject_ne_panic _ _))

theorem applyModel_ne_panic (neg : Bool) (limit : Int) (doc patch : Bytes) :
    applyModel neg limit doc patch ≠ .panic := by
  unfold applyModel
  have h1 := decodePatch_ne_panic patch
  split
  · rename_i ops _
    have := applyBytes_ne_panic neg limit [] doc ops
    cases h : applyBytes neg limit [] doc ops with
    | ok out => simp [obsOf]
    | err e => simp [obsOf]
    | panic => exact absurd h this
  · simp
  · rename_i h; exact absurd h h1

end Legacy
end JP
