import JP.Value

/-!
# Basic lemmas on member lists, the induction principle for `Value`, the lookup view of `eqv`
-/

namespace JP
namespace Value

/-! ### induction principle for the nested inductive -/
mutual
theorem ind_v {P : Value → Prop}
    (hnull : P .null) (hbool : ∀ b, P (.bool b)) (hnum : ∀ l, P (.num l)) (hstr : ∀ s, P (.str s))
    (harr : ∀ xs : List Value, (∀ x, x ∈ xs → P x) → P (.arr xs))
    (hobj : ∀ ms : Members, (∀ k v, (k, v) ∈ ms → P v) → P (.obj ms)) : ∀ v : Value, P v
  | .null => hnull
  | .bool b => hbool b
  | .num l => hnum l
  | .str s => hstr s
  | .arr xs => harr xs (ind_l hnull hbool hnum hstr harr hobj xs)
  | .obj ms => hobj ms (ind_m hnull hbool hnum hstr harr hobj ms)
theorem ind_l {P : Value → Prop}
    (hnull : P .null) (hbool : ∀ b, P (.bool b)) (hnum : ∀ l, P (.num l)) (hstr : ∀ s, P (.str s))
    (harr : ∀ xs : List Value, (∀ x, x ∈ xs → P x) → P (.arr xs))
    (hobj : ∀ ms : Members, (∀ k v, (k, v) ∈ ms → P v) → P (.obj ms)) :
    ∀ (xs : List Value) (x : Value), x ∈ xs → P x
  | [], _, h => by cases h
  | y :: ys, x, h => by
    rcases List.mem_cons.1 h with h | h
    · rw [h]; exact ind_v hnull hbool hnum hstr harr hobj y
    · exact ind_l hnull hbool hnum hstr harr hobj ys x h
theorem ind_m {P : Value → Prop}
    (hnull : P .null) (hbool : ∀ b, P (.bool b)) (hnum : ∀ l, P (.num l)) (hstr : ∀ s, P (.str s))
    (harr : ∀ xs : List Value, (∀ x, x ∈ xs → P x) → P (.arr xs))
    (hobj : ∀ ms : Members, (∀ k v, (k, v) ∈ ms → P v) → P (.obj ms)) :
    ∀ (ms : Members) (k : Bytes) (v : Value), (k, v) ∈ ms → P v
  | [], _, _, h => by cases h
  | (k', v') :: ms, k, v, h => by
    rcases List.mem_cons.1 h with h | h
    · cases h; exact ind_v hnull hbool hnum hstr harr hobj v'
    · exact ind_m hnull hbool hnum hstr harr hobj ms k v h
end

/-- structural induction on values: for containers the hypothesis holds for every element -/
theorem ind {P : Value → Prop}
    (hnull : P .null) (hbool : ∀ b, P (.bool b)) (hnum : ∀ l, P (.num l)) (hstr : ∀ s, P (.str s))
    (harr : ∀ xs : List Value, (∀ x, x ∈ xs → P x) → P (.arr xs))
    (hobj : ∀ ms : Members, (∀ k v, (k, v) ∈ ms → P v) → P (.obj ms)) : ∀ v, P v :=
  ind_v hnull hbool hnum hstr harr hobj

/-! ### lookup, membership, names -/

theorem lookup_nil (k : Bytes) : lookup k [] = none := rfl

theorem lookup_cons (k k' : Bytes) (v : Value) (ms : Members) :
    lookup k ((k', v) :: ms) = if k' = k then some v else lookup k ms := rfl

theorem lookup_cons_self (k : Bytes) (v : Value) (ms : Members) :
    lookup k ((k, v) :: ms) = some v := by simp [lookup]

theorem lookup_cons_ne {k k' : Bytes} (h : k' ≠ k) (v : Value) (ms : Members) :
    lookup k ((k', v) :: ms) = lookup k ms := by simp [lookup, h]

theorem mem_of_lookup {k : Bytes} {v : Value} : ∀ {ms : Members}, lookup k ms = some v → (k, v) ∈ ms
  | [], h => by simp [lookup] at h
  | (k', v') :: ms, h => by
    by_cases hk : k' = k
    · subst hk; simp [lookup] at h; subst h; exact List.mem_cons_self
    · rw [lookup_cons_ne hk] at h; exact List.mem_cons_of_mem _ (mem_of_lookup h)

theorem lookup_eq_none_iff {k : Bytes} : ∀ {ms : Members}, lookup k ms = none ↔ k ∉ ms.map Prod.fst
  | [] => by simp [lookup]
  | (k', v') :: ms => by
    by_cases hk : k' = k
    · subst hk; simp [lookup]
    · rw [lookup_cons_ne hk, lookup_eq_none_iff (ms := ms)]
      simp [Ne.symm hk]

theorem lookup_isSome_iff {k : Bytes} {ms : Members} : (lookup k ms).isSome = true ↔ k ∈ ms.map Prod.fst := by
  cases h : lookup k ms with
  | none => simp [lookup_eq_none_iff.1 h]
  | some v =>
    simp only [Option.isSome_some, true_iff]
    exact List.mem_map.2 ⟨(k, v), mem_of_lookup h, rfl⟩

theorem lookup_isSome_of_mem {k : Bytes} {v : Value} {ms : Members} (h : (k, v) ∈ ms) :
    (lookup k ms).isSome = true :=
  lookup_isSome_iff.2 (List.mem_map.2 ⟨(k, v), h, rfl⟩)

theorem nodupKeys_cons (k : Bytes) (ks : List Bytes) :
    nodupKeys (k :: ks) = true ↔ k ∉ ks ∧ nodupKeys ks = true := by
  simp [nodupKeys]

theorem nodupKeys_nil : nodupKeys [] = true := rfl

theorem nodupKeys_members_cons (k : Bytes) (v : Value) (ms : Members) :
    nodupKeys (((k, v) :: ms).map Prod.fst) = true ↔
      lookup k ms = none ∧ nodupKeys (ms.map Prod.fst) = true := by
  rw [List.map_cons, nodupKeys_cons, lookup_eq_none_iff]

theorem lookup_of_mem {k : Bytes} {v : Value} :
    ∀ {ms : Members}, nodupKeys (ms.map Prod.fst) = true → (k, v) ∈ ms → lookup k ms = some v
  | [], _, h => by cases h
  | (k', v') :: ms, hnd, h => by
    rw [nodupKeys_members_cons] at hnd
    rcases List.mem_cons.1 h with h | h
    · cases h; exact lookup_cons_self _ _ _
    · have hk : k' ≠ k := by
        intro hk; subst hk
        have := lookup_isSome_of_mem h
        rw [hnd.1] at this; cases this
      rw [lookup_cons_ne hk]; exact lookup_of_mem hnd.2 h

theorem lookup_append (k : Bytes) : ∀ (xs ys : Members),
    lookup k (xs ++ ys) = (lookup k xs).or (lookup k ys)
  | [], ys => by simp [lookup]
  | (k', v') :: xs, ys => by
    by_cases hk : k' = k
    · subst hk; simp [lookup]
    · rw [List.cons_append, lookup_cons_ne hk, lookup_cons_ne hk, lookup_append k xs ys]

theorem eq_nil_iff_lookup (ms : Members) : ms = [] ↔ ∀ k, lookup k ms = none := by
  constructor
  · intro h k; subst h; rfl
  · intro h
    cases ms with
    | nil => rfl
    | cons m ms =>
      obtain ⟨k, v⟩ := m
      have := h k
      rw [lookup_cons_self] at this; cases this

/-! ### set and erase -/

theorem lookup_erase (k k' : Bytes) : ∀ ts : Members,
    lookup k (erase k' ts) = if k' = k then none else lookup k ts
  | [] => by simp [erase, lookup]
  | (k2, v2) :: ts => by
    have ih := lookup_erase k k' ts
    by_cases h2 : k2 = k'
    · subst h2
      simp only [erase, if_true, ih, lookup]
      by_cases hk : k2 = k <;> simp [hk]
    · simp only [erase, h2, if_false, lookup, ih]
      by_cases hk : k2 = k
      · subst hk; simp [Ne.symm h2]
      · simp [hk]

theorem lookup_set (k k' : Bytes) (v : Value) : ∀ ts : Members,
    lookup k (set k' v ts) = if k' = k then some v else lookup k ts
  | [] => by simp [set, lookup]
  | (k2, v2) :: ts => by
    have ih := lookup_set k k' v ts
    by_cases h2 : k2 = k'
    · subst h2; simp only [set, if_true, lookup]
      by_cases hk : k2 = k <;> simp [hk]
    · simp only [set, h2, if_false, lookup, ih]
      by_cases hk : k2 = k
      · subst hk; simp [Ne.symm h2]
      · simp [hk]

theorem lookup_set_eq (k : Bytes) (v : Value) (ts : Members) : lookup k (set k v ts) = some v := by
  simp [lookup_set]

theorem lookup_set_ne {k k' : Bytes} (h : k' ≠ k) (v : Value) (ts : Members) :
    lookup k (set k' v ts) = lookup k ts := by
  simp [lookup_set, h]

theorem lookup_erase_eq (k : Bytes) (ts : Members) : lookup k (erase k ts) = none := by
  simp [lookup_erase]

theorem lookup_erase_ne {k k' : Bytes} (h : k' ≠ k) (ts : Members) :
    lookup k (erase k' ts) = lookup k ts := by
  simp [lookup_erase, h]

theorem nodupKeys_erase (k : Bytes) : ∀ ts : Members,
    nodupKeys (ts.map Prod.fst) = true → nodupKeys ((erase k ts).map Prod.fst) = true
  | [], _ => rfl
  | (k2, v2) :: ts, h => by
    rw [nodupKeys_members_cons] at h
    by_cases h2 : k2 = k
    · simp only [erase, h2, if_true]; exact nodupKeys_erase k ts h.2
    · simp only [erase, h2, if_false]
      rw [nodupKeys_members_cons, lookup_erase_ne (Ne.symm h2)]
      exact ⟨h.1, nodupKeys_erase k ts h.2⟩

theorem nodupKeys_set (k : Bytes) (v : Value) : ∀ ts : Members,
    nodupKeys (ts.map Prod.fst) = true → nodupKeys ((set k v ts).map Prod.fst) = true
  | [], _ => by simp [set, nodupKeys]
  | (k2, v2) :: ts, h => by
    rw [nodupKeys_members_cons] at h
    by_cases h2 : k2 = k
    · subst h2
      simp only [set, if_true]
      rw [nodupKeys_members_cons]; exact h
    · simp only [set, h2, if_false]
      rw [nodupKeys_members_cons, lookup_set_ne (Ne.symm h2)]
      exact ⟨h.1, nodupKeys_set k v ts h.2⟩

/-! ### `noDupM` as a statement on members -/

theorem noDupM_iff : ∀ ms : Members, noDupM ms = true ↔ ∀ k v, (k, v) ∈ ms → noDup v = true
  | [] => by simp [noDupM]
  | (k', v') :: ms => by
    simp only [noDupM, Bool.and_eq_true, noDupM_iff ms, List.mem_cons]
    constructor
    · rintro ⟨h1, h2⟩ k v (h | h)
      · cases h; exact h1
      · exact h2 k v h
    · intro h
      exact ⟨h k' v' (Or.inl rfl), fun k v hm => h k v (Or.inr hm)⟩

theorem noDupL_iff : ∀ xs : List Value, noDupL xs = true ↔ ∀ x, x ∈ xs → noDup x = true
  | [] => by simp [noDupL]
  | y :: ys => by
    simp only [noDupL, Bool.and_eq_true, noDupL_iff ys, List.mem_cons]
    constructor
    · rintro ⟨h1, h2⟩ x (h | h)
      · subst h; exact h1
      · exact h2 x h
    · intro h
      exact ⟨h y (Or.inl rfl), fun x hm => h x (Or.inr hm)⟩

theorem noDup_obj (ms : Members) :
    noDup (.obj ms) = true ↔ nodupKeys (ms.map Prod.fst) = true ∧ noDupM ms = true := by
  simp [noDup]

theorem noDup_arr (xs : List Value) : noDup (.arr xs) = noDupL xs := by simp [noDup]

theorem noDup_of_lookup {ms : Members} (h : noDupM ms = true) {k : Bytes} {v : Value}
    (hl : lookup k ms = some v) : noDup v = true :=
  (noDupM_iff ms).1 h k v (mem_of_lookup hl)

theorem noDupM_erase (k : Bytes) : ∀ ts : Members, noDupM ts = true → noDupM (erase k ts) = true
  | [], _ => rfl
  | (k2, v2) :: ts, h => by
    simp only [noDupM, Bool.and_eq_true] at h
    by_cases h2 : k2 = k
    · simp only [erase, h2, if_true]; exact noDupM_erase k ts h.2
    · simp only [erase, h2, if_false, noDupM, Bool.and_eq_true]
      exact ⟨h.1, noDupM_erase k ts h.2⟩

theorem noDupM_set (k : Bytes) (v : Value) (hv : noDup v = true) :
    ∀ ts : Members, noDupM ts = true → noDupM (set k v ts) = true
  | [], _ => by simp [set, noDupM, hv]
  | (k2, v2) :: ts, h => by
    simp only [noDupM, Bool.and_eq_true] at h
    by_cases h2 : k2 = k
    · simp only [set, h2, if_true, noDupM, Bool.and_eq_true]; exact ⟨hv, h.2⟩
    · simp only [set, h2, if_false, noDupM, Bool.and_eq_true]
      exact ⟨h.1, noDupM_set k v hv ts h.2⟩

theorem noDupM_append (xs ys : Members) :
    noDupM (xs ++ ys) = true ↔ noDupM xs = true ∧ noDupM ys = true := by
  simp only [noDupM_iff, List.mem_append]
  constructor
  · intro h; exact ⟨fun k v hm => h k v (Or.inl hm), fun k v hm => h k v (Or.inr hm)⟩
  · rintro ⟨h1, h2⟩ k v (hm | hm)
    · exact h1 k v hm
    · exact h2 k v hm

/-! ### the lookup view of object equivalence -/

/-- equivalence of optional members -/
def optEqv : Option Value → Option Value → Bool
  | some a, some b => eqv a b
  | none, none => true
  | _, _ => false

@[simp] theorem optEqv_some_some (a b : Value) : optEqv (some a) (some b) = eqv a b := rfl
@[simp] theorem optEqv_none_none : optEqv none none = true := rfl
@[simp] theorem optEqv_some_none (a : Value) : optEqv (some a) none = false := rfl
@[simp] theorem optEqv_none_some (b : Value) : optEqv none (some b) = false := rfl

theorem eqv_obj_obj (xs ys : Members) : eqv (.obj xs) (.obj ys) = (eqvM xs ys && subKeys ys xs) := by
  simp only [eqv]

theorem eqv_arr_arr (xs ys : List Value) : eqv (.arr xs) (.arr ys) = eqvL xs ys := by
  simp only [eqv]

theorem eqvM_iff : ∀ xs ys : Members, eqvM xs ys = true ↔
    ∀ k v, (k, v) ∈ xs → ∃ w, lookup k ys = some w ∧ eqv v w = true
  | [], ys => by simp [eqvM]
  | (k', v') :: xs, ys => by
    simp only [eqvM, Bool.and_eq_true, eqvM_iff xs ys, List.mem_cons]
    constructor
    · rintro ⟨h1, h2⟩ k v (h | h)
      · cases h
        cases hl : lookup k' ys with
        | none => rw [hl] at h1; cases h1
        | some w => rw [hl] at h1; exact ⟨w, rfl, h1⟩
      · exact h2 k v h
    · intro h
      refine ⟨?_, fun k v hm => h k v (Or.inr hm)⟩
      obtain ⟨w, hw, he⟩ := h k' v' (Or.inl rfl)
      rw [hw]; exact he

theorem subKeys_iff (ys xs : Members) : subKeys ys xs = true ↔
    ∀ k, (lookup k ys).isSome = true → (lookup k xs).isSome = true := by
  simp only [subKeys, List.all_eq_true]
  constructor
  · intro h k hk
    obtain ⟨m, hm, rfl⟩ := List.mem_map.1 (lookup_isSome_iff.1 hk)
    exact h m hm
  · intro h m hm
    exact h m.1 (lookup_isSome_of_mem (v := m.2) hm)

/-- left to right needs no hypothesis -/
theorem optEqv_of_eqv_obj {xs ys : Members} (h : eqv (.obj xs) (.obj ys) = true) (k : Bytes) :
    optEqv (lookup k xs) (lookup k ys) = true := by
  rw [eqv_obj_obj, Bool.and_eq_true, eqvM_iff, subKeys_iff] at h
  cases hx : lookup k xs with
  | none =>
    cases hy : lookup k ys with
    | none => rfl
    | some w => have := h.2 k (by simp [hy]); simp [hx] at this
  | some v =>
    obtain ⟨w, hw, he⟩ := h.1 k v (mem_of_lookup hx)
    rw [hw]; exact he

/-- the lookup view of object equivalence (names of the left object duplicate-free) -/
theorem eqv_obj_iff {xs ys : Members} (hnd : nodupKeys (xs.map Prod.fst) = true) :
    eqv (.obj xs) (.obj ys) = true ↔ ∀ k, optEqv (lookup k xs) (lookup k ys) = true := by
  refine ⟨optEqv_of_eqv_obj, fun h => ?_⟩
  rw [eqv_obj_obj, Bool.and_eq_true, eqvM_iff, subKeys_iff]
  constructor
  · intro k v hm
    have hk := h k
    rw [lookup_of_mem hnd hm] at hk
    cases hy : lookup k ys with
    | none => rw [hy] at hk; cases hk
    | some w => rw [hy] at hk; exact ⟨w, rfl, hk⟩
  · intro k hk
    have hk' := h k
    cases hx : lookup k xs with
    | some _ => rfl
    | none =>
      rw [hx] at hk'
      cases hy : lookup k ys with
      | none => rw [hy] at hk; cases hk
      | some w => rw [hy] at hk'; cases hk'

/-! ### pointwise view of array equivalence -/

theorem eqvL_nil_left (ys : List Value) : eqvL [] ys = true ↔ ys = [] := by
  cases ys <;> simp [eqvL]

theorem eqvL_cons_cons (x y : Value) (xs ys : List Value) :
    eqvL (x :: xs) (y :: ys) = (eqv x y && eqvL xs ys) := by simp only [eqvL]

theorem eqvL_cons_nil (x : Value) (xs : List Value) : eqvL (x :: xs) [] = false := by simp only [eqvL]

/-! ### kinds -/

theorem eqv_null_left (v : Value) : eqv .null v = true ↔ v = .null := by
  cases v <;> simp [eqv]

theorem eqv_null_right (v : Value) : eqv v .null = true ↔ v = .null := by
  cases v <;> simp [eqv]

theorem eqv_obj_left {xs : Members} {b : Value} (h : eqv (.obj xs) b = true) : ∃ ys, b = .obj ys := by
  cases b <;> simp [eqv] at h
  exact ⟨_, rfl⟩

theorem eqv_obj_right {a : Value} {ys : Members} (h : eqv a (.obj ys) = true) : ∃ xs, a = .obj xs := by
  cases a <;> simp [eqv] at h
  exact ⟨_, rfl⟩

theorem eqv_isObj {a b : Value} (h : eqv a b = true) : a.isObj = b.isObj := by
  cases a <;> cases b <;> simp [eqv] at h <;> rfl

end Value
end JP
