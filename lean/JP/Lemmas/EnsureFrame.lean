import JP.Lemmas.EnsureSpec

/-!
# EnsurePathExistsOnAdd, part 8: the frame law of `Spec.ensureAdd`, through arrays as well

`C05.frame_object_paths` covers locations reached through objects.  `ensureAdd` never moves an
array element on the way to the parent (it replaces one element, or appends after padding), so
here the location `q` may also pass through arrays, by non-negative canonical indices.  Only the
last step of an `add` inserts: there `q` must address an element before the insertion point.
-/

namespace JP
namespace Ens

open Impl
open Spec (Res)

/-- the location `q` leaves the path `p` of the add inside the document `d`: at an object by
another member name; at an array by another index, and where `p` ends in that array (the add
inserts there and shifts the later elements) by an index before the insertion point -/
def offPath (neg : Bool) : Value → List Bytes → List Bytes → Prop
  | _, [], _ => False
  | d, a :: p', q =>
    match q with
    | [] => False
    | b :: q' =>
      match d with
      | .obj ms =>
        if a = b then
          (match Value.lookup a ms with
           | some ch => offPath neg ch p' q'
           | none => False)
        else True
      | .arr xs =>
        (match Spec.classify b with
         | .int k =>
           if k < 0 then False
           else
             match p' with
             | [] =>
               (match Spec.slotIdx neg xs.length a with
                | .at i => k.toNat < i
                | _ => False)
             | _ :: _ =>
               (match Spec.classify a with
                | .int i =>
                  if i = k then
                    (match xs[k.toNat]? with
                     | some ch => offPath neg ch p' q'
                     | none => False)
                  else True
                | _ => False)
         | _ => False)
      | _ => False

theorem ensureAdd_obj_shape {o : Spec.Opts} {v : Value} {ms : Value.Members} {a a2 : Bytes} {p : List Bytes}
    {d' : Value} (h : Spec.ensureAdd o v (.obj ms) (a :: a2 :: p) = .ok d') :
    ∃ x, d' = .obj (Value.set a x ms) := by
  rw [ensureAdd_obj_cons] at h
  cases hl : Value.lookup a ms with
  | some ch =>
    rw [hl] at h
    simp only at h
    split at h
    · obtain ⟨c2, _, h2⟩ := Spec.Res.bind_eq_ok.1 h
      cases h2
      exact ⟨c2, rfl⟩
    · cases h
  | none =>
    rw [hl] at h
    simp only at h
    obtain ⟨fresh, _, h1⟩ := Spec.Res.bind_eq_ok.1 h
    obtain ⟨inner, _, h3⟩ := Spec.Res.bind_eq_ok.1 h1
    cases h3
    exact ⟨inner, by rw [set_of_lookup_none _ _ _ hl]⟩

theorem ensureAdd_arr_shape {o : Spec.Opts} {v : Value} {xs : List Value} {a a2 : Bytes} {p : List Bytes}
    {d' : Value} {i : Int} (h : Spec.ensureAdd o v (.arr xs) (a :: a2 :: p) = .ok d')
    (hcl : Spec.classify a = .int i) :
    ¬ i < 0 ∧
    ∃ ys, d' = .arr ys ∧ xs.length ≤ ys.length ∧ ∀ j, j ≠ i.toNat → j < xs.length → ys[j]? = xs[j]? := by
  rw [ensureAdd_arr_cons, hcl] at h
  simp only at h
  split at h
  · cases h
  · next hneg =>
    refine ⟨hneg, ?_⟩
    split at h
    · cases h
    · cases hx : xs[i.toNat]? with
      | some ch =>
        rw [hx] at h
        simp only at h
        split at h
        · obtain ⟨c2, _, h2⟩ := Spec.Res.bind_eq_ok.1 h
          cases h2
          exact ⟨_, rfl, by rw [setAt_length]; exact Nat.le_refl _,
            fun j hj _ => Spec.getElem?_setAt_ne c2 xs (Ne.symm hj)⟩
        · cases h
      | none =>
        rw [hx] at h
        simp only at h
        obtain ⟨fresh, _, h1⟩ := Spec.Res.bind_eq_ok.1 h
        obtain ⟨inner, _, h3⟩ := Spec.Res.bind_eq_ok.1 h1
        cases h3
        refine ⟨_, rfl, by simp only [List.length_append]; omega, fun j _ hj => ?_⟩
        rw [List.append_assoc, List.getElem?_append_left hj]

theorem child_int {neg : Bool} {xs : List Value} {b : Bytes} {k : Int} (hcl : Spec.classify b = .int k)
    (h0 : ¬ k < 0) : Spec.child neg (.arr xs) b = if k.toNat < xs.length then xs[k.toNat]? else none := by
  by_cases h : k.toNat < xs.length <;> simp [Spec.child, Spec.readIdx_of_int hcl h0, h]

/-- **frame** — every location that existed before and is not on the path keeps its value -/
theorem frame_ensure (o : Spec.Opts) (v : Value) : ∀ (p q : List Bytes) (d d' w : Value),
    Spec.ensureAdd o v d p = .ok d' → offPath o.neg d p q → Spec.resolve o.neg d q = some w →
    Spec.resolve o.neg d' q = some w
  | [], q, d, d', w, h, _, _ => by rw [ensureAdd_nil] at h; cases h
  | a :: p', [], d, d', w, _, hoff, _ => by simp [offPath] at hoff
  | [a], b :: q', d, d', w, h, hoff, hres => by
    rw [ensureAdd_single] at h
    obtain ⟨⟨d1, u⟩, ha, h2⟩ := Spec.Res.bind_eq_ok.1 h
    cases h2
    rw [Spec.resolve_cons] at hres ⊢
    cases d with
    | obj ms =>
      simp only [Spec.addIn, Res.ok.injEq, Prod.mk.injEq] at ha
      obtain ⟨rfl, _⟩ := ha
      rw [offPath] at hoff
      by_cases hab : a = b
      · rw [if_pos hab] at hoff
        cases hl : Value.lookup a ms with
        | none => rw [hl] at hoff; exact absurd hoff (by simp)
        | some ch => rw [hl] at hoff; simp [offPath] at hoff
      · rw [Spec.child_obj] at hres ⊢
        rw [Impl.lookup_set_ne b a v ms (Ne.symm hab)]
        exact hres
    | arr xs =>
      obtain ⟨i, hs, rfl⟩ := Spec.addIn_arr_ok ha
      have hi := Spec.slotIdx_le hs
      rw [offPath] at hoff
      cases hcl : Spec.classify b with
      | int k =>
        rw [hcl] at hoff
        simp only at hoff
        by_cases h0 : k < 0
        · rw [if_pos h0] at hoff; exact absurd hoff (by simp)
        · rw [if_neg h0, hs] at hoff
          simp only at hoff
          rw [child_int hcl h0] at hres ⊢
          rw [insertAt_length, if_pos (by omega), Spec.getElem?_insertAt_lt v i xs k.toNat hoff hi]
          rw [if_pos (by omega)] at hres
          exact hres
      | noncanon => rw [hcl] at hoff; exact absurd hoff (by simp)
      | dash => rw [hcl] at hoff; exact absurd hoff (by simp)
      | name => rw [hcl] at hoff; exact absurd hoff (by simp)
    | null => simp [Spec.addIn] at ha
    | bool _ => simp [Spec.addIn] at ha
    | num _ => simp [Spec.addIn] at ha
    | str _ => simp [Spec.addIn] at ha
  | a :: a2 :: p'', b :: q', d, d', w, h, hoff, hres => by
    rw [Spec.resolve_cons] at hres ⊢
    cases d with
    | obj ms =>
      rw [offPath] at hoff
      rw [Spec.child_obj] at hres
      by_cases hab : a = b
      · subst hab
        rw [if_pos rfl] at hoff
        cases hl : Value.lookup a ms with
        | none => rw [hl] at hoff; exact absurd hoff (by simp)
        | some ch =>
          rw [hl] at hoff hres
          simp only [Option.bind_some] at hoff hres
          rw [ensureAdd_obj_cons, hl] at h
          simp only at h
          split at h
          · obtain ⟨c2, hrec, h2⟩ := Spec.Res.bind_eq_ok.1 h
            cases h2
            rw [Spec.child_obj, Impl.lookup_set_self, Option.bind_some]
            exact frame_ensure o v (a2 :: p'') q' ch c2 w hrec hoff hres
          · cases h
      · obtain ⟨x, rfl⟩ := ensureAdd_obj_shape h
        rw [Spec.child_obj, Impl.lookup_set_ne b a x ms (Ne.symm hab)]
        exact hres
    | arr xs =>
      rw [offPath] at hoff
      cases hclb : Spec.classify b with
      | int k =>
        rw [hclb] at hoff
        simp only at hoff
        by_cases h0 : k < 0
        · rw [if_pos h0] at hoff; exact absurd hoff (by simp)
        · rw [if_neg h0] at hoff
          cases hcla : Spec.classify a with
          | int i =>
            rw [hcla] at hoff
            simp only at hoff
            rw [child_int hclb h0] at hres
            by_cases hlt : k.toNat < xs.length
            · rw [if_pos hlt] at hres
              by_cases hik : i = k
              · subst hik
                rw [if_pos rfl] at hoff
                cases hx : xs[i.toNat]? with
                | none => rw [hx] at hoff; exact absurd hoff (by simp)
                | some ch =>
                  rw [hx] at hoff hres
                  simp only [Option.bind_some] at hoff hres
                  rw [ensureAdd_arr_cons, hcla] at h
                  simp only [h0, if_false, hx] at h
                  split at h
                  · cases h
                  · split at h
                    · obtain ⟨c2, hrec, h2⟩ := Spec.Res.bind_eq_ok.1 h
                      cases h2
                      rw [child_int hclb h0, setAt_length, if_pos hlt, setAt_getElem? _ _ _ hlt,
                        Option.bind_some]
                      exact frame_ensure o v (a2 :: p'') q' ch c2 w hrec hoff hres
                    · cases h
              · obtain ⟨hi0, ys, rfl, hlen, hsame⟩ := ensureAdd_arr_shape h hcla
                rw [child_int hclb h0, if_pos (by omega), hsame k.toNat (by omega) hlt]
                exact hres
            · rw [if_neg hlt] at hres; cases hres
          | noncanon => rw [hcla] at hoff; exact absurd hoff (by simp)
          | dash => rw [hcla] at hoff; exact absurd hoff (by simp)
          | name => rw [hcla] at hoff; exact absurd hoff (by simp)
      | noncanon => rw [hclb] at hoff; exact absurd hoff (by simp)
      | dash => rw [hclb] at hoff; exact absurd hoff (by simp)
      | name => rw [hclb] at hoff; exact absurd hoff (by simp)
    | null => simp [Spec.ensureAdd] at h
    | bool _ => simp [Spec.ensureAdd] at h
    | num _ => simp [Spec.ensureAdd] at h
    | str _ => simp [Spec.ensureAdd] at h

end Ens
end JP
