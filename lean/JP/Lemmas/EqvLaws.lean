import JP.Lemmas.EqvBasic

/-!
# `eqv` is an equivalence relation on duplicate-free values; `beq` is equality
-/

namespace JP
namespace Value

/-! ### reflexivity -/

theorem eqvL_refl_of : ∀ xs : List Value, (∀ x, x ∈ xs → eqv x x = true) → eqvL xs xs = true
  | [], _ => by simp [eqvL]
  | x :: xs, h => by
    rw [eqvL_cons_cons, Bool.and_eq_true]
    exact ⟨h x List.mem_cons_self, eqvL_refl_of xs fun y hy => h y (List.mem_cons_of_mem _ hy)⟩

theorem eqv_refl : ∀ v : Value, noDup v = true → eqv v v = true := by
  apply ind
  · intro _; simp [eqv]
  · intro b _; simp [eqv]
  · intro l _; simp [eqv]
  · intro s _; simp [eqv]
  · intro xs ih h
    rw [noDup_arr, noDupL_iff] at h
    rw [eqv_arr_arr]
    exact eqvL_refl_of xs fun x hx => ih x hx (h x hx)
  · intro ms ih h
    rw [noDup_obj] at h
    rw [eqv_obj_iff h.1]
    intro k
    cases hl : lookup k ms with
    | none => rfl
    | some v => exact ih k v (mem_of_lookup hl) (noDup_of_lookup h.2 hl)

/-! ### symmetry -/

theorem eqvL_symm_of : ∀ xs ys : List Value,
    (∀ x, x ∈ xs → ∀ y, y ∈ ys → eqv x y = true → eqv y x = true) →
    eqvL xs ys = true → eqvL ys xs = true
  | [], ys, _, h => by rw [(eqvL_nil_left ys).1 h]; simp [eqvL]
  | x :: xs, [], _, h => by simp [eqvL] at h
  | x :: xs, y :: ys, ih, h => by
    rw [eqvL_cons_cons, Bool.and_eq_true] at h ⊢
    exact ⟨ih x List.mem_cons_self y List.mem_cons_self h.1,
      eqvL_symm_of xs ys (fun x' hx y' hy => ih x' (List.mem_cons_of_mem _ hx) y' (List.mem_cons_of_mem _ hy)) h.2⟩

theorem eqv_symm_imp : ∀ a : Value, ∀ b : Value, noDup a = true → noDup b = true →
    eqv a b = true → eqv b a = true := by
  apply ind
  · intro b _ _ h; rw [(eqv_null_left b).1 h]; rfl
  · intro x b _ _ h; cases b <;> simp [eqv] at h ⊢; exact h.symm
  · intro x b _ _ h; cases b <;> simp [eqv] at h ⊢; exact h.symm
  · intro x b _ _ h; cases b <;> simp [eqv] at h ⊢; exact h.symm
  · intro xs ih b ha hb h
    cases b with
    | arr ys =>
      rw [eqv_arr_arr] at h ⊢
      rw [noDup_arr, noDupL_iff] at ha hb
      exact eqvL_symm_of xs ys (fun x hx y hy => ih x hx y (ha x hx) (hb y hy)) h
    | _ => simp [eqv] at h
  · intro xs ih b ha hb h
    obtain ⟨ys, rfl⟩ := eqv_obj_left h
    rw [noDup_obj] at ha hb
    rw [eqv_obj_iff hb.1]
    intro k
    have hk := optEqv_of_eqv_obj h k
    cases hx : lookup k xs with
    | none =>
      rw [hx] at hk
      cases hy : lookup k ys with
      | none => rfl
      | some w => rw [hy] at hk; cases hk
    | some v =>
      rw [hx] at hk
      cases hy : lookup k ys with
      | none => rw [hy] at hk; cases hk
      | some w =>
        rw [hy] at hk
        exact ih k v (mem_of_lookup hx) w (noDup_of_lookup ha.2 hx) (noDup_of_lookup hb.2 hy) hk

theorem eqv_symm (a b : Value) (ha : noDup a = true) (hb : noDup b = true) : eqv a b = eqv b a := by
  cases h1 : eqv a b with
  | true => exact (eqv_symm_imp a b ha hb h1).symm
  | false =>
    cases h2 : eqv b a with
    | false => rfl
    | true => rw [eqv_symm_imp b a hb ha h2] at h1; cases h1

/-! ### transitivity (no hypothesis on duplicates is needed) -/

theorem eqvL_trans_of : ∀ xs ys zs : List Value,
    (∀ x, x ∈ xs → ∀ y z, eqv x y = true → eqv y z = true → eqv x z = true) →
    eqvL xs ys = true → eqvL ys zs = true → eqvL xs zs = true
  | [], ys, zs, _, h1, h2 => by
    rw [(eqvL_nil_left ys).1 h1] at h2; exact h2
  | x :: xs, [], _, _, h1, _ => by simp [eqvL] at h1
  | x :: xs, y :: ys, [], _, _, h2 => by simp [eqvL] at h2
  | x :: xs, y :: ys, z :: zs, ih, h1, h2 => by
    rw [eqvL_cons_cons, Bool.and_eq_true] at h1 h2 ⊢
    exact ⟨ih x List.mem_cons_self y z h1.1 h2.1,
      eqvL_trans_of xs ys zs (fun x' hx => ih x' (List.mem_cons_of_mem _ hx)) h1.2 h2.2⟩

theorem eqv_trans : ∀ a : Value, ∀ b c : Value, eqv a b = true → eqv b c = true → eqv a c = true := by
  apply ind
  · intro b c h1 h2; rw [(eqv_null_left b).1 h1] at h2; exact h2
  · intro x b c h1 h2; cases b <;> simp [eqv] at h1; subst h1; exact h2
  · intro x b c h1 h2; cases b <;> simp [eqv] at h1; subst h1; exact h2
  · intro x b c h1 h2; cases b <;> simp [eqv] at h1; subst h1; exact h2
  · intro xs ih b c h1 h2
    cases b with
    | arr ys =>
      cases c with
      | arr zs =>
        rw [eqv_arr_arr] at h1 h2 ⊢
        exact eqvL_trans_of xs ys zs ih h1 h2
      | _ => simp [eqv] at h2
    | _ => simp [eqv] at h1
  · intro xs ih b c h1 h2
    obtain ⟨ys, rfl⟩ := eqv_obj_left h1
    obtain ⟨zs, rfl⟩ := eqv_obj_left h2
    rw [eqv_obj_obj, Bool.and_eq_true, eqvM_iff, subKeys_iff] at h1 h2 ⊢
    constructor
    · intro k v hm
      obtain ⟨w, hw, hvw⟩ := h1.1 k v hm
      obtain ⟨u, hu, hwu⟩ := h2.1 k w (mem_of_lookup hw)
      exact ⟨u, hu, ih k v hm w u hvw hwu⟩
    · intro k hk
      exact h1.2 k (h2.2 k hk)

/-! ### exact equality -/

theorem beqL_eq_of : ∀ xs ys : List Value,
    (∀ x, x ∈ xs → ∀ y, beq x y = true → x = y) → beqL xs ys = true → xs = ys
  | [], ys, _, h => by cases ys <;> simp [beqL] at h ⊢
  | x :: xs, [], _, h => by simp [beqL] at h
  | x :: xs, y :: ys, ih, h => by
    simp only [beqL, Bool.and_eq_true] at h
    rw [ih x List.mem_cons_self y h.1,
      beqL_eq_of xs ys (fun x' hx => ih x' (List.mem_cons_of_mem _ hx)) h.2]

theorem beqM_eq_of : ∀ xs ys : Members,
    (∀ k v, (k, v) ∈ xs → ∀ y, beq v y = true → v = y) → beqM xs ys = true → xs = ys
  | [], ys, _, h => by cases ys <;> simp [beqM] at h ⊢
  | (k, v) :: xs, [], _, h => by simp [beqM] at h
  | (k, v) :: xs, (k', w) :: ys, ih, h => by
    simp only [beqM, Bool.and_eq_true, beq_iff_eq] at h
    rw [h.1.1, ih k v List.mem_cons_self w h.1.2,
      beqM_eq_of xs ys (fun k' x' hx => ih k' x' (List.mem_cons_of_mem _ hx)) h.2]

theorem eq_of_beq : ∀ a : Value, ∀ b : Value, beq a b = true → a = b := by
  apply ind
  · intro b h; cases b <;> simp [beq] at h ⊢
  · intro x b h; cases b <;> simp [beq] at h ⊢; exact h
  · intro x b h; cases b <;> simp [beq] at h ⊢; exact h
  · intro x b h; cases b <;> simp [beq] at h ⊢; exact h
  · intro xs ih b h
    cases b with
    | arr ys => simp only [beq] at h; rw [beqL_eq_of xs ys ih h]
    | _ => simp [beq] at h
  · intro xs ih b h
    cases b with
    | obj ys => simp only [beq] at h; rw [beqM_eq_of xs ys ih h]
    | _ => simp [beq] at h

end Value
end JP
