import JP.Lemmas.WorldIndep

/-!
# Each exported API, as a program over the pools, returns its pure result
-/

namespace JP
namespace World

open Impl

theorem partialDocUnmarshal_release_inv (d : DecState) (data : Bytes) (hd : d.Inv) :
    (partialDocUnmarshal d data).2.Inv := by
  have := unmarshalValidWithKeys_release_inv d data hd
  unfold partialDocUnmarshal
  cases hk : unmarshalValidWithKeys d data with
  | mk r2 rest =>
    cases rest with
    | mk keys d' =>
      rw [hk] at this
      cases r2 with
      | ok c2 fl => cases c2 <;> exact this
      | _ => exact this

theorem rootUnmarshalP_sat (doc : Bytes) (c : Cst) (hp : parseCst doc = some c) :
    Sat (rootUnmarshalP doc c) (fun r => mapOutcome WRoot.toNode r = decodeRoot c) := by
  unfold rootUnmarshalP
  cases c with
  | arr xs =>
    simp only [Cst.isArr, if_true]
    refine (aryUnmarshalP_sat doc xs hp).bind fun r hr => ?_
    subst hr
    exact .ret rfl
  | obj ms =>
    simp only [Cst.isArr, Bool.false_eq_true, if_false]
    refine (docUnmarshalP_sat doc _ hp).bind fun r hr => ?_
    obtain ⟨stale, hr⟩ := hr
    subst hr
    refine .ret ?_
    rw [← pdocPure_toNode stale doc _ hp rfl]
    cases pdocPure stale doc <;> rfl
  | lit s =>
    simp only [Cst.isArr, Bool.false_eq_true, if_false]
    refine (docUnmarshalP_sat doc _ hp).bind fun r hr => ?_
    obtain ⟨stale, hr⟩ := hr
    subst hr
    refine .ret ?_
    rw [← pdocPure_toNode stale doc _ hp rfl]
    cases pdocPure stale doc <;> rfl
  | str b =>
    simp only [Cst.isArr, Bool.false_eq_true, if_false]
    refine (docUnmarshalP_sat doc _ hp).bind fun r hr => ?_
    obtain ⟨stale, hr⟩ := hr
    subst hr
    refine .ret ?_
    rw [← pdocPure_toNode stale doc _ hp rfl]
    cases pdocPure stale doc <;> rfl

theorem applyP_sat (h : Havoc) (o : Opts) (indent doc : Bytes) (ops : List Op) :
    Sat (applyP h o indent doc ops) (· = applyBytes o indent doc ops) := by
  unfold applyP applyBytes
  by_cases hd : doc = []
  · simp only [hd, if_true]
    exact .ret rfl
  · simp only [hd, if_false]
    refine (validP_sat doc).bind fun v hv => ?_
    subst hv
    by_cases hv : Scanner.valid doc = true
    · simp only [hv, Bool.not_true, Bool.false_eq_true, if_false]
      cases hp : parseCst doc with
      | none => exact .ret rfl
      | some c =>
        simp only
        refine (rootUnmarshalP_sat doc c hp).bind fun r hr => ?_
        rw [← hr]
        cases r with
        | panic => exact .ret rfl
        | err e => exact .ret rfl
        | ok root =>
          simp only [mapOutcome]
          refine (innerP_sat h.inner).bind fun _ _ => ?_
          cases applyOps o { con := root.toNode, self := .raw c, selfCR := c.isArr && !goIsArray doc } 0 ops with
          | panic => exact .ret rfl
          | err e => exact .ret rfl
          | ok r' =>
            simp only
            refine (marshalP_sat h.enc (marshalRoot o.esc r')).bind fun m hm => ?_
            subst hm
            cases marshalRoot o.esc r' with
            | panic => exact .ret rfl
            | err e => exact .ret rfl
            | ok data =>
              simp only
              by_cases hi : indent = []
              · simp only [hi, if_true]
                exact .ret rfl
              · simp only [hi, if_false]
                refine (indentP_sat indent data).bind fun x hx => ?_
                subst hx
                exact .ret rfl
    · simp only [hv, Bool.not_false, if_true]
      exact .ret rfl

theorem decodeOps_none_of_not_all (xs : List Cst) (h : xs.all isObjOrNull = false) : decodeOps xs = none := by
  induction xs with
  | nil => simp at h
  | cons c cs ih =>
    cases c with
    | obj ms =>
      have : cs.all isObjOrNull = false := by
        simpa [isObjOrNull, Cst.isObj] using h
      simp only [decodeOps, ih this]
      cases decodeOp ms <;> rfl
    | lit s => rfl
    | str b => rfl
    | arr ys => rfl

theorem decodePatchP_sat (h : Havoc) (bs : Bytes) :
    Sat (decodePatchP h bs) (· = decodePatch bs) := by
  unfold decodePatchP decodePatch
  refine (validP_sat bs).bind fun v hv => ?_
  subst hv
  by_cases hv : Scanner.valid bs = true
  · simp only [hv, Bool.not_true, Bool.false_eq_true, if_false]
    refine (unmarshalValidP_sat bs .patch).bind fun r hr => ?_
    subst hr
    unfold decodePure
    cases hp : parseCst bs with
    | none => exact .ret rfl
    | some c =>
      cases c with
      | arr xs =>
        by_cases ha : xs.all isObjOrNull = true
        · simp only [Target.accepts, ha, Bool.not_true, Bool.false_eq_true, if_false]
          exact (innerP_sat h.inner).bind fun _ _ => .ret rfl
        · have ha' : xs.all isObjOrNull = false := by simpa using ha
          simp only [Target.accepts, ha', Bool.not_false, if_true]
          refine .ret ?_
          simp [decodeOps_none_of_not_all xs ha']
      | obj ms =>
        simp only [Target.accepts, Cst.isNullLit, Bool.not_false, if_true]
        exact .ret rfl
      | str b =>
        simp only [Target.accepts, Cst.isNullLit, Bool.not_false, if_true]
        exact .ret rfl
      | lit s =>
        by_cases hn : (Cst.lit s).isNullLit = true
        · simp only [Target.accepts, hn, Bool.not_true, Bool.false_eq_true, if_false, if_true]
          exact .ret rfl
        · have hn' : (Cst.lit s).isNullLit = false := by simpa using hn
          simp only [Target.accepts, hn', Bool.not_false, if_true, Bool.false_eq_true, if_false]
          exact .ret rfl
  · simp only [hv, Bool.not_false, if_true]
    exact .ret rfl

theorem equalP_sat (h : Havoc) (a b : Bytes) : Sat (equalP h a b) (· = equal a b) := by
  unfold equalP equal
  refine (validP_sat a).bind fun va hva => ?_
  subst hva
  by_cases ha : Scanner.valid a = true
  · simp only [ha, Bool.not_true, Bool.false_eq_true, if_false, Bool.false_or]
    refine (validP_sat b).bind fun vb hvb => ?_
    subst hvb
    by_cases hb : Scanner.valid b = true
    · simp only [hb, Bool.not_true, Bool.false_eq_true, if_false]
      exact (innerP_sat h.inner).bind fun _ _ => .ret rfl
    · simp only [hb, Bool.not_false, if_true]
      exact .ret rfl
  · simp only [ha, Bool.not_false, if_true, Bool.true_or]
    exact .ret rfl

theorem mergeEarly_sound (mm : Bool) (docData patchData : Bytes) (s1 s2 : List Bytes)
    (hd : Scanner.valid docData = true) (hp : Scanner.valid patchData = true) (r : Outcome Bytes)
    (he : mergeEarly patchData (pdocPure s1 docData) (pdocPure s2 patchData) = some r) :
    r = doMergePatch mm docData patchData := by
  unfold doMergePatch
  simp only [hd, hp, Bool.not_true, Bool.false_eq_true, if_false]
  unfold pdocPure at he
  cases hpd : parseCst docData with
  | none => simp [hpd, mergeEarly] at he
  | some dc =>
    cases hpp : parseCst patchData with
    | none =>
      rw [hpd, hpp] at he
      cases dc with
      | obj ms => simp [mergeEarly] at he
      | lit s =>
        by_cases hn : (Cst.lit s).isNullLit = true
        · simp [mergeEarly, hn] at he; exact he.symm
        · simp [mergeEarly, hn] at he
      | str b => simp [mergeEarly, Cst.isNullLit] at he
      | arr xs => simp [mergeEarly, Cst.isNullLit] at he
    | some pc =>
      rw [hpd, hpp] at he
      simp only
      by_cases hdn : dc.isNullLit = true
      · simp only [hdn, if_true]
        cases dc with
        | lit s =>
          simp only [hdn, if_true] at he
          cases pc with
          | obj pms => simp [mergeEarly, mergeGuard] at he; exact he.symm
          | lit t =>
            by_cases htn : (Cst.lit t).isNullLit = true
            · simp [mergeEarly, mergeGuard, htn] at he; exact he.symm
            · simp [mergeEarly, htn] at he; exact he.symm
          | str b => simp [mergeEarly, Cst.isNullLit] at he; exact he.symm
          | arr xs => simp [mergeEarly, Cst.isNullLit] at he; exact he.symm
        | obj ms => simp [Cst.isNullLit] at hdn
        | str b => simp [Cst.isNullLit] at hdn
        | arr xs => simp [Cst.isNullLit] at hdn
      · have hdn' : dc.isNullLit = false := by simpa using hdn
        simp only [hdn', Bool.false_eq_true, if_false]
        by_cases hpn : pc.isNullLit = true
        · simp only [hpn, if_true]
          cases pc with
          | lit t =>
            simp only [hpn, if_true] at he
            cases dc with
            | obj ms => simp [mergeEarly, mergeGuard] at he; exact he.symm
            | lit s => simp [mergeEarly, hdn'] at he; exact he.symm
            | str b => simp [mergeEarly, Cst.isNullLit] at he; exact he.symm
            | arr xs => simp [mergeEarly, Cst.isNullLit] at he; exact he.symm
          | obj ms => simp [Cst.isNullLit] at hpn
          | str b => simp [Cst.isNullLit] at hpn
          | arr xs => simp [Cst.isNullLit] at hpn
        · have hpn' : pc.isNullLit = false := by simpa using hpn
          exfalso
          cases dc <;> cases pc <;> simp_all [mergeEarly, mergeGuard, Cst.isNullLit]

theorem doMergePatchP_sat (h : Havoc) (mm : Bool) (docData patchData : Bytes) :
    Sat (doMergePatchP h mm docData patchData) (· = doMergePatch mm docData patchData) := by
  unfold doMergePatchP
  refine (validP_sat docData).bind fun vd hvd => ?_
  subst hvd
  by_cases hd : Scanner.valid docData = true
  · simp only [hd, Bool.not_true, Bool.false_eq_true, if_false]
    refine (validP_sat patchData).bind fun vp hvp => ?_
    subst hvp
    by_cases hp : Scanner.valid patchData = true
    · simp only [hp, Bool.not_true, Bool.false_eq_true, if_false]
      refine .getDec fun d1 hd1 => ?_
      refine .putDec (partialDocUnmarshal_release_inv d1 docData hd1) ?_
      refine .getDec fun d2 hd2 => ?_
      refine .putDec (partialDocUnmarshal_release_inv d2 patchData hd2) ?_
      refine (innerP_sat h.inner).bind fun _ _ => ?_
      rw [partialDocUnmarshal_fst, partialDocUnmarshal_fst]
      cases he : mergeEarly patchData (pdocPure d1.lastKeys docData) (pdocPure d2.lastKeys patchData) with
      | some r =>
        exact .ret (mergeEarly_sound mm docData patchData _ _ hd hp r he)
      | none =>
        simp only
        cases parseCst patchData with
        | none => exact .ret rfl
        | some pc =>
          cases pc with
          | obj ms => exact marshalP_sat _ _
          | arr xs => exact marshalP_sat _ _
          | lit s => exact .ret rfl
          | str b => exact .ret rfl
    · simp only [hp, Bool.not_false, if_true]
      refine .ret ?_
      simp [doMergePatch, hd, hp]
  · simp only [hd, Bool.not_false, if_true]
    refine .ret ?_
    simp [doMergePatch, hd]

theorem createMergePatchP_sat (h : Havoc) (a b : Bytes) :
    Sat (createMergePatchP h a b) (· = createMergePatch a b) := by
  unfold createMergePatchP
  refine (validP_sat a).bind fun va hva => ?_
  subst hva
  by_cases ha : Scanner.valid a = true
  · simp only [ha, Bool.not_true, Bool.false_eq_true, if_false]
    refine (validP_sat b).bind fun vb hvb => ?_
    subst hvb
    by_cases hb : Scanner.valid b = true
    · simp only [hb, Bool.not_true, Bool.false_eq_true, if_false]
      refine (unmarshalValidP_sat a .any).bind fun ra hra => ?_
      refine (unmarshalValidP_sat b .any).bind fun rb hrb => ?_
      subst hra hrb
      refine (innerP_sat h.inner).bind fun _ _ => ?_
      unfold decodePure
      cases hpa : parseCst a with
      | none =>
        refine .ret ?_
        simp [createMergePatch, ha, hb, hpa]
      | some ca =>
        cases hpb : parseCst b with
        | none =>
          simp only [Target.accepts, Bool.not_true, Bool.false_eq_true, if_false]
          refine .ret ?_
          simp [createMergePatch, ha, hb, hpa, hpb]
        | some cb =>
          simp only [Target.accepts, Bool.not_true, Bool.false_eq_true, if_false]
          cases createMergePatch a b with
          | ok x => exact marshalP_sat _ _
          | err e => exact .ret rfl
          | panic => exact .ret rfl
    · simp only [hb, Bool.not_false, if_true]
      refine .ret ?_
      simp [createMergePatch, ha, hb]
  · simp only [ha, Bool.not_false, if_true]
    refine .ret ?_
    simp [createMergePatch, ha]

/-- every call, as a program over the pools, returns its pure result -/
theorem Call.prog_sat (c : Call) : Sat c.prog (· = c.pure) := by
  cases c with
  | apply h o indent doc ops =>
    exact (applyP_sat h o indent doc ops).bind fun r hr => .ret (by rw [hr]; rfl)
  | decodePatch h bs => exact (decodePatchP_sat h bs).bind fun r hr => .ret (by rw [hr]; rfl)
  | equal h a b => exact (equalP_sat h a b).bind fun r hr => .ret (by rw [hr]; rfl)
  | mergePatch h d p => exact (doMergePatchP_sat h false d p).bind fun r hr => .ret (by rw [hr]; rfl)
  | mergeMergePatches h a b => exact (doMergePatchP_sat h true a b).bind fun r hr => .ret (by rw [hr]; rfl)
  | createMergePatch h a b => exact (createMergePatchP_sat h a b).bind fun r hr => .ret (by rw [hr]; rfl)

end World
end JP
