import JP.Legacy.Check

/-!
# Legacy package: the value a node denotes, the well-formedness invariant, association lists

`den n` is the JSON value the lazily parsed legacy node `n` stands for.  A parsed object
(`partialDoc`, a bare Go map) has no member order; `den` lists its members in the order of the
model's association list (any order would do: every statement that mentions `den` of a parsed
object is about `Value.eqv`, or is an ordered equality that holds for this particular choice).
What `json.Marshal` prints (`cstOf`) lists them sorted by name.

`WF n`: member names are duplicate-free, hereditarily, also inside raw messages, and no nil map
(`docNil`: what a raw `null` that a walk went through is parsed to) occurs.

This file imports no other lemma file (it is shared by the C18 and the C19 developments, which
build on two lemma families that cannot be imported together); the few facts about `Value`
association lists it needs are proved here under `JP.Legacy` with an `L` suffix.
-/

namespace JP
namespace Legacy

open Value
open Impl (Err Outcome listSet listInsert)

mutual
def den : Node → Value
  | .nil => .null
  | .rawNil => .null
  | .raw c => c.valueOf
  | .doc ob => .obj (denM ob)
  | .docNil => .null
  | .ary ns => .arr (denL ns)
def denM : NMembers → Value.Members
  | [] => []
  | (k, n) :: ms => (k, den n) :: denM ms
def denL : List Node → List Value
  | [] => []
  | n :: ns => den n :: denL ns
end

mutual
def WF : Node → Bool
  | .nil => true
  | .rawNil => true
  | .raw c => c.valueOf.noDup
  | .doc ob => nodupKeys (ob.map Prod.fst) && WFM ob
  | .docNil => false
  | .ary ns => WFL ns
def WFM : NMembers → Bool
  | [] => true
  | (_, n) :: ms => WF n && WFM ms
def WFL : List Node → Bool
  | [] => true
  | n :: ns => WF n && WFL ns
end

/-- the root container of a document inside the properties' domain -/
def WFRoot (r : Node) : Bool :=
  WF r && (match r with | .doc _ => true | .ary _ => true | _ => false)

/-! ### `Value` association lists -/

theorem nodupKeys_iffL : ∀ (ks : List Bytes), nodupKeys ks = true ↔ ks.Nodup
  | [] => by simp [nodupKeys]
  | k :: ks => by
    simp only [nodupKeys, Bool.and_eq_true, Bool.not_eq_true', List.nodup_cons, nodupKeys_iffL ks]
    constructor
    · intro ⟨h1, h2⟩
      refine ⟨?_, h2⟩
      intro hm
      have : ks.contains k = true := by simpa using hm
      rw [this] at h1; cases h1
    · intro ⟨h1, h2⟩
      refine ⟨?_, h2⟩
      cases hc : ks.contains k with
      | false => rfl
      | true => exact absurd (by simpa using hc) h1

theorem lookup_none_iffL (k : Bytes) : ∀ (ms : Members), lookup k ms = none ↔ k ∉ ms.map Prod.fst
  | [] => by simp [lookup]
  | (k', v) :: ms => by
    simp only [lookup, List.map_cons, List.mem_cons, not_or]
    by_cases h : k' = k
    · simp [h]
    · simp only [if_neg h, lookup_none_iffL k ms]
      constructor
      · intro hm; exact ⟨fun e => h e.symm, hm⟩
      · intro hm; exact hm.2

theorem erase_of_not_memL (k : Bytes) : ∀ (ms : Members), k ∉ ms.map Prod.fst → erase k ms = ms
  | [], _ => rfl
  | (k', v) :: ms, h => by
    simp only [List.map_cons, List.mem_cons, not_or] at h
    have hne : ¬ k' = k := fun e => h.1 e.symm
    simp only [erase, if_neg hne, erase_of_not_memL k ms h.2]

theorem set_of_not_memL (k : Bytes) (v : Value) : ∀ (ms : Members), k ∉ ms.map Prod.fst →
    Value.set k v ms = ms ++ [(k, v)]
  | [], _ => rfl
  | (k', v') :: ms, h => by
    simp only [List.map_cons, List.mem_cons, not_or] at h
    have hne : ¬ k' = k := fun e => h.1 e.symm
    simp only [Value.set, if_neg hne, set_of_not_memL k v ms h.2, List.cons_append]

/-! ### `den` / `WF` of the constructors -/

theorem keys_denM : ∀ (ob : NMembers), (denM ob).map Prod.fst = ob.map Prod.fst
  | [] => rfl
  | (k, n) :: ms => by simp only [denM, List.map_cons, keys_denM ms]

theorem WFM_iff (ob : NMembers) : WFM ob = true ↔ ∀ p ∈ ob, WF p.2 = true := by
  induction ob with
  | nil => simp [WFM]
  | cons p ms ih => obtain ⟨k, n⟩ := p; simp [WFM, ih]

theorem WFL_iff (ns : List Node) : WFL ns = true ↔ ∀ n ∈ ns, WF n = true := by
  induction ns with
  | nil => simp [WFL]
  | cons n ns ih => simp [WFL, ih]

theorem WF_doc_iff (ob : NMembers) :
    WF (.doc ob) = true ↔ (ob.map Prod.fst).Nodup ∧ WFM ob = true := by
  simp only [WF, Bool.and_eq_true, nodupKeys_iffL]

theorem WF_ary_iff (ns : List Node) : WF (.ary ns) = true ↔ WFL ns = true := by
  simp only [WF]

theorem denL_length : ∀ (ns : List Node), (denL ns).length = ns.length
  | [] => rfl
  | n :: ns => by simp only [denL, List.length_cons, denL_length ns]

theorem denL_eq_map (ns : List Node) : denL ns = ns.map den := by
  induction ns with
  | nil => rfl
  | cons n ns ih => simp only [denL, List.map_cons, ih]

theorem denM_eq_map (ob : NMembers) : denM ob = ob.map fun p => (p.1, den p.2) := by
  induction ob with
  | nil => rfl
  | cons p ms ih => obtain ⟨k, n⟩ := p; simp only [denM, List.map_cons, ih]

/-! ### lookups -/

theorem lookupN_den (k : Bytes) : ∀ (ob : NMembers), (lookupN k ob).map den = lookup k (denM ob)
  | [] => rfl
  | (k', n) :: ms => by
    simp only [lookupN, denM, lookup]
    by_cases h : k' = k
    · simp [h]
    · simp only [if_neg h]; exact lookupN_den k ms

theorem lookupN_none_iff (k : Bytes) : ∀ (ob : NMembers), lookupN k ob = none ↔ k ∉ ob.map Prod.fst
  | [] => by simp [lookupN]
  | (k', n) :: ms => by
    simp only [lookupN, List.map_cons, List.mem_cons, not_or]
    by_cases h : k' = k
    · simp [h]
    · simp only [if_neg h, lookupN_none_iff k ms]
      constructor
      · intro hm; exact ⟨fun e => h e.symm, hm⟩
      · intro hm; exact hm.2

theorem lookupN_memL {k : Bytes} {ob : NMembers} {n : Node} (h : lookupN k ob = some n) :
    (k, n) ∈ ob := by
  induction ob with
  | nil => simp [lookupN] at h
  | cons p ms ih =>
    obtain ⟨k', n'⟩ := p
    simp only [lookupN] at h
    split at h
    · rename_i hk; cases h; subst hk; exact List.mem_cons_self
    · exact List.mem_cons_of_mem _ (ih h)

theorem WF_of_lookupN {k : Bytes} {n : Node} {ob : NMembers} (hw : WFM ob = true)
    (h : lookupN k ob = some n) : WF n = true :=
  (WFM_iff ob).1 hw _ (lookupN_memL h)

/-! ### `setN` -/

theorem denM_setN (k : Bytes) (n : Node) : ∀ (ob : NMembers), denM (setN k n ob) = Value.set k (den n) (denM ob)
  | [] => rfl
  | (k', n') :: ms => by
    simp only [setN, denM, Value.set]
    by_cases h : k' = k
    · simp only [if_pos h, denM]
    · simp only [if_neg h, denM, denM_setN k n ms]

theorem keys_setN (k : Bytes) (n : Node) : ∀ (ob : NMembers),
    (setN k n ob).map Prod.fst = if k ∈ ob.map Prod.fst then ob.map Prod.fst else ob.map Prod.fst ++ [k]
  | [] => by simp [setN]
  | (k', n') :: ms => by
    simp only [setN, List.map_cons, List.mem_cons]
    by_cases h : k' = k
    · simp [h]
    · have hne : ¬ k = k' := fun e => h e.symm
      simp only [if_neg h, List.map_cons, keys_setN k n ms, hne, false_or]
      split <;> simp

theorem nodup_setN {k : Bytes} {n : Node} {ob : NMembers} (h : (ob.map Prod.fst).Nodup) :
    ((setN k n ob).map Prod.fst).Nodup := by
  rw [keys_setN]
  split
  · exact h
  · rename_i hk
    rw [List.nodup_append]
    refine ⟨h, by simp, ?_⟩
    intro a ha b hb
    simp only [List.mem_singleton] at hb
    subst hb
    intro hab; subst hab; exact hk ha

theorem WFM_setN {k : Bytes} {n : Node} (hn : WF n = true) : ∀ {ob : NMembers}, WFM ob = true →
    WFM (setN k n ob) = true
  | [], _ => by simp [setN, WFM, hn]
  | (k', n') :: ms, h => by
    simp only [WFM, Bool.and_eq_true] at h
    simp only [setN]
    by_cases hk : k' = k
    · simp only [if_pos hk, WFM, Bool.and_eq_true]; exact ⟨hn, h.2⟩
    · simp only [if_neg hk, WFM, Bool.and_eq_true]; exact ⟨h.1, WFM_setN hn h.2⟩

theorem WF_doc_setN {k : Bytes} {n : Node} {ob : NMembers} (h : WF (.doc ob) = true) (hn : WF n = true) :
    WF (.doc (setN k n ob)) = true := by
  rw [WF_doc_iff] at *
  exact ⟨nodup_setN h.1, WFM_setN hn h.2⟩

theorem setN_of_not_mem (k : Bytes) (n : Node) : ∀ (ob : NMembers), k ∉ ob.map Prod.fst →
    setN k n ob = ob ++ [(k, n)]
  | [], _ => rfl
  | (k', n') :: ms, h => by
    simp only [List.map_cons, List.mem_cons, not_or] at h
    have hne : ¬ k' = k := fun e => h.1 e.symm
    simp only [setN, if_neg hne, setN_of_not_mem k n ms h.2, List.cons_append]

/-! ### `eraseN` -/

theorem keys_eraseN (k : Bytes) : ∀ (ob : NMembers), (eraseN k ob).map Prod.fst = (ob.map Prod.fst).erase k
  | [] => rfl
  | (k', n) :: ms => by
    simp only [eraseN, List.map_cons, List.erase_cons, beq_iff_eq]
    by_cases h : k' = k
    · simp [h]
    · simp [h, keys_eraseN k ms]

theorem nodup_eraseN {k : Bytes} {ob : NMembers} (h : (ob.map Prod.fst).Nodup) :
    ((eraseN k ob).map Prod.fst).Nodup := by
  rw [keys_eraseN]; exact h.erase _

theorem WFM_eraseN (k : Bytes) : ∀ {ob : NMembers}, WFM ob = true → WFM (eraseN k ob) = true
  | [], _ => rfl
  | (k', n) :: ms, h => by
    simp only [WFM, Bool.and_eq_true] at h
    simp only [eraseN]
    by_cases hk : k' = k
    · simp only [if_pos hk]; exact h.2
    · simp only [if_neg hk, WFM, Bool.and_eq_true]; exact ⟨h.1, WFM_eraseN k h.2⟩

theorem WF_doc_eraseN {k : Bytes} {ob : NMembers} (h : WF (.doc ob) = true) :
    WF (.doc (eraseN k ob)) = true := by
  rw [WF_doc_iff] at *
  exact ⟨nodup_eraseN h.1, WFM_eraseN k h.2⟩

theorem denM_eraseN (k : Bytes) : ∀ (ob : NMembers), (ob.map Prod.fst).Nodup →
    denM (eraseN k ob) = erase k (denM ob)
  | [], _ => rfl
  | (k', n) :: ms, h => by
    simp only [List.map_cons, List.nodup_cons] at h
    simp only [eraseN, denM, erase]
    by_cases hk : k' = k
    · subst hk
      simp only [if_true]
      rw [erase_of_not_memL]
      rw [keys_denM]; exact h.1
    · simp only [if_neg hk, denM, denM_eraseN k ms h.2]

/-! ### decoding one level -/

theorem isNullLit_valueOf (c : Cst) : c.isNullLit = true ↔ c.valueOf = .null := by
  cases c with
  | lit s =>
    simp only [Cst.isNullLit, Cst.valueOf, Cst.litValue, beq_iff_eq]
    constructor
    · intro h; simp [h]
    · intro h
      by_cases h1 : s = ascii "null"
      · exact h1
      · simp only [if_neg h1] at h
        split at h
        · cases h
        · split at h <;> cases h
  | str b => simp [Cst.isNullLit, Cst.valueOf]
  | arr xs => simp [Cst.isNullLit, Cst.valueOf]
  | obj ms => simp [Cst.isNullLit, Cst.valueOf]

theorem den_childOf (c : Cst) : den (childOf c) = c.valueOf := by
  unfold childOf
  split
  · rename_i h; rw [(isNullLit_valueOf c).1 h]; rfl
  · rfl

theorem WF_childOf (c : Cst) (h : noDup c.valueOf = true) : WF (childOf c) = true := by
  unfold childOf
  split
  · rfl
  · exact h

/-- the members of a duplicate-free object text, decoded one level -/
def childM : List (Bytes × Cst) → NMembers
  | [] => []
  | (k, v) :: ms => (unquote k, childOf v) :: childM ms

theorem keys_childM : ∀ (ms : List (Bytes × Cst)), (childM ms).map Prod.fst = (Cst.valueOfM ms).map Prod.fst
  | [] => rfl
  | (k, v) :: ms => by simp only [childM, Cst.valueOfM, List.map_cons, keys_childM ms]

theorem denM_childM : ∀ (ms : List (Bytes × Cst)), denM (childM ms) = Cst.valueOfM ms
  | [] => rfl
  | (k, v) :: ms => by simp only [childM, denM, Cst.valueOfM, den_childOf, denM_childM ms]

theorem WFM_childM : ∀ (ms : List (Bytes × Cst)), noDupM (Cst.valueOfM ms) = true → WFM (childM ms) = true
  | [], _ => rfl
  | (k, v) :: ms, h => by
    simp only [Cst.valueOfM, noDupM, Bool.and_eq_true] at h
    simp only [childM, WFM, Bool.and_eq_true]
    exact ⟨WF_childOf v h.1, WFM_childM ms h.2⟩

theorem decodeMembers_nodup : ∀ (ms : List (Bytes × Cst)) (acc : NMembers),
    (acc.map Prod.fst ++ (Cst.valueOfM ms).map Prod.fst).Nodup →
    decodeMembers ms acc = acc ++ childM ms
  | [], acc, _ => by simp [decodeMembers, childM]
  | (k, v) :: ms, acc, h => by
    simp only [Cst.valueOfM, List.map_cons] at h
    have hk : unquote k ∉ acc.map Prod.fst := by
      have := (List.nodup_append.mp h).2.2
      intro hm
      exact this _ hm _ (by simp) rfl
    simp only [decodeMembers, childM]
    rw [setN_of_not_mem _ _ _ hk, decodeMembers_nodup ms _ (by simpa using h)]
    simp

theorem decodeMembers_eq (ms : List (Bytes × Cst)) (h : nodupKeys ((Cst.valueOfM ms).map Prod.fst) = true) :
    decodeMembers ms [] = childM ms := by
  rw [decodeMembers_nodup ms [] (by simpa using (nodupKeys_iffL _).mp h)]
  rfl

theorem den_decodeDoc (ms : List (Bytes × Cst)) (h : noDup (Cst.valueOf (.obj ms)) = true) :
    den (decodeDoc ms) = Cst.valueOf (.obj ms) := by
  simp only [Cst.valueOf, noDup, Bool.and_eq_true] at h
  simp only [decodeDoc, den, Cst.valueOf]
  rw [decodeMembers_eq ms h.1, denM_childM]

theorem WF_decodeDoc (ms : List (Bytes × Cst)) (h : noDup (Cst.valueOf (.obj ms)) = true) :
    WF (decodeDoc ms) = true := by
  simp only [Cst.valueOf, noDup, Bool.and_eq_true] at h
  simp only [decodeDoc]
  rw [decodeMembers_eq ms h.1, WF_doc_iff, keys_childM]
  exact ⟨(nodupKeys_iffL _).1 h.1, WFM_childM ms h.2⟩

theorem denL_map_childOf : ∀ (xs : List Cst), denL (xs.map childOf) = Cst.valueOfL xs
  | [] => rfl
  | x :: xs => by simp only [List.map_cons, denL, Cst.valueOfL, den_childOf, denL_map_childOf xs]

theorem WFL_map_childOf : ∀ (xs : List Cst), noDupL (Cst.valueOfL xs) = true → WFL (xs.map childOf) = true
  | [], _ => rfl
  | x :: xs, h => by
    simp only [Cst.valueOfL, noDupL, Bool.and_eq_true] at h
    simp only [List.map_cons, WFL, Bool.and_eq_true]
    exact ⟨WF_childOf x h.1, WFL_map_childOf xs h.2⟩

theorem den_decodeAry (xs : List Cst) : den (decodeAry xs) = Cst.valueOf (.arr xs) := by
  simp only [decodeAry, den, Cst.valueOf, denL_map_childOf]

theorem WF_decodeAry (xs : List Cst) (h : noDup (Cst.valueOf (.arr xs)) = true) :
    WF (decodeAry xs) = true := by
  simp only [Cst.valueOf, noDup] at h
  simp only [decodeAry, WF]
  exact WFL_map_childOf xs h

/-! ### a well-formed node denotes a duplicate-free value -/

mutual
theorem noDup_den : ∀ (n : Node), WF n = true → noDup (den n) = true
  | .nil, _ => rfl
  | .rawNil, _ => rfl
  | .docNil, h => by simp [WF] at h
  | .raw c, h => by simpa [den, WF] using h
  | .doc ob, h => by
    simp only [WF, Bool.and_eq_true] at h
    simp only [den, noDup, Bool.and_eq_true, keys_denM]
    exact ⟨h.1, noDupM_denM ob h.2⟩
  | .ary ns, h => by
    simp only [WF] at h
    simp only [den, noDup]
    exact noDupL_denL ns h
theorem noDupM_denM : ∀ (ob : NMembers), WFM ob = true → noDupM (denM ob) = true
  | [], _ => rfl
  | (k, n) :: ms, h => by
    simp only [WFM, Bool.and_eq_true] at h
    simp only [denM, noDupM, Bool.and_eq_true]
    exact ⟨noDup_den n h.1, noDupM_denM ms h.2⟩
theorem noDupL_denL : ∀ (ns : List Node), WFL ns = true → noDupL (denL ns) = true
  | [], _ => rfl
  | n :: ns, h => by
    simp only [WFL, Bool.and_eq_true] at h
    simp only [denL, noDupL, Bool.and_eq_true]
    exact ⟨noDup_den n h.1, noDupL_denL ns h.2⟩
end

end Legacy
end JP
