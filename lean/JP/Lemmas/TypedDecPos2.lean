import JP.Lemmas.TypedDecPos1

set_option linter.unusedSimpArgs false
set_option linter.unusedVariables false

/-!
# The typed decoder on a well-formed text, part 2: one member of a struct

The walk along `f.index` of a field of `typeFields` of a `decodable` struct type ends at a decodable type, with
`canSet` whenever that type is a pointer (`leafOk`); hence `memberStep` consumes the member's value whatever
the field is: unknown name (`valueSkip`), `,string` (`quotedValue`), blocked walk (`saveError` + `valueSkip`),
ordinary field (`value`).
-/

namespace JP
namespace Codec
namespace TDec

open Scanner
open JP.Codec.Typed
open JP.C17 (decodable decodableF structSettable lastField)

/-- where `leaf` is called at the end of the walk: at a decodable type, settable when it is a pointer -/
def leafOk : GoType → Bool → List Nat → Bool
  | t, cs, [] => decodable t && (!t.isPtr || cs)
  | t, _, i :: is =>
    match (structFieldsOf t.deref)[i]? with
    | some (fi, ft) => leafOk ft fi.exported is
    | none => false

theorem decodableF_get : ∀ (fs : List (FieldInfo × GoType)) (i : Nat) (fi : FieldInfo) (ft : GoType),
    decodableF fs = true → fs[i]? = some (fi, ft) → decodable ft = true
  | [], _, _, _, _, h => by simp at h
  | (fi', ft') :: r, 0, fi, ft, hd, h => by
    simp only [decodableF, Bool.and_eq_true] at hd
    simp at h
    obtain ⟨_, rfl⟩ := h
    exact hd.1
  | (fi', ft') :: r, i + 1, fi, ft, hd, h => by
    simp only [decodableF, Bool.and_eq_true] at hd
    simp at h
    exact decodableF_get r i fi ft hd.2 h

theorem decodable_fields (t : GoType) (hd : decodable t = true) (i : Nat) (fi : FieldInfo) (ft : GoType)
    (hf : (structFieldsOf t.deref)[i]? = some (fi, ft)) : decodable ft = true := by
  cases t with
  | struct n fs =>
    simp only [GoType.deref, structFieldsOf] at hf
    simp only [decodable, Bool.and_eq_true] at hd
    exact decodableF_get fs i fi ft hd.2 hf
  | ptr e =>
    simp only [GoType.deref] at hf
    simp only [decodable] at hd
    cases e with
    | struct n fs =>
      simp only [structFieldsOf] at hf
      simp only [decodable, Bool.and_eq_true] at hd
      exact decodableF_get fs i fi ft hd.2 hf
    | _ => simp [structFieldsOf] at hf
  | _ => simp [GoType.deref, structFieldsOf] at hf

theorem decodable_derefT : ∀ t : GoType, decodable t = true → decodable (derefT t) = true
  | .ptr e, h => by
    simp only [decodable] at h
    simpa [derefT] using decodable_derefT e h
  | .bool, h => by simpa [derefT] using h
  | .int _, h => by simpa [derefT] using h
  | .uint _, h => by simpa [derefT] using h
  | .string, h => by simpa [derefT] using h
  | .number, h => by simpa [derefT] using h
  | .slice _, h => by simpa [derefT] using h
  | .array _ _, h => by simpa [derefT] using h
  | .map _ _, h => by simpa [derefT] using h
  | .iface, h => by simpa [derefT] using h
  | .struct _ _, h => by simpa [derefT] using h

theorem leafOk_of : ∀ (is : List Nat) (t : GoType) (cs : Bool), decodable t = true → pathOk t is = true → is ≠ [] →
    (match lastField t is with | some (fi, ft) => !(ft.isPtr && !fi.exported) | none => true) = true →
    leafOk t cs is = true
  | [], _, _, _, _, hne, _ => absurd rfl hne
  | [i], t, cs, hd, hp, _, hl => by
    simp only [pathOk] at hp
    simp only [lastField] at hl
    simp only [leafOk]
    cases hf : (structFieldsOf t.deref)[i]? with
    | none => simp [hf] at hp
    | some p =>
      obtain ⟨fi, ft⟩ := p
      rw [hf] at hl
      simp only [] at hl ⊢
      rw [decodable_fields t hd i fi ft hf]
      revert hl
      cases ft.isPtr <;> cases fi.exported <;> simp
  | i :: j :: is, t, cs, hd, hp, _, hl => by
    simp only [pathOk] at hp
    simp only [lastField] at hl
    simp only [leafOk]
    cases hf : (structFieldsOf t.deref)[i]? with
    | none => simp [hf] at hp
    | some p =>
      obtain ⟨fi, ft⟩ := p
      rw [hf] at hl hp
      simp only [] at hl hp ⊢
      exact leafOk_of (j :: is) ft fi.exported (decodable_fields t hd i fi ft hf) hp (by simp) hl

theorem leafOk_struct (n : Bytes) (fs : List (FieldInfo × GoType)) (hd : decodable (.struct n fs) = true) (f : Fld)
    (hf : f ∈ typeFields (.struct n fs)) : leafOk (.struct n fs) true f.index = true := by
  cases hi : f.index with
  | nil => simp [leafOk, hd, GoType.isPtr]
  | cons i is =>
    have hp := typeFields_pathOk_struct n fs f hf
    rw [hi] at hp
    have hs : structSettable (.struct n fs) = true := by
      simp only [decodable, Bool.and_eq_true] at hd
      exact hd.1
    simp only [structSettable, List.all_eq_true] at hs
    have := hs f hf
    rw [hi] at this
    exact leafOk_of (i :: is) _ true hd hp (by simp) this

theorem fieldStep_post (Q : DState → Prop) (k : GoType → DV → Bool → DState → R DV) (i : Nat) (n : Bytes)
    (fts : List (FieldInfo × GoType)) (sv : DV) (hsv : DV.typed (.struct n fts) sv = true) (isPtr : Bool) (d : DState)
    (fi : FieldInfo) (ft : GoType) (hf : fts[i]? = some (fi, ft))
    (hk : ∀ fv, DV.typed ft fv = true → RPost Q (k ft fv fi.exported d)) :
    RPost Q (fieldStep k i (.struct n fts) sv isPtr d) := by
  cases sv with
  | struct vs =>
    simp only [DV.typed] at hsv
    obtain ⟨fv, hfv⟩ := typedF_get_some fts vs i (fi, ft) hsv hf
    simp only [fieldStep, structFieldsOf, hf, dvFields, hfv]
    rw [RPost_map]
    exact hk fv (typedF_get fts vs i fi ft fv hsv hf hfv)
  | _ => simp [DV.typed, GoType.nilable] at hsv

theorem atPath_post (Q : DState → Prop) (leaf : GoType → DV → Bool → DState → R DV) (blocked : DState → R Unit)
    (d : DState) (hleaf : ∀ t cur cs, Inv t cur cs → RPost Q (leaf t cur cs d))
    (hblocked : RPost Q (blocked (d.saveError .other))) :
    ∀ (is : List Nat) (t : GoType) (cur : DV) (cs : Bool), DV.typed t cur = true → leafOk t cs is = true →
      RPost Q (atPath leaf blocked is t cur cs d)
  | [], t, cur, cs, h, hl => by
    simp only [leafOk, Bool.and_eq_true] at hl
    refine hleaf t cur cs ⟨hl.1, h, fun hp => ?_⟩
    have := hl.2
    rw [hp] at this
    simpa using this
  | i :: is, t, cur, cs, h, hl => by
    simp only [atPath]
    split
    · rw [RPost_map]; exact hblocked
    · have ih := atPath_post Q leaf blocked d hleaf hblocked is
      simp only [leafOk] at hl
      cases hf : (structFieldsOf t.deref)[i]? with
      | none => simp [hf] at hl
      | some p =>
        obtain ⟨fi, ft⟩ := p
        simp only [hf] at hl
        cases t with
        | ptr e =>
          simp only [GoType.isPtr, GoType.deref, if_true] at hf ⊢
          have hsv : DV.typed e (ptrTarget e cur) = true := by
            cases cur <;> first | exact zero_typed e | (simpa [DV.typed, ptrTarget] using h)
          cases e with
          | struct n fts =>
            simp only [structFieldsOf] at hf
            exact fieldStep_post Q _ i n fts _ hsv true d fi ft hf (fun fv hfv => ih ft fv fi.exported hfv hl)
          | _ => simp [structFieldsOf] at hf
        | struct n fts =>
          simp only [GoType.isPtr, GoType.deref, Bool.false_eq_true, if_false] at hf ⊢
          simp only [structFieldsOf] at hf
          exact fieldStep_post Q _ i n fts _ h false d fi ft hf (fun fv hfv => ih ft fv fi.exported hfv hl)
        | _ => simp [GoType.deref, structFieldsOf] at hf

theorem findField_mem (flds : List Fld) (key : Bytes) (f : Fld) (h : findField flds key = some f) : f ∈ flds := by
  simp only [findField] at h
  cases h1 : flds.find? (fun f => f.name = key) with
  | some g =>
    rw [h1] at h
    simp only [Option.some.injEq] at h
    subst h
    exact List.mem_of_find?_eq_some h1
  | none =>
    rw [h1] at h
    exact List.mem_of_find?_eq_some h

/-- one member of an object decoded into a struct of a decodable type -/
theorem memberStep_post (Q : DState → Prop) (G : Nat) (n : Bytes) (fs : List (FieldInfo × GoType))
    (hd : decodable (.struct n fs) = true) (cur : DV) (hc : DV.typed (.struct n fs) cur = true) (key : Bytes)
    (D : DState) (hcons : Consumes G Q D) (hcons' : Consumes G Q (D.saveError .other)) :
    RPost Q (memberStep (value G) (.struct n fs) (typeFields (.struct n fs)) cur key D) := by
  simp only [memberStep]
  cases hff : findField (typeFields (.struct n fs)) key with
  | none =>
    simp only []
    rw [RPost_map]
    exact hcons.skip
  | some f =>
    simp only []
    have hfm := findField_mem _ _ _ hff
    refine atPath_post Q _ _ D ?_ hcons'.skip f.index _ cur true hc (leafOk_struct n fs hd f hfm)
    intro t cur' cs' hinv
    split
    · exact hcons.quoted t cur' cs' hinv.2.2
    · exact hcons.val t cur' cs' hinv

end TDec
end Codec
end JP
