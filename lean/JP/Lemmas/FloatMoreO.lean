import JP.Lemmas.FloatClamp

/-!
# The overflow threshold of `roundRat`: the range error is reported exactly from `maxFinite + ulp/2` on

`overflowThr bits = (2^(mb+2) − 1) · 2^(expMax − 2 − bias − mb)`: for binary64 `(2^54 − 1) · 2^970`
(= `(2^53 − 1) · 2^971 + 2^970`), for binary32 `(2^25 − 1) · 2^103`.
-/

namespace JP
namespace Codec
namespace Float

/-- the largest finite float plus half a unit of its last place -/
def overflowThr (bits : Nat) : Nat :=
  (2 ^ (mantBits bits + 2) - 1) * 2 ^ (expMax bits - 2 - bias bits - mantBits bits)

theorem fmt_consts2 (bits : Nat) : bias bits + mantBits bits + 2 ≤ expMax bits := by
  unfold mantBits bias expMax expBits
  by_cases hb : bits = 32 <;> simp [hb]

theorem pow_split (t E : Nat) (h : E ≤ t) : 2 ^ t = 2 ^ E * 2 ^ (t - E) := by
  rw [← Nat.pow_add]; congr 1; omega

theorem roundRat_overflow_iff (bits N D : Nat) (hN : 0 < N) (hD : 0 < D) :
    (roundRat bits N D).2.2 = true ↔ overflowThr bits * D ≤ N := by
  obtain ⟨S, q, a, b, hab, hb, hq, hU, hL, h1, h2, h3, hres⟩ := roundRat_spec bits N D hN hD
  obtain ⟨c1, c2, c3, c4, c5, c6, c7⟩ := fmt_consts bits
  have c8 := fmt_consts2 bits
  have hU' : a < 2 ^ (mantBits bits + 1) * b := by
    have := (Nat.div_lt_iff_lt_mul hb).1 hU
    exact this
  have hL' : 2 ^ mantBits bits ≤ a / b → 2 ^ mantBits bits * b ≤ a := fun h => (Nat.le_div_iff_mul_le hb).1 h
  have h2P : 2 ^ (mantBits bits + 1) = 2 * 2 ^ mantBits bits := by rw [Nat.pow_succ]; omega
  have h4P : 2 ^ (mantBits bits + 2) = 4 * 2 ^ mantBits bits := by rw [Nat.pow_succ, Nat.pow_succ]; omega
  have hPpos : 0 < 2 ^ mantBits bits := two_pow_pos _
  have hPeven : 2 ^ mantBits bits % 2 = 0 := by
    have : mantBits bits = (mantBits bits - 1) + 1 := by omega
    rw [this, Nat.pow_succ]; omega
  unfold overflowThr
  rw [h4P]
  rw [h2P] at hU' hres
  generalize hE : expMax bits - 2 - bias bits - mantBits bits = E
  have hEM : expMax bits = E + 2 + bias bits + mantBits bits := by omega
  generalize hP : 2 ^ mantBits bits = P at *
  have hWpos : 0 < 2 ^ E := two_pow_pos _
  constructor
  · -- overflow ⇒ at least the threshold
    intro hov
    rcases hres with ⟨_, hS, hEx⟩ | ⟨hno, _⟩
    · by_cases hc : S = 2 * P
      · rw [if_pos hc] at hEx
        have hq0 : q ≥ 0 := by omega
        unfold scaled at hab
        rw [if_pos hq0] at hab
        simp only [Prod.mk.injEq] at hab
        obtain ⟨ha, hbb⟩ := hab
        have ht : E + 1 ≤ q.toNat := by omega
        have hpw := pow_split q.toNat (E + 1) ht
        rw [Nat.pow_succ] at hpw
        have hM : 0 < 2 ^ (q.toNat - (E + 1)) := two_pow_pos _
        generalize 2 ^ (q.toNat - (E + 1)) = M at *
        generalize 2 ^ q.toNat = T at *
        generalize 2 ^ E = W at *
        subst hc ha hbb hpw
        -- b = D * (W * 2 * M), 2 * (2P * b) ≤ 2N + b
        have hb2 : D * (W * 2) ≤ D * (W * 2 * M) :=
          Nat.mul_le_mul_left _ (Nat.le_mul_of_pos_right _ hM)
        have hY : (4 * P - 1) + 1 = 4 * P := by omega
        generalize 4 * P - 1 = Y at *
        have e1 : (Y + 1) * (D * (W * 2 * M)) = 4 * P * (D * (W * 2 * M)) := by rw [hY]
        have e2 : Y * (D * (W * 2)) ≤ Y * (D * (W * 2 * M)) := Nat.mul_le_mul_left _ hb2
        grind
      · rw [if_neg hc] at hEx
        have hq0 : q ≥ 0 := by omega
        unfold scaled at hab
        rw [if_pos hq0] at hab
        simp only [Prod.mk.injEq] at hab
        obtain ⟨ha, hbb⟩ := hab
        have ht : E + 2 ≤ q.toNat := by omega
        have hpw := pow_split q.toNat (E + 2) ht
        rw [Nat.pow_succ, Nat.pow_succ] at hpw
        have hM : 0 < 2 ^ (q.toNat - (E + 2)) := two_pow_pos _
        have hLa : P * b ≤ a := by
          rcases hL with h | h
          · exact hL' h
          · omega
        generalize 2 ^ (q.toNat - (E + 2)) = M at *
        generalize 2 ^ q.toNat = T at *
        generalize 2 ^ E = W at *
        subst ha hbb hpw
        have hb2 : D * (W * 2 * 2) ≤ D * (W * 2 * 2 * M) :=
          Nat.mul_le_mul_left _ (Nat.le_mul_of_pos_right _ hM)
        have e2 : P * (D * (W * 2 * 2)) ≤ P * (D * (W * 2 * 2 * M)) := Nat.mul_le_mul_left _ hb2
        have hY : (4 * P - 1) + 1 = 4 * P := by omega
        generalize 4 * P - 1 = Y at *
        have e1 : (Y + 1) * (W * D) = 4 * P * (W * D) := by rw [hY]
        grind
    · rw [hno] at hov; simp at hov
  · -- at least the threshold ⇒ overflow
    intro hthr
    rcases hres with ⟨hov, _, _⟩ | ⟨_, hwf, hlt, hqe, hval⟩
    · rw [hov]
    · exfalso
      generalize hx : (FP.mk false (roundRat bits N D).1 (roundRat bits N D).2.1) = x at *
      have hxe : x.exp < expMax bits := by rw [← hx]; exact hlt
      simp only [FP.wf, Bool.and_eq_true, decide_eq_true_eq] at hwf
      have hsig : x.sig bits < 2 * P := by
        unfold FP.sig
        rw [hP]
        split <;> omega
      simp only [FP.qexp] at hqe hval
      have hY : (4 * P - 1) + 1 = 4 * P := by omega
      generalize 4 * P - 1 = Y at *
      have hYP : P ≤ Y := by omega
      by_cases hq0 : q ≥ 0
      · unfold scaled at hab
        rw [if_pos hq0] at hab
        simp only [Prod.mk.injEq] at hab
        obtain ⟨ha, hbb⟩ := hab
        have htle : q.toNat ≤ E + 1 := by split at hqe <;> omega
        by_cases hte : q.toNat ≤ E
        · -- a < 2P·b ≤ 2P·W·D
          have hpw := pow_split E q.toNat hte
          have hM : 0 < 2 ^ (E - q.toNat) := two_pow_pos _
          have hT : 0 < 2 ^ q.toNat := two_pow_pos _
          generalize 2 ^ (E - q.toNat) = M at *
          generalize 2 ^ q.toNat = T at *
          generalize 2 ^ E = W at *
          subst ha hbb hpw
          have hb2 : D * T ≤ D * (T * M) := Nat.mul_le_mul_left _ (Nat.le_mul_of_pos_right _ hM)
          have e2 : 2 * P * (D * T) ≤ 2 * P * (D * (T * M)) := Nat.mul_le_mul_left _ hb2
          have e1 : (Y + 1) * (T * M * D) = 4 * P * (T * M * D) := by rw [hY]
          have e3 : 0 < T * M * D := Nat.mul_pos (Nat.mul_pos hT hM) hD
          have e4 : P * (T * M * D) ≥ 1 * (T * M * D) := Nat.mul_le_mul_right _ hPpos
          grind
        · -- the top binade
          have hte1 : q.toNat = E + 1 := by omega
          have hz : (((if x.exp = 0 then 1 else x.exp : Nat) : Int)
              - ((bias bits + mantBits bits : Nat) : Int) - q).toNat = 0 := by
            split at hqe <;> split <;> omega
          rw [hz, Nat.pow_zero, Nat.mul_one] at hval
          have hpw : 2 ^ q.toNat = 2 ^ E * 2 := by rw [hte1, Nat.pow_succ]
          generalize 2 ^ q.toNat = T at *
          generalize 2 ^ E = W at *
          subst ha hbb hpw
          -- Y·(W·D) ≤ N, 2N ≤ (2S+1)·D·2W, S ≤ 2P−1
          have hSle : S + 1 ≤ 2 * P := by omega
          have e1 : (Y + 1) * (W * D) = 4 * P * (W * D) := by rw [hY]
          have e5 : (S + 1) * (W * D) ≤ 2 * P * (W * D) := Nat.mul_le_mul_right _ hSle
          have hXpos : 0 < W * D := Nat.mul_pos hWpos hD
          -- S = 2P − 1 and a tie
          have hSeq : S + 1 = 2 * P := by
            apply Nat.le_antisymm hSle
            apply Nat.le_of_not_lt
            intro hlt2
            have : (S + 2) * (W * D) ≤ 2 * P * (W * D) := Nat.mul_le_mul_right _ hlt2
            grind
          have e6 : (S + 1) * (W * D) = 2 * P * (W * D) := by rw [hSeq]
          have htie : 2 * a = 2 * (S * (D * (W * 2))) + D * (W * 2) := by grind
          have := h3 (Or.inr htie)
          omega
      · -- negative exponent: N ≤ a < 2P·D
        unfold scaled at hab
        rw [if_neg hq0] at hab
        simp only [Prod.mk.injEq] at hab
        obtain ⟨ha, hbb⟩ := hab
        have hM : 0 < 2 ^ (-q).toNat := two_pow_pos _
        generalize 2 ^ (-q).toNat = M at *
        generalize 2 ^ E = W at *
        subst ha hbb
        have e0 : N ≤ N * M := Nat.le_mul_of_pos_right _ hM
        have e1 : (Y + 1) * (W * b) = 4 * P * (W * b) := by rw [hY]
        have e2 : 1 * b ≤ W * b := Nat.mul_le_mul_right _ hWpos
        have e3 : P * (1 * b) ≤ P * (W * b) := Nat.mul_le_mul_left _ e2
        have e4 : 1 * (W * b) ≤ P * (W * b) := Nat.mul_le_mul_right _ hPpos
        clear hval hqe h3 hL hL' hU h1 h2 hx hlt hwf hsig hq
        grind

end Float
end Codec
end JP
