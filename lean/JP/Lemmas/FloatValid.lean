import JP.Lemmas.FloatParse
import JP.Lemmas.EncodeNumber
import JP.Lemmas.TypedLeaf

/-!
# What `parseLit` (the reader of `strconv.ParseFloat` restricted to JSON) accepts is an RFC 8259 number literal

`(parseLit s).isSome → Enc.isValidNumber s = true`, hence `parseNumber s = some (s, [])` and
`parseCst s = some (.lit s)`.
-/

namespace JP
namespace Codec
namespace Float

open JP.Codec.Enc (skipDigits)

/-! ## shapes -/

theorem splitE_shape : ∀ s : Bytes,
    ((splitE s).2 = none ∧ s = (splitE s).1) ∨
    (∃ c r, (c = 101 ∨ c = 69) ∧ (splitE s).2 = some r ∧ s = (splitE s).1 ++ c :: r)
  | [] => by simp [splitE]
  | c :: cs => by
    by_cases hc : c = 101 ∨ c = 69
    · right; exact ⟨c, cs, hc, by simp [splitE, hc], by simp [splitE, hc]⟩
    · rcases splitE_shape cs with ⟨h1, h2⟩ | ⟨c', r, hc', h1, h2⟩
      · left; simp only [splitE, hc, if_false]; exact ⟨h1, by rw [← h2]⟩
      · right; refine ⟨c', r, hc', ?_, ?_⟩
        · simp only [splitE, hc, if_false]; exact h1
        · simp only [splitE, hc, if_false, List.cons_append]; rw [← h2]

theorem splitDot_shape : ∀ s : Bytes,
    ((splitDot s).2 = none ∧ s = (splitDot s).1) ∨
    (∃ r, (splitDot s).2 = some r ∧ s = (splitDot s).1 ++ 46 :: r)
  | [] => by simp [splitDot]
  | c :: cs => by
    by_cases hc : c = 46
    · right; exact ⟨cs, by simp [splitDot, hc], by simp [splitDot, hc]⟩
    · rcases splitDot_shape cs with ⟨h1, h2⟩ | ⟨r, h1, h2⟩
      · left; simp only [splitDot, hc, if_false]; exact ⟨h1, by rw [← h2]⟩
      · right; refine ⟨r, ?_, ?_⟩
        · simp only [splitDot, hc, if_false]; exact h1
        · simp only [splitDot, hc, if_false, List.cons_append]; rw [← h2]

/-! ## skipping digits -/

theorem skipDigits_append (ds rest : Bytes) (h : ds.all isDigit = true) :
    skipDigits (ds ++ rest) = skipDigits rest := by
  induction ds with
  | nil => rfl
  | cons c cs ih =>
    simp only [List.all_cons, Bool.and_eq_true] at h
    simp only [List.cons_append, skipDigits, h.1, if_true]
    exact ih h.2

theorem skipDigits_all (ds : Bytes) (h : ds.all isDigit = true) : skipDigits ds = [] := by
  have := skipDigits_append ds [] h
  simpa [skipDigits] using this

/-- a tail that is empty or starts with a byte that is not a digit -/
def stops (t : Bytes) : Prop := t = [] ∨ ∃ c r, t = c :: r ∧ isDigit c = false

theorem skipDigits_stops (t : Bytes) (h : stops t) : skipDigits t = t := by
  rcases h with rfl | ⟨c, r, rfl, hc⟩
  · rfl
  · simp [skipDigits, hc]

/-! ## the exponent tail -/

/-- empty, or `e`/`E` followed by what `parseExp` accepts -/
def expTail (t : Bytes) : Prop :=
  t = [] ∨ ∃ c r, (c = 101 ∨ c = 69) ∧ t = c :: r ∧ (parseExp r).isSome = true

theorem isDigit_e (c : UInt8) (h : c = 101 ∨ c = 69) : isDigit c = false := by
  rcases h with rfl | rfl <;> decide

theorem expTail_stops (t : Bytes) (h : expTail t) : stops t := by
  rcases h with rfl | ⟨c, r, hc, rfl, _⟩
  · left; rfl
  · right; exact ⟨c, r, rfl, isDigit_e c hc⟩

theorem allDigits_iff (ds : Bytes) : allDigits ds = true ↔ ds ≠ [] ∧ ds.all isDigit = true := by
  cases ds <;> simp [allDigits]

theorem numExp_expTail (t : Bytes) (h : expTail t) : Enc.numExp t = some [] := by
  rcases h with rfl | ⟨c, r, hc, rfl, hp⟩
  · rfl
  · unfold parseExp at hp
    cases r with
    | nil => simp [allDigits] at hp
    | cons d r' =>
      simp only [List.head?_cons, Option.some.injEq, List.drop_succ_cons, List.drop_zero] at hp
      by_cases hd : d = 45 ∨ d = 43
      · rw [if_pos hd] at hp
        have hall : allDigits r' = true := by
          by_cases ha : allDigits r' = true
          · exact ha
          · simp [ha] at hp
        obtain ⟨hne, hds⟩ := (allDigits_iff r').1 hall
        have hd' : d = 43 ∨ d = 45 := hd.symm
        have hemp : r'.isEmpty = false := by cases r' <;> simp_all
        simp only [Enc.numExp, hc, hd', if_true, hemp]
        simp [skipDigits_all r' hds]
      · rw [if_neg hd] at hp
        have hall : allDigits (d :: r') = true := by
          by_cases ha : allDigits (d :: r') = true
          · exact ha
          · simp [ha] at hp
        obtain ⟨_, hds⟩ := (allDigits_iff (d :: r')).1 hall
        have hd' : ¬ (d = 43 ∨ d = 45) := fun h => hd h.symm
        simp only [Enc.numExp, hc, hd', if_true, if_false]
        simp [skipDigits_all (d :: r') hds]

theorem numFrac_expTail (t : Bytes) (h : expTail t) : Enc.numFrac t = t := by
  rcases h with rfl | ⟨c, r, hc, rfl, _⟩
  · rfl
  · have h46 : c ≠ 46 := by rcases hc with rfl | rfl <;> decide
    cases r with
    | nil => rfl
    | cons d r' => simp [Enc.numFrac, h46]

/-! ## the fraction tail -/

/-- an exponent tail, optionally after `.` and digits -/
def fracTail (t : Bytes) : Prop :=
  expTail t ∨ ∃ fp et, t = 46 :: fp ++ et ∧ allDigits fp = true ∧ expTail et

theorem isDigit_46 : isDigit 46 = false := by decide

theorem fracTail_stops (t : Bytes) (h : fracTail t) : stops t := by
  rcases h with h | ⟨fp, et, rfl, _, _⟩
  · exact expTail_stops t h
  · right; exact ⟨46, fp ++ et, rfl, isDigit_46⟩

theorem numFrac_fracTail (t : Bytes) (h : fracTail t) : ∃ et, Enc.numFrac t = et ∧ expTail et := by
  rcases h with h | ⟨fp, et, rfl, hfp, het⟩
  · exact ⟨t, numFrac_expTail t h, h⟩
  · obtain ⟨hne, hds⟩ := (allDigits_iff fp).1 hfp
    cases fp with
    | nil => exact absurd rfl hne
    | cons d fp' =>
      simp only [List.all_cons, Bool.and_eq_true] at hds
      refine ⟨et, ?_, het⟩
      simp only [List.cons_append, Enc.numFrac, hds.1, and_self, if_true]
      rw [skipDigits_append fp' et hds.2, skipDigits_stops et (expTail_stops et het)]

/-! ## integer part and sign -/

theorem digit_range (c : UInt8) (h : isDigit c = true) (h0 : c ≠ 48) : 49 ≤ c.toNat ∧ c.toNat ≤ 57 := by
  simp only [isDigit, Bool.and_eq_true, decide_eq_true_eq] at h
  have : c.toNat ≠ 48 := fun e => h0 (by
    have := congrArg UInt8.ofNat e
    simpa using this)
  omega

theorem numInt_ok (ip t : Bytes) (hip : intOk ip = true) (ht : stops t) : Enc.numInt (ip ++ t) = some t := by
  simp only [intOk, Bool.and_eq_true, Bool.or_eq_true, decide_eq_true_eq] at hip
  obtain ⟨hall, hz⟩ := hip
  obtain ⟨hne, hds⟩ := (allDigits_iff ip).1 hall
  cases ip with
  | nil => exact absurd rfl hne
  | cons c ip' =>
    simp only [List.all_cons, Bool.and_eq_true] at hds
    by_cases h0 : c = 48
    · subst h0
      have : ip' = [] := by
        rcases hz with hl | hh
        · simp at hl; exact hl
        · simp at hh
      subst this
      simp [Enc.numInt]
    · have hr := digit_range c hds.1 h0
      simp only [List.cons_append, Enc.numInt, h0, if_false, hr, and_self, if_true]
      rw [skipDigits_append ip' t hds.2, skipDigits_stops t ht]

theorem head_digit_ne_45 (ip : Bytes) (hip : intOk ip = true) : ∃ c r, ip = c :: r ∧ c ≠ 45 := by
  simp only [intOk, Bool.and_eq_true] at hip
  obtain ⟨hne, hds⟩ := (allDigits_iff ip).1 hip.1
  cases ip with
  | nil => exact absurd rfl hne
  | cons c r =>
    simp only [List.all_cons, Bool.and_eq_true] at hds
    refine ⟨c, r, rfl, ?_⟩
    intro e; subst e; exact absurd hds.1 (by decide)

/-- the whole literal, given its pieces -/
theorem isValidNumber_pieces (neg : Bool) (ip t : Bytes) (hip : intOk ip = true) (ht : fracTail t) :
    Enc.isValidNumber ((if neg then [45] else []) ++ ip ++ t) = true := by
  obtain ⟨c, r, hcr, hc45⟩ := head_digit_ne_45 ip hip
  have hsign : Enc.numSign ((if neg then [45] else []) ++ ip ++ t) = some (ip ++ t) := by
    cases neg
    · simp only [Bool.false_eq_true, if_false, List.nil_append]
      rw [hcr]; simp [Enc.numSign, hc45]
    · simp only [if_true]
      rw [hcr]; simp [Enc.numSign]
  obtain ⟨et, het, hexp⟩ := numFrac_fracTail t ht
  unfold Enc.isValidNumber
  rw [hsign]
  simp only
  rw [numInt_ok ip t hip (fracTail_stops t ht)]
  simp only
  rw [het, numExp_expTail et hexp]
  rfl

/-! ## the pieces of an accepted literal -/

theorem parseMant_shape (m : Bytes) (neg : Bool) (ip fp : Bytes) (h : parseMant m = some (neg, ip, fp)) :
    intOk ip = true ∧
      ((m = (if neg then [45] else []) ++ ip) ∨
       (m = (if neg then [45] else []) ++ ip ++ 46 :: fp ∧ allDigits fp = true)) := by
  unfold parseMant at h
  simp only at h
  have hm : m = (if m.head? = some 45 then [45] else []) ++ (if m.head? = some 45 then m.drop 1 else m) := by
    cases m with
    | nil => simp
    | cons c cs =>
      by_cases hc : c = 45
      · subst hc; simp
      · simp [hc]
  generalize hm1 : (if m.head? = some 45 then m.drop 1 else m) = m1 at h hm
  by_cases hi : intOk (splitDot m1).1 = true
  · simp only [hi, Bool.not_true, Bool.false_eq_true, if_false] at h
    rcases splitDot_shape m1 with ⟨h2, hs⟩ | ⟨r, h2, hs⟩
    · rw [h2] at h
      simp only [Option.some.injEq, Prod.mk.injEq] at h
      obtain ⟨hn, hip, _⟩ := h
      subst hip
      refine ⟨hi, Or.inl ?_⟩
      rw [← hn]
      simp only [decide_eq_true_eq]
      rw [← hs]; exact hm
    · rw [h2] at h
      simp only at h
      by_cases hf : allDigits r = true
      · simp only [hf, if_true, Option.some.injEq, Prod.mk.injEq] at h
        obtain ⟨hn, hip, hfp⟩ := h
        subst hip; subst hfp
        refine ⟨hi, Or.inr ⟨?_, hf⟩⟩
        rw [← hn]
        simp only [decide_eq_true_eq, List.append_assoc]
        rw [← hs]; exact hm
      · simp [hf] at h
  · simp [hi] at h

theorem parseLit_isValidNumber (s : Bytes) (h : (parseLit s).isSome = true) : Enc.isValidNumber s = true := by
  simp only [parseLit] at h
  cases hm : parseMant (splitE s).1 with
  | none => rw [hm] at h; simp at h
  | some r =>
    obtain ⟨neg, ip, fp⟩ := r
    rw [hm] at h
    simp only at h
    obtain ⟨hip, hshape⟩ := parseMant_shape _ neg ip fp hm
    -- the exponent tail
    have hexp : ∃ et, s = (splitE s).1 ++ et ∧ expTail et := by
      rcases splitE_shape s with ⟨h2, hs⟩ | ⟨c, r, hc, h2, hs⟩
      · exact ⟨[], by simpa using hs, Or.inl rfl⟩
      · refine ⟨c :: r, hs, Or.inr ⟨c, r, hc, rfl, ?_⟩⟩
        rw [h2] at h
        simp only at h
        cases hp : parseExp r with
        | none => rw [hp] at h; simp at h
        | some e => rfl
    obtain ⟨et, hs, het⟩ := hexp
    rcases hshape with hm1 | ⟨hm1, hfp⟩
    · rw [hs, hm1]
      exact isValidNumber_pieces neg ip et hip (Or.inl het)
    · rw [hs, hm1]
      have : (if neg = true then [45] else []) ++ ip ++ 46 :: fp ++ et
          = (if neg = true then [45] else []) ++ ip ++ (46 :: fp ++ et) := by simp
      rw [this]
      exact isValidNumber_pieces neg ip (46 :: fp ++ et) hip (Or.inr ⟨fp, et, rfl, hfp, het⟩)

theorem parseLit_parseNumber (s : Bytes) (h : (parseLit s).isSome = true) : parseNumber s = some (s, []) :=
  JP.Codec.Typed.parseNumber_of_isValidNumber s (parseLit_isValidNumber s h)

end Float
end Codec
end JP
