import JP.Lemmas.StreamValid
import JP.Lemmas.StreamSticky

/-!
# No call of the stream model panics or runs out of fuel

* `decode_cases`: `Decode` either returns a stream-level error, or has read a well-formed JSON text and
  returns what `unmarshal` returns on it (which never panics on a well-formed text: `unmarshal_spec`);
* `token_total`: from a decoder whose token stack is consistent with its token state (`Inv`: inside a
  container the stack is not empty — true for `NewDecoder` and kept by every call), `Token` neither indexes
  an empty stack nor exhausts the loop bound of the model.
-/

namespace JP
namespace Codec
namespace Stream

open Scanner

/-! ### `Decode` -/

/-- `Decode`: a stream-level error; or a well-formed text was read and `unmarshal`'s result on it is returned -/
theorem decode_cases (t : Target) (D : Dec) :
    (∃ e, (decode t D).2 = .err e) ∨
    (∃ (n : Nat) (c : Cst) (DS : DState) (v : DVal),
      D.err = none ∧
      parseCst ((tokenPrepareForDecode D).1.rest.take n) = some c ∧
      unmarshal t ((tokenPrepareForDecode D).1.rest.take n) (tokenPrepareForDecode D).1.lastKeys = .ok (DS, v) ∧
      view v = sem c t ∧ SeOK none (bad c t) DS.savedError ∧
      decode t D = (tokenValueEnd { (tokenPrepareForDecode D).1 with
          rest := (tokenPrepareForDecode D).1.rest.drop n, lastKeys := DS.lastKeys }, resOf DS.savedError v)) := by
  unfold decode
  split
  · exact .inl ⟨_, rfl⟩
  · rename_i herr
    dsimp only
    unfold decodeAfterPrepare
    split
    · exact .inl ⟨_, rfl⟩
    · split
      · exact .inl ⟨_, rfl⟩
      · dsimp only
        unfold decodeAfterRead
        split
        · exact .inl ⟨_, rfl⟩
        · rename_i n hr
          obtain ⟨hD', hle, c, hc⟩ := readValue_ok_parses (tokenPrepareForDecode D).1 _ n
            (Prod.ext rfl hr)
          obtain ⟨DS, v, hu, hview, hse, _⟩ := unmarshal_spec t _ c (tokenPrepareForDecode D).1.lastKeys hc
          right
          refine ⟨n, c, DS, v, herr, hc, hu, hview, hse, ?_⟩
          have hfst : (readValue (tokenPrepareForDecode D).fst).fst = (tokenPrepareForDecode D).fst := hD'
          rw [hfst]
          simp only [decodeRead, hu]

theorem resOf_cases (se : Option DErr) (v : DVal) : resOf se v ≠ .panic ∧ resOf se v ≠ .fuel := by
  cases se <;> simp [resOf]

/-- `Decode` never panics, and the recursion bound of the decoder model never runs out -/
theorem decode_total (t : Target) (D : Dec) : (decode t D).2 ≠ .panic ∧ (decode t D).2 ≠ .fuel := by
  rcases decode_cases t D with ⟨e, he⟩ | ⟨n, c, DS, v, _, _, _, _, _, hd⟩
  · rw [he]; exact ⟨by simp, by simp⟩
  · rw [hd]; exact resOf_cases _ _

/-! ### the token stack -/

/-- every state on the chain `tokenState :: tokenStack` other than `tokenTopValue` has something below it -/
def ChainOK : List TokState → Prop
  | [] => True
  | s :: rest => (s ≠ .topValue → rest ≠ []) ∧ ChainOK rest

def Inv (D : Dec) : Prop := ChainOK (D.tokenState :: D.tokenStack)

theorem inv_new (x : Bytes) : Inv (Dec.new x) := ⟨fun h => absurd rfl h, trivial⟩

/-- a change of the token state that does not leave `tokenTopValue` keeps the invariant -/
theorem inv_state {D : Dec} (h : Inv D) (s' : TokState) (r : Bytes) (e : Option SErr) (lk : List Bytes)
    (hs : s' ≠ .topValue → D.tokenState ≠ .topValue) :
    Inv { D with rest := r, tokenState := s', err := e, lastKeys := lk } :=
  ⟨fun h' => h.1 (hs h'), h.2⟩

theorem valueEnd_top {s : TokState} (h : valueEnd s ≠ .topValue) : s ≠ .topValue := by
  intro hs; rw [hs] at h; exact h rfl

theorem inv_peek (D : Dec) (h : Inv D) : Inv (peek D).1 := by
  unfold peek
  split
  · exact h
  · exact h

theorem inv_prepareAfterPeek (want : UInt8) (e0 : SErr) (next : TokState) (hn : next ≠ .topValue) (d0 d1 : Dec)
    (o : Option UInt8) (h0 : d0.tokenState ≠ .topValue) (h : Inv d1) (hst : d1.tokenState = d0.tokenState) :
    Inv (prepareAfterPeek want e0 next d1 o).1 := by
  cases o with
  | none => exact h
  | some c =>
    simp only [prepareAfterPeek]
    split
    · exact h
    · exact ⟨fun _ => h.1 (hst ▸ h0), h.2⟩

theorem peek_state (D : Dec) : (peek D).1.tokenState = D.tokenState := by
  unfold peek; split <;> rfl

theorem peek_stack (D : Dec) : (peek D).1.tokenStack = D.tokenStack := by
  unfold peek; split <;> rfl

theorem inv_prepare (D : Dec) (h : Inv D) : Inv (tokenPrepareForDecode D).1 := by
  unfold tokenPrepareForDecode
  split
  · rename_i hs
    dsimp only
    exact inv_prepareAfterPeek 44 _ _ (by decide) D _ _ (by rw [hs]; decide) (inv_peek D h) (peek_state D)
  · split
    · rename_i hs
      dsimp only
      exact inv_prepareAfterPeek 58 _ _ (by decide) D _ _ (by rw [hs]; decide) (inv_peek D h) (peek_state D)
    · exact h

theorem inv_readValue (D : Dec) (h : Inv D) : Inv (readValue D).1 := by
  unfold readValue
  split
  · exact h
  · exact h

theorem inv_decodeRead (t : Target) (D : Dec) (n : Nat) (h : Inv D) : Inv (decodeRead t D n).1 := by
  unfold decodeRead
  split
  · exact ⟨fun h' => h.1 (valueEnd_top h'), h.2⟩
  · exact h
  · exact h

theorem inv_decode (t : Target) (D : Dec) (h : Inv D) : Inv (decode t D).1 := by
  unfold decode
  split
  · exact h
  · dsimp only
    unfold decodeAfterPrepare
    have h1 := inv_prepare D h
    split
    · exact h1
    · split
      · exact h1
      · dsimp only
        unfold decodeAfterRead
        have h2 := inv_readValue _ h1
        split
        · exact h2
        · exact inv_decodeRead t _ _ h2

theorem inv_more (D : Dec) (h : Inv D) : Inv (more D).1 := inv_peek D h

/-! ### `Token` -/

theorem prepare_stack (D : Dec) : (tokenPrepareForDecode D).1.tokenStack = D.tokenStack := by
  unfold tokenPrepareForDecode
  split
  · dsimp only
    unfold prepareAfterPeek
    split
    · exact peek_stack D
    · split
      · exact peek_stack D
      · exact peek_stack D
  · split
    · dsimp only
      unfold prepareAfterPeek
      split
      · exact peek_stack D
      · split
        · exact peek_stack D
        · exact peek_stack D
    · rfl

theorem readValue_stack (D : Dec) : (readValue D).1.tokenStack = D.tokenStack := by
  unfold readValue; split <;> rfl

theorem decodeRead_stack (t : Target) (D : Dec) (n : Nat) : (decodeRead t D n).1.tokenStack = D.tokenStack := by
  unfold decodeRead; split <;> rfl

/-- `Decode` does not touch the token stack -/
theorem decode_stack (t : Target) (D : Dec) : (decode t D).1.tokenStack = D.tokenStack := by
  unfold decode
  split
  · rfl
  · dsimp only
    unfold decodeAfterPrepare
    split
    · exact prepare_stack D
    · split
      · exact prepare_stack D
      · dsimp only
        unfold decodeAfterRead
        split
        · exact (readValue_stack _).trans (prepare_stack D)
        · exact (decodeRead_stack t _ _).trans ((readValue_stack _).trans (prepare_stack D))

/-- neither a Go panic nor the model's fuel -/
def TokGood (r : TokRes) : Prop := r ≠ .panic ∧ r ≠ .fuel

theorem tokGood_ok (t : Tok) : TokGood (.ok t) := ⟨by simp, by simp⟩
theorem tokGood_err (e : SErr) : TokGood (.err e) := ⟨by simp, by simp⟩

theorem tokGood_ofDecode (r : DecRes) (h : r ≠ .panic ∧ r ≠ .fuel) : TokGood (tokOfDecode r) := by
  cases r with
  | ok v => exact tokGood_ok _
  | err e => exact tokGood_err _
  | unmarshalErr e v => exact ⟨by simp [tokOfDecode], by simp [tokOfDecode]⟩
  | panic => exact absurd rfl h.1
  | fuel => exact absurd rfl h.2

theorem inv_tokenValue (D : Dec) (h : Inv D) : Inv (tokenValue D).1 ∧ TokGood (tokenValue D).2 := by
  unfold tokenValue
  split
  · exact ⟨h, tokGood_err _⟩
  · exact ⟨inv_decode .any D h, tokGood_ofDecode _ (decode_total .any D)⟩

theorem inv_tokenKey (D : Dec) (h : Inv D) (hst : D.tokenState ≠ .topValue) :
    Inv (tokenKey D).1 ∧ TokGood (tokenKey D).2 := by
  have h0 : Inv { D with tokenState := .topValue } := ⟨fun h' => absurd rfl h', h.2⟩
  have h1 := inv_decode .str _ h0
  have hstk : (decode .str { D with tokenState := .topValue }).1.tokenStack = D.tokenStack := decode_stack .str _
  have hne : (decode .str { D with tokenState := .topValue }).1.tokenStack ≠ [] := by
    rw [hstk]; exact h.1 hst
  have htot := decode_total .str { D with tokenState := .topValue }
  simp only [tokenKey]
  cases hr : (decode .str { D with tokenState := .topValue }).2 with
  | ok v => exact ⟨⟨fun _ => hne, h1.2⟩, tokGood_ok _⟩
  | err e => exact ⟨⟨fun _ => hne, h1.2⟩, tokGood_err _⟩
  | unmarshalErr e v => exact ⟨⟨fun _ => hne, h1.2⟩, ⟨by simp [tokenKeyFinish], by simp [tokenKeyFinish]⟩⟩
  | panic => exact absurd hr htot.1
  | fuel => exact absurd hr htot.2

theorem inv_push (D : Dec) (s : TokState) (h : Inv D) : Inv (pushState D s) :=
  ⟨fun _ => by simp [pushState], h⟩

theorem inv_pop (D : Dec) (h : Inv D) (hst : D.tokenState ≠ .topValue) : ∃ D1, popState D = some D1 ∧ Inv D1 := by
  have hne := h.1 hst
  unfold popState
  cases hs : D.tokenStack with
  | nil => exact absurd hs hne
  | cons s0 st =>
    refine ⟨_, rfl, ?_⟩
    have h2 : ChainOK (s0 :: st) := by have := h.2; rw [hs] at this; exact this
    exact ⟨fun h' => h2.1 (valueEnd_top h'), h2.2⟩

/-- what one round of `Token` leaves -/
def StepOK (D : Dec) : Dec ⊕ (Dec × TokRes) → Prop
  | .inl D2 => Inv D2 ∧ D2.rest = D.rest.tail
  | .inr x => Inv x.1 ∧ TokGood x.2

theorem tokenStep_total (D : Dec) (c : UInt8) (h : Inv D) : StepOK D (tokenStep D c) := by
  unfold tokenStep
  split
  · split
    · exact ⟨h, tokGood_err _⟩
    · exact ⟨inv_push D _ h, tokGood_ok _⟩
  · split
    · split
      · exact ⟨h, tokGood_err _⟩
      · rename_i hst
        have hnt : D.tokenState ≠ .topValue := by
          intro ht; apply hst; rw [ht]; exact ⟨by decide, by decide⟩
        obtain ⟨D1, hp, hi⟩ := inv_pop D h hnt
        rw [hp]
        exact ⟨hi, tokGood_ok _⟩
    · split
      · split
        · exact ⟨h, tokGood_err _⟩
        · exact ⟨inv_push D _ h, tokGood_ok _⟩
      · split
        · split
          · exact ⟨h, tokGood_err _⟩
          · rename_i hst
            have hnt : D.tokenState ≠ .topValue := by
              intro ht; apply hst; rw [ht]; exact ⟨by decide, by decide⟩
            obtain ⟨D1, hp, hi⟩ := inv_pop D h hnt
            rw [hp]
            exact ⟨hi, tokGood_ok _⟩
        · split
          · split
            · exact ⟨h, tokGood_err _⟩
            · rename_i hst
              have hs : D.tokenState = .objectColon := by simpa using hst
              exact ⟨⟨fun _ => h.1 (by rw [hs]; decide), h.2⟩, rfl⟩
          · split
            · split
              · rename_i hs
                exact ⟨⟨fun _ => h.1 (by rw [hs]; decide), h.2⟩, rfl⟩
              · split
                · rename_i hs
                  exact ⟨⟨fun _ => h.1 (by rw [hs]; decide), h.2⟩, rfl⟩
                · exact ⟨h, tokGood_err _⟩
            · split
              · rename_i hk
                have hnt : D.tokenState ≠ .topValue := by
                  rcases hk.2 with h' | h' <;> rw [h'] <;> decide
                exact inv_tokenKey D h hnt
              · exact inv_tokenValue D h

theorem peek_rest_len (D : Dec) : (peek D).1.rest.length ≤ D.rest.length := by
  cases hs : skipWs D.rest with
  | nil => rw [peek_nil D hs]; exact Nat.le_refl _
  | cons c cs =>
    rw [peek_cons D c cs hs]
    simp only
    rw [← hs]
    exact skipWs_length D.rest

theorem peek_some_ne (D : Dec) (c : UInt8) (h : (peek D).2 = some c) : (peek D).1.rest ≠ [] := by
  cases hs : skipWs D.rest with
  | nil => rw [peek_nil D hs] at h; cases h
  | cons c' cs => rw [peek_cons D c' cs hs]; simp

theorem tokenLoop_total : ∀ (f : Nat) (D : Dec), Inv D → D.rest.length < f →
    Inv (tokenLoop f D).1 ∧ TokGood (tokenLoop f D).2 := by
  intro f
  induction f with
  | zero => intro D _ hl; omega
  | succ f ih =>
    intro D hi hl
    have hp := inv_peek D hi
    simp only [tokenLoop]
    split
    · exact ⟨hp, tokGood_err _⟩
    · rename_i c hc
      have hst := tokenStep_total (peek D).1 c hp
      split
      · rename_i D2 h2
        rw [h2] at hst
        apply ih D2 hst.1
        rw [hst.2]
        have h1 := peek_rest_len D
        have h3 := peek_some_ne D c hc
        cases hr : (peek D).1.rest with
        | nil => exact absurd hr h3
        | cons a t =>
          rw [hr] at h1
          simp only [List.tail_cons, List.length_cons] at h1 ⊢
          omega
      · rename_i x h2
        rw [h2] at hst
        exact hst

/-- `Token` keeps the invariant and neither panics nor exhausts the loop bound of the model -/
theorem token_total (D : Dec) (h : Inv D) : Inv (token D).1 ∧ TokGood (token D).2 :=
  tokenLoop_total _ D h (Nat.lt_succ_self _)

/-- every call keeps the invariant -/
theorem inv_runStep (D : Dec) (s : Step) (h : Inv D) : Inv (runStep D s).1 := by
  cases s with
  | token => exact (token_total D h).1
  | more => exact inv_more D h
  | decode t => exact inv_decode t D h

theorem inv_runAll : ∀ (prog : List Step) (D : Dec), Inv D → Inv (runAll D prog)
  | [], _, h => h
  | s :: ss, D, h => inv_runAll ss _ (inv_runStep D s h)

/-- **no program ever makes the model panic**: after any calls on a fresh decoder, `Token` returns a token or
an error, `Decode` a value, an error of the stream layer or `unmarshal`'s error -/
theorem program_total (input : Bytes) (prog : List Step) (t : Target) :
    TokGood (token (runAll (Dec.new input) prog)).2 ∧
    (decode t (runAll (Dec.new input) prog)).2 ≠ .panic ∧ (decode t (runAll (Dec.new input) prog)).2 ≠ .fuel :=
  ⟨(token_total _ (inv_runAll prog _ (inv_new input))).2, decode_total t _⟩

end Stream
end Codec
end JP
