import JP.Lemmas.TypedDecPos2

set_option linter.unusedSimpArgs false
set_option linter.unusedVariables false

/-!
# The typed decoder on a well-formed text, part 3: containers, the three loops, the induction

`PosE` / `PosM`: started on the first element / member name of a well-formed sequence, `arrLoop` (slice and
fixed array), `mapLoop` and `structLoop` stop on the closing bracket, whatever the element type, the values
already in the target, the index, the keys — or they `return` an error.  `pos_all`: the induction over the
reference parser.
-/

namespace JP
namespace Codec
namespace TDec

open Scanner
open JP.Codec.Typed
open JP.C17 (decodable decodableF structSettable lastField)

/-- the decoder has just read the closing bracket (opcode `op`) at index `n - 1` -/
def EndQ (data : Bytes) (n : Nat) (stk : List Nat) (op : Nat) (D : DState) : Prop :=
  ∃ se lk, D = atD data n (afterClose stk, op) se lk

/-! ### white space after a value -/

theorem skipSpaceIf_ev_ws (data pre : Bytes) (y : UInt8) (r0 : Bytes) (y' : UInt8) (post' : Bytes) (p : Nat)
    (stk : List Nat) (ws : Bytes) (hr : y :: r0 = ws ++ y' :: post') (hws : ∀ b ∈ ws, isWs b = true)
    (hy' : isWs y' = false) (hdata : data = pre ++ y :: r0) (se : Option DErr) (lk : List Bytes) :
    skipSpaceIf (atD data (pre.length + 1) (step (ev (p :: stk)) y) se lk) =
      atD data ((pre ++ ws).length + 1) (step (ev (p :: stk)) y') se lk := by
  subst hdata
  cases ws with
  | nil =>
    simp only [List.nil_append, List.cons.injEq] at hr
    obtain ⟨rfl, rfl⟩ := hr
    have : (step (ev (p :: stk)) y).2 ≠ scanSkipSpace := step_nonws_ne_skip _ _ hy'
    simp only [skipSpaceIf, atD_opcode, this, if_false, List.append_nil]
  | cons w ws =>
    simp only [List.cons_append, List.cons.injEq] at hr
    obtain ⟨rfl, rfl⟩ := hr
    have hw : step (ev (p :: stk)) y = (ev (p :: stk), scanSkipSpace) :=
      step_ev_ws p stk y (hws y (List.mem_cons_self ..))
    simp only [skipSpaceIf, atD_opcode, hw, if_true]
    have e1 : pre ++ y :: (ws ++ y' :: post') = (pre ++ [y]) ++ (ws ++ y' :: post') := by simp
    have e2 : pre.length + 1 = (pre ++ [y]).length := by simp
    rw [e1, e2, scanWhile_ws (pre ++ [y]) ws y' post' (ev (p :: stk)) scanSkipSpace se lk
      (fun b hb => hws b (List.mem_cons_of_mem _ hb)) (fun c hc => step_ev_ws p stk c hc)
      (step_nonws_ne_skip _ _ hy')]
    simp

theorem postQ_skipSpaceIf (data pre : Bytes) (y : UInt8) (r0 : Bytes) (y' : UInt8) (post' : Bytes) (p : Nat)
    (stk : List Nat) (ws : Bytes) (hdata : data = pre ++ y :: r0) (hr : y :: r0 = ws ++ y' :: post')
    (hws : ∀ b ∈ ws, isWs b = true) (hy' : isWs y' = false) (d2 : DState)
    (hq : PostQ data pre.length (p :: stk) (y :: r0) d2) :
    ∃ se lk, skipSpaceIf d2 = atD data ((pre ++ ws).length + 1) (step (ev (p :: stk)) y') se lk := by
  obtain ⟨se, lk, hpost⟩ := hq
  have hD2 := hpost.eq y r0 rfl
  exact ⟨se, lk, by rw [hD2]; exact skipSpaceIf_ev_ws data pre y r0 y' post' p stk ws hr hws hy' hdata se lk⟩

/-! ### unfolding `value`, `array`, `object` -/

theorem value_arr_post (Q : DState → Prop) (G : Nat) (t : GoType) (cur : DV) (cs : Bool) (D : DState)
    (hop : D.opcode = scanBeginArray) (h : RPost (fun d1 => Q (scanNext d1)) (array G t cur cs D)) :
    RPost Q (value (G + 1) t cur cs D) := by
  simp only [value, hop, if_true]
  generalize array G t cur cs D = r at h ⊢
  cases r <;> exact h

theorem value_obj_post (Q : DState → Prop) (G : Nat) (t : GoType) (cur : DV) (cs : Bool) (D : DState)
    (hop : D.opcode = scanBeginObject) (h : RPost (fun d1 => Q (scanNext d1)) (object G t cur cs D)) :
    RPost Q (value (G + 1) t cur cs D) := by
  have e1 : (scanBeginObject = scanBeginArray) = False := by decide
  simp only [value, hop, e1, if_false, if_true]
  generalize object G t cur cs D = r at h ⊢
  cases r <;> exact h

theorem array_post (Q : DState → Prop) (G : Nat) (t : GoType) (cur : DV) (cs : Bool) (D : DState) (hinv : Inv t cur cs)
    (hI : EPost Q (arrayInterface G D []))
    (hL : ∀ isSlice e xs sp, decodable e = true → typedAll e xs = true → typedAll e sp = true →
      RPost Q (arrLoop G isSlice e xs sp 0 D))
    (hE : ∀ k v, RPost Q (typeErrorSkip k v D)) : RPost Q (array (G + 1) t cur cs D) := by
  obtain ⟨hd, hty, hcs⟩ := hinv
  simp only [array]
  have h0 : (t.isPtr && !cs) = false := by
    cases hp : t.isPtr with
    | false => rfl
    | true => simp [hcs hp]
  simp only [h0, Bool.false_eq_true, if_false]
  have hb := derefV_typed t cur hty
  have hdd := decodable_derefT t hd
  generalize derefV t cur = bv at hb ⊢
  generalize hbt : derefT t = bt at hb hdd ⊢
  cases bt with
  | iface =>
    simp only []
    generalize arrayInterface G D [] = r at hI ⊢
    cases r with
    | ok p => obtain ⟨d1, vs⟩ := p; exact hI
    | panic => exact hI
    | fuel => exact hI
  | slice e =>
    simp only []
    obtain ⟨h1, h2⟩ := sliceParts_typed e bv hb
    have := hL true e _ _ (by simpa [decodable] using hdd) h1 h2
    generalize arrLoop G true e (sliceXs bv) (sliceSpare bv) 0 D = r at this ⊢
    cases r <;> exact this
  | array n e =>
    simp only []
    obtain ⟨h1, h2⟩ := arrParts_typed n e bv hb
    have := hL false e _ [] (by simpa [decodable] using hdd) h1 rfl
    generalize arrLoop G false e (arrXs bv) [] 0 D = r at this ⊢
    cases r <;> exact this
  | _ => exact hE _ _

theorem object_post (Q : DState → Prop) (hQlk : ∀ d keys, Q d → Q { d with lastKeys := keys }) (G : Nat) (t : GoType)
    (cur : DV) (cs : Bool) (D : DState) (hinv : Inv t cur cs)
    (hI : EPost Q (objectInterface G D []))
    (hM : ∀ kt e ms, decodable e = true → RPost Q (mapLoop G kt e ms [] D))
    (hS : ∀ n fs sv, decodable (.struct n fs) = true → DV.typed (.struct n fs) sv = true →
      RPost Q (structLoop G (.struct n fs) (typeFields (.struct n fs)) sv D))
    (hE : ∀ k v, RPost Q (typeErrorSkip k v D)) : RPost Q (object (G + 1) t cur cs D) := by
  obtain ⟨hd, hty, hcs⟩ := hinv
  simp only [object]
  have h0 : (t.isPtr && !cs) = false := by
    cases hp : t.isPtr with
    | false => rfl
    | true => simp [hcs hp]
  simp only [h0, Bool.false_eq_true, if_false]
  have hb := derefV_typed t cur hty
  have hdd := decodable_derefT t hd
  generalize derefV t cur = bv at hb ⊢
  generalize hbt : derefT t = bt at hb hdd ⊢
  cases bt with
  | iface =>
    simp only []
    generalize objectInterface G D [] = r at hI ⊢
    cases r with
    | ok p => obtain ⟨d1, vs⟩ := p; exact hI
    | panic => exact hI
    | fuel => exact hI
  | map kt e =>
    simp only []
    have := hM kt e (mapMs bv) (by simpa [decodable] using hdd)
    generalize mapLoop G kt e (mapMs bv) [] D = r at this ⊢
    cases r with
    | ok d1 r => exact hQlk _ _ this
    | abort d1 r err => exact True.intro
    | panic => exact this
    | fuel => exact this
  | struct n fs =>
    simp only []
    rw [RPost_map]
    exact hS n fs bv hdd hb
  | _ => exact hE _ _

/-- a container: `skip` is known, `d.value(v)` is given -/
theorem consumes_container (Q : DState → Prop) (hQ : SaveClosed Q) (G : Nat) (D : DState)
    (hop : D.opcode = scanBeginArray ∨ D.opcode = scanBeginObject)
    (hsk : ∃ d1, skip D = .ok d1 ∧ Q (scanNext d1))
    (hval : ∀ t cur cs, Inv t cur cs → RPost Q (value G t cur cs D)) : Consumes G Q D := by
  obtain ⟨d1, h, hq⟩ := hsk
  refine ⟨hval, ?_, ?_⟩
  · simp only [valueSkip, hop, if_true, h]; exact hq
  · intro t cur cs _
    simp only [quotedValue, hop, if_true, h]
    exact hQ _ _ hq

theorem typeErrorSkip_post (k : JKind) (v : DV) (data : Bytes) (m : Nat) (r : Scanner.Scan × Nat) (se : Option DErr)
    (lk : List Bytes) (n : Nat) (stk : List Nat) (cop : Nat)
    (hskip : ∀ se', skip (atD data m r se' lk) = .ok (atD data n (afterClose stk, cop) se' lk)) :
    RPost (EndQ data n stk cop) (typeErrorSkip k v (atD data m r se lk)) := by
  simp only [typeErrorSkip, saveError_atD, atD_off, hskip]
  exact ⟨_, _, rfl⟩

theorem scanNext_lastKeys (d : DState) (keys : List Bytes) :
    scanNext { d with lastKeys := keys } = { scanNext d with lastKeys := keys } := by
  simp only [scanNext]
  split <;> rfl

theorem postQ_lastKeys (data : Bytes) (n : Nat) (stk : List Nat) (rest : Bytes) (d : DState) (keys : List Bytes)
    (h : PostQ data n stk rest (scanNext d)) : PostQ data n stk rest (scanNext { d with lastKeys := keys }) := by
  obtain ⟨se, lk, hp⟩ := h
  rw [scanNext_lastKeys]
  exact ⟨se, keys, ⟨hp.data, hp.se, rfl, hp.pos⟩⟩

/-! ### one turn of the loops -/

theorem memberStep_typed (G : Nat) (t : GoType) (flds : List Fld) (cur : DV) (key : Bytes) (d4 : DState)
    (h : DV.typed t cur = true) : R.All (fun w => DV.typed t w = true) (memberStep (value G) t flds cur key d4) := by
  simp only [memberStep]
  cases findField flds key with
  | none =>
    simp only []
    rw [R.All_map]
    cases valueSkip d4 <;> simp [R.All, h]
  | some f =>
    simp only []
    refine atPath_typed _ _ ?_ f.index t cur true d4 h
    intro t' cur' cs' d' h'
    split
    · exact quotedValue_typed t' cur' cs' d' h'
    · exact (TDec.typed_all G).1 t' cur' cs' d' h'

theorem arrLoop_done (G : Nat) (isSlice : Bool) (e : GoType) (xs spare : List DV) (i : Nat) (d0 D1 : DState)
    (h1 : scanWhile scanSkipSpace d0 = D1) (hop : D1.opcode = scanEndArray) :
    arrLoop (G + 1) isSlice e xs spare i d0 = .ok D1 (xs, spare, i) := by
  simp only [arrLoop, h1, hop, if_true]

theorem mapLoop_done (G : Nat) (kt : KeyType) (e : GoType) (ms : List (MapKey × DV)) (keys : List Bytes) (d0 D1 : DState)
    (h1 : scanWhile scanSkipSpace d0 = D1) (hop : D1.opcode = scanEndObject) :
    mapLoop (G + 1) kt e ms keys d0 = .ok D1 (ms, keys) := by
  simp only [mapLoop, h1, hop, if_true]

theorem structLoop_done (G : Nat) (t : GoType) (flds : List Fld) (cur : DV) (d0 D1 : DState)
    (h1 : scanWhile scanSkipSpace d0 = D1) (hop : D1.opcode = scanEndObject) :
    structLoop (G + 1) t flds cur d0 = .ok D1 cur := by
  simp only [structLoop, h1, hop, if_true]

theorem arrLoop_post (Q P : DState → Prop) (G : Nat) (isSlice : Bool) (e : GoType) (xs spare : List DV) (i : Nat)
    (d0 D1 : DState) (hde : decodable e = true) (hx : typedAll e xs = true) (hs : typedAll e spare = true)
    (h1 : scanWhile scanSkipSpace d0 = D1) (hop : D1.opcode ≠ scanEndArray) (hcons : Consumes G P D1)
    (hnext : ∀ d2, P d2 → ((skipSpaceIf d2).opcode = scanEndArray ∧ Q (skipSpaceIf d2)) ∨
      ((skipSpaceIf d2).opcode = scanArrayValue ∧ ∀ xs2 sp2, typedAll e xs2 = true → typedAll e sp2 = true →
        RPost Q (arrLoop G isSlice e xs2 sp2 (i + 1) (skipSpaceIf d2)))) :
    RPost Q (arrLoop (G + 1) isSlice e xs spare i d0) := by
  simp only [arrLoop, h1, hop, if_false]
  have hg : typedAll e (if isSlice = true then growSlice e xs spare i else (xs, spare)).1 = true ∧
      typedAll e (if isSlice = true then growSlice e xs spare i else (xs, spare)).2 = true := by
    cases isSlice with
    | true => exact ⟨(growSlice_typed e xs spare i hx hs).1, (growSlice_typed e xs spare i hx hs).2⟩
    | false => exact ⟨hx, hs⟩
  generalize (if isSlice = true then growSlice e xs spare i else (xs, spare)) = g at hg ⊢
  have hty := elemStep_typed (value G) e (fun cur cs d h => (TDec.typed_all G).1 e cur cs d h) g.1 i D1 hg.1
  have hpost : RPost P (elemStep (value G) e g.1 i D1) := by
    simp only [elemStep]
    cases hgi : g.1[i]? with
    | none => simp only []; rw [RPost_map]; exact hcons.skip
    | some x =>
      simp only []
      rw [RPost_map]
      exact hcons.val e x true ⟨hde, typedAll_get e g.1 i x hg.1 hgi, fun _ => rfl⟩
  generalize elemStep (value G) e g.1 i D1 = r at hty hpost ⊢
  cases r with
  | panic => exact hpost
  | fuel => exact hpost
  | abort d2 xs2 err => exact True.intro
  | ok d2 xs2 =>
    simp only []
    rcases hnext d2 hpost with ⟨ho, hq⟩ | ⟨ho, hrec⟩
    · simp only [ho, if_true]; exact hq
    · have e1 : (scanArrayValue = scanEndArray) = False := by decide
      simp only [ho, e1, if_false, ne_eq, not_true_eq_false]
      exact hrec xs2 g.2 hty.1 hg.2

theorem mapLoop_post (Q P : DState → Prop) (hP : SaveClosed P) (G : Nat) (kt : KeyType) (e : GoType)
    (ms : List (MapKey × DV)) (keys : List Bytes) (d0 D1 D4 : DState) (key : Bytes) (start : Nat)
    (hde : decodable e = true) (h1 : scanWhile scanSkipSpace d0 = D1) (hop1 : D1.opcode = scanBeginLiteral)
    (hrk : readKey D1 = .ok (D4, key, start)) (hcons : Consumes G P D4)
    (hnext : ∀ d5, P d5 → ((skipSpaceIf d5).opcode = scanEndObject ∧ Q (skipSpaceIf d5)) ∨
      ((skipSpaceIf d5).opcode = scanObjectValue ∧ ∀ ms2 keys2, RPost Q (mapLoop G kt e ms2 keys2 (skipSpaceIf d5)))) :
    RPost Q (mapLoop (G + 1) kt e ms keys d0) := by
  have e1 : (scanBeginLiteral = scanEndObject) = False := by decide
  simp only [mapLoop, h1, hop1, e1, if_false, ne_eq, not_true_eq_false, hrk]
  have hv := hcons.val e (zeroDV e) true ⟨hde, zero_typed e, fun _ => rfl⟩
  generalize value G e (zeroDV e) true D4 = r at hv ⊢
  cases r with
  | panic => exact hv
  | fuel => exact hv
  | abort d5 v err => exact True.intro
  | ok d5 v =>
    simp only []
    have hP5 : P (storeEntry kt key start v ms d5).1 := by
      simp only [storeEntry]
      split
      · exact hv
      · exact hP _ _ hv
    generalize storeEntry kt key start v ms d5 = se5 at hP5 ⊢
    rcases hnext _ hP5 with ⟨ho, hq⟩ | ⟨ho, hrec⟩
    · simp only [ho, if_true]; exact hq
    · have e2 : (scanObjectValue = scanEndObject) = False := by decide
      simp only [ho, e2, if_false, ne_eq, not_true_eq_false]
      exact hrec _ _

theorem structLoop_post (Q P : DState → Prop) (G : Nat) (n : Bytes) (fs : List (FieldInfo × GoType)) (cur : DV)
    (d0 D1 D4 : DState) (key : Bytes) (start : Nat)
    (hd : decodable (.struct n fs) = true) (hc : DV.typed (.struct n fs) cur = true)
    (h1 : scanWhile scanSkipSpace d0 = D1) (hop1 : D1.opcode = scanBeginLiteral)
    (hrk : readKey D1 = .ok (D4, key, start)) (hcons : Consumes G P D4) (hcons' : Consumes G P (D4.saveError .other))
    (hnext : ∀ d5, P d5 → ((skipSpaceIf d5).opcode = scanEndObject ∧ Q (skipSpaceIf d5)) ∨
      ((skipSpaceIf d5).opcode = scanObjectValue ∧ ∀ v, DV.typed (.struct n fs) v = true →
        RPost Q (structLoop G (.struct n fs) (typeFields (.struct n fs)) v (skipSpaceIf d5)))) :
    RPost Q (structLoop (G + 1) (.struct n fs) (typeFields (.struct n fs)) cur d0) := by
  have e1 : (scanBeginLiteral = scanEndObject) = False := by decide
  simp only [structLoop, h1, hop1, e1, if_false, ne_eq, not_true_eq_false, hrk]
  have hm := memberStep_post P G n fs hd cur hc key D4 hcons hcons'
  have hty := memberStep_typed G (.struct n fs) (typeFields (.struct n fs)) cur key D4 hc
  generalize memberStep (value G) (.struct n fs) (typeFields (.struct n fs)) cur key D4 = r at hm hty ⊢
  cases r with
  | panic => exact hm
  | fuel => exact hm
  | abort d5 v err => exact True.intro
  | ok d5 v =>
    simp only []
    rcases hnext d5 hm with ⟨ho, hq⟩ | ⟨ho, hrec⟩
    · simp only [ho, if_true]; exact hq
    · have e2 : (scanObjectValue = scanEndObject) = False := by decide
      simp only [ho, e2, if_false, ne_eq, not_true_eq_false]
      exact hrec v hty

/-! ### the statements about element and member sequences -/

def PosE (f dd : Nat) (bs : Bytes) (xs : List Cst) (rest : Bytes) : Prop :=
  parseElems f dd bs = some (xs, rest) →
  ∀ stk : List Nat, stk.length + 1 = dd → ∀ (pre : Bytes) (x : UInt8) (bs' : Bytes), bs = x :: bs' →
    ∃ et, bs = et ++ rest ∧ ∀ (se : Option DErr) (lk : List Bytes) (G : Nat), 3 * f + 1 ≤ G →
      ∀ (isSlice : Bool) (e : GoType) (xs0 spare : List DV) (i : Nat) (d0 : DState),
      decodable e = true → typedAll e xs0 = true → typedAll e spare = true →
      scanWhile scanSkipSpace d0 = atD (pre ++ bs) (pre.length + 1) (step (bv (2 :: stk)) x) se lk →
      RPost (EndQ (pre ++ bs) (pre ++ et).length stk scanEndArray) (arrLoop G isSlice e xs0 spare i d0)

def PosM (f dd : Nat) (bs : Bytes) (ms : List (Bytes × Cst)) (rest : Bytes) : Prop :=
  parseMembers f dd bs = some (ms, rest) →
  ∀ stk : List Nat, stk.length + 1 = dd → ∀ (pre : Bytes) (bs' : Bytes), bs = 34 :: bs' →
    ∃ mt, bs = mt ++ rest ∧ ∀ (se : Option DErr) (lk : List Bytes) (G : Nat), 3 * f + 1 ≤ G → ∀ d0 : DState,
      scanWhile scanSkipSpace d0 =
        atD (pre ++ bs) (pre.length + 1) (step (mk .stateBeginString (0 :: stk)) 34) se lk →
      (∀ kt e ms0 keys, decodable e = true →
        RPost (EndQ (pre ++ bs) (pre ++ mt).length stk scanEndObject) (mapLoop G kt e ms0 keys d0)) ∧
      (∀ n fs cur, decodable (.struct n fs) = true → DV.typed (.struct n fs) cur = true →
        RPost (EndQ (pre ++ bs) (pre ++ mt).length stk scanEndObject)
          (structLoop G (.struct n fs) (typeFields (.struct n fs)) cur d0))

/-! ### arrays -/

theorem pos_elast (f d : Nat) (bs : Bytes) (c : Cst) (r r' : Bytes) (hv : parseValue f d bs = some (c, r))
    (ih : PosV f d bs c r) (h93 : skipWs r = 93 :: r') : PosE (f + 1) d bs [c] r' := by
  intro _ stk hstk pre x bs' hx
  obtain ⟨vt, hbs, hstart, hcons⟩ := ih hv (2 :: stk) (by simpa using hstk) (valueStk_two stk) pre x bs' hx
    (delimW_of_skipWs r r' 93 h93 (by simp))
  obtain ⟨y, r0, rfl⟩ := skipWs_cons_ne_nil h93
  obtain ⟨ws, hr, hws, hy93⟩ := skipWs_split (y :: r0) 93 r' h93
  have hdata : pre ++ bs = (pre ++ vt) ++ y :: r0 := by rw [hbs]; simp
  refine ⟨vt ++ ws ++ [93], by rw [hbs, hr]; simp, ?_⟩
  intro se lk G hG isSlice e xs0 spare i d0 hde hx0 hsp hd0
  obtain ⟨G, rfl⟩ : ∃ G', G = G' + 1 := ⟨G - 1, by omega⟩
  refine arrLoop_post _ (PostQ (pre ++ bs) (pre ++ vt).length (2 :: stk) (y :: r0)) G isSlice e xs0 spare i d0 _
    hde hx0 hsp hd0 (startOp_ne_endArray hstart) (hcons se lk G (by omega)) ?_
  intro d2 hq
  obtain ⟨se', lk', hskip⟩ := postQ_skipSpaceIf (pre ++ bs) (pre ++ vt) y r0 93 r' 2 stk ws hdata hr hws hy93 d2 hq
  rw [step_ev_arr_rbrack] at hskip
  left
  rw [hskip]
  refine ⟨rfl, se', lk', ?_⟩
  have : (pre ++ vt ++ ws).length + 1 = (pre ++ (vt ++ ws ++ [93])).length := by
    simp only [List.length_append, List.length_cons, List.length_nil]; omega
  rw [this]

theorem pos_emore (f d : Nat) (bs : Bytes) (c : Cst) (r r' : Bytes) (xs : List Cst) (rest : Bytes)
    (hv : parseValue f d bs = some (c, r)) (ih : PosV f d bs c r) (h44 : skipWs r = 44 :: r')
    (hpe : parseElems f d (skipWs r') = some (xs, rest)) (ihE : PosE f d (skipWs r') xs rest) :
    PosE (f + 1) d bs (c :: xs) rest := by
  intro _ stk hstk pre x bs' hx
  obtain ⟨vt, hbs, hstart, hcons⟩ := ih hv (2 :: stk) (by simpa using hstk) (valueStk_two stk) pre x bs' hx
    (delimW_of_skipWs r r' 44 h44 (by simp))
  obtain ⟨y, r0, rfl⟩ := skipWs_cons_ne_nil h44
  obtain ⟨ws, hr, hws, hy44⟩ := skipWs_split (y :: r0) 44 r' h44
  have hdata : pre ++ bs = (pre ++ vt) ++ y :: r0 := by rw [hbs]; simp
  obtain ⟨x2, b2, hx2⟩ := parseElems_cons_of_some hpe
  obtain ⟨ws', hr', hws'⟩ := skipWs_prefix r'
  have hx2ws : isWs x2 = false := skipWs_head_nonws r' x2 b2 hx2
  have hdata2 : pre ++ bs = (pre ++ vt ++ ws ++ [44]) ++ (ws' ++ x2 :: b2) := by
    rw [hbs, hr, hr', hx2]; simp
  have hdata3 : pre ++ bs = (pre ++ vt ++ ws ++ [44] ++ ws') ++ skipWs r' := by rw [hdata2, hx2]; simp
  obtain ⟨et', het', hloop⟩ := ihE hpe stk hstk (pre ++ vt ++ ws ++ [44] ++ ws') x2 b2 hx2
  refine ⟨vt ++ ws ++ [44] ++ ws' ++ et', by rw [hbs, hr, hr', het']; simp, ?_⟩
  intro se lk G hG isSlice e xs0 spare i d0 hde hx0 hsp hd0
  obtain ⟨G, rfl⟩ : ∃ G', G = G' + 1 := ⟨G - 1, by omega⟩
  refine arrLoop_post _ (PostQ (pre ++ bs) (pre ++ vt).length (2 :: stk) (y :: r0)) G isSlice e xs0 spare i d0 _
    hde hx0 hsp hd0 (startOp_ne_endArray hstart) (hcons se lk G (by omega)) ?_
  intro d2 hq
  obtain ⟨se1, lk1, hskip⟩ := postQ_skipSpaceIf (pre ++ bs) (pre ++ vt) y r0 44 r' 2 stk ws hdata hr hws hy44 d2 hq
  rw [step_ev_arr_comma] at hskip
  right
  rw [hskip]
  refine ⟨rfl, ?_⟩
  intro xs2 sp2 hx2t hsp2
  have hsw := scanWhile_ws' (pre ++ bs) (pre ++ vt ++ ws ++ [44]) ws' x2 b2 (bv (2 :: stk)) scanArrayValue se1 lk1
    hdata2 hws' (fun c hc => step_bv_ws (2 :: stk) c hc) hx2ws
  have hlen : (pre ++ vt ++ ws ++ [44]).length = (pre ++ vt ++ ws).length + 1 := by
    simp only [List.length_append, List.length_cons, List.length_nil]
  rw [hlen] at hsw
  rw [hdata3] at hsw
  have h := hloop se1 lk1 G (by omega) isSlice e xs2 sp2 (i + 1) _ hde hx2t hsp2 hsw
  rw [← hdata3] at h
  have hn : (pre ++ vt ++ ws ++ [44] ++ ws' ++ et').length = (pre ++ (vt ++ ws ++ [44] ++ ws' ++ et')).length := by
    simp only [List.append_assoc]
  rw [hn] at h
  exact h

/-- an array, given what the loop does on its elements -/
theorem pos_arr_of_loop (F d : Nat) (cs : Bytes) (xs : List Cst) (rest : Bytes)
    (hp : parseValue F d (91 :: cs) = some (.arr xs, rest)) (hd : d + 1 ≤ maxDepth) (hF : 1 ≤ F)
    (stk : List Nat) (hstk : stk.length = d) (hvs : ValueStk stk) (pre : Bytes) (hdl : DelimW rest)
    (hloop : ∀ vt, 91 :: cs = vt ++ rest → ∀ (se : Option DErr) (lk : List Bytes) (G : Nat), 3 * F ≤ G + 2 →
      ∀ (isSlice : Bool) (e : GoType) (xs0 sp : List DV), decodable e = true → typedAll e xs0 = true →
        typedAll e sp = true →
        RPost (EndQ (pre ++ 91 :: cs) (pre ++ vt).length stk scanEndArray)
          (arrLoop G isSlice e xs0 sp 0
            (atD (pre ++ 91 :: cs) (pre.length + 1) (mk .stateBeginValueOrEmpty (2 :: stk), scanBeginArray) se lk))) :
    ∃ vt, 91 :: cs = vt ++ rest ∧ StartOp (step (bv stk) 91).2 ∧
      ∀ (se : Option DErr) (lk : List Bytes) (G : Nat), 3 * F ≤ G →
        Consumes G (PostQ (pre ++ 91 :: cs) (pre ++ vt).length stk rest)
          (atD (pre ++ 91 :: cs) (pre.length + 1) (step (bv stk) 91) se lk) := by
  obtain ⟨vt, hbs, hend, hre⟩ := (split_all F).1 d _ _ rest hp
  obtain ⟨e0, inner, rfl⟩ := head_of_append (endsNonWs_ne_nil hend)
  have hbs' := hbs
  simp only [List.cons_append, List.cons.injEq] at hbs'
  obtain ⟨rfl, rfl⟩ := hbs'
  have heq := fun rest' hdl' => trace_of_split (91 :: inner) (.arr xs) d hre stk (by omega) rest' hdl'
  have hskip := fun se' lk' => skip_arr stk hvs (by omega) pre inner rest xs heq hend se' lk'
  have h0 := step_lbrack_ok stk (by omega)
  refine ⟨91 :: inner, rfl, by rw [h0]; exact .inr (.inr rfl), ?_⟩
  intro se lk G hG
  obtain ⟨G, rfl⟩ : ∃ G', G = G' + 2 := ⟨G - 2, by omega⟩
  rw [h0]
  simp only [h0] at hskip
  have hnext : ∀ d1, EndQ (pre ++ (91 :: inner ++ rest)) (pre ++ 91 :: inner).length stk scanEndArray d1 →
      PostQ (pre ++ (91 :: inner ++ rest)) (pre ++ 91 :: inner).length stk rest (scanNext d1) := by
    intro d1 hq
    obtain ⟨se', lk', h⟩ := hq
    rw [h]
    exact ⟨se', lk', postV_scanNext pre (91 :: inner) rest stk scanEndArray se' lk'⟩
  refine consumes_container _ (postQ_saveClosed _ _ _ _) (G + 2) _ (.inl rfl)
    ⟨_, hskip se lk, hnext _ ⟨se, lk, rfl⟩⟩ ?_
  intro t cur cs' hinv
  refine value_arr_post _ (G + 1) t cur cs' _ rfl ?_
  refine array_post _ G t cur cs' _ hinv ?_ ?_ ?_
  · obtain ⟨vt2, D', v, hvt2, _, hval, hview, hpost⟩ := (iface_all F).1 d _ _ rest hp stk hstk pre 91
      (inner ++ rest) rfl se lk (G + 1) (by omega) hdl
    have : vt2 = 91 :: inner := List.append_cancel_right (by rw [← hvt2]; simp)
    subst this
    rw [h0] at hval
    simp only [valueInterface, atD_opcode, if_true] at hval
    cases hai : arrayInterface G
        (atD (pre ++ 91 :: (inner ++ rest)) (pre.length + 1) (mk St.stateBeginValueOrEmpty (2 :: stk), scanBeginArray) se lk) [] with
    | ok p =>
      obtain ⟨d1, vs⟩ := p
      rw [hai] at hval
      simp only [Exec.ok.injEq, Prod.mk.injEq] at hval
      show PostQ _ _ _ _ (scanNext d1)
      rw [hval.1]
      exact ⟨se, lk, hpost⟩
    | panic => rw [hai] at hval; cases hval
    | fuel => rw [hai] at hval; cases hval
  · intro isSlice e xs0 sp hde hx0 hsp
    exact RPost_mono _ _ hnext _ (hloop (91 :: inner) rfl se lk G (by omega) isSlice e xs0 sp hde hx0 hsp)
  · intro k v
    exact RPost_mono _ _ hnext _ (typeErrorSkip_post k v _ _ _ se lk _ stk scanEndArray (fun se' => hskip se' lk))

theorem pos_arr0 (f d : Nat) (cs r : Bytes) (hd : d + 1 ≤ maxDepth) (hs : skipWs cs = 93 :: r) :
    PosV (f + 1) d (91 :: cs) (.arr []) r := by
  intro hp stk hstk hvs pre x bs' hx hdl
  simp only [List.cons.injEq] at hx
  obtain ⟨rfl, rfl⟩ := hx
  refine pos_arr_of_loop (f + 1) d cs [] r hp hd (by omega) stk hstk hvs pre hdl ?_
  intro vt hvt se lk G hG isSlice e xs0 sp _ _ _
  obtain ⟨G, rfl⟩ : ∃ G', G = G' + 1 := ⟨G - 1, by omega⟩
  obtain ⟨ws, hcs, hws, _⟩ := skipWs_split cs 93 r hs
  have hdata : pre ++ 91 :: cs = (pre ++ [91]) ++ (ws ++ 93 :: r) := by rw [hcs]; simp
  have hsw := scanWhile_ws' (pre ++ 91 :: cs) (pre ++ [91]) ws 93 r (mk .stateBeginValueOrEmpty (2 :: stk))
    scanBeginArray se lk hdata hws (fun c hc => step_bvoe_ws (2 :: stk) c hc) (by decide)
  rw [step_bvoe_rbrack] at hsw
  have hlen : (pre ++ [91]).length = pre.length + 1 := by simp
  rw [hlen] at hsw
  rw [arrLoop_done G isSlice e xs0 sp 0 _ _ hsw rfl]
  refine ⟨se, lk, ?_⟩
  have hv : vt = 91 :: ws ++ [93] := List.append_cancel_right (by rw [← hvt, hcs]; simp)
  subst hv
  have : (pre ++ [91] ++ ws).length + 1 = (pre ++ (91 :: ws ++ [93])).length := by
    simp only [List.length_append, List.length_cons, List.length_nil]; omega
  rw [this]

theorem pos_arr (f d : Nat) (cs : Bytes) (xs : List Cst) (rest : Bytes) (hd : d + 1 ≤ maxDepth)
    (hs : ∀ r, skipWs cs ≠ 93 :: r) (hpe : parseElems f (d + 1) (skipWs cs) = some (xs, rest))
    (ih : PosE f (d + 1) (skipWs cs) xs rest) : PosV (f + 1) d (91 :: cs) (.arr xs) rest := by
  intro hp stk hstk hvs pre x bs' hx hdl
  simp only [List.cons.injEq] at hx
  obtain ⟨rfl, rfl⟩ := hx
  refine pos_arr_of_loop (f + 1) d cs xs rest hp hd (by omega) stk hstk hvs pre hdl ?_
  intro vt hvt se lk G hG isSlice e xs0 sp hde hx0 hsp
  obtain ⟨x2, b2, hx2⟩ := parseElems_cons_of_some hpe
  obtain ⟨ws, hcs, hws⟩ := skipWs_prefix cs
  have hx2ws : isWs x2 = false := skipWs_head_nonws cs x2 b2 hx2
  have hx293 : x2 ≠ 93 := fun h => hs b2 (by rw [hx2, h])
  have hdata : pre ++ 91 :: cs = (pre ++ [91]) ++ (ws ++ x2 :: b2) := by rw [hcs, hx2]; simp
  have hsw := scanWhile_ws' (pre ++ 91 :: cs) (pre ++ [91]) ws x2 b2 (mk .stateBeginValueOrEmpty (2 :: stk))
    scanBeginArray se lk hdata hws (fun c hc => step_bvoe_ws (2 :: stk) c hc) hx2ws
  rw [step_bvoe_other (2 :: stk) x2 hx2ws hx293] at hsw
  have hlen : (pre ++ [91]).length = pre.length + 1 := by simp
  rw [hlen] at hsw
  have hdata2 : pre ++ 91 :: cs = (pre ++ [91] ++ ws) ++ skipWs cs := by rw [hdata, hx2]; simp
  rw [hdata2] at hsw
  obtain ⟨et, het, hl⟩ := ih hpe stk (by omega) (pre ++ [91] ++ ws) x2 b2 hx2
  have h := hl se lk G (by omega) isSlice e xs0 sp 0 _ hde hx0 hsp hsw
  rw [← hdata2] at h
  have hv : vt = 91 :: ws ++ et := List.append_cancel_right (by rw [← hvt, hcs, het]; simp)
  subst hv
  have hn : (pre ++ [91] ++ ws ++ et).length = (pre ++ (91 :: ws ++ et)).length := by
    simp only [List.length_append, List.length_cons, List.length_nil]; omega
  rw [hn] at h
  exact h

/-! ### objects -/

theorem readKey_of (D1 D2 D3 D4 : DState) (item key : Bytes) (hres : rescanLiteral D1 = .ok D2)
    (hslice : slice? D2.data D1.readIndex D2.readIndex = some item) (hkey : unquoteBytes item = some key)
    (h3 : skipSpaceIf D2 = D3) (hop3 : D3.opcode = scanObjectKey) (h4 : scanWhile scanSkipSpace D3 = D4) :
    readKey D1 = .ok (D4, key, D1.readIndex) := by
  simp only [readKey, hres, hslice, hkey, h3, hop3, h4, ne_eq, not_true_eq_false, if_false]

/-- the member name, the colon and the white space around it -/
theorem readKey_pos (cs k r r1 : Bytes) (hk : parseStrBody cs = some (k, r)) (h58 : skipWs r = 58 :: r1)
    (xv : UInt8) (bv' : Bytes) (hxv : skipWs r1 = xv :: bv') (stk : List Nat) (pre : Bytes) :
    ∃ mid, 34 :: cs = mid ++ skipWs r1 ∧ ∀ (se : Option DErr) (lk : List Bytes), ∃ start,
      readKey (atD (pre ++ 34 :: cs) (pre.length + 1) (mk .stateInString (0 :: stk), scanBeginLiteral) se lk) =
        .ok (atD (pre ++ 34 :: cs) ((pre ++ mid).length + 1) (step (bv (1 :: stk)) xv) se lk, unquote k, start) := by
  obtain ⟨hcs, hvb⟩ := parseStrBody_split cs k r hk
  obtain ⟨yk, rk0, rfl⟩ := skipWs_cons_ne_nil h58
  obtain ⟨ws1, hr, hws1, h58ws⟩ := skipWs_split (yk :: rk0) 58 r1 h58
  obtain ⟨ws2, hr1, hws2⟩ := skipWs_prefix r1
  have hxvws : isWs xv = false := skipWs_head_nonws r1 xv bv' hxv
  have hdata1 : pre ++ 34 :: cs = pre ++ (strText k ++ yk :: rk0) := by rw [hcs]; simp [strText]
  have hdata2 : pre ++ 34 :: cs = (pre ++ strText k) ++ yk :: rk0 := by rw [hdata1]; simp
  have hdata3 : pre ++ 34 :: cs = (pre ++ strText k ++ ws1 ++ [58]) ++ (ws2 ++ xv :: bv') := by
    rw [hdata2, hr, hr1, hxv]; simp
  refine ⟨strText k ++ ws1 ++ [58] ++ ws2, ?_, ?_⟩
  · have h2 : pre ++ 34 :: cs = pre ++ ((strText k ++ ws1 ++ [58] ++ ws2) ++ skipWs r1) := by
      rw [hdata3, hxv]; simp
    exact List.append_cancel_left h2
  · intro se lk
    have hres := rescan_string pre k (yk :: rk0) hvb (mk .stateInString (0 :: stk)) scanBeginLiteral se lk
    rw [← hdata1, afterLit_cons] at hres
    have hskip1 := skipSpaceIf_ev_ws (pre ++ 34 :: cs) (pre ++ strText k) yk rk0 58 r1 0 stk ws1 hr hws1 h58ws hdata2 se lk
    rw [step_ev_key_colon] at hskip1
    have hsw := scanWhile_ws' (pre ++ 34 :: cs) (pre ++ strText k ++ ws1 ++ [58]) ws2 xv bv' (bv (1 :: stk))
      scanObjectKey se lk hdata3 hws2 (fun c hc => step_bv_ws (1 :: stk) c hc) hxvws
    have hlen : (pre ++ strText k ++ ws1 ++ [58]).length = (pre ++ strText k ++ ws1).length + 1 := by
      simp only [List.length_append, List.length_cons, List.length_nil]
    rw [hlen] at hsw
    have hn : (pre ++ strText k ++ ws1 ++ [58] ++ ws2).length = (pre ++ (strText k ++ ws1 ++ [58] ++ ws2)).length := by
      simp only [List.append_assoc]
    rw [hn] at hsw
    refine ⟨_, readKey_of _ _ _ _ (strText k) (unquote k) hres ?_ (unquoteBytes_strText k hvb) hskip1 rfl hsw⟩
    simp only [DState.readIndex, atD_off, atD_data, Nat.add_sub_cancel]
    rw [hdata1]
    exact slice_mid pre (strText k) (yk :: rk0)

/-- from the member name to the state behind the member's value -/
theorem pos_member (f d : Nat) (cs k r r1 : Bytes) (c : Cst) (r2 : Bytes) (y' : UInt8) (r3 : Bytes)
    (hk : parseStrBody cs = some (k, r)) (h58 : skipWs r = 58 :: r1)
    (hv : parseValue f d (skipWs r1) = some (c, r2)) (ih : PosV f d (skipWs r1) c r2)
    (hy' : skipWs r2 = y' :: r3) (hy'd : y' = 44 ∨ y' = 93 ∨ y' = 125)
    (stk : List Nat) (hstk : stk.length + 1 = d) (pre : Bytes) :
    ∃ (mt : Bytes) (P : DState → Prop), 34 :: cs = mt ++ y' :: r3 ∧ SaveClosed P ∧
      (∀ d5, P d5 → ∃ se lk, skipSpaceIf d5 =
        atD (pre ++ 34 :: cs) ((pre ++ mt).length + 1) (step (ev (1 :: stk)) y') se lk) ∧
      ∀ (se : Option DErr) (lk : List Bytes) (G : Nat), 3 * f ≤ G → ∃ D4 start,
        readKey (atD (pre ++ 34 :: cs) (pre.length + 1) (mk .stateInString (0 :: stk), scanBeginLiteral) se lk) =
          .ok (D4, unquote k, start) ∧ Consumes G P D4 ∧ Consumes G P (D4.saveError .other) := by
  obtain ⟨xv, bv', hxv⟩ := parseValue_cons_of_some hv
  obtain ⟨mid, hmid, hrk⟩ := readKey_pos cs k r r1 hk h58 xv bv' hxv stk pre
  have hdata4 : pre ++ 34 :: cs = (pre ++ mid) ++ skipWs r1 := by rw [hmid]; simp
  obtain ⟨vt, hvt, _, hcons⟩ := ih hv (1 :: stk) (by simpa using hstk) (valueStk_one stk) (pre ++ mid) xv bv' hxv
    (delimW_of_skipWs r2 r3 y' hy' hy'd)
  obtain ⟨y2, r20, rfl⟩ := skipWs_cons_ne_nil hy'
  obtain ⟨ws3, hr2, hws3, hy'ws⟩ := skipWs_split (y2 :: r20) y' r3 hy'
  have hdata5 : pre ++ 34 :: cs = (pre ++ mid ++ vt) ++ y2 :: r20 := by rw [hdata4, hvt]; simp
  refine ⟨mid ++ vt ++ ws3, PostQ (pre ++ 34 :: cs) (pre ++ mid ++ vt).length (1 :: stk) (y2 :: r20), ?_,
    postQ_saveClosed _ _ _ _, ?_, ?_⟩
  · rw [hmid, hvt, hr2]; simp
  · intro d5 hq
    obtain ⟨se, lk, h⟩ := postQ_skipSpaceIf (pre ++ 34 :: cs) (pre ++ mid ++ vt) y2 r20 y' r3 1 stk ws3 hdata5 hr2
      hws3 hy'ws d5 hq
    refine ⟨se, lk, ?_⟩
    rw [h]
    have hn : (pre ++ mid ++ vt ++ ws3).length = (pre ++ (mid ++ vt ++ ws3)).length := by
      simp only [List.append_assoc]
    rw [hn]
  · intro se lk G hG
    have hc := hcons se lk G hG
    have hc' := hcons (saveE se .other) lk G hG
    rw [← hdata4] at hc hc'
    obtain ⟨start, hs⟩ := hrk se lk
    refine ⟨_, start, hs, hc, ?_⟩
    rw [saveError_atD]
    exact hc'

theorem pos_mlast (f d : Nat) (cs k r r1 : Bytes) (c : Cst) (r2 r3 : Bytes)
    (hk : parseStrBody cs = some (k, r)) (h58 : skipWs r = 58 :: r1)
    (hv : parseValue f d (skipWs r1) = some (c, r2)) (ih : PosV f d (skipWs r1) c r2)
    (h125 : skipWs r2 = 125 :: r3) : PosM (f + 1) d (34 :: cs) [(k, c)] r3 := by
  intro _ stk hstk pre bs' hx
  obtain ⟨mt, P, hmt, hP, hafter, hmem⟩ := pos_member f d cs k r r1 c r2 125 r3 hk h58 hv ih h125 (by simp) stk hstk pre
  refine ⟨mt ++ [125], by rw [hmt]; simp, ?_⟩
  intro se lk G hG d0 hd0
  obtain ⟨G, rfl⟩ : ∃ G', G = G' + 1 := ⟨G - 1, by omega⟩
  rw [step_bs_quote] at hd0
  obtain ⟨D4, start, hrk, hc, hc'⟩ := hmem se lk G (by omega)
  have hnext : ∀ d5, P d5 → (skipSpaceIf d5).opcode = scanEndObject ∧
      EndQ (pre ++ 34 :: cs) (pre ++ (mt ++ [125])).length stk scanEndObject (skipSpaceIf d5) := by
    intro d5 hq
    obtain ⟨se', lk', h⟩ := hafter d5 hq
    rw [step_ev_val_rbrace] at h
    rw [h]
    refine ⟨rfl, se', lk', ?_⟩
    have : (pre ++ mt).length + 1 = (pre ++ (mt ++ [125])).length := by
      simp only [List.length_append, List.length_cons, List.length_nil]; omega
    rw [this]
  constructor
  · intro kt e ms0 keys hde
    exact mapLoop_post _ P hP G kt e ms0 keys d0 _ D4 _ start hde hd0 rfl hrk hc (fun d5 hq => .inl (hnext d5 hq))
  · intro n fs cur hdd hty
    exact structLoop_post _ P G n fs cur d0 _ D4 _ start hdd hty hd0 rfl hrk hc hc' (fun d5 hq => .inl (hnext d5 hq))

theorem pos_mmore (f d : Nat) (cs k r r1 : Bytes) (c : Cst) (r2 r3 : Bytes) (ms : List (Bytes × Cst)) (rest : Bytes)
    (hk : parseStrBody cs = some (k, r)) (h58 : skipWs r = 58 :: r1)
    (hv : parseValue f d (skipWs r1) = some (c, r2)) (ih : PosV f d (skipWs r1) c r2)
    (h44 : skipWs r2 = 44 :: r3) (hpm : parseMembers f d (skipWs r3) = some (ms, rest))
    (ihM : PosM f d (skipWs r3) ms rest) : PosM (f + 1) d (34 :: cs) ((k, c) :: ms) rest := by
  intro _ stk hstk pre bs' hx
  obtain ⟨mt, P, hmt, hP, hafter, hmem⟩ := pos_member f d cs k r r1 c r2 44 r3 hk h58 hv ih h44 (by simp) stk hstk pre
  obtain ⟨b3, hb3⟩ := parseMembers_cons_of_some hpm
  obtain ⟨ws4, hr3, hws4⟩ := skipWs_prefix r3
  have hdata : pre ++ 34 :: cs = (pre ++ mt ++ [44]) ++ (ws4 ++ 34 :: b3) := by rw [hmt, hr3, hb3]; simp
  have hdata2 : pre ++ 34 :: cs = (pre ++ mt ++ [44] ++ ws4) ++ skipWs r3 := by rw [hdata, hb3]; simp
  obtain ⟨mt', hmt', hloop⟩ := ihM hpm stk hstk (pre ++ mt ++ [44] ++ ws4) b3 hb3
  refine ⟨mt ++ [44] ++ ws4 ++ mt', by rw [hmt, hr3, hmt']; simp, ?_⟩
  intro se lk G hG d0 hd0
  obtain ⟨G, rfl⟩ : ∃ G', G = G' + 1 := ⟨G - 1, by omega⟩
  rw [step_bs_quote] at hd0
  obtain ⟨D4, start, hrk, hc, hc'⟩ := hmem se lk G (by omega)
  have hnext : ∀ d5, P d5 → (skipSpaceIf d5).opcode = scanObjectValue ∧
      ((∀ kt e ms2 keys2, decodable e = true →
        RPost (EndQ (pre ++ 34 :: cs) (pre ++ (mt ++ [44] ++ ws4 ++ mt')).length stk scanEndObject)
          (mapLoop G kt e ms2 keys2 (skipSpaceIf d5))) ∧
       (∀ n fs v, decodable (.struct n fs) = true → DV.typed (.struct n fs) v = true →
        RPost (EndQ (pre ++ 34 :: cs) (pre ++ (mt ++ [44] ++ ws4 ++ mt')).length stk scanEndObject)
          (structLoop G (.struct n fs) (typeFields (.struct n fs)) v (skipSpaceIf d5)))) := by
    intro d5 hq
    obtain ⟨se1, lk1, h⟩ := hafter d5 hq
    rw [step_ev_val_comma] at h
    have hsw := scanWhile_ws' (pre ++ 34 :: cs) (pre ++ mt ++ [44]) ws4 34 b3 (mk .stateBeginString (0 :: stk))
      scanObjectValue se1 lk1 hdata hws4 (fun c hc => step_bs_ws (0 :: stk) c hc) (by decide)
    have hlen : (pre ++ mt ++ [44]).length = (pre ++ mt).length + 1 := by
      simp only [List.length_append, List.length_cons, List.length_nil]
    rw [hlen] at hsw
    rw [hdata2] at hsw
    have hl := hloop se1 lk1 G (by omega) _ hsw
    rw [← hdata2] at hl
    have hn : (pre ++ mt ++ [44] ++ ws4 ++ mt').length = (pre ++ (mt ++ [44] ++ ws4 ++ mt')).length := by
      simp only [List.append_assoc]
    rw [hn] at hl
    rw [h]
    exact ⟨rfl, hl⟩
  constructor
  · intro kt e ms0 keys hde
    exact mapLoop_post _ P hP G kt e ms0 keys d0 _ D4 _ start hde hd0 rfl hrk hc
      (fun d5 hq => .inr ⟨(hnext d5 hq).1, fun ms2 keys2 => (hnext d5 hq).2.1 kt e ms2 keys2 hde⟩)
  · intro n fs cur hdd hty
    exact structLoop_post _ P G n fs cur d0 _ D4 _ start hdd hty hd0 rfl hrk hc hc'
      (fun d5 hq => .inr ⟨(hnext d5 hq).1, fun v hv' => (hnext d5 hq).2.2 n fs v hdd hv'⟩)

/-- an object, given what the loops do on its members -/
theorem pos_obj_of_loop (F d : Nat) (cs : Bytes) (ms : List (Bytes × Cst)) (rest : Bytes)
    (hp : parseValue F d (123 :: cs) = some (.obj ms, rest)) (hd : d + 1 ≤ maxDepth) (hF : 1 ≤ F)
    (stk : List Nat) (hstk : stk.length = d) (hvs : ValueStk stk) (pre : Bytes) (hdl : DelimW rest)
    (hloop : ∀ vt, 123 :: cs = vt ++ rest → ∀ (se : Option DErr) (lk : List Bytes) (G : Nat), 3 * F ≤ G + 2 →
      (∀ kt e ms0, decodable e = true →
        RPost (EndQ (pre ++ 123 :: cs) (pre ++ vt).length stk scanEndObject)
          (mapLoop G kt e ms0 []
            (atD (pre ++ 123 :: cs) (pre.length + 1) (mk .stateBeginStringOrEmpty (0 :: stk), scanBeginObject) se lk))) ∧
      (∀ n fs cur, decodable (.struct n fs) = true → DV.typed (.struct n fs) cur = true →
        RPost (EndQ (pre ++ 123 :: cs) (pre ++ vt).length stk scanEndObject)
          (structLoop G (.struct n fs) (typeFields (.struct n fs)) cur
            (atD (pre ++ 123 :: cs) (pre.length + 1) (mk .stateBeginStringOrEmpty (0 :: stk), scanBeginObject) se lk)))) :
    ∃ vt, 123 :: cs = vt ++ rest ∧ StartOp (step (bv stk) 123).2 ∧
      ∀ (se : Option DErr) (lk : List Bytes) (G : Nat), 3 * F ≤ G →
        Consumes G (PostQ (pre ++ 123 :: cs) (pre ++ vt).length stk rest)
          (atD (pre ++ 123 :: cs) (pre.length + 1) (step (bv stk) 123) se lk) := by
  obtain ⟨vt, hbs, hend, hre⟩ := (split_all F).1 d _ _ rest hp
  obtain ⟨e0, inner, rfl⟩ := head_of_append (endsNonWs_ne_nil hend)
  have hbs' := hbs
  simp only [List.cons_append, List.cons.injEq] at hbs'
  obtain ⟨rfl, rfl⟩ := hbs'
  have heq := fun rest' hdl' => trace_of_split (123 :: inner) (.obj ms) d hre stk (by omega) rest' hdl'
  have hskip := fun se' lk' => skip_obj stk hvs (by omega) pre inner rest ms heq hend se' lk'
  have h0 := step_lbrace_ok stk (by omega)
  refine ⟨123 :: inner, rfl, by rw [h0]; exact .inr (.inl rfl), ?_⟩
  intro se lk G hG
  obtain ⟨G, rfl⟩ : ∃ G', G = G' + 2 := ⟨G - 2, by omega⟩
  rw [h0]
  simp only [h0] at hskip
  have hnext : ∀ d1, EndQ (pre ++ (123 :: inner ++ rest)) (pre ++ 123 :: inner).length stk scanEndObject d1 →
      PostQ (pre ++ (123 :: inner ++ rest)) (pre ++ 123 :: inner).length stk rest (scanNext d1) := by
    intro d1 hq
    obtain ⟨se', lk', h⟩ := hq
    rw [h]
    exact ⟨se', lk', postV_scanNext pre (123 :: inner) rest stk scanEndObject se' lk'⟩
  refine consumes_container _ (postQ_saveClosed _ _ _ _) (G + 2) _ (.inr rfl)
    ⟨_, hskip se lk, hnext _ ⟨se, lk, rfl⟩⟩ ?_
  intro t cur cs' hinv
  refine value_obj_post _ (G + 1) t cur cs' _ rfl ?_
  refine object_post _ (fun d keys h => postQ_lastKeys _ _ _ _ d keys h) G t cur cs' _ hinv ?_ ?_ ?_ ?_
  · obtain ⟨vt2, D', v, hvt2, _, hval, hview, hpost⟩ := (iface_all F).1 d _ _ rest hp stk hstk pre 123
      (inner ++ rest) rfl se lk (G + 1) (by omega) hdl
    have : vt2 = 123 :: inner := List.append_cancel_right (by rw [← hvt2]; simp)
    subst this
    rw [h0] at hval
    have e1 : (scanBeginObject = scanBeginArray) = False := by decide
    simp only [valueInterface, atD_opcode, e1, if_false, if_true] at hval
    cases hai : objectInterface G
        (atD (pre ++ 123 :: (inner ++ rest)) (pre.length + 1) (mk St.stateBeginStringOrEmpty (0 :: stk), scanBeginObject) se lk) [] with
    | ok p =>
      obtain ⟨d1, vs⟩ := p
      rw [hai] at hval
      simp only [Exec.ok.injEq, Prod.mk.injEq] at hval
      show PostQ _ _ _ _ (scanNext d1)
      rw [hval.1]
      exact ⟨se, lk, hpost⟩
    | panic => rw [hai] at hval; cases hval
    | fuel => rw [hai] at hval; cases hval
  · intro kt e ms0 hde
    exact RPost_mono _ _ hnext _ ((hloop (123 :: inner) rfl se lk G (by omega)).1 kt e ms0 hde)
  · intro n fs sv hdd hsv
    exact RPost_mono _ _ hnext _ ((hloop (123 :: inner) rfl se lk G (by omega)).2 n fs sv hdd hsv)
  · intro k v
    exact RPost_mono _ _ hnext _ (typeErrorSkip_post k v _ _ _ se lk _ stk scanEndObject (fun se' => hskip se' lk))

theorem pos_obj0 (f d : Nat) (cs r : Bytes) (hd : d + 1 ≤ maxDepth) (hs : skipWs cs = 125 :: r) :
    PosV (f + 1) d (123 :: cs) (.obj []) r := by
  intro hp stk hstk hvs pre x bs' hx hdl
  simp only [List.cons.injEq] at hx
  obtain ⟨rfl, rfl⟩ := hx
  refine pos_obj_of_loop (f + 1) d cs [] r hp hd (by omega) stk hstk hvs pre hdl ?_
  intro vt hvt se lk G hG
  obtain ⟨G, rfl⟩ : ∃ G', G = G' + 1 := ⟨G - 1, by omega⟩
  obtain ⟨ws, hcs, hws, _⟩ := skipWs_split cs 125 r hs
  have hdata : pre ++ 123 :: cs = (pre ++ [123]) ++ (ws ++ 125 :: r) := by rw [hcs]; simp
  have hsw := scanWhile_ws' (pre ++ 123 :: cs) (pre ++ [123]) ws 125 r (mk .stateBeginStringOrEmpty (0 :: stk))
    scanBeginObject se lk hdata hws (fun c hc => step_bsoe_ws (0 :: stk) c hc) (by decide)
  rw [step_bsoe_rbrace] at hsw
  have hlen : (pre ++ [123]).length = pre.length + 1 := by simp
  rw [hlen] at hsw
  have hv : vt = 123 :: ws ++ [125] := List.append_cancel_right (by rw [← hvt, hcs]; simp)
  subst hv
  have hoff : (pre ++ [123] ++ ws).length + 1 = (pre ++ (123 :: ws ++ [125])).length := by
    simp only [List.length_append, List.length_cons, List.length_nil]; omega
  constructor
  · intro kt e ms0 _
    rw [mapLoop_done G kt e ms0 [] _ _ hsw rfl]
    exact ⟨se, lk, by rw [hoff]⟩
  · intro n fs cur _ _
    rw [structLoop_done G _ _ cur _ _ hsw rfl]
    exact ⟨se, lk, by rw [hoff]⟩

theorem pos_obj (f d : Nat) (cs : Bytes) (ms : List (Bytes × Cst)) (rest : Bytes) (hd : d + 1 ≤ maxDepth)
    (hs : ∀ r, skipWs cs ≠ 125 :: r) (hpm : parseMembers f (d + 1) (skipWs cs) = some (ms, rest))
    (ih : PosM f (d + 1) (skipWs cs) ms rest) : PosV (f + 1) d (123 :: cs) (.obj ms) rest := by
  intro hp stk hstk hvs pre x bs' hx hdl
  simp only [List.cons.injEq] at hx
  obtain ⟨rfl, rfl⟩ := hx
  refine pos_obj_of_loop (f + 1) d cs ms rest hp hd (by omega) stk hstk hvs pre hdl ?_
  intro vt hvt se lk G hG
  obtain ⟨b2, hx2⟩ := parseMembers_cons_of_some hpm
  obtain ⟨ws, hcs, hws⟩ := skipWs_prefix cs
  have hdata : pre ++ 123 :: cs = (pre ++ [123]) ++ (ws ++ 34 :: b2) := by rw [hcs, hx2]; simp
  have hsw := scanWhile_ws' (pre ++ 123 :: cs) (pre ++ [123]) ws 34 b2 (mk .stateBeginStringOrEmpty (0 :: stk))
    scanBeginObject se lk hdata hws (fun c hc => step_bsoe_ws (0 :: stk) c hc) (by decide)
  rw [step_bsoe_other (0 :: stk) 34 (by decide) (by decide)] at hsw
  have hlen : (pre ++ [123]).length = pre.length + 1 := by simp
  rw [hlen] at hsw
  have hdata2 : pre ++ 123 :: cs = (pre ++ [123] ++ ws) ++ skipWs cs := by rw [hdata, hx2]; simp
  rw [hdata2] at hsw
  obtain ⟨mt, hmt, hl⟩ := ih hpm stk (by omega) (pre ++ [123] ++ ws) b2 hx2
  have h := hl se lk G (by omega) _ hsw
  rw [← hdata2] at h
  have hv : vt = 123 :: ws ++ mt := List.append_cancel_right (by rw [← hvt, hcs, hmt]; simp)
  subst hv
  have hn : (pre ++ [123] ++ ws ++ mt).length = (pre ++ (123 :: ws ++ mt)).length := by
    simp only [List.length_append, List.length_cons, List.length_nil]; omega
  rw [hn] at h
  exact ⟨fun kt e ms0 hde => h.1 kt e ms0 [] hde, h.2⟩

/-! ### the induction -/

theorem pos_all (f : Nat) :
    (∀ d bs c rest, parseValue f d bs = some (c, rest) → PosV f d bs c rest) ∧
    (∀ d bs xs rest, parseElems f d bs = some (xs, rest) → xs ≠ [] ∧ PosE f d bs xs rest) ∧
    (∀ d bs ms rest, parseMembers f d bs = some (ms, rest) → ms ≠ [] ∧ PosM f d bs ms rest) :=
  parse_ind (PV := PosV) (PE := PosE) (PM := PosM)
    (fun f d cs r hd hs => pos_obj0 f d cs r hd hs)
    (fun f d cs ms rest hd hs _ hp ih => pos_obj f d cs ms rest hd hs hp ih)
    (fun f d cs r hd hs => pos_arr0 f d cs r hd hs)
    (fun f d cs xs rest hd hs _ hp ih => pos_arr f d cs xs rest hd hs hp ih)
    (fun f d cs b rest h => pos_str f d cs b rest h)
    (fun f d w rest hw => pos_word f d w rest hw)
    (fun f d c cs l rest hc hp => pos_num f d c cs l rest hc hp)
    (fun f d bs x r r' hv ih h93 => pos_elast f d bs x r r' hv ih h93)
    (fun f d bs x r r' xs rest hv ih h44 _ hp ihE => pos_emore f d bs x r r' xs rest hv ih h44 hp ihE)
    (fun f d cs k r r1 v r2 r3 hk h58 hv ih h125 => pos_mlast f d cs k r r1 v r2 r3 hk h58 hv ih h125)
    (fun f d cs k r r1 v r2 r3 ms rest hk h58 hv ih h44 _ hp ihM =>
      pos_mmore f d cs k r r1 v r2 r3 ms rest hk h58 hv ih h44 hp ihM)
    f

end TDec
end Codec
end JP
