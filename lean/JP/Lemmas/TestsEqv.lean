import JP.Lemmas.TestsK

/-!
# Passing tests are transparent, part 3: the engine does not look at the parse state

`deepParse` (`D` below) parses a node completely.  Two nodes are in the same *parse class* when
`D n₁ = D n₂`.  The container methods commute with `D` (`conGet_D`, `conAdd_D`, …), hence walks
from two states in the same parse class give results in the same parse class, with the same
outcome (`walk_eqv`, `withPath_eqv`, `ensure_eqv`); a walk whose action leaves its container in
its parse class leaves the whole state there (`walk_fix`: lazy parsing changes nothing else).
-/

namespace JP
namespace Impl

/-! ### `deepParse`: commutation with the map primitives, idempotence -/

theorem deepParse_childOf (v : Cst) : deepParse (childOf v) = deepParseC v := by
  cases v with
  | lit s =>
    simp only [childOf, Cst.isNullLit, deepParseC, beq_iff_eq]
    split
    · rfl
    · rfl
  | str b => rfl
  | arr xs => rfl
  | obj ms => rfl

theorem deepParseM_setN (k : Bytes) (n : Node) (obj : NMembers) :
    deepParseM (setN k n obj) = setN k (deepParse n) (deepParseM obj) := by
  induction obj with
  | nil => rfl
  | cons m ms ih =>
    obtain ⟨k', n'⟩ := m
    simp only [setN, deepParseM]
    split
    · rfl
    · simp only [deepParseM, ih]

theorem deepParseM_eraseN (k : Bytes) (obj : NMembers) :
    deepParseM (eraseN k obj) = eraseN k (deepParseM obj) := by
  induction obj with
  | nil => rfl
  | cons m ms ih =>
    obtain ⟨k', n'⟩ := m
    simp only [eraseN, deepParseM]
    split
    · rfl
    · simp only [deepParseM, ih]

theorem deepParseM_decodeMembers : ∀ (ms : List (Bytes × Cst)) (acc : NMembers),
    deepParseM (decodeMembers ms acc) = deepParseCM ms (deepParseM acc)
  | [], _ => rfl
  | (k, v) :: ms, acc => by
    simp only [decodeMembers, deepParseCM]
    rw [deepParseM_decodeMembers ms, deepParseM_setN, deepParse_childOf]

theorem deepParse_decodeDoc (ms : List (Bytes × Cst)) : deepParse (decodeDoc ms) = deepParseC (.obj ms) := by
  simp only [decodeDoc, deepParse, deepParseC, deepParseM_decodeMembers]
  rfl

theorem deepParse_decodeAry (xs : List Cst) : deepParse (decodeAry xs) = deepParseC (.arr xs) := by
  simp only [decodeAry, deepParse, deepParseC, deepParseL_eq_map, deepParseCL_eq_map, List.map_map]
  congr 1
  apply List.map_congr_left
  intro x _
  exact deepParse_childOf x

mutual
theorem deepParse_deepParseC : ∀ c : Cst, deepParse (deepParseC c) = deepParseC c
  | .lit s => by
    simp only [deepParseC]
    split
    · rfl
    · rfl
  | .str b => rfl
  | .arr xs => by simp only [deepParseC, deepParse, deepParseL_deepParseCL xs]
  | .obj ms => by
    simp only [deepParseC, deepParse]
    rw [deepParseM_deepParseCM ms []]
    rfl
theorem deepParseL_deepParseCL : ∀ xs : List Cst, deepParseL (deepParseCL xs) = deepParseCL xs
  | [] => rfl
  | x :: xs => by simp only [deepParseCL, deepParseL, deepParse_deepParseC x, deepParseL_deepParseCL xs]
theorem deepParseM_deepParseCM : ∀ (ms : List (Bytes × Cst)) (acc : NMembers),
    deepParseM (deepParseCM ms acc) = deepParseCM ms (deepParseM acc)
  | [], _ => rfl
  | (k, v) :: ms, acc => by
    simp only [deepParseCM]
    rw [deepParseM_deepParseCM ms, deepParseM_setN, deepParse_deepParseC v]
end

mutual
theorem deepParse_idem : ∀ n : Node, deepParse (deepParse n) = deepParse n
  | .nil => rfl
  | .docNil => rfl
  | .nilAry => rfl
  | .raw c => by
    simp only [deepParse]
    split
    · exact deepParse_deepParseC c
    · rename_i h
      simp only [deepParse, h]
      rfl
  | .doc keys obj => by simp only [deepParse, deepParseM_idem obj]
  | .ary ns => by simp only [deepParse, deepParseL_idem ns]
theorem deepParseM_idem : ∀ obj : NMembers, deepParseM (deepParseM obj) = deepParseM obj
  | [] => rfl
  | (k, n) :: ms => by simp only [deepParseM, deepParse_idem n, deepParseM_idem ms]
theorem deepParseL_idem : ∀ ns : List Node, deepParseL (deepParseL ns) = deepParseL ns
  | [] => rfl
  | n :: ns => by simp only [deepParseL, deepParse_idem n, deepParseL_idem ns]
end

theorem shape_deepParse_iff (n : Node) (h : shape n = true) : shape (deepParse n) = true := shape_deepParse h

theorem isNilN_deepParse (n : Node) : isNilN (deepParse n) = isNilN n := by
  cases n with
  | raw c =>
    simp only [deepParse]
    split
    · cases c <;> simp_all [deepParseC, isNilN, Cst.isArr, Cst.isObj]
    · rfl
  | _ => rfl

theorem isDocNil_deepParse (n : Node) (h : shape n = true) : isDocNil (deepParse n) = isDocNil n := by
  cases n <;> simp_all [shape, deepParse, isDocNil]

/-! ### list primitives under `map` -/

theorem listSet_map {α β} (f : α → β) : ∀ (i : Nat) (a : α) (xs : List α),
    (listSet i a xs).map f = listSet i (f a) (xs.map f)
  | i, _, [] => by cases i <;> rfl
  | 0, _, _ :: _ => rfl
  | i + 1, a, x :: xs => by simp only [listSet, List.map_cons, listSet_map f i a xs]

theorem listInsert_map {α β} (f : α → β) : ∀ (i : Nat) (a : α) (xs : List α),
    (listInsert i a xs).map f = listInsert i (f a) (xs.map f)
  | 0, _, _ => rfl
  | _ + 1, _, [] => rfl
  | i + 1, a, x :: xs => by simp only [listInsert, List.map_cons, listInsert_map f i a xs]

theorem eraseIdx_map' {α β} (f : α → β) : ∀ (xs : List α) (i : Nat), (xs.eraseIdx i).map f = (xs.map f).eraseIdx i
  | [], _ => rfl
  | _ :: _, 0 => rfl
  | x :: xs, i + 1 => by simp only [List.eraseIdx, List.map_cons, eraseIdx_map' f xs i]

/-! ### outcomes -/

def mapO {α β} (f : α → β) : Outcome α → Outcome β
  | .ok a => .ok (f a)
  | .err e => .err e
  | .panic => .panic

theorem mapO_ok {α β} {f : α → β} {x : Outcome α} {b : β} (h : mapO f x = .ok b) : ∃ a, x = .ok a ∧ f a = b := by
  cases x with
  | ok a => exact ⟨a, rfl, by simpa [mapO] using h⟩
  | err e => cases h
  | panic => cases h

/-! ### the container methods commute with `deepParse` -/

theorem intoContainer_D (n : Node) : intoContainer (deepParse n) = mapO deepParse (intoContainer n) := by
  cases n with
  | nil => rfl
  | raw c =>
    cases c with
    | arr xs =>
      simp only [deepParse, Cst.isArr, Bool.true_or, if_true, intoContainer, rawIsArray, intoAry, mapO,
        deepParse_decodeAry]
      rfl
    | obj ms =>
      simp only [deepParse, Cst.isArr, Cst.isObj, Bool.or_true, if_true, intoContainer, rawIsArray,
        Bool.false_eq_true, if_false, intoDoc, mapO, deepParse_decodeDoc]
      rfl
    | lit s => rfl
    | str s => rfl
  | doc keys obj => rfl
  | ary ns => rfl
  | docNil => rfl
  | nilAry => rfl

theorem enter_D (cr : Bool) (key : Bytes) (n : Node) :
    enter cr key (deepParse n) = mapO deepParse (enter cr key n) := by
  unfold enter
  exact intoContainer_D n

theorem intoContainer_shape {n c : Node} (h : intoContainer n = .ok c) : shape c = true := by
  cases n with
  | raw x =>
    cases x <;> simp [intoContainer, rawIsArray, Cst.isArr, intoAry, intoDoc] at h <;> subst h <;> rfl
  | doc keys obj => simp [intoContainer, rawIsArray, intoDoc] at h; subst h; rfl
  | ary ns => simp [intoContainer, rawIsArray, intoAry] at h; subst h; rfl
  | nil => simp [intoContainer, rawIsArray, intoDoc] at h
  | docNil => simp [intoContainer, rawIsArray, intoDoc] at h
  | nilAry => simp [intoContainer, rawIsArray, intoDoc] at h

theorem enter_shape {cr key n c} (h : enter cr key n = .ok c) : shape c = true := by
  unfold enter at h
  exact intoContainer_shape h

theorem intoContainer_fix {n c : Node} (h : intoContainer n = .ok c) : deepParse c = deepParse n := by
  cases n with
  | raw x =>
    cases x with
    | arr xs =>
      simp only [intoContainer, rawIsArray, Cst.isArr, if_true, intoAry, Outcome.ok.injEq] at h
      subst h
      rw [deepParse_decodeAry]; rfl
    | obj ms =>
      simp only [intoContainer, rawIsArray, Cst.isArr, Bool.false_eq_true, if_false, intoDoc, Outcome.ok.injEq] at h
      subst h
      rw [deepParse_decodeDoc]; rfl
    | lit s => simp [intoContainer, rawIsArray, Cst.isArr, intoDoc] at h
    | str s => simp [intoContainer, rawIsArray, Cst.isArr, intoDoc] at h
  | doc keys obj => simp [intoContainer, rawIsArray, intoDoc] at h; subst h; rfl
  | ary ns => simp [intoContainer, rawIsArray, intoAry] at h; subst h; rfl
  | nil => simp [intoContainer, rawIsArray, intoDoc] at h
  | docNil => simp [intoContainer, rawIsArray, intoDoc] at h
  | nilAry => simp [intoContainer, rawIsArray, intoDoc] at h

/-- entering a node only parses it -/
theorem enter_fix {cr key n c} (h : enter cr key n = .ok c) : deepParse c = deepParse n := by
  unfold enter at h
  exact intoContainer_fix h

theorem getElem?_deepParseL (ns : List Node) (i : Nat) : (deepParseL ns)[i]? = ns[i]?.map deepParse := by
  rw [deepParseL_eq_map]; simp

theorem length_deepParseL (ns : List Node) : (deepParseL ns).length = ns.length := by
  rw [deepParseL_eq_map]; simp

theorem conGet_D (o : Opts) (self con : Node) (key : Bytes) (hs : shape con = true) :
    conGet o (deepParse self) (deepParse con) key = mapO deepParse (conGet o self con key) := by
  cases con with
  | doc keys obj =>
    simp only [deepParse, conGet]
    rw [lookupN_deepParseM]
    cases lookupN key obj <;> rfl
  | ary nodes =>
    simp only [deepParse, conGet, length_deepParseL, getElem?_deepParseL]
    repeat' split
    all_goals first
      | rfl
      | (simp_all [mapO]; done)
  | docNil => rfl
  | nilAry => rfl
  | nil => simp [shape] at hs
  | raw c => simp [shape] at hs

theorem docSet_D (keys : List Bytes) (obj : NMembers) (key : Bytes) (val : Node) :
    deepParse (docSet keys obj key val) = docSet keys (deepParseM obj) key (deepParse val) := by
  simp only [docSet, deepParse, deepParseM_setN]

theorem conAdd_D (o : Opts) (con : Node) (key : Bytes) (val : Node) (hs : shape con = true) :
    conAdd o (deepParse con) key (deepParse val) = mapO deepParse (conAdd o con key val) := by
  cases con with
  | doc keys obj => simp only [deepParse, conAdd, mapO, docSet_D]
  | ary nodes =>
    simp only [deepParse, conAdd, length_deepParseL]
    repeat' split
    all_goals first
      | rfl
      | (simp only [mapO, deepParse, deepParseL_eq_map, listInsert_map, List.map_append, List.map_cons,
          List.map_nil]; done)
  | docNil => rfl
  | nilAry => rfl
  | nil => simp [shape] at hs
  | raw c => simp [shape] at hs

theorem conSet_D (o : Opts) (con : Node) (key : Bytes) (val : Node) (hs : shape con = true) :
    conSet o (deepParse con) key (deepParse val) = mapO deepParse (conSet o con key val) := by
  cases con with
  | doc keys obj => simp only [deepParse, conSet, mapO, docSet_D]
  | ary nodes =>
    simp only [deepParse, conSet, length_deepParseL]
    repeat' split
    all_goals first
      | rfl
      | (simp only [mapO, deepParse, deepParseL_eq_map, listSet_map]; done)
  | docNil => rfl
  | nilAry => rfl
  | nil => simp [shape] at hs
  | raw c => simp [shape] at hs

theorem conRemove_D (o : Opts) (con : Node) (key : Bytes) (hs : shape con = true) :
    conRemove o (deepParse con) key = mapO deepParse (conRemove o con key) := by
  cases con with
  | doc keys obj =>
    simp only [deepParse, conRemove, lookupN_deepParseM]
    cases lookupN key obj with
    | none => simp only [Option.map_none]; split <;> rfl
    | some n =>
      simp only [Option.map_some]
      split
      · simp only [mapO, deepParse, deepParseM_eraseN]
      · rfl
  | ary nodes =>
    simp only [deepParse, conRemove, length_deepParseL]
    repeat' split
    all_goals first
      | rfl
      | (simp only [mapO, deepParse, deepParseL_eq_map, eraseIdx_map']; done)
  | docNil => rfl
  | nilAry => rfl
  | nil => simp [shape] at hs
  | raw c => simp [shape] at hs

theorem putChild_D (o : Opts) (con : Node) (key : Bytes) (child : Node) (hs : shape con = true) :
    deepParse (putChild o con key child) = putChild o (deepParse con) key (deepParse child) := by
  cases con with
  | doc keys obj => simp only [putChild, deepParse, deepParseM_setN]
  | ary nodes =>
    simp only [putChild, deepParse]
    split
    · simp only [deepParse, deepParseL_eq_map, listSet_map, List.length_map]
    · rfl
  | docNil => rfl
  | nilAry => rfl
  | nil => simp [shape] at hs
  | raw c => simp [shape] at hs

theorem setN_self {k : Bytes} {n : Node} : ∀ {obj : NMembers}, lookupN k obj = some n → setN k n obj = obj
  | [], h => by simp [lookupN] at h
  | (k', n') :: ms, h => by
    simp only [lookupN] at h
    simp only [setN]
    split
    · next hk => rw [if_pos hk] at h; simp only [Option.some.injEq] at h; subst hk; subst h; rfl
    · next hk => rw [if_neg hk] at h; rw [setN_self h]

theorem listSet_self {α} : ∀ {i : Nat} {a : α} {xs : List α}, xs[i]? = some a → listSet i a xs = xs
  | _, _, [], h => by simp at h
  | 0, _, x :: xs, h => by simp at h; subst h; rfl
  | i + 1, a, x :: xs, h => by
    simp only [List.getElem?_cons_succ] at h
    simp only [listSet, listSet_self h]

/-- putting back the child `get key` returned changes nothing -/
theorem putChild_self {o : Opts} {self con : Node} {key : Bytes} {n : Node}
    (h : conGet o self con key = .ok n) : putChild o con key n = con := by
  cases con with
  | doc keys obj =>
    simp only [conGet] at h
    cases hl : lookupN key obj with
    | none => rw [hl] at h; cases h
    | some m =>
      rw [hl] at h
      simp only [Outcome.ok.injEq] at h
      subst h
      simp only [putChild, setN_self hl]
  | ary nodes =>
    simp only [conGet] at h
    cases ha : atoi key with
    | none => rw [ha] at h; cases h
    | some idx =>
      rw [ha] at h
      simp only [putChild, ha]
      simp only at h
      split at h
      · rename_i hneg
        simp only [hneg, if_true]
        split at h
        · cases h
        · split at h
          · cases h
          · split at h
            · rename_i m hm
              simp only [Outcome.ok.injEq] at h
              subst h
              rw [listSet_self hm]
            · cases h
      · rename_i hneg
        simp only [hneg, if_false]
        split at h
        · rename_i m hm
          simp only [Outcome.ok.injEq] at h
          subst h
          rw [listSet_self hm]
        · cases h
  | docNil => rfl
  | nilAry => rfl
  | nil => rfl
  | raw c => rfl

/-! ### walks from two states in the same parse class -/

/-- map `deepParse` over the nodes of a walk result, `f` over its value -/
def WmapD {α} (f : α → α) : Walk α → Walk α
  | .done con a => .done (deepParse con) (f a)
  | .notFound con => .notFound (deepParse con)
  | .fail e => .fail e
  | .panic => .panic
  | .doneSelf s a => .doneSelf (deepParse s) (f a)
  | .notFoundSelf s => .notFoundSelf (deepParse s)

def AmapD {α} (f : α → α) : Outcome (Node × α) → Outcome (Node × α)
  | .ok (con, a) => .ok (deepParse con, f a)
  | .err e => .err e
  | .panic => .panic

theorem wrapWalk_D {α} (f : α → α) (o : Opts) (con : Node) (key : Bytes) (w : Walk α) (hs : shape con = true) :
    WmapD f (wrapWalk o con key w) = wrapWalk o (deepParse con) key (WmapD f w) := by
  cases w <;> simp only [wrapWalk, WmapD, putChild_D o con key _ hs]

theorem mapO_conGet_eqv {o : Opts} {s₁ s₂ c₁ c₂ : Node} {key : Bytes}
    (hs : deepParse s₁ = deepParse s₂) (hc : deepParse c₁ = deepParse c₂)
    (h₁ : shape c₁ = true) (h₂ : shape c₂ = true) :
    mapO deepParse (conGet o s₁ c₁ key) = mapO deepParse (conGet o s₂ c₂ key) := by
  rw [← conGet_D o s₁ c₁ key h₁, ← conGet_D o s₂ c₂ key h₂, hs, hc]

theorem mapO_enter_eqv {cr : Bool} {key : Bytes} {n₁ n₂ : Node} (h : deepParse n₁ = deepParse n₂) :
    mapO deepParse (enter cr key n₁) = mapO deepParse (enter cr key n₂) := by
  rw [← enter_D, ← enter_D, h]

theorem isNilN_eqv {n₁ n₂ : Node} (h : deepParse n₁ = deepParse n₂) : isNilN n₁ = isNilN n₂ := by
  rw [← isNilN_deepParse n₁, ← isNilN_deepParse n₂, h]

/-- **walks from two states in the same parse class end in the same parse class**, with the same
outcome; the two actions may differ as long as they respect parse classes (under the invariant) -/
theorem walk_eqv {α} {e : Bool} (o : Opts) (f : α → α) (act₁ act₂ : Node → Node → Outcome (Node × α))
    (hact : ∀ s₁ s₂ c₁ c₂, deepParse s₁ = deepParse s₂ → deepParse c₁ = deepParse c₂ →
      KS e c₁ → KS e c₂ → KN e s₁ → KN e s₂ → AmapD f (act₁ s₁ c₁) = AmapD f (act₂ s₂ c₂)) :
    ∀ (parts : List Bytes) (cr : Bool) (s₁ s₂ c₁ c₂ : Node),
      deepParse s₁ = deepParse s₂ → deepParse c₁ = deepParse c₂ →
      KS e c₁ → KS e c₂ → KN e s₁ → KN e s₂ →
      WmapD f (walk o act₁ cr s₁ c₁ parts) = WmapD f (walk o act₂ cr s₂ c₂ parts) := by
  intro parts
  induction parts with
  | nil =>
    intro cr s₁ s₂ c₁ c₂ hs hc k₁ k₂ ks₁ ks₂
    rw [walk_nil, walk_nil]
    have := hact s₁ s₂ c₁ c₂ hs hc k₁ k₂ ks₁ ks₂
    cases h1 : act₁ s₁ c₁ with
    | ok p =>
      obtain ⟨a1, b1⟩ := p
      cases h2 : act₂ s₂ c₂ with
      | ok q =>
        obtain ⟨a2, b2⟩ := q
        rw [h1, h2] at this
        simp only [AmapD, Outcome.ok.injEq, Prod.mk.injEq] at this
        simp only [WmapD, this.1, this.2]
      | err e => rw [h1, h2] at this; cases this
      | panic => rw [h1, h2] at this; cases this
    | err e1 =>
      cases h2 : act₂ s₂ c₂ with
      | ok q => obtain ⟨a2, b2⟩ := q; rw [h1, h2] at this; cases this
      | err e2 =>
        rw [h1, h2] at this
        simp only [AmapD, Outcome.err.injEq] at this
        simp only [WmapD, this]
      | panic => rw [h1, h2] at this; cases this
    | panic =>
      cases h2 : act₂ s₂ c₂ with
      | ok q => obtain ⟨a2, b2⟩ := q; rw [h1, h2] at this; cases this
      | err e2 => rw [h1, h2] at this; cases this
      | panic => rfl
  | cons part rest ih =>
    intro cr s₁ s₂ c₁ c₂ hs hc k₁ k₂ ks₁ ks₂
    rw [walk_cons, walk_cons]
    have hg := mapO_conGet_eqv (o := o) (key := decodeToken part) hs hc k₁.2 k₂.2
    have hk1 := conGet_K (o := o) (key := decodeToken part) ks₁ k₁.1
    have hk2 := conGet_K (o := o) (key := decodeToken part) ks₂ k₂.1
    cases hg1 : conGet o s₁ c₁ (decodeToken part) with
    | panic =>
      cases hg2 : conGet o s₂ c₂ (decodeToken part) with
      | panic => rfl
      | err e2 => rw [hg1, hg2] at hg; cases hg
      | ok n2 => rw [hg1, hg2] at hg; cases hg
    | err e1 =>
      cases hg2 : conGet o s₂ c₂ (decodeToken part) with
      | panic => rw [hg1, hg2] at hg; cases hg
      | err e2 => simp only [WmapD, hc]
      | ok n2 => rw [hg1, hg2] at hg; cases hg
    | ok n1 =>
      cases hg2 : conGet o s₂ c₂ (decodeToken part) with
      | panic => rw [hg1, hg2] at hg; cases hg
      | err e2 => rw [hg1, hg2] at hg; cases hg
      | ok n2 =>
        rw [hg1, hg2] at hg
        rw [hg1] at hk1
        rw [hg2] at hk2
        simp only [mapO, Outcome.ok.injEq] at hg
        simp only []
        rw [isNilN_eqv hg]
        split
        · simp only [WmapD, hc]
        · have he := mapO_enter_eqv (cr := cr) (key := decodeToken part) hg
          have hke1 := enter_K (cr := cr) (key := decodeToken part) hk1
          have hke2 := enter_K (cr := cr) (key := decodeToken part) hk2
          cases he1 : enter cr (decodeToken part) n1 with
          | panic =>
            cases he2 : enter cr (decodeToken part) n2 with
            | panic => rfl
            | err e2 => rw [he1, he2] at he; cases he
            | ok ch2 => rw [he1, he2] at he; cases he
          | err e1 =>
            cases he2 : enter cr (decodeToken part) n2 with
            | panic => rw [he1, he2] at he; cases he
            | err e2 => simp only [WmapD, hc]
            | ok ch2 => rw [he1, he2] at he; cases he
          | ok ch1 =>
            cases he2 : enter cr (decodeToken part) n2 with
            | panic => rw [he1, he2] at he; cases he
            | err e2 => rw [he1, he2] at he; cases he
            | ok ch2 =>
              rw [he1, he2] at he
              rw [he1] at hke1
              rw [he2] at hke2
              simp only [mapO, Outcome.ok.injEq] at he
              simp only []
              rw [wrapWalk_D f o c₁ _ _ k₁.2, wrapWalk_D f o c₂ _ _ k₂.2, hc,
                ih false .nil .nil ch1 ch2 rfl he hke1 hke2 (KN_nil e) (KN_nil e)]

/-- the root of a state, up to parse classes -/
def DR (r : Root) : Root := { con := deepParse r.con, self := deepParse r.self, selfCR := r.selfCR }

theorem DR_eq {r₁ r₂ : Root} : DR r₁ = DR r₂ ↔
    deepParse r₁.con = deepParse r₂.con ∧ deepParse r₁.self = deepParse r₂.self ∧ r₁.selfCR = r₂.selfCR := by
  cases r₁; cases r₂
  simp [DR]

theorem withPath_eqv {α} {e : Bool} (o : Opts) (f : α → α) (r₁ r₂ : Root) (path : Bytes)
    (act₁ act₂ : Node → Node → Bytes → Outcome (Node × α))
    (hr : DR r₁ = DR r₂) (k₁ : RootK e r₁) (k₂ : RootK e r₂)
    (hact : ∀ key s₁ s₂ c₁ c₂, deepParse s₁ = deepParse s₂ → deepParse c₁ = deepParse c₂ →
      KS e c₁ → KS e c₂ → KN e s₁ → KN e s₂ → AmapD f (act₁ s₁ c₁ key) = AmapD f (act₂ s₂ c₂ key)) :
    WmapD f (withPath o r₁ path act₁) = WmapD f (withPath o r₂ path act₂) := by
  obtain ⟨hc, hs, hcr⟩ := DR_eq.1 hr
  unfold withPath
  split
  · simp only [WmapD, hc]
  · rename_i parts key _
    rw [hcr]
    exact walk_eqv o f _ _ (fun s₁ s₂ c₁ c₂ => hact key s₁ s₂ c₁ c₂) parts _ _ _ _ _ hs hc k₁.1 k₂.1 k₁.2 k₂.2

/-! ### a walk whose action only parses, only parses -/

/-- the result of a walk is in the parse class of its start -/
def WalkFix {α} (self con : Node) : Walk α → Prop
  | .done c' _ => deepParse c' = deepParse con
  | .notFound c' => deepParse c' = deepParse con
  | .doneSelf s' _ => deepParse s' = deepParse self ∧ isNilN self = false
  | .notFoundSelf s' => deepParse s' = deepParse self ∧ isNilN self = false
  | _ => True

theorem walk_fix {α} (o : Opts) (act : Node → Node → Outcome (Node × α))
    (hact : ∀ self con c' a, shape con = true → act self con = .ok (c', a) → deepParse c' = deepParse con) :
    ∀ (parts : List Bytes) (cr : Bool) (self con : Node), shape con = true →
      WalkFix self con (walk o act cr self con parts) := by
  intro parts
  induction parts with
  | nil =>
    intro cr self con hs
    rw [walk_nil]
    cases h : act self con with
    | ok p => obtain ⟨c', a⟩ := p; exact hact self con c' a hs h
    | err e => trivial
    | panic => trivial
  | cons part rest ih =>
    intro cr self con hs
    rw [walk_cons]
    cases hg : conGet o self con (decodeToken part) with
    | panic => trivial
    | err e => exact rfl
    | ok next =>
      simp only []
      split
      · exact rfl
      · rename_i hnil
        cases hent : enter cr (decodeToken part) next with
        | panic => trivial
        | err e => exact rfl
        | ok child =>
          simp only []
          have hch := enter_fix hent
          have hi := ih false .nil child (enter_shape hent)
          have hput : ∀ c', deepParse c' = deepParse child →
              deepParse (putChild o con (decodeToken part) c') = deepParse con := by
            intro c' hc'
            rw [putChild_D o con _ c' hs, hc', hch, ← putChild_D o con _ next hs, putChild_self hg]
          cases hw : walk o act false Node.nil child rest with
          | done c' a => rw [hw] at hi; simp only [wrapWalk]; exact hput c' hi
          | notFound c' => rw [hw] at hi; simp only [wrapWalk]; exact hput c' hi
          | fail e => trivial
          | panic => trivial
          | doneSelf s a => rw [hw] at hi; exact absurd hi.2 (by simp [isNilN])
          | notFoundSelf s => rw [hw] at hi; exact absurd hi.2 (by simp [isNilN])

theorem withPath_fix {α} (o : Opts) (r : Root) (path : Bytes) (act : Node → Node → Bytes → Outcome (Node × α))
    (hs : shape r.con = true)
    (hact : ∀ self con key c' a, shape con = true → act self con key = .ok (c', a) →
      deepParse c' = deepParse con) :
    WalkFix r.self r.con (withPath o r path act) := by
  unfold withPath
  split
  · exact rfl
  · exact walk_fix o _ (fun self con c' a => hact self con _ c' a) _ _ _ _ hs

/-! ### `ensure` from two states in the same parse class -/

def EmapD : Outcome (Node × Node) → Outcome (Node × Node)
  | .ok (c, s) => .ok (deepParse c, deepParse s)
  | .err e => .err e
  | .panic => .panic

theorem deepParse_rawNull : deepParse rawNull = rawNull := rfl

theorem deepParseL_padNulls (n : Nat) : deepParseL (padNulls n) = padNulls n := by
  rw [deepParseL_eq_map, padNulls, List.map_replicate, deepParse_rawNull]

theorem deepParseL_append (xs ys : List Node) : deepParseL (xs ++ ys) = deepParseL xs ++ deepParseL ys := by
  simp only [deepParseL_eq_map, List.map_append]

theorem ensurePad_D (part : Bytes) (con : Node) (hs : shape con = true) :
    deepParse (ensurePad part con) = ensurePad part (deepParse con) := by
  cases con with
  | ary nodes =>
    simp only [ensurePad, deepParse]
    cases atoi part with
    | none => rfl
    | some ai =>
      simp only [length_deepParseL]
      split
      · simp only [deepParse, deepParseL_append, deepParseL_padNulls]
      · rfl
  | doc keys obj => simp only [ensurePad, deepParse]; cases atoi part <;> rfl
  | docNil => simp only [ensurePad, deepParse]; cases atoi part <;> rfl
  | nilAry => simp only [ensurePad, deepParse]; cases atoi part <;> rfl
  | nil => simp [shape] at hs
  | raw c => simp [shape] at hs

theorem ensurePad_shape (part : Bytes) (con : Node) (hs : shape con = true) : shape (ensurePad part con) = true := by
  unfold ensurePad
  split
  · split
    · rfl
    · exact hs
  · exact hs

theorem ensureTarget_D (o : Opts) (self con : Node) (key : Bytes) (hs : shape con = true) :
    ensureTarget o (deepParse self) (deepParse con) key = (ensureTarget o self con key).map deepParse := by
  unfold ensureTarget
  rw [conGet_D o self con key hs]
  cases hg : conGet o self con key with
  | panic => rfl
  | err e => rfl
  | ok n =>
    simp only [mapO]
    have := isNilN_deepParse n
    cases n with
    | nil => rfl
    | raw c =>
      generalize hm : deepParse (.raw c) = m at this
      cases m <;> simp_all [isNilN]
    | doc keys obj => rfl
    | ary ns => rfl
    | docNil => rfl
    | nilAry => rfl

theorem ensureAdd_eqv {o : Opts} {c₁ c₂ s₁ s₂ : Node} {key : Bytes} {x₁ x₂ : Outcome (Node × Node)}
    (hc : deepParse c₁ = deepParse c₂) (hs : deepParse s₁ = deepParse s₂)
    (h₁ : shape c₁ = true) (h₂ : shape c₂ = true) (hx : EmapD x₁ = EmapD x₂) :
    EmapD (ensureAdd o c₁ key s₁ x₁) = EmapD (ensureAdd o c₂ key s₂ x₂) := by
  cases x₁ with
  | ok p =>
    obtain ⟨ch1, t1⟩ := p
    cases x₂ with
    | ok q =>
      obtain ⟨ch2, t2⟩ := q
      simp only [EmapD, Outcome.ok.injEq, Prod.mk.injEq] at hx
      simp only [ensureAdd]
      have := conAdd_D o c₁ key ch1 h₁
      have h2 := conAdd_D o c₂ key ch2 h₂
      rw [hc, hx.1] at this
      rw [this] at h2
      cases ha1 : conAdd o c₁ key ch1 with
      | ok a1 =>
        cases ha2 : conAdd o c₂ key ch2 with
        | ok a2 =>
          rw [ha1, ha2] at h2
          simp only [mapO, Outcome.ok.injEq] at h2
          simp only [EmapD, h2, hs]
        | err e2 => rw [ha1, ha2] at h2; cases h2
        | panic => rw [ha1, ha2] at h2; cases h2
      | err e1 =>
        cases ha2 : conAdd o c₂ key ch2 with
        | ok a2 => rw [ha1, ha2] at h2; cases h2
        | err e2 => simp only [EmapD, hc, hs]
        | panic => rw [ha1, ha2] at h2; cases h2
      | panic =>
        cases ha2 : conAdd o c₂ key ch2 with
        | ok a2 => rw [ha1, ha2] at h2; cases h2
        | err e2 => rw [ha1, ha2] at h2; cases h2
        | panic => rfl
    | err e => cases hx
    | panic => cases hx
  | err e1 =>
    cases x₂ with
    | ok q => obtain ⟨ch2, t2⟩ := q; cases hx
    | err e2 => simpa [EmapD, ensureAdd] using hx
    | panic => cases hx
  | panic =>
    cases x₂ with
    | ok q => obtain ⟨ch2, t2⟩ := q; cases hx
    | err e2 => cases hx
    | panic => rfl

theorem ensurePut_eqv {o : Opts} {c₁ c₂ s₁ s₂ : Node} {key : Bytes} {x₁ x₂ : Outcome (Node × Node)}
    (hc : deepParse c₁ = deepParse c₂) (hs : deepParse s₁ = deepParse s₂)
    (h₁ : shape c₁ = true) (h₂ : shape c₂ = true) (hx : EmapD x₁ = EmapD x₂) :
    EmapD (ensurePut o c₁ key s₁ x₁) = EmapD (ensurePut o c₂ key s₂ x₂) := by
  cases x₁ with
  | ok p =>
    obtain ⟨ch1, t1⟩ := p
    cases x₂ with
    | ok q =>
      obtain ⟨ch2, t2⟩ := q
      simp only [EmapD, Outcome.ok.injEq, Prod.mk.injEq] at hx
      simp only [ensurePut]
      simp only [EmapD, putChild_D o c₁ key ch1 h₁, putChild_D o c₂ key ch2 h₂, hc, hx.1, hs]
    | err e => cases hx
    | panic => cases hx
  | err e1 =>
    cases x₂ with
    | ok q => obtain ⟨ch2, t2⟩ := q; cases hx
    | err e2 => simpa [EmapD, ensurePut] using hx
    | panic => cases hx
  | panic =>
    cases x₂ with
    | ok q => obtain ⟨ch2, t2⟩ := q; cases hx
    | err e2 => cases hx
    | panic => rfl

theorem ensure_eqv (o : Opts) : ∀ (parts : List Bytes) (cr : Bool) (s₁ s₂ c₁ c₂ : Node),
    deepParse s₁ = deepParse s₂ → deepParse c₁ = deepParse c₂ → shape c₁ = true → shape c₂ = true →
    EmapD (ensure o cr s₁ c₁ parts) = EmapD (ensure o cr s₂ c₂ parts) := by
  intro parts
  induction parts with
  | nil => intro cr s₁ s₂ c₁ c₂ hs hc _ _; rw [ensure, ensure]; simp only [EmapD, hs, hc]
  | cons part rest ih =>
    intro cr s₁ s₂ c₁ c₂ hs hc h₁ h₂
    cases rest with
    | nil => rw [ensure, ensure]; simp only [EmapD, hs, hc]
    | cons nxt rest =>
      rw [ensure_cons2, ensure_cons2]
      have ht : (ensureTarget o s₁ c₁ (decodeToken part)).map deepParse =
          (ensureTarget o s₂ c₂ (decodeToken part)).map deepParse := by
        rw [← ensureTarget_D o s₁ c₁ _ h₁, ← ensureTarget_D o s₂ c₂ _ h₂, hs, hc]
      have hpad : deepParse (ensurePad part c₁) = deepParse (ensurePad part c₂) := by
        rw [ensurePad_D part c₁ h₁, ensurePad_D part c₂ h₂, hc]
      cases ht1 : ensureTarget o s₁ c₁ (decodeToken part) with
      | none =>
        cases ht2 : ensureTarget o s₂ c₂ (decodeToken part) with
        | some t2 => rw [ht1, ht2] at ht; cases ht
        | none =>
          simp only []
          split
          · split
            · rfl
            · split
              · rfl
              · exact ensureAdd_eqv hpad hs (ensurePad_shape part c₁ h₁) (ensurePad_shape part c₂ h₂) rfl
          · exact ensureAdd_eqv hpad hs (ensurePad_shape part c₁ h₁) (ensurePad_shape part c₂ h₂) rfl
      | some t1 =>
        cases ht2 : ensureTarget o s₂ c₂ (decodeToken part) with
        | none => rw [ht1, ht2] at ht; cases ht
        | some t2 =>
          rw [ht1, ht2] at ht
          simp only [Option.map_some, Option.some.injEq] at ht
          simp only []
          have he := mapO_enter_eqv (cr := cr) (key := decodeToken part) ht
          cases he1 : enter cr (decodeToken part) t1 with
          | panic =>
            cases he2 : enter cr (decodeToken part) t2 with
            | panic => rfl
            | err e2 => rw [he1, he2] at he; cases he
            | ok ch2 => rw [he1, he2] at he; cases he
          | err e1 =>
            cases he2 : enter cr (decodeToken part) t2 with
            | panic => rw [he1, he2] at he; cases he
            | err e2 => rw [he1, he2] at he; simpa [mapO, EmapD] using he
            | ok ch2 => rw [he1, he2] at he; cases he
          | ok ch1 =>
            cases he2 : enter cr (decodeToken part) t2 with
            | panic => rw [he1, he2] at he; cases he
            | err e2 => rw [he1, he2] at he; cases he
            | ok ch2 =>
              rw [he1, he2] at he
              simp only [mapO, Outcome.ok.injEq] at he
              simp only []
              exact ensurePut_eqv hc hs h₁ h₂
                (ih false .nil .nil ch1 ch2 rfl he (enter_shape he1) (enter_shape he2))

end Impl
end JP
